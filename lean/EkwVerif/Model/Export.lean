/-
Model of `earthkit.workflows.graph.export` (serialise / deserialise / to_json / from_json, after
the C12 `fix:` commits), `Node.serialise` / `Output.serialise` (graph/nodes.py), `Graph.__eq__`
(graph/graph.py) and `Cascade.serialise` / `Cascade.from_serialised` (workflows/__init__.py; dill is a
parameter, see `fileData` / `dillPV`).

A Python `Graph` is a list of sink `Node` objects whose inputs point at parent objects.  Under the
property's hypothesis (unique node names) an object reference is a name, so a graph is modelled
as
    nodes : the node records, parents before children (a topological order)
    sinks : the names in `Graph.sinks`
`Graph.nodes()` (DFS from the sinks) is modelled by its result SET: `graphNodes` keeps the nodes
reachable from the sinks, computed by one backward sweep over the topological order.  Iteration
orders (DFS order, `graphlib.TopologicalSorter.static_order`, dict order) are not modelled:
`serialise` and `__eq__` are keyed by name and nothing in the property depends on an order; the
model's `deserialise` takes the dict entries in a topological order and returns `.error` where
Python would raise (`KeyError` for an unknown parent, `AttributeError` for a missing output,
`TypeError` for an input whose name is a keyword-bindable parameter of a function on the call path
`_deserialise_node → node_factory → Node.__init__`, which all receive the inputs as `**kwargs`; the
list of such names is generated from the source, `Gen/ExportParams.lean`).

Payloads (`PV`): None, bool, int, str, float (NaN flagged: `nan != nan`), values of types that
`json.dumps` rejects and that compare by VALUE (`val`: bytes, complex, set / frozenset of such leaves,
instances of an importable class with `__eq__` over its state - no NaN inside; leaves of the model:
kind = type name, repr = canonical text; `set` and `frozenset` of equal content are different kinds,
stricter than Python), opaque objects compared by
identity (`atom`: functions and other callables; `byRef` = dill pickles it by reference), objects that
have a `serialise()` method (`hook`: `Node.serialise` stores the method's result instead of the
object, top level only), lists, tuples, dicts with str / int / bool / None keys.
`normPV` is `json.loads ∘ json.dumps` (tuples become lists, keys become strings, later duplicates of
a key overwrite earlier ones), `dillPV` is `dill.load ∘ dill.dump` (structure kept; a by-value
object comes back as a NEW object).
-/
namespace EkwVerif.Export

/-! ### payload values -/

/-- dict keys -/
inductive Key
  | str (s : String)
  | int (i : Int)
  | bool (b : Bool)
  | none
deriving DecidableEq, Repr

inductive PV
  | none
  | bool (b : Bool)
  | int (i : Int)
  | str (s : String)
  | float (nan : Bool) (repr : String)   -- `repr` = float.hex(), "nan" for NaN
  | atom (byRef : Bool) (id : Nat)       -- object compared by identity; `id` = which object
  | val (kind repr : String)             -- value of a type json rejects, compared by value: bytes, complex, set, frozenset,
                                         -- instance of a class with `__eq__` on its state; `kind` = type name, `repr` = canonical text
  | hook (id : Nat) (ser : PV)           -- object `id` with a method `serialise()` returning `ser`
  | list (l : List PV)
  | tuple (l : List PV)
  | dict (l : List (Key × PV))
deriving Repr

/-- the string `json.dumps` writes for a dict key -/
def jsonKey : Key → String
  | .str s => s
  | .int i => toString i
  | .bool true => "true"
  | .bool false => "false"
  | .none => "null"

/-- `d[k] = v` on an insertion-ordered dict: overwrite in place, else append -/
def dictSet (d : List (Key × α)) (k : Key) (v : α) : List (Key × α) :=
  match d with
  | [] => [(k, v)]
  | (k', v') :: r => if k' = k then (k', v) :: r else (k', v') :: dictSet r k v

/-- `dict(pairs)`: what `json.loads` builds from the pairs of an object -/
def dictOfPairs (d : List (Key × α)) : List (Key × α) := d.foldl (fun acc e => dictSet acc e.1 e.2) []

mutual
/-- `json.loads(json.dumps(v))` on a value `json.dumps` accepts (see `jsonable`) -/
def normPV : PV → PV
  | .tuple l => .list (normL l)
  | .list l => .list (normL l)
  | .dict d => .dict (dictOfPairs (normD d))
  | v => v
def normL : List PV → List PV
  | [] => []
  | v :: vs => normPV v :: normL vs
def normD : List (Key × PV) → List (Key × PV)
  | [] => []
  | (k, v) :: r => (.str (jsonKey k), normPV v) :: normD r
end

mutual
/-- `json.dumps` accepts the value (otherwise it raises `TypeError`) -/
def jsonable : PV → Bool
  | .atom _ _ => false
  | .val _ _ => false
  | .hook _ _ => false
  | .list l => jsonableL l
  | .tuple l => jsonableL l
  | .dict d => jsonableD d
  | _ => true
def jsonableL : List PV → Bool
  | [] => true
  | v :: vs => jsonable v && jsonableL vs
def jsonableD : List (Key × PV) → Bool
  | [] => true
  | (_, v) :: r => jsonable v && jsonableD r
end

mutual
/-- `dill.load(dill.dump(v))`: containers, numbers and strings are rebuilt with the same
structure; a `val` leaf (bytes, complex, set, instance of an importable value class) is rebuilt as
an equal value of the same type; an object pickled by reference is the same object again, one
pickled by value is a new object (`fresh id`). -/
def dillPV (fresh : Nat → Nat) : PV → PV
  | .atom byRef id => if byRef then .atom byRef id else .atom byRef (fresh id)
  | .hook id ser => .hook (fresh id) (dillPV fresh ser)
  | .list l => .list (dillL fresh l)
  | .tuple l => .tuple (dillL fresh l)
  | .dict d => .dict (dillD fresh d)
  | v => v
def dillL (fresh : Nat → Nat) : List PV → List PV
  | [] => []
  | v :: vs => dillPV fresh v :: dillL fresh vs
def dillD (fresh : Nat → Nat) : List (Key × PV) → List (Key × PV)
  | [] => []
  | (k, v) :: r => (k, dillPV fresh v) :: dillD fresh r
end

mutual
/-- Python `x is y or x == y`, the comparison of container ELEMENTS.  `shared = true`: the two
values are literally the same objects wherever they are structurally identical (the dict round
trip hands the payload object through), so the identity shortcut makes a NaN inside a container
equal to itself; `shared = false`: all objects are distinct (JSON, dill). -/
def pvEqIn (shared : Bool) : PV → PV → Bool
  | .none, .none => true
  | .bool a, .bool b => a == b
  | .int a, .int b => a == b
  | .str a, .str b => a == b
  | .float na ra, .float nb rb => (shared || !(na || nb)) && na == nb && ra == rb
  | .atom _ a, .atom _ b => a == b
  | .val ka a, .val kb b => ka == kb && a == b
  | .hook a _, .hook b _ => a == b
  | .list a, .list b => pvEqL shared a b
  | .tuple a, .tuple b => pvEqL shared a b
  | .dict a, .dict b => pvEqD shared a b
  | _, _ => false
def pvEqL (shared : Bool) : List PV → List PV → Bool
  | [], [] => true
  | a :: as, b :: bs => pvEqIn shared a b && pvEqL shared as bs
  | _, _ => false
def pvEqD (shared : Bool) : List (Key × PV) → List (Key × PV) → Bool
  | [], [] => true
  | (k, a) :: as, (k', b) :: bs => k == k' && pvEqIn shared a b && pvEqD shared as bs
  | _, _ => false
end

/-- Python `==` on payload values, as `Graph.__eq__` applies it (`node.payload != onode.payload`):
no identity shortcut at the top level, so a NaN payload is never equal, not even to itself; a tuple
is never equal to a list.  (bool/int/float cross-type equality and dict order are not modelled:
stricter than Python, never needed for a round trip.) -/
def pvEq (shared : Bool) : PV → PV → Bool
  | .float na ra, .float nb rb => !(na || nb) && ra == rb
  | a, b => pvEqIn shared a b

/-! ### nodes and graphs -/

def defaultOutput : String := "0"        -- Node.DEFAULT_OUTPUT

/-- `Output`: (parent node, output name) -/
structure Src where
  parent : String
  out : String
deriving DecidableEq, Repr

structure Node where
  name : String
  outputs : List String
  payload : PV                           -- `.none` = Python `None`
  inputs : List (String × Src)           -- dict: input name ↦ Output
deriving Repr

structure Graph where
  nodes : List Node
  sinks : List String
deriving Repr

def parents (n : Node) : List String := n.inputs.map (fun i => i.2.parent)

/-- backward sweep: process the LATER nodes first; keep a node iff some kept consumer (or the
sink list) needs it.  Returns (kept nodes in list order, names needed so far). -/
def sweep : List Node → List String → List Node × List String
  | [], need => ([], need)
  | n :: rest, need =>
    let r := sweep rest need
    if n.name ∈ r.2 then (n :: r.1, r.2 ++ parents n) else r

/-- the node set of `Graph.nodes()` -/
def graphNodes (g : Graph) : List Node := (sweep g.nodes g.sinks).1

/-! ### serialised form -/

/-- `Output.serialise()`: a bare parent name for the default output, else a pair; after a JSON
round trip the pair is a list (`tup = false`). -/
inductive Ref
  | bare (parent : String)
  | pair (tup : Bool) (parent out : String)
deriving DecidableEq, Repr

/-- `Node.serialise()`: `payload` key present iff the payload is not `None` -/
structure SNode where
  outputs : List String
  inputs : List (String × Ref)
  payload : Option PV
deriving Repr

def serSrc (s : Src) : Ref := if s.out = defaultOutput then .bare s.parent else .pair true s.parent s.out

def isNone : PV → Bool
  | .none => true
  | _ => false

/-- `payload.serialise() if hasattr(payload, "serialise") else payload` (the payload object itself
only, nothing inside it) -/
def hookSer : PV → PV
  | .hook _ ser => ser
  | p => p

def serNode (n : Node) : SNode :=
  { outputs := n.outputs
    inputs := n.inputs.map (fun i => (i.1, serSrc i.2))
    payload := if isNone n.payload then none else some (hookSer n.payload) }

/-- `serialise(graph)`: one entry per node of `graph.nodes()` -/
def serialise (g : Graph) : List (String × SNode) := (graphNodes g).map (fun n => (n.name, serNode n))

def normRef : Ref → Ref
  | .bare p => .bare p
  | .pair _ p o => .pair false p o

/-- `json.loads(json.dumps(data))` -/
def jsonNorm (data : List (String × SNode)) : List (String × SNode) :=
  data.map (fun e => (e.1, { outputs := e.2.outputs
                             inputs := e.2.inputs.map (fun i => (i.1, normRef i.2))
                             payload := e.2.payload.map normPV }))

/-- `json.dumps(data)` succeeds -/
def jsonOk (data : List (String × SNode)) : Bool :=
  data.all (fun e => match e.2.payload with
    | none => true
    | some p => jsonable p)

/-- `dill.load(dill.dump(data))` with `d` = what dill does to one payload value; names, output
lists and references (str, list of str, tuple of str) are rebuilt exactly. -/
def fileData (d : PV → PV) (data : List (String × SNode)) : List (String × SNode) :=
  data.map (fun e => (e.1, { e.2 with payload := e.2.payload.map d }))

inductive Err | keyError | attributeError | typeError
deriving DecidableEq, Repr

def findNode : List Node → String → Option Node
  | [], _ => none
  | n :: ns, name => if n.name = name then some n else findNode ns name

/-- `nodes[src].get_output()` / `nodes[parent].get_output(oname)` -/
def resolve (built : List Node) (r : Ref) : Except Err Src :=
  let po : String × String := match r with
    | .bare p => (p, defaultOutput)
    | .pair _ p o => (p, o)
  match findNode built po.1 with
  | none => .error .keyError
  | some p => if po.2 ∈ p.outputs then .ok { parent := po.1, out := po.2 } else .error .attributeError

def resolveAll (built : List Node) : List (String × Ref) → Except Err (List (String × Src))
  | [] => .ok []
  | (i, r) :: rest =>
    match resolve built r with
    | .error e => .error e
    | .ok s =>
      match resolveAll built rest with
      | .error e => .error e
      | .ok ss => .ok ((i, s) :: ss)

/-- the loop of `deserialise` over the entries in topological order.  `reserved` = the
keyword-bindable parameter names along `_deserialise_node(name, node_data, node_factory, **node_inputs)`
→ `node_factory(name, outputs, payload, **inputs)` → `Node(name, outputs, payload, **inputs)`: an input
of such a name makes the call raise `TypeError` (after the inputs have been resolved). -/
def deserLoop (reserved : List String) (built : List Node) : List (String × SNode) → Except Err (List Node)
  | [] => .ok built
  | (name, sn) :: rest =>
    match resolveAll built sn.inputs with
    | .error e => .error e
    | .ok ins =>
      if sn.inputs.any (fun i => decide (i.1 ∈ reserved)) then .error .typeError else
      deserLoop reserved (built ++ [{ name := name, outputs := sn.outputs, payload := sn.payload.getD .none, inputs := ins }]) rest

/-- the parent named by a reference (`inp if isinstance(inp, str) else inp[0]`) -/
def refParent : Ref → String
  | .bare p => p
  | .pair _ p _ => p

/-- `consumed`: every name some entry lists as a parent -/
def consumed (data : List (String × SNode)) : List String :=
  data.flatMap (fun e => e.2.inputs.map (fun i => refParent i.2))

/-- `deserialise(data)` with the default node factory (fixed: the sinks are the nodes nobody
consumes) -/
def deserialise (reserved : List String) (data : List (String × SNode)) : Except Err Graph :=
  match deserLoop reserved [] data with
  | .error e => .error e
  | .ok ns => .ok { nodes := ns, sinks := (ns.map (·.name)).filter (fun n => n ∉ consumed data) }

/-- `from_json(to_json(g))` -/
def jsonTrip (reserved : List String) (g : Graph) : Except Err Graph :=
  if jsonOk (serialise g) then deserialise reserved (jsonNorm (serialise g)) else .error .typeError

/-- `Cascade.from_serialised(f)` after `Cascade(g).serialise(f)`, dill's action on payloads being `d` -/
def fileTrip (reserved : List String) (d : PV → PV) (g : Graph) : Except Err Graph :=
  deserialise reserved (fileData d (serialise g))

/-- `deserialise(data, node_factory)` for a factory that builds `Node(name, outputs, inv payload, **inputs)` -/
def withFactory (inv : PV → PV) (g : Graph) : Graph :=
  { g with nodes := g.nodes.map (fun n => { n with payload := inv n.payload }) }

/-! ### `Graph.__eq__` -/

def lookupSrc : List (String × Src) → String → Option Src
  | [], _ => none
  | (k, s) :: r, i => if k = i then some s else lookupSrc r i

/-- `a.keys() == b.keys()` on key lists -/
def sameKeys (a b : List String) : Bool := a.all (fun k => k ∈ b) && b.all (fun k => k ∈ a)

def nodeEq (shared : Bool) (n o : Node) : Bool :=
  n.name == o.name && n.outputs == o.outputs && sameKeys (n.inputs.map (·.1)) (o.inputs.map (·.1)) &&
  n.inputs.all (fun i => match lookupSrc o.inputs i.1 with
    | none => false
    | some s => i.2.parent == s.parent && i.2.out == s.out) &&
  pvEq shared n.payload o.payload

/-- `a == b`; `shared` as in `pvEqIn`: structurally identical payloads of the two graphs are the
same Python objects -/
def graphEq (shared : Bool) (a b : Graph) : Bool :=
  let na := graphNodes a
  let nb := graphNodes b
  sameKeys (na.map (·.name)) (nb.map (·.name)) &&
  na.all (fun n => match findNode nb n.name with
    | none => false
    | some o => nodeEq shared n o)

end EkwVerif.Export
