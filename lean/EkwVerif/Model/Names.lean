/-
Model of fluent node naming (`earthkit.workflows.fluent.Payload.__str__`, `Node.__init__`,
`from_source`) and of "operations leave operands intact".

    name(node) = label ++ ":" ++ H( fname ++ repr(args) ++ repr(kwargs) ++ repr([input names]) )

`label` is the callable's `__name__` (or the explicit name `from_source` passes), `H` is
`sha256(...).hexdigest()` — abstract here. Strings are `List Char` (the property is about strings).
Python's `repr` is modelled for ints, strings (printable ASCII, `\n`, `\t`), floats (their repr is
passed through), bools, None, lists, tuples and dicts with string keys.

The second part is a store of actions: every operation of the (fixed) code reads its operands and
adds ONE new action; it never replaces an existing one.
-/
import EkwVerif.Model.Fluent

namespace EkwVerif.Names

abbrev Str := List Char

/-! ### Python `repr` -/

inductive PyVal
  | int (i : Int)
  | str (s : Str)
  | flt (r : Str)          -- a float, given by its Python repr
  | bool (b : Bool)
  | none
  | list (l : List PyVal)
  | tuple (l : List PyVal)
deriving Repr, Inhabited

def escapeChar (q : Char) (c : Char) : Str :=
  if c = '\\' then ['\\', '\\']
  else if c = q then ['\\', q]
  else if c = '\n' then ['\\', 'n']
  else if c = '\t' then ['\\', 't']
  else if c = '\r' then ['\\', 'r']
  else [c]

/-- `repr(str)`: single quotes unless the string contains `'` and no `"`. -/
def reprStr (s : Str) : Str :=
  let q : Char := if s.contains '\'' && !s.contains '"' then '"' else '\''
  q :: (s.flatMap (escapeChar q)) ++ [q]

def intercalate (sep : Str) : List Str → Str
  | [] => []
  | [x] => x
  | x :: y :: rest => x ++ sep ++ intercalate sep (y :: rest)

mutual
def PyVal.repr : PyVal → Str
  | .int i => (toString i).toList
  | .str s => reprStr s
  | .flt r => r
  | .bool b => if b then "True".toList else "False".toList
  | .none => "None".toList
  | .list l => '[' :: intercalate [',', ' '] (reprAll l) ++ [']']
  | .tuple l =>
    match reprAll l with
    | [x] => '(' :: x ++ [',', ')']
    | xs => '(' :: intercalate [',', ' '] xs ++ [')']
def reprAll : List PyVal → List Str
  | [] => []
  | v :: vs => v.repr :: reprAll vs
end

/-- `repr(dict)` with string keys, insertion order -/
def reprDict (kw : List (Str × PyVal)) : Str :=
  '{' :: intercalate [',', ' '] (kw.map (fun (k, v) => reprStr k ++ [':', ' '] ++ v.repr)) ++ ['}']

/-- `repr([names…])` -/
def reprNames (names : List Str) : Str :=
  '[' :: intercalate [',', ' '] (names.map reprStr) ++ [']']

/-! ### names -/

/-- a Python callable: its `__name__` and its identity -/
structure Callable where
  name : Str
  ident : Nat
deriving DecidableEq, Repr

/-- what defines a node: the callable, the static part of the payload, the names of the inputs -/
structure Comp (σ : Type) where
  func : Callable
  statics : σ
  inputs : List Str

/-- the string that is hashed: `f"{payload}{[input names]}"`, `R` renders the statics -/
def render {σ : Type} (R : σ → Str) (c : Comp σ) : Str :=
  c.func.name ++ R c.statics ++ reprNames c.inputs

/-- `Node.name` when no explicit name is given -/
def nodeName {σ : Type} (H : Str → Str) (R : σ → Str) (c : Comp σ) : Str :=
  c.func.name ++ ':' :: H (render R c)

/-- `Node.name` with an explicit label (source nodes) -/
def nodeNameLabelled {σ : Type} (H : Str → Str) (R : σ → Str) (label : Str) (c : Comp σ) : Str :=
  label ++ ':' :: H (render R c)

/-- the concrete statics of a payload: positional arguments (a list) and keyword arguments -/
abbrev Statics := List PyVal × List (Str × PyVal)

def renderStatics (s : Statics) : Str := (PyVal.list s.1).repr ++ reprDict s.2

/-- the name an input contributes: `node.name`, or `parent.name + "." + output` for an Output -/
def inputName (parent : Str) (output : Option Str) : Str :=
  match output with
  | none => parent
  | some o => parent ++ '.' :: o

/-- `from_source`: "Ensure all source nodes have a unique name" — a label already used gets the
multi-index appended; labels are visited in row-major order. -/
def tupleRepr (idx : List Nat) : Str := (PyVal.tuple (idx.map (fun i => PyVal.int (Int.ofNat i)))).repr

def sourceLabels : List (Str × List Nat) → List Str → List Str
  | [], _ => []
  | (n, idx) :: rest, seen =>
    let label := if seen.contains n then n ++ tupleRepr idx else n
    label :: sourceLabels rest (label :: seen)

/-! ### operations leave operands intact -/

open EkwVerif.Fluent in
/-- the operations that take actions as operands (indices into the store) -/
inductive FOp
  | join (a b : Nat) (dim : DimArg) (mtch : Bool)
  | broadcast (a b : Nat)
  | arith (fn : String) (a b : Nat)
  | combine (method : String) (a : Nat) (d : String) (b : Nat) (keep : Bool)
  | reduce (p : Payload) (a : Nat) (d : String) (b : Nat) (keep : Bool)
  | select (a : Nat) (d : String) (c : Coord) (drop : Bool)

open EkwVerif.Fluent in
def FOp.run (st : List NodeArray) : FOp → Except Err NodeArray
  | .join a b dim m => Fluent.join (st.getD a default) (st.getD b default) dim m
  | .broadcast a b => Fluent.broadcast (st.getD a default) (st.getD b default)
  | .arith fn a b => Fluent.arithAction fn (st.getD a default) (st.getD b default)
  | .combine m a d b k => Fluent.combine m [] d b k (st.getD a default)
  | .reduce p a d b k => Fluent.reduce p none d b k (st.getD a default)
  | .select a d c drop => Fluent.select d (Sel.one c) drop (st.getD a default)

open EkwVerif.Fluent in
/-- one operation on the store of live actions: the result is appended, nothing else changes
(after the `fix:` commits `join(match_coord_values)` and `_combine_nodes` work on local copies) -/
def step (st : List NodeArray) (op : FOp) : List NodeArray :=
  match op.run st with
  | .ok r => st ++ [r]
  | .error _ => st

end EkwVerif.Names
