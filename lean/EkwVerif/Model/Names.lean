/-
Model of fluent node naming (`earthkit.workflows.fluent.Payload.__str__`, `Node.__init__`,
`from_source`) and of "operations leave operands intact".

    name(node) = label ++ ":" ++ H( fname ++ repr(args) ++ repr(kwargs) ++ repr([input names]) )

`label` is the callable's `__name__` (or the explicit name `from_source` passes), `H` is
`sha256(...).hexdigest()` — abstract here. Strings are `List Char` (the property is about strings).
Python's `repr` is modelled for ints, strings (printable ASCII, `\n`, `\t`), floats (their repr is
passed through), bools, None, lists, tuples and dicts with string keys.

The second part is a store of actions: every operation of the (fixed) code reads its operands and
adds ONE new action; it never replaces an existing one.
-/
import EkwVerif.Model.Fluent

namespace EkwVerif.Names

abbrev Str := List Char

/-! ### Python `repr` -/

inductive PyVal
  | int (i : Int)
  | str (s : Str)
  | flt (r : Str)          -- a float, given by its Python repr
  | bool (b : Bool)
  | none
  | list (l : List PyVal)
  | tuple (l : List PyVal)
  | dict (kv : List (Str × PyVal))     -- string keys, insertion order
  | set (frozen : Bool) (l : List PyVal)   -- a set / frozenset, its elements in WHATEVER order the interpreter iterates them
deriving Repr, Inhabited

def escapeChar (q : Char) (c : Char) : Str :=
  if c = '\\' then ['\\', '\\']
  else if c = q then ['\\', q]
  else if c = '\n' then ['\\', 'n']
  else if c = '\t' then ['\\', 't']
  else if c = '\r' then ['\\', 'r']
  else [c]

/-- `repr(str)`: single quotes unless the string contains `'` and no `"`. -/
def reprStr (s : Str) : Str :=
  let q : Char := if s.contains '\'' && !s.contains '"' then '"' else '\''
  q :: (s.flatMap (escapeChar q)) ++ [q]

def intercalate (sep : Str) : List Str → Str
  | [] => []
  | [x] => x
  | x :: y :: rest => x ++ sep ++ intercalate sep (y :: rest)

/-- Python's order on strings: lexicographic by code point -/
def strLe : Str → Str → Bool
  | [], _ => true
  | _ :: _, [] => false
  | a :: as, b :: bs => if a.toNat < b.toNat then true else if b.toNat < a.toNat then false else strLe as bs

def insertSorted (x : Str) : List Str → List Str
  | [] => [x]
  | y :: ys => if strLe x y then x :: y :: ys else y :: insertSorted x ys

/-- `sorted(strings)` -/
def sortStrs (l : List Str) : List Str := l.foldr insertSorted []

/-- `fluent._render` of a set / frozenset whose elements are already rendered (fix commit: the elements are listed in
sorted order of their renderings; `set()` / `frozenset()` when empty) -/
def renderSet (frozen : Bool) (items : List Str) : Str :=
  match sortStrs items with
  | [] => if frozen then "frozenset()".toList else "set()".toList
  | xs =>
    if frozen then "frozenset({".toList ++ intercalate [',', ' '] xs ++ ['}', ')']
    else '{' :: intercalate [',', ' '] xs ++ ['}']

mutual
def PyVal.repr : PyVal → Str
  | .int i => (toString i).toList
  | .str s => reprStr s
  | .flt r => r
  | .bool b => if b then "True".toList else "False".toList
  | .none => "None".toList
  | .list l => '[' :: intercalate [',', ' '] (reprAll l) ++ [']']
  | .tuple l =>
    match reprAll l with
    | [x] => '(' :: x ++ [',', ')']
    | xs => '(' :: intercalate [',', ' '] xs ++ [')']
  | .dict kv => '{' :: intercalate [',', ' '] (reprItems kv) ++ ['}']
  | .set frozen l => renderSet frozen (reprAll l)
def reprAll : List PyVal → List Str
  | [] => []
  | v :: vs => v.repr :: reprAll vs
def reprItems : List (Str × PyVal) → List Str
  | [] => []
  | (k, v) :: rest => (reprStr k ++ [':', ' '] ++ v.repr) :: reprItems rest
end

/-- `repr(dict)` with string keys, insertion order -/
def reprDict (kw : List (Str × PyVal)) : Str :=
  '{' :: intercalate [',', ' '] (kw.map (fun (k, v) => reprStr k ++ [':', ' '] ++ v.repr)) ++ ['}']

/-- `repr([names…])` -/
def reprNames (names : List Str) : Str :=
  '[' :: intercalate [',', ' '] (names.map reprStr) ++ [']']

/-! ### names -/

/-- a Python callable: its `__name__` and its identity -/
structure Callable where
  name : Str
  ident : Nat
deriving DecidableEq, Repr

/-- what defines a node: the callable, the static part of the payload, the names of the inputs, and the
number of outputs (`num_outputs`: 1, or the length of `yields`) -/
structure Comp (σ : Type) where
  func : Callable
  statics : σ
  inputs : List Str
  outputs : Nat := 1
deriving DecidableEq

/-- the part of the hashed string that covers the number of outputs (fix commit): nothing for one output,
`|outputs=<n>` otherwise -/
def outSuffix (n : Nat) : Str := if n = 1 then [] else "|outputs=".toList ++ (toString n).toList

/-- the string that is hashed: `f"{payload}{[input names]}"` (+ `f"|outputs={num_outputs}"` unless there is one
output), `R` renders the statics -/
def render {σ : Type} (R : σ → Str) (c : Comp σ) : Str :=
  c.func.name ++ R c.statics ++ reprNames c.inputs ++ outSuffix c.outputs

/-- `Node.name` when no explicit name is given -/
def nodeName {σ : Type} (H : Str → Str) (R : σ → Str) (c : Comp σ) : Str :=
  c.func.name ++ ':' :: H (render R c)

/-- `Node.name` with an explicit label (source nodes) -/
def nodeNameLabelled {σ : Type} (H : Str → Str) (R : σ → Str) (label : Str) (c : Comp σ) : Str :=
  label ++ ':' :: H (render R c)

/-! ### unions -/

/-- `deduplicate_nodes` over the nodes of a union (`Cascade.from_actions`, `+`, `+=`): of the nodes that are the same
computation (same callable object, statics, inputs, outputs) the first one is kept -/
def insertNew {σ : Type} [DecidableEq σ] (acc : List (Comp σ)) (c : Comp σ) : List (Comp σ) :=
  if c ∈ acc then acc else acc ++ [c]

def dedupNodes {σ : Type} [DecidableEq σ] (g : List (Comp σ)) : List (Comp σ) := g.foldl insertNew []

/-- the concrete statics of a payload: positional arguments (a list) and keyword arguments -/
abbrev Statics := List PyVal × List (Str × PyVal)

def renderStatics (s : Statics) : Str := (PyVal.list s.1).repr ++ reprDict s.2

/-- the name an input contributes: `node.name`, or `parent.name + "." + output` for an Output -/
def inputName (parent : Str) (output : Option Str) : Str :=
  match output with
  | none => parent
  | some o => parent ++ '.' :: o

/-- `from_source`: "Ensure all source nodes have a unique name" — a label already used gets the
multi-index appended; labels are visited in row-major order. -/
def tupleRepr (idx : List Nat) : Str := (PyVal.tuple (idx.map (fun i => PyVal.int (Int.ofNat i)))).repr

def sourceLabels : List (Str × List Nat) → List Str → List Str
  | [], _ => []
  | (n, idx) :: rest, seen =>
    let label := if seen.contains n then n ++ tupleRepr idx else n
    label :: sourceLabels rest (label :: seen)

/-! ### whole computations -/

mutual
/-- a node together with everything it is computed from. `label`: the explicit name `from_source` passes
(`none`: the callable's `__name__`); `outputs`: the number of outputs -/
inductive Term (σ : Type)
  | node (label : Option Str) (func : Callable) (statics : σ) (outputs : Nat) (args : Args σ)
/-- the inputs of a node in parameter order: a node, or one named output of a node -/
inductive Args (σ : Type)
  | nil
  | cons (t : Term σ) (out : Option Str) (rest : Args σ)
end

mutual
/-- `Node.name`, bottom-up -/
def Term.name {σ : Type} (H : Str → Str) (R : σ → Str) : Term σ → Str
  | .node label f s o args => (label.getD f.name) ++ ':' :: H (f.name ++ R s ++ reprNames (Args.names H R args) ++ outSuffix o)
def Args.names {σ : Type} (H : Str → Str) (R : σ → Str) : Args σ → List Str
  | .nil => []
  | .cons t out rest => inputName (Term.name H R t) out :: Args.names H R rest
end

mutual
/-- the computation a term denotes: whether the prefix of the name was passed explicitly is normalised away -/
def Term.comp {σ : Type} : Term σ → Term σ
  | .node label f s o args => .node (some (label.getD f.name)) f s o (Args.comp args)
def Args.comp {σ : Type} : Args σ → Args σ
  | .nil => .nil
  | .cons t out rest => .cons (Term.comp t) out (Args.comp rest)
end

/-! ### operations leave operands intact -/

open EkwVerif.Fluent in
/-- the operations that take actions as operands (indices into the store) -/
inductive FOp
  | join (a b : Nat) (dim : DimArg) (mtch : Bool)
  | broadcast (a b : Nat)
  | arith (fn : String) (a b : Nat)
  | combine (method : String) (a : Nat) (d : String) (b : Nat) (keep : Bool)
  | reduce (p : Payload) (a : Nat) (d : String) (b : Nat) (keep : Bool)
  | select (a : Nat) (d : String) (c : Coord) (drop : Bool)

open EkwVerif.Fluent in
def FOp.run (st : List NodeArray) : FOp → Except Err NodeArray
  | .join a b dim m => Fluent.join (st.getD a default) (st.getD b default) dim m
  | .broadcast a b => Fluent.broadcast (st.getD a default) (st.getD b default)
  | .arith fn a b => Fluent.arithAction fn (st.getD a default) (st.getD b default)
  | .combine m a d b k => Fluent.combine m [] d b k (st.getD a default)
  | .reduce p a d b k => Fluent.reduce p none d b k (st.getD a default)
  | .select a d c drop => Fluent.select d (Sel.one c) drop (st.getD a default)

open EkwVerif.Fluent in
/-- one operation on the store of live actions: the result is appended, nothing else changes
(after the `fix:` commits `join(match_coord_values)` and `_combine_nodes` work on local copies) -/
def step (st : List NodeArray) (op : FOp) : List NodeArray :=
  match op.run st with
  | .ok r => st ++ [r]
  | .error _ => st

/-! ### the heap of action objects: `Action.transform`, statement by statement

Python actions are objects; `_add_dimension` and `_squeeze_dimension` assign `self.nodes` IN PLACE.
The heap is the list of all action objects ever created (cell `i` = the node array of object `i`).
`transform` is modelled with exactly the writes the code performs, so "no existing action changes"
is a theorem about which cells are written, not a property of an append-only store. -/

open EkwVerif.Fluent

abbrev Heap := List NodeArray

def Heap.cell (h : Heap) (i : Nat) : NodeArray := h.getD i default

/-- what `func(self, *param)` hands back -/
inductive TFunc (P : Type)
  /-- a NEW action computed from the receiver (`act.multiply(v)`, `act.select(…)`, `_expand_transform`) -/
  | build (f : NodeArray → P → Except Err NodeArray)
  /-- the receiver itself (`lambda act, v: act`) -/
  | self
  /-- an action that already exists (`lambda act, v: products[v]`): cell `table p` -/
  | lookup (table : P → Nat)

/-- when `transform` wraps the node array of `func`'s result in a new action object before working
on it. `always` is the code (`new_res = type(new_res)(new_res.nodes)`); the other two are the
variants shown NOT to have the property (`c14_rewrap_needed`). -/
inductive Rewrap
  | always | ifSelf | never
deriving DecidableEq, Repr

def Rewrap.applies : Rewrap → Bool → Bool
  | .always, _ => true
  | .ifSelf, isSelf => isSelf
  | .never, _ => false

def callFunc {P : Type} (h : Heap) (a : Nat) : TFunc P → P → Except Err (Heap × Nat)
  | .build f, p =>
    match f (h.cell a) p with
    | .ok r => .ok (h ++ [r], h.length)
    | .error e => .error e
  | .self, _ => .ok (h, a)
  | .lookup t, p => if t p < h.length then .ok (h, t p) else .error .index

/-- `new_res = type(new_res)(new_res.nodes)`: a new object sharing the node array -/
def rewrap (w : Rewrap) (h : Heap) (a r : Nat) : Heap × Nat :=
  if w.applies (r == a) then (h ++ [h.cell r], h.length) else (h, r)

/-- `if dim_name not in new_res.nodes.coords: new_res._add_dimension(dim_name, dim_values[index], axis)`
— an assignment to `new_res.nodes`, i.e. a write to cell `r` -/
def addDimAt (h : Heap) (r : Nat) (dname : String) (values : List Coord) (index axis : Nat) : Except Err Heap :=
  if (h.cell r).hasCoord dname then .ok h else
  match values[index]? with
  | none => .error .index
  | some v =>
    match addDim (h.cell r) dname v axis with
    | .ok x => .ok (h.set r x)
    | .error e => .error e

/-- `res = new_res if res is None else res.join(new_res, dim_name)`: join creates a new action -/
def accumulate (h : Heap) (res : Option Nat) (r : Nat) (dname : String) : Except Err (Heap × Nat) :=
  match res with
  | none => .ok (h, r)
  | some acc =>
    match join (h.cell acc) (h.cell r) (.name dname) false with
    | .ok j => .ok (h ++ [j], h.length)
    | .error e => .error e

/-- one iteration of the loop of `Action.transform` -/
def transformIter {P : Type} (w : Rewrap) (f : TFunc P) (dname : String) (values : List Coord) (axis : Nat) (a : Nat)
    (h : Heap) (p : P) (index : Nat) (res : Option Nat) : Except Err (Heap × Nat) :=
  match callFunc h a f p with
  | .error e => .error e
  | .ok (h1, r) =>
    let (h2, r2) := rewrap w h1 a r
    match addDimAt h2 r2 dname values index axis with
    | .error e => .error e
    | .ok h3 => accumulate h3 res r2 dname

def transformLoopH {P : Type} (w : Rewrap) (f : TFunc P) (dname : String) (values : List Coord) (axis : Nat) (a : Nat) :
    Heap → List P → Nat → Option Nat → Except Err (Heap × Option Nat)
  | h, [], _, res => .ok (h, res)
  | h, p :: ps, index, res =>
    match transformIter w f dname values axis a h p index res with
    | .error e => .error e
    | .ok (h', r) => transformLoopH w f dname values axis a h' ps (index + 1) (some r)

/-- `res._squeeze_dimension(dim_name)`: again a write to the cell of `res` -/
def squeezeAt (h : Heap) (r : Nat) (dname : String) : Except Err Heap :=
  match squeeze (h.cell r) dname false with
  | .ok x => .ok (h.set r x)
  | .error e => .error e

/-- `dim_values`: `range(len(params))` for a dimension name, the given labels for a `Coord` -/
def dimValues (dim : DimArg) (n : Nat) : List Coord :=
  match dim with
  | .name _ => intLabels n
  | .coord _ ls => ls

/-- `Action.transform(func, params, dim, axis)` on the heap: the new heap and the cell of the result -/
def transformH {P : Type} (w : Rewrap) (h : Heap) (a : Nat) (f : TFunc P) (params : List P) (dim : DimArg) (axis : Nat) :
    Except Err (Heap × Nat) :=
  match transformLoopH w f dim.dimName (dimValues dim params.length) axis a h params 0 none with
  | .error e => .error e
  | .ok (_, none) => .error .value
  | .ok (h', some r) =>
    match squeezeAt h' r dim.dimName with
    | .ok h'' => .ok (h'', r)
    | .error e => .error e

/-- `_combine_nodes(action, method, dim, batch_size, keep_dim)` (stack / concatenate) on the heap. On a dimension of
size 1 nothing is computed: with `keep_dim` THE ACTION ITSELF is handed back (no new object); otherwise a new object
sharing the node array is squeezed in place (`action = type(action)(action.nodes); action._squeeze_dimension(dim)`). -/
def combineH (h : Heap) (method : String) (kw : List (String × Static)) (a : Nat) (d : String) (b : Nat) (keep : Bool) :
    Except Err (Heap × Nat) :=
  match (h.cell a).findDim d with
  | none => .error .key
  | some x =>
    if x.labels.length = 1 then
      if keep then .ok (h, a)
      else
        match squeezeAt (h ++ [h.cell a]) h.length d with
        | .ok h' => .ok (h', h.length)
        | .error e => .error e
    else
      match reduce (backendPayload method kw) none d b keep (h.cell a) with
      | .ok r => .ok (h ++ [r], h.length)
      | .error e => .error e

/-- `Action.select(criteria, drop)` on the heap: `if len(crit) == 0: return self` — with no criteria, or with one
criterion that names a scalar coordinate and equals it (`_validate_criteria` drops it), the action itself is handed
back; otherwise a new action. -/
def selectH (h : Heap) (a : Nat) (crit : Option (String × Sel Coord)) (drop : Bool) : Except Err (Heap × Nat) :=
  match crit with
  | none => .ok (h, a)
  | some (d, s) =>
    match (h.cell a).findDim d, s, (h.cell a).scalar? d with
    | none, .one c, some v => if c = v then .ok (h, a) else .error .notimpl
    | _, _, _ =>
      match select d s drop (h.cell a) with
      | .ok r => .ok (h ++ [r], h.length)
      | .error e => .error e

/-! ### binary operations on the heap: `Action.join`, `__two_arg_method`

`join` reads `self.nodes` and `other_action.nodes`, relabels the OTHER array when `match_coord_values` is set, and wraps the
concatenation in a new action object. The one assignment in it is `other_nodes = other_nodes.assign_coords(…)`: a LOCAL
variable in the code (fix commit b567c45); the pinned tree assigned `other_action.nodes = …`, i.e. wrote the operand's cell. -/

/-- where `join(match_coord_values=True)` stores the relabelled copy of the other action's node array -/
inductive MatchStore
  /-- `other_nodes = other_nodes.assign_coords(…)` — a local variable (the code) -/
  | localVar
  /-- `other_action.nodes = other_action.nodes.assign_coords(…)` — the operand object (the pinned defect) -/
  | operand
deriving DecidableEq, Repr

/-- `Action.join(other_action, dim, match_coord_values)` on the heap: receiver cell `a`, operand cell `b`; the result is a
new object -/
def joinH (w : MatchStore) (h : Heap) (a b : Nat) (dim : DimArg) (mtch : Bool) : Except Err (Heap × Nat) :=
  if mtch then
    match matchCoords (h.cell a) (h.cell b) with
    | .error e => .error e
    | .ok b' =>
      let h1 : Heap := match w with | .localVar => h | .operand => h.set b b'
      match joinCore (h1.cell a) b' dim with
      | .ok r => .ok (h1 ++ [r], h1.length)
      | .error e => .error e
  else
    match joinCore (h.cell a) (h.cell b) dim with
    | .ok r => .ok (h ++ [r], h.length)
    | .error e => .error e

/-- `__two_arg_method(method, other)` with an action: `self.join(other, "**datatype**", match_coord_values=True).reduce(…)` —
two new objects: the joined action (not reachable afterwards) and the result -/
def arithH (w : MatchStore) (h : Heap) (fn : String) (a b : Nat) : Except Err (Heap × Nat) :=
  match joinH w h a b (.name datatypeDim) true with
  | .error e => .error e
  | .ok (h1, j) =>
    match reduce { fn := fn } none "" 0 false (h1.cell j) with
    | .ok r => .ok (h1 ++ [r], h1.length)
    | .error e => .error e

/-- a binary operation between two action objects -/
inductive BOp
  | join (a b : Nat) (dim : DimArg) (mtch : Bool)
  | arith (fn : String) (a b : Nat)

def BOp.runH (w : MatchStore) (h : Heap) : BOp → Except Err (Heap × Nat)
  | .join a b dim m => joinH w h a b dim m
  | .arith fn a b => arithH w h fn a b

/-- one binary statement: on failure nothing the program can reach has changed (the write of the `.operand` variant happens
before anything can fail afterwards only in `joinCore`; the variant is the refuted one) -/
def bstep (w : MatchStore) (h : Heap) (o : BOp) : Heap :=
  match o.runH w h with
  | .ok (h', _) => h'
  | .error _ => h

def brun (w : MatchStore) : Heap → List BOp → Heap
  | h, [] => h
  | h, o :: os => brun w (bstep w h o) os

/-- the operations of a fluent program, on the heap -/
inductive HOp (P : Type)
  | op (o : FOp)
  | transform (a : Nat) (f : TFunc P) (params : List P) (dim : DimArg) (axis : Nat)
  | combine (method : String) (kw : List (String × Static)) (a : Nat) (d : String) (b : Nat) (keep : Bool)
  | select (a : Nat) (crit : Option (String × Sel Coord)) (drop : Bool)

/-- one statement: the new heap and the object that is its result (`none`: the statement raised) -/
def hstepR {P : Type} (w : Rewrap) (h : Heap) : HOp P → Heap × Option Nat
  | .op o =>
    match o.run h with
    | .ok r => (h ++ [r], some h.length)
    | .error _ => (h, none)
  | .transform a f ps dim axis =>
    match transformH w h a f ps dim axis with
    | .ok (h', r) => (h', some r)
    | .error _ => (h, none)
  | .combine m kw a d b keep =>
    match combineH h m kw a d b keep with
    | .ok (h', r) => (h', some r)
    | .error _ => (h, none)
  | .select a crit drop =>
    match selectH h a crit drop with
    | .ok (h', r) => (h', some r)
    | .error _ => (h, none)

/-- one statement: on failure nothing the program can reach has changed -/
def hstep {P : Type} (w : Rewrap) (h : Heap) (o : HOp P) : Heap := (hstepR w h o).1

def hrun {P : Type} (w : Rewrap) : Heap → List (HOp P) → Heap
  | h, [] => h
  | h, o :: os => hrun w (hstep w h o) os

end EkwVerif.Names
