/-
Model of `cascade.low.builders` (after the `fix:` commits of C19):

  * `TaskBuilder.from_callable`   `fromCallable` : signature ↦ input schema, defaults, output schema
  * `TaskBuilder.from_entrypoint` `fromEntrypoint`
  * `TaskBuilder.with_values`     `withValues`   : `{**old, **new}` on keyword and positional statics; ANY keyword name,
                                                   also `self` (fix 0658fcc: the receiver is positional-only)
  * `JobBuilder.with_node/with_edge`
  * `JobBuilder.build`            `build`        : static type check, `get_edge_errors` branch by
                                                   branch, "input fed by more than one edge" (the
                                                   `fix:` commit of the audit round), `Either.ok(job)` /
                                                   `Either.error(list)`
  * an append-only object store (`step`/`run`) in which every builder call creates a NEW object.
    NOTE: the model has values, not references: "building never mutates earlier objects" holds in it
    by construction (`c19_persistent` only says that `run` extends the store). That clause of the
    property is carried by the correspondence check, which re-reads EVERY earlier real object after
    every call (complete `model_dump` fingerprints) and compares it with this append-only store.

Python dicts are association lists with unique keys in insertion order (`dset` replaces in
place or appends, exactly as `dict.__setitem__`).  `static_input_ps` is keyed by the position
itself (`Nat`); the code stores `str(position)`, the driver prints it that way.

Where Python raises, the model returns `.error`: the only raise left in `build` after the
fixes is `NameError` from `eval(type_name)` for a type name that is not evaluable in the
module namespace of builders.py.  The type universe is a parameter (`TyEnv`).
-/
namespace EkwVerif.Builder

/-! ### dicts -/

def lookup {κ α : Type} [DecidableEq κ] : List (κ × α) → κ → Option α
  | [], _ => none
  | (k', v) :: d, k => if k' = k then some v else lookup d k

def dset {κ α : Type} [DecidableEq κ] : List (κ × α) → κ → α → List (κ × α)
  | [], k, v => [(k, v)]
  | (k', v') :: d, k, v => if k' = k then (k, v) :: d else (k', v') :: dset d k v

/-- `{**d, **e}` -/
def update {κ α : Type} [DecidableEq κ] (d e : List (κ × α)) : List (κ × α) :=
  e.foldl (fun d kv => dset d kv.1 kv.2) d

/-- dict built from a list of items (comprehension / `dict(items)`) -/
def dictOf {κ α : Type} [DecidableEq κ] (e : List (κ × α)) : List (κ × α) := update [] e

/-! ### values, signatures, tasks -/

abbrev Ty := String

/-- a bound Python value: the name of its class and its `repr` (opaque) -/
structure Val where
  ty : Ty
  repr : String
deriving DecidableEq, Repr

inductive Kind | posOnly | posOrKw | varPos | kwOnly | varKw
deriving DecidableEq, Repr

/-- an annotation as `inspect.signature` reports it -/
inductive Ann
  | absent                 -- `inspect._empty`
  | named (s : Ty)         -- a string, or an object with a `__name__` (a class, `list[int]` ↦ "list", `Optional[int]` ↦ "Optional")
  | nameless               -- an object without `__name__`: `None`, `int | None`
deriving DecidableEq, Repr

structure Param where
  name : String
  kind : Kind
  ann : Ann
  dflt : Option Val        -- `none` = no default
deriving DecidableEq, Repr

structure Sig where
  params : List Param
  ret : Ann
deriving DecidableEq, Repr

structure TaskDef where
  inputSchema : List (String × Ty)
  outputSchema : List (String × Ty)
  entrypoint : String := ""
  environment : List String := []
  hasFunc : Bool := true               -- `func` is a pickled callable (`from_callable`) or `None` (`from_entrypoint`)
deriving DecidableEq, Repr

structure Task where
  defn : TaskDef
  kw : List (String × Val)
  ps : List (Nat × Val)
deriving DecidableEq, Repr

def defaultOutput : String := "0"       -- Node.DEFAULT_OUTPUT
def anyTy : Ty := "Any"

/-- `type2str` (with the fix: an annotation object without a `__name__` is not validated) -/
def type2str : Ann → Ty
  | .absent => anyTy
  | .named s => if s = "_empty" then anyTy else s
  | .nameless => anyTy

def Kind.byKeyword : Kind → Bool
  | .kwOnly => true
  | .posOrKw => true
  | _ => false

/-- `TaskBuilder.from_callable(f, environment)` (`environment if environment else []`) -/
def fromCallable (s : Sig) (environment : List String := []) : Task :=
  let kwp := s.params.filter (fun p => p.kind.byKeyword)
  { defn := { inputSchema := dictOf (kwp.map (fun p => (p.name, type2str p.ann)))
              outputSchema := [(defaultOutput, type2str s.ret)]
              entrypoint := "", environment := environment, hasFunc := true }
    kw := dictOf (kwp.filterMap (fun p => p.dflt.map (fun d => (p.name, d))))
    ps := [] }

/-- `TaskBuilder.from_entrypoint(entrypoint, input_schema, output_class, environment)` -/
def fromEntrypoint (entrypoint : String) (inputSchema : List (String × Ty)) (outputClass : Ty)
    (environment : List String := []) : Task :=
  { defn := { inputSchema := dictOf inputSchema
              outputSchema := [(defaultOutput, outputClass)]
              entrypoint := entrypoint, environment := environment, hasFunc := false }
    kw := []
    ps := [] }

/-- `enumerate(args)` -/
def enumFrom : Nat → List Val → List (Nat × Val)
  | _, [] => []
  | n, v :: vs => (n, v) :: enumFrom (n + 1) vs

/-- `TaskBuilder.with_values(*args, **kwargs)` -/
def withValues (t : Task) (args : List Val) (kwargs : List (String × Val)) : Task :=
  { t with kw := update t.kw kwargs, ps := update t.ps (enumFrom 0 args) }

/-! ### job builder -/

inductive Into
  | kw (p : String)
  | ps (i : Int)
deriving DecidableEq, Repr

structure Edge where
  src : String
  out : String
  sink : String
  into : Into
deriving DecidableEq, Repr

structure JobBuilder where
  nodes : List (String × Task)      -- pyrsistent.PMap
  edges : List Edge                 -- pyrsistent.PVector
deriving DecidableEq, Repr

def JobBuilder.empty : JobBuilder := { nodes := [], edges := [] }

def withNode (b : JobBuilder) (name : String) (t : Task) : JobBuilder :=
  { b with nodes := dset b.nodes name t }

def withEdge (b : JobBuilder) (source sink : String) (into : Into) (frum : String := defaultOutput) : JobBuilder :=
  { b with edges := b.edges ++ [{ src := source, out := frum, sink := sink, into := into }] }

structure Job where
  tasks : List (String × Task)
  edges : List Edge
deriving DecidableEq, Repr

inductive Problem
  | staticType (task k : String) (need got : Ty)   -- "invalid static input for {task}: {k} needs {need}, got {got}"
  | fromNoTask (src out : String)                  -- "edge pointing from non-existent task {src}.{out}"
  | fromNoParam (out : String)                     -- "edge pointing from non-existent param {out}"
  | toNoTask (sink : String)                       -- "edge pointing to non-existent task {sink}"
  | toNoParam (p : String)                         -- "edge pointing to non-existent param {p}"
  | incompatible (e : Edge)                        -- "edge connects two incompatible nodes: {edge}"
  | fedTwice (e : Edge)                            -- "edge pointing to an input that another edge already feeds: {edge}"
deriving DecidableEq, Repr

inductive Err | nameError
deriving DecidableEq, Repr

inductive Result
  | job (j : Job)                  -- Either.ok
  | problems (l : List Problem)    -- Either.error
deriving DecidableEq, Repr

deriving instance DecidableEq for Except

/-- The type universe: which type names `eval` resolves in builders.py, and `issubclass`
between the classes denoted by two names (also used for the class of a value). -/
structure TyEnv where
  evaluable : Ty → Bool
  subclass : Ty → Ty → Bool

def skipped : List Ty := ["latitude", "longitude", "latlonArea", "Optional[marsParam]", "marsParamList", "grib"]
def legits : List (Ty × Ty) := [("grib.earthkit", "grib.mir"), ("grib.mir", "grib.earthkit")]

/-- `_isinstance(v, t)` -/
def isInstance (env : TyEnv) (v : Val) (t : Ty) : Except Err Bool :=
  if t = anyTy ∨ t ∈ skipped then .ok true
  else if env.evaluable t then .ok (env.subclass v.ty t)
  else .error .nameError

/-- `_issubclass(t1, t2)` (with the fix: an undeclared output type is compatible) -/
def isSubclass (env : TyEnv) (t1 t2 : Ty) : Except Err Bool :=
  if t2 = anyTy ∨ t1 = anyTy ∨ t1 = t2 ∨ (t1, t2) ∈ legits then .ok true
  else if env.evaluable t1 ∧ env.evaluable t2 then .ok (env.subclass t1 t2)
  else .error .nameError

/-- one element of the `static_kw_errors` generator -/
def staticCheck (env : TyEnv) (name : String) (t : Task) (k : String) (v : Val) : Except Err (List Problem) :=
  match lookup t.defn.inputSchema k with
  | none => .ok []                                   -- fix: keyword outside the schema is not validated
  | some ty =>
    match isInstance env v ty with
    | .error e => .error e
    | .ok true => .ok []
    | .ok false => .ok [.staticType name k ty v.ty]

/-- Python truthiness of `dict.get(k, None)` for a type-name string -/
def truthy : Option Ty → Option Ty
  | none => none
  | some t => if t = "" then none else some t

/-- `get_edge_errors(edge)`; `p1`/`outputParam`/`inputParam` are the Python locals
(`output_param = None; input_param = None` at entry). -/
def edgeErrors (env : TyEnv) (nodes : List (String × Task)) (e : Edge) : Except Err (List Problem) :=
  let src : List Problem × Option Ty :=
    match lookup nodes e.src with
    | none => ([.fromNoTask e.src e.out], none)
    | some st =>
      match truthy (lookup st.defn.outputSchema e.out) with
      | none => ([.fromNoParam e.out], none)
      | some t => ([], some t)
  match lookup nodes e.sink with
  | none => .ok (src.1 ++ [.toNoTask e.sink])        -- input_param is None: `return`
  | some kt =>
    match e.into with
    | .ps _ => .ok src.1                              -- `if edge.sink_input_kw is None: return`
    | .kw p =>
      match truthy (lookup kt.defn.inputSchema p) with
      | none => .ok (src.1 ++ [.toNoParam p])        -- `not input_param`: `return`
      | some it =>
        match src.2 with
        | none => .ok src.1                           -- `not output_param`: `return`
        | some ot =>
          match isSubclass env ot it with
          | .error err => .error err
          | .ok true => .ok src.1
          | .ok false => .ok (src.1 ++ [.incompatible e])

/-- `list(itertools.chain(...))` over lazily produced, possibly raising, pieces -/
def collect : List (Except Err (List Problem)) → Except Err (List Problem)
  | [] => .ok []
  | .error e :: _ => .error e
  | .ok ps :: rest =>
    match collect rest with
    | .error e => .error e
    | .ok qs => .ok (ps ++ qs)

def staticChecks (env : TyEnv) (nodes : List (String × Task)) : List (Except Err (List Problem)) :=
  nodes.flatMap (fun nt => nt.2.kw.map (fun kv => staticCheck env nt.1 nt.2 kv.1 kv.2))

/-- `(edge.sink_task, edge.sink_input_kw, edge.sink_input_ps)` -/
def Edge.sinkInput (e : Edge) : String × Into := (e.sink, e.into)

/-- `get_fan_in_errors`: every edge into a sink input that an EARLIER edge already feeds is a problem
(`fed` = the sink inputs seen so far) -/
def fanInErrors : List Edge → List (String × Into) → List Problem
  | [], _ => []
  | e :: es, fed =>
    (if e.sinkInput ∈ fed then [.fedTwice e] else []) ++ fanInErrors es (e.sinkInput :: fed)

/-- `JobBuilder.build` -/
def build (env : TyEnv) (b : JobBuilder) : Except Err Result :=
  match collect (staticChecks env b.nodes) with
  | .error e => .error e
  | .ok s =>
    match collect (b.edges.map (edgeErrors env b.nodes)) with
    | .error e => .error e
    | .ok es =>
      if s ++ es ++ fanInErrors b.edges [] = [] then .ok (.job { tasks := b.nodes, edges := b.edges })
      else .ok (.problems (s ++ es ++ fanInErrors b.edges []))

/-! ### object store: every builder call creates a new object -/

inductive Obj
  | task (t : Task)
  | builder (b : JobBuilder)
  | result (r : Except Err Result)
  | invalid                          -- op referred to a missing / wrongly typed object (harness bug)
deriving Repr

inductive Op
  | fromCallable (s : Sig) (environment : List String)
  | fromEntrypoint (entrypoint : String) (inputSchema : List (String × Ty)) (outputClass : Ty) (environment : List String)
  | withValues (t : Nat) (args : List Val) (kwargs : List (String × Val))
  | newBuilder
  | withNode (b : Nat) (name : String) (t : Nat)
  | withEdge (b : Nat) (source sink : String) (into : Into) (frum : Option String)   -- `none`: argument omitted
  | build (b : Nat)
deriving Repr

def evalOp (env : TyEnv) (store : List Obj) : Op → Obj
  | .fromCallable s environment => .task (fromCallable s environment)
  | .fromEntrypoint ep schema out environment => .task (fromEntrypoint ep schema out environment)
  | .withValues t args kwargs =>
    match store[t]? with
    | some (.task tk) => .task (withValues tk args kwargs)
    | _ => .invalid
  | .newBuilder => .builder JobBuilder.empty
  | .withNode b name t =>
    match store[b]?, store[t]? with
    | some (.builder jb), some (.task tk) => .builder (withNode jb name tk)
    | _, _ => .invalid
  | .withEdge b source sink into frum =>
    match store[b]? with
    | some (.builder jb) =>
      match frum with
      | some f => .builder (withEdge jb source sink into f)
      | none => .builder (withEdge jb source sink into)
    | _ => .invalid
  | .build b =>
    match store[b]? with
    | some (.builder jb) => .result (build env jb)
    | _ => .invalid

def step (env : TyEnv) (store : List Obj) (op : Op) : List Obj := store ++ [evalOp env store op]

def run (env : TyEnv) (store : List Obj) (ops : List Op) : List Obj := ops.foldl (step env) store

/-! ### the concrete universe used by the driver: builtin classes
(14 names; among them only `bool < int` and everything `< object`; names that the namespace of builders.py resolves
otherwise - `Callable`, `Iterable`, `Type`, exception classes - are not part of it and are not generated) -/

def builtinTys : List Ty := ["int", "str", "float", "bool", "list", "tuple", "dict", "bytes", "complex", "object",
  "set", "frozenset", "bytearray", "range"]

def builtinEnv : TyEnv where
  evaluable t := decide (t ∈ builtinTys)
  subclass t1 t2 := decide (t1 = t2 ∨ t2 = "object" ∨ (t1 = "bool" ∧ t2 = "int"))

end EkwVerif.Builder
