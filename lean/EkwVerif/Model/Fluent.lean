/-
Model of `earthkit.workflows.fluent` (Action / Node / Payload) — what a fluent program builds.

A node array (`Action.nodes`, an xarray DataArray of nodes) is modelled as

    dims    : the dimensions in order, each with its coordinate labels (`indexed = false` for a
              dimension without coordinate variable, whose labels are then `0 … n-1`)
    scalars : the non-dimension (scalar) coordinates xarray carries along
    node    : position (dimension name ↦ index) → `Expr`

and `Expr` is the *unfolded* expression a node denotes: a source node, a payload applied to the
expressions of its inputs (`Node.__init__` appends the not-yet-mentioned `input<k>` to the payload
arguments), or one output of a generator node.

Operations (mirroring the code after the `fix:` commits of C13/C14):
  `fromSource`, `map` (+`yields`), `reduce` (dim, batch_size, keep_dim, yields) with the iterated
  batching of `reduce`/`transform`/`_batch_transform` (`batchLevel`, `batchLoop`: chunks
  `lst[i:i+b]`, singleton chunks passed through, new dimension `batch.<level>.<dim>` at axis 0),
  the named reductions, `mean`/`std` rewrites, `stack`/`concatenate`/`flatten` (`_combine_nodes`),
  `select`/`iselect`, `expand` (`_expand_transform`), `transform`, `broadcast`, `join`
  (+`match_coord_values`), binary arithmetic with a scalar or an action.
Added for the audit response of C13: `mapMany` (`map` with an array of payloads), `selectN` / `iselectN` (several
criteria, `_validate_criteria` first), `expandG` (`internal_dim` as int, str or `Coord`, `backend_kwargs`, missing
`dim_size`), `broadcastX` (`exclude`), `join` on a new dimension between arrays of DIFFERENT dimensions (xr.concat
broadcasts by name: what arithmetic between differently shaped actions rests on), the label `keep_dim` gives the
kept dimension (`keptLabel`), backend kwargs of stack / concatenate / flatten. The names of the batchable backend
functions are read from the source (`Gen/FluentMarks.lean`).
Python exceptions are `Except Err`; `Err.outOfScope` marks xarray corner cases the model does not
describe (the correspondence check skips those cases and counts them).
-/
import EkwVerif.Gen.FluentMarks

namespace EkwVerif.Fluent

/-! ### expressions -/

inductive Coord
  | int (i : Int)
  | str (s : String)
deriving DecidableEq, Repr, Inhabited

inductive Static
  | num (q : Rat)
  | str (s : String)
deriving DecidableEq, Repr, Inhabited

/-- one positional argument of a payload: the placeholder `"input<k>"` or a static value -/
inductive TArg
  | inp (k : Nat)
  | lit (s : Static)
deriving DecidableEq, Repr, Inhabited

inductive Expr
  | src (i : Nat)
  | app (fn : String) (tmpl : List TArg) (kw : List (String × Static)) (ins : List Expr)
  | out (k : Nat) (e : Expr)
deriving Repr, Inhabited

structure Payload where
  fn : String
  tmpl : List TArg := []
  kw : List (String × Static) := []
  batchable : Bool := false
deriving Repr, Inhabited

/-- `Node.__init__`: "Insert inputs not already present in args". -/
def fillTmpl (tmpl : List TArg) (n : Nat) : List TArg :=
  tmpl ++ (List.range n).filterMap (fun k => if TArg.inp k ∈ tmpl then none else some (TArg.inp k))

def mkNode (p : Payload) (ins : List Expr) : Expr :=
  .app p.fn (fillTmpl p.tmpl ins.length) p.kw ins

/-! ### evaluation under an arbitrary interpretation of payload functions -/

inductive ArgV (V : Type)
  | val (v : V)
  | lit (s : Static)

structure Sem (V : Type) where
  src : Nat → V
  fn : String → List (String × Static) → List (ArgV V) → V
  out : Nat → V → V

/-- what the executor does with the payload arguments: `input<k>` ↦ value of input k -/
def resolve {V : Type} (tmpl : List TArg) (vals : List V) : List (ArgV V) :=
  tmpl.map fun
    | .inp k => match vals[k]? with
      | some v => .val v
      | none => .lit (.str ("input" ++ toString k))
    | .lit s => .lit s

mutual
def Expr.eval {V : Type} (S : Sem V) : Expr → V
  | .src i => S.src i
  | .app fn tmpl kw ins => S.fn fn kw (resolve tmpl (evalList S ins))
  | .out k e => S.out k (e.eval S)
def evalList {V : Type} (S : Sem V) : List Expr → List V
  | [] => []
  | e :: es => e.eval S :: evalList S es
end

/-- the function of its input values that a payload denotes -/
def Payload.apply {V : Type} (S : Sem V) (p : Payload) (vals : List V) : V :=
  S.fn p.fn p.kw (resolve (fillTmpl p.tmpl vals.length) vals)

/-! ### node arrays -/

inductive Err
  | key | index | assert | type | notimpl | value | other | outOfScope
deriving DecidableEq, Repr, Inhabited

structure Dim where
  name : String
  labels : List Coord
  indexed : Bool := true
deriving DecidableEq, Repr, Inhabited

abbrev Ix := String → Nat

def Ix.set (ix : Ix) (d : String) (i : Nat) : Ix := fun x => if x = d then i else ix x

structure NodeArray where
  dims : List Dim
  scalars : List (String × Coord)
  node : Ix → Expr

instance : Inhabited NodeArray := ⟨⟨[], [], fun _ => .src 0⟩⟩

def opaqueLabel : Coord := .str "<opaque>"

def NodeArray.dimNames (a : NodeArray) : List String := a.dims.map (·.name)

def NodeArray.findDim (a : NodeArray) (d : String) : Option Dim := a.dims.find? (·.name = d)

def NodeArray.dimSize (a : NodeArray) (d : String) : Nat :=
  match a.findDim d with
  | some x => x.labels.length
  | none => 0

def NodeArray.axisOf (a : NodeArray) (d : String) : Nat := a.dims.findIdx (·.name = d)

def NodeArray.scalar? (a : NodeArray) (d : String) : Option Coord :=
  (a.scalars.find? (·.1 = d)).map (·.2)

/-- the names xarray lists in `.coords`: indexed dimensions and scalar coordinates -/
def NodeArray.hasCoord (a : NodeArray) (d : String) : Bool :=
  (match a.findDim d with | some x => x.indexed | none => false) || (a.scalar? d).isSome

def intLabels (n : Nat) : List Coord := (List.range n).map (fun i => Coord.int (Int.ofNat i))

def dropDim (dims : List Dim) (d : String) : List Dim := dims.filter (fun x => x.name ≠ d)

def allIndexed (dims : List Dim) : List Dim :=
  dims.map (fun x => if x.indexed then x else { x with labels := intLabels x.labels.length, indexed := true })

/-- row-major flat position of `ix` in `dims` -/
def flatIndex : List Dim → Ix → Nat
  | [], _ => 0
  | x :: rest, ix => ix x.name * (rest.map (·.labels.length)).foldl (· * ·) 1 + flatIndex rest ix

/-- `from_source`: one source node per position; source ids are `base + flat index`. -/
def fromSource (dims : List (String × List Coord)) (base : Nat) : NodeArray :=
  let ds := dims.map (fun (n, l) => ({ name := n, labels := l, indexed := true } : Dim))
  { dims := ds, scalars := [], node := fun ix => .src (base + flatIndex ds ix) }

/-- `Action.__init__(nodes, yields)`: a new last dimension over the outputs of every node. -/
def withYields (a : NodeArray) : Option (String × List Coord) → NodeArray
  | none => a
  | some (y, ls) =>
    { dims := a.dims ++ [{ name := y, labels := ls, indexed := true }],
      scalars := a.scalars,
      node := fun ix => if ls.length = 1 then a.node ix else .out (ix y) (a.node ix) }

/-- `Action.map` with one payload for all nodes. -/
def map (p : Payload) (yields : Option (String × List Coord)) (a : NodeArray) : NodeArray :=
  withYields { a with node := fun ix => mkNode p [a.node ix] } yields

/-- `Action.map(array of payloads)`: `np.asarray(payload).shape` must be the shape of the node array
(AssertionError otherwise); the node at a position gets the payload AT THAT POSITION (row-major list). -/
def mapMany (ps : List Payload) (shape : List Nat) (a : NodeArray) : Except Err NodeArray :=
  if shape ≠ a.dims.map (·.labels.length) then .error .assert
  else .ok { a with node := fun ix => mkNode (ps.getD (flatIndex a.dims ix) default) [a.node ix] }

/-- `_add_dimension` = `expand_dims({name: [value]}, axis)` -/
def addDim (a : NodeArray) (name : String) (label : Coord) (axis : Nat) : Except Err NodeArray :=
  if a.dimNames.contains name then .error .value
  else if (a.scalar? name).isSome then .error .outOfScope
  else if axis > a.dims.length then .error .index
  else .ok { a with dims := a.dims.take axis ++ [{ name := name, labels := [label], indexed := true }] ++ a.dims.drop axis }

/-- `_squeeze_dimension(dim, drop)`: a DIMENSION of size 1, with or without coordinate (scalar
coordinates of that name are ignored; a dimension without coordinate leaves no scalar coordinate behind —
fix commits) -/
def squeeze (a : NodeArray) (d : String) (drop : Bool) : Except Err NodeArray :=
  match a.findDim d with
  | some x =>
    if x.labels.length == 1 then
      .ok { dims := dropDim a.dims d,
            scalars := if drop || !x.indexed then a.scalars else a.scalars ++ [(d, x.labels.headD default)],
            node := fun ix => a.node (ix.set d 0) }
    else .ok a
  | none => .ok a

/-! ### reduce with iterated batching -/

/-- `[lst[i : i + b] for i in range(0, len(lst), b)]` (fuel = length of the list suffices) -/
def chunksAux {α : Type} (b : Nat) : Nat → List α → List (List α)
  | 0, _ => []
  | fuel + 1, xs => if b = 0 ∨ xs = [] then [] else xs.take b :: chunksAux b fuel (xs.drop b)

def chunks {α : Type} (b : Nat) (xs : List α) : List (List α) := chunksAux b xs.length xs

/-- the expressions along dimension `d` at the position `ix` of the other dimensions -/
def NodeArray.along (a : NodeArray) (d : String) (ix : Ix) : List Expr :=
  (List.range (a.dimSize d)).map (fun i => a.node (ix.set d i))

/-- the core of `reduce` after the batching loop: one node per remaining position, consuming
the nodes along `d` in coordinate order. Every remaining dimension gets a coordinate. -/
def reduceCore (p : Payload) (d : String) (a : NodeArray) : NodeArray :=
  { dims := allIndexed (dropDim a.dims d),
    scalars := a.scalars,
    node := fun ix => mkNode p (a.along d ix) }

/-- what `_batch_transform` makes of one chunk: a singleton is passed through (squeezed),
anything else is reduced with the payload -/
def chunkExpr (p : Payload) : List Expr → Expr
  | [e] => e
  | c => mkNode p c

def batchDimName (level : Nat) (d : String) : String := "batch." ++ toString level ++ "." ++ d

/-- one round of the `while` loop in `reduce`: `transform(_batch_transform, chunks, "batch.<level>.<dim>")`
(new dimension at axis 0 with coordinates `0 … #chunks-1`). -/
def batchLevel (p : Payload) (d : String) (b : Nat) (level : Nat) (a : NodeArray) : NodeArray :=
  let bd := batchDimName level d
  let k := (chunks b (List.range (a.dimSize d))).length
  { dims := { name := bd, labels := intLabels k, indexed := true } :: allIndexed (dropDim a.dims d),
    scalars := a.scalars,
    node := fun ix => match (chunks b (a.along d ix))[ix bd]? with
      | some c => chunkExpr p c
      | none => default }

/-- `while batch_size < batched.nodes.sizes[dim]: …` — fuel-indexed; `Err.other` with no fuel
left does not happen for `b > 1` (theorem `c13_batch_terminates`). -/
def batchLoop (p : Payload) (b : Nat) : Nat → Nat → String → NodeArray → Except Err (String × NodeArray)
  | 0, _, d, a => if b < a.dimSize d then .error .other else .ok (d, a)
  | fuel + 1, level, d, a =>
    if b < a.dimSize d then
      batchLoop p b fuel (level + 1) (batchDimName level d) (batchLevel p d b level a)
    else .ok (d, a)

def defaultDim (d : String) (a : NodeArray) : Except Err String :=
  if d = "" then (match a.dims with | [] => .error .index | x :: _ => .ok x.name) else .ok d

/-- the batching part of `reduce`: `if batch_size > 1 and batch_size < sizes[dim]: … while …`.
Returns the (renamed) dimension that remains to be reduced and the batched array. -/
def reduceBatched (p : Payload) (d : String) (b : Nat) (a : NodeArray) : Except Err (String × NodeArray) :=
  if b > 1 then
    match a.findDim d with
    | none => .error .key                 -- `batched.nodes.sizes[dim]`
    | some _ =>
      if b < a.dimSize d then
        if !p.batchable then .error .value
        else batchLoop p b (a.dimSize d) 0 d a
      else .ok (d, a)
  else .ok (d, a)

def coordText : Coord → String
  | .int i => toString i
  | .str s => s

/-- a label that prints as itself inside the label `keep_dim` builds (not itself such a label) -/
def plainLabel : Coord → Bool
  | .int _ => true
  | .str s => !(s.startsWith "keep:") && s != "<opaque>"

/-- The label of the dimension `keep_dim=True` re-inserts: `f"{coords[dim][0]}-{coords[dim][-1]}"` of the ORIGINAL
array — the first and the last label of the reduced dimension (positions `0` and `n-1` for a dimension without
coordinate). The real string is the text of two 0-d DataArrays; the harness reads the two values back out of it
(`keep:<first>:<last>`); labels that are themselves such texts are not analysed (`opaqueLabel`). -/
def keptLabel (a : NodeArray) (d : String) : Coord :=
  match a.findDim d with
  | some x =>
    match x.labels.head?, x.labels.getLast? with
    | some f, some l => if plainLabel f && plainLabel l then .str ("keep:" ++ coordText f ++ ":" ++ coordText l) else opaqueLabel
    | _, _ => opaqueLabel
  | none => opaqueLabel

/-- the rest of `reduce`: one node per remaining position, `yields`, `keep_dim` (the dimension
is re-inserted under its ORIGINAL name at its original axis — fix commit) -/
def reduceFinish (p : Payload) (yields : Option (String × List Coord)) (keep : Bool) (a : NodeArray) (d : String)
    (x : String × NodeArray) : Except Err NodeArray :=
  if (x.2.findDim x.1).isNone then .error .value     -- `transpose(dim, …)`
  else
    let r := withYields (reduceCore p x.1 x.2) yields
    if keep then addDim r d (keptLabel a d) (a.axisOf d) else .ok r

/-- `Action.reduce(payload, yields, dim, batch_size, keep_dim)` -/
def reduce (p : Payload) (yields : Option (String × List Coord)) (d0 : String) (b : Nat) (keep : Bool)
    (a : NodeArray) : Except Err NodeArray := do
  let d ← defaultDim d0 a
  if yields.isSome && b != 0 then throw Err.value
  let x ← reduceBatched p d b a
  reduceFinish p yields keep a d x

/-! ### named reductions, mean / std rewrites, stack / concatenate / flatten -/

/-- the backend functions that carry `@batchable` — the list is regenerated from backends/__init__.py on every
run of the check (`Gen/FluentMarks.lean`) -/
def isBatchableName (n : String) : Bool := n ∈ Gen.fluentBatchable

def backendPayload (name : String) (kw : List (String × Static)) : Payload :=
  { fn := name, tmpl := [], kw := kw, batchable := isBatchableName name }

/-- `sum`, `prod`, `min`, `max` -/
def named (name : String) (d : String) (b : Nat) (keep : Bool) (kw : List (String × Static)) (a : NodeArray) :
    Except Err NodeArray :=
  reduce (backendPayload name kw) none d b keep a

/-- `__two_arg_method` with a number: `map(Payload(method, args=("input0", other)))` -/
def arithScalar (fn : String) (k : Static) (a : NodeArray) : NodeArray :=
  map { fn := fn, tmpl := [.inp 0, .lit k] } none a

def natStatic (n : Nat) : Static := .num (n : Rat)

/-- `Action.mean` -/
def mean (d0 : String) (b : Nat) (keep : Bool) (kw : List (String × Static)) (a : NodeArray) : Except Err NodeArray := do
  let d ← defaultDim d0 a
  if b > 1 && (a.findDim d).isNone then throw Err.key          -- `self.nodes.sizes[dim]`
  if b ≤ 1 || b ≥ a.dimSize d then
    reduce (backendPayload "mean" kw) none d 0 keep a
  else
    let s ← named "sum" d b keep kw a
    pure (arithScalar "divide" (natStatic (a.dimSize d)) s)

/-! ### select / iselect -/

inductive Sel (α : Type)
  | one (c : α)
  | many (cs : List α)

def positionsOf (labels : List Coord) (c : Coord) : List Nat :=
  (List.range labels.length).filter (fun i => labels[i]? = some c)

/-- position of a label in a coordinate; `key` when absent, out of scope when repeated -/
def locate (labels : List Coord) (c : Coord) : Except Err Nat :=
  match positionsOf labels c with
  | [] => .error .key
  | [i] => .ok i
  | _ => .error .outOfScope

/-- the node array restricted to position(s) of dimension `d` (shared by select / iselect) -/
def pick (a : NodeArray) (x : Dim) (s : Sel Nat) (drop : Bool) : NodeArray :=
  match s with
  | .one i =>
    { dims := dropDim a.dims x.name,
      scalars := if drop || !x.indexed then a.scalars else a.scalars ++ [(x.name, x.labels.getD i default)],
      node := fun ix => a.node (ix.set x.name i) }
  | .many is =>
    { dims := a.dims.map (fun y => if y.name = x.name then
                  { y with labels := if x.indexed then is.map (fun i => x.labels.getD i default) else intLabels is.length }
                else y),
      scalars := a.scalars,
      node := fun ix => a.node (ix.set x.name (is.getD (ix x.name) 0)) }

def distinctLabels : List Coord → Bool
  | [] => true
  | c :: cs => !cs.contains c && distinctLabels cs

/-- `Action.select({d: value | [values]}, drop)` -/
def select (d : String) (s : Sel Coord) (drop : Bool) (a : NodeArray) : Except Err NodeArray :=
  match a.findDim d with
  | none =>
    -- `_validate_criteria`: a criterion on a scalar coordinate must equal it, and is then dropped
    match s, a.scalar? d with
    | .one c, some v => if c = v then .ok a else .error .notimpl
    | .one _, none => .error .notimpl
    | .many _, none => .error .notimpl
    | .many _, some _ => .error .outOfScope
  | some x =>
    -- a dimension without coordinate is addressed by position
    let loc : Coord → Except Err Nat := fun c =>
      if x.indexed then locate x.labels c else
      match c with
      | .int i => if 0 ≤ i ∧ i.toNat < x.labels.length then .ok i.toNat else .error .index
      | .str _ => .error .outOfScope
    match s with
    | .one c => do
      let i ← loc c
      pure (pick a x (.one i) drop)
    | .many cs => do
      -- pandas refuses a LIST selection on a coordinate with repeated labels (InvalidIndexError), whatever is asked for
      if x.indexed && !distinctLabels x.labels then throw Err.outOfScope
      let is ← cs.mapM loc
      pure (pick a x (.many is) drop)

/-- `Action.iselect({d: index | [indices]}, drop)` (non-negative indices) -/
def iselect (d : String) (s : Sel Nat) (drop : Bool) (a : NodeArray) : Except Err NodeArray :=
  match a.findDim d with
  | none =>
    match s, a.scalar? d with
    | .one _, some _ => .error .outOfScope
    | _, _ => .error .notimpl
  | some x =>
    match s with
    | .one i => if i < x.labels.length then .ok (pick a x (.one i) drop) else .error .index
    | .many is => if is.all (· < x.labels.length) then .ok (pick a x (.many is) drop) else .error .index

/-- `_validate_criteria` for one key: a key that is no dimension must be a scalar coordinate equal to the value -/
def validateCrit (a : NodeArray) (d : String) (one : Option Coord) : Except Err Unit :=
  match a.findDim d with
  | some _ => .ok ()
  | none =>
    match one, a.scalar? d with
    | some c, some v => if c = v then .ok () else .error .notimpl
    | none, some _ => .error .outOfScope
    | _, none => .error .notimpl

def Sel.one? {α : Type} : Sel α → Option α
  | .one c => some c
  | .many _ => none

/-- `select` / `sel` with several criteria (dict and/or keyword arguments): every key is validated before anything
is selected; then the selection is orthogonal, i.e. one dimension after the other -/
def selectN (crit : List (String × Sel Coord)) (drop : Bool) (a : NodeArray) : Except Err NodeArray := do
  crit.forM (fun c => validateCrit a c.1 c.2.one?)
  crit.foldlM (fun acc c => select c.1 c.2 drop acc) a

/-- `iselect` / `isel` with several criteria -/
def iselectN (crit : List (String × Sel Nat)) (drop : Bool) (a : NodeArray) : Except Err NodeArray := do
  crit.forM (fun c => match a.findDim c.1, c.2, a.scalar? c.1 with
    | some _, _, _ => (.ok () : Except Err Unit)
    | none, .one _, some _ => .error .outOfScope
    | none, _, _ => .error .notimpl)
  crit.foldlM (fun acc c => iselect c.1 c.2 drop acc) a

/-! ### join (xr.concat) -/

def dimsCompatible (da db : List Dim) : Except Err Unit :=
  if da.length ≠ db.length then .error .outOfScope else
  da.forM fun x =>
    match db.find? (·.name = x.name) with
    | none => .error .outOfScope
    | some y =>
      if x.indexed && y.indexed then (if x.labels = y.labels then .ok () else .error .value)
      else if x.labels.length = y.labels.length then .ok () else .error .value

/-- dimension list of the concatenation (order of the first operand; a dimension is indexed as
soon as one side has a coordinate for it) -/
def mergeDims (da db : List Dim) : List Dim :=
  da.map fun x =>
    match db.find? (·.name = x.name) with
    | some y => if x.indexed then x else if y.indexed then y else x
    | none => x

def mergeScalars (sa sb : List (String × Coord)) : Except Err (List (String × Coord)) :=
  if sa.any (fun (n, v) => match sb.find? (·.1 = n) with | some (_, w) => v ≠ w | none => false)
  then .error .value       -- xarray MergeError
  else .ok (sa ++ sb.filter (fun (n, _) => !sa.any (·.1 = n)))

/-- `assign_coords` of one of `a`'s coordinates onto a dimension of the other array -/
def matchDim (a : NodeArray) (y : Dim) : Except Err Dim :=
  if !y.indexed then .ok y else
  match a.findDim y.name with
  | some x =>
    if !x.indexed then .ok y
    else if x.labels.length = y.labels.length then .ok { y with labels := x.labels }
    else .error .value
  | none => if (a.scalar? y.name).isSome then .error .outOfScope else .ok y

def matchScalar (a : NodeArray) (nv : String × Coord) : Except Err (String × Coord) :=
  match a.scalar? nv.1 with
  | some w => .ok (nv.1, w)
  | none =>
    match a.findDim nv.1 with
    | some x => if x.indexed then .error .outOfScope else .ok nv
    | none => .ok nv

/-- `match_coord_values=True`: the other array gets the coordinate values of `self` for every
coordinate name they share (on a *local* copy — fix commit of C14). -/
def matchCoords (a b : NodeArray) : Except Err NodeArray :=
  match b.dims.mapM (matchDim a) with
  | .error e => .error e
  | .ok dims =>
    match b.scalars.mapM (matchScalar a) with
    | .error e => .error e
    | .ok scalars => .ok { b with dims := dims, scalars := scalars }

inductive DimArg
  | name (d : String)
  | coord (d : String) (labels : List Coord)

def DimArg.dimName : DimArg → String
  | .name d => d
  | .coord d _ => d

def eraseScalar (s : List (String × Coord)) (d : String) : List (String × Coord) := s.filter (·.1 ≠ d)

/-- concatenate along a dimension both arrays have -/
def joinExisting (a b : NodeArray) (d : String) (x y : Dim) : Except Err NodeArray :=
  if x.indexed != y.indexed then .error .outOfScope else
  match dimsCompatible (dropDim a.dims d) (dropDim b.dims d) with
  | .error e => .error e
  | .ok _ =>
    match mergeScalars a.scalars b.scalars with
    | .error e => .error e
    | .ok scalars =>
      .ok { dims := (mergeDims a.dims b.dims).map (fun z => if z.name = d then
                      { z with labels := if x.indexed then x.labels ++ y.labels else intLabels (x.labels.length + y.labels.length) } else z),
            scalars := scalars,
            node := fun ix => if ix d < x.labels.length then a.node ix else b.node (ix.set d (ix d - x.labels.length)) }

/-- the other side carries `d` as a scalar coordinate `v`: it is one more slice -/
def joinSlice (a b : NodeArray) (d : String) (x : Dim) (v : Coord) : Except Err NodeArray :=
  if !x.indexed || (a.scalar? d).isSome then .error .outOfScope else
  match dimsCompatible (dropDim a.dims d) b.dims with
  | .error e => .error e
  | .ok _ =>
    match mergeScalars (eraseScalar a.scalars d) (eraseScalar b.scalars d) with
    | .error e => .error e
    | .ok scalars =>
      .ok { dims := (mergeDims a.dims b.dims).map (fun z => if z.name = d then { z with labels := x.labels ++ [v] } else z),
            scalars := scalars,
            node := fun ix => if ix d < x.labels.length then a.node ix else b.node ix }

/-- the new leading dimension when neither array has `d` as a dimension -/
def joinNewDim (dim : DimArg) (sa sb : Option Coord) : Except Err Dim :=
  match dim, sa, sb with
  | .coord d ls, none, none => if ls.length = 2 then .ok { name := d, labels := ls, indexed := true } else .error .value
  | .name d, none, none => .ok { name := d, labels := intLabels 2, indexed := false }
  | .name d, some v, some w => .ok { name := d, labels := [v, w], indexed := true }
  | _, _, _ => .error .outOfScope

/-- the dimensions both arrays have must fit (`join="exact"`); a dimension only one of them has is broadcast -/
def dimsCompatibleShared (da db : List Dim) : Except Err Unit :=
  da.forM fun x =>
    match db.find? (·.name = x.name) with
    | none => .ok ()
    | some y =>
      if x.indexed && y.indexed then (if x.labels = y.labels then .ok () else .error .value)
      else if x.labels.length = y.labels.length then .ok () else .error .value

/-- a scalar coordinate of one array named like a dimension of the other: xarray silently drops it (not described) -/
def scalarClash (a b : NodeArray) : Bool :=
  a.scalars.any (fun s => (b.findDim s.1).isSome) || b.scalars.any (fun s => (a.findDim s.1).isSome)

/-- stack along a new dimension at axis 0. The arrays may have DIFFERENT dimensions: `xr.concat` brings both to the
union of the dimensions (those of the first array, then the ones only the second has), broadcasting by NAME. -/
def joinNew (a b : NodeArray) (dim : DimArg) : Except Err NodeArray :=
  let d := dim.dimName
  if scalarClash a b then .error .outOfScope else
  match dimsCompatibleShared a.dims b.dims with
  | .error e => .error e
  | .ok _ =>
    match mergeScalars (eraseScalar a.scalars d) (eraseScalar b.scalars d) with
    | .error e => .error e
    | .ok scalars =>
      match joinNewDim dim (a.scalar? d) (b.scalar? d) with
      | .error e => .error e
      | .ok newDim =>
        .ok { dims := newDim :: (mergeDims a.dims b.dims ++ b.dims.filter (fun y => (a.findDim y.name).isNone)),
              scalars := scalars,
              node := fun ix => if ix d = 0 then a.node ix else b.node ix }

/-- `xr.concat([self.nodes, other.nodes], dim, coords="minimal", join="exact")` -/
def joinCore (a b : NodeArray) (dim : DimArg) : Except Err NodeArray :=
  match dim, a.findDim dim.dimName, b.findDim dim.dimName with
  | .name d, some x, some y => joinExisting a b d x y
  | .name d, some x, none =>
    match b.scalar? d with
    | none => .error .outOfScope
    | some v => joinSlice a b d x v
  | _, none, none => joinNew a b dim
  | _, _, _ => .error .outOfScope

/-- `Action.join(other, dim, match_coord_values)` -/
def join (a b0 : NodeArray) (dim : DimArg) (mtch : Bool) : Except Err NodeArray :=
  if mtch then
    match matchCoords a b0 with
    | .error e => .error e
    | .ok b => joinCore a b dim
  else joinCore a b0 dim

def datatypeDim : String := "**datatype**"

/-- `__two_arg_method` with an action: join on a new dimension, then reduce it -/
def arithAction (fn : String) (a b : NodeArray) : Except Err NodeArray := do
  let j ← join a b (.name datatypeDim) true
  reduce { fn := fn } none "" 0 false j

/-- `Action.std` (non-batched branch passes `keep_dim` — fix commit) -/
def std (d0 : String) (b : Nat) (keep : Bool) (kw : List (String × Static)) (a : NodeArray) : Except Err NodeArray := do
  let d ← defaultDim d0 a
  if b > 1 && (a.findDim d).isNone then throw Err.key
  if b ≤ 1 || b ≥ a.dimSize d then
    reduce (backendPayload "std" kw) none d 0 keep a
  else
    let m ← mean d b keep kw a
    let meanSq := arithScalar "pow" (.num 2) m
    let s ← named "sum" d b keep kw (arithScalar "pow" (.num 2) a)
    let norm := arithScalar "divide" (natStatic (a.dimSize d)) s
    let diff ← arithAction "subtract" norm meanSq
    pure (arithScalar "pow" (.num (1 / 2)) diff)

/-- `_combine_nodes` (stack / concatenate): no-op on a size-1 dimension (squeezed on a copy) -/
def combine (method : String) (kw : List (String × Static)) (d : String) (b : Nat) (keep : Bool) (a : NodeArray) :
    Except Err NodeArray :=
  match a.findDim d with
  | none => .error .key
  | some x =>
    if x.labels.length = 1 then (if keep then .ok a else squeeze a d false)
    else reduce (backendPayload method kw) none d b keep a

def stack (d : String) (b : Nat) (keep : Bool) (axis : Int) (a : NodeArray) : Except Err NodeArray :=
  combine "stack" [("axis", .num axis)] d b keep a

def concatenate (d : String) (b : Nat) (keep : Bool) (a : NodeArray) : Except Err NodeArray :=
  combine "concat" [] d b keep a

def flatten (d : String) (axis : Int) (a : NodeArray) : Except Err NodeArray :=
  reduce (backendPayload "stack" [("axis", .num axis)]) none d 0 false a

/-! ### transform / expand -/

/-- the loop of `Action.transform`: apply `f` per parameter, add the new dimension unless the
result already has a coordinate of that name, join along it. -/
def transformLoop {P : Type} (f : NodeArray → P → Except Err NodeArray) (dname : String) (values : List Coord)
    (axis : Nat) (a : NodeArray) : List P → Nat → Option NodeArray → Except Err (Option NodeArray)
  | [], _, res => .ok res
  | p :: ps, index, res => do
    let r ← f a p
    let r ← if r.hasCoord dname then pure r else
      match values[index]? with
      | none => throw Err.index
      | some v => addDim r dname v axis
    let res' ← match res with
      | none => pure r
      | some acc => join acc r (.name dname) false
    transformLoop f dname values axis a ps (index + 1) (some res')

/-- `Action.transform(func, params, dim, axis)` -/
def transform {P : Type} (f : NodeArray → P → Except Err NodeArray) (params : List P) (dim : DimArg) (axis : Nat)
    (a : NodeArray) : Except Err NodeArray := do
  let values := match dim with
    | .name _ => intLabels params.length
    | .coord _ ls => ls
  match ← transformLoop f dim.dimName values axis a params 0 none with
  | none => throw Err.value
  | some res => squeeze res dim.dimName false

/-- `_expand_transform`: `map(Payload(take, ["input0", index], {"dim": dim}))` -/
def expandTransform (internal : Static) (a : NodeArray) (index : Static) : Except Err NodeArray :=
  .ok (map { fn := "take", tmpl := [.inp 0, .lit index], kw := [("dim", internal)] } none a)

/-- `Action.expand(dim, internal_dim, dim_size, axis)` with an integer `internal_dim` -/
def expand (dim : DimArg) (internal : Int) (size : Nat) (axis : Nat) (a : NodeArray) : Except Err NodeArray :=
  match dim with
  | .coord _ ls =>
    if ls.length ≠ size then .error .value
    else transform (expandTransform (.num internal)) ((List.range size).map natStatic) dim axis a
  | .name _ => transform (expandTransform (.num internal)) ((List.range size).map natStatic) dim axis a

/-- `_expand_transform` with `backend_kwargs`: `{"dim": dim, **backend_kwargs}` -/
def expandTransformKw (internal : Static) (kw : List (String × Static)) (a : NodeArray) (index : Static) :
    Except Err NodeArray :=
  .ok (map { fn := "take", tmpl := [.inp 0, .lit index], kw := ("dim", internal) :: kw } none a)

/-- `internal_dim` of `expand`: an index or a name together with `dim_size`, or a `Coord` (name, selection criteria) -/
inductive ExpandSpec
  | sized (internal : Static) (size : Option Nat)
  | coord (name : String) (values : List Static)

/-- the `(index, internal dimension)` parameters `expand` hands to `transform` -/
def expandParams : ExpandSpec → Except Err (Static × List Static)
  | .sized _ none => .error .type            -- "If `internal_dim` is str or int, then `dim_size` must be provided"
  | .sized i (some n) => .ok (i, (List.range n).map natStatic)
  | .coord nm vs => .ok (.str nm, vs)

/-- `Action.expand(dim, internal_dim, dim_size, axis, backend_kwargs)` in full -/
def expandG (dim : DimArg) (spec : ExpandSpec) (kw : List (String × Static)) (axis : Nat) (a : NodeArray) :
    Except Err NodeArray :=
  match expandParams spec with
  | .error e => .error e
  | .ok (internal, params) =>
    match dim with
    | .coord _ ls =>
      if ls.length ≠ params.length then .error .value
      else transform (expandTransformKw internal kw) params dim axis a
    | .name _ => transform (expandTransformKw internal kw) params dim axis a

/-- `Action.flatten(dim, axis, backend_kwargs)` -/
def flattenKw (d : String) (axis : Int) (kw : List (String × Static)) (a : NodeArray) : Except Err NodeArray :=
  reduce (backendPayload "stack" (("axis", .num axis) :: kw)) none d 0 false a

/-! ### broadcast -/

def trivialPayload : Payload := { fn := "trivial" }

/-- one round of the assertion loop of `broadcast`, for a dimension coordinate of the other array -/
def broadcastCheckDim (a : NodeArray) (y : Dim) : Except Err Unit :=
  if !y.indexed then .ok () else
  match a.findDim y.name with
  | some x =>
    if !x.indexed then .ok ()
    else if x.labels = y.labels then .ok ()
    else if x.labels.length = y.labels.length then .error .assert
    else if x.labels.length = 1 || y.labels.length = 1 then
      -- NumPy broadcasts the comparison of a length-1 coordinate
      (if (x.labels ++ y.labels).all (fun c => some c = x.labels.head?) then .error .outOfScope else .error .assert)
    else .error .value
  | none =>
    match a.scalar? y.name with
    | some v => if y.labels.all (· = v) then .error .outOfScope else .error .assert
    | none => .ok ()

/-- …and for a scalar coordinate of the other array -/
def broadcastCheckScalar (a : NodeArray) (nv : String × Coord) : Except Err Unit :=
  match a.scalar? nv.1 with
  | some w => if nv.2 = w then .ok () else .error .assert
  | none =>
    match a.findDim nv.1 with
    | some x => if !x.indexed then .ok () else if x.labels.all (· = nv.2) then .error .outOfScope else .error .assert
    | none => .ok ()

def errorsOf (l : List (Except Err Unit)) : List Err :=
  l.filterMap (fun r => match r with | .error e => some e | .ok _ => none)

/-- the assertion loop of `broadcast`: coordinates present in both must be equal. The loop runs in
the order of xarray's coordinate dictionary, which the model does not track: when several
coordinates fail in different ways the first failure is not determined (out of scope). -/
def broadcastCheck (a b : NodeArray) : Except Err Unit :=
  match errorsOf (b.dims.map (broadcastCheckDim a) ++ b.scalars.map (broadcastCheckScalar a)) with
  | [] => .ok ()
  | e :: rest => if rest.all (· = e) then .error e else .error .outOfScope

/-- `Action.broadcast(other)` (after the fix: the trivial nodes are broadcast by dimension name;
`broadcast_like` puts the other array's dimensions first) -/
def broadcast (a b : NodeArray) : Except Err NodeArray := do
  broadcastCheck a b
  -- dimensions shared without a common coordinate must at least agree in size
  a.dims.forM fun x =>
    match b.findDim x.name with
    | some y => if x.labels.length = y.labels.length then pure () else throw Err.outOfScope
    | none => pure ()
  let fromB := b.dims.map fun y =>
    match a.findDim y.name with
    | some x => if x.indexed then x else y
    | none => y
  let onlyA := a.dims.filter (fun x => (b.findDim x.name).isNone)
  pure { dims := fromB ++ onlyA, scalars := a.scalars, node := fun ix => mkNode trivialPayload [a.node ix] }

/-- `Action.broadcast(other, exclude)`: the dimensions (and coordinates) named in `exclude` take no part — they are
neither compared nor broadcast -/
def broadcastX (a b : NodeArray) (exclude : List String) : Except Err NodeArray := do
  let bdims := b.dims.filter (fun y => !exclude.contains y.name)
  match errorsOf (bdims.map (broadcastCheckDim a) ++ (b.scalars.filter (fun s => !exclude.contains s.1)).map (broadcastCheckScalar a)) with
  | [] => pure ()
  | e :: rest => if rest.all (· = e) then throw e else throw Err.outOfScope
  a.dims.forM fun x =>
    match bdims.find? (·.name = x.name) with
    | some y => if x.labels.length = y.labels.length then pure () else throw Err.outOfScope
    | none => pure ()
  let fromB := bdims.map fun y =>
    match a.findDim y.name with
    | some x => if x.indexed then x else y
    | none => y
  -- xarray appends the excluded dimensions of `a` LAST, iterating over a Python set of names: with two or more of
  -- them the order depends on the hash seed (not described)
  let exclA := a.dims.filter (fun x => exclude.contains x.name)
  if exclA.length > 1 then throw Err.outOfScope
  let onlyA := a.dims.filter (fun x => !exclude.contains x.name && (bdims.find? (·.name = x.name)).isNone)
  pure { dims := fromB ++ onlyA ++ exclA, scalars := a.scalars, node := fun ix => mkNode trivialPayload [a.node ix] }

end EkwVerif.Fluent
