/-
Model of the acknowledged-send layer of cascade (src/cascade/executor/comms.py):
`ReliableSender` (send / ack / maybe_retry) with BOTH wire shapes of an acknowledged message
(`[Syn, pickled message]` and, for a DatasetTransmitPayload sent by `send_data`,
`[Syn, pickled header, raw value]`; ids ≥ `dataBase` are payloads), `Listener` (`_recv_one`: always
ack a Syn, deliver only an unseen Syn — whatever the shape), the dispatch of `Ack` messages by the endpoint loops
(`Bridge.recv_events`, `Bridge.shutdown`, `Executor.recv_loop`), a per-endpoint clock, and an
adversarial network that may drop, duplicate, delay and reorder whole multipart messages
(data frames and acknowledgements alike).

Every endpoint (controller or executor) owns one Listener and one ReliableSender; the address of
endpoint `a` is the number `a`. State of Python dicts/sets = functions `Nat → …`.
Two levels of "delivered": `delivered` = what `Listener._recv_one` accepted (acknowledged, marked in
`acked`, appended to the local `messages` list of `recv_messages`); `handled` = what the loop body of
the endpoint actually took out of the returned batch (`Executor.recv_loop`) resp. what
`Bridge.recv_events` returned to the controller. Between the two: `batch` (returned by
`recv_messages`, not yet taken by the `for`), `staged` (the local `events` of `recv_events`); an
abandoned iteration (`break`, handler exception, `shutdown_reason`, an exception out of
`recv_messages`) moves both to the ghost list `lost`.
Ghost fields (not present in the code, used by the theorems only): `raised`, `errors`, `log`,
`sends`, `hosts0`, `lost`, `aborts`, `locals`, and the `syn` tag of a `Delivery`.
NO Mathlib.
-/
import EkwVerif.Model.Frames

namespace EkwVerif.Ack
open EkwVerif.Frames

/-- function update (Python: `d[k] = v`) -/
def upd {β : Type} (f : Nat → β) (k : Nat) (v : β) : Nat → β := fun j => if j = k then v else f j

@[simp] theorem upd_apply {β : Type} (f : Nat → β) (k : Nat) (v : β) (j : Nat) :
    upd f k v j = if j = k then v else f j := rfl

/-- `_InFlightRecord` (the serialised message is the interned `msg`; `clazz` is logging only) -/
structure Rec where
  host : Nat
  msg : Nat
  sentAt : Nat
  remaining : Int
deriving DecidableEq, Repr

/-- One message returned by `_recv_one`. `syn` is a ghost tag: the Syn the message arrived under
(`none` for local, un-acknowledged `callback` traffic). -/
structure Delivery where
  syn : Option SynId
  body : Parsed
deriving DecidableEq, Repr

def Delivery.isAck (d : Delivery) : Bool :=
  match d.body with
  | .msg (.ack _) => true
  | _ => false

/-- the part of a batch that is owed to the application (Acks are consumed by the loop itself) -/
def payloads (l : List Delivery) : List Delivery := l.filter (fun d => !d.isAck)

/-- A multipart message on the wire. -/
structure Packet where
  dst : Nat
  frames : List Frame
deriving DecidableEq, Repr

structure Endpoint where
  -- ReliableSender
  hosts : Nat → Option Nat := fun _ => none       -- host id ↦ address (socket)
  inflight : Nat → Option Rec := fun _ => none
  idx : Nat := 0
  grace : Nat := 0                                -- resend_grace
  -- Listener
  acked : Nat → Nat → Bool := fun _ _ => false    -- Syn(idx, addr) ∈ acked
  inbox : List (List Frame) := []                 -- zmq receive queue (FIFO)
  -- clock seen by this endpoint
  now : Nat := 0
  -- Listener side: everything `_recv_one` returned that is not an `Ack` (acknowledged + marked)
  delivered : List Delivery := []
  -- application side
  batch : List Delivery := []                     -- `messages` of recv_messages / rest of the `for`
  staged : List Delivery := []                    -- `events` of Bridge.recv_events, not yet returned
  handled : List Delivery := []                   -- taken by the loop body / returned to the controller
  -- ghosts
  raised : Bool := false                          -- some `maybe_retry` call raised
  errors : Nat := 0                               -- `_recv_one` raised that many times
  log : Nat → Option (Nat × Nat) := fun _ => none -- idx ↦ (host, msg) accepted by `send`
  sends : Nat → Nat := fun _ => 0                 -- idx ↦ number of transmissions
  hosts0 : Nat → Option Nat := fun _ => none      -- `hosts` at construction
  lost : List Delivery := []                      -- accepted + acknowledged, then discarded unhandled
  aborts : Nat := 0                               -- abandoned loop iterations
  locals : List Nat := []                         -- bodies of the local `callback` messages queued here

structure Sys where
  ep : Nat → Endpoint := fun _ => {}
  net : List Packet := []
  maxRetries : Nat := 20                          -- comms.max_retries_per_message

/-- What the endpoint loop does around the comms layer (one row of `Gen.RetryLoops`). -/
inductive Phase where
  | startup | steady | shutdown
deriving DecidableEq, Repr

structure LoopInfo where
  name : String
  phase : Phase
  feedsAck : Bool      -- an `isinstance(m, Ack)` branch calls `self.sender.ack(m.idx)`
  callsRetry : Bool    -- every iteration calls `self.sender.maybe_retry()`
  timeoutMs : Option Nat := none  -- `timeout_ms` of the loop's `recv_messages` call; none = blocks for ever
  raiseEnds : Bool := true        -- a ValueError out of `self.sender.maybe_retry()` ENDS the loop: no `except`
                                  -- handler between the call and the end of the loop swallows it (a handler that
                                  -- re-raises, `break`s, returns or sets the flag the `while` tests is no swallow);
                                  -- true also when the loop never calls maybe_retry
deriving DecidableEq, Repr

inductive Op where
  | send (a h m : Nat)          -- `ReliableSender.send(h, m)` at endpoint a
  | localMsg (a m : Nat)        -- un-acknowledged `callback(addr_a, m)` from a local worker
  | drop (k : Nat)              -- network: lose net[k]
  | deliver (k : Nat)           -- network: net[k] arrives at its destination's queue
  | dup (k : Nat)               -- network: net[k] arrives AND stays in the network
  | collect (a : Nat)           -- one `_recv_one` at a inside `recv_messages` (result joins `batch`)
  | process (a : Nat) (feeds stage : Bool)
                                -- the loop body takes the next message of the batch: an Ack goes to
                                -- `sender.ack` iff `feeds`; anything else is handled (or staged: an
                                -- Event inside `Bridge.recv_events`)
  | commit (a : Nat)            -- `Bridge.recv_events` returns its `events`
  | abort (a : Nat)             -- the iteration is abandoned (break / exception / shutdown_reason)
  | retry (a : Nat)             -- `ReliableSender.maybe_retry()` at a
  | tick (a dt : Nat)           -- a's clock advances
  | popHost (a h : Nat)         -- `sender.hosts.pop(h)` (Bridge, on ExecutorExit/Failure)
deriving DecidableEq, Repr

def setEp (s : Sys) (a : Nat) (e : Endpoint) : Sys := { s with ep := upd s.ep a e }

/-- Message ids are interned naturals; the ids from `dataBase` on stand for
DatasetTransmitPayloads, which travel in the second wire format (`comms.send_data`): Syn, pickled
header, raw value — three frames — instead of Syn + ONE pickled frame (`ReliableSender.send`). -/
def dataBase : Nat := 1000000

/-- the wire shape of message `m` -/
def shapeOf (m : Nat) : Shape := if dataBase ≤ m then .data else .plain

/-- the frames after the Syn: `[pickled m]`, or `[header, value]` for a payload -/
def bodyFrames (m : Nat) : List Frame := wireBody (shapeOf m) m

/-- what the destination's `_recv_one` returns for message `m`: `Parsed.msg (.app m)`, or
`Parsed.payload m (.msg (.app m))` for a payload -/
def bodyOf (m : Nat) : Parsed := parsedBody (shapeOf m) m

/-- An acknowledged message on the wire, in either shape: `[Syn(i, a), pickled m]` (two frames,
`ReliableSender.send`) or `[Syn(i, a), header, value]` (three frames, `send_data`). -/
def dataFrames (i a m : Nat) : List Frame := .syn i a :: bodyFrames m
def ackFrames (i : Nat) : List Frame := [.msg (.ack i)]

/-- `ReliableSender.send` (and `send_data` for a payload id: same bookkeeping, three-frame wire
shape — `dataFrames`). With an unknown host the record is already stored when
`self.hosts[host]` raises KeyError (idx is not incremented, nothing is transmitted). -/
def send (s : Sys) (a h m : Nat) : Sys :=
  let e := s.ep a
  let r : Rec := { host := h, msg := m, sentAt := e.now, remaining := s.maxRetries }
  match e.hosts h with
  | none => setEp s a { e with inflight := upd e.inflight e.idx (some r) }
  | some d =>
    { setEp s a { e with inflight := upd e.inflight e.idx (some r)
                         idx := e.idx + 1
                         log := upd e.log e.idx (some (h, m))
                         sends := upd e.sends e.idx 1 } with
      net := s.net ++ [⟨d, dataFrames e.idx a m⟩] }

def sendFails (s : Sys) (a h : Nat) : Bool := ((s.ep a).hosts h).isNone

def localMsg (s : Sys) (a m : Nat) : Sys :=
  let e := s.ep a
  setEp s a { e with inbox := e.inbox ++ [[.msg (.app m)]], locals := e.locals ++ [m] }

def drop (s : Sys) (k : Nat) : Sys := { s with net := s.net.eraseIdx k }

def arrive (s : Sys) (p : Packet) : Sys :=
  let e := s.ep p.dst
  setEp s p.dst { e with inbox := e.inbox ++ [p.frames] }

def deliver (s : Sys) (k : Nat) : Sys :=
  match s.net[k]? with
  | none => s
  | some p => arrive { s with net := s.net.eraseIdx k } p

def dup (s : Sys) (k : Nat) : Sys :=
  match s.net[k]? with
  | none => s
  | some p => arrive s p

/-- `ReliableSender.ack` -/
def senderAck (e : Endpoint) (i : Nat) : Endpoint := { e with inflight := upd e.inflight i none }

/-- the iteration is abandoned: whatever was accepted but not yet handled is gone -/
def abortEp (e : Endpoint) : Endpoint :=
  { e with lost := e.lost ++ e.staged ++ payloads e.batch, batch := [], staged := [],
           aborts := e.aborts + 1 }

/-- One `Listener._recv_one` on the head of the queue (nothing if the queue is empty) inside
`recv_messages`: the returned message joins the local list `messages` (`batch`). A `raise`
propagates out of `recv_messages` and out of the loop iteration: the list is lost. -/
def collect (s : Sys) (a : Nat) : Sys :=
  let e := s.ep a
  match e.inbox with
  | [] => s
  | fs :: rest =>
    let out := recvOne e.acked fs
    let net' := match out.ack with
      | some (ad, i) => s.net ++ [⟨ad, ackFrames i⟩]
      | none => s.net
    let acked' := match out.mark with
      | some (i, ad) => fun i' ad' => if i' = i ∧ ad' = ad then true else e.acked i' ad'
      | none => e.acked
    let e1 := { e with inbox := rest, acked := acked' }
    let e2 := match out.res with
      | .error _ => abortEp { e1 with errors := e1.errors + 1 }
      | .ok none => e1
      | .ok (some p) =>
        let d : Delivery := ⟨out.mark, p⟩
        { e1 with batch := e1.batch ++ [d]
                  delivered := if d.isAck then e1.delivered else e1.delivered ++ [d] }
    { setEp s a e2 with net := net' }

/-- The loop body takes the next message of the batch. -/
def processEp (e : Endpoint) (feeds stage : Bool) : Endpoint :=
  match e.batch with
  | [] => e
  | d :: rest =>
    match d.body with
    | .msg (.ack i) => if feeds then { senderAck e i with batch := rest } else { e with batch := rest }
    | _ =>
      if stage then { e with batch := rest, staged := e.staged ++ [d] }
      else { e with batch := rest, handled := e.handled ++ [d] }

def process (s : Sys) (a : Nat) (feeds stage : Bool) : Sys := setEp s a (processEp (s.ep a) feeds stage)

/-- `Bridge.recv_events` returns its events to the controller. -/
def commit (s : Sys) (a : Nat) : Sys :=
  let e := s.ep a
  setEp s a { e with handled := e.handled ++ e.staged, staged := [] }

def abort (s : Sys) (a : Nat) : Sys := setEp s a (abortEp (s.ep a))

/-- Body of the `for idx, record in self.inflight.items()` loop of `maybe_retry` for one idx
(the retransmission has the shape of the original: `dataFrames`).
The Bool says: this iteration raised. -/
def retryOne (s : Sys) (a i : Nat) : Sys × Bool :=
  let e := s.ep a
  match e.inflight i with
  | none => (s, false)
  | some r =>
    if r.sentAt + e.grace < e.now then
      match e.hosts r.host with
      | none => (s, false)          -- "host not present, cannot retry"
      | some d =>
        let r' : Rec := { r with sentAt := e.now, remaining := r.remaining - 1 }
        let raise := decide (r'.remaining ≤ 0)
        ({ setEp s a { e with inflight := upd e.inflight i (some r')
                              sends := upd e.sends i (e.sends i + 1)
                              raised := e.raised || raise } with
           net := s.net ++ [⟨d, dataFrames i a r.msg⟩] }, raise)
    else (s, false)

def retryList (s : Sys) (a : Nat) : List Nat → Sys
  | [] => s
  | i :: is =>
    let (s', raise) := retryOne s a i
    if raise then s' else retryList s' a is

/-- `ReliableSender.maybe_retry`: the dict is in insertion order = ascending idx. -/
def retry (s : Sys) (a : Nat) : Sys := retryList s a (List.range ((s.ep a).idx + 1))

def tick (s : Sys) (a dt : Nat) : Sys :=
  let e := s.ep a
  setEp s a { e with now := e.now + dt }

def popHost (s : Sys) (a h : Nat) : Sys :=
  let e := s.ep a
  setEp s a { e with hosts := upd e.hosts h none }

def step (s : Sys) : Op → Sys
  | .send a h m => send s a h m
  | .localMsg a m => localMsg s a m
  | .drop k => drop s k
  | .deliver k => deliver s k
  | .dup k => dup s k
  | .collect a => collect s a
  | .process a f st => process s a f st
  | .commit a => commit s a
  | .abort a => abort s a
  | .retry a => retry s a
  | .tick a dt => tick s a dt
  | .popHost a h => popHost s a h

def run (s : Sys) : List Op → Sys
  | [] => s
  | op :: ops => run (step s op) ops

/-- Initial system: `cfg a = (grace, hosts)` for every endpoint (hosts as an association list,
`add_host` calls of the constructor). -/
def lookup (l : List (Nat × Nat)) (h : Nat) : Option Nat :=
  match l with
  | [] => none
  | (k, v) :: t => if k = h then some v else lookup t h

def mkEndpoint (grace : Nat) (hosts : Nat → Option Nat) : Endpoint :=
  { grace := grace, hosts := hosts, hosts0 := hosts }

def init (maxRetries : Nat) (cfg : Nat → Nat × (Nat → Option Nat)) : Sys :=
  { ep := fun a => mkEndpoint (cfg a).1 (cfg a).2, net := [], maxRetries := maxRetries }

/-- the next `_recv_one` ends `recv_messages`: it returns None (a Syn seen before) or raises -/
def headStops (s : Sys) (a : Nat) : Bool :=
  match (s.ep a).inbox with
  | [] => true
  | fs :: _ =>
    match (recvOne (s.ep a).acked fs).res with
    | .ok (some _) => false
    | _ => true

/-- `Listener.recv_messages(timeout)`: `_recv_one` until the queue is empty — or until one call
returns None, which is also what a duplicate Syn yields (the rest of the queue then waits for the
next call), or raises. `fuel` = queue length. -/
def recvMessages (s : Sys) (a : Nat) : Nat → Sys
  | 0 => s
  | fuel + 1 =>
    match (s.ep a).inbox with
    | [] => s
    | _ :: _ =>
      let stop := headStops s a
      let s' := collect s a
      if stop then s' else recvMessages s' a fuel

/-- One iteration of an endpoint loop, as a list of small steps: `body` (the `recv_messages` call,
the dispatch of the batch, the application's own sends, commit or abort — anything but
`maybe_retry`), then `maybe_retry` iff the loop calls it. -/
def iteration (a : Nat) (l : LoopInfo) (body : List Op) : List Op :=
  body ++ (if l.callsRetry then [Op.retry a] else [])

/-! ### a frame-forging adversary (only used by the theorems about malformed sequences) -/

/-- histories in which, besides everything in `Op`, arbitrary frame lists may be put into any
receive queue -/
inductive OpF where
  | op (o : Op)
  | inject (a : Nat) (fs : List Frame)
deriving DecidableEq, Repr

def inject (s : Sys) (a : Nat) (fs : List Frame) : Sys :=
  let e := s.ep a
  setEp s a { e with inbox := e.inbox ++ [fs] }

def stepF (s : Sys) : OpF → Sys
  | .op o => step s o
  | .inject a fs => inject s a fs

def runF (s : Sys) : List OpF → Sys
  | [] => s
  | op :: ops => runF (stepF s op) ops

end EkwVerif.Ack
