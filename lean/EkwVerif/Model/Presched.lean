/-
Model of `cascade.scheduler.graph.precompute` (with `decompose`, `enrich`, the python fallback
of `nearest_common_descendant`), of `cascade.low.views.dependants` / `param_source` and of the
dataclasses `ComponentCore` / `Preschedule` of `cascade.scheduler.core`.

Conventions
  * task ids `α`, output names `β`: any types with decidable equality (the driver uses `String`).
  * Python `dict` = association list with unique keys, updated in place (`dset`), read with
    `dlookup`; `defaultdict(set)` read = `dget` (missing key ↦ empty set).
  * Python `set` = list without duplicates (`sadd` = `set.add`, `sunion` = `set.union`). The
    iteration order of a Python set is arbitrary; the model iterates in insertion order. Every
    theorem of Props/C16.lean is about membership / lookups, never about positions.
  * `while` loops carry a fuel argument. `flood` (the inner loop of `decompose`) gets
    `len(nodes)`, the layering loop of `enrich` gets `len(nodes)`; Lemmas/C16Flood.lean and
    Lemmas/C16Layers.lean prove that this fuel is never exhausted before the loop condition
    turns false when the job is a DAG (`Aux.flood_fuel_indep`, `Aux.layersLoop_spec`, summarised by
    `c16_fuel`: any larger fuel gives the same `decomposeF` / `enrichF`). On a cyclic
    job the real `enrich` does not terminate; the model then stops when the fuel is used up.
  * `paths` (internal to the real `enrich`) is kept as a ghost field of `Component`; the harness
    observes the real one by wrapping `graph.nearest_common_descendant`.
  * Not modelled: `coptrs` (C extension, absent), the thread pool (pure `map`), tracing.
  * Where the real `enrich` raises `KeyError` or never leaves `while remaining:` the total functions
    return something arbitrary; `relaxE … enrichE` report it (`LoopErr`) and are what the driver runs.
-/
namespace EkwVerif.Presched

/-- `sink_input_kw` / `sink_input_ps` of a well-formed `Task2TaskEdge` (exactly one is set). -/
inductive Key where
  | kw (s : String)
  | ps (n : Int)
  deriving DecidableEq, Repr

/-- `Task2TaskEdge(source=DatasetId(src,out), sink_task=dst, sink_input_*=key)` -/
structure Edge (α β : Type) where
  src : α
  out : β
  dst : α
  key : Key
  deriving DecidableEq, Repr

/-- `JobInstance`: `tasks` (id ↦ names of `definition.output_schema`), `edges`. -/
structure Job (α β : Type) where
  tasks : List (α × List β)
  edges : List (Edge α β)

/-- `list(job_instance.tasks.keys())` -/
def Job.ids {α β : Type} (j : Job α β) : List α := j.tasks.map (·.1)

/-! ### sets and dicts -/
section Dict
variable {κ ν γ : Type} [DecidableEq κ] [DecidableEq γ]

/-- `s.add(x)` -/
def sadd (s : List γ) (x : γ) : List γ := if x ∈ s then s else s ++ [x]

/-- `s.union(t)` -/
def sunion (s t : List γ) : List γ := t.foldl sadd s

/-- `set(l)` / a set comprehension over `l` -/
def toSet (l : List γ) : List γ := l.foldl sadd []

/-- `m.get(k)` -/
def dlookup : List (κ × ν) → κ → Option ν
  | [], _ => none
  | (k', v) :: m, k => if k' = k then some v else dlookup m k

/-- `m[k] = v` -/
def dset : List (κ × ν) → κ → ν → List (κ × ν)
  | [], k, v => [(k, v)]
  | (k', v') :: m, k, v => if k' = k then (k', v) :: m else (k', v') :: dset m k v

/-- `m.pop(k)` -/
def derase (m : List (κ × ν)) (k : κ) : List (κ × ν) := m.filter (fun p => p.1 ≠ k)

/-- read of a `defaultdict(set)` -/
def dget (m : List (κ × List γ)) (k : κ) : List γ := (dlookup m k).getD []

/-- `m[k].add(x)` on a `defaultdict(set)` -/
def dadd (m : List (κ × List γ)) (k : κ) (x : γ) : List (κ × List γ) := dset m k (sadd (dget m k) x)

end Dict

section Views
variable {α β : Type} [DecidableEq α] [DecidableEq β]

/-- `cascade.low.views.dependants`: `rv[e.source].add(e.sink_task)` -/
def dependants (es : List (Edge α β)) : List ((α × β) × List α) :=
  es.foldl (fun m e => dadd m (e.src, e.out) e.dst) []

/-- `cascade.low.views.param_source`: `rv[e.sink_task][sink_input] = e.source` (later edge wins) -/
def paramSource (es : List (Edge α β)) : List (α × List (Key × (α × β))) :=
  es.foldl (fun m e => dset m e.dst (dset ((dlookup m e.dst).getD []) e.key (e.src, e.out))) []

/-- `edge_i` as `precompute` built it before the `fix:` commit of C16 (`edge_i[task] = {e for e in
inputs.values()}` over `param_source`): the sources the EXECUTOR will read for `task` (it keeps using
`param_source`). Of two edges into the same sink input only the later one is in it. -/
def edgeIParams (es : List (Edge α β)) : List (α × List (α × β)) :=
  (paramSource es).map (fun p => (p.1, toSet (p.2.map (·.2))))

/-- `for edge in job_instance.edges: edge_i[edge.sink_task].add(edge.source)` (after the fix: every
edge counts, so `edge_i` mirrors `edge_o` whatever the sink inputs are) -/
def edgeI (es : List (Edge α β)) : List (α × List (α × β)) :=
  es.foldl (fun m e => dadd m e.dst (e.src, e.out)) []

/-- `edge_o_proj[dataset.task] = edge_o_proj[dataset.task].union(outs)` -/
def edgeOProj (eo : List ((α × β) × List α)) : List (α × List α) :=
  eo.foldl (fun m p => dset m p.1.1 (sunion (dget m p.1.1) p.2)) []

/-- `edge_i_proj[vert] = {dataset.task for dataset in inps}` -/
def edgeIProj (ei : List (α × List (α × β))) : List (α × List α) :=
  ei.foldl (fun m p => dset m p.1 (toSet (p.2.map (·.1)))) []

/-- `{task: job_instance.outputs_of(task) for task in job_instance.tasks.keys()}` -/
def taskO (tasks : List (α × List β)) : List (α × List (α × β)) :=
  tasks.map (fun p => (p.1, toSet (p.2.map (fun o => (p.1, o)))))

end Views

/-! ### decompose -/
section Decompose
variable {α : Type} [DecidableEq α]

/-- the `for vert in chain(edge_i[head], edge_o[head])` loop; state = (queue, visited) -/
def pushNew (nbs : List α) (st : List α × List α) : List α × List α :=
  nbs.foldl (fun st v => if v ∈ st.2 then st else (v :: st.1, v :: st.2)) st

/-- the `while queue` loop; returns (visited, component). The head of the list is the end the
real code pops from. -/
def flood (nb : α → List α) : Nat → List α → List α → List α → List α × List α
  | 0, _, vis, comp => (vis, comp)
  | _ + 1, [], vis, comp => (vis, comp)
  | f + 1, h :: q, vis, comp =>
    let st := pushNew (nb h) (q, vis)
    flood nb f st.1 st.2 (comp ++ [h])

/-- the `while sources_l` loop; yields `(component, [e for e in component if e in sources])` -/
def decomposeLoop (nb : α → List α) (fuel : Nat) (sources : List α) :
    List α → List α → List (List α × List α)
  | [], _ => []
  | s :: rest, vis =>
    if s ∈ vis then decomposeLoop nb fuel sources rest vis
    else
      let r := flood nb fuel [s] (s :: vis) []
      (r.2, r.2.filter (fun e => e ∈ sources)) :: decomposeLoop nb fuel sources rest r.1

/-- `decompose` with an explicit fuel for the inner `while queue` loop -/
def decomposeF (fuel : Nat) (nodes : List α) (edge_i edge_o : α → List α) : List (List α × List α) :=
  let sources := nodes.filter (fun n => (edge_i n).isEmpty)
  decomposeLoop (fun v => edge_i v ++ edge_o v) fuel sources sources []

def decompose (nodes : List α) (edge_i edge_o : α → List α) : List (List α × List α) :=
  decomposeF nodes.length nodes edge_i edge_o

end Decompose

/-! ### enrich -/

abbrev Row (α : Type) := List (α × Nat)

/-- `ComponentCore` (+ the internal `paths` as a ghost field) -/
structure Component (α : Type) where
  nodes : List α
  sources : List α
  dist : List (α × Row α)          -- distance_matrix
  value : List (α × Nat)
  depth : Nat
  paths : List (α × Row α)

def Component.weight {α : Type} (c : Component α) : Nat := c.nodes.length

section Enrich
variable {α : Type} [DecidableEq α]

/-- `remaining[a] -= 1; if remaining[a] == 0: next_layer.append(a); remaining.pop(a)` -/
def relax (st : List (α × Nat) × List α) (a : α) : List (α × Nat) × List α :=
  match dlookup st.1 a with
  | none => st      -- KeyError in Python; unreachable when the component is closed
  | some k =>
    if k - 1 = 0 then (derase st.1 a, st.2 ++ [a])
    else (dset st.1 a (k - 1), st.2)

/-- one pass of `for v in layers[-1]: for a in edge_i[v]: …`; returns (remaining, next_layer) -/
def layerStep (pa : α → List α) (rem : List (α × Nat)) (layer : List α) : List (α × Nat) × List α :=
  layer.foldl (fun st v => (pa v).foldl relax st) (rem, [])

/-- `while remaining:`; `acc` = all layers but the last; returns (final remaining, layers) -/
def layersLoop (pa : α → List α) : Nat → List (α × Nat) → List (List α) → List α →
    List (α × Nat) × List (List α)
  | 0, rem, acc, last => (rem, acc ++ [last])
  | f + 1, rem, acc, last =>
    if rem.isEmpty then (rem, acc ++ [last])
    else
      let st := layerStep pa rem last
      layersLoop pa f st.1 (acc ++ [last]) st.2

/-- read of `paths[v]` = `defaultdict(lambda: L)` -/
def rowGet (L : Nat) (row : Row α) (d : α) : Nat := (dlookup row d).getD L

/-- `for desc, dist in paths[c].items(): paths[v][desc] = min(paths[v][desc], dist + 1)` -/
def mergeRow (L : Nat) (row other : Row α) : Row α :=
  other.foldl (fun r p => dset r p.1 (min (rowGet L r p.1) (p.2 + 1))) row

/-- DP state: (value, paths) -/
abbrev DpState (α : Type) := List (α × Nat) × List (α × Row α)

/-- body of `for c in edge_o[v]` ; accumulator = (value[v], paths[v]) -/
def childStep (L : Nat) (st : DpState α) (acc : Nat × Row α) (c : α) : Nat × Row α :=
  (max acc.1 (((dlookup st.1 c).getD 0) - 1),
   mergeRow L (dset acc.2 c 1) ((dlookup st.2 c).getD []))

/-- body of `for v in layer` for the layers after the first -/
def stepNode (L : Nat) (ch : α → List α) (st : DpState α) (v : α) : DpState α :=
  let r := (ch v).foldl (childStep L st) (0, [(v, 0)])
  (dset st.1 v r.1, dset st.2 v r.2)

/-- body of `for v in layers[0]` -/
def initNode (L : Nat) (st : DpState α) (v : α) : DpState α :=
  (dset st.1 v L, dset st.2 v [(v, 0)])

def dp (L : Nat) (ch : α → List α) (layers : List (List α)) : DpState α :=
  layers.tail.flatten.foldl (stepNode L ch) (layers.headD [] |>.foldl (initNode L) ([], []))

/-- `paths[a][c]` as read by `nearest_common_descendant` -/
def pathGet (L : Nat) (paths : List (α × Row α)) (a c : α) : Nat :=
  rowGet L ((dlookup paths a).getD []) c

/-- python fallback of `nearest_common_descendant`: entry `ncd[a][b]` -/
def ncdEntry (L : Nat) (paths : List (α × Row α)) (nodes : List α) (a b : α) : Nat :=
  if b = a then 0
  else nodes.foldl (fun m c => min m (max (pathGet L paths a c) (pathGet L paths b c))) L

def ncd (L : Nat) (paths : List (α × Row α)) (nodes : List α) : List (α × Row α) :=
  nodes.map (fun a => (a, nodes.map (fun b => (b, ncdEntry L paths nodes a b))))

/-- the layers computed by `enrich` (fuel for the `while remaining` loop explicit) -/
def layersOf (fuel : Nat) (nodes : List α) (edge_i edge_o : α → List α) : List (List α) :=
  let sinks := nodes.filter (fun v => (edge_o v).isEmpty)
  let remaining := (nodes.filter (fun v => !(edge_o v).isEmpty)).map (fun v => (v, (edge_o v).length))
  (layersLoop edge_i fuel remaining [] sinks).2

/-! #### the same loop with the ways the real code can fail to produce a result

`relax` above is total: where Python raises `KeyError` (`remaining[a] -= 1` for an `a` that is not,
or no longer, a key) it returns the state unchanged, and where the real `while remaining:` never
exits the fuel runs out. The `…E` versions make both visible; the driver runs these, so the
correspondence check compares the error of the real code (`KeyError` / no return) with the model's.
`layersLoopE_ok` (Props/C16.lean) shows that a successful `…E` run is the total function's result,
so every theorem about `enrich` speaks about what the `…E` run returns. -/

inductive LoopErr where
  | keyError      -- `remaining[a] -= 1` raised
  | diverges      -- `layers[-1]` is empty while `remaining` is not: the loop reproduces its own state for ever
  | fuel          -- fuel exhausted in any other state (never observed; would show as a disagreement)
  deriving DecidableEq, Repr

/-- `remaining[a] -= 1; …` — `none` = `KeyError` -/
def relaxE (st : List (α × Nat) × List α) (a : α) : Option (List (α × Nat) × List α) :=
  match dlookup st.1 a with
  | none => none
  | some k =>
    if k - 1 = 0 then some (derase st.1 a, st.2 ++ [a])
    else some (dset st.1 a (k - 1), st.2)

/-- `List.foldlM` in `Option`, written out (structural, so that it evaluates in the kernel) -/
def foldO {σ τ : Type} (f : σ → τ → Option σ) : List τ → σ → Option σ
  | [], s => some s
  | x :: xs, s => match f s x with
    | none => none
    | some s' => foldO f xs s'

def layerStepE (pa : α → List α) (rem : List (α × Nat)) (layer : List α) : Option (List (α × Nat) × List α) :=
  foldO (fun st v => foldO relaxE (pa v) st) layer (rem, [])

def layersLoopE (pa : α → List α) : Nat → List (α × Nat) → List (List α) → List α →
    Except LoopErr (List (α × Nat) × List (List α))
  | 0, rem, acc, last => if rem.isEmpty then .ok (rem, acc ++ [last]) else .error .fuel
  | f + 1, rem, acc, last =>
    if rem.isEmpty then .ok (rem, acc ++ [last])
    else if last.isEmpty then .error .diverges
    else
      match layerStepE pa rem last with
      | none => .error .keyError
      | some st => layersLoopE pa f st.1 (acc ++ [last]) st.2

/-- `enrich` with an explicit fuel for the `while remaining` loop -/
def enrichF (fuel : Nat) (pc : List α × List α) (edge_i edge_o : α → List α) : Component α :=
  let nodes := pc.1
  let layers := layersOf fuel nodes edge_i edge_o
  let L := layers.length
  let st := dp L edge_o layers
  { nodes := nodes, sources := pc.2, dist := ncd L st.2 nodes, value := st.1, depth := L, paths := st.2 }

def enrich (pc : List α × List α) (edge_i edge_o : α → List α) : Component α :=
  enrichF pc.1.length pc edge_i edge_o

/-- `enrich` as the real code behaves: an error instead of a component when the layering loop raises
or never exits -/
def enrichE (fuel : Nat) (pc : List α × List α) (edge_i edge_o : α → List α) : Except LoopErr (Component α) :=
  let nodes := pc.1
  let sinks := nodes.filter (fun v => (edge_o v).isEmpty)
  let remaining := (nodes.filter (fun v => !(edge_o v).isEmpty)).map (fun v => (v, (edge_o v).length))
  match layersLoopE edge_i fuel remaining [] sinks with
  | .error e => .error e
  | .ok r =>
    let layers := r.2
    let L := layers.length
    let st := dp L edge_o layers
    .ok { nodes := nodes, sources := pc.2, dist := ncd L st.2 nodes, value := st.1, depth := L, paths := st.2 }

end Enrich

/-! ### precompute -/

structure Preschedule (α β : Type) where
  components : List (Component α)
  edge_o : List ((α × β) × List α)
  edge_i : List (α × List (α × β))
  task_o : List (α × List (α × β))

section Precompute
variable {α β : Type} [DecidableEq α] [DecidableEq β]

/-- insertion into a list sorted by weight, heaviest first; stable -/
def insertDesc (c : Component α) : List (Component α) → List (Component α)
  | [] => [c]
  | d :: ds => if d.weight ≤ c.weight then c :: d :: ds else d :: insertDesc c ds

/-- `components.sort(key=lambda c: c.weight(), reverse=True)` -/
def sortDesc (l : List (Component α)) : List (Component α) := l.foldr insertDesc []

def edgeOP (job : Job α β) : α → List α := dget (edgeOProj (dependants job.edges))
def edgeIP (job : Job α β) : α → List α := dget (edgeIProj (edgeI job.edges))

def precompute (job : Job α β) : Preschedule α β :=
  let comps := (decompose job.ids (edgeIP job) (edgeOP job)).map
    (fun pc => enrich pc (edgeIP job) (edgeOP job))
  { components := sortDesc comps, edge_o := dependants job.edges, edge_i := edgeI job.edges,
    task_o := taskO job.tasks }

/-- fuel that suffices for `flood` whatever the edges are: a visited vertex is a task or an end of an
edge (`decompose` itself uses `len(nodes)`, enough when all ends are tasks — `c16_fuel`) -/
def floodFuel (job : Job α β) : Nat := job.ids.length + 2 * job.edges.length

def plainComponentsX (job : Job α β) : List (List α × List α) :=
  decomposeF (floodFuel job) job.ids (edgeIP job) (edgeOP job)

/-- the errors of the components whose `enrich` fails (in the real code the first one met ends
`precompute`; which one is met first depends on set iteration order) -/
def enrichErrors (job : Job α β) : List LoopErr :=
  (plainComponentsX job).filterMap (fun pc =>
    match enrichE pc.1.length pc (edgeIP job) (edgeOP job) with
    | .error e => some e
    | .ok _ => none)

/-- what the driver runs: `precompute` with the generous flood fuel, so that it follows the real
code also on jobs with edges whose ends are not tasks (those vertices are swept into components).
`c16_driver_runs_model`: on well-formed DAGs this IS `precompute`. -/
def precomputeX (job : Job α β) : Preschedule α β :=
  let comps := (plainComponentsX job).map (fun pc => enrich pc (edgeIP job) (edgeOP job))
  { components := sortDesc comps, edge_o := dependants job.edges, edge_i := edgeI job.edges,
    task_o := taskO job.tasks }

/-- a `Task2TaskEdge` as pydantic holds it: both sink-input fields optional -/
structure RawEdge (α β : Type) where
  src : α
  out : β
  dst : α
  kw : Option String
  ps : Option Int

/-- the checks of `param_source` (`TypeError` when both or neither are given) -/
def RawEdge.toEdge? (e : RawEdge α β) : Option (Edge α β) :=
  match e.kw, e.ps with
  | some s, none => some ⟨e.src, e.out, e.dst, .kw s⟩
  | none, some n => some ⟨e.src, e.out, e.dst, .ps n⟩
  | _, _ => none

/-- `precompute` on a raw job; `none` = `TypeError` -/
def precomputeRaw (tasks : List (α × List β)) (raw : List (RawEdge α β)) : Option (Preschedule α β) :=
  (raw.mapM RawEdge.toEdge?).map (fun es => precompute ⟨tasks, es⟩)

/-- the raw job as the driver runs it -/
def precomputeRawX (tasks : List (α × List β)) (raw : List (RawEdge α β)) : Option (Preschedule α β) :=
  (raw.mapM RawEdge.toEdge?).map (fun es => precomputeX ⟨tasks, es⟩)

end Precompute

end EkwVerif.Presched
