/-
Model of `cascade.scheduler.graph.precompute` (with `decompose`, `enrich`, the python fallback
of `nearest_common_descendant`), of `cascade.low.views.dependants` / `param_source` and of the
dataclasses `ComponentCore` / `Preschedule` of `cascade.scheduler.core`.

Conventions
  * task ids `α`, output names `β`: any types with decidable equality (the driver uses `String`).
  * Python `dict` = association list with unique keys, updated in place (`dset`), read with
    `dlookup`; `defaultdict(set)` read = `dget` (missing key ↦ empty set).
  * Python `set` = list without duplicates (`sadd` = `set.add`, `sunion` = `set.union`). The
    iteration order of a Python set is arbitrary; the model iterates in insertion order. Every
    theorem of Props/C16.lean is about membership / lookups, never about positions.
  * `while` loops carry a fuel argument. `flood` (the inner loop of `decompose`) gets
    `len(nodes)`, the layering loop of `enrich` gets `len(nodes)`; Lemmas/C16Flood.lean and
    Lemmas/C16Layers.lean prove that this fuel is never exhausted before the loop condition
    turns false when the job is a DAG (`Aux.flood_fuel_indep`, `Aux.layersLoop_spec`, summarised by
    `c16_fuel`: any larger fuel gives the same `decomposeF` / `enrichF`). On a cyclic
    job the real `enrich` does not terminate; the model then stops when the fuel is used up.
  * `paths` (internal to the real `enrich`) is kept as a ghost field of `Component`; the harness
    observes the real one by wrapping `graph.nearest_common_descendant`.
  * Not modelled: `coptrs` (C extension, absent), the thread pool (pure `map`), tracing.
    Edges with a self loop make the real `enrich` mutate a dict while iterating over it; the
    model has no counterpart (excluded by `IsDag`).
-/
namespace EkwVerif.Presched

/-- `sink_input_kw` / `sink_input_ps` of a well-formed `Task2TaskEdge` (exactly one is set). -/
inductive Key where
  | kw (s : String)
  | ps (n : Nat)
  deriving DecidableEq, Repr

/-- `Task2TaskEdge(source=DatasetId(src,out), sink_task=dst, sink_input_*=key)` -/
structure Edge (α β : Type) where
  src : α
  out : β
  dst : α
  key : Key
  deriving DecidableEq, Repr

/-- `JobInstance`: `tasks` (id ↦ names of `definition.output_schema`), `edges`. -/
structure Job (α β : Type) where
  tasks : List (α × List β)
  edges : List (Edge α β)

/-- `list(job_instance.tasks.keys())` -/
def Job.ids {α β : Type} (j : Job α β) : List α := j.tasks.map (·.1)

/-! ### sets and dicts -/
section Dict
variable {κ ν γ : Type} [DecidableEq κ] [DecidableEq γ]

/-- `s.add(x)` -/
def sadd (s : List γ) (x : γ) : List γ := if x ∈ s then s else s ++ [x]

/-- `s.union(t)` -/
def sunion (s t : List γ) : List γ := t.foldl sadd s

/-- `set(l)` / a set comprehension over `l` -/
def toSet (l : List γ) : List γ := l.foldl sadd []

/-- `m.get(k)` -/
def dlookup : List (κ × ν) → κ → Option ν
  | [], _ => none
  | (k', v) :: m, k => if k' = k then some v else dlookup m k

/-- `m[k] = v` -/
def dset : List (κ × ν) → κ → ν → List (κ × ν)
  | [], k, v => [(k, v)]
  | (k', v') :: m, k, v => if k' = k then (k', v) :: m else (k', v') :: dset m k v

/-- `m.pop(k)` -/
def derase (m : List (κ × ν)) (k : κ) : List (κ × ν) := m.filter (fun p => p.1 ≠ k)

/-- read of a `defaultdict(set)` -/
def dget (m : List (κ × List γ)) (k : κ) : List γ := (dlookup m k).getD []

/-- `m[k].add(x)` on a `defaultdict(set)` -/
def dadd (m : List (κ × List γ)) (k : κ) (x : γ) : List (κ × List γ) := dset m k (sadd (dget m k) x)

end Dict

section Views
variable {α β : Type} [DecidableEq α] [DecidableEq β]

/-- `cascade.low.views.dependants`: `rv[e.source].add(e.sink_task)` -/
def dependants (es : List (Edge α β)) : List ((α × β) × List α) :=
  es.foldl (fun m e => dadd m (e.src, e.out) e.dst) []

/-- `cascade.low.views.param_source`: `rv[e.sink_task][sink_input] = e.source` (later edge wins) -/
def paramSource (es : List (Edge α β)) : List (α × List (Key × (α × β))) :=
  es.foldl (fun m e => dset m e.dst (dset ((dlookup m e.dst).getD []) e.key (e.src, e.out))) []

/-- `edge_i[task] = {e for e in inputs.values()}` -/
def edgeI (es : List (Edge α β)) : List (α × List (α × β)) :=
  (paramSource es).map (fun p => (p.1, toSet (p.2.map (·.2))))

/-- `edge_o_proj[dataset.task] = edge_o_proj[dataset.task].union(outs)` -/
def edgeOProj (eo : List ((α × β) × List α)) : List (α × List α) :=
  eo.foldl (fun m p => dset m p.1.1 (sunion (dget m p.1.1) p.2)) []

/-- `edge_i_proj[vert] = {dataset.task for dataset in inps}` -/
def edgeIProj (ei : List (α × List (α × β))) : List (α × List α) :=
  ei.foldl (fun m p => dset m p.1 (toSet (p.2.map (·.1)))) []

/-- `{task: job_instance.outputs_of(task) for task in job_instance.tasks.keys()}` -/
def taskO (tasks : List (α × List β)) : List (α × List (α × β)) :=
  tasks.map (fun p => (p.1, toSet (p.2.map (fun o => (p.1, o)))))

end Views

/-! ### decompose -/
section Decompose
variable {α : Type} [DecidableEq α]

/-- the `for vert in chain(edge_i[head], edge_o[head])` loop; state = (queue, visited) -/
def pushNew (nbs : List α) (st : List α × List α) : List α × List α :=
  nbs.foldl (fun st v => if v ∈ st.2 then st else (v :: st.1, v :: st.2)) st

/-- the `while queue` loop; returns (visited, component). The head of the list is the end the
real code pops from. -/
def flood (nb : α → List α) : Nat → List α → List α → List α → List α × List α
  | 0, _, vis, comp => (vis, comp)
  | _ + 1, [], vis, comp => (vis, comp)
  | f + 1, h :: q, vis, comp =>
    let st := pushNew (nb h) (q, vis)
    flood nb f st.1 st.2 (comp ++ [h])

/-- the `while sources_l` loop; yields `(component, [e for e in component if e in sources])` -/
def decomposeLoop (nb : α → List α) (fuel : Nat) (sources : List α) :
    List α → List α → List (List α × List α)
  | [], _ => []
  | s :: rest, vis =>
    if s ∈ vis then decomposeLoop nb fuel sources rest vis
    else
      let r := flood nb fuel [s] (s :: vis) []
      (r.2, r.2.filter (fun e => e ∈ sources)) :: decomposeLoop nb fuel sources rest r.1

/-- `decompose` with an explicit fuel for the inner `while queue` loop -/
def decomposeF (fuel : Nat) (nodes : List α) (edge_i edge_o : α → List α) : List (List α × List α) :=
  let sources := nodes.filter (fun n => (edge_i n).isEmpty)
  decomposeLoop (fun v => edge_i v ++ edge_o v) fuel sources sources []

def decompose (nodes : List α) (edge_i edge_o : α → List α) : List (List α × List α) :=
  decomposeF nodes.length nodes edge_i edge_o

end Decompose

/-! ### enrich -/

abbrev Row (α : Type) := List (α × Nat)

/-- `ComponentCore` (+ the internal `paths` as a ghost field) -/
structure Component (α : Type) where
  nodes : List α
  sources : List α
  dist : List (α × Row α)          -- distance_matrix
  value : List (α × Nat)
  depth : Nat
  paths : List (α × Row α)

def Component.weight {α : Type} (c : Component α) : Nat := c.nodes.length

section Enrich
variable {α : Type} [DecidableEq α]

/-- `remaining[a] -= 1; if remaining[a] == 0: next_layer.append(a); remaining.pop(a)` -/
def relax (st : List (α × Nat) × List α) (a : α) : List (α × Nat) × List α :=
  match dlookup st.1 a with
  | none => st      -- KeyError in Python; unreachable when the component is closed
  | some k =>
    if k - 1 = 0 then (derase st.1 a, st.2 ++ [a])
    else (dset st.1 a (k - 1), st.2)

/-- one pass of `for v in layers[-1]: for a in edge_i[v]: …`; returns (remaining, next_layer) -/
def layerStep (pa : α → List α) (rem : List (α × Nat)) (layer : List α) : List (α × Nat) × List α :=
  layer.foldl (fun st v => (pa v).foldl relax st) (rem, [])

/-- `while remaining:`; `acc` = all layers but the last; returns (final remaining, layers) -/
def layersLoop (pa : α → List α) : Nat → List (α × Nat) → List (List α) → List α →
    List (α × Nat) × List (List α)
  | 0, rem, acc, last => (rem, acc ++ [last])
  | f + 1, rem, acc, last =>
    if rem.isEmpty then (rem, acc ++ [last])
    else
      let st := layerStep pa rem last
      layersLoop pa f st.1 (acc ++ [last]) st.2

/-- read of `paths[v]` = `defaultdict(lambda: L)` -/
def rowGet (L : Nat) (row : Row α) (d : α) : Nat := (dlookup row d).getD L

/-- `for desc, dist in paths[c].items(): paths[v][desc] = min(paths[v][desc], dist + 1)` -/
def mergeRow (L : Nat) (row other : Row α) : Row α :=
  other.foldl (fun r p => dset r p.1 (min (rowGet L r p.1) (p.2 + 1))) row

/-- DP state: (value, paths) -/
abbrev DpState (α : Type) := List (α × Nat) × List (α × Row α)

/-- body of `for c in edge_o[v]` ; accumulator = (value[v], paths[v]) -/
def childStep (L : Nat) (st : DpState α) (acc : Nat × Row α) (c : α) : Nat × Row α :=
  (max acc.1 (((dlookup st.1 c).getD 0) - 1),
   mergeRow L (dset acc.2 c 1) ((dlookup st.2 c).getD []))

/-- body of `for v in layer` for the layers after the first -/
def stepNode (L : Nat) (ch : α → List α) (st : DpState α) (v : α) : DpState α :=
  let r := (ch v).foldl (childStep L st) (0, [(v, 0)])
  (dset st.1 v r.1, dset st.2 v r.2)

/-- body of `for v in layers[0]` -/
def initNode (L : Nat) (st : DpState α) (v : α) : DpState α :=
  (dset st.1 v L, dset st.2 v [(v, 0)])

def dp (L : Nat) (ch : α → List α) (layers : List (List α)) : DpState α :=
  layers.tail.flatten.foldl (stepNode L ch) (layers.headD [] |>.foldl (initNode L) ([], []))

/-- `paths[a][c]` as read by `nearest_common_descendant` -/
def pathGet (L : Nat) (paths : List (α × Row α)) (a c : α) : Nat :=
  rowGet L ((dlookup paths a).getD []) c

/-- python fallback of `nearest_common_descendant`: entry `ncd[a][b]` -/
def ncdEntry (L : Nat) (paths : List (α × Row α)) (nodes : List α) (a b : α) : Nat :=
  if b = a then 0
  else nodes.foldl (fun m c => min m (max (pathGet L paths a c) (pathGet L paths b c))) L

def ncd (L : Nat) (paths : List (α × Row α)) (nodes : List α) : List (α × Row α) :=
  nodes.map (fun a => (a, nodes.map (fun b => (b, ncdEntry L paths nodes a b))))

/-- the layers computed by `enrich` (fuel for the `while remaining` loop explicit) -/
def layersOf (fuel : Nat) (nodes : List α) (edge_i edge_o : α → List α) : List (List α) :=
  let sinks := nodes.filter (fun v => (edge_o v).isEmpty)
  let remaining := (nodes.filter (fun v => !(edge_o v).isEmpty)).map (fun v => (v, (edge_o v).length))
  (layersLoop edge_i fuel remaining [] sinks).2

/-- `enrich` with an explicit fuel for the `while remaining` loop -/
def enrichF (fuel : Nat) (pc : List α × List α) (edge_i edge_o : α → List α) : Component α :=
  let nodes := pc.1
  let layers := layersOf fuel nodes edge_i edge_o
  let L := layers.length
  let st := dp L edge_o layers
  { nodes := nodes, sources := pc.2, dist := ncd L st.2 nodes, value := st.1, depth := L, paths := st.2 }

def enrich (pc : List α × List α) (edge_i edge_o : α → List α) : Component α :=
  enrichF pc.1.length pc edge_i edge_o

end Enrich

/-! ### precompute -/

structure Preschedule (α β : Type) where
  components : List (Component α)
  edge_o : List ((α × β) × List α)
  edge_i : List (α × List (α × β))
  task_o : List (α × List (α × β))

section Precompute
variable {α β : Type} [DecidableEq α] [DecidableEq β]

/-- insertion into a list sorted by weight, heaviest first; stable -/
def insertDesc (c : Component α) : List (Component α) → List (Component α)
  | [] => [c]
  | d :: ds => if d.weight ≤ c.weight then c :: d :: ds else d :: insertDesc c ds

/-- `components.sort(key=lambda c: c.weight(), reverse=True)` -/
def sortDesc (l : List (Component α)) : List (Component α) := l.foldr insertDesc []

def edgeOP (job : Job α β) : α → List α := dget (edgeOProj (dependants job.edges))
def edgeIP (job : Job α β) : α → List α := dget (edgeIProj (edgeI job.edges))

def precompute (job : Job α β) : Preschedule α β :=
  let comps := (decompose job.ids (edgeIP job) (edgeOP job)).map
    (fun pc => enrich pc (edgeIP job) (edgeOP job))
  { components := sortDesc comps, edge_o := dependants job.edges, edge_i := edgeI job.edges,
    task_o := taskO job.tasks }

/-- a `Task2TaskEdge` as pydantic holds it: both sink-input fields optional -/
structure RawEdge (α β : Type) where
  src : α
  out : β
  dst : α
  kw : Option String
  ps : Option Nat

/-- the checks of `param_source` (`TypeError` when both or neither are given) -/
def RawEdge.toEdge? (e : RawEdge α β) : Option (Edge α β) :=
  match e.kw, e.ps with
  | some s, none => some ⟨e.src, e.out, e.dst, .kw s⟩
  | none, some n => some ⟨e.src, e.out, e.dst, .ps n⟩
  | _, _ => none

/-- `precompute` on a raw job; `none` = `TypeError` -/
def precomputeRaw (tasks : List (α × List β)) (raw : List (RawEdge α β)) : Option (Preschedule α β) :=
  (raw.mapM RawEdge.toEdge?).map (fun es => precompute ⟨tasks, es⟩)

end Precompute

end EkwVerif.Presched
