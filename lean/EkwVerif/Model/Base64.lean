/-
Model of the text form of a retrieved result: `base64.b64encode` (server.handle_fe) and
`base64.b64decode` (gateway.api.decoded_result) over the standard alphabet with `=` padding.
Bytes are naturals below 256.
-/
namespace EkwVerif.B64

def alphabet : List Char :=
  "ABCDEFGHIJKLMNOPQRSTUVWXYZabcdefghijklmnopqrstuvwxyz0123456789+/".toList

/-- the character of a 6-bit digit -/
def e (i : Nat) : Char := alphabet.getD i '='

/-- the 6-bit digit of a character of the alphabet -/
def d (c : Char) : Option Nat :=
  let i := alphabet.idxOf c
  if i < 64 then some i else none

def encode : List Nat → List Char
  | [] => []
  | [a] => [e (a / 4), e ((a % 4) * 16), '=', '=']
  | [a, b] => [e (a / 4), e ((a % 4) * 16 + b / 16), e ((b % 16) * 4), '=']
  | a :: b :: c :: rest =>
    e (a / 4) :: e ((a % 4) * 16 + b / 16) :: e ((b % 16) * 4 + c / 64) :: e (c % 64) :: encode rest

/-- one full group of four characters -/
def quad (w x y z : Char) : Option (List Nat) :=
  match d w, d x, d y, d z with
  | some i, some j, some k, some l => some [i * 4 + j / 16, (j % 16) * 16 + k / 4, (k % 4) * 64 + l]
  | _, _, _, _ => none

/-- the last group when it is padded -/
def tail2 (w x : Char) : Option (List Nat) :=
  match d w, d x with
  | some i, some j => some [i * 4 + j / 16]
  | _, _ => none

def tail3 (w x y : Char) : Option (List Nat) :=
  match d w, d x, d y with
  | some i, some j, some k => some [i * 4 + j / 16, (j % 16) * 16 + k / 4]
  | _, _, _ => none

def decode : List Char → Option (List Nat)
  | [] => some []
  | w :: x :: y :: z :: rest =>
    if z = '=' then
      if rest ≠ [] then none
      else if y = '=' then tail2 w x else tail3 w x y
    else match quad w x y z, decode rest with
      | some q, some r => some (q ++ r)
      | _, _ => none
  | _ => none

end EkwVerif.B64
