/-
Model of the lowering of a (serialised) task graph to a cascade job.

Mirrors (after the `fix:` commits of C10):
* `earthkit.workflows.fluent.Node.__init__`  — completion of `payload.args` with the `inputN`
  placeholders that the author did not place, naming of the outputs (`fluentNode`);
* `cascade.low.into.node2task` / `graph2job` — payload `(func, args, kwargs)`, `rev_lookup` = ALL
  indices of a string argument, one positional edge per occurrence, placeholders `None`;
* `cascade.low.views.param_source` — the per-task dict `sink parameter -> source dataset`.

Values are opaque except for strings (placeholders are strings).  Python dicts are association lists in
insertion order; `dictSet` is `d[k] = v`.
-/
namespace EkwVerif.Lower

/-- A Python value as far as C10 needs to look into it. `tok` = a value produced by some task,
`data` = any other picklable value that is not a `str` (float, bool, list, tuple, dict, ndarray, ...; the string is
its canonical rendering — lowering and the runner never look inside, `isinstance(e, str)` is false for it),
`obj` = something that cannot be put into shared memory (a generator object, ...). -/
inductive Val where
  | none
  | str (s : String)
  | int (i : Int)
  | tok (s : String)
  | data (s : String)
  | obj (s : String)
  deriving DecidableEq, Repr, Inhabited

/-- `DatasetId(task, output)` -/
structure Ds where
  task : String
  output : String
  deriving DecidableEq, Repr, Inhabited

/-- `Node.DEFAULT_OUTPUT` -/
def defaultOutput : String := "0"

/-- A serialised input reference: `"parent"` (default output) or `("parent", "output")`. -/
inductive InRef where
  | dflt (parent : String)
  | named (parent output : String)
  deriving DecidableEq, Repr

def InRef.source : InRef → Ds
  | .dflt p => ⟨p, defaultOutput⟩
  | .named p o => ⟨p, o⟩

/-- A serialised node as `node2task` sees it. `payload = none` stands for a payload that is not a tuple;
`payloadAbsent` says that the serialised dict has no `"payload"` key at all (`Node.serialise` omits it when the
payload is `None`), so that `node["payload"]` is a `KeyError`. -/
structure SNode where
  payload : Option (List Val × List (String × Val))   -- (args, kwargs); the callable is carried along untouched
  inputs : List (String × InRef)                      -- dict: input name -> source
  outputs : List String
  payloadAbsent : Bool := false
  deriving Repr

structure Edge where
  source : Ds
  sink : String
  ps : Option Nat
  kw : Option String
  deriving DecidableEq, Repr

structure Task where
  staticPs : List (Nat × Val)        -- dict str(i) -> value
  staticKw : List (String × Val)
  inputSchema : List String          -- keys
  outputSchema : List String         -- keys, in declaration order
  deriving Repr

inductive LowerErr where
  | keyError          -- an input that no string argument names (`rev_lookup[param]`), or no `"payload"` key
  | notImplemented    -- payload is not a tuple
  deriving DecidableEq, Repr

/-! ### dicts -/

/-- `d[k] = v` on an insertion-ordered dict. -/
def dictSet {κ β : Type} [DecidableEq κ] (d : List (κ × β)) (k : κ) (v : β) : List (κ × β) :=
  if d.any (fun e => e.1 = k) then d.map (fun e => if e.1 = k then (e.1, v) else e) else d ++ [(k, v)]

/-- `dict(l)` / repeated assignment. -/
def dictOfList {κ β : Type} [DecidableEq κ] (l : List (κ × β)) : List (κ × β) :=
  l.foldl (fun d e => dictSet d e.1 e.2) []

/-- the value a key ends up with after the assignments `l`, in order -/
def lastLookup {κ β : Type} [DecidableEq κ] (k : κ) : List (κ × β) → Option β
  | [] => none
  | e :: rest =>
    match lastLookup k rest with
    | some w => some w
    | none => if e.1 = k then some e.2 else none

/-- keys of a dict built from a list of keys (`{e: "Any" for e in outputs}`): first occurrences, in order -/
def dedup {κ : Type} [DecidableEq κ] : List κ → List κ
  | [] => []
  | a :: as => a :: (dedup as).filter (fun b => b ≠ a)

/-! ### fluent.Node.__init__ -/

def inputName (i : Nat) : String := "input" ++ toString i

/-- `for x in range(len(inputs)): if input_name(x) not in args: args.append(input_name(x))` -/
def completeArgs (args : List Val) : List Nat → List Val
  | [] => args
  | x :: xs =>
    if args.contains (.str (inputName x)) then completeArgs args xs
    else completeArgs (args ++ [.str (inputName x)]) xs

/-- outputs of a fluent node: `None if num_outputs == 1 else [str(x) for x in range(num_outputs)]`,
and the base class turns `None` into `[DEFAULT_OUTPUT]`. -/
def fluentOutputs (numOutputs : Nat) : List String :=
  if numOutputs = 1 then [defaultOutput] else (List.range numOutputs).map toString

structure FluentNode where
  args : List Val
  inputNames : List String
  outputs : List String

def fluentNode (args : List Val) (nInputs numOutputs : Nat) : FluentNode :=
  { args := completeArgs args (List.range nInputs)
    inputNames := (List.range nInputs).map inputName
    outputs := fluentOutputs numOutputs }

/-! ### node2task / graph2job -/

/-- `rev_lookup[name]` when counting positions from `i`: all indices of the string argument `name` -/
def positionsFrom (name : String) : Nat → List Val → List Nat
  | _, [] => []
  | i, a :: as => if a = .str name then i :: positionsFrom name (i + 1) as else positionsFrom name (i + 1) as

def positions (name : String) (args : List Val) : List Nat := positionsFrom name 0 args

/-- blank the positions `idxs` (`static_input_ps[str(idx)] = None`) -/
def blank (ps : List Val) (idxs : List Nat) : List Val := idxs.foldl (fun l i => l.set i .none) ps

/-- the loop over `node["inputs"].items()`: edges so far and the positional statics so far -/
def lowerInputs (name : String) (args : List Val) :
    List (String × InRef) → List Edge × List Val → Except LowerErr (List Edge × List Val)
  | [], st => .ok st
  | (p, r) :: rest, (edges, ps) =>
    match positions p args with
    | [] => .error .keyError
    | idxs =>
      lowerInputs name args rest
        (edges ++ idxs.map (fun i => { source := r.source, sink := name, ps := some i, kw := none : Edge }),
         blank ps idxs)

/-- `enumerate`: the dict `{"0": v0, "1": v1, ...}` -/
def enumFrom {α : Type} : Nat → List α → List (Nat × α)
  | _, [] => []
  | i, a :: as => (i, a) :: enumFrom (i + 1) as

def node2task (name : String) (n : SNode) : Except LowerErr (Task × List Edge) :=
  match n.payload with
  | none => .error (if n.payloadAbsent then .keyError else .notImplemented)
  | some (args, kwargs) =>
    match lowerInputs name args n.inputs ([], args) with
    | .error e => .error e
    | .ok (edges, ps) =>
      .ok ({ staticPs := enumFrom 0 ps
             staticKw := kwargs
             inputSchema := kwargs.map Prod.fst
             outputSchema := dedup (if n.outputs.isEmpty then [defaultOutput] else n.outputs) }, edges)

structure Job where
  tasks : List (String × Task)
  edges : List Edge
  deriving Repr

/-- `graph2job` on the serialised graph (a dict `name -> node`, names distinct) -/
def graph2job : List (String × SNode) → Except LowerErr Job
  | [] => .ok { tasks := [], edges := [] }
  | (name, n) :: rest =>
    match node2task name n with
    | .error e => .error e
    | .ok (t, es) =>
      match graph2job rest with
      | .error e => .error e
      | .ok j => .ok { tasks := (name, t) :: j.tasks, edges := es ++ j.edges }

/-! ### views.param_source -/

inductive Param where
  | ps (i : Nat)
  | kw (k : String)
  deriving DecidableEq, Repr

inductive ViewErr where
  | typeError
  deriving DecidableEq, Repr

/-- which parameter of the sink an edge feeds; `none` = `TypeError` (both or neither of kw / ps given) -/
def Edge.param? (e : Edge) : Option Param :=
  match e.kw, e.ps with
  | some _, some _ => none
  | some k, none => some (.kw k)
  | none, some i => some (.ps i)
  | none, none => none

/-- the assignments `rv[e.sink_task][sink_input] = e.source` that concern task `tid`, in edge order -/
def paramAssignments (tid : String) (edges : List Edge) : List (Param × Ds) :=
  (edges.filter (fun e => e.sink = tid)).filterMap (fun e => e.param?.map (fun p => (p, e.source)))

/-- `param_source(edges)[tid]` as an insertion-ordered dict. `param_source` raises `TypeError` for a malformed
edge wherever it sinks. -/
def paramSource (tid : String) (edges : List Edge) : Except ViewErr (List (Param × Ds)) :=
  if edges.all (fun e => e.param?.isSome) then .ok (dictOfList (paramAssignments tid edges))
  else .error .typeError

end EkwVerif.Lower
