/-
Model of the cascade controller (`cascade.controller.{impl,act,notify}`, `cascade.scheduler.api`
`initialize/assign/plan`, `cascade.scheduler.assign.build_assignment`) together with an abstract
environment of executors (what `Bridge` hides), used by C01–C04.

Controller side, modelled literally (one Lean function per Python function):
  `initialize`, `build_assignment` (incl. the "preparing" hack), the pops done by
  `_assignment_heuristic` after each yield, `act`, `plan`/`_set_preparing_at`, `flush_queues`,
  `notify` (`consider_fetch`, `consider_computable`, `all_outputs_published`, completion, `consider_purge`),
  `has_computable`, `has_awaitable`.
Abstracted (an *oracle argument*, validated by the model, supplied by the harness from what
the real code chose): which (idle worker, computable task) pairs `assign` picks in a round and
which `available` host is the transmit source (both depend on the distance/overhead heuristics,
host→component migration and Python dict/set iteration order). Every theorem quantifies over
all admissible oracle values.
Python exceptions are `Except Err` errors; a KeyError/ValueError site is an `.error`.

Environment side (the assumptions about executors): a dispatched task runs once all its inputs
are present on its host and publishes its outputs in index order; a transmit whose source holds
the dataset stores it on the target (announcing it unless already there); a fetch answers with
the stored value; a purge removes at once. Events reach the controller in ANY order and batching.
A command is interpreted with everything it CARRIES at the Bridge API: `task_sequence(worker, tasks, publish)` — the
body publishes only the outputs named in `publish` (`envStepP`, `envRunSpec`) —, `transmit(ds, source, target)`,
`fetch(ds, source)`, `purge(host, ds)`.
The environment also carries the ghost monitors of C02/C04 (`viol`).
-/
namespace EkwVerif.Ctrl

abbrev Task := Nat
abbrev Host := Nat
abbrev Val := String

structure Worker where
  host : Nat
  idx : Nat
deriving DecidableEq, Repr

structure Ds where
  task : Nat
  out : Nat
deriving DecidableEq, Repr

inductive Status | missing | preparing | available
deriving DecidableEq, Repr

def Status.eligible : Status → Bool
  | .missing => false
  | _ => true

structure TaskDef where
  nOut : Nat                 -- ≥ 1; outputs are 0 … nOut-1 in the runner's publication order
  gpu : Bool
  inputs : List Ds           -- edge_i[t] (a set: no duplicates)
deriving Repr

structure Job where
  tasks : List TaskDef       -- task id = index
  ext : List Ds              -- requested outputs
deriving Repr

structure Cluster where
  workers : List (Worker × Bool)   -- (id, has gpu)
deriving Repr

def Job.nOut (j : Job) (t : Task) : Nat := (j.tasks[t]?.map (·.nOut)).getD 0
def Job.gpu (j : Job) (t : Task) : Bool := (j.tasks[t]?.map (·.gpu)).getD false
def Job.inputs (j : Job) (t : Task) : List Ds := (j.tasks[t]?.map (·.inputs)).getD []
def Job.taskIds (j : Job) : List Task := List.range j.tasks.length
/-- `edge_o[ds]`: the tasks consuming `ds`. -/
def Job.consumers (j : Job) (ds : Ds) : List Task := j.taskIds.filter (fun t => (j.inputs t).contains ds)
def Job.outputsOf (j : Job) (t : Task) : List Ds := (List.range (j.nOut t)).map (fun k => ⟨t, k⟩)

def Cluster.ids (c : Cluster) : List Worker := c.workers.map (·.1)
def Cluster.hasGpu (c : Cluster) (w : Worker) : Bool := c.workers.any (fun p => p.1 == w && p.2)
def Cluster.hosts (c : Cluster) : List Host := (c.workers.map (·.1.host)).eraseDups
def Cluster.workersOf (c : Cluster) (h : Host) : List Worker := c.ids.filter (·.host == h)

/-- `raised` = a Python exception at that site; `oracle` = the oracle argument is not an admissible choice -/
inductive Err
  | raised (msg : String)
  | oracle (msg : String)
deriving Repr, DecidableEq

/-- function update -/
def upd {α β : Type} [DecidableEq α] (f : α → β) (a : α) (b : β) : α → β := fun x => if x = a then b else f x

@[simp] theorem upd_same {α β : Type} [DecidableEq α] (f : α → β) (a : α) (b : β) : upd f a b a = b := by simp [upd]
@[simp] theorem upd_other {α β : Type} [DecidableEq α] (f : α → β) (a x : α) (b : β) (h : x ≠ a) : upd f a b x = f x := by simp [upd, h]

def upd2 {α β γ : Type} [DecidableEq α] [DecidableEq β] (f : α → β → γ) (a : α) (b : β) (c : γ) : α → β → γ :=
  fun x y => if x = a ∧ y = b then c else f x y

/-! ## Controller state -/

structure Ctl where
  tracker : Task → List Ds          -- component.is_computable_tracker[t]
  tracked : Task → Bool             --   … key present
  computable : List Task            -- ⋃ component.computable ; state.computable = length
  idle : List Worker                -- state.idle_workers
  ongoing : List (Worker × Task)    -- state.ongoing ; ongoing_total = length
  ptrack : Ds → List Task           -- state.purging_tracker[ds]
  ptracked : Ds → Bool              --   … key present
  purgeQ : List Ds                  -- state.purging_queue
  fetchQ : List (Ds × Host)         -- state.fetching_queue (insertion order)
  fetchIssued : List Ds             -- state.fetching_issued
  outputs : Ds → Option Val         -- state.outputs[ds] (keys = job.ext, static)
  hostDs : Host → Ds → Status       -- state.host2ds
  dsHost : Ds → Host → Status       -- state.ds2host
  workerDs : Worker → Ds → Status   -- state.worker2ds (ds2worker mirrors it)
  remaining : Nat                   -- state.remaining
  published : Ds → Bool             -- state.published_outputs[ds.task] ∋ ds.output
  -- ghosts (not in the implementation)
  dispatched : Task → Nat           -- number of task_sequence commands naming t
  doneC : Task → Bool               -- completion of t has been notified
  announced : Ds → Bool             -- some DatasetPublished for ds has been notified

def Ctl.hasComputable (c : Ctl) : Bool := c.computable.length > 0
def Ctl.hasAwaitable (j : Job) (c : Ctl) : Bool := c.ongoing.length > 0 || j.ext.any (fun d => (c.outputs d).isNone)

/-- `scheduler.api.initialize` (the fields above). -/
def initCtl (j : Job) (cl : Cluster) : Ctl where
  tracker := fun t => j.inputs t
  tracked := fun t => t < j.tasks.length
  computable := j.taskIds.filter (fun t => (j.inputs t).isEmpty)     -- the sources
  idle := cl.ids
  ongoing := []
  ptrack := fun ds => j.consumers ds
  ptracked := fun ds => !(j.consumers ds).isEmpty                    -- keys of edge_o
  purgeQ := []
  fetchQ := []
  fetchIssued := []
  outputs := fun _ => none
  hostDs := fun _ _ => .missing
  dsHost := fun _ _ => .missing
  workerDs := fun _ _ => .missing
  remaining := j.tasks.length
  published := fun _ => false
  dispatched := fun _ => 0
  doneC := fun _ => false
  announced := fun _ => false

/-! ### notify -/

/-- `controller.notify.consider_purge` -/
def considerPurge (j : Job) (c : Ctl) (ds : Ds) : Ctl :=
  let noDependants := !(c.ptracked ds) || (c.ptrack ds).isEmpty
  let notRequired := !(j.ext.contains ds) || (c.outputs ds).isSome
  if noDependants && notRequired then
    { c with ptracked := upd c.ptracked ds false, purgeQ := c.purgeQ ++ [ds] }
  else c

/-- `controller.notify.consider_fetch` -/
def considerFetch (j : Job) (c : Ctl) (ds : Ds) (at_ : Host) : Ctl :=
  if j.ext.contains ds && (c.outputs ds).isNone && !(c.fetchQ.any (·.1 == ds)) && !(c.fetchIssued.contains ds) then
    { c with fetchQ := c.fetchQ ++ [(ds, at_)] }
  else c

/-- one child in the loop of `consider_computable` (the `computable`/tracker part) -/
def considerChild (c : Ctl) (ds : Ds) (child : Task) : Ctl :=
  if c.tracked child && (c.tracker child).contains ds then
    let rest := (c.tracker child).erase ds
    if rest.isEmpty then
      { c with tracker := upd c.tracker child rest, tracked := upd c.tracked child false,
               computable := c.computable ++ [child] }
    else { c with tracker := upd c.tracker child rest }
  else c

/-- `controller.notify.consider_computable` -/
def considerComputable (c : Ctl) (ds : Ds) : Ctl :=
  let children := if c.ptracked ds then c.ptrack ds else []
  children.foldl (fun c ch => considerChild c ds ch) c

inductive Event
  | pubW (w : Worker) (ds : Ds)          -- DatasetPublished(origin = worker, transmit_idx = None)
  | pubT (h : Host) (ds : Ds)            -- DatasetPublished(origin = host, transmit_idx = some idx)
  | payload (ds : Ds) (v : Val)          -- DatasetTransmitPayload
deriving DecidableEq, Repr

/-- the loop over `edge_i[task]` on completion: tracker removal (KeyError ⇒ error) + consider_purge -/
def completeInputs (j : Job) (task : Task) : Ctl → List Ds → Except Err Ctl
  | c, [] => .ok c
  | c, src :: rest =>
    if c.ptracked src && (c.ptrack src).contains task then
      let c1 := { c with ptrack := upd c.ptrack src ((c.ptrack src).erase task) }
      completeInputs j task (considerPurge j c1 src) rest
    else .error (.raised "KeyError: purging_tracker removal")

def markAvailable (c : Ctl) (h : Host) (ds : Ds) : Ctl :=
  { c with hostDs := upd c.hostDs h (upd (c.hostDs h) ds .available),
           dsHost := upd c.dsHost ds (upd (c.dsHost ds) h .available),
           announced := upd c.announced ds true }

/-- `controller.notify.all_outputs_published`, the recording part: the worker's notice of `ds` has been processed -/
def markPublished (c : Ctl) (ds : Ds) : Ctl := { c with published := upd c.published ds true }

/-- `controller.notify.all_outputs_published`, the test `len(published) == len(output_schema)`: the notices of ALL outputs
of `t` have been processed, in whatever order they arrived (`published_outputs[t]` only ever holds declared outputs of `t`,
`InvP.pub_ran`, so the two sets have the same size iff they are equal) -/
def Ctl.allPublished (j : Job) (c : Ctl) (t : Task) : Bool := (j.outputsOf t).all c.published

/-- `controller.notify.notify`, one event -/
def notifyEvent (j : Job) (c : Ctl) : Event → Except Err Ctl
  | .payload ds v => .ok { c with outputs := upd c.outputs ds (some v) }
  | .pubT h ds =>
    let c := markAvailable c h ds
    let c := considerFetch j c ds h
    .ok (considerComputable c ds)
  | .pubW w ds =>
    let c := markAvailable c w.host ds
    let c := considerFetch j c ds w.host
    let c := considerComputable c ds
    let c := markPublished c ds
    if c.allPublished j ds.task then
      match completeInputs j ds.task c (j.inputs ds.task) with
      | .error e => .error e
      | .ok c =>
        if c.ongoing.contains (w, ds.task) then
          let ongoing := c.ongoing.erase (w, ds.task)
          let idle := if ongoing.any (·.1 == w) || c.idle.contains w then c.idle else c.idle ++ [w]
          .ok { c with ongoing := ongoing, idle := idle, remaining := c.remaining - 1,
                       doneC := upd c.doneC ds.task true }
        else .error (.raised "ValueError: removal from ongoing impossible")
    else .ok c

def notify (j : Job) : Ctl → List Event → Except Err Ctl
  | c, [] => .ok c
  | c, e :: es => match notifyEvent j c e with
    | .error x => .error x
    | .ok c' => notify j c' es

/-! ### assign / act / plan / flush -/

inductive Cmd
  | transmit (ds : Ds) (src tgt : Host)
  | taskSeq (w : Worker) (t : Task) (publish : List Ds)   -- TaskSequence(worker, tasks=[t], publish)
  | fetch (ds : Ds) (src : Host)
  | purge (h : Host) (ds : Ds)
deriving DecidableEq, Repr

/-- the oracle: one element of what `assign` yields -/
structure Asg where
  worker : Worker
  task : Task
  cands : List (Ds × Host)    -- chosen transmit source for the inputs that need one
deriving Repr

/-- the loop of `build_assignment` over `edge_i[task]` -/
def buildPrep (cl : Cluster) (w : Worker) (cands : List (Ds × Host)) :
    Ctl → List Ds → Except Err (Ctl × List (Ds × Host))
  | c, [] => .ok (c, [])
  | c, ds :: rest =>
    if (c.workerDs w ds).eligible then buildPrep cl w cands c rest
    else if (c.hostDs w.host ds).eligible then
      match buildPrep cl w cands c rest with
      | .error e => .error e
      | .ok (c', p) => .ok (c', (ds, w.host) :: p)
    else
      match cands.find? (·.1 == ds) with
      | some (_, src) =>
        if c.dsHost ds src == .available then
          let c1 := { c with hostDs := upd c.hostDs w.host (upd (c.hostDs w.host) ds .preparing),
                             dsHost := upd c.dsHost ds (upd (c.dsHost ds) w.host .preparing) }
          match buildPrep cl w cands c1 rest with
          | .error e => .error e
          | .ok (c', p) => .ok (c', (ds, src) :: p)
        else .error (.oracle "transmit source is not `available`")
      | none =>
        if cl.hosts.any (fun h => c.dsHost ds h == .available) then .error (.oracle "no transmit source given")
        else .error (.raised "ValueError: dataset not found in any host")

/-- admissibility of the heuristic's choice + `build_assignment` + the pops after the yield -/
def assignOne (j : Job) (cl : Cluster) (c : Ctl) (a : Asg) : Except Err (Ctl × List (Ds × Host)) :=
  if !(c.idle.contains a.worker) then .error (.oracle "worker not idle")
  else if !(c.computable.contains a.task) then .error (.oracle "task not computable")
  else if j.gpu a.task && !(cl.hasGpu a.worker) then .error (.oracle "gpu task on cpu worker")
  else match buildPrep cl a.worker a.cands c (j.inputs a.task) with
    | .error e => .error e
    | .ok (c, prep) =>
      .ok ({ c with computable := c.computable.erase a.task, idle := c.idle.erase a.worker,
                    dispatched := upd c.dispatched a.task (c.dispatched a.task + 1) }, prep)

/-- `Assignment.outputs` as `build_assignment` computes it (`{ds for ds in state.task_o[task]}`: ALL declared outputs of
the task; the code's TODO "trim for only the necessary ones" is not implemented) — the set `act` copies into
`TaskSequence.publish` -/
def asgOutputs (j : Job) (t : Task) : List Ds := j.outputsOf t

/-- `controller.act.act`: a transmit command for every prep entry whose source is another host, then the task sequence
carrying `publish = assignment.outputs` -/
def actCmds (j : Job) (a : Asg) (prep : List (Ds × Host)) : List Cmd :=
  (prep.filter (fun p => p.2 != a.worker.host)).map (fun p => Cmd.transmit p.1 p.2 a.worker.host)
    ++ [Cmd.taskSeq a.worker a.task (asgOutputs j a.task)]

/-- `scheduler.api._set_preparing_at` (status part) -/
def setPreparingAt (c : Ctl) (ds : Ds) (w : Worker) : Ctl :=
  { c with hostDs := upd c.hostDs w.host (upd (c.hostDs w.host) ds .preparing),
           dsHost := if c.dsHost ds w.host == .available then c.dsHost
                     else upd c.dsHost ds (upd (c.dsHost ds) w.host .preparing),
           workerDs := upd c.workerDs w (upd (c.workerDs w) ds .preparing) }

/-- `scheduler.api.plan`, one assignment -/
def planOne (j : Job) (c : Ctl) (a : Asg) (prep : List (Ds × Host)) : Except Err Ctl :=
  if prep.any (fun p => !(c.ptracked p.1)) then .error (.raised "KeyError: purging_tracker[prep] in plan") else
  let c := prep.foldl (fun c p => setPreparingAt c p.1 a.worker) c
  let c := (j.outputsOf a.task).foldl (fun c ds => setPreparingAt c ds a.worker) c
  if c.ongoing.contains (a.worker, a.task) then .error (.raised "ValueError: double add")
  else .ok { c with ongoing := c.ongoing ++ [(a.worker, a.task)] }

/-- inner loop of the second loop of `flush_queues`, over the hosts having a status for `ds` -/
def purgeHosts (cl : Cluster) (ds : Ds) : Ctl → List Host → Except Err (Ctl × List Cmd)
  | c, [] => .ok (c, [])
  | c, h :: rest =>
    if c.dsHost ds h == .missing then purgeHosts cl ds c rest
    else if c.hostDs h ds == .missing then .error (.raised "KeyError: host2ds pop")
    else
      let wd := (cl.workersOf h).foldl (fun f w => upd f w (upd (f w) ds .missing)) c.workerDs
      let c1 := { c with hostDs := upd c.hostDs h (upd (c.hostDs h) ds .missing), workerDs := wd }
      match purgeHosts cl ds c1 rest with
      | .error e => .error e
      | .ok (c2, cmds) => .ok (c2, Cmd.purge h ds :: cmds)

/-! ## Environment (abstract executors) with the C02/C04 monitors -/

inductive IO
  | transmit (ds : Ds) (src tgt : Host)
  | fetch (ds : Ds) (src : Host)
deriving DecidableEq, Repr

structure Env where
  present : Host → Ds → Option Val       -- ground truth: what each host's store holds
  queued : List (Worker × Task)          -- dispatched, body not yet run
  outstanding : List IO                  -- commanded transfers/fetches not yet performed
  pending : List Event                   -- produced, not yet delivered to the controller
  -- ghosts
  ran : Task → Bool
  produced : Ds → Bool
  delivered : Ds → Bool                  -- payload for ds handed to the controller
  purged : List (Host × Ds)
  dispatchedE : Task → Nat
  viol : List String                     -- monitor failures (C02 / C04)
  log : List Cmd                         -- every command received, in order
  -- what the latest task sequence naming `t` CARRIED: its `publish` set, and whether that set omits a declared output
  pubOf : Task → List Ds
  trimmed : Task → Bool

def Env.init : Env where
  present := fun _ _ => none
  queued := []
  outstanding := []
  pending := []
  ran := fun _ => false
  produced := fun _ => false
  delivered := fun _ => false
  purged := []
  dispatchedE := fun _ => 0
  viol := []
  log := []
  pubOf := fun _ => []
  trimmed := fun _ => false

def Env.flag (e : Env) (cond : Bool) (msg : String) : Env := if cond then e else { e with viol := e.viol ++ [msg] }

def inboundTransmit (e : Env) (ds : Ds) (h : Host) : Bool :=
  e.outstanding.any (fun o => match o with | .transmit d _ t => d == ds && t == h | _ => false)

def outboundIO (e : Env) (ds : Ds) (h : Host) : Bool :=
  e.outstanding.any (fun o => match o with | .transmit d s _ => d == ds && s == h | .fetch d s => d == ds && s == h)

/-- does the `publish` set of a task sequence contain every declared output of the task? -/
def publishCovers (j : Job) (t : Task) (pub : List Ds) : Bool := (j.outputsOf t).all (fun ds => pub.contains ds)

/-- apply one controller command; the monitors are the clauses of C02 and C04 -/
def applyCmd (j : Job) (cl : Cluster) (e0 : Env) (cmd : Cmd) : Env :=
  let e := { e0 with log := e0.log ++ [cmd] }
  match cmd with
  | .taskSeq w t pub =>
    let e := e.flag (cl.ids.contains w) "C02 unknown-worker"
    let e := e.flag (!(e.queued.any (·.1 == w))) "C02 busy-worker"
    let e := e.flag (e.dispatchedE t == 0) "C02 double-dispatch"
    let e := e.flag (!(j.gpu t) || cl.hasGpu w) "C02 gpu"
    let e := e.flag ((j.inputs t).all (fun d => e.produced d)) "C02 input-not-produced"
    let e := e.flag ((j.inputs t).all (fun d => !(e.purged.contains (w.host, d)))) "C04 input-purged-on-target"
    let e := e.flag ((j.inputs t).all (fun d => (e.present w.host d).isSome || inboundTransmit e d w.host))
      "C02 input-neither-present-nor-in-transfer"
    { e with queued := e.queued ++ [(w, t)], dispatchedE := upd e.dispatchedE t (e.dispatchedE t + 1),
             pubOf := upd e.pubOf t pub, trimmed := upd e.trimmed t (!(publishCovers j t pub)) }
  | .transmit ds src tgt =>
    let e := e.flag ((e.present src ds).isSome) "C04 transmit-from-missing"
    { e with outstanding := e.outstanding ++ [IO.transmit ds src tgt] }
  | .fetch ds src =>
    let e := e.flag ((e.present src ds).isSome) "C04 fetch-from-missing"
    { e with outstanding := e.outstanding ++ [IO.fetch ds src] }
  | .purge h ds =>
    let e := e.flag (!(outboundIO e ds h)) "C04 purge-while-outstanding-from"
    let e := e.flag ((j.consumers ds).all (fun t => e.ran t)) "C04 purge-before-consumer-done"
    let e := e.flag (!(j.ext.contains ds) || e.delivered ds) "C04 purge-before-output-delivered"
    let e := e.flag (!(e.queued.any (fun q => q.1.host == h && (j.inputs q.2).contains ds))) "C04 purge-needed-by-queued-task"
    { e with present := upd e.present h (upd (e.present h) ds none), purged := e.purged ++ [(h, ds)] }

def applyCmds (j : Job) (cl : Cluster) (e : Env) (cmds : List Cmd) : Env := cmds.foldl (applyCmd j cl) e

/-- what a task's k-th output is, given the values of its inputs (uninterpreted) -/
abbrev Sem := Task → Nat → List Val → Val

inductive EnvStep
  | run (w : Worker) (t : Task)     -- the body of a queued task runs
  | io (i : Nat)                    -- the i-th outstanding transfer/fetch is performed
deriving Repr

def publishOutputs (f : Sem) (j : Job) (w : Worker) (t : Task) (args : List Val) (e : Env) : Env :=
  (j.outputsOf t).foldl (fun e ds =>
    { e with present := upd e.present w.host (upd (e.present w.host) ds (some (f t ds.out args))),
             produced := upd e.produced ds true,
             pending := e.pending ++ [Event.pubW w ds] }) e

/-- environment step; `none` = step not enabled -/
def envStep (f : Sem) (j : Job) (e : Env) : EnvStep → Option Env
  | .run w t =>
    if e.queued.contains (w, t) && (j.inputs t).all (fun d => (e.present w.host d).isSome) then
      let args := (j.inputs t).map (fun d => (e.present w.host d).getD "")
      let e := { e with queued := e.queued.erase (w, t), ran := upd e.ran t true }
      some (publishOutputs f j w t args e)
    else none
  | .io i =>
    match e.outstanding[i]? with
    | none => none
    | some o =>
      let e := { e with outstanding := e.outstanding.eraseIdx i }
      match o with
      | .transmit ds src tgt =>
        match e.present src ds with
        | none => some (e.flag false "C04 io-source-gone transmit")
        | some v =>
          if (e.present tgt ds).isSome then some e     -- redundant: silently dropped
          else some { e with present := upd e.present tgt (upd (e.present tgt) ds (some v)),
                             pending := e.pending ++ [Event.pubT tgt ds] }
      | .fetch ds src =>
        match e.present src ds with
        | none => some (e.flag false "C04 io-source-gone fetch")
        | some v => some { e with pending := e.pending ++ [Event.payload ds v] }

/-- publication of the outputs in `outs` only: an output outside the publish set stays in the worker's local memory,
reaches no host store and is never announced (`runner.run`: `outputId in executionContext.publish`) -/
def publishList (f : Sem) (w : Worker) (t : Task) (args : List Val) (outs : List Ds) (e : Env) : Env :=
  outs.foldl (fun e ds =>
    { e with present := upd e.present w.host (upd (e.present w.host) ds (some (f t ds.out args))),
             produced := upd e.produced ds true,
             pending := e.pending ++ [Event.pubW w ds] }) e

/-- **What a task body publishes is what its task sequence carried**: the body of a queued task whose inputs are on its
host runs and publishes exactly those of its outputs that are in the `publish` set of the command (`Env.pubOf`). -/
def envRunSpec (f : Sem) (j : Job) (e : Env) (w : Worker) (t : Task) : Option Env :=
  if e.queued.contains (w, t) && (j.inputs t).all (fun d => (e.present w.host d).isSome) then
    let args := (j.inputs t).map (fun d => (e.present w.host d).getD "")
    let e1 := { e with queued := e.queued.erase (w, t), ran := upd e.ran t true }
    some (publishList f w t args ((j.outputsOf t).filter (fun ds => (e.pubOf t).contains ds)) e1)
  else none

/-- the environment step of the system. A body whose command carried a publish set that omits a declared output
(`Env.trimmed`) publishes only what the set names (`envRunSpec`); otherwise all outputs are published and the step is
`envStep`. (`envStepP_spec`, Lemmas/CtrlPub.lean: in every state reachable by commands this is `envRunSpec` in both
cases; the split exists so that the invariant proofs of the untrimmed case need not mention the publish set.) -/
def envStepP (f : Sem) (j : Job) (e : Env) : EnvStep → Option Env
  | .run w t => if e.trimmed t then envRunSpec f j e w t else envStep f j e (.run w t)
  | .io i => envStep f j e (.io i)

/-- remove the events of a delivered batch from `pending` (any order, any sub-multiset) -/
def takeEvents : List Event → List Event → Option (List Event)
  | pend, [] => some pend
  | pend, ev :: evs => if pend.contains ev then takeEvents (pend.erase ev) evs else none

def markDelivered (e : Env) (evs : List Event) : Env :=
  evs.foldl (fun e ev => match ev with
    | .payload ds _ => { e with delivered := upd e.delivered ds true }
    | _ => e) e

/-! ## The system: small-step semantics of `impl.run` against the environment

One iteration of the `while` loop of `impl.run` is the step sequence
`enter · assign* · endAssign · plan1* · endPlan · flushF1* · endFlushF · flushP1* · endFlush`
followed (if something is awaitable) by `recv evs · notify1* · endNotify`. Environment steps
may be interleaved anywhere, so no atomicity of controller rounds is assumed. -/

inductive Phase | top | assigning | planning | flushF | flushP | waiting | notifying | finished | crashed
deriving DecidableEq, Repr

structure Sys where
  ctl : Ctl
  env : Env
  phase : Phase
  mayAssign : Bool                          -- `has_computable` as tested at the top of the iteration
  todo : List (Asg × List (Ds × Host))      -- assignments yielded in this iteration, not yet planned
  inbox : List Event                        -- events returned by recv_events, not yet notified
  err : Option String                       -- controller exception (bookkeeping crash)
  shutdowns : Nat
  rounds : Nat

def Sys.init (j : Job) (cl : Cluster) : Sys :=
  { ctl := initCtl j cl, env := Env.init, phase := .top, mayAssign := false, todo := [], inbox := [],
    err := none, shutdowns := 0, rounds := 0 }

def Sys.crash (s : Sys) (e : String) : Sys :=
  { s with phase := .crashed, err := some e, shutdowns := s.shutdowns + 1 }   -- `finally: bridge.shutdown()`

inductive Step
  | enter
  | assign (a : Asg)
  | endAssign
  | plan1
  | endPlan
  | flushF1
  | endFlushF
  | flushP1
  | endFlush
  | recv (evs : List Event)
  | notify1
  | endNotify
  | env (s : EnvStep)
deriving Repr

/-- system step; `none` = not enabled -/
def step (f : Sem) (j : Job) (cl : Cluster) (s : Sys) : Step → Option Sys
  | .enter =>
    if s.phase != .top then none
    else if !(s.ctl.hasComputable || s.ctl.hasAwaitable j) then
      some { s with phase := .finished, shutdowns := s.shutdowns + 1 }
    else some { s with phase := .assigning, mayAssign := s.ctl.hasComputable, todo := [] }
  | .assign a =>
    if s.phase != .assigning || !s.mayAssign then none
    else match assignOne j cl s.ctl a with
      | .error (.oracle _) => none          -- not an admissible choice: no such behaviour
      | .error (.raised e) => some (s.crash e)
      | .ok (c, prep) =>
        some { s with ctl := c, env := applyCmds j cl s.env (actCmds j a prep), todo := s.todo ++ [(a, prep)] }
  | .endAssign => if s.phase != .assigning then none else some { s with phase := .planning }
  | .plan1 =>
    if s.phase != .planning then none
    else match s.todo with
      | [] => none
      | (a, prep) :: rest => match planOne j s.ctl a prep with
        | .error (.oracle _) => none
        | .error (.raised e) => some (s.crash e)
        | .ok c => some { s with ctl := c, todo := rest }
  | .endPlan => if s.phase != .planning || !s.todo.isEmpty then none else some { s with phase := .flushF }
  | .flushF1 =>
    if s.phase != .flushF then none
    else match s.ctl.fetchQ with
      | [] => none
      | (ds, h) :: rest =>
        let c := considerPurge j { s.ctl with fetchQ := rest, fetchIssued := s.ctl.fetchIssued ++ [ds] } ds
        some { s with ctl := c, env := applyCmd j cl s.env (.fetch ds h) }
  | .endFlushF => if s.phase != .flushF || !s.ctl.fetchQ.isEmpty then none else some { s with phase := .flushP }
  | .flushP1 =>
    if s.phase != .flushP then none
    else match s.ctl.purgeQ with
      | [] => none
      | ds :: rest => match purgeHosts cl ds s.ctl cl.hosts with
        | .error (.oracle _) => none
        | .error (.raised e) => some (s.crash e)
        | .ok (c, cmds) =>
          some { s with ctl := { c with dsHost := upd c.dsHost ds (fun _ => .missing), purgeQ := rest },
                        env := applyCmds j cl s.env cmds }
  | .endFlush =>
    if s.phase != .flushP || !s.ctl.purgeQ.isEmpty then none
    else some { s with rounds := s.rounds + 1, phase := if s.ctl.hasAwaitable j then .waiting else .top }
  | .recv evs =>
    if s.phase != .waiting || evs.isEmpty then none
    else match takeEvents s.env.pending evs with
      | none => none
      | some pend => some { s with env := markDelivered { s.env with pending := pend } evs, inbox := evs, phase := .notifying }
  | .notify1 =>
    if s.phase != .notifying then none
    else match s.inbox with
      | [] => none
      | ev :: rest => match notifyEvent j s.ctl ev with
        | .error (.oracle _) => none
        | .error (.raised e) => some ({ s with inbox := rest }.crash e)
        | .ok c => some { s with ctl := c, inbox := rest }
  | .endNotify => if s.phase != .notifying || !s.inbox.isEmpty then none else some { s with phase := .top }
  | .env es =>
    if s.phase == .finished || s.phase == .crashed then none
    else (envStepP f j s.env es).map (fun e => { s with env := e })

/-- all states reachable from the initial one by enabled steps -/
inductive Reachable (f : Sem) (j : Job) (cl : Cluster) : Sys → Prop
  | init : Reachable f j cl (Sys.init j cl)
  | step (s s' : Sys) (st : Step) : Reachable f j cl s → step f j cl s st = some s' → Reachable f j cl s'

/-- run a list of steps, stopping at the first one that is not enabled (used by the driver) -/
def runSteps (f : Sem) (j : Job) (cl : Cluster) : Sys → List Step → Option Sys
  | s, [] => some s
  | s, st :: rest => match step f j cl s st with
    | none => none
    | some s' => runSteps f j cl s' rest

/-! ## Sequential evaluation (the reference of C01) -/

/-- evaluate tasks 0 … n-1 in order, each from the values computed so far -/
def seqEval (f : Sem) (j : Job) : Nat → (Ds → Option Val)
  | 0 => fun _ => none
  | n + 1 =>
    let tbl := seqEval f j n
    let args := (j.inputs n).map (fun d => (tbl d).getD "")
    fun ds => if ds.task = n ∧ ds.out < j.nOut n then some (f n ds.out args) else tbl ds

def den (f : Sem) (j : Job) (ds : Ds) : Option Val := seqEval f j j.tasks.length ds

end EkwVerif.Ctrl
