/-
Model of ONE HOST of the executor layer, between the controller's Bridge and the task bodies:

* `cascade.executor.executor.Executor.recv_loop` (+ `healthcheck`, `terminate`): forwarding of a TaskSequence to the
  worker it names (raise when that worker process is not alive), fan-out of DatasetPublished / DatasetPurge to every
  worker, the purge filter on `self.datasets`, what goes up to the controller;
* `cascade.executor.runner.entrypoint.entrypoint` per worker: the wait loop (`Model/Worker.lean`: availab_ds / missing_ds /
  waiting_ts) composed with `execute_sequence` / `runner.run` / `Memory.provide / handle / pop / flush`: a published output is
  shm allocate, write, close, THEN the DatasetPublished callback — three separate micro-steps;
* `cascade.executor.data_server.DataServer.recv_loop / store_payload`: a received payload is stored by a pool job (allocate,
  write, close, THEN announce — three micro-steps), payloads of purged datasets are ignored, a purge waits for the jobs;
* the shm server at the level of key status (absent / being written / readable) with the answers of the real server:
  allocate of an existing key = conflict, get of a key that is absent or still being written fails, the writer's close
  of a key that is not "being written" fails, purge removes the key whatever its status.

A `Pick` lets ONE actor run from one pause point to the next (blocked in `recv`, before `allocate`, before the writer's
`close`, before the announcing `callback`); controller and network are adversaries (`Pick.ctrl`, `Pick.net`). Every receiver
may read ANY queued message next (index `i`), FIFO being the case `i = 0`: each `callback` opens its own PUSH socket.
Ghost fields (`ever`, `purgedC`, `execLog`, `toCtrl`, `sentC`) are written, never read, by the transitions.
-/
import EkwVerif.Model.Worker

namespace EkwVerif.ExecLayer
open EkwVerif.Worker

structure Task where
  inputs : List Ds            -- values of param_source[task], in parameter order
  nOut : Nat
  failAt : Option Nat         -- the body raises after having yielded this many outputs
deriving Repr, Inhabited

abbrev Job := List Task       -- task id = index

def Job.task (j : Job) (t : Nat) : Task := j.getD t { inputs := [], nOut := 1, failAt := none }

def outsOf (j : Job) (t : Nat) : List Ds := (List.range (j.task t).nOut).map (fun k => (t, k))
def ownOuts (j : Job) (ts : List Nat) : List Ds := ts.flatMap (outsOf j)
def dedup (l : List Ds) : List Ds := l.foldl addSet []

/-- `required` of entrypoint.py: the inputs of the tasks of the sequence minus the outputs of those tasks -/
def required (j : Job) (ts : List Nat) : List Ds :=
  (dedup (ts.flatMap fun t => (j.task t).inputs)).filter (fun d => !(ownOuts j ts).contains d)

inductive Instr
  | begin (t : Nat)               -- the loop of execute_sequence reaches task t (a failure is reported for it)
  | prov (d : Ds)                 -- Memory.provide
  | fail                          -- the body raises
  | keep (d : Ds)                 -- Memory.handle: local[outputId] = value
  | pub (d : Ds) (stage : Nat)    -- Memory.handle, isPublish: 0 = allocate is next, 1 = close is next, 2 = announce is next
  | flush
deriving Repr, DecidableEq

def outInstrs (pub : List Ds) (failAt : Option Nat) (t : Nat) (k : Nat) : List Instr :=
  (if failAt = some k then [Instr.fail] else []) ++ [Instr.keep (t, k)] ++ (if pub.contains (t, k) then [Instr.pub (t, k) 0] else [])

def instrsOfTask (j : Job) (pub : List Ds) (t : Nat) : List Instr :=
  let tk := j.task t
  [Instr.begin t] ++ tk.inputs.map Instr.prov ++ (List.range tk.nOut).flatMap (outInstrs pub tk.failAt t)
    ++ (if tk.failAt = some tk.nOut then [Instr.fail] else [])

def instrsOf (j : Job) (ts : List Nat) (pub : List Ds) : List Instr :=
  ts.flatMap (instrsOfTask j pub) ++ [Instr.flush]

inductive WMsg
  | task (id : Nat) (ts : List Nat) (pub : List Ds)
  | published (d : Ds)
  | purge (d : Ds)
  | shutdown
deriving Repr, DecidableEq

inductive XMsg
  | task (w : Nat) (id : Nat) (ts : List Nat) (pub : List Ds)
  | purge (d : Ds)
  | shutdown
  | published (d : Ds) (fromDs : Bool)
  | taskFail (w : Nat) (t : Option Nat)
  | transmitFail
deriving Repr, DecidableEq

inductive DMsg
  | payload (d : Ds)
  | purge (d : Ds)
deriving Repr, DecidableEq

inductive CMsg
  | published (d : Ds) (fromDs : Bool)
  | taskFail (w : Nat) (t : Option Nat)
  | transmitFail
  | xfail (why : String)
  | xexit
deriving Repr, DecidableEq

inductive CtrlMsg
  | task (w : Nat) (id : Nat) (ts : List Nat) (pub : List Ds)
  | purge (d : Ds)
  | shutdown
deriving Repr, DecidableEq

def CtrlMsg.toX : CtrlMsg → XMsg
  | .task w id ts pub => .task w id ts pub
  | .purge d => .purge d
  | .shutdown => .shutdown

inductive Op
  | skip
  | recvX (m : XMsg) | recvW (m : WMsg) | recvD (m : DMsg)
  | sendX (m : XMsg) | sendW (k : Nat) (m : WMsg) | sendD (m : DMsg) | sendC (m : CMsg)
  | alloc (d : Ds) | allocConflict (d : Ds) | close (d : Ds) | closeFail (d : Ds)
  | get (d : Ds) | getMiss (d : Ds) | shmPurge (d : Ds) | pop (d : Ds)
  | exec (ts : List Nat) | execEnd | stop | died (why : String)
  | submit (d : Ds) | ignore (d : Ds) | jobDone | terminated
deriving Repr

/-- one worker process -/
structure WS where
  w : W                                   -- availab_ds / waiting_ts / missing_ds
  pend : Option (List Nat × List Ds)      -- tasks and publish set of waiting_ts (reset when execute_sequence has returned)
  loc : List Ds                           -- Memory.local (keys)
  bufs : List Ds                          -- Memory.bufs (keys)
  inbox : List WMsg
  run : List Instr                        -- rest of the sequence being executed; [] = blocked in recv
  cur : Option Nat                        -- `taskId` of execute_sequence
  dead : Bool
deriving Repr

def WS.init : WS := { w := W.init, pend := none, loc := [], bufs := [], inbox := [], run := [], cur := none, dead := false }

structure ExecEntry where
  k : Nat
  ts : List Nat
  req : List Ds
  shmR : List Ds      -- readable in the host's shm at the moment of entry
  ever : List Ds      -- completely written into the host's shm at some time before
deriving Repr

structure Host where
  job : Job
  nW : Nat
  xq : List XMsg
  xdead : Bool
  datasets : List Ds
  wk : Nat → WS
  dq : List DMsg
  invalid : List Ds
  jobs : List (Ds × Nat)      -- unfinished store jobs, submit order: dataset, stage (0 allocate / 1 close / 2 announce is next)
  shmR : List Ds              -- keys readable
  shmW : List Ds              -- keys allocated and not yet closed
  ever : List Ds              -- ghost: keys that became readable at some time
  purgedC : List Ds           -- ghost: datasets the controller sent a purge for
  execLog : List ExecEntry    -- ghost: entries into execute_sequence
  toCtrl : List CMsg          -- ghost: what went up to the controller
  sentC : List CtrlMsg        -- ghost: what the controller sent

def Host.init (job : Job) (nW : Nat) : Host :=
  { job := job, nW := nW, xq := [], xdead := false, datasets := [], wk := fun _ => WS.init, dq := [], invalid := [], jobs := [],
    shmR := [], shmW := [], ever := [], purgedC := [], execLog := [], toCtrl := [], sentC := [] }

def setW (s : Host) (k : Nat) (ws : WS) : Host := { s with wk := fun i => if i = k then ws else s.wk i }

inductive Pick
  | ctrl (m : CtrlMsg)
  | net (d : Ds)
  | x (i : Nat)
  | w (k i : Nat)
  | d (i : Nat)
  | j (i : Nat)
deriving Repr

-- ---------------------------------------------------------------------------------------------- shm
def allocOk (s : Host) (d : Ds) : Bool := !(s.shmR.contains d || s.shmW.contains d)

def shmAlloc (s : Host) (d : Ds) : Host := { s with shmW := s.shmW ++ [d] }

def shmClose (s : Host) (d : Ds) : Host :=
  { s with shmW := s.shmW.filter (· != d), shmR := addSet s.shmR d, ever := addSet s.ever d }

def shmPurge (s : Host) (d : Ds) : Host := { s with shmR := s.shmR.filter (· != d), shmW := s.shmW.filter (· != d) }

-- ---------------------------------------------------------------------------------------------- worker
/-- the exception handler of execute_sequence: report TaskFailure, the loop goes on (no flush) -/
def failSeq (s : Host) (k : Nat) : Host × List Op :=
  let ws := s.wk k
  ({ setW s k { ws with run := [], cur := none, pend := none } with xq := s.xq ++ [XMsg.taskFail k ws.cur] }, [Op.sendX (.taskFail k ws.cur), Op.execEnd])

/-- run the instructions up to the next pause point (`pub`) or to the end of the sequence -/
def cont : Host → Nat → List Instr → Host × List Op
  | s, k, [] => (setW s k { s.wk k with run := [], cur := none, pend := none }, [Op.execEnd])
  | s, k, i :: rest =>
    let ws := s.wk k
    match i with
    | .pub _ _ => (setW s k { ws with run := i :: rest }, [])
    | .begin t => cont (setW s k { ws with cur := some t }) k rest
    | .prov d =>
      if ws.loc.contains d then cont s k rest
      else if ws.bufs.contains d then failSeq s k
      else if s.shmR.contains d then
        let r := cont (setW s k { ws with loc := ws.loc ++ [d], bufs := ws.bufs ++ [d] }) k rest
        (r.1, Op.get d :: r.2)
      else let r := failSeq s k; (r.1, Op.getMiss d :: r.2)
    | .fail => failSeq s k
    | .keep d => cont (setW s k { ws with loc := addSet ws.loc d }) k rest
    | .flush => cont (setW s k { ws with loc := ws.loc.filter (fun d => ws.bufs.contains d) }) k rest

/-- `memory.provide` calls of the wait loop (outside any try): `none` = the worker process dies -/
def provideLoop : Host → Nat → List Ds → Option (Host × List Op)
  | s, _, [] => some (s, [])
  | s, k, d :: ds =>
    let ws := s.wk k
    if ws.loc.contains d then provideLoop s k ds
    else if ws.bufs.contains d then none
    else if s.shmR.contains d then
      match provideLoop (setW s k { ws with loc := ws.loc ++ [d], bufs := ws.bufs ++ [d] }) k ds with
      | some r => some (r.1, Op.get d :: r.2)
      | none => none
    else none

def die (s : Host) (k : Nat) (why : String) (pre : List Op) : Host × List Op :=
  (setW s k { s.wk k with dead := true, run := [] }, pre ++ [Op.died why])

/-- entry into execute_sequence -/
def startSeq (s : Host) (k : Nat) (ts : List Nat) (pub req : List Ds) : Host × List Op :=
  let s1 := { s with execLog := s.execLog ++ [{ k := k, ts := ts, req := req, shmR := s.shmR, ever := s.ever }] }
  let r := cont s1 k (instrsOf s.job ts pub)
  (r.1, Op.exec ts :: r.2)

/-- DatasetPublished at worker k (already taken from the inbox) -/
def wPublished (s : Host) (k : Nat) (d : Ds) : Host × List Op :=
  let ws := s.wk k
  let m := WMsg.published d
  let r := step ws.w (.published d)
  let s1 := setW s k { ws with w := r.1, pend := ws.pend }
  match r.2 with
  | .provided _ =>
    match provideLoop s1 k [d] with
    | none => die s1 k "shm-miss" [Op.recvW m]
    | some p => (p.1, Op.recvW m :: p.2)
  | .executed _ =>
    match provideLoop s1 k [d] with
    | none => die s1 k "shm-miss" [Op.recvW m]
    | some p =>
      match ws.pend, ws.w.waiting with
      | some (ts, pub), some (_, req) =>
        let q := startSeq p.1 k ts pub req
        (q.1, Op.recvW m :: (p.2 ++ q.2))
      | _, _ => (p.1, Op.recvW m :: p.2)
  | _ => (s1, [Op.recvW m])

/-- TaskSequence at worker k (already taken from the inbox) -/
def wTask (s : Host) (k : Nat) (id : Nat) (ts : List Nat) (pub : List Ds) : Host × List Op :=
  let ws := s.wk k
  let m := WMsg.task id ts pub
  let req := required s.job ts
  let r := step ws.w (.taskSeq id req)
  match r.2 with
  | .raised _ => die s k "double-task-sequence" [Op.recvW m]
  | .executed _ =>
    let q := startSeq (setW s k { ws with w := r.1, pend := ws.pend }) k ts pub req
    (q.1, Op.recvW m :: q.2)
  | .provided l =>
    let s1 := setW s k { ws with w := r.1, pend := some (ts, pub) }
    match provideLoop s1 k l with
    | none => die s1 k "shm-miss" [Op.recvW m]
    | some p => (p.1, Op.recvW m :: p.2)
  | _ => (s, [Op.recvW m])

/-- one message at worker k (already taken from the inbox) -/
def wHandle (s : Host) (k : Nat) : WMsg → Host × List Op
  | .shutdown => (setW s k { s.wk k with dead := true }, [Op.recvW .shutdown, Op.stop])
  | .purge d =>
    let ws := s.wk k
    (setW s k { ws with w := (step ws.w (.purge d)).1, pend := ws.pend, loc := ws.loc.filter (· != d), bufs := ws.bufs.filter (· != d) },
      [Op.recvW (.purge d), Op.pop d])
  | .published d => wPublished s k d
  | .task id ts pub => wTask s k id ts pub

def wRecv (s : Host) (k i : Nat) : Host × List Op :=
  match (s.wk k).inbox[i]? with
  | none => (s, [Op.skip])
  | some m => wHandle (setW s k { s.wk k with inbox := (s.wk k).inbox.eraseIdx i }) k m

/-- the worker is at a pause point inside Memory.handle -/
def wRun (s : Host) (k : Nat) (d : Ds) (stage : Nat) (rest : List Instr) : Host × List Op :=
  let ws := s.wk k
  match stage with
  | 0 =>
    if allocOk s d then (setW (shmAlloc s d) k { ws with run := Instr.pub d 1 :: rest }, [Op.alloc d])
    else let r := failSeq s k; (r.1, Op.allocConflict d :: r.2)
  | 1 =>
    if s.shmW.contains d then (setW (shmClose s d) k { ws with run := Instr.pub d 2 :: rest }, [Op.close d])
    else let r := failSeq s k; (r.1, Op.closeFail d :: r.2)
  | _ =>
    let r := cont { s with xq := s.xq ++ [XMsg.published d false] } k rest
    (r.1, Op.sendX (.published d false) :: r.2)

def wPick (s : Host) (k i : Nat) : Host × List Op :=
  if k < s.nW && !(s.wk k).dead then
    match (s.wk k).run with
    | Instr.pub d st :: rest => wRun s k d st rest
    | [] => wRecv s k i
    | _ => (s, [Op.skip])      -- not a pause point (unreachable: `cont` stops at `pub` or at the end)
  else (s, [Op.skip])

-- ---------------------------------------------------------------------------------------------- executor
def toAll (s : Host) (m : WMsg) : Host :=
  { s with wk := fun k => if k < s.nW then { s.wk k with inbox := (s.wk k).inbox ++ [m] } else s.wk k }

def anyDead (s : Host) : Bool := (List.range s.nW).any (fun k => (s.wk k).dead)

def upC (s : Host) (m : CMsg) : Host := { s with toCtrl := s.toCtrl ++ [m] }

/-- Executor.terminate: WorkerShutdown to every worker -/
def terminate (s : Host) : Host × List Op :=
  ({ toAll s .shutdown with xdead := true }, (List.range s.nW).map (fun k => Op.sendW k .shutdown) ++ [Op.terminated])

/-- the `except` of recv_loop: report ExecutorFailure, terminate -/
def xFail (s : Host) (why : String) (pre : List Op) : Host × List Op :=
  let r := terminate (upC s (.xfail why))
  (r.1, pre ++ Op.sendC (.xfail why) :: r.2)

def health (s : Host) (pre : List Op) : Host × List Op :=
  if anyDead s then xFail s "healthcheck" pre else (s, pre)

def xPick (s : Host) (i : Nat) : Host × List Op :=
  if s.xdead then (s, [Op.skip]) else
  match s.xq[i]? with
  | none => (s, [Op.skip])
  | some m =>
    let s := { s with xq := s.xq.eraseIdx i }
    match m with
    | .task k id ts pub =>
      if k < s.nW then
        if (s.wk k).dead then xFail s "dead-worker-dispatch" [Op.recvX m]
        else health (setW s k { s.wk k with inbox := (s.wk k).inbox ++ [.task id ts pub] }) [Op.recvX m, Op.sendW k (.task id ts pub)]
      else xFail s "unknown-worker" [Op.recvX m]
    | .purge d =>
      if s.datasets.contains d then
        health { toAll s (.purge d) with datasets := s.datasets.filter (· != d), dq := s.dq ++ [DMsg.purge d] }
          (Op.recvX m :: (List.range s.nW).map (fun k => Op.sendW k (.purge d)) ++ [Op.sendD (.purge d)])
      else health s [Op.recvX m]
    | .shutdown =>
      let r := terminate (upC s .xexit)
      (r.1, Op.recvX m :: Op.sendC .xexit :: r.2)
    | .published d f =>
      health (upC { toAll s (.published d) with datasets := addSet s.datasets d } (.published d f))
        (Op.recvX m :: (List.range s.nW).map (fun k => Op.sendW k (.published d)) ++ [Op.sendC (.published d f)])
    | .taskFail k t => health (upC s (.taskFail k t)) [Op.recvX m, Op.sendC (.taskFail k t)]
    | .transmitFail => health (upC s .transmitFail) [Op.recvX m, Op.sendC .transmitFail]

-- ---------------------------------------------------------------------------------------------- data server
def isPurge : DMsg → Bool
  | .purge _ => true
  | _ => false

def dPick (s : Host) (i : Nat) : Host × List Op :=
  match s.dq[i]? with
  | none => (s, [Op.skip])
  | some m =>
    if s.jobs.length ≥ 2 || (isPurge m && !s.jobs.isEmpty) then (s, [Op.skip]) else
    let s := { s with dq := s.dq.eraseIdx i }
    match m with
    | .payload d =>
      if s.invalid.contains d then (s, [Op.recvD m, Op.ignore d])
      else ({ s with jobs := s.jobs ++ [(d, 0)] }, [Op.recvD m, Op.submit d])
    | .purge d => ({ shmPurge s d with invalid := addSet s.invalid d }, [Op.recvD m, Op.shmPurge d])

def jPick (s : Host) (i : Nat) : Host × List Op :=
  match s.jobs[i]? with
  | none => (s, [Op.skip])
  | some (d, st) =>
    match st with
    | 0 =>
      if allocOk s d then ({ shmAlloc s d with jobs := s.jobs.set i (d, 1) }, [Op.alloc d])
      else ({ s with jobs := s.jobs.eraseIdx i }, [Op.allocConflict d, Op.jobDone])
    | 1 =>
      if s.shmW.contains d then ({ shmClose s d with jobs := s.jobs.set i (d, 2) }, [Op.close d])
      else ({ s with jobs := s.jobs.eraseIdx i, xq := s.xq ++ [XMsg.transmitFail] }, [Op.closeFail d, Op.sendX .transmitFail, Op.jobDone])
    | _ => ({ s with jobs := s.jobs.eraseIdx i, xq := s.xq ++ [XMsg.published d true] }, [Op.sendX (.published d true), Op.jobDone])

-- ---------------------------------------------------------------------------------------------- the system
def pick (s : Host) : Pick → Host × List Op
  | .ctrl m =>
    ({ s with xq := s.xq ++ [m.toX], sentC := s.sentC ++ [m],
              purgedC := match m with | .purge d => addSet s.purgedC d | _ => s.purgedC }, [Op.sendX m.toX])
  | .net d => ({ s with dq := s.dq ++ [DMsg.payload d] }, [Op.sendD (.payload d)])
  | .x i => xPick s i
  | .w k i => wPick s k i
  | .d i => dPick s i
  | .j i => jPick s i

def runPicks : Host → List Pick → Host
  | s, [] => s
  | s, p :: ps => runPicks (pick s p).1 ps

-- ---------------------------------------------------------------------------------------------- controller discipline
def xReq (j : Job) : XMsg → List Ds
  | .task _ _ ts _ => required j ts
  | _ => []

def wReq (j : Job) : WMsg → List Ds
  | .task _ ts _ => required j ts
  | _ => []

def waitReq (ws : WS) : List Ds :=
  match ws.w.waiting with
  | some (_, req) => req
  | none => []

/-- datasets required by a task sequence that is still on its way to its worker or waiting there -/
def unstartedReq (s : Host) : List Ds :=
  s.xq.flatMap (xReq s.job) ++ (List.range s.nW).flatMap (fun k => (s.wk k).inbox.flatMap (wReq s.job) ++ waitReq (s.wk k))

/-- What C04 guarantees of the controller (`c04_no_purge_while_running`, `c04_never_needed_again`), restricted to what
this layer needs: no purge of a dataset that a sequence which has not started yet requires, and no sequence that requires
a dataset the controller has purged from this host. -/
def ctrlOK (s : Host) : CtrlMsg → Bool
  | .task _ _ ts _ => (required s.job ts).all (fun d => !s.purgedC.contains d)
  | .purge d => !(unstartedReq s).contains d
  | .shutdown => true

def Disciplined : Host → List Pick → Bool
  | _, [] => true
  | s, p :: ps => (match p with | .ctrl m => ctrlOK s m | _ => true) && Disciplined (pick s p).1 ps

-- ---------------------------------------------------------------------------------------------- GPU facts of the layer
/-- decimal digits, most significant first: the characters of Python's `str(n)` -/
def digits (n : Nat) : List Nat :=
  if _h : n < 10 then [n] else digits (n / 10) ++ [n % 10]
decreasing_by omega

/-- `int(field)` of a field of decimal digits -/
def ofDigits (l : List Nat) : Nat := l.foldl (fun a d => 10 * a + d) 0

/-- `Executor.__init__`: the worker with index idx (= `worker_num` of "w{idx}") is registered with gpu = 1 iff
idx < CASCADE_GPU_COUNT -/
def regGpu (gpus nW : Nat) : List (Nat × Bool) := (List.range nW).map fun i => (i, decide (i < gpus))

/-- entrypoint.py: `os.environ["CUDA_VISIBLE_DEVICES"] = str(worker_num)` — the comma separated fields of the variable -/
def cudaFields (n : Nat) : List (List Nat) := [digits n]

/-- the code before the repair: `",".join(str(worker_num))` — one field per CHARACTER of the number -/
def cudaFieldsPinned (n : Nat) : List (List Nat) := (digits n).map fun d => [d]

/-- the device indices a process with these fields sees -/
def visible (fields : List (List Nat)) : List Nat := fields.map ofDigits

end EkwVerif.ExecLayer
