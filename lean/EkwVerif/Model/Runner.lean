/-
Model of `cascade.executor.runner.runner.run` (after the `fix:` commits of C10), of the part of
`runner.memory.Memory` it uses, and of `controller.notify.is_last_output_of`.

* argument assembly: `ensure`, positional statics, keyword statics, upstream values by position / keyword;
* output publication: one output -> the result itself; several outputs -> `zip(outputs, result, strict=True)`
  over the outputs in DECLARATION order, followed by the two exhaustion checks;
* `Memory.handle` (store locally, publish if asked; publishing needs a picklable value) and `Memory.provide`;
* `is_last_output_of` (still in notify.py, no longer called) and `all_outputs_published` (the rule `notify` uses): when
  the controller takes a task as complete;
* the stateful `Memory` (`local`, `bufs`, the host's shared memory; `provide`, `handle`, `flush`, `pop`) and
  `entrypoint.execute_sequence` over a `TaskSequence` of several tasks (`Mem`, `runM`, `execSeq`): a consumer later in
  the sequence reads what a producer earlier in the sequence stored in `local`, published or not.
-/
import EkwVerif.Model.Lower

namespace EkwVerif.Runner
open EkwVerif.Lower

inductive Err where
  | typeError        -- malformed edge (param_source)
  | missingInput     -- Memory.provide: dataset neither local nor in shared memory
  | noOutputs        -- empty output_schema
  | callableRaised
  | notIterable      -- several outputs declared, result is not iterable
  | fewerResults     -- zip(strict): result exhausted first
  | moreResults      -- zip(strict): outputs exhausted first
  | notIterator      -- assert_iter_empty(result) on an iterable that is not an iterator
  | unpicklable      -- Memory.handle(publish) on a value cloudpickle refuses
  | corrupted        -- Memory.provide: "internal data corruption" (a buffer is held but the local value is gone)
  deriving DecidableEq, Repr

/-- what the callable does when invoked -/
inductive Result where
  | raises
  | value (v : Val)             -- a plain (non-iterable) value
  | gen (ys : List Val)         -- a generator yielding `ys`
  | genRaise (ys : List Val)    -- a generator yielding `ys` and then raising
  | lst (self : Val) (ys : List Val)  -- an iterable that is not an iterator (list, tuple, str, ndarray): the object
                                      -- itself (as one value) and what iterating it gives
  deriving Repr

/-- the result object seen as one value (single-output path) -/
def Result.asVal : Result → Val
  | .raises => .none
  | .value v => v
  | .gen _ => .obj "generator"
  | .genRaise _ => .obj "generator"
  | .lst self _ => self

/-! ### argument assembly -/

/-- `ensure(l, i)`: pad with `None` so that `l[i] = …` is safe -/
def ensure (l : List Val) (i : Nat) : List Val := l ++ List.replicate (i + 1 - l.length) Val.none

/-- `ensure(args, i); args[i] = v` -/
def setArg (l : List Val) (i : Nat) (v : Val) : List Val := (ensure l i).set i v

/-- the loop over `static_input_ps.items()` -/
def staticArgs (ps : List (Nat × Val)) : List Val := ps.foldl (fun l e => setArg l e.1 e.2) []

/-- one iteration of the loop over `param_source[taskId].items()` -/
def applyUpstream (st : List Val × List (String × Val)) (e : Param × Val) : List Val × List (String × Val) :=
  match e.1 with
  | .ps i => (setArg st.1 i e.2, st.2)
  | .kw k => (st.1, dictSet st.2 k e.2)

/-- `memory.provide` for every upstream parameter, in dict order -/
def provideAll (mem : Ds → Option Val) : List (Param × Ds) → Except Err (List (Param × Val))
  | [] => .ok []
  | (p, ds) :: rest =>
    match mem ds with
    | none => .error .missingInput
    | some v =>
      match provideAll mem rest with
      | .error e => .error e
      | .ok l => .ok ((p, v) :: l)

/-- `args`, `kwargs` handed to the callable -/
def assemble (t : Task) (src : List (Param × Ds)) (mem : Ds → Option Val) :
    Except Err (List Val × List (String × Val)) :=
  match provideAll mem src with
  | .error e => .error e
  | .ok ups => .ok (ups.foldl applyUpstream (staticArgs t.staticPs, dictOfList t.staticKw))

/-! ### output publication -/

/-- one call of `memory.handle` -/
structure Handled where
  output : String
  value : Val
  publish : Bool
  deriving DecidableEq, Repr

def picklable : Val → Bool
  | .obj _ => false
  | _ => true

/-- `zip(outputs, result, strict=True)` with `memory.handle` as loop body. Returns the calls made and the
error that ended the loop, if any. `pub o` = `DatasetId(task, o) in publish`. -/
def bindOutputs (pub : String → Bool) : List String → List Val → List Handled × Option Err
  | [], [] => ([], none)
  | [], _ :: _ => ([], some .moreResults)
  | _ :: _, [] => ([], some .fewerResults)
  | o :: os, y :: ys =>
    if pub o && !picklable y then ([⟨o, y, true⟩], some .unpicklable)
    else
      let r := bindOutputs pub os ys
      (⟨o, y, pub o⟩ :: r.1, r.2)

/-- `assert_iter_empty(result)` after a complete zip over an iterable that is not an iterator raises `TypeError` -/
def afterZipLst : Option Err → Option Err
  | none => some .notIterator
  | e => e

/-- a generator that raises after its last value: where `zip(strict)` would have seen `StopIteration` (both
exhausted, or the result first) the generator's exception propagates instead -/
def afterGenRaise : Option Err → Option Err
  | none => some .callableRaised
  | some .fewerResults => some .callableRaised
  | e => e

/-- the part of `run` from the call on: the callable's behaviour `res` against the declared outputs -/
def store (pub : String → Bool) (outs : List String) (res : Result) : List Handled × Option Err :=
  match res with
  | .raises => ([], some .callableRaised)
  | _ =>
    match outs with
    | [] => ([], some .noOutputs)          -- not reached: checked before the call
    | [o] =>
      let v := res.asVal
      ([⟨o, v, pub o⟩], if pub o && !picklable v then some .unpicklable else none)
    | _ =>
      match res with
      | .raises => ([], some .callableRaised)
      | .value _ => ([], some .notIterable)
      | .gen ys => bindOutputs pub outs ys
      | .genRaise ys => ((bindOutputs pub outs ys).1, afterGenRaise (bindOutputs pub outs ys).2)
      | .lst _ ys => ((bindOutputs pub outs ys).1, afterZipLst (bindOutputs pub outs ys).2)

structure RunOut where
  received : Option (List Val × List (String × Val))     -- what the callable was invoked with (if it was)
  handled : List Handled
  err : Option Err
  deriving Repr

/-- the part of `run` before the call: the arguments, or the error that prevents the call -/
def prepare (tid : String) (t : Task) (edges : List Edge) (mem : Ds → Option Val) :
    Except Err (List Val × List (String × Val)) :=
  match paramSource tid edges with
  | .error _ => .error .typeError
  | .ok src =>
    match assemble t src mem with
    | .error e => .error e
    | .ok recv => if t.outputSchema.isEmpty then .error .noOutputs else .ok recv

/-- `runner.run(tid, …)` for a task `t` of a job with edges `edges`; `mem` = what `Memory.provide` can find;
`res` = what the callable does. -/
def run (tid : String) (t : Task) (edges : List Edge) (mem : Ds → Option Val) (pub : String → Bool)
    (res : Result) : RunOut :=
  match prepare tid t edges mem with
  | .error e => ⟨none, [], some e⟩
  | .ok recv => ⟨some recv, (store pub t.outputSchema res).1, (store pub t.outputSchema res).2⟩

/-- the worker's memory after the calls `hs` of `Memory.handle` for task `tid` (`self.local[outputId] = value`) -/
def memAfter (tid : String) (hs : List Handled) (mem : Ds → Option Val) : Ds → Option Val :=
  fun ds =>
    if ds.task = tid then
      match lastLookup ds.output (hs.map (fun h => (h.output, h.value))) with
      | some v => some v
      | none => mem ds
    else mem ds

/-- the `DatasetPublished` notices the controller receives for this run, in order. A `handle` that fails to
pickle sends nothing. -/
def published (r : List Handled × Option Err) : List String :=
  let hs := match r.2 with
    | some .unpicklable => r.1.dropLast
    | _ => r.1
  (hs.filter (·.publish)).map (·.output)

/-- `is_last_output_of(DatasetId(task, o), job)` for a task with output keys `outs` (declaration order);
`none` = `IndexError` on an empty schema -/
def isLastOutputOf (outs : List String) (o : String) : Option Bool :=
  match outs.getLast? with
  | none => none
  | some l => some (l = o)

/-- `notify.all_outputs_published(state, ds, job)` for one task -- the rule by which `notify` decides that a task is
complete (it replaced `is_last_output_of`, which is still in the source but no longer called by `notify`). `seen` =
`state.published_outputs[task]` (a set, kept as a list without duplicates), `n` = `len(output_schema)`: the output is
added to the set; the answer is whether the set now has as many elements as the schema has keys. -/
def allOutputsPublished (n : Nat) (seen : List String) (o : String) : List String × Bool :=
  ((if seen.contains o then seen else o :: seen),
   (if seen.contains o then seen else o :: seen).length == n)

/-- the answers of `all_outputs_published` to the notices `ns` of one task, delivered in this order, starting from the
set `seen` -/
def completionFlags (n : Nat) : List String → List String → List Bool
  | _, [] => []
  | seen, o :: rest => (allOutputsPublished n seen o).2 :: completionFlags n (allOutputsPublished n seen o).1 rest

/-! ### the stateful `Memory` and `execute_sequence` -/

/-- `runner.memory.Memory` of one worker together with the shared memory of its host. Dicts whose order does not
matter are association lists with the most recent assignment first (`List.lookup` finds it). -/
structure Mem where
  loc : List (Ds × Val)      -- `self.local`
  bufs : List Ds             -- keys of `self.bufs` (buffers fetched from shared memory and still held)
  shm : List (Ds × Val)      -- shared memory (`shm_client.allocate` / `get`)
  deriving Repr

def Mem.empty : Mem := ⟨[], [], []⟩

/-- what `Memory.provide` can find: the local value, else the one in shared memory -/
def Mem.find (m : Mem) (ds : Ds) : Option Val :=
  match m.loc.lookup ds with
  | some v => some v
  | none => m.shm.lookup ds

/-- `Memory.provide(inputId, annotation)` -/
def Mem.provide (m : Mem) (ds : Ds) : Except Err (Mem × Val) :=
  match m.loc.lookup ds with
  | some v => .ok (m, v)
  | none =>
    if m.bufs.contains ds then .error .corrupted
    else
      match m.shm.lookup ds with
      | none => .error .missingInput
      | some v => .ok ({ m with loc := (ds, v) :: m.loc, bufs := ds :: m.bufs }, v)

/-- `Memory.handle(outputId, schema, value, isPublish)`: the local store happens first and unconditionally; the
publication needs a picklable value (otherwise the exception leaves the local value behind) -/
def Mem.handle (m : Mem) (ds : Ds) (v : Val) (publish : Bool) : Mem :=
  if publish && picklable v then { m with loc := (ds, v) :: m.loc, shm := (ds, v) :: m.shm }
  else { m with loc := (ds, v) :: m.loc }

/-- `Memory.flush()`: drop the locals that are not backed by a held buffer -/
def Mem.flush (m : Mem) : Mem := { m with loc := m.loc.filter (fun e => m.bufs.contains e.1) }

/-- `Memory.pop(ds)` (on `DatasetPurge`) -/
def Mem.pop (m : Mem) (ds : Ds) : Mem :=
  { m with loc := m.loc.filter (fun e => e.1 ≠ ds), bufs := m.bufs.filter (fun d => d ≠ ds) }

/-- `memory.provide` for every upstream parameter, in dict order, threading the memory -/
def provideAllM (m : Mem) : List (Param × Ds) → Mem × Except Err (List (Param × Val))
  | [] => (m, .ok [])
  | (p, ds) :: rest =>
    match m.provide ds with
    | .error e => (m, .error e)
    | .ok (m1, v) =>
      match provideAllM m1 rest with
      | (m2, .error e) => (m2, .error e)
      | (m2, .ok l) => (m2, .ok ((p, v) :: l))

/-- the memory after the `Memory.handle` calls `hs` of task `tid` -/
def applyHandled (tid : String) (m : Mem) (hs : List Handled) : Mem :=
  hs.foldl (fun m h => m.handle ⟨tid, h.output⟩ h.value h.publish) m

/-- `runner.run(tid, …)` against the stateful memory -/
def runM (tid : String) (t : Task) (edges : List Edge) (m : Mem) (pub : String → Bool) (res : Result) : Mem × RunOut :=
  match paramSource tid edges with
  | .error _ => (m, ⟨none, [], some .typeError⟩)
  | .ok src =>
    match provideAllM m src with
    | (m1, .error e) => (m1, ⟨none, [], some e⟩)
    | (m1, .ok ups) =>
      if t.outputSchema.isEmpty then (m1, ⟨none, [], some .noOutputs⟩)
      else
        (applyHandled tid m1 (store pub t.outputSchema res).1,
         ⟨some (ups.foldl applyUpstream (staticArgs t.staticPs, dictOfList t.staticKw)),
          (store pub t.outputSchema res).1, (store pub t.outputSchema res).2⟩)

structure SeqOut where
  runs : List (String × RunOut)       -- the tasks that were started, in order
  failed : Option (String × Err)      -- the `TaskFailure(task, detail)` sent, if any
  deriving Repr

/-- `entrypoint.execute_sequence(taskSequence, memory, …)`: the tasks in order; the first exception ends the sequence
with a `TaskFailure` (and skips `memory.flush()`); otherwise `memory.flush()` at the end. `pub ds` = `ds in
taskSequence.publish`. -/
def execSeq (edges : List Edge) (pub : Ds → Bool) : Mem → List (String × Task × Result) → Mem × SeqOut
  | m, [] => (m.flush, ⟨[], none⟩)
  | m, (tid, t, res) :: rest =>
    match runM tid t edges m (fun o => pub ⟨tid, o⟩) res with
    | (m1, r) =>
      match r.err with
      | some e => (m1, ⟨[(tid, r)], some (tid, e)⟩)
      | none =>
        match execSeq edges pub m1 rest with
        | (m2, s) => (m2, ⟨(tid, r) :: s.runs, s.failed⟩)

/-- the same sequence described without the memory's internals: every task runs against what its predecessors in
the sequence left behind (`memAfter`), whether they published it or not -/
def seqSpec (edges : List Edge) (pub : Ds → Bool) : (Ds → Option Val) → List (String × Task × Result) → List (String × RunOut)
  | _, [] => []
  | mem, (tid, t, res) :: rest =>
    match (run tid t edges mem (fun o => pub ⟨tid, o⟩) res).err with
    | some _ => [(tid, run tid t edges mem (fun o => pub ⟨tid, o⟩) res)]
    | none => (tid, run tid t edges mem (fun o => pub ⟨tid, o⟩) res) ::
        seqSpec edges pub (memAfter tid (run tid t edges mem (fun o => pub ⟨tid, o⟩) res).handled mem) rest

end EkwVerif.Runner
