/-
Model of `cascade.executor.runner.runner.run` (after the `fix:` commits of C10), of the part of
`runner.memory.Memory` it uses, and of `controller.notify.is_last_output_of`.

* argument assembly: `ensure`, positional statics, keyword statics, upstream values by position / keyword;
* output publication: one output -> the result itself; several outputs -> `zip(outputs, result, strict=True)`
  over the outputs in DECLARATION order, followed by the two exhaustion checks;
* `Memory.handle` (store locally, publish if asked; publishing needs a picklable value) and `Memory.provide`;
* `is_last_output_of`: the output whose publication the controller takes as completion of the task.
-/
import EkwVerif.Model.Lower

namespace EkwVerif.Runner
open EkwVerif.Lower

inductive Err where
  | typeError        -- malformed edge (param_source)
  | missingInput     -- Memory.provide: dataset neither local nor in shared memory
  | noOutputs        -- empty output_schema
  | callableRaised
  | notIterable      -- several outputs declared, result is not iterable
  | fewerResults     -- zip(strict): result exhausted first
  | moreResults      -- zip(strict): outputs exhausted first
  | notIterator      -- assert_iter_empty(result) on an iterable that is not an iterator
  | unpicklable      -- Memory.handle(publish) on a value cloudpickle refuses
  deriving DecidableEq, Repr

/-- what the callable does when invoked -/
inductive Result where
  | raises
  | value (v : Val)             -- a plain (non-iterable) value
  | gen (ys : List Val)         -- a generator yielding `ys`
  | lst (ys : List Val)         -- an iterable that is not an iterator (list, tuple)
  deriving Repr

/-- the result object seen as one value (single-output path) -/
def Result.asVal : Result → Val
  | .raises => .none
  | .value v => v
  | .gen _ => .obj "generator"
  | .lst _ => .obj "list"

/-! ### argument assembly -/

/-- `ensure(l, i)`: pad with `None` so that `l[i] = …` is safe -/
def ensure (l : List Val) (i : Nat) : List Val := l ++ List.replicate (i + 1 - l.length) Val.none

/-- `ensure(args, i); args[i] = v` -/
def setArg (l : List Val) (i : Nat) (v : Val) : List Val := (ensure l i).set i v

/-- the loop over `static_input_ps.items()` -/
def staticArgs (ps : List (Nat × Val)) : List Val := ps.foldl (fun l e => setArg l e.1 e.2) []

/-- one iteration of the loop over `param_source[taskId].items()` -/
def applyUpstream (st : List Val × List (String × Val)) (e : Param × Val) : List Val × List (String × Val) :=
  match e.1 with
  | .ps i => (setArg st.1 i e.2, st.2)
  | .kw k => (st.1, dictSet st.2 k e.2)

/-- `memory.provide` for every upstream parameter, in dict order -/
def provideAll (mem : Ds → Option Val) : List (Param × Ds) → Except Err (List (Param × Val))
  | [] => .ok []
  | (p, ds) :: rest =>
    match mem ds with
    | none => .error .missingInput
    | some v =>
      match provideAll mem rest with
      | .error e => .error e
      | .ok l => .ok ((p, v) :: l)

/-- `args`, `kwargs` handed to the callable -/
def assemble (t : Task) (src : List (Param × Ds)) (mem : Ds → Option Val) :
    Except Err (List Val × List (String × Val)) :=
  match provideAll mem src with
  | .error e => .error e
  | .ok ups => .ok (ups.foldl applyUpstream (staticArgs t.staticPs, dictOfList t.staticKw))

/-! ### output publication -/

/-- one call of `memory.handle` -/
structure Handled where
  output : String
  value : Val
  publish : Bool
  deriving DecidableEq, Repr

def picklable : Val → Bool
  | .obj _ => false
  | _ => true

/-- `zip(outputs, result, strict=True)` with `memory.handle` as loop body. Returns the calls made and the
error that ended the loop, if any. `pub o` = `DatasetId(task, o) in publish`. -/
def bindOutputs (pub : String → Bool) : List String → List Val → List Handled × Option Err
  | [], [] => ([], none)
  | [], _ :: _ => ([], some .moreResults)
  | _ :: _, [] => ([], some .fewerResults)
  | o :: os, y :: ys =>
    if pub o && !picklable y then ([⟨o, y, true⟩], some .unpicklable)
    else
      let r := bindOutputs pub os ys
      (⟨o, y, pub o⟩ :: r.1, r.2)

/-- `assert_iter_empty(result)` after a complete zip over an iterable that is not an iterator raises `TypeError` -/
def afterZipLst : Option Err → Option Err
  | none => some .notIterator
  | e => e

/-- the part of `run` from the call on: the callable's behaviour `res` against the declared outputs -/
def store (pub : String → Bool) (outs : List String) (res : Result) : List Handled × Option Err :=
  match res with
  | .raises => ([], some .callableRaised)
  | _ =>
    match outs with
    | [] => ([], some .noOutputs)          -- not reached: checked before the call
    | [o] =>
      let v := res.asVal
      ([⟨o, v, pub o⟩], if pub o && !picklable v then some .unpicklable else none)
    | _ =>
      match res with
      | .raises => ([], some .callableRaised)
      | .value _ => ([], some .notIterable)
      | .gen ys => bindOutputs pub outs ys
      | .lst ys => ((bindOutputs pub outs ys).1, afterZipLst (bindOutputs pub outs ys).2)

structure RunOut where
  received : Option (List Val × List (String × Val))     -- what the callable was invoked with (if it was)
  handled : List Handled
  err : Option Err
  deriving Repr

/-- the part of `run` before the call: the arguments, or the error that prevents the call -/
def prepare (tid : String) (t : Task) (edges : List Edge) (mem : Ds → Option Val) :
    Except Err (List Val × List (String × Val)) :=
  match paramSource tid edges with
  | .error _ => .error .typeError
  | .ok src =>
    match assemble t src mem with
    | .error e => .error e
    | .ok recv => if t.outputSchema.isEmpty then .error .noOutputs else .ok recv

/-- `runner.run(tid, …)` for a task `t` of a job with edges `edges`; `mem` = what `Memory.provide` can find;
`res` = what the callable does. -/
def run (tid : String) (t : Task) (edges : List Edge) (mem : Ds → Option Val) (pub : String → Bool)
    (res : Result) : RunOut :=
  match prepare tid t edges mem with
  | .error e => ⟨none, [], some e⟩
  | .ok recv => ⟨some recv, (store pub t.outputSchema res).1, (store pub t.outputSchema res).2⟩

/-- the worker's memory after the calls `hs` of `Memory.handle` for task `tid` (`self.local[outputId] = value`) -/
def memAfter (tid : String) (hs : List Handled) (mem : Ds → Option Val) : Ds → Option Val :=
  fun ds =>
    if ds.task = tid then
      match lastLookup ds.output (hs.map (fun h => (h.output, h.value))) with
      | some v => some v
      | none => mem ds
    else mem ds

/-- the `DatasetPublished` notices the controller receives for this run, in order. A `handle` that fails to
pickle sends nothing. -/
def published (r : List Handled × Option Err) : List String :=
  let hs := match r.2 with
    | some .unpicklable => r.1.dropLast
    | _ => r.1
  (hs.filter (·.publish)).map (·.output)

/-- `is_last_output_of(DatasetId(task, o), job)` for a task with output keys `outs` (declaration order);
`none` = `IndexError` on an empty schema -/
def isLastOutputOf (outs : List String) (o : String) : Option Bool :=
  match outs.getLast? with
  | none => none
  | some l => some (l = o)

end EkwVerif.Runner
