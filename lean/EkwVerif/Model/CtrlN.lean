/-
Non-atomic task execution, layered over the system of Model/Ctrl.lean.

In `Env` (Model/Ctrl.lean) the body of a task runs in ONE environment step that produces all its outputs and
their notices. A real task body (a generator for multi-output tasks, executor/runner) publishes its outputs one
at a time, in declaration order, while it is still running and still holding its inputs; controller rounds and
other environment steps interleave with it. This layer makes that visible without touching the base system:

  * `start w t`  = the base step `env (run w t)` — inputs are read, all output VALUES are fixed — after which the
                   outputs of `t` are HIDDEN: computed, not yet published;
  * `yield t`    = the body publishes its next output: the smallest hidden output of `t` becomes visible;
  * `base st`    = every other base step, restricted to what can physically happen: a batch of events can be received
                   only if none of them is the notice of a hidden dataset, a transfer/fetch can be performed only for
                   a visible dataset, a task can start only if its inputs are visible.

A task is RUNNING while it has a hidden output. Forgetting `hidden`, every run of this system is a run of the base
system (`Lemmas/CtrlN.lean: reachableN_sys`), so every invariant of the base system holds here; what the layer adds
is the statement the base system cannot even express: no dataset is purged while a task that consumes it is running.
-/
import EkwVerif.Model.Ctrl

namespace EkwVerif.Ctrl

abbrev Hidden := Ds → Bool

/-- after `start`: every output of `t` is hidden -/
def hideOutputs (j : Job) (hd : Hidden) (t : Task) : Hidden :=
  fun ds => (ds.task == t && decide (ds.out < j.nOut t)) || hd ds

/-- the next output a running body publishes (outputs are published in index = declaration order) -/
def nextHidden (j : Job) (hd : Hidden) (t : Task) : Option Nat :=
  (List.range (j.nOut t)).find? (fun k => hd ⟨t, k⟩)

def isRunning (j : Job) (hd : Hidden) (t : Task) : Bool := (nextHidden j hd t).isSome

def evVisible (hd : Hidden) : Event → Bool
  | .pubW _ ds => !hd ds
  | .pubT _ ds => !hd ds
  | .payload ds _ => !hd ds

def ioVisible (hd : Hidden) : IO → Bool
  | .transmit ds _ _ => !hd ds
  | .fetch ds _ => !hd ds

structure SysN where
  sys : Sys
  hidden : Hidden

def SysN.init (j : Job) (cl : Cluster) : SysN := { sys := Sys.init j cl, hidden := fun _ => false }

def SysN.running (j : Job) (x : SysN) (t : Task) : Bool := isRunning j x.hidden t

inductive StepN
  | start (w : Worker) (t : Task)
  | yield (t : Task)
  | base (st : Step)
deriving Repr

/-- which base steps can physically happen given what is hidden -/
def baseAllowed (x : SysN) : Step → Bool
  | .env (.run _ _) => false                       -- bodies start through `start`
  | .env (.io i) => match x.sys.env.outstanding[i]? with
    | some o => ioVisible x.hidden o
    | none => true
  | .recv evs => evs.all (evVisible x.hidden)
  | _ => true

def stepN (f : Sem) (j : Job) (cl : Cluster) (x : SysN) : StepN → Option SysN
  | .start w t =>
    if (j.inputs t).any x.hidden then none
    else (step f j cl x.sys (.env (.run w t))).map (fun s' => { sys := s', hidden := hideOutputs j x.hidden t })
  | .yield t =>
    match nextHidden j x.hidden t with
    | none => none
    | some k => some { x with hidden := upd x.hidden ⟨t, k⟩ false }
  | .base st =>
    if baseAllowed x st then (step f j cl x.sys st).map (fun s' => { x with sys := s' }) else none

inductive ReachableN (f : Sem) (j : Job) (cl : Cluster) : SysN → Prop
  | init : ReachableN f j cl (SysN.init j cl)
  | step (x x' : SysN) (st : StepN) : ReachableN f j cl x → stepN f j cl x st = some x' → ReachableN f j cl x'

/-- run a list of steps, stopping at the first one that is not enabled (driver, examples) -/
def runStepsN (f : Sem) (j : Job) (cl : Cluster) : SysN → List StepN → Option SysN
  | x, [] => some x
  | x, st :: rest => match stepN f j cl x st with
    | none => none
    | some x' => runStepsN f j cl x' rest

end EkwVerif.Ctrl
