/-
What `earthkit.workflows.backends.<op>(*args, **kw)` DOES on typed, possibly labelled
arguments: which back end is chosen, when it raises and for which reason (an error token per
cause, not one collapsed "error"), in which dtype NumPy computes the result, the value
(`sem` of Model/Backend.lean with the arithmetic of that dtype) and the coordinate labels an
xarray result carries.  Driver level: no theorem is stated about this file; it is what the
correspondence check compares with the real back ends, case by case.

Conventions of the harness that this file relies on:
* all array arguments of one call have the same dtype, any of NumPy's 14 numeric dtypes (a Dataset is
  sent variable by variable); values of float16 reductions, float16 / float32 `pow` and complex data are
  not compared (see `DType.isFl`);
* the dimensions of an xarray argument of rank r in a call of maximal rank R are named
  d(R−r) … d(R−1) (right-aligned), so that xarray's broadcasting BY NAME and NumPy's BY POSITION
  mean the same; results are compared after sorting the d-dimensions by number;
* `labels` of an argument: per axis, the integer coordinate labels or none.
-/
import EkwVerif.Model.Backend
import EkwVerif.Model.F64

namespace EkwVerif.Backend

inductive DType where
  | f64 | i64 | i32 | u8 | u64 | bool
  -- second audit: the rest of NumPy's numeric dtypes
  | i8 | i16 | u16 | u32 | f32 | f16 | c64 | c128
  deriving DecidableEq, Repr

namespace DType
/-- inexact dtypes: their data travels in `flts` (binary32 / binary16 values are doubles; of a complex
number only the real part travels).  Only for `f64` is the arithmetic of `Alg.f64` the dtype's own: for the
others the VALUE this model computes is meaningful only where no arithmetic happens (min, max, stack, concat,
take of real data) or where one correctly rounded binary64 operation followed by rounding to the narrower
format is the narrower format's own operation (+, −, ×, ÷; the harness rounds); result dtype, shape, error
cause and labels are modelled for all of them.  (`f32` / `f16`: see `Alg.f32`, `Alg.f16` in Model/F64.lean.) -/
def isFl : DType → Bool
  | .f64 | .f32 | .f16 | .c64 | .c128 => true
  | _ => false

def isComplex : DType → Bool
  | .c64 | .c128 => true
  | _ => false

/-- dtype of `var` / `std` of data of an inexact dtype (real even for complex data) -/
def realOf : DType → DType
  | .c64 => .f32
  | .c128 => .f64
  | d => d
end DType

/-- container of an argument: ndarray, DataArray, (a variable of a) Dataset, Python scalar -/
inductive Cont where
  | np | da | ds | pyInt | pyFloat
  deriving DecidableEq, Repr

abbrev Labels := List (Option (List Int))

structure TArr where
  cont : Cont
  dt : DType
  ints : Arr Int := Arr.zero
  flts : Arr F64 := Arr.zero
  labels : Labels := []

namespace TArr
def isF (t : TArr) : Bool := t.dt.isFl
def rank (t : TArr) : Nat := if t.isF then t.flts.rank else t.ints.rank
def shape (t : TArr) : List Nat := if t.isF then t.flts.shape else t.ints.shape
def isPy (t : TArr) : Bool := t.cont == .pyInt || t.cont == .pyFloat
def isXr (t : TArr) : Bool := t.cont == .da || t.cont == .ds
end TArr

def Arr.mapVals {α β : Type} (f : α → β) (x : Arr α) : Arr β := { rank := x.rank, ext := x.ext, get := fun i => f (x.get i) }

/-- which keyword carried the axis -/
inductive Style where
  | none | axis | dim
  deriving DecidableEq

/-- how `take` got its `dim` -/
inductive DimKind where
  | absent | pyInt | npInt | name
  deriving DecidableEq

structure Call where
  op : Op
  kw : Kw := {}
  style : Style := .none
  dimKind : DimKind := .pyInt
  /-- `method="sel"`: `kw.index` holds labels -/
  sel : Bool := false
  /-- `stack(dim=<a dimension the arguments already have>)` -/
  stackDimExists : Bool := false
  /-- `concat(dim=<not a dimension of any argument>)` -/
  concatDimMissing : Bool := false

/-! ### NumPy's order of additions in a contiguous 1-D `add.reduce` (pairwise summation):
fewer than 8 elements: left to right; 8 … 128: eight running sums, combined as
`((r0+r1)+(r2+r3))+((r4+r5)+(r6+r7))`, then the remainder left to right.  Only float64 can tell
the difference; it applies to a reduction over ALL elements of one array. -/

section nporder
variable {α : Type}

def addLanes (A : Alg α) : List α → List α → List α
  | r :: rs, x :: xs => A.add r x :: addLanes A rs xs
  | rs, _ => rs

def lanesLoop (A : Alg α) : Nat → List α → List α → List α × List α
  | 0, r, rest => (r, rest)
  | n + 1, r, rest => if rest.length < 8 then (r, rest) else lanesLoop A n (addLanes A r (rest.take 8)) (rest.drop 8)

def vsumNp (A : Alg α) (xs : List α) : α :=
  if xs.length < 8 then vsum A xs else
  let (r, rest) := lanesLoop A xs.length (xs.take 8) (xs.drop 8)
  match r with
  | [r0, r1, r2, r3, r4, r5, r6, r7] =>
    rest.foldl A.add (A.add (A.add (A.add r0 r1) (A.add r2 r3)) (A.add (A.add r4 r5) (A.add r6 r7)))
  | _ => vsum A xs

def vmeanNp (A : Alg α) (xs : List α) : α := A.div (vsumNp A xs) (A.ofNat xs.length)
def vvarNp (A : Alg α) (xs : List α) : α :=
  vmeanNp A (xs.map fun x => A.mul (A.sub x (vmeanNp A xs)) (A.sub x (vmeanNp A xs)))
end nporder

/-! ### shapes, broadcasting, labels -/

def maxRank (args : List TArr) : Nat := args.foldl (fun m t => Nat.max m t.rank) 0

/-- extent of global (right-aligned) axis `g` in an argument of shape `sh`, if it has that axis -/
def extAt (R : Nat) (sh : List Nat) (g : Nat) : Option Nat :=
  let off := R - sh.length
  if g < off then none else sh[g - off]?

def labelsAt (R : Nat) (t : TArr) (g : Nat) : Option (List Int) :=
  let off := R - t.rank
  if g < off then none else (t.labels[g - off]?).join

/-- xarray's broadcasting by dimension name (right-aligned names): every argument that has the
dimension must have the same extent (an extent 1 does NOT stretch) -/
def xrShape (R : Nat) (shapes : List (List Nat)) : Option (List Nat) :=
  (List.range R).foldr (fun g acc =>
    let es := shapes.filterMap (fun sh => extAt R sh g)
    match es, acc with
    | e :: rest, some l => if rest.all (· == e) then some (e :: l) else none
    | _, _ => none) (some [])

/-- labels of different arguments along one dimension agree (`join="exact"`) -/
def alignOk (R : Nat) (args : List TArr) : Bool :=
  (List.range R).all fun g =>
    match args.filterMap (fun t => labelsAt R t g) with
    | [] => true
    | l :: rest => rest.all (· == l)

/-- labels of the result of an elementwise combination: per dimension, those of the first
argument that has any -/
def mergeLabels (R : Nat) (args : List TArr) : Labels :=
  (List.range R).map fun g => (args.filterMap (fun t => labelsAt R t g)).head?

def axisOk (a : Int) (n : Nat) : Bool := decide (-(n : Int) ≤ a) && decide (a < n)

def listDel {β : Type} (l : List β) (a : Nat) : List β := l.take a ++ l.drop (a + 1)
def listIns {β : Type} (l : List β) (a : Nat) (v : β) : List β := l.take a ++ v :: l.drop a

def distinct : List Nat → Bool
  | [] => true
  | a :: as => !as.contains a && distinct as

/-! ### dtypes -/

def algOf : DType → Alg Int
  | .bool => Alg.bool
  | .i64 => Alg.wrap 64 true
  | .i32 => Alg.wrap 32 true
  | .u8 => Alg.wrap 8 false
  | .u64 => Alg.wrap 64 false
  | .i8 => Alg.wrap 8 true
  | .i16 => Alg.wrap 16 true
  | .u16 => Alg.wrap 16 false
  | .u32 => Alg.wrap 32 false
  | _ => Alg.wrap 64 true      -- (inexact dtypes: not used)

def inRange (dt : DType) (v : Int) : Bool :=
  match dt with
  | .bool => v == 0 || v == 1
  | .i64 => decide (-(2:Int)^63 ≤ v) && decide (v < (2:Int)^63)
  | .i32 => decide (-(2:Int)^31 ≤ v) && decide (v < (2:Int)^31)
  | .u8 => decide (0 ≤ v) && decide (v < 256)
  | .u64 => decide (0 ≤ v) && decide (v < (2:Int)^64)
  | .i8 => decide (-(128:Int) ≤ v) && decide (v < 128)
  | .i16 => decide (-(2:Int)^15 ≤ v) && decide (v < (2:Int)^15)
  | .u16 => decide (0 ≤ v) && decide (v < (2:Int)^16)
  | .u32 => decide (0 ≤ v) && decide (v < (2:Int)^32)
  | _ => true

def isFloatOpB : Op → Bool
  | .mean | .std | .var | .divide => true
  | _ => false

/-- dtype in which NumPy accumulates `sum` / `prod` of integers -/
def accDT : DType → DType
  | .u8 | .u16 | .u32 | .u64 => .u64
  | .bool | .i8 | .i16 | .i32 | .i64 => .i64
  | d => d                       -- inexact dtypes accumulate in themselves (float32 sums are float32)

/-- result dtype of a call whose array arguments have dtype `dt` (`anyPyF`: a Python float is among the
operands of a binary operation; under NumPy 2 promotion it is "weak": it turns integers into float64 and
leaves every inexact dtype as it is) -/
def resDT (op : Op) (dt : DType) (anyPyF : Bool) : DType :=
  if dt.isFl then (if op == .var || op == .std then dt.realOf else dt)
  else if isFloatOpB op || anyPyF then .f64
  else if op == .sum || op == .prod then accDT dt else dt

def isFloatOp : Op → Bool
  | .mean | .std | .var | .divide => true
  | _ => false

def isReduction : Op → Bool
  | .mean | .std | .max | .min | .sum | .prod | .var => true
  | _ => false

/-! ### the call -/

inductive Backend where
  | np | xr
  deriving DecidableEq

def backendOf (args : List TArr) : Backend :=
  match args with
  | t :: _ => if t.isXr then .xr else .np
  | [] => .np

/-- value of the call in one arithmetic (arguments already converted to the compute dtype and,
where the back end broadcasts, broadcast); `flatNp`: single-array reduction over all elements
of float64 data, where NumPy's pairwise order matters -/
def compute {α : Type} [Inhabited α] (A : Alg α) (c : Call) (args : List (Arr α)) : Arr α :=
  match c.op, c.kw.axis, args with
  | .sum, .none, [x] => reduceAll (vsumNp A) x
  | .mean, .none, [x] => reduceAll (vmeanNp A) x
  | .var, .none, [x] => reduceAll (vvarNp A) x
  | .std, .none, [x] => reduceAll (vvarNp A) x
  | op, _, args => sem A id c.kw op args

structure Result where
  dt : DType
  ints : Arr Int := Arr.zero
  flts : Arr F64 := Arr.zero
  labels : Option Labels := none

def boolToInt (b : Bool) : Int := if b then 1 else 0

/-- shape-level reasons to raise, in the order the code meets them; `none`: a value is returned -/
def errorOf (c : Call) (args : List TArr) : Option String :=
  let be := backendOf args
  let k := args.length
  let R := maxRank args
  let arrs := args.filter (fun t => !t.isPy)
  let shapes := arrs.map TArr.shape
  let anyXr := args.any TArr.isXr
  let anyNp := args.any (fun t => t.cont == .np)
  let dt := (arrs.head?.map (·.dt)).getD .i64
  -- fixed arity
  if (c.op.arity == some 2 && k != 2) || (c.op.arity == some 1 && k != 1) || k == 0 then some "arity" else
  -- mixed containers: the variadic functions of either back end accept only their own kind
  if c.op.arity == none && ((be == .np && anyXr) || (be == .xr && anyNp)) then some "mixed" else
  if isReduction c.op then
    match args with
    | [x] =>
      if x.cont == .ds && c.style == .axis then some "ds-axis" else
      let axesOk := match c.kw.axis with
        | .none => true
        | .one a => axisOk a x.rank
        | .many as => as.all (fun a => axisOk a x.rank) && distinct (as.map fun a => normAx a x.rank)
      if !axesOk then some "axis" else
      let red : List Nat := match c.kw.axis with
        | .none => x.shape
        | .one a => [x.shape.getD (normAx a x.rank) 1]
        | .many as => as.map fun a => x.shape.getD (normAx a x.rank) 1
      if (c.op == .min || c.op == .max) && red.any (· == 0) then some "empty" else none
    | _ =>
      if be == .np then
        (match shapes with
         | s :: rest => if rest.all (· == s) then none else some "shape"
         | [] => none)
      else if !alignOk R args then some "align"
      else if (xrShape R shapes).isNone then some "shape" else none
  else match c.op with
  | .stack =>
    if be == .xr && c.stackDimExists then some "dim-exists" else
    if be == .np then
      (match bshape shapes with
       | none => some "shape"
       | some sh => if axisOk (axisOne c.kw.axis) (sh.length + 1) then none else some "axis")
    else if !alignOk R args then some "align"
    else if (xrShape R shapes).isNone then some "shape" else none
  | .concat =>
    if be == .xr && c.concatDimMissing then some "dim-missing" else
    (match args with
     | x :: _ =>
       let r := x.rank
       if !arrs.all (fun t => t.rank == r) then some "shape" else
       if !axisOk (axisOne c.kw.axis) r then some "axis" else
       let a := normAx (axisOne c.kw.axis) r
       let offAxisOk := arrs.all fun t => (List.range r).all fun g => g == a || t.shape.getD g 0 == x.shape.getD g 0
       if be == .np then (if offAxisOk then none else some "shape") else
       let pres := arrs.map fun t => ((t.labels[a]?).join).isSome
       if pres.any id && !pres.all id then some "coords-presence" else
       let off := arrs.map fun t => { t with labels := t.labels.set a none }
       if !alignOk r off then some "align" else
       if offAxisOk then none else some "shape"
     | [] => some "arity")
  | .take =>
    (match args with
     | [x] =>
       if c.dimKind == .absent then some "type" else
       if be == .np && c.dimKind == .name then some "dim-int" else
       let d := axisOne c.kw.axis
       if !axisOk d x.rank then some "axis" else
       let a := normAx d x.rank
       let n := x.shape.getD a 0
       if c.sel then
         (match (x.labels[a]?).join with
          | none => some "no-labels"
          | some ls =>
            let found := match c.kw.index with
              | .int j => ls.contains j
              | .seq js => js.all ls.contains
            if found then none else some "key")
       else
         let ok := match c.kw.index with
           | .int j => axisOk j n
           | .seq js => js.all fun j => axisOk j n
         if ok then none else some "index"
     | _ => some "arity")
  | _ =>
    -- the five binary operations
    (match args with
     | [x, y] =>
       if x.isPy && y.isPy then some "arity" else
       -- dtype rules (NumPy: type resolution and the conversion of a Python scalar come before broadcasting, the
       -- negative-power check inside the loop after it; xarray aligns and broadcasts before it calls NumPy)
       let anyPyF := args.any (·.cont == .pyFloat)
       let pyOver := args.any fun t => t.cont == .pyInt && !dt.isFl && !isFloatOp c.op
                        && !anyPyF && !inRange dt (t.ints.get (fun _ => 0))
       let typeErr : Option String :=
         if dt == .bool && c.op == .subtract && !anyPyF then some "type"
         else if pyOver then some "overflow" else none
       let negExp := c.op == .pow && !dt.isFl && !anyPyF && !y.dt.isFl && y.ints.elems.any (· < 0)
       let shapeErr : Option String :=
         if anyXr then
           (if !alignOk R args then some "align"
            else if (xrShape R shapes).isNone then some "shape" else none)
         else if (bshape shapes).isNone then some "shape" else none
       let first := if anyXr then shapeErr.orElse (fun _ => typeErr) else typeErr.orElse (fun _ => shapeErr)
       first.orElse (fun _ => if negExp then some "negpow" else none)
     | _ => some "arity")

/-- labels of the result (xarray containers only) -/
def resultLabels (c : Call) (args : List TArr) : Option Labels :=
  if !args.any TArr.isXr then none else
  let R := maxRank args
  if isReduction c.op then
    match args with
    | [x] =>
      (match c.kw.axis with
       | .none => some []
       | .one a => some (listDel x.labels (normAx a x.rank))
       | .many as =>
         let axes := as.map fun a => normAx a x.rank
         some (((List.range x.rank).filter fun g => !axes.contains g).map fun g => (x.labels[g]?).join))
    | _ => some (mergeLabels R args)
  else match c.op with
  | .stack => some (listIns (mergeLabels R args) (normAx (axisOne c.kw.axis) (R + 1)) none)
  | .concat =>
    (match args with
     | x :: _ =>
       let a := normAx (axisOne c.kw.axis) x.rank
       let along : Option (List Int) :=
         if args.all (fun t => ((t.labels[a]?).join).isSome) then some (args.flatMap fun t => ((t.labels[a]?).join).getD []) else none
       let off := args.map fun t => { t with labels := t.labels.set a none }
       some ((mergeLabels x.rank off).set a along)
     | [] => none)
  | .take =>
    (match args with
     | [x] =>
       let a := normAx (axisOne c.kw.axis) x.rank
       (match c.kw.index with
        | .int _ => some (listDel x.labels a)
        | .seq js =>
          let n := x.shape.getD a 0
          some (x.labels.set a (((x.labels[a]?).join).map fun ls =>
            if c.sel then js else js.map fun j => ls.getD (normAx j n) 0)))
     | _ => none)
  | _ => some (mergeLabels R args)

/-- `method="sel"`: labels → positions -/
def selToIsel (c : Call) (x : TArr) : Call :=
  if !c.sel then c else
  let a := normAx (axisOne c.kw.axis) x.rank
  let ls := ((x.labels[a]?).join).getD []
  let pos (j : Int) : Int := (ls.idxOf j : Nat)
  { c with sel := false, kw := { c.kw with index := match c.kw.index with | .int j => .int (pos j) | .seq js => .seq (js.map pos) } }

/-- broadcasting pre-pass of the value computation: NumPy rules for `stack` and the binary
operations, and (xarray only: by name, which the right-aligned names make the same thing) for
the reductions of several arguments -/
def prepArgs {α : Type} [Inhabited α] (c : Call) (be : Backend) (args : List (Arr α)) : List (Arr α) :=
  if c.op == .stack || c.op.arity == some 2 || (isReduction c.op && be == .xr && args.length ≥ 2) then broadcastArgs args else args

/-- the whole call: error token or typed result -/
def run (c : Call) (args : List TArr) : Except String Result :=
  match errorOf c args with
  | some e => .error e
  | none =>
    let be := backendOf args
    let arrs := args.filter (fun t => !t.isPy)
    let dt := (arrs.head?.map (·.dt)).getD .i64
    let anyPyF := args.any (·.cont == .pyFloat)
    let c' := match c.op, args with
      | .take, [x] => selToIsel c x
      | _, _ => c
    let labels := resultLabels c args
    -- NumPy 2 promotion: a Python scalar is "weak" -- next to a float32 / float16 array it is converted to that dtype first
    let toDt : F64 → F64 := if !dt.isFl then id else match dt with | .f32 => F64.to32 | .f16 => F64.to16 | _ => id
    let asF (t : TArr) : Arr F64 :=
      if t.isPy then Arr.mapVals toDt (if t.isF then t.flts else Arr.mapVals F64.ofInt t.ints)
      else if t.isF then t.flts else Arr.mapVals F64.ofInt t.ints
    -- xarray: an EMPTY list of dimensions is "nothing to do": the array comes back as it is, dtype included
    -- (NumPy's axis=() still converts: mean -> float64, sum of int32 -> int64; known finding)
    let xrNoop := match c.kw.axis, args with
      | .many [], [x] => be == Backend.xr && isReduction c.op && c.op != Op.std && c.op != Op.var && x.isXr
      | _, _ => false
    if xrNoop then
      match args with
      | [x] => .ok { dt := x.dt, ints := x.ints, flts := x.flts, labels := labels }
      | _ => .error "arity"
    else if dt.isFl || isFloatOp c.op || anyPyF then
      -- the arithmetic of the dtype the computation runs in (complex data is opaque: only its real part travels)
      let A : Alg F64 := if !dt.isFl then Alg.f64 else match dt with | .f32 => Alg.f32 | .f16 => Alg.f16 | _ => Alg.f64
      .ok { dt := resDT c.op dt anyPyF, flts := compute A c' (prepArgs c' be (args.map asF)), labels := labels }
    else
      let cdt := resDT c.op dt anyPyF
      .ok { dt := cdt, ints := compute (algOf cdt) c' (prepArgs c' be (args.map (·.ints))), labels := labels }

def Result.toTArr (r : Result) (cont : Cont) : TArr :=
  { cont := cont, dt := r.dt, ints := r.ints, flts := r.flts, labels := r.labels.getD [] }

/-- container of a result: labelled as soon as one argument is -/
def resultCont (args : List TArr) : Cont :=
  if args.any (·.cont == .ds) then .ds else if args.any (·.cont == .da) then .da else .np

/-- reduce the batches (`literal = false`: a batch of one array is passed through, as fluent
`reduce` does; `literal = true`: every batch goes through `f`, as the property text reads) -/
def runBatches (c : Call) (literal : Bool) : List Nat → List TArr → List TArr → Except String (List TArr)
  | [], _, acc => .ok acc.reverse
  | n :: ns, rest, acc =>
    match rest.take n, literal with
    | [x], false => runBatches c literal ns (rest.drop n) (x :: acc)
    | b, _ =>
      match run c b with
      | .error e => .error e
      | .ok r => runBatches c literal ns (rest.drop n) (r.toTArr (resultCont b) :: acc)

/-- batched evaluation: reduce the batches, then reduce the results -/
def runBatched (c : Call) (literal : Bool) (sizes : List Nat) (args : List TArr) : Except String Result :=
  match runBatches c literal sizes args [] with
  | .error e => .error e
  | .ok mids => run c mids

end EkwVerif.Backend
