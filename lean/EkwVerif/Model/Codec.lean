/-
Model of the hand-written wire format of `cascade.shm.api` (src/cascade/shm/api.py).

A *schema interpreter*: the per-class `ser`/`deser` methods of api.py are straight-line
sequences of three primitives

  * `n.to_bytes(w, "big"|"little")`            / `int.from_bytes(data[:w], ...)`, `data[w:]`
  * `ser_str(s)` = `len(s).to_bytes(lw, e) + s.encode("ascii")` / `deser_str`
  * `enum.value.to_bytes(w, e)`                / `EnumClass(int.from_bytes(data[:w], e))`

and the module-level `ser`/`deser` prepend / strip the one-byte class tag of `b2c`/`c2b`.
The translator (`harness/ekw/props/c17.py::translate`) reads api.py with `ast` and emits the
sequences as a `Table` (Gen/ShmApi.lean); this file gives a `Table` its meaning.

What is mirrored exactly (and compared byte for byte with the real code on every run):
  * evaluation order of the `+` chains (the first failing field decides the error),
  * `OverflowError` for negative or too wide integers and for over-long strings,
    `UnicodeEncodeError`/`UnicodeDecodeError` for non-ASCII, `AttributeError`/`TypeError` for a value of
    the wrong type, `ValueError` for an unknown enum number, `KeyError` for an unknown tag / class,
  * the *lenient* decoder: slices shorter than requested are accepted (Python slicing never
    raises), trailing bytes are ignored.

The transport (shm/client.py `sock.send` + `sock.recv(N)`, shm/server.py `sock.recvfrom(N)` + `sock.sendto`): one message =
one UDP datagram. `transport`: the kernel refuses a datagram above `maxDatagram` bytes at the SENDER (EMSGSIZE); a datagram
longer than the receiver's buffer `N` is cut to `N` bytes without any error. `wire` = encode, transport, decode; the buffer
sizes are read from the two source files by the translator (Gen/ShmApi.lean: `shmServerRecv`, `shmClientRecv`).

Bytes are `List Nat` (every element produced by the encoder is `< 256`), strings are lists of code
points, integers are `Int` (Python ints are unbounded and may be negative).
No Mathlib.
-/

namespace EkwVerif.Codec

abbrev Bytes := List Nat

inductive Endian
  | big | little
  deriving DecidableEq, Repr

/-- The small enum Python exceptions are mapped to. -/
inductive Err
  | overflow   -- OverflowError (int.to_bytes)
  | unicode    -- UnicodeEncodeError / UnicodeDecodeError
  | type       -- AttributeError / TypeError: value of the wrong Python type, missing attribute/argument
  | value      -- ValueError: number that is no member of the enum
  | key        -- KeyError: class not in c2b / tag not in b2c
  | arity      -- (model only) number of values differs from the number of declared fields
  deriving DecidableEq, Repr

inductive Kind
  | int (w : Nat) (e : Endian)
  | str (lw : Nat) (e : Endian)
  | enum (w : Nat) (e : Endian) (allowed : List Nat)
  deriving DecidableEq, Repr

inductive Val
  | int (n : Int)
  | str (cs : List Nat)
  deriving DecidableEq, Repr

/-! ### integers -/

/-- little endian digits, exactly `w` of them (`n.to_bytes(w, "little")` when `n < 256^w`) -/
def toLE : Nat → Nat → Bytes
  | 0, _ => []
  | w + 1, n => (n % 256) :: toLE w (n / 256)

/-- big endian digits, exactly `w` of them -/
def toBE : Nat → Nat → Bytes
  | 0, _ => []
  | w + 1, n => toBE w (n / 256) ++ [n % 256]

def fromLE : Bytes → Nat
  | [] => 0
  | b :: bs => b + 256 * fromLE bs

def fromBE (bs : Bytes) : Nat := bs.foldl (fun a b => a * 256 + b) 0

def natToBytes : Endian → Nat → Nat → Bytes
  | .big, w, n => toBE w n
  | .little, w, n => toLE w n

def bytesToNat : Endian → Bytes → Nat
  | .big, bs => fromBE bs
  | .little, bs => fromLE bs

/-- `n.to_bytes(w, e)` -/
def encodeInt (w : Nat) (e : Endian) (n : Int) : Except Err Bytes :=
  if 0 ≤ n ∧ n.toNat < 256 ^ w then .ok (natToBytes e w n.toNat) else .error .overflow

def isAscii (cs : List Nat) : Bool := cs.all (fun c => decide (c < 128))

/-! ### one field -/

def encodeVal : Kind → Val → Except Err Bytes
  | .int w e, .int n => encodeInt w e n
  | .str lw e, .str cs =>
    -- `len(s).to_bytes(lw, e) + s.encode("ascii")`: the length is converted first
    if cs.length < 256 ^ lw then
      if isAscii cs then .ok (natToBytes e lw cs.length ++ cs) else .error .unicode
    else .error .overflow
  | .enum w e allowed, .int n =>
    -- a number that is no member cannot be an instance of the Enum class: `.value` fails
    if 0 ≤ n ∧ n.toNat ∈ allowed then encodeInt w e n else .error .type
  | _, _ => .error .type

def decodeVal : Kind → Bytes → Except Err (Val × Bytes)
  | .int w e, bs => .ok (.int (Int.ofNat (bytesToNat e (bs.take w))), bs.drop w)
  | .str lw e, bs =>
    let n := bytesToNat e (bs.take lw)
    let body := (bs.drop lw).take n
    if isAscii body then .ok (.str body, (bs.drop lw).drop n) else .error .unicode
  | .enum w e allowed, bs =>
    let n := bytesToNat e (bs.take w)
    if n ∈ allowed then .ok (.int (Int.ofNat n), bs.drop w) else .error .value

/-! ### a field sequence (the body of one `ser` / `deser`) -/

def encodeFields : List Kind → List Val → Except Err Bytes
  | [], [] => .ok []
  | k :: ks, v :: vs =>
    match encodeVal k v with
    | .error e => .error e
    | .ok b =>
      match encodeFields ks vs with
      | .error e => .error e
      | .ok bs => .ok (b ++ bs)
  | _, _ => .error .arity

def decodeFields : List Kind → Bytes → Except Err (List Val × Bytes)
  | [], bs => .ok ([], bs)
  | k :: ks, bs =>
    match decodeVal k bs with
    | .error e => .error e
    | .ok (v, rest) =>
      match decodeFields ks rest with
      | .error e => .error e
      | .ok (vs, rest') => .ok (v :: vs, rest')

/-! ### one message class -/

structure Field where
  name : String
  kind : Kind
  deriving DecidableEq, Repr

/-- What the translator extracts for one class of api.py. -/
structure MsgSchema where
  /-- class name -/
  cls : String
  /-- dataclass fields in declaration order (a message value lists its field values in this order) -/
  fields : List String
  /-- the sequence written by `ser`: attribute name and primitive -/
  ser : List Field
  /-- the sequence read by `deser`: constructor keyword the value is passed to, and primitive -/
  deser : List Field
  /-- some other class of the module derives from it (`EmptyCommand`) -/
  isBase : Bool
  /-- name ends in `Response` -/
  isResponse : Bool
  /-- fields annotated `int`: in this protocol all of them carry byte counts (dataset size, free space) -/
  sizeFields : List String
  deriving Repr

/-- value of attribute `k` of a message whose declared fields `ks` have the values `vs` -/
def getField (k : String) : List String → List Val → Option Val
  | k' :: ks, v :: vs => if k = k' then some v else getField k ks vs
  | _, _ => none

def getAll (names : List String) (ks : List String) (vs : List Val) : Option (List Val) :=
  match names with
  | [] => some []
  | n :: ns =>
    match getField n ks vs, getAll ns ks vs with
    | some v, some r => some (v :: r)
    | _, _ => none

/-- `m.ser()` for a message of class `s` whose fields (declaration order) hold `vals` -/
def encodeMsg (s : MsgSchema) (vals : List Val) : Except Err Bytes :=
  if vals.length = s.fields.length then
    match getAll (s.ser.map (·.name)) s.fields vals with
    | none => .error .type            -- `self.<attr>` that does not exist
    | some vs => encodeFields (s.ser.map (·.kind)) vs
  else .error .arity

/-- `cls.deser(data)`: read the sequence, then `cls(kw=value, ...)`; result in declaration order -/
def decodeMsg (s : MsgSchema) (bs : Bytes) : Except Err (List Val) :=
  match decodeFields (s.deser.map (·.kind)) bs with
  | .error e => .error e
  | .ok (ws, _) =>
    match getAll s.fields (s.deser.map (·.name)) ws with
    | none => .error .type            -- constructor argument missing
    | some vals => .ok vals

/-! ### the module level: tag table -/

structure Table where
  msgs : List MsgSchema
  /-- the `b2c` dict literal in source order: tag bytes, class name -/
  tags : List (Bytes × String)
  deriving Repr

structure Msg where
  cls : String
  vals : List Val
  deriving DecidableEq, Repr

def Table.schema (t : Table) (c : String) : Option MsgSchema := t.msgs.find? (fun s => s.cls == c)

/-- `c2b[cls]` (c2b is the inverted b2c) -/
def Table.c2b (t : Table) (c : String) : Option Bytes :=
  (t.tags.find? (fun p => p.2 == c)).map (·.1)

/-- `b2c[tag]` -/
def Table.b2c (t : Table) (b : Bytes) : Option String :=
  (t.tags.find? (fun p => p.1 == b)).map (·.2)

/-- `api.ser(m)` = `c2b[type(m)] + m.ser()` -/
def encode (t : Table) (m : Msg) : Except Err Bytes :=
  match t.c2b m.cls with
  | none => .error .key
  | some tag =>
    match t.schema m.cls with
    | none => .error .key
    | some s =>
      match encodeMsg s m.vals with
      | .error e => .error e
      | .ok b => .ok (tag ++ b)

/-- `api.deser(data)` = `b2c[data[:1]].deser(data[1:])` -/
def decode (t : Table) (bs : Bytes) : Except Err Msg :=
  match t.b2c (bs.take 1) with
  | none => .error .key
  | some c =>
    match t.schema c with
    | none => .error .key
    | some s =>
      match decodeMsg s (bs.drop 1) with
      | .error e => .error e
      | .ok vals => .ok ⟨c, vals⟩

/-! ### domains and side conditions -/

/-- The value domain of one primitive. -/
def InDom : Kind → Val → Prop
  | .int w _, .int n => 0 ≤ n ∧ n.toNat < 256 ^ w
  | .str lw _, .str cs => cs.length < 256 ^ lw ∧ isAscii cs = true
  | .enum w _ allowed, .int n => 0 ≤ n ∧ n.toNat ∈ allowed ∧ n.toNat < 256 ^ w
  | _, _ => False

instance (k : Kind) (v : Val) : Decidable (InDom k v) := by
  cases k <;> cases v <;> simp only [InDom] <;> infer_instance

/-- A message value of class `s` is in the domain: one value per declared field, and every
attribute written by `ser` exists and lies in the domain of its primitive. -/
def InDomainMsg (s : MsgSchema) (vals : List Val) : Prop :=
  vals.length = s.fields.length ∧
  ∀ f ∈ s.ser, ∃ v, getField f.name s.fields vals = some v ∧ InDom f.kind v

/-- Side conditions of one class: `deser` reads exactly what `ser` writes, in the same order and with
the same primitives, into the same names, and these names are exactly the declared fields. -/
def WellFormed (s : MsgSchema) : Prop :=
  s.ser = s.deser ∧ s.fields.Nodup ∧ (s.ser.map (·.name)).Nodup ∧
  (∀ f ∈ s.fields, f ∈ s.ser.map (·.name)) ∧ (∀ n ∈ s.ser.map (·.name), n ∈ s.fields)

instance (s : MsgSchema) : Decidable (WellFormed s) := by
  unfold WellFormed; infer_instance

/-- A size field is wide enough: every byte count below 2^64 fits. -/
def sizeWide (s : MsgSchema) : Bool :=
  s.sizeFields.all (fun n =>
    (s.ser.any (fun f => f.name == n)) &&
    (s.ser ++ s.deser).all (fun f => f.name != n ||
      match f.kind with
      | .int w _ => decide (8 ≤ w)
      | _ => false))

/-- String length prefixes are at least 4 bytes on both sides: every ASCII string shorter than 2^32 fits. -/
def strWide (s : MsgSchema) : Bool :=
  (s.ser ++ s.deser).all (fun f =>
    match f.kind with
    | .str lw _ => decide (4 ≤ lw)
    | _ => true)

/-- Everything the generic theorems need of a generated table, decidable. -/
def SchemaOK (t : Table) : Bool :=
  -- every class: ser and deser sequences agree and cover exactly the declared fields
  t.msgs.all (fun s => decide (WellFormed s)) &&
  -- class names are unambiguous
  decide ((t.msgs.map (·.cls)).Nodup) &&
  -- distinct one-byte tags, distinct classes
  decide ((t.tags.map (·.1)).Nodup) && decide ((t.tags.map (·.2)).Nodup) &&
  t.tags.all (fun p => p.1.length == 1 && p.1.all (fun b => decide (b < 256))) &&
  -- every tagged class exists, every concrete class (request AND response) is tagged
  t.tags.all (fun p => (t.schema p.2).isSome) &&
  t.msgs.all (fun s => s.isBase || (t.c2b s.cls).isSome) &&
  -- sizes and free-space figures: at least 8 bytes on both sides
  t.msgs.all sizeWide &&
  -- keys and other strings: at least a 4-byte length prefix on both sides
  t.msgs.all strWide

/-- A message is in the domain of the protocol described by `t`: it is an instance of a concrete
class of the module and its field values are in the domain of that class. (Deliberately independent
of the tag table: dropping a class from `b2c` must not shrink the domain.) -/
def InDomain (t : Table) (m : Msg) : Prop :=
  ∃ s, s ∈ t.msgs ∧ s.cls = m.cls ∧ s.isBase = false ∧ InDomainMsg s m.vals

/-! ### the datagram transport -/

/-- Largest payload of a UDP datagram over IPv4 (65535 - 8 - 20): `sendto` refuses anything longer with EMSGSIZE.
(An assumption about the operating system; the harness measures it on a real socket on every run.) -/
def maxDatagram : Nat := 65507

inductive WireErr
  | encode (e : Err)      -- `api.ser` raised
  | msgsize               -- `sock.send` / `sock.sendto` raised OSError(EMSGSIZE)
  | decode (e : Err)      -- `api.deser` raised on the receiving side
  deriving DecidableEq, Repr

/-- `send(bs)` on one side, `recv(limit)` / `recvfrom(limit)` on the other -/
def transport (limit : Nat) (bs : Bytes) : Except WireErr Bytes :=
  if bs.length ≤ maxDatagram then .ok (bs.take limit) else .error .msgsize

/-- one message over the wire: `api.deser(recv(limit))` of `send(api.ser(m))` -/
def wire (t : Table) (limit : Nat) (m : Msg) : Except WireErr Msg :=
  match encode t m with
  | .error e => .error (.encode e)
  | .ok bs =>
    match transport limit bs with
    | .error e => .error e
    | .ok bs' =>
      match decode t bs' with
      | .error e => .error (.decode e)
      | .ok m' => .ok m'

end EkwVerif.Codec
