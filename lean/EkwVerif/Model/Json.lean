/-
Model of the JSON encodings of the code base (pydantic `model_dump()` / `.dict()` followed by `orjson.dumps`, and
`orjson.loads` followed by the pydantic constructor):

  * a job instance (src/cascade/low/core.py: JobInstance, TaskInstance, TaskDefinition, Task2TaskEdge, DatasetId) as
    written by `orjson.dumps(job.dict())` (gateway/router.py::_spawn_local) and read back by
    `JobInstance(**orjson.loads(..))` (benchmarks/__main__.py::get_job);
  * gateway requests and responses (src/cascade/gateway/api.py) as written by `client.request_response` /
    `client.serialize_response` (dump + `clazz` key, orjson) and read by `client.parse_request` / the second half of
    `request_response`.

What is modelled
  * `J`: JSON documents at TOKEN level -- objects are ordered lists of pairs (orjson writes keys in dict order and
    `orjson.loads` builds the dict in document order), numbers are either integer tokens or tokens with a fraction /
    exponent (`orjson.loads` makes a Python int of the former and a float of the latter);
  * `render`: the exact text orjson writes for a `J` (no blanks, its string escapes, its float format) -- compared BYTE FOR
    BYTE with what the real code writes on every run (the tie), not used by the theorems;
  * `PyVal`: the Python values a field of type `Any` (`static_input_kw` / `static_input_ps`) can hold, as far as the
    encodings distinguish them: JSON-native values, and bytes / tuple / set / frozenset / non-str dict keys / non-finite
    floats / scalars orjson has a native text form for (datetime, date, time, UUID) / anything else (`opaque`);
  * `encAny`: what `orjson.dumps` does with such a value (default options): it REFUSES bytes, sets, non-str keys,
    integers beyond 64 bit and unknown classes (TypeError), writes a tuple as an array, a non-finite float as `null`
    and a datetime / UUID as a string -- the last three are the silent alterations (known findings), everything else
    either round-trips or is refused; `decAny`: what `orjson.loads` returns.
  * the key layout of the dumps (which attribute under which key, Optional / list / dict / tuple fields) and the loaders.

Not modelled: pydantic's lax coercions on input the encoder never produces (e.g. "1" for an int field), strings that are
not well-formed unicode (Lean strings cannot hold lone surrogates; orjson refuses them -- sampled on the real code), the
binary-to-decimal conversion of floats (a finite float is the pair sign / shortest decimal digits / exponent the harness
takes from Python's `repr`, orjson's own digits are compared with it through `render`). No Mathlib.
-/

namespace EkwVerif.Json

/-- A finite float: `(-1)^neg * digits * 10^exp`, `digits` the shortest decimal digits that identify the double (no
trailing zero; `0` with `exp = 0` for ±0.0). -/
structure Flt where
  neg : Bool
  digits : Nat
  exp : Int
  deriving DecidableEq, Repr, Inhabited

/-- JSON documents, token level. -/
inductive J
  | null
  | bool (b : Bool)
  | int (n : Int)
  | flt (f : Flt)
  | str (s : String)
  | arr (l : List J)
  | obj (kvs : List (String × J))
  deriving Inhabited

inductive NonFin
  | inf | ninf | nan
  deriving DecidableEq, Repr

/-- Python values of a field of type `Any`, up to what the JSON encodings can tell apart. -/
inductive PyVal
  | none
  | bool (b : Bool)
  | int (n : Int)
  | float (f : Flt)
  | nonfinite (k : NonFin)
  | str (s : String)
  | bytes (b : List Nat)
  | list (l : List PyVal)
  | tuple (l : List PyVal)
  | set (l : List PyVal)
  | frozenset (l : List PyVal)
  | dict (kvs : List (PyVal × PyVal))
  /-- a scalar orjson serialises natively as a string: datetime, date, time, UUID (`text` = isoformat() / str()) -/
  | native (cls : String) (text : String)
  /-- any other class (complex, Decimal, Path, user objects): orjson raises TypeError -/
  | opaque (cls : String)
  deriving Inhabited

/-- The errors of `orjson.dumps` (all are `TypeError` in Python; told apart by their message). -/
inductive EncErr
  | type       -- "Type is not JSON serializable: <class>"
  | key        -- "Dict key must be str"
  | intRange   -- "Integer exceeds 64-bit range"
  deriving DecidableEq, Repr

/-! ### orjson.dumps / orjson.loads on `Any` values -/

def inInt64Range (n : Int) : Bool := decide (-(2 ^ 63 : Int) ≤ n) && decide (n < (2 ^ 64 : Int))

def encInt (n : Int) : Except EncErr J :=
  if inInt64Range n then .ok (.int n) else .error .intRange

mutual
/-- `orjson.dumps(v)` (default options), as a document -/
def encAny : PyVal → Except EncErr J
  | .none => .ok .null
  | .bool b => .ok (.bool b)
  | .int n => encInt n
  | .float f => .ok (.flt f)
  | .nonfinite _ => .ok .null              -- silently `null`
  | .str s => .ok (.str s)
  | .bytes _ => .error .type
  | .list l =>
    match encList l with
    | .ok js => .ok (.arr js)
    | .error e => .error e
  | .tuple l =>                             -- silently an array
    match encList l with
    | .ok js => .ok (.arr js)
    | .error e => .error e
  | .set _ => .error .type
  | .frozenset _ => .error .type
  | .dict kvs =>
    match encPairs kvs with
    | .ok o => .ok (.obj o)
    | .error e => .error e
  | .native _ text => .ok (.str text)       -- silently a string
  | .opaque _ => .error .type

def encList : List PyVal → Except EncErr (List J)
  | [] => .ok []
  | v :: vs =>
    match encAny v with
    | .error e => .error e
    | .ok j =>
      match encList vs with
      | .error e => .error e
      | .ok js => .ok (j :: js)

/-- the key is looked at before the value -/
def encPairs : List (PyVal × PyVal) → Except EncErr (List (String × J))
  | [] => .ok []
  | (.str k, v) :: rest =>
    match encAny v with
    | .error e => .error e
    | .ok j =>
      match encPairs rest with
      | .error e => .error e
      | .ok o => .ok ((k, j) :: o)
  | (_, _) :: _ => .error .key
end

mutual
/-- `orjson.loads` -/
def decAny : J → PyVal
  | .null => .none
  | .bool b => .bool b
  | .int n => .int n
  | .flt f => .float f
  | .str s => .str s
  | .arr l => .list (decList l)
  | .obj kvs => .dict (decPairs kvs)

def decList : List J → List PyVal
  | [] => []
  | j :: js => decAny j :: decList js

def decPairs : List (String × J) → List (PyVal × PyVal)
  | [] => []
  | (k, j) :: rest => (.str k, decAny j) :: decPairs rest
end

mutual
/-- JSON-native: the value domain of the encoding (what the field description "must be json-serializable" means when read
strictly): None, booleans, integers of 64 bit, finite floats, strings, lists and str-keyed mappings of such. -/
def Native : PyVal → Bool
  | .none => true
  | .bool _ => true
  | .int n => inInt64Range n
  | .float _ => true
  | .str _ => true
  | .list l => NativeList l
  | .dict kvs => NativePairs kvs
  | _ => false

def NativeList : List PyVal → Bool
  | [] => true
  | v :: vs => Native v && NativeList vs

def NativePairs : List (PyVal × PyVal) → Bool
  | [] => true
  | (.str _, v) :: rest => Native v && NativePairs rest
  | (_, _) :: _ => false
end

mutual
/-- No node of the value belongs to the three classes orjson alters silently (tuple, non-finite float, natively
serialised scalar). Says nothing about whether the value is accepted. -/
def Lossless : PyVal → Bool
  | .nonfinite _ => false
  | .tuple _ => false
  | .native _ _ => false
  | .list l => LosslessList l
  | .set l => LosslessList l
  | .frozenset l => LosslessList l
  | .dict kvs => LosslessPairs kvs
  | _ => true

def LosslessList : List PyVal → Bool
  | [] => true
  | v :: vs => Lossless v && LosslessList vs

def LosslessPairs : List (PyVal × PyVal) → Bool
  | [] => true
  | (k, v) :: rest => Lossless k && Lossless v && LosslessPairs rest
end

mutual
/-- Some node, met by the encoder before anything else fails, is of a class orjson refuses: bytes, set, frozenset, an
unknown class, an integer beyond 64 bit, a mapping key that is no string. -/
def Refused : PyVal → Bool
  | .int n => !inInt64Range n
  | .bytes _ => true
  | .set _ => true
  | .frozenset _ => true
  | .opaque _ => true
  | .list l => RefusedList l
  | .tuple l => RefusedList l
  | .dict kvs => RefusedPairs kvs
  | _ => false

def RefusedList : List PyVal → Bool
  | [] => false
  | v :: vs => Refused v || RefusedList vs

def RefusedPairs : List (PyVal × PyVal) → Bool
  | [] => false
  | (.str _, v) :: rest => Refused v || RefusedPairs rest
  | (_, _) :: _ => true
end

/-! ### job instances -/

structure DatasetId where
  task : String
  output : String
  deriving DecidableEq, Repr

structure Edge where
  source : DatasetId
  sinkTask : String
  kw : Option String
  ps : Option Int
  deriving DecidableEq, Repr

structure TaskDef where
  entrypoint : String
  func : Option String
  environment : List String
  inputSchema : List (String × String)
  outputSchema : List (String × String)
  needsGpu : Bool
  deriving DecidableEq, Repr

structure TaskInst where
  defn : TaskDef
  kw : List (String × PyVal)
  ps : List (String × PyVal)

structure JobInst where
  tasks : List (String × TaskInst)
  edges : List Edge
  serdes : List (String × (String × String))
  ext : List DatasetId

/-! ### domains (the vocabulary of the theorems' hypotheses) -/

def LosslessStatics (kvs : List (String × PyVal)) : Bool := kvs.all (fun p => Lossless p.2)
def NativeStatics (kvs : List (String × PyVal)) : Bool := kvs.all (fun p => Native p.2)
def RefusedStatics (kvs : List (String × PyVal)) : Bool := kvs.any (fun p => Refused p.2)

def TaskLossless (t : TaskInst) : Bool := LosslessStatics t.kw && LosslessStatics t.ps
def TaskNative (t : TaskInst) : Bool := NativeStatics t.kw && NativeStatics t.ps

def EdgeInRange (e : Edge) : Bool :=
  match e.ps with
  | none => true
  | some n => inInt64Range n

/-- no static input of the job belongs to the three classes orjson alters silently -/
def JobLossless (j : JobInst) : Bool := j.tasks.all (fun p => TaskLossless p.2)

/-- the job is in the domain of the JSON encoding: static inputs JSON-native, positional edge indices within 64 bit -/
def JobNative (j : JobInst) : Bool := j.tasks.all (fun p => TaskNative p.2) && j.edges.all EdgeInRange

/-! ### dump (`orjson.dumps(job.dict())`) -/

def optStr : Option String → J
  | none => .null
  | some s => .str s

def encOptInt : Option Int → Except EncErr J
  | none => .ok .null
  | some n => encInt n

def dumpDs (d : DatasetId) : J := .obj [("task", .str d.task), ("output", .str d.output)]

def dumpEdge (e : Edge) : Except EncErr J :=
  match encOptInt e.ps with
  | .error err => .error err
  | .ok ps =>
    .ok (.obj [("source", dumpDs e.source), ("sink_task", .str e.sinkTask),
               ("sink_input_kw", optStr e.kw), ("sink_input_ps", ps)])

def dumpStrMap (m : List (String × String)) : J := .obj (m.map (fun p => (p.1, J.str p.2)))

def dumpDef (d : TaskDef) : J :=
  .obj [("entrypoint", .str d.entrypoint), ("func", optStr d.func),
        ("environment", .arr (d.environment.map J.str)),
        ("input_schema", dumpStrMap d.inputSchema), ("output_schema", dumpStrMap d.outputSchema),
        ("needs_gpu", .bool d.needsGpu)]

/-- a str-keyed mapping of `Any` values (`static_input_kw`, `static_input_ps`) -/
def encStatics : List (String × PyVal) → Except EncErr (List (String × J))
  | [] => .ok []
  | (k, v) :: rest =>
    match encAny v with
    | .error e => .error e
    | .ok j =>
      match encStatics rest with
      | .error e => .error e
      | .ok o => .ok ((k, j) :: o)

def decStatics : List (String × J) → List (String × PyVal)
  | [] => []
  | (k, j) :: rest => (k, decAny j) :: decStatics rest

def dumpTask (t : TaskInst) : Except EncErr J :=
  match encStatics t.kw with
  | .error e => .error e
  | .ok kw =>
    match encStatics t.ps with
    | .error e => .error e
    | .ok ps => .ok (.obj [("definition", dumpDef t.defn), ("static_input_kw", .obj kw), ("static_input_ps", .obj ps)])

def dumpTasks : List (String × TaskInst) → Except EncErr (List (String × J))
  | [] => .ok []
  | (k, t) :: rest =>
    match dumpTask t with
    | .error e => .error e
    | .ok j =>
      match dumpTasks rest with
      | .error e => .error e
      | .ok o => .ok ((k, j) :: o)

def dumpEdges : List Edge → Except EncErr (List J)
  | [] => .ok []
  | e :: rest =>
    match dumpEdge e with
    | .error err => .error err
    | .ok j =>
      match dumpEdges rest with
      | .error err => .error err
      | .ok js => .ok (j :: js)

/-- the tasks are written before the edges (field order of the model): the first failing value decides the error -/
def dumpJob (j : JobInst) : Except EncErr J :=
  match dumpTasks j.tasks with
  | .error e => .error e
  | .ok ts =>
    match dumpEdges j.edges with
    | .error e => .error e
    | .ok es =>
      .ok (.obj [("tasks", .obj ts), ("edges", .arr es),
                 ("serdes", .obj (j.serdes.map (fun p => (p.1, J.arr [.str p.2.1, .str p.2.2])))),
                 ("ext_outputs", .arr (j.ext.map dumpDs))])

/-! ### load (`JobInstance(**orjson.loads(..))`) -/

def field (k : String) : List (String × J) → Option J
  | [] => none
  | (k', v) :: rest => if k = k' then some v else field k rest

def asStr : J → Option String
  | .str s => some s
  | _ => none

def asOptStr : J → Option (Option String)
  | .null => some none
  | .str s => some (some s)
  | _ => none

def asOptInt : J → Option (Option Int)
  | .null => some none
  | .int n => some (some n)
  | _ => none

def asInt : J → Option Int
  | .int n => some n
  | _ => none

def asBool : J → Option Bool
  | .bool b => some b
  | _ => none

def asArr : J → Option (List J)
  | .arr l => some l
  | _ => none

def asObj : J → Option (List (String × J))
  | .obj l => some l
  | _ => none

/-- `l.mapM f` for `Option`, structurally recursive -/
def allM {α β : Type} (f : α → Option β) : List α → Option (List β)
  | [] => some []
  | a :: as =>
    match f a, allM f as with
    | some b, some bs => some (b :: bs)
    | _, _ => none

def loadDs (j : J) : Option DatasetId :=
  match asObj j with
  | none => none
  | some o =>
    match (field "task" o).bind asStr, (field "output" o).bind asStr with
    | some t, some out => some ⟨t, out⟩
    | _, _ => none

def loadEdge (j : J) : Option Edge :=
  match asObj j with
  | none => none
  | some o =>
    match (field "source" o).bind loadDs, (field "sink_task" o).bind asStr,
          (field "sink_input_kw" o).bind asOptStr, (field "sink_input_ps" o).bind asOptInt with
    | some s, some t, some kw, some ps => some ⟨s, t, kw, ps⟩
    | _, _, _, _ => none

def loadStrMap (j : J) : Option (List (String × String)) :=
  match asObj j with
  | none => none
  | some o => allM (fun p => (asStr p.2).map (fun s => (p.1, s))) o

def loadDef (j : J) : Option TaskDef :=
  match asObj j with
  | none => none
  | some o =>
    match (field "entrypoint" o).bind asStr, (field "func" o).bind asOptStr,
          ((field "environment" o).bind asArr).bind (allM asStr),
          (field "input_schema" o).bind loadStrMap, (field "output_schema" o).bind loadStrMap,
          (field "needs_gpu" o).bind asBool with
    | some e, some f, some env, some i, some out, some g => some ⟨e, f, env, i, out, g⟩
    | _, _, _, _, _, _ => none

def loadTask (j : J) : Option TaskInst :=
  match asObj j with
  | none => none
  | some o =>
    match (field "definition" o).bind loadDef, (field "static_input_kw" o).bind asObj,
          (field "static_input_ps" o).bind asObj with
    | some d, some kw, some ps => some ⟨d, decStatics kw, decStatics ps⟩
    | _, _, _ => none

def loadPair (j : J) : Option (String × String) :=
  match j with
  | .arr [.str a, .str b] => some (a, b)
  | _ => none

def loadJob (j : J) : Option JobInst :=
  match asObj j with
  | none => none
  | some o =>
    match ((field "tasks" o).bind asObj).bind (allM (fun p => (loadTask p.2).map (fun t => (p.1, t)))),
          ((field "edges" o).bind asArr).bind (allM loadEdge),
          ((field "serdes" o).bind asObj).bind (allM (fun p => (loadPair p.2).map (fun t => (p.1, t)))),
          ((field "ext_outputs" o).bind asArr).bind (allM loadDs) with
    | some t, some e, some s, some x => some ⟨t, e, s, x⟩
    | _, _, _, _ => none

/-! ### gateway messages (src/cascade/gateway/api.py, client.py) -/

structure JobSpec where
  benchmark : Option String
  envvars : List (String × String)
  job : Option JobInst
  workersPerHost : Int
  hosts : Int
  useSlurm : Bool

inductive GwReq
  | submit (spec : JobSpec)
  | progress (jobIds : List String)
  | result (jobId : String) (ds : DatasetId)
  | shutdown

inductive GwRsp
  | submit (jobId : Option String) (error : Option String)
  | progress (progresses : List (String × String)) (error : Option String)
  | result (result : Option String) (error : Option String)
  | shutdown (error : Option String)

def GwReq.clazz : GwReq → String
  | .submit _ => "SubmitJobRequest"
  | .progress _ => "JobProgressRequest"
  | .result _ _ => "ResultRetrievalRequest"
  | .shutdown => "ShutdownRequest"

def GwRsp.clazz : GwRsp → String
  | .submit _ _ => "SubmitJobResponse"
  | .progress _ _ => "JobProgressResponse"
  | .result _ _ => "ResultRetrievalResponse"
  | .shutdown _ => "ShutdownResponse"

def dumpSpec (s : JobSpec) : Except EncErr J :=
  match (match s.job with
         | none => (.ok .null : Except EncErr J)
         | some j => dumpJob j) with
  | .error e => .error e
  | .ok ji =>
    match encInt s.workersPerHost with
    | .error e => .error e
    | .ok w =>
      match encInt s.hosts with
      | .error e => .error e
      | .ok h =>
        .ok (.obj [("benchmark_name", optStr s.benchmark), ("envvars", dumpStrMap s.envvars), ("job_instance", ji),
                   ("workers_per_host", w), ("hosts", h), ("use_slurm", .bool s.useSlurm)])

/-- `request_response`, first half: `d = m.model_dump(); d["clazz"] = type(m).__name__; orjson.dumps(d)` -- the class
name goes LAST -/
def dumpReq : GwReq → Except EncErr J
  | .submit s =>
    match dumpSpec s with
    | .error e => .error e
    | .ok js => .ok (.obj [("job", js), ("clazz", .str "SubmitJobRequest")])
  | .progress ids => .ok (.obj [("job_ids", .arr (ids.map J.str)), ("clazz", .str "JobProgressRequest")])
  | .result job ds => .ok (.obj [("job_id", .str job), ("dataset_id", dumpDs ds), ("clazz", .str "ResultRetrievalRequest")])
  | .shutdown => .ok (.obj [("clazz", .str "ShutdownRequest")])

/-- `serialize_response` -/
def dumpRsp : GwRsp → J
  | .submit j e => .obj [("job_id", optStr j), ("error", optStr e), ("clazz", .str "SubmitJobResponse")]
  | .progress p e => .obj [("progresses", dumpStrMap p), ("error", optStr e), ("clazz", .str "JobProgressResponse")]
  | .result r e => .obj [("result", optStr r), ("error", optStr e), ("clazz", .str "ResultRetrievalResponse")]
  | .shutdown e => .obj [("error", optStr e), ("clazz", .str "ShutdownResponse")]

def loadSpec (j : J) : Option JobSpec :=
  match asObj j with
  | none => none
  | some o =>
    match (field "benchmark_name" o).bind asOptStr, (field "envvars" o).bind loadStrMap,
          (field "job_instance" o).bind (fun x => match x with
            | .null => some none
            | y => (loadJob y).map some),
          (field "workers_per_host" o).bind asInt, (field "hosts" o).bind asInt, (field "use_slurm" o).bind asBool with
    | some b, some env, some ji, some w, some h, some s => some ⟨b, env, ji, w, h, s⟩
    | _, _, _, _, _, _ => none

/-- `parse_request`: the class is looked up by the `clazz` key, which must name a Request -/
def loadReq (j : J) : Option GwReq :=
  match asObj j with
  | none => none
  | some o =>
    match (field "clazz" o).bind asStr with
    | some "SubmitJobRequest" => ((field "job" o).bind loadSpec).map GwReq.submit
    | some "JobProgressRequest" => (((field "job_ids" o).bind asArr).bind (allM asStr)).map GwReq.progress
    | some "ResultRetrievalRequest" =>
      match (field "job_id" o).bind asStr, (field "dataset_id" o).bind loadDs with
      | some job, some ds => some (.result job ds)
      | _, _ => none
    | some "ShutdownRequest" => some .shutdown
    | _ => none

/-- `request_response`, second half: the answer must be the Response class that belongs to the request sent -/
def loadRsp (sent : GwReq) (j : J) : Option GwRsp :=
  match asObj j with
  | none => none
  | some o =>
    match (field "clazz" o).bind asStr, sent with
    | some "SubmitJobResponse", .submit _ =>
      match (field "job_id" o).bind asOptStr, (field "error" o).bind asOptStr with
      | some a, some e => some (.submit a e)
      | _, _ => none
    | some "JobProgressResponse", .progress _ =>
      match (field "progresses" o).bind loadStrMap, (field "error" o).bind asOptStr with
      | some a, some e => some (.progress a e)
      | _, _ => none
    | some "ResultRetrievalResponse", .result _ _ =>
      match (field "result" o).bind asOptStr, (field "error" o).bind asOptStr with
      | some a, some e => some (.result a e)
      | _, _ => none
    | some "ShutdownResponse", .shutdown =>
      match (field "error" o).bind asOptStr with
      | some e => some (.shutdown e)
      | none => none
    | _, _ => none

/-- the response class that answers a request -/
def GwRsp.answers : GwRsp → GwReq → Bool
  | .submit _ _, .submit _ => true
  | .progress _ _, .progress _ => true
  | .result _ _, .result _ _ => true
  | .shutdown _, .shutdown => true
  | _, _ => false

def SpecLossless (s : JobSpec) : Bool :=
  match s.job with
  | none => true
  | some j => JobLossless j

def SpecNative (s : JobSpec) : Bool :=
  (match s.job with
   | none => true
   | some j => JobNative j) && inInt64Range s.workersPerHost && inInt64Range s.hosts

def ReqLossless : GwReq → Bool
  | .submit s => SpecLossless s
  | _ => true

/-- the request is in the domain of the JSON encoding -/
def ReqNative : GwReq → Bool
  | .submit s => SpecNative s
  | _ => true

/-! ### the text orjson writes (tie only) -/

def hexDigitL (n : Nat) : Char := "0123456789abcdef".toList.getD n '0'

def escChar (c : Char) : String :=
  if c = '"' then "\\\""
  else if c = '\\' then "\\\\"
  else if c.toNat < 32 then
    if c.toNat = 8 then "\\b"
    else if c.toNat = 9 then "\\t"
    else if c.toNat = 10 then "\\n"
    else if c.toNat = 12 then "\\f"
    else if c.toNat = 13 then "\\r"
    else String.ofList ['\\', 'u', '0', '0', hexDigitL (c.toNat / 16), hexDigitL (c.toNat % 16)]
  else String.singleton c

def renderStr (s : String) : String := "\"" ++ String.join (s.toList.map escChar) ++ "\""

def zeros (n : Nat) : String := String.ofList (List.replicate n '0')

def expStr (e : Int) : String := if e ≥ 0 then "e+" ++ toString e else "e" ++ toString e

/-- the float format of orjson (ryu's pretty printer): plain notation while the decimal point stays within 16 digits /
5 leading zeros, scientific otherwise -/
def renderFlt (f : Flt) : String :=
  let sign := if f.neg then "-" else ""
  if f.digits = 0 then sign ++ "0.0" else
  let s := toString f.digits
  let len : Int := s.length
  let k := f.exp
  let kk := len + k
  if 0 ≤ k ∧ kk ≤ 16 then sign ++ s ++ zeros k.toNat ++ ".0"
  else if 0 < kk ∧ kk ≤ 16 then sign ++ String.ofList (s.toList.take kk.toNat) ++ "." ++ String.ofList (s.toList.drop kk.toNat)
  else if -5 < kk ∧ kk ≤ 0 then sign ++ "0." ++ zeros (-kk).toNat ++ s
  else if s.length = 1 then sign ++ s ++ expStr (kk - 1)
  else sign ++ String.ofList (s.toList.take 1) ++ "." ++ String.ofList (s.toList.drop 1) ++ expStr (kk - 1)

mutual
def render : J → String
  | .null => "null"
  | .bool true => "true"
  | .bool false => "false"
  | .int n => toString n
  | .flt f => renderFlt f
  | .str s => renderStr s
  | .arr l => "[" ++ ",".intercalate (renderList l) ++ "]"
  | .obj kvs => "{" ++ ",".intercalate (renderPairs kvs) ++ "}"

def renderList : List J → List String
  | [] => []
  | j :: js => render j :: renderList js

def renderPairs : List (String × J) → List String
  | [] => []
  | (k, j) :: rest => (renderStr k ++ ":" ++ render j) :: renderPairs rest
end

end EkwVerif.Json
