/-
Model of the JSON form of a job instance (src/cascade/low/core.py: JobInstance, TaskInstance,
TaskDefinition, Task2TaskEdge, DatasetId) as written by `orjson.dumps(job.dict())`
(gateway/router.py::_spawn_local) and read back by `JobInstance(**orjson.loads(..))`
(benchmarks/__main__.py::get_job).

Only the *shape* is modelled: which attribute goes under which key, how Optional / list / dict /
tuple fields are represented. The values of `static_input_kw` / `static_input_ps` (type `Any`)
are JSON trees carried through unchanged; pydantic's coercions and orjson's number formatting are
NOT modelled (sampled through the real code by the harness). No Mathlib.
-/

namespace EkwVerif.Json

/-- JSON trees. Numbers are kept as decimal mantissa / exponent like `Lean.JsonNumber`. -/
inductive J
  | null
  | bool (b : Bool)
  | num (mantissa : Int) (exponent : Nat)
  | str (s : String)
  | arr (l : List J)
  | obj (kvs : List (String × J))
  deriving Inhabited

structure DatasetId where
  task : String
  output : String

structure Edge where
  source : DatasetId
  sinkTask : String
  kw : Option String
  ps : Option Int

structure TaskDef where
  entrypoint : String
  func : Option String
  environment : List String
  inputSchema : List (String × String)
  outputSchema : List (String × String)
  needsGpu : Bool

structure TaskInst where
  defn : TaskDef
  kw : List (String × J)
  ps : List (String × J)

structure JobInst where
  tasks : List (String × TaskInst)
  edges : List Edge
  serdes : List (String × (String × String))
  ext : List DatasetId

/-! ### dump -/

def optStr : Option String → J
  | none => .null
  | some s => .str s

def optInt : Option Int → J
  | none => .null
  | some n => .num n 0

def dumpDs (d : DatasetId) : J := .obj [("task", .str d.task), ("output", .str d.output)]

def dumpEdge (e : Edge) : J :=
  .obj [("source", dumpDs e.source), ("sink_task", .str e.sinkTask),
        ("sink_input_kw", optStr e.kw), ("sink_input_ps", optInt e.ps)]

def dumpStrMap (m : List (String × String)) : J := .obj (m.map (fun p => (p.1, J.str p.2)))

def dumpDef (d : TaskDef) : J :=
  .obj [("entrypoint", .str d.entrypoint), ("func", optStr d.func),
        ("environment", .arr (d.environment.map J.str)),
        ("input_schema", dumpStrMap d.inputSchema), ("output_schema", dumpStrMap d.outputSchema),
        ("needs_gpu", .bool d.needsGpu)]

def dumpTask (t : TaskInst) : J :=
  .obj [("definition", dumpDef t.defn), ("static_input_kw", .obj t.kw), ("static_input_ps", .obj t.ps)]

def dumpJob (j : JobInst) : J :=
  .obj [("tasks", .obj (j.tasks.map (fun p => (p.1, dumpTask p.2)))),
        ("edges", .arr (j.edges.map dumpEdge)),
        ("serdes", .obj (j.serdes.map (fun p => (p.1, J.arr [.str p.2.1, .str p.2.2])))),
        ("ext_outputs", .arr (j.ext.map dumpDs))]

/-! ### load -/

def field (k : String) : List (String × J) → Option J
  | [] => none
  | (k', v) :: rest => if k = k' then some v else field k rest

def asStr : J → Option String
  | .str s => some s
  | _ => none

def asOptStr : J → Option (Option String)
  | .null => some none
  | .str s => some (some s)
  | _ => none

def asOptInt : J → Option (Option Int)
  | .null => some none
  | .num n 0 => some (some n)
  | _ => none

def asBool : J → Option Bool
  | .bool b => some b
  | _ => none

def asArr : J → Option (List J)
  | .arr l => some l
  | _ => none

def asObj : J → Option (List (String × J))
  | .obj l => some l
  | _ => none

/-- `l.mapM f` for `Option`, structurally recursive -/
def allM {α β : Type} (f : α → Option β) : List α → Option (List β)
  | [] => some []
  | a :: as =>
    match f a, allM f as with
    | some b, some bs => some (b :: bs)
    | _, _ => none

def loadDs (j : J) : Option DatasetId :=
  match asObj j with
  | none => none
  | some o =>
    match (field "task" o).bind asStr, (field "output" o).bind asStr with
    | some t, some out => some ⟨t, out⟩
    | _, _ => none

def loadEdge (j : J) : Option Edge :=
  match asObj j with
  | none => none
  | some o =>
    match (field "source" o).bind loadDs, (field "sink_task" o).bind asStr,
          (field "sink_input_kw" o).bind asOptStr, (field "sink_input_ps" o).bind asOptInt with
    | some s, some t, some kw, some ps => some ⟨s, t, kw, ps⟩
    | _, _, _, _ => none

def loadStrMap (j : J) : Option (List (String × String)) :=
  match asObj j with
  | none => none
  | some o => allM (fun p => (asStr p.2).map (fun s => (p.1, s))) o

def loadDef (j : J) : Option TaskDef :=
  match asObj j with
  | none => none
  | some o =>
    match (field "entrypoint" o).bind asStr, (field "func" o).bind asOptStr,
          ((field "environment" o).bind asArr).bind (allM asStr),
          (field "input_schema" o).bind loadStrMap, (field "output_schema" o).bind loadStrMap,
          (field "needs_gpu" o).bind asBool with
    | some e, some f, some env, some i, some out, some g => some ⟨e, f, env, i, out, g⟩
    | _, _, _, _, _, _ => none

def loadTask (j : J) : Option TaskInst :=
  match asObj j with
  | none => none
  | some o =>
    match (field "definition" o).bind loadDef, (field "static_input_kw" o).bind asObj,
          (field "static_input_ps" o).bind asObj with
    | some d, some kw, some ps => some ⟨d, kw, ps⟩
    | _, _, _ => none

def loadPair (j : J) : Option (String × String) :=
  match j with
  | .arr [.str a, .str b] => some (a, b)
  | _ => none

def loadJob (j : J) : Option JobInst :=
  match asObj j with
  | none => none
  | some o =>
    match ((field "tasks" o).bind asObj).bind (allM (fun p => (loadTask p.2).map (fun t => (p.1, t)))),
          ((field "edges" o).bind asArr).bind (allM loadEdge),
          ((field "serdes" o).bind asObj).bind (allM (fun p => (loadPair p.2).map (fun t => (p.1, t)))),
          ((field "ext_outputs" o).bind asArr).bind (allM loadDs) with
    | some t, some e, some s, some x => some ⟨t, e, s, x⟩
    | _, _, _, _ => none

end EkwVerif.Json
