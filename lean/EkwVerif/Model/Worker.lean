/-
Model of the wait loop of a worker process: `cascade.executor.runner.entrypoint.entrypoint`
(the `availab_ds / missing_ds / waiting_ts` bookkeeping). A message is one of the four kinds
the loop accepts; `required` of a task sequence is computed by the harness exactly as the code
does (inputs of its tasks minus its own outputs) and validated against the real computation.
-/
namespace EkwVerif.Worker

abbrev Ds := Nat × Nat

inductive Msg
  | published (ds : Ds)
  | purge (ds : Ds)
  | taskSeq (id : Nat) (required : List Ds)
  | shutdown
deriving Repr, DecidableEq

structure W where
  avail : List Ds                       -- availab_ds (a set)
  waiting : Option (Nat × List Ds)      -- waiting_ts (with its required set)
  missing : List Ds                     -- missing_ds (a set)
  stopped : Bool
deriving Repr, DecidableEq

def W.init : W := { avail := [], waiting := none, missing := [], stopped := false }

inductive Out
  | nothing
  | executed (id : Nat)                 -- execute_sequence entered for this sequence
  | provided (l : List Ds)              -- memory.provide calls (no execution)
  | raised (msg : String)
  | stop
deriving Repr, DecidableEq

def addSet (l : List Ds) (d : Ds) : List Ds := if l.contains d then l else l ++ [d]

def step (w : W) : Msg → W × Out
  | .shutdown => ({ w with stopped := true }, .stop)
  | .published ds =>
    let avail := addSet w.avail ds
    if w.missing.contains ds then
      let missing := w.missing.filter (· != ds)
      match w.waiting with
      | some (id, _) =>
        if missing.isEmpty then ({ w with avail := avail, missing := missing, waiting := none }, .executed id)
        else ({ w with avail := avail, missing := missing }, .provided [ds])
      | none => ({ w with avail := avail, missing := missing }, .provided [ds])
    else ({ w with avail := avail }, .nothing)
  | .purge ds => ({ w with avail := w.avail.filter (· != ds) }, .nothing)
  | .taskSeq id required =>
    match w.waiting with
    | some _ => (w, .raised "ValueError: double task sequence enqueued")
    | none =>
      let missing := required.filter (fun d => !w.avail.contains d)
      if missing.isEmpty then ({ w with missing := [] }, .executed id)
      else ({ w with waiting := some (id, required), missing := missing }, .provided (w.avail.filter (fun d => required.contains d)))

/-- run a history; collect the outputs -/
def run : W → List Msg → W × List Out
  | w, [] => (w, [])
  | w, m :: ms =>
    if w.stopped then (w, []) else
    let (w1, o) := step w m
    match o with
    | .raised _ => (w1, [o])                 -- the process dies
    | _ => let (w2, os) := run w1 ms; (w2, o :: os)

end EkwVerif.Worker
