/-
IEEE-754 binary64 ("float64"), bit-exact for +, −, ×, ÷ with round-to-nearest-even, gradual
underflow, overflow to ±inf, NaN and infinities.  Integer arithmetic only (the kernel evaluates
it, so concrete facts are proved by `decide`).

A finite or infinite value is its ORDINAL: `key = ± (E · 2^52 + F)` for biased exponent `E` and
fraction `F` (the sign-magnitude reading of the 64 bits).  The ordinal of a positive double grows
with its value, so `min` / `max` / comparisons are those of the integers; `±inf = ± 2047 · 2^52`.
The two zeros are identified (key 0) and there is one NaN.
-/

import EkwVerif.Model.Backend

namespace EkwVerif.Backend

inductive F64 where
  | fin (key : Int)
  | nan
  deriving DecidableEq, Repr

namespace F64

instance : Inhabited F64 := ⟨.fin 0⟩

def twoP52 : Nat := 4503599627370496
def infKey : Int := 9218868437227405312       -- 2047 · 2^52
def pinf : F64 := .fin infKey
def ninf : F64 := .fin (-infKey)

/-- round-half-even of `n / 2^s` -/
def rneShift (n s : Nat) : Nat :=
  if s = 0 then n else
  let q := n >>> s
  let r := n % 2 ^ s
  let half := 2 ^ (s - 1)
  if r > half || (r == half && q % 2 == 1) then q + 1 else q

/-- ordinal of the double nearest to `n · 2^e` (`n > 0`), ties to even, overflow to inf:
with quantum exponent `q = max (e + bitlen n − 53) (−1074)` and `mant = rne (n · 2^(e−q))` the
ordinal is `(q + 1074) · 2^52 + mant` (this also covers the carry `mant = 2^53` and subnormals) -/
def roundKey (n : Nat) (e : Int) : Int :=
  if n = 0 then 0 else
  let bits : Int := (Nat.log2 n + 1 : Nat)
  let q : Int := max (e + bits - 53) (-1074)
  let mant : Nat := if q ≤ e then n * 2 ^ (e - q).toNat else rneShift n (q - e).toNat
  min ((q + 1074) * (twoP52 : Int) + mant) infKey

/-- the double nearest to `m · 2^e` -/
def ofDyadic (m e : Int) : F64 :=
  if m < 0 then .fin (-(roundKey m.natAbs e)) else .fin (roundKey m.natAbs e)

/-- conversion of an integer (int64 → float64 rounds beyond 2^53) -/
def ofInt (m : Int) : F64 := ofDyadic m 0

/-- (mantissa, exponent) of a finite ordinal: value = mantissa · 2^exponent -/
def decode (k : Int) : Int × Int :=
  let a := k.natAbs
  let E := a / twoP52
  let F := a % twoP52
  let m : Nat := if E = 0 then F else twoP52 + F
  let e : Int := if E = 0 then -1074 else (E : Int) - 1075
  (if k < 0 then -(m : Int) else (m : Int), e)

def isInf (k : Int) : Bool := k.natAbs == infKey.natAbs
def isZero (k : Int) : Bool := k == 0

def neg : F64 → F64
  | .fin k => .fin (-k)
  | .nan => .nan

def add : F64 → F64 → F64
  | .fin a, .fin b =>
    if isInf a then (if isInf b && a != b then .nan else .fin a)
    else if isInf b then .fin b
    else if isZero a then .fin b
    else if isZero b then .fin a
    else
      let (m1, e1) := decode a
      let (m2, e2) := decode b
      let e := min e1 e2
      ofDyadic (m1 * 2 ^ (e1 - e).toNat + m2 * 2 ^ (e2 - e).toNat) e
  | _, _ => .nan

def sub (a b : F64) : F64 := add a (neg b)

def signOf (k : Int) : Int := if k < 0 then -1 else 1

def mul : F64 → F64 → F64
  | .fin a, .fin b =>
    if isInf a || isInf b then
      (if isZero a || isZero b then .nan else .fin (signOf a * signOf b * infKey))
    else
      let (m1, e1) := decode a
      let (m2, e2) := decode b
      ofDyadic (m1 * m2) (e1 + e2)
  | _, _ => .nan

/-- correctly rounded quotient: ≥ 56 quotient bits and a sticky bit, then `roundKey` -/
def div : F64 → F64 → F64
  | .fin a, .fin b =>
    if isInf a then (if isInf b then .nan else .fin (signOf a * signOf b * infKey))
    else if isInf b then .fin 0
    else if isZero b then (if isZero a then .nan else .fin (signOf a * infKey))   -- x / ±0 (the zero is +0)
    else if isZero a then .fin 0
    else
      let (m1, e1) := decode a
      let (m2, e2) := decode b
      let n1 := m1.natAbs
      let n2 := m2.natAbs
      let k : Nat := (Nat.log2 n2 + 57) - Nat.log2 n1
      let num := n1 * 2 ^ k
      let q := num / n2
      let sticky : Nat := if num % n2 = 0 then 0 else 1
      let key := roundKey (2 * q + sticky) (e1 - e2 - (k : Int) - 1)
      .fin (signOf a * signOf b * key)
  | _, _ => .nan

def fmin : F64 → F64 → F64
  | .fin a, .fin b => .fin (min a b)
  | _, _ => .nan

def fmax : F64 → F64 → F64
  | .fin a, .fin b => .fin (max a b)
  | _, _ => .nan

def one : F64 := .fin 4607182418800017408     -- 1.0 = 1023 · 2^52

/-- exact integer value of a finite double, if it is an integer -/
def toInt? : F64 → Option Int
  | .fin k =>
    if isInf k then none else
    let (m, e) := decode k
    if 0 ≤ e then some (m * 2 ^ e.toNat)
    else if m % (2 ^ (-e).toNat : Nat) = 0 then some (m / (2 ^ (-e).toNat : Nat)) else none
  | .nan => none

/-- `x ** n` for an integer exponent: the exact power of the mantissa, rounded once (what
`pow` returns whenever the exact result is representable; the generator keeps to those);
negative exponents through the reciprocal; other exponents are outside the model (NaN) -/
def pow (a b : F64) : F64 :=
  match a, toInt? b with
  | .fin k, some n =>
    if isInf k then .nan else
    let (m, e) := decode k
    let p := ofDyadic (m ^ n.natAbs) (e * n.natAbs)
    if n < 0 then div one p else p
  | _, _ => .nan

/-! ### binary32 ("float32") and binary16 ("float16") inside binary64

Every binary32 / binary16 value is a double, so the narrow formats need no carrier of their own:
`narrow p qmin emax x` is the value of the format with `p` significand bits, least quantum
`2^qmin` and largest exponent `emax` that is nearest to the double `x` (ties to even, gradual
underflow, overflow to ±inf) -- NumPy's cast `float64 → float32 / float16`.  An operation of
the narrow format is the binary64 operation followed by `narrow`.  For +, −, ×, ÷ that IS the
correctly rounded narrow operation: rounding first to `p' = 53` and then to `p` digits equals
rounding once to `p` digits whenever `p' ≥ 2p + 2` (Figueroa, "When is double rounding
innocuous?", ACM SIGNUM Newsletter 30(3), 1995; formalised by Roux, "Innocuous double rounding of
basic arithmetic operations", J. Formalized Reasoning 7(1), 2014); 53 ≥ 2·24 + 2 and
53 ≥ 2·11 + 2.  (NumPy evaluates binary16 operations in binary32 and rounds: 24 ≥ 2·11 + 2, so
they are correctly rounded, too.)  This fact is CITED, not proved here; the correspondence check
compares every float32 / float16 result of the real code with this model bit for bit. -/

def narrow (p : Nat) (qmin emax : Int) : F64 → F64
  | .nan => .nan
  | .fin k =>
    if isInf k || isZero k then .fin k else
    let (m, e) := decode k
    let n := m.natAbs
    let bits : Int := (Nat.log2 n + 1 : Nat)
    let q : Int := max (e + bits - p) qmin
    let mant : Nat := if q ≤ e then n * 2 ^ (e - q).toNat else rneShift n (q - e).toNat
    if mant = 0 then .fin 0
    else if ((Nat.log2 mant + 1 : Nat) : Int) + q > emax + 1 then .fin (signOf k * infKey)
    else ofDyadic (signOf k * (mant : Int)) q

def to32 : F64 → F64 := narrow 24 (-149) 127
def to16 : F64 → F64 := narrow 11 (-24) 15

end F64

/-- the arithmetic of a narrow binary format: the binary64 operation, then `narrow` -/
def Alg.narrowed (r : F64 → F64) : Alg F64 :=
  { add := fun a b => r (F64.add a b), sub := fun a b => r (F64.sub a b), mul := fun a b => r (F64.mul a b),
    div := fun a b => r (F64.div a b), pow := fun a b => r (F64.pow a b),
    min := F64.fmin, max := F64.fmax, zero := .fin 0, one := F64.one, ofNat := fun n => r (F64.ofInt n) }

/-- binary32 arithmetic -/
def Alg.f32 : Alg F64 := Alg.narrowed F64.to32
/-- binary16 arithmetic (element by element; NumPy's float16 REDUCTIONS accumulate in binary32 and are not modelled) -/
def Alg.f16 : Alg F64 := Alg.narrowed F64.to16

/-- binary64 arithmetic: every operation rounds -/
def Alg.f64 : Alg F64 :=
  { add := F64.add, sub := F64.sub, mul := F64.mul, div := F64.div, pow := F64.pow,
    min := F64.fmin, max := F64.fmax, zero := .fin 0, one := F64.one, ofNat := fun n => F64.ofInt n }

end EkwVerif.Backend
