/-
C02, clause "… to a worker that exists … and satisfies the task's GPU requirement", the part BELOW the controller model
(re-audit C02 #1 / probe G): the `Cluster` the controller theorems quantify over is, in a real run, the `Environment` that
`Bridge.__init__` builds from the executors' registration messages (Model/BridgeInit.lean). Proved: whatever the order,
batching and repetition of the registrations, the controller believes that worker `i` of host `h` has a GPU exactly when the
executor of `h` registered it so, i.e. exactly when `i < CASCADE_GPU_COUNT(h)` — which by `c02_gpu_registered` /
`c02_gpu_own_device` is exactly when that worker process sees an existing device of its own; the workers of the Environment are
exactly the registered ones, without duplicates (hypothesis `WF.workersNodup` of the controller theorems).
Tied to the real code by harness/ekw/ctrl_bridge.py (`real_bridge_init`: the REAL `Bridge.__init__` fed with the registration
messages of the REAL `Executor.__init__`; driver op `bridge_init` of Drive/C02X.lean).
-/
import EkwVerif.Model.BridgeInit
import EkwVerif.Props.C02Exec

namespace EkwVerif.BridgeInit
open EkwVerif.Ctrl EkwVerif.ExecLayer

/-- the registrations come from executors: the message of host `h` is what `Executor.__init__` builds there -/
def FromExecutors (nW gpus : Nat → Nat) (msgs : List Reg) : Prop :=
  ∀ r ∈ msgs, r = execReg r.host (nW r.host) (gpus r.host)

namespace Aux

/-- the environment after any prefix: the registered hosts, each once, each with its executor's worker list -/
structure Inv (nW gpus : Nat → Nat) (s : BState) : Prop where
  nodup : s.hosts.Nodup
  env_eq : s.env = s.hosts.flatMap (fun h => (regGpu (gpus h) (nW h)).map (fun p => (⟨h, p.1⟩, p.2)))

theorem nodup_map_of_inj {α β : Type} (f : α → β) (hf : ∀ a b, f a = f b → a = b) : ∀ (l : List α), l.Nodup → (l.map f).Nodup := by
  intro l
  induction l with
  | nil => intro _; simp
  | cons a l ih =>
    intro h
    rw [List.nodup_cons] at h
    rw [List.map_cons, List.nodup_cons]
    refine ⟨?_, ih h.2⟩
    intro hm
    obtain ⟨b, hb, hab⟩ := List.mem_map.mp hm
    exact h.1 (hf _ _ hab ▸ hb)

theorem nodup_flatMap_of {α β : Type} (f : α → List β) : ∀ (l : List α), l.Nodup → (∀ a ∈ l, (f a).Nodup) →
    (∀ a ∈ l, ∀ b ∈ l, a ≠ b → ∀ x, x ∈ f a → x ∉ f b) → (l.flatMap f).Nodup := by
  intro l
  induction l with
  | nil => intro _ _ _; simp
  | cons a l ih =>
    intro hn hf hd
    rw [List.nodup_cons] at hn
    rw [List.flatMap_cons]
    refine List.nodup_append.mpr ⟨hf a List.mem_cons_self, ih hn.2 (fun b hb => hf b (List.mem_cons_of_mem _ hb))
      (fun b hb c hc => hd b (List.mem_cons_of_mem _ hb) c (List.mem_cons_of_mem _ hc)), ?_⟩
    intro x hx y hy hxy
    subst hxy
    obtain ⟨b, hb, hxb⟩ := List.mem_flatMap.mp hy
    have hab : a ≠ b := by intro e; subst e; exact hn.1 hb
    exact hd a List.mem_cons_self b (List.mem_cons_of_mem _ hb) hab x hx hxb

theorem inv_step (nW gpus : Nat → Nat) (s : BState) (r : Reg) (hr : r = execReg r.host (nW r.host) (gpus r.host))
    (h : Inv nW gpus s) : Inv nW gpus (recvReg s r) := by
  unfold recvReg
  split
  · exact h
  · rename_i hn
    refine ⟨?_, ?_⟩
    · exact List.nodup_append.mpr ⟨h.nodup, by simp, by
        intro a ha b hb; simp only [List.mem_singleton] at hb; subst hb; intro hab; subst hab; exact hn ha⟩
    · simp only [List.flatMap_append, List.flatMap_cons, List.flatMap_nil, List.append_nil, h.env_eq]
      congr 1
      rw [hr]; simp [execReg]

theorem inv_fold (nW gpus : Nat → Nat) : ∀ (msgs : List Reg) (s : BState), (∀ r ∈ msgs, r = execReg r.host (nW r.host) (gpus r.host)) →
    Inv nW gpus s → Inv nW gpus (msgs.foldl recvReg s) := by
  intro msgs
  induction msgs with
  | nil => intro s _ h; exact h
  | cons r rest ih =>
    intro s hm h
    exact ih _ (fun r' hr' => hm r' (List.mem_cons_of_mem _ hr')) (inv_step nW gpus s r (hm r List.mem_cons_self) h)

theorem hosts_fold : ∀ (msgs : List Reg) (s : BState) (h : Nat),
    h ∈ (msgs.foldl recvReg s).hosts ↔ h ∈ s.hosts ∨ ∃ r ∈ msgs, r.host = h := by
  intro msgs
  induction msgs with
  | nil => intro s h; simp
  | cons r rest ih =>
    intro s h
    rw [List.foldl_cons, ih]
    unfold recvReg
    split
    · rename_i hin
      constructor
      · rintro (h1 | ⟨r', hr', rfl⟩)
        · exact Or.inl h1
        · exact Or.inr ⟨r', List.mem_cons_of_mem _ hr', rfl⟩
      · rintro (h1 | ⟨r', hr', rfl⟩)
        · exact Or.inl h1
        · rcases List.mem_cons.mp hr' with rfl | hr'
          · exact Or.inl hin
          · exact Or.inr ⟨r', hr', rfl⟩
    · constructor
      · rintro (h1 | ⟨r', hr', rfl⟩)
        · simp only [List.mem_append, List.mem_singleton] at h1
          rcases h1 with h1 | rfl
          · exact Or.inl h1
          · exact Or.inr ⟨r, List.mem_cons_self, rfl⟩
        · exact Or.inr ⟨r', List.mem_cons_of_mem _ hr', rfl⟩
      · rintro (h1 | ⟨r', hr', rfl⟩)
        · exact Or.inl (by simp [h1])
        · rcases List.mem_cons.mp hr' with rfl | hr'
          · exact Or.inl (by simp)
          · exact Or.inr ⟨r', hr', rfl⟩

theorem mem_env (nW gpus : Nat → Nat) (s : BState) (h : Inv nW gpus s) (w : Worker) (b : Bool) :
    (w, b) ∈ s.env ↔ w.host ∈ s.hosts ∧ w.idx < nW w.host ∧ b = decide (w.idx < gpus w.host) := by
  rw [h.env_eq]
  simp only [List.mem_flatMap, List.mem_map, regGpu, List.mem_range, Prod.mk.injEq]
  constructor
  · rintro ⟨h', hh, p, ⟨a, ha, rfl⟩, rfl, rfl⟩
    exact ⟨hh, ha, rfl⟩
  · rintro ⟨hh, hi, rfl⟩
    exact ⟨w.host, hh, (w.idx, decide (w.idx < gpus w.host)), ⟨w.idx, hi, rfl⟩, rfl, rfl⟩

end Aux

/-- **The controller's Environment is what the executors registered** — for ANY order, batching and repetition of the
registration messages: (a) worker `i` of host `h` is in the Environment iff `h` registered and `i` is one of its `nW h` workers;
(b) the controller believes it has a GPU (`Cluster.hasGpu`, the predicate of `c02_assign_admissible` / `c02_worker_ok`) iff
`i < CASCADE_GPU_COUNT(h)`, i.e. iff the executor registered it with gpu = 1; (c) no worker is listed twice (`WF.workersNodup`). -/
theorem c02_env_matches_registration (nW gpus : Nat → Nat) (msgs : List Reg) (hm : FromExecutors nW gpus msgs) :
    let cl := (bridgeInit msgs).cluster
    (∀ w, w ∈ cl.ids ↔ (∃ r ∈ msgs, r.host = w.host) ∧ w.idx < nW w.host) ∧
    (∀ w, cl.hasGpu w = true ↔ (∃ r ∈ msgs, r.host = w.host) ∧ w.idx < nW w.host ∧ w.idx < gpus w.host) ∧
    cl.ids.Nodup := by
  intro cl
  have hI : Aux.Inv nW gpus (bridgeInit msgs) :=
    Aux.inv_fold nW gpus msgs BState.init hm ⟨List.nodup_nil, by simp [BState.init]⟩
  have hH : ∀ h, h ∈ (bridgeInit msgs).hosts ↔ ∃ r ∈ msgs, r.host = h := by
    intro h; rw [bridgeInit, Aux.hosts_fold]; simp [BState.init]
  have hmem := Aux.mem_env nW gpus _ hI
  refine ⟨?_, ?_, ?_⟩
  · intro w
    simp only [cl, BState.cluster, Cluster.ids, List.mem_map]
    constructor
    · rintro ⟨⟨w', b⟩, hp, rfl⟩
      obtain ⟨h1, h2, _⟩ := (hmem w' b).mp hp
      exact ⟨(hH _).mp h1, h2⟩
    · rintro ⟨h1, h2⟩
      exact ⟨(w, decide (w.idx < gpus w.host)), (hmem _ _).mpr ⟨(hH _).mpr h1, h2, rfl⟩, rfl⟩
  · intro w
    simp only [cl, BState.cluster, Cluster.hasGpu, List.any_eq_true, Bool.and_eq_true, beq_iff_eq]
    constructor
    · rintro ⟨⟨w', b⟩, hp, rfl, hb⟩
      obtain ⟨h1, h2, h3⟩ := (hmem w' b).mp hp
      simp only at hb
      rw [hb] at h3
      exact ⟨(hH _).mp h1, h2, by simpa using h3.symm⟩
    · rintro ⟨h1, h2, h3⟩
      exact ⟨(w, true), (hmem _ _).mpr ⟨(hH _).mpr h1, h2, by simp [h3]⟩, rfl, rfl⟩
  · -- no duplicates: hosts are distinct and each host lists its indices once
    simp only [cl, BState.cluster, Cluster.ids, hI.env_eq, List.map_flatMap]
    refine Aux.nodup_flatMap_of _ _ hI.nodup ?_ ?_
    · intro h _
      simp only [regGpu, List.map_map]
      refine Aux.nodup_map_of_inj _ ?_ _ List.nodup_range
      intro a b hab
      simpa [Function.comp_def] using hab
    · intro a _ b _ hab x hxa hxb
      simp only [regGpu, List.map_map, List.mem_map, List.mem_range, Function.comp_def] at hxa hxb
      obtain ⟨i, _, rfl⟩ := hxa
      obtain ⟨i', _, hEq⟩ := hxb
      exact hab (by simpa using (congrArg Worker.host hEq).symm)

/-- **The GPU requirement, end to end below the controller**: a worker the controller believes to have a GPU runs in a
process that sees exactly one device, its own, and that device exists (index < CASCADE_GPU_COUNT of its host). -/
theorem c02_believed_gpu_has_device (nW gpus : Nat → Nat) (msgs : List Reg) (hm : FromExecutors nW gpus msgs) (w : Worker)
    (hg : (bridgeInit msgs).cluster.hasGpu w = true) :
    visible (cudaFields w.idx) = [w.idx] ∧ w.idx < gpus w.host := by
  obtain ⟨_, _, h3⟩ := ((c02_env_matches_registration nW gpus msgs hm).2.1 w).mp hg
  exact ⟨c02_gpu_own_device w.idx, h3⟩

/-- non-vacuity: two hosts, registrations out of order with a repeat -/
example : (bridgeInit [execReg 1 2 1, execReg 0 3 3, execReg 1 2 1]).env =
    [(⟨1, 0⟩, true), (⟨1, 1⟩, false), (⟨0, 0⟩, true), (⟨0, 1⟩, true), (⟨0, 2⟩, true)] := by decide

end EkwVerif.BridgeInit
