/-
C13 — the DENOTATION of fluent programs, and the theorem that the constructed graph evaluates to it.

`Prog` is the syntax of fluent programs (every operation of the property: map, reduce and the named reductions,
mean/std, stack/concatenate/flatten, select/iselect, expand, broadcast, join, arithmetic, transform with a function given
as a program over the receiver). `Prog.build` is what the code does — it constructs the node array, with batching,
rewrites, join-then-reduce encodings and the `transform` loop (Model/Fluent.lean, tied to the real fluent.py by the
correspondence check). `Prog.den` is what the program MEANS — a value at every coordinate, computed with the value-level
operations of Lemmas/C13Val*.lean, in which batch sizes do not even occur.

`c13_denotation`: for every program, if `build` returns a node array `r`, then `r` has exactly the dimensions, coordinates
and scalar coordinates of the denotation, and the node at EVERY position evaluates to the denotation's value there — by
induction over the program, for every interpretation `S` of the payload functions that satisfies `Laws`.
`c13_batch_invariant_prog`: two programs that differ only in their batch sizes have the same denotation; if both build,
the two graphs have the same dims/coords and the same value at every position.
-/
import EkwVerif.Lemmas.C13Val2
import EkwVerif.Lemmas.C13Transform

namespace EkwVerif.Fluent

/-- fluent programs. `self` is the receiver a `transform` function is applied to. -/
inductive Prog
  | self
  | source (dims : List (String × List Coord)) (base : Nat)
  | map (p : Payload) (yields : Option (String × List Coord)) (a : Prog)
  | mapMany (ps : List Payload) (shape : List Nat) (a : Prog)
  | reduce (p : Payload) (yields : Option (String × List Coord)) (d : String) (b : Nat) (keep : Bool) (a : Prog)
  | named (name : String) (d : String) (b : Nat) (keep : Bool) (kw : List (String × Static)) (a : Prog)
  | mean (d : String) (b : Nat) (keep : Bool) (kw : List (String × Static)) (a : Prog)
  | std (d : String) (b : Nat) (keep : Bool) (kw : List (String × Static)) (a : Prog)
  | combine (method : String) (kw : List (String × Static)) (d : String) (b : Nat) (keep : Bool) (a : Prog)
  | flatten (d : String) (axis : Int) (kw : List (String × Static)) (a : Prog)
  | select (d : String) (s : Sel Coord) (drop : Bool) (a : Prog)
  | selectN (crit : List (String × Sel Coord)) (drop : Bool) (a : Prog)
  | iselect (d : String) (s : Sel Nat) (drop : Bool) (a : Prog)
  | iselectN (crit : List (String × Sel Nat)) (drop : Bool) (a : Prog)
  | expand (dim : DimArg) (spec : ExpandSpec) (kw : List (String × Static)) (axis : Nat) (a : Prog)
  | broadcast (a b : Prog) (exclude : List String)
  | join (a b : Prog) (dim : DimArg) (mtch : Bool)
  | arithScalar (fn : String) (k : Static) (a : Prog)
  | arith (fn : String) (a b : Prog)
  | transform (body : Static → Prog) (params : List Static) (dim : DimArg) (axis : Nat) (a : Prog)

/-- **what the code builds** -/
def Prog.build (self : NodeArray) : Prog → Except Err NodeArray
  | .self => .ok self
  | .source dims base => .ok (fromSource dims base)
  | .map p y a => (a.build self).map (Fluent.map p y)
  | .mapMany ps shape a => a.build self >>= Fluent.mapMany ps shape
  | .reduce p y d b keep a => a.build self >>= Fluent.reduce p y d b keep
  | .named name d b keep kw a => a.build self >>= Fluent.named name d b keep kw
  | .mean d b keep kw a => a.build self >>= Fluent.mean d b keep kw
  | .std d b keep kw a => a.build self >>= Fluent.std d b keep kw
  | .combine m kw d b keep a => a.build self >>= Fluent.combine m kw d b keep
  | .flatten d axis kw a => a.build self >>= Fluent.flattenKw d axis kw
  | .select d s drop a => a.build self >>= Fluent.select d s drop
  | .selectN crit drop a => a.build self >>= Fluent.selectN crit drop
  | .iselect d s drop a => a.build self >>= Fluent.iselect d s drop
  | .iselectN crit drop a => a.build self >>= Fluent.iselectN crit drop
  | .expand dim spec kw axis a => a.build self >>= Fluent.expandG dim spec kw axis
  | .broadcast a b ex => a.build self >>= fun x => b.build self >>= fun y => Fluent.broadcastX x y ex
  | .join a b dim m => a.build self >>= fun x => b.build self >>= fun y => Fluent.join x y dim m
  | .arithScalar fn k a => (a.build self).map (Fluent.arithScalar fn k)
  | .arith fn a b => a.build self >>= fun x => b.build self >>= fun y => Fluent.arithAction fn x y
  | .transform body params dim axis a =>
    a.build self >>= Fluent.transform (fun s p => (body p).build s) params dim axis

/-- **what the program means**: a value at every coordinate. Batch sizes do not occur. -/
def Prog.den {V : Type} (S : Sem V) (Self : VArr V) : Prog → VArr V
  | .self => Self
  | .source dims base => vsource S dims base
  | .map p y a => vmap S p y (a.den S Self)
  | .mapMany ps _ a => vmapMany S ps (a.den S Self)
  | .reduce p y d _ keep a => vreduce S p y d keep (a.den S Self)
  | .named name d _ keep kw a => vreduce S (backendPayload name kw) none d keep (a.den S Self)
  | .mean d _ keep kw a => vreduce S (backendPayload "mean" kw) none d keep (a.den S Self)
  | .std d _ keep kw a => vreduce S (backendPayload "std" kw) none d keep (a.den S Self)
  | .combine m kw d _ keep a => vcombine S m kw d keep (a.den S Self)
  | .flatten d axis kw a => vreduce S (backendPayload "stack" (("axis", .num axis) :: kw)) none d false (a.den S Self)
  | .select d s drop a => vselect d s drop (a.den S Self)
  | .selectN crit drop a => vselectN crit drop (a.den S Self)
  | .iselect d s drop a => viselect d s drop (a.den S Self)
  | .iselectN crit drop a => viselectN crit drop (a.den S Self)
  | .expand dim spec kw axis a => vexpand S dim spec kw axis (a.den S Self)
  | .broadcast a b ex => vbroadcast (a.den S Self) (b.den S Self) ex
  | .join a b dim m => vjoin (a.den S Self) (b.den S Self) dim m
  | .arithScalar fn k a => varithScalar S fn k (a.den S Self)
  | .arith fn a b => varith S fn (a.den S Self) (b.den S Self)
  | .transform body params dim axis a =>
    vtransform (fun X p => (body p).den S X) params dim axis (a.den S Self)

/-- Well-formed programs: the program introduces no dimension under a name the implementation reserves for itself
(`batch.<level>.<dim>`, `**datatype**`), and the payloads it reduces with — the user's and the backend functions behind
the named reductions, `sum` behind mean/std, `stack`/`concat` — belong to the class `Bat` (for which marked-batchable
means batchable: `Batchable S Bat`). -/
def Prog.WF (Bat : Payload → Prop) : Prog → Prop
  | .self => True
  | .source dims _ => ∀ x ∈ dims, ¬ Reserved x.1
  | .map _ y a => (∀ v, y = some v → ¬ Reserved v.1) ∧ a.WF Bat
  | .mapMany _ _ a => a.WF Bat
  | .reduce p y _ _ _ a => Bat p ∧ (∀ v, y = some v → ¬ Reserved v.1) ∧ a.WF Bat
  | .named name _ _ _ kw a => Bat (backendPayload name kw) ∧ a.WF Bat
  | .mean _ _ _ kw a => Bat (backendPayload "sum" kw) ∧ a.WF Bat
  | .std _ _ _ kw a => Bat (backendPayload "sum" kw) ∧ a.WF Bat
  | .combine m kw _ _ _ a => Bat (backendPayload m kw) ∧ a.WF Bat
  | .flatten _ _ _ a => a.WF Bat
  | .select _ _ _ a => a.WF Bat
  | .selectN _ _ a => a.WF Bat
  | .iselect _ _ _ a => a.WF Bat
  | .iselectN _ _ a => a.WF Bat
  | .expand dim _ _ _ a => ¬ Reserved dim.dimName ∧ a.WF Bat
  | .broadcast a b _ => a.WF Bat ∧ b.WF Bat
  | .join a b dim _ => ¬ Reserved dim.dimName ∧ a.WF Bat ∧ b.WF Bat
  | .arithScalar _ _ a => a.WF Bat
  | .arith _ a b => a.WF Bat ∧ b.WF Bat
  | .transform body _ dim _ a => ¬ Reserved dim.dimName ∧ a.WF Bat ∧ ∀ p, (body p).WF Bat

/-- the same program with every batch size set to 0 -/
def Prog.unbatched : Prog → Prog
  | .self => .self
  | .source dims base => .source dims base
  | .map p y a => .map p y a.unbatched
  | .mapMany ps sh a => .mapMany ps sh a.unbatched
  | .reduce p y d _ keep a => .reduce p y d 0 keep a.unbatched
  | .named name d _ keep kw a => .named name d 0 keep kw a.unbatched
  | .mean d _ keep kw a => .mean d 0 keep kw a.unbatched
  | .std d _ keep kw a => .std d 0 keep kw a.unbatched
  | .combine m kw d _ keep a => .combine m kw d 0 keep a.unbatched
  | .flatten d axis kw a => .flatten d axis kw a.unbatched
  | .select d s drop a => .select d s drop a.unbatched
  | .selectN crit drop a => .selectN crit drop a.unbatched
  | .iselect d s drop a => .iselect d s drop a.unbatched
  | .iselectN crit drop a => .iselectN crit drop a.unbatched
  | .expand dim spec kw axis a => .expand dim spec kw axis a.unbatched
  | .broadcast a b ex => .broadcast a.unbatched b.unbatched ex
  | .join a b dim m => .join a.unbatched b.unbatched dim m
  | .arithScalar fn k a => .arithScalar fn k a.unbatched
  | .arith fn a b => .arith fn a.unbatched b.unbatched
  | .transform body params dim axis a => .transform (fun p => (body p).unbatched) params dim axis a.unbatched

namespace Aux

theorem bind_ok {α β : Type} {x : Except Err α} {f : α → Except Err β} {r : β} (h : (x >>= f) = .ok r) :
    ∃ a, x = .ok a ∧ f a = .ok r := by
  cases x with
  | error e => simp [bind, Except.bind] at h
  | ok a => exact ⟨a, rfl, h⟩

theorem map_ok {α β : Type} {x : Except Err α} {f : α → β} {r : β} (h : x.map f = .ok r) :
    ∃ a, x = .ok a ∧ f a = r := by
  cases x with
  | error e => simp [Except.map] at h
  | ok a => exact ⟨a, rfl, by simpa [Except.map] using h⟩

end Aux

open Aux

/-- **The constructed graph evaluates to the denotation** — for every program built from the operations of the fluent
API, every interpretation `S` of the payload functions satisfying `Laws`, and every receiver: if `build` returns the
node array `r`, then `r` has the dimensions, coordinates and scalar coordinates of `p.den`, the node at EVERY position
evaluates to the value `p.den` has there, and the hygiene invariants hold again. By induction over the program. -/
theorem c13_denotation {V : Type} (S : Sem V) (L : Laws S) (Bat : Payload → Prop) (hB : Batchable S Bat) (p : Prog) :
    ∀ (self : NodeArray) (Self : VArr V), Good S self Self → p.WF Bat → ∀ r, p.build self = .ok r →
      Good S r (p.den S Self) := by
  induction p with
  | self => intro self Self g _ r h; cases h; exact g
  | source dims base =>
    intro self Self _ hn r h
    cases h
    exact good_source S dims base hn
  | map p y a ih =>
    intro self Self g hn r h
    obtain ⟨x, hx, rfl⟩ := map_ok h
    exact good_map (ih self Self g hn.2 x hx) p y hn.1
  | mapMany ps shape a ih =>
    intro self Self g hn r h
    obtain ⟨x, hx, hr⟩ := bind_ok h
    exact good_mapMany (ih self Self g hn x hx) ps shape hr
  | reduce p y d b keep a ih =>
    intro self Self g hn r h
    obtain ⟨x, hx, hr⟩ := bind_ok h
    exact good_reduce (ih self Self g hn.2.2 x hx) p (hB p hn.1) y hn.2.1 d b keep hr
  | named name d b keep kw a ih =>
    intro self Self g hn r h
    obtain ⟨x, hx, hr⟩ := bind_ok h
    exact good_named (ih self Self g hn.2 x hx) name d b keep kw (hB _ hn.1) hr
  | mean d b keep kw a ih =>
    intro self Self g hn r h
    obtain ⟨x, hx, hr⟩ := bind_ok h
    exact good_mean L (ih self Self g hn.2 x hx) d b keep kw (hB _ hn.1 (by simp [backendPayload, marks.2.2.2])) hr
  | std d b keep kw a ih =>
    intro self Self g hn r h
    obtain ⟨x, hx, hr⟩ := bind_ok h
    exact good_std L (ih self Self g hn.2 x hx) d b keep kw (hB _ hn.1 (by simp [backendPayload, marks.2.2.2])) hr
  | combine m kw d b keep a ih =>
    intro self Self g hn r h
    obtain ⟨x, hx, hr⟩ := bind_ok h
    exact good_combine (ih self Self g hn.2 x hx) m kw d b keep (hB _ hn.1) hr
  | flatten d axis kw a ih =>
    intro self Self g hn r h
    obtain ⟨x, hx, hr⟩ := bind_ok h
    exact good_flatten (ih self Self g hn x hx) d axis kw hr
  | select d s drop a ih =>
    intro self Self g hn r h
    obtain ⟨x, hx, hr⟩ := bind_ok h
    exact good_select (ih self Self g hn x hx) d s drop hr
  | selectN crit drop a ih =>
    intro self Self g hn r h
    obtain ⟨x, hx, hr⟩ := bind_ok h
    exact good_selectN (ih self Self g hn x hx) crit drop hr
  | iselect d s drop a ih =>
    intro self Self g hn r h
    obtain ⟨x, hx, hr⟩ := bind_ok h
    exact good_iselect (ih self Self g hn x hx) d s drop hr
  | iselectN crit drop a ih =>
    intro self Self g hn r h
    obtain ⟨x, hx, hr⟩ := bind_ok h
    exact good_iselectN (ih self Self g hn x hx) crit drop hr
  | expand dim spec kw axis a ih =>
    intro self Self g hn r h
    obtain ⟨x, hx, hr⟩ := bind_ok h
    exact good_expand (ih self Self g hn.2 x hx) dim spec kw axis hn.1 hr
  | broadcast a b ex iha ihb =>
    intro self Self g hn r h
    obtain ⟨x, hx, h2⟩ := bind_ok h
    obtain ⟨y, hy, hr⟩ := bind_ok h2
    exact good_broadcast L (iha self Self g hn.1 x hx) (ihb self Self g hn.2 y hy) ex hr
  | join a b dim m iha ihb =>
    intro self Self g hn r h
    obtain ⟨x, hx, h2⟩ := bind_ok h
    obtain ⟨y, hy, hr⟩ := bind_ok h2
    exact good_join (iha self Self g hn.2.1 x hx) (ihb self Self g hn.2.2 y hy) dim m hn.1 hr
  | arithScalar fn k a ih =>
    intro self Self g hn r h
    obtain ⟨x, hx, rfl⟩ := map_ok h
    exact good_arithScalar (ih self Self g hn x hx) fn k
  | arith fn a b iha ihb =>
    intro self Self g hn r h
    obtain ⟨x, hx, h2⟩ := bind_ok h
    obtain ⟨y, hy, hr⟩ := bind_ok h2
    exact good_arith (iha self Self g hn.1 x hx) (ihb self Self g hn.2 y hy) fn hr
  | transform body params dim axis a ihb iha =>
    intro self Self g hn r h
    obtain ⟨x, hx, hr⟩ := bind_ok h
    have gx := iha self Self g hn.2.1 x hx
    exact good_transform (fun s p => (body p).build s) (fun X p => (body p).den S X)
      (fun p rp hp => ihb p x _ gx (hn.2.2 p) rp hp) params dim hn.1 axis hr

/-- the empty receiver of a closed program -/
def noSelf : NodeArray := ⟨[], [], fun _ => .src 0⟩

def noSelfV {V : Type} (S : Sem V) : VArr V := ⟨[], [], fun _ => S.src 0⟩

namespace Aux
theorem good_noSelf {V : Type} (S : Sem V) : Good S noSelf (noSelfV S) :=
  ⟨rfl, rfl, fun _ => rfl, fun _ _ _ _ => rfl, by simp [noSelf], by simp [noSelf]⟩
end Aux

/-- **Closed programs**: value at every coordinate, and the documented index space, in one statement. -/
theorem c13_denotation_closed {V : Type} (S : Sem V) (L : Laws S) (Bat : Payload → Prop) (hB : Batchable S Bat)
    (p : Prog) (hwf : p.WF Bat) (r : NodeArray) (h : p.build noSelf = .ok r) :
    r.dims = (p.den S (noSelfV S)).dims ∧ r.scalars = (p.den S (noSelfV S)).scalars ∧
    ∀ ix, (r.node ix).eval S = (p.den S (noSelfV S)).val ix :=
  let g := c13_denotation S L Bat hB p noSelf (noSelfV S) (good_noSelf S) hwf r h
  ⟨g.dims, g.scalars, g.val⟩

/-- the denotation does not look at batch sizes -/
theorem c13_den_unbatched {V : Type} (S : Sem V) (p : Prog) : ∀ Self : VArr V, p.unbatched.den S Self = p.den S Self := by
  induction p with
  | self => intro _; rfl
  | source => intro _; rfl
  | transform body params dim axis a ihb iha =>
    intro Self
    simp only [Prog.unbatched, Prog.den, iha]
    congr 1
    funext X p
    exact ihb p X
  | broadcast a b ex iha ihb => intro Self; simp only [Prog.unbatched, Prog.den, iha, ihb]
  | join a b dim m iha ihb => intro Self; simp only [Prog.unbatched, Prog.den, iha, ihb]
  | arith fn a b iha ihb => intro Self; simp only [Prog.unbatched, Prog.den, iha, ihb]
  | _ => intro Self; simp only [Prog.unbatched, Prog.den, *]

namespace Aux
theorem wf_unbatched (Bat : Payload → Prop) (p : Prog) : p.WF Bat → p.unbatched.WF Bat := by
  induction p with
  | self => intro h; exact h
  | source => intro h; exact h
  | transform body params dim axis a ihb iha =>
    intro h
    exact ⟨h.1, iha h.2.1, fun q => ihb q (h.2.2 q)⟩
  | broadcast a b ex iha ihb => intro h; exact ⟨iha h.1, ihb h.2⟩
  | join a b dim m iha ihb => intro h; exact ⟨h.1, iha h.2.1, ihb h.2.2⟩
  | arith fn a b iha ihb => intro h; exact ⟨iha h.1, ihb h.2⟩
  | reduce p y d b keep a ih => intro h; exact ⟨h.1, h.2.1, ih h.2.2⟩
  | map p y a ih => intro h; exact ⟨h.1, ih h.2⟩
  | named name d b keep kw a ih => intro h; exact ⟨h.1, ih h.2⟩
  | mean d b keep kw a ih => intro h; exact ⟨h.1, ih h.2⟩
  | std d b keep kw a ih => intro h; exact ⟨h.1, ih h.2⟩
  | combine m kw d b keep a ih => intro h; exact ⟨h.1, ih h.2⟩
  | expand dim spec kw axis a ih => intro h; exact ⟨h.1, ih h.2⟩
  | mapMany ps sh a ih => intro h; exact ih h
  | flatten d axis kw a ih => intro h; exact ih h
  | select d s drop a ih => intro h; exact ih h
  | selectN crit drop a ih => intro h; exact ih h
  | iselect d s drop a ih => intro h; exact ih h
  | iselectN crit drop a ih => intro h; exact ih h
  | arithScalar fn k a ih => intro h; exact ih h
end Aux

/-- **Batch invariance for whole programs.** Choosing any batch sizes anywhere in a program (named reductions,
mean/std, concatenate, user reductions, also inside `transform` functions) changes only the shape of the graph: if the
program and the program with all batch sizes set to 0 both build, the two node arrays have the same dimensions,
coordinates and scalar coordinates, and at EVERY position the two nodes evaluate to the same value. -/
theorem c13_batch_invariant_prog {V : Type} (S : Sem V) (L : Laws S) (Bat : Payload → Prop) (hB : Batchable S Bat)
    (p : Prog) (hwf : p.WF Bat) (self : NodeArray) (Self : VArr V) (g : Good S self Self) (r r0 : NodeArray)
    (h : p.build self = .ok r) (h0 : p.unbatched.build self = .ok r0) :
    r.dims = r0.dims ∧ r.scalars = r0.scalars ∧ ∀ ix, (r.node ix).eval S = (r0.node ix).eval S := by
  have g1 := c13_denotation S L Bat hB p self Self g hwf r h
  have g0 := c13_denotation S L Bat hB p.unbatched self Self g (wf_unbatched Bat p hwf) r0 h0
  rw [c13_den_unbatched] at g0
  exact ⟨g1.dims.trans g0.dims.symm, g1.scalars.trans g0.scalars.symm, fun ix => (g1.val ix).trans (g0.val ix).symm⟩

/-- Side conditions of the generated table `Gen/FluentMarks.lean` (read from backends/__init__.py on every run of the
check): `mean`, `std` and `stack` are NOT marked batchable — hence `Action.mean` / `Action.std` rewrite a batched call
through `sum`, and `stack` refuses a batch size — while `sum` (on which the rewrites rest) and `concat` are; no function is
in both lists. -/
theorem c13_marks : isBatchableName "mean" = false ∧ isBatchableName "std" = false ∧ isBatchableName "stack" = false ∧
    isBatchableName "sum" = true ∧ isBatchableName "concat" = true ∧
    (∀ n ∈ Gen.fluentBatchable, n ∉ Gen.fluentNotBatchable) := by decide

/-! ### the derived operations, directly -/

/-- **`transform`**: with at least two parameters, and a function whose results do not already carry a coordinate named
like the new dimension (nor depend on an index of that name): the result has that dimension, with a coordinate whose
labels are the given ones (`0 … n-1` for a plain name) in the order of the parameters, and position `i` along it IS the
result of the function for the `i`-th parameter — whatever the loop of joins did in between. -/
theorem c13_value_transform {P : Type} (f : NodeArray → P → Except Err NodeArray) (params : List P) (dim : DimArg)
    (axis : Nat) (a r : NodeArray) (hn : 2 ≤ params.length)
    (hp : ∀ p rp, p ∈ params → f a p = .ok rp → rp.hasCoord dim.dimName = false ∧ Indep rp dim.dimName)
    (h : transform f params dim axis a = .ok r) :
    (∃ x, r.findDim dim.dimName = some x ∧ x.indexed = true ∧ x.labels = (dimValues dim params).take params.length ∧
        x.labels.length = params.length) ∧
    ∀ ix, ix dim.dimName < params.length →
      ∃ p rp, params[ix dim.dimName]? = some p ∧ f a p = .ok rp ∧ r.node ix = rp.node ix := by
  rw [transform_eq] at h
  cases hout : transformLoop f dim.dimName (dimValues dim params) axis a params 0 none with
  | error e => simp [hout, bind, Except.bind] at h
  | ok out =>
    simp only [hout, bind, Except.bind] at h
    cases out with
    | none => simp [throw, throwThe, MonadExceptOf.throw] at h
    | some res =>
      simp only [] at h
      have hacc := transformLoop_acc f a params dim.dimName (dimValues dim params) axis hp params 0 none (some res)
        (by intro j p hj; simpa using hj) rfl hout res rfl
      simp only [Nat.zero_add] at hacc
      obtain ⟨x, hx, hxi, hxl, hxlen⟩ := hacc.dim
      -- more than one element: nothing to squeeze
      have : squeeze res dim.dimName false = .ok res := by
        unfold squeeze
        simp only [hx]
        have : ¬ (x.labels.length == 1) = true := by simp; omega
        simp [this]
      rw [this] at h
      cases h
      exact ⟨⟨x, hx, hxi, hxl, hxlen⟩, hacc.node⟩

/-- **`expand`** (`internal_dim` an index or a name with `dim_size ≥ 2`, or a `Coord` with at least two criteria): the
new dimension has the given labels (`0 … n-1` for a plain name), and the node at position `i` along it is
`take(<node of the operand at the same position>, index_i, dim=internal_dim, **backend_kwargs)` — so it evaluates to the
backend's `take` of the operand's value there. -/
theorem c13_value_expand {V : Type} (S : Sem V) (dim : DimArg) (spec : ExpandSpec) (kw : List (String × Static)) (axis : Nat)
    (a r : NodeArray) (internal : Static) (params : List Static) (hs : expandParams spec = .ok (internal, params))
    (hn : 2 ≤ params.length) (hc : a.hasCoord dim.dimName = false) (hi : Indep a dim.dimName)
    (h : expandG dim spec kw axis a = .ok r) :
    (∃ x, r.findDim dim.dimName = some x ∧ x.indexed = true ∧ x.labels = (dimValues dim params).take params.length) ∧
    ∀ ix, ix dim.dimName < params.length → ∃ index, params[ix dim.dimName]? = some index ∧
      (r.node ix).eval S = S.fn "take" (("dim", internal) :: kw) [.val ((a.node ix).eval S), .lit index] := by
  have hp : ∀ (p : Static) (rp : NodeArray), p ∈ params → expandTransformKw internal kw a p = .ok rp →
      rp.hasCoord dim.dimName = false ∧ Indep rp dim.dimName := by
    intro p rp _ hrp
    simp only [expandTransformKw] at hrp
    cases hrp
    refine ⟨hc, ?_⟩
    intro ix v
    simp only [map, withYields]
    rw [hi]
  have ht : transform (expandTransformKw internal kw) params dim axis a = .ok r := by
    unfold expandG at h
    simp only [hs] at h
    split at h
    · split at h
      · cases h
      · exact h
    · exact h
  obtain ⟨⟨x, hx, hxi, hxl, _⟩, hnode⟩ := c13_value_transform _ params dim axis a r hn hp ht
  refine ⟨⟨x, hx, hxi, hxl⟩, ?_⟩
  intro ix hix
  obtain ⟨p, rp, hpi, hrp, hn⟩ := hnode ix hix
  refine ⟨p, hpi, ?_⟩
  simp only [expandTransformKw] at hrp
  cases hrp
  rw [hn]
  simp [map, withYields, eval_mkNode, Payload.apply, fillTmpl, resolve]

/-- **`flatten`** is the reduction with the backend's `stack` (axis first among the keyword arguments): one node per
remaining position, evaluating to `stack(values along the dimension, in coordinate order, axis=…)`. -/
theorem c13_value_flatten {V : Type} (S : Sem V) (a : NodeArray) (d : String) (axis : Int) (kw : List (String × Static))
    (hd : d ≠ "") (hdim : (a.findDim d).isSome) (hs : a.scalar? d = none) :
    ∃ r, flattenKw d axis kw a = .ok r ∧ r.dims = restDims a d ∧
      ∀ ix, (r.node ix).eval S =
        semRed S "stack" (("axis", .num axis) :: kw) ((List.range (a.dimSize d)).map (fun i => (a.node (ix.set d i)).eval S)) := by
  obtain ⟨r, hr, hdims, _, hv⟩ := c13_reduce S (backendPayload "stack" (("axis", .num axis) :: kw)) a d false hd hdim hs
  refine ⟨r, hr, by simpa using hdims, ?_⟩
  intro ix
  rw [hv ix, apply_backend]

namespace Aux
theorem mapM_selLoc (x : Dim) (hidx : x.indexed = true) :
    ∀ (cs : List Coord) (is : List Nat), cs.mapM (selLoc x) = .ok is →
      is.length = cs.length ∧ ∀ (k i : Nat), is[k]? = some i → ∃ c, cs[k]? = some c ∧ x.labels[i]? = some c ∧
        ∀ j, x.labels[j]? = some c → j = i := by
  intro cs
  induction cs with
  | nil =>
    intro is h
    simp only [List.mapM_nil, pure, Except.pure] at h
    cases h
    exact ⟨rfl, by simp⟩
  | cons c cs ih =>
    intro is h
    simp only [List.mapM_cons, bind, Except.bind] at h
    split at h
    · cases h
    · rename_i i hi
      split at h
      · cases h
      · rename_i is' his'
        simp only [pure, Except.pure] at h
        cases h
        obtain ⟨hl, hk⟩ := ih is' his'
        refine ⟨by simp [hl], ?_⟩
        intro k j hkj
        cases k with
        | zero =>
          simp at hkj
          subst hkj
          have : locate x.labels c = .ok i := by simpa [selLoc, hidx] using hi
          obtain ⟨h1, h2⟩ := locate_spec x.labels c i this
          exact ⟨c, by simp, h1, h2⟩
        | succ k =>
          obtain ⟨c', h1, h2, h3⟩ := hk k j (by simpa using hkj)
          exact ⟨c', by simpa using h1, h2, h3⟩
end Aux

/-- **`select` with a LIST of values** on a dimension with a coordinate: the dimension stays, its labels are the
requested ones in the requested order, and position `k` along it is the node of the operand at THE position whose label is
the `k`-th requested value. -/
theorem c13_value_select_many (a : NodeArray) (d : String) (cs : List Coord) (drop : Bool) (x : Dim) (r : NodeArray)
    (hx : a.findDim d = some x) (hidx : x.indexed = true) (h : select d (.many cs) drop a = .ok r) :
    ∃ is : List Nat, is.length = cs.length ∧
      (∀ (k i : Nat), is[k]? = some i → ∃ c, cs[k]? = some c ∧ x.labels[i]? = some c ∧ ∀ j, x.labels[j]? = some c → j = i) ∧
      (∀ ix, r.node ix = a.node (ix.set x.name (is.getD (ix x.name) 0))) ∧
      r.dims.map (·.name) = a.dims.map (·.name) ∧
      (∀ z ∈ r.dims, z.name = x.name → z.labels = is.map (fun i => x.labels.getD i default)) := by
  have h := select_many a d cs drop x hx r h
  cases his : cs.mapM (selLoc x) with
  | error e => simp [his, Except.map] at h
  | ok is =>
    simp only [his, Except.map] at h
    cases h
    obtain ⟨hl, hk⟩ := mapM_selLoc x hidx cs is his
    refine ⟨is, hl, hk, fun _ => rfl, ?_, ?_⟩
    · simp only [pick, List.map_map]
      apply List.map_congr_left
      intro y _
      simp only [Function.comp]
      split <;> rfl
    · intro z hz hzn
      simp only [pick, List.mem_map] at hz
      obtain ⟨y, _, rfl⟩ := hz
      by_cases hyx : y.name = x.name
      · simp [hyx, hidx]
      · simp only [hyx, ↓reduceIte] at hzn

/-- **`join(…, match_coord_values=True)`**: the other array is joined with ITS nodes unchanged, but under the coordinate
values of the first array — for every dimension both have (with a coordinate on both sides) its labels become those of the
first array, so that the join is by POSITION along those dimensions. -/
theorem c13_value_join_match (a b r : NodeArray) (dim : DimArg) (h : join a b dim true = .ok r) :
    ∃ b', matchCoords a b = .ok b' ∧ join a b' dim false = .ok r ∧ b'.node = b.node ∧
      b'.dims.map (·.name) = b.dims.map (·.name) ∧
      (∀ y ∈ b.dims, ∀ x, y.indexed = true → a.findDim y.name = some x → x.indexed = true →
        matchDim a y = .ok { y with labels := x.labels }) := by
  simp only [join, ↓reduceIte] at h
  split at h
  · cases h
  · rename_i b' hb'
    obtain ⟨hnode, hnames, _⟩ := matchCoords_spec a b b' hb'
    refine ⟨b', hb', by simpa [join] using h, hnode, hnames, ?_⟩
    intro y hy x hyi hx hxi
    -- the join succeeded, so `matchDim` did for every dimension of `b`: with equal sizes the labels are `a`'s
    have hok : ∃ y', matchDim a y = .ok y' := by
      unfold matchCoords at hb'
      split at hb'
      · cases hb'
      · rename_i dims hd
        have key : ∀ (l : List Dim) (l' : List Dim), l.mapM (matchDim a) = .ok l' → ∀ z ∈ l, ∃ z', matchDim a z = .ok z' := by
          intro l
          induction l with
          | nil => intro _ _ z hz; cases hz
          | cons w ws ih =>
            intro l' hl z hz
            simp only [List.mapM_cons, bind, Except.bind] at hl
            split at hl
            · cases hl
            · rename_i w' hw'
              split at hl
              · cases hl
              · rename_i ws' hws'
                rcases List.mem_cons.mp hz with rfl | hz
                · exact ⟨w', hw'⟩
                · exact ih ws' hws' z hz
        exact key b.dims dims hd y hy
    obtain ⟨y', hy'⟩ := hok
    unfold matchDim at hy' ⊢
    simp only [hyi, Bool.not_true, Bool.false_eq_true, ↓reduceIte, hx, hxi] at hy' ⊢
    split at hy'
    · rename_i hlen
      simp [hlen]
    · cases hy'

/-! ### the exact rational interpretation satisfies the laws -/

/-- the reductions `ratSem` interprets: the backend's `sum` (on which mean and std rest) -/
def ratBat (p : Payload) : Prop := p.fn = "sum" ∧ p.tmpl = []

/-- **`ratSem` satisfies `Laws`**, whatever the opaque symbol `unk` is: `trivial` is the identity, the mean is the sum
divided by the count, and `std` — DEFINED as the (opaque) root of the mean squared deviation from the mean — equals the
root of `Σx²/n − (Σx/n)²` by `c13_mean_std_identity`. -/
theorem c13_laws_rat (src : Nat → Rat) (unk : Unk) : Laws (ratSem src unk) := by
  refine ⟨?_, ?_, ?_⟩
  · intro kw v
    simp [ratSem, ratFn]
  · intro kw vals _
    simp [semRed, ratSem, ratFn, allVals_map_val, natStatic]
  · intro kw vals hne
    have hid := c13_mean_std_identity vals hne
    have h12 : ¬ ((1 : Rat) / 2 = 2) := by grind
    have hsq : ∀ x : Rat, semSq (ratSem src unk) x = x * x := by
      intro x; simp [semSq, ratSem, ratFn]
    have hsqs : vals.map (semSq (ratSem src unk)) = vals.map (fun x => x * x) := List.map_congr_left (fun x _ => hsq x)
    rw [hsq, hsqs]
    simp only [semRed, ratSem, ratFn, allVals_map_val, natStatic, h12, ↓reduceIte, popVar]
    rw [← hid]

/-- …and `sum` over exact rationals is batchable -/
theorem c13_batchable_rat (src : Nat → Rat) (unk : Unk) : Batchable (ratSem src unk) ratBat := by
  intro p hp _
  obtain ⟨fn, tmpl, kw, b⟩ := p
  obtain ⟨h1, h2⟩ := hp
  simp only at h1 h2
  subst h1; subst h2
  have := sum_batchable src unk kw
  have e : Payload.apply (ratSem src unk) { fn := "sum", tmpl := [], kw := kw, batchable := b }
      = (backendPayload "sum" kw).apply (ratSem src unk) := by
    funext vals; rfl
  rw [e]; exact this

/-! ### non-vacuity: a concrete program through the main theorems -/

/-- `from_source(2×5).std("d1", batch_size=2).transform(lambda a, k: a.multiply(k), [2, 3], "t")` -/
def exProg : Prog :=
  .transform (fun k => .arithScalar "multiply" k .self) [.num 2, .num 3] (.name "t") 0
    (.std "d1" 2 false [] (.source [("d0", [.int 0, .int 10]), ("d1", [.int 0, .int 10, .int 20, .int 30, .int 40])] 0))

namespace Aux
theorem exProg_wf : exProg.WF ratBat := by
  refine ⟨not_reserved_of_short _ (by decide), ⟨⟨rfl, rfl⟩, ?_⟩, fun _ => trivial⟩
  intro x hx
  simp only [List.mem_cons, List.mem_nil_iff, or_false] at hx
  rcases hx with rfl | rfl <;> exact not_reserved_of_short _ (by decide)
end Aux

-- it builds (batched std: sum in batches 2,2,1 then 2,1, twice, subtract, root), with the documented index space …
example : ∃ r, exProg.build noSelf = .ok r ∧ r.dims.map (·.name) = ["t", "d0"] ∧
    r.dims.map (·.labels) = [[.int 0, .int 1], [.int 0, .int 10]] := ⟨_, rfl, by decide, by decide⟩

-- … every node evaluates to the denotation, for EVERY opaque symbol …
example (src : Nat → Rat) (unk : Unk) : ∃ r, exProg.build noSelf = .ok r ∧
    ∀ ix, (r.node ix).eval (ratSem src unk) = (exProg.den (ratSem src unk) (noSelfV (ratSem src unk))).val ix :=
  ⟨_, rfl, (c13_denotation_closed _ (c13_laws_rat src unk) ratBat (c13_batchable_rat src unk) exProg exProg_wf _ rfl).2.2⟩

-- … and the program with batch size 0 (ONE `std` node per position) builds too and has the same values everywhere
example (src : Nat → Rat) (unk : Unk) : ∃ r r0, exProg.build noSelf = .ok r ∧ exProg.unbatched.build noSelf = .ok r0 ∧
    r.dims = r0.dims ∧ ∀ ix, (r.node ix).eval (ratSem src unk) = (r0.node ix).eval (ratSem src unk) := by
  refine ⟨_, _, rfl, rfl, ?_⟩
  have := c13_batch_invariant_prog _ (c13_laws_rat src unk) ratBat (c13_batchable_rat src unk) exProg exProg_wf
    noSelf (noSelfV (ratSem src unk)) (good_noSelf _) _ _ rfl rfl
  exact ⟨this.1, this.2.2⟩

-- the unbatched graph at t=1, d0=1 is multiply(std(s5 … s9), 3)
example : (match exProg.unbatched.build noSelf with
    | .ok r => some (r.node (fun n => if n = "t" then 1 else if n = "d0" then 1 else 0)) | .error _ => none)
  = some (mkNode { fn := "multiply", tmpl := [.inp 0, .lit (.num 3)] }
      [mkNode (backendPayload "std" []) [.src 5, .src 6, .src 7, .src 8, .src 9]]) := rfl

-- `transform`, directly: position 1 along "t" is the function applied to the second parameter
example : ∃ r, transform (fun a (k : Static) => .ok (arithScalar "multiply" k a)) [.num 2, .num 3] (.name "t") 0 exA = .ok r ∧
    (∃ x, r.findDim "t" = some x ∧ x.labels = [.int 0, .int 1]) ∧
    r.node (fun n => if n = "t" then 1 else 0) = mkNode { fn := "multiply", tmpl := [.inp 0, .lit (.num 3)] } [.src 0] := by
  refine ⟨_, rfl, ⟨_, rfl, by decide⟩, rfl⟩

-- `expand`: the same through `c13_value_expand` (two indices along internal dimension "lat", by label)
example {V : Type} (S : Sem V) : ∃ r, expandG (.name "k") (.coord "lat" [.num 5, .num 7]) [("method", .str "sel")] 1 exA = .ok r ∧
    ∀ ix, ix "k" < 2 → ∃ index, [Static.num 5, Static.num 7][ix "k"]? = some index ∧
      (r.node ix).eval S = S.fn "take" [("dim", .str "lat"), ("method", .str "sel")] [.val ((exA.node ix).eval S), .lit index] := by
  refine ⟨_, rfl, ?_⟩
  have hi : Indep exA "k" := by
    intro ix v
    simp only [exA, fromSource]
    rw [flatIndex_indep]
    decide
  exact (c13_value_expand S (.name "k") (.coord "lat" [.num 5, .num 7]) [("method", .str "sel")] 1 exA _ (.str "lat")
    [.num 5, .num 7] rfl (by decide) (by decide) hi rfl).2

-- select with a list, and join with match_coord_values
example : ∃ r, select "d1" (.many [.int 30, .int 0]) false exA = .ok r ∧ r.dims.map (·.labels) = [[.int 0, .int 10], [.int 30, .int 0]] :=
  ⟨_, rfl, by decide⟩

example : ∃ r, join exA (fromSource [("d0", [.int 5, .int 6]), ("d1", [.int 0, .int 10, .int 20, .int 30, .int 40])] 10)
    (.name "w") true = .ok r ∧ r.dims.map (·.labels) = [[.int 0, .int 1], [.int 0, .int 10], [.int 0, .int 10, .int 20, .int 30, .int 40]] :=
  ⟨_, rfl, by decide⟩

end EkwVerif.Fluent
