/-
C08 — the shared-memory store never hands out more memory than its capacity.

Model: Model/Shm.lean (Manager + lottery + disk jobs + the writer's segment creation).
Histories: arbitrary lists of `Op` (requests of any number of clients interleaved with the I/O part
and the callback part of every disk job, successful or failed) — no bound on length, keys, jobs.

The theorems about reachable states are stated for `SafeRun` histories, i.e. histories in which
  (a) a writer creates its segment with the granted size while its dataset is `created`
      (what `client.allocate` does right after the grant) and
  (b) no purge request reaches a reader-less dataset whose page-out/page-in job is in flight.
(b) is the excluded class of known finding C08-purge-in-flight: the code executes such a purge
immediately ("calling purge in unsafe status"), the orphaned disk job later acts on whatever lives
under the key; `c08_accounting_full_fails` / `c08_real_usage_full_fails` are concrete witnesses.
-/
import EkwVerif.Lemmas.ShmCore2
import EkwVerif.Lemmas.ShmMicro

namespace EkwVerif.Shm
open Aux

namespace Aux

theorem afterClose_cap (s : St) (k : String) : (afterClose s k).cap = s.cap := by
  unfold afterClose
  cases find? s.ds k with
  | none => rfl
  | some d => simp only; split; exact (purge_frame _ _).2.2.2.2.1; rfl

theorem step_cap (s : St) (op : Op) : (step s op).1.cap = s.cap := by
  cases op with
  | add k size deser t =>
    simp only [step, add]
    split; rfl; split; rfl; split; exact (pageOutAtLeast_free _ _ _).2.1; rfl
  | cwrite k size tok => exact (cwrite_frame s k size tok).2.1
  | closeW k =>
    simp only [step, closeCb]
    cases find? s.ds k with
    | none => rfl
    | some d => simp only [↓reduceIte]; split; rfl; exact afterClose_cap _ _
  | closeR k rdid =>
    simp only [step, closeCb]
    cases find? s.ds k with
    | none => rfl
    | some d => simp only; split <;> (split; rfl; exact afterClose_cap _ _)
  | get k t cands =>
    simp only [step, get]
    cases find? s.ds k with
    | none => rfl
    | some d =>
      simp only
      split
      · rfl
      · rfl
      · rfl
      · split; exact (pageOutAtLeast_free _ _ _).2.1; rfl
      · split <;> rfl
  | purge k => exact (purge_frame _ _).2.2.2.2.1
  | freeSpace => rfl
  | io id inj => exact (ioStep_frame s id inj).2.2.1
  | cb id =>
    simp only [step, cbStep]
    cases findJob s.jobs id with
    | none => rfl
    | some j =>
      simp only
      cases j.io with
      | none => rfl
      | some r =>
        cases j.kind <;> cases r <;> simp only [decCount]
        · exact (purgeFailed_frame _ _).2.2.2.2.1
        · exact (purgeFailed_frame _ _).2.2.2.2.1

theorem run_cap (ops : List Op) : ∀ (s : St), (run s ops).cap = s.cap := by
  induction ops with
  | nil => intro s; rfl
  | cons op ops ih => intro s; simp only [run]; rw [ih, step_cap]

end Aux

/-- Accounting (DESIGN A.2 B1): after every `SafeRun` history, free space plus the sizes of the
datasets resident in shared memory (created, in_memory, paging_out, paged_in) is exactly the
capacity; hence `0 ≤ free ≤ capacity` and the resident total never exceeds the capacity.
Missing for full strength: histories with a purge request racing an in-flight disk job
(hypothesis `SafeRun`, see `c08_accounting_full_fails`). -/
theorem c08_accounting_partial (cap sc sr : Nat) (ops : List Op) (h : SafeRun (init cap sc sr) ops) :
    (run (init cap sc sr) ops).free + residentTotal (run (init cap sc sr) ops).ds = cap ∧
    (run (init cap sc sr) ops).free ≤ cap ∧ residentTotal (run (init cap sc sr) ops).ds ≤ cap := by
  obtain ⟨_, hc⟩ := core_run ops _ (base_init cap sc sr) (core_init cap sc sr) h
  have e : (run (init cap sc sr) ops).cap = cap := run_cap ops _
  have ha := hc.acct
  rw [e] at ha
  omega

/-- Real usage (DESIGN A.2 B2): after every `SafeRun` history the total size of the segments
that exist in /dev/shm is at most `capacity − free`, in particular at most the capacity.
Missing for full strength: as for `c08_accounting_partial`. -/
theorem c08_real_usage_partial (cap sc sr : Nat) (ops : List Op) (h : SafeRun (init cap sc sr) ops) :
    segTotal (run (init cap sc sr) ops).segs + (run (init cap sc sr) ops).free ≤ cap ∧
    segTotal (run (init cap sc sr) ops).segs ≤ cap := by
  obtain ⟨_, hc⟩ := core_run ops _ (base_init cap sc sr) (core_init cap sc sr) h
  obtain ⟨ha, _, _⟩ := c08_accounting_partial cap sc sr ops h
  have hle : segTotal (run (init cap sc sr) ops).segs ≤ residentTotal (run (init cap sc sr) ops).ds := by
    unfold segTotal residentTotal
    apply total_le_total Seg.size weight _ _ hc.ndSegs
    intro k g hg
    obtain ⟨d, hd, hres, hsz⟩ := hc.segLink k g hg
    exact ⟨d, hd, by simp [weight, hres, hsz]⟩
  omega

/-- Admission rule of `Manager.add`, for EVERY state: granted only if the key is new and the size
fits into the free space before the call (then exactly `size` is taken and the dataset is
registered as `created`); a new key that exceeds the capacity is refused outright; one that
fits the capacity but not the free space is answered `wait` and takes nothing. -/
theorem c08_admission (s : St) (k : String) (size : Nat) (deser : String) (t : Nat) :
    ((add s k size deser t).2 = .granted → find? s.ds k = none ∧ size ≤ s.free ∧ size ≤ s.cap ∧
        (add s k size deser t).1.free = s.free - size ∧
        ∃ d, find? (add s k size deser t).1.ds k = some d ∧ d.size = size ∧ d.status = .created) ∧
    (find? s.ds k = none → s.cap < size → add s k size deser t = (s, .capacityExceeded)) ∧
    (find? s.ds k = none → s.free < size → size ≤ s.cap → (add s k size deser t).2 = .wait ∧
        (add s k size deser t).1.free = s.free ∧ find? (add s k size deser t).1.ds k = none) ∧
    ((find? s.ds k).isSome = true → add s k size deser t = (s, .conflict)) := by
  by_cases hk : (find? s.ds k).isSome = true
  · have hr : add s k size deser t = (s, .conflict) := by simp [add, hk]
    have hne : find? s.ds k ≠ none := by intro e; simp [e] at hk
    rw [hr]
    refine ⟨?_, ?_, ?_, ?_⟩
    · intro h; cases h
    · intro h; exact absurd h hne
    · intro h; exact absurd h hne
    · intro _; rfl
  · have hnone : find? s.ds k = none := by cases h : find? s.ds k <;> simp [h] at hk ⊢
    by_cases hcap : size > s.cap
    · have hr : add s k size deser t = (s, .capacityExceeded) := by simp [add, hnone, hcap]
      rw [hr]
      refine ⟨?_, ?_, ?_, ?_⟩
      · intro h; cases h
      · intro _ _; rfl
      · intro _ _ h; omega
      · intro h; exact absurd h hk
    · by_cases hfit : size > s.free
      · have hr : add s k size deser t = (pageOutAtLeast s (size - s.free) t, .wait) := by simp [add, hnone, hcap, hfit]
        rw [hr]
        refine ⟨?_, ?_, ?_, ?_⟩
        · intro h; cases h
        · intro _ h; omega
        · intro _ _ _
          refine ⟨rfl, (pageOutAtLeast_free _ _ _).1, ?_⟩
          have := (pageOutAtLeast_free s (size - s.free) t).2.2 k
          rw [hnone] at this
          cases h : find? (pageOutAtLeast s (size - s.free) t).ds k <;> simp [h] at this ⊢
        · intro h; exact absurd h hk
      · refine ⟨?_, ?_, ?_, ?_⟩
        · intro _
          refine ⟨hnone, by omega, by omega, by simp [add, hnone, hcap, hfit], ?_⟩
          simp [add, hnone, hcap, hfit, find?_append_self]
        · intro _ h; omega
        · intro _ h; omega
        · intro h; exact absurd h hk

/-- `page_in` reserves before reading back: a `get` on an `on_disk` dataset that fits takes its
size out of the free space in the same step in which the job is queued (no segment exists yet). -/
theorem c08_pagein_reserves (s : St) (k : String) (t : Nat) (cands : List String) (d : Dataset)
    (hd : find? s.ds k = some d) (hst : d.status = .onDisk) (hfit : d.size ≤ s.free) :
    (get s k t cands).2 = .wait ∧ (get s k t cands).1.free = s.free - d.size ∧ (get s k t cands).1.segs = s.segs ∧
    (∃ d', find? (get s k t cands).1.ds k = some d' ∧ d'.status = .pagedIn ∧ d'.size = d.size) ∧
    (get s k t cands).1.jobs = s.jobs ++ [{ id := s.nextJob, kind := .inn, key := k, gen := d.gen, size := d.size, io := none }] := by
  have hn : ¬ d.size > s.free := by omega
  have e : get s k t cands = (pageIn s k d, .wait) := by simp [get, hd, hst, hn]
  rw [e]
  exact ⟨rfl, rfl, rfl, ⟨_, find?_set_self _ _ _ _ hd, rfl, rfl⟩, rfl⟩

/-- Space comes back only through a completed purge (request, delayed purge in a close, purge in a
failure callback) or a page-out callback: no other step increases the free space. -/
theorem c08_space_returns_only (s : St) (op : Op) (h : s.free < (step s op).1.free) :
    (∃ k, op = .purge k) ∨ (∃ k, op = .closeW k) ∨ (∃ k r, op = .closeR k r) ∨ (∃ id, op = .cb id) := by
  cases op with
  | purge k => exact Or.inl ⟨k, rfl⟩
  | closeW k => exact Or.inr (Or.inl ⟨k, rfl⟩)
  | closeR k r => exact Or.inr (Or.inr (Or.inl ⟨k, r, rfl⟩))
  | cb id => exact Or.inr (Or.inr (Or.inr ⟨id, rfl⟩))
  | freeSpace => simp [step] at h
  | add k size deser t =>
    exfalso
    have : (add s k size deser t).1.free ≤ s.free := by
      unfold add
      split
      · exact Nat.le_refl _
      · split
        · exact Nat.le_refl _
        · split
          · rw [(pageOutAtLeast_free _ _ _).1]; exact Nat.le_refl _
          · exact Nat.sub_le _ _
    simp only [step] at h; omega
  | cwrite k size tok =>
    exfalso
    have : (cwrite s k size tok).1.free = s.free := (cwrite_frame s k size tok).1
    simp only [step] at h; omega
  | get k t cands =>
    exfalso
    have : (get s k t cands).1.free ≤ s.free := by
      unfold get
      cases find? s.ds k with
      | none => exact Nat.le_refl _
      | some d =>
        simp only
        split
        · exact Nat.le_refl _
        · exact Nat.le_refl _
        · exact Nat.le_refl _
        · split
          · rw [(pageOutAtLeast_free _ _ _).1]; exact Nat.le_refl _
          · exact Nat.sub_le _ _
        · split <;> exact Nat.le_refl _
    simp only [step] at h; omega
  | io id inj =>
    exfalso
    have : (ioStep s id inj).1.free = s.free := (ioStep_frame s id inj).2.1
    simp only [step] at h; omega

/-- Reported free space: after every `SafeRun` history a `FreeSpaceRequest` is answered with `capacity − resident total`
(and changes nothing). That the handler answers with the manager's `free_space` is the model's definition (one line of
server.py, tied by the correspondence check through the real dispatch); the content of this theorem is the accounting
invariant behind it. Same gap as `c08_accounting_partial`. -/
theorem c08_freespace_value_partial (cap sc sr : Nat) (ops : List Op) (h : SafeRun (init cap sc sr) ops) :
    step (run (init cap sc sr) ops) .freeSpace =
      (run (init cap sc sr) ops, .free (cap - residentTotal (run (init cap sc sr) ops).ds)) := by
  obtain ⟨ha, _, _⟩ := c08_accounting_partial cap sc sr ops h
  show (run (init cap sc sr) ops, Out.free (run (init cap sc sr) ops).free) = _
  congr 2; omega

/-! ### the excluded class really breaks the property (known finding C08-purge-in-flight) -/

/-- purge of `a` while its page-out job is queued, `a` allocated again, then the old job runs -/
def raceOps : List Op :=
  [.add "a" 6 "" 1, .cwrite "a" 6 1, .closeW "a", .add "b" 6 "" 2,   -- b waits, a is being paged out (job 0)
   .purge "a",                                                         -- executed at once: segment unlinked, 6 returned
   .add "a" 8 "" 3, .cwrite "a" 8 2, .closeW "a",                      -- the key is used again
   .io 0 .ok, .cb 0]                                                   -- old job: unlinks the NEW segment, returns 6 again

/-- the same race with a smaller re-allocation and a third dataset filling the store: afterwards
segments of 6 bytes exist while 6 of the 10 bytes are reported free -/
def raceOps2 : List Op :=
  [.add "a" 6 "" 1, .cwrite "a" 6 1, .closeW "a", .add "b" 6 "" 2, .purge "a",
   .add "a" 4 "" 3, .cwrite "a" 4 2, .closeW "a", .add "c" 6 "" 4, .cwrite "c" 6 3, .io 0 .ok, .cb 0]

theorem c08_accounting_full_fails :
    ¬ ∀ (cap sc sr : Nat) (ops : List Op),
        (run (init cap sc sr) ops).free + residentTotal (run (init cap sc sr) ops).ds = cap := by
  intro h
  have := h 10 900 900 raceOps
  revert this
  decide

theorem c08_real_usage_full_fails :
    ¬ ∀ (cap sc sr : Nat) (ops : List Op),
        segTotal (run (init cap sc sr) ops).segs + (run (init cap sc sr) ops).free ≤ cap := by
  intro h
  have := h 10 900 900 raceOps2
  revert this
  decide

/-! ### class (a) of `SafeRun` is needed too: the writer's segment -/

/-- `SafeRun` without its clause about writers: only the purge requests are restricted -/
def conformPurgeB (s : St) : Op → Bool
  | .purge k => conformB s (.purge k)
  | _ => true

def PurgeSafeRun : St → List Op → Prop
  | _, [] => True
  | s, op :: ops => conformPurgeB s op = true ∧ PurgeSafeRun (step s op).1 ops

instance decPurgeSafeRun : (s : St) → (ops : List Op) → Decidable (PurgeSafeRun s ops)
  | _, [] => isTrue trivial
  | s, op :: ops =>
    have := decPurgeSafeRun (step s op).1 ops
    inferInstanceAs (Decidable (conformPurgeB s op = true ∧ PurgeSafeRun (step s op).1 ops))

/-- a writer that creates a segment larger than what it was granted (e.g. rounds the size up to pages on its own) -/
def bigWriterOps : List Op := [.add "a" 2 "" 1, .cwrite "a" 9 1]

/-- a writer that creates its segment only after the store has given the allocation up: granted at 1, silent for longer
than STALE_CREATE, evicted as stale (the page-out finds no segment: the dataset is dropped, its 2 bytes are returned),
then the writer creates the segment after all -/
def lateWriterOps : List Op := [.add "a" 2 "" 1, .add "b" 10 "" 1000, .io 0 .ok, .cb 0, .cwrite "a" 2 1]

/-- The bound on real usage needs the writers' part of `SafeRun`: with purges restricted as in `SafeRun` but writers
free to create their segment with another size, or after the allocation was evicted/dropped, the segments in /dev/shm
exceed `capacity − free`. (Both witnesses are replayed on the real store: corpus/C08_writer_*.json; the real
`client.allocate` creates the segment with the granted size in the same call, which the tie checks.) -/
theorem c08_real_usage_writer_full_fails :
    (¬ ∀ (cap sc sr : Nat) (ops : List Op), PurgeSafeRun (init cap sc sr) ops →
        segTotal (run (init cap sc sr) ops).segs + (run (init cap sc sr) ops).free ≤ cap) ∧
    PurgeSafeRun (init 10 900 900) bigWriterOps ∧ PurgeSafeRun (init 10 900 900) lateWriterOps ∧
    ¬ segTotal (run (init 10 900 900) lateWriterOps).segs + (run (init 10 900 900) lateWriterOps).free ≤ 10 := by
  refine ⟨?_, by decide, by decide, by decide⟩
  intro h
  have := h 10 900 900 bigWriterOps (by decide)
  revert this
  decide

/-! ### thread level: the updates of `free_space` (Lemmas/ShmMicro.lean) -/

open Micro in
/-- **No lost update on `free_space` at thread level** (the code after the fix, where `add`, `page_in`, `purge` and the
disk-job callbacks all update `free_space` under `pageout_one`): split every update into acquire · read · write · release
and let any number of threads interleave at that granularity in EVERY possible way; `free` always equals the initial
value plus the deltas of the updates whose write has happened. This is what makes the handler-atomic update of `free`
in Model/Shm.lean (and hence the accounting theorems) adequate for real threads. -/
theorem c08_locked_updates_exact (free : Int) (ths : Nat → Th) (hl : ∀ i, (ths i).locking = true) (hi : ∀ i, (ths i).pc = .idle)
    (sched : List Nat) :
    (mrun (start free ths) sched).free = free + (mrun (start free ths) sched).applied :=
  locked_updates_exact free ths hl hi sched

open Micro in
/-- … and it is false as soon as one site does not take the lock (`Manager.add` / `Manager.page_in` before the fix): the
server thread reads 10, a page-out callback credits 6 under the lock, the server thread writes 10 − 3; both updates
have completed and 6 bytes of free space are lost. The harness forces this very schedule on the real Manager with a real
second thread (op `race`): it fails on the unfixed code (corpus/C08_lost_update.json) and passes with the fix. -/
theorem c08_unlocked_update_full_fails :
    ¬ ∀ (free : Int) (ths : Nat → Th), (∀ i, (ths i).pc = .idle) → ∀ (sched : List Nat),
        (mrun (start free ths) sched).free = free + (mrun (start free ths) sched).applied := by
  intro h
  have h1 := h 10 racyThreads (by intro i; unfold racyThreads; split <;> rfl) racySchedule
  have h2 := unlocked_update_loses
  rw [h2.1, h2.2.1] at h1
  exact absurd h1 (by decide)

/-! ### the capacity the store works with (`Executor.__init__` → `server.entrypoint` → `LocalServer.__init__` → `Manager.__init__`) -/

/-- **The capacity is the configured one.** The store brought up with `capacity = configured` where /dev/shm offers `avail`
bytes: it never works with more than /dev/shm offers, the empty store reports its whole capacity as free, a configured value
that /dev/shm can hold is taken as it is, a configured value is never exceeded, and without a configured value (`None` / 0)
the store takes what /dev/shm offers. (Tied to the code by bringing every history's store up through the real
`server.entrypoint`; dropping the argument on the way, re-audit probe P2, makes the real capacity `avail`.) -/
theorem c08_capacity_configured (configured : Option Nat) (avail sc sr : Nat) :
    (boot configured avail sc sr).cap ≤ avail ∧ (boot configured avail sc sr).free = (boot configured avail sc sr).cap ∧
    (∀ c, configured = some c → 0 < c → c ≤ avail → (boot configured avail sc sr).cap = c) ∧
    (∀ c, configured = some c → 0 < c → (boot configured avail sc sr).cap ≤ c) ∧
    (configured = none ∨ configured = some 0 → (boot configured avail sc sr).cap = avail) := by
  refine ⟨?_, rfl, ?_, ?_, ?_⟩
  · simp only [boot, init, configCapacity]
    cases configured with
    | none => simp
    | some c => simp only; split; simp; split <;> omega
  · intro c hc h0 hle
    subst hc
    simp only [boot, init, configCapacity]
    split; omega; split <;> omega
  · intro c hc h0
    subst hc
    simp only [boot, init, configCapacity]
    split; omega; split <;> omega
  · intro h
    rcases h with h | h <;> subst h <;> simp [boot, init, configCapacity]

/-- **Executor level.** An executor configured with `shm_vol_gb = g > 0` starts a store in which, after every `SafeRun`
history, the segments in /dev/shm total at most `g` GiB (and at most what /dev/shm offered), and free space plus resident
sizes is the smaller of the two. `_partial`: `SafeRun` as in `c08_accounting_partial`; `get_capacity()` (the parsing of
`findmnt`) is an input. -/
theorem c08_capacity_executor_partial (g avail sc sr : Nat) (hg : 0 < g) (ops : List Op)
    (h : SafeRun (boot (execCapacity (some g)) avail sc sr) ops) :
    segTotal (run (boot (execCapacity (some g)) avail sc sr) ops).segs ≤ g * 1024 ^ 3 ∧
    segTotal (run (boot (execCapacity (some g)) avail sc sr) ops).segs ≤ avail ∧
    (run (boot (execCapacity (some g)) avail sc sr) ops).free + residentTotal (run (boot (execCapacity (some g)) avail sc sr) ops).ds
      = min (g * 1024 ^ 3) avail := by
  have hb : boot (execCapacity (some g)) avail sc sr = init (min (g * 1024 ^ 3) avail) sc sr := by
    have hg' : g ≠ 0 := by omega
    have hp : g * 1024 ^ 3 ≠ 0 := Nat.mul_ne_zero hg' (by decide)
    simp only [boot, execCapacity, hg', ↓reduceIte, configCapacity, hp]
    congr 1
    split <;> omega
  rw [hb] at h ⊢
  obtain ⟨h1, h2⟩ := c08_real_usage_partial _ sc sr ops h
  obtain ⟨h3, _, _⟩ := c08_accounting_partial _ sc sr ops h
  refine ⟨?_, ?_, h3⟩ <;> omega

example : (boot (execCapacity (some 2)) (5 * 1024 ^ 3) 900 900).cap = 2 * 1024 ^ 3 ∧ (boot (execCapacity none) 4096 900 900).cap = 4096 ∧
    (boot (execCapacity (some 0)) 4096 900 900).cap = 4096 ∧ (boot (some 100) 64 900 900).cap = 64 := by decide

/-! ### non-vacuity -/

/-- a `SafeRun` history with eviction, successful and failed page-out, page-in, a read and a purge -/
def demoOps : List Op :=
  [.add "a" 6 "" 1, .cwrite "a" 6 1, .closeW "a", .add "b" 3 "" 2, .cwrite "b" 3 2, .closeW "b",
   .add "c" 6 "" 3, .io 0 .ok, .cb 0, .io 1 .ok, .cb 1, .add "c" 6 "" 4, .cwrite "c" 6 3, .closeW "c",
   .get "a" 5 ["r1"], .io 2 .fail, .cb 2, .get "a" 6 ["r1"], .io 3 .ok, .cb 3, .get "a" 7 ["r1"], .purge "a", .freeSpace]

example : SafeRun (init 10 900 900) demoOps := by decide

example : (run (init 10 900 900) demoOps).free = 4 ∧ residentTotal (run (init 10 900 900) demoOps).ds = 6 ∧
    segTotal (run (init 10 900 900) demoOps).segs = 6 := by decide

example : (add (init 10 900 900) "a" 6 "" 1).2 = .granted ∧ (add (init 10 900 900) "a" 11 "" 1).2 = .capacityExceeded ∧
    (add (run (init 10 900 900) [.add "a" 6 "" 1]) "b" 6 "" 2).2 = .wait := by decide

/-- the hypotheses of `c08_pagein_reserves` and `c08_space_returns_only` are satisfiable -/
example : (find? (run (init 10 900 900) (demoOps.take 17)).ds "a").map
      (fun d => decide (d.status = .onDisk) && decide (d.size ≤ (run (init 10 900 900) (demoOps.take 17)).free)) = some true := by
  decide

example : (run (init 10 900 900) (demoOps.take 8)).free < (step (run (init 10 900 900) (demoOps.take 8)) (.cb 0)).1.free := by decide

/-! ### a purge racing the writer thread of a page-out job -/

namespace Aux

theorem purge_with_files (s : St) (k : String) (fl : List (String × Seg)) :
    purge { s with files := fl } k = { purge s k with files := fl } := by
  unfold purge
  cases find? s.ds k with
  | none => rfl
  | some d =>
    simp only
    split
    · rfl
    · split
      · rfl
      · cases find? s.segs k <;> rfl

theorem purge_segs_sub (s : St) (k x : String) (g : Seg) (hn : Nd s.segs) (h : find? (purge s k).segs x = some g) :
    find? s.segs x = some g := by
  unfold purge at h
  cases hd : find? s.ds k with
  | none => simpa [hd] using h
  | some d =>
    simp only [hd] at h
    split at h
    · exact h
    · split at h
      · exact h
      · cases hs : find? s.segs k with
        | none => simpa [hs] using h
        | some g0 =>
          simp only [hs] at h
          by_cases hx : x = k
          · subst hx; rw [find?_erase_self _ _ hn] at h; cases h
          · rwa [find?_erase_ne _ _ _ hx] at h

end Aux

/-- **Handler-atomic steps lose nothing for a purge that races the page-out writer thread.** If a purge of any key is served
while the writer thread of page-out job `id` is between writing its file and unlinking the segment, the result reported to
the callback and the whole state — free space, datasets, segments, jobs, lock — are those of "the purge, then the job's I/O
part", except for a file the writer may have left on disk. (The accounting theorems therefore cover this interleaving.) -/
theorem c08_midio_purge_atomic (s : St) (id : Nat) (k : String) (j : Job) (g : Seg) (hj : findJob s.jobs id = some j)
    (hk : j.kind = .out) (hio : j.io = none) (hseg : find? s.segs j.key = some g) (hn : Nd s.segs) :
    (ioMidPurge s id k).2 = (ioStep (purge s k) id .ok).2 ∧
    ∃ fl, (ioMidPurge s id k).1 = { (ioStep (purge s k) id .ok).1 with files := fl } := by
  obtain ⟨pj, _, _, _, _, pf, _, _⟩ := Aux.purge_frame s k
  unfold ioMidPurge ioStep
  simp only [hj, hio, hk, pj, Option.isSome_none, bne_self_eq_false, Bool.or_self, Bool.false_eq_true, ↓reduceIte, hseg,
    Aux.purge_with_files, ne_eq, not_true_eq_false]
  cases hs1 : find? (purge s k).segs j.key with
  | none => exact ⟨rfl, put s.files j.key g, by simp [pj]⟩
  | some g1 =>
    have : g1 = g := by
      have := Aux.purge_segs_sub s k j.key g1 hn hs1
      rw [hseg] at this; exact (Option.some.inj this).symm
    subst this
    exact ⟨rfl, put s.files j.key g1, by simp [pj, pf]⟩

end EkwVerif.Shm
