/-
C07 — a transfer stores the dataset once, byte-identical, and announces it once; fetch delivers the
same bytes; a purge racing with a transfer waits for the futures in progress; late payloads never
resurrect a purged dataset.

All theorems quantify over EVERY history `ops` (`Model/Transfer.lean : Op`): recv_loop iterations
fed with any frames (taken or duplicated, any order) and any commands / purges, pool jobs in any
order, run to their end or stopped between their stages, with or without shm / socket faults, iterations
of the executor's loop, clock advances, frame drops, controller receptions.  The invariant-based ones
(single copy, bytes, announced once, no resurrection, retry (b)(c), failures forwarded, purge filter (a)) are
proved for the larger class of all interleavings of micro steps (`MStar`) and transferred by
`Aux.run_mstar`.  `c07_purge_waits` is different in kind: at the micro level the blocking `wait` of the
purge branch is a guard of the step (`MStep.handle`), so the theorem's content is the refinement — the
operation `tick`, which runs the code's `wait(ALL_COMPLETED)` + `maybe_clean` before the purge body, leaves
no future of the dataset behind whatever stage the pool jobs were at (`Aux.handleAll_mstar`).
`c07_purge_waits_every_job` (+ `_tick`) says what the wait is for: EVERY future pending when the purge branch (the
iteration) begins — any number, any dataset, any stage, any pool order — has reported the end of its job in the trace
BEFORE the `purged` event (`Lemmas/TransferWait.lean`).  All of this rests on the purge arm's `wait` being the
blocking one: `handleAll` calls `purgeWait`, which is `waitAll` only because the constants the translator reads from
data_server.py say ALL_COMPLETED / all futures / no timeout (`c07_wait_calls_as_modelled`, by `decide`);
`c07_purge_arm_waits_every_job` has that as an explicit hypothesis and `c07_purge_arm_waits_full_fails` shows it
cannot be dropped.
-/
import EkwVerif.Lemmas.Transfer
import EkwVerif.Lemmas.TransferRetry
import EkwVerif.Lemmas.TransferProg
import EkwVerif.Lemmas.TransferWait

namespace EkwVerif.Transfer
open Aux

/-- start of a history: nothing in flight, nothing queued, nothing purged; stores are arbitrary
(each key at most once). -/
structure Fresh (w : World) : Prop where
  log : w.log = []
  net : w.net = []
  futs : ∀ h, (w.hosts h).futs = []
  invalid : ∀ h, (w.hosts h).invalid = []
  sock : ∀ h, (w.hosts h).sock = []
  inbox : ∀ h, (w.hosts h).inbox = []
  awaiting : ∀ h, (w.hosts h).awaiting = []
  allocd : ∀ h, (w.hosts h).allocd = []
  mbox : ∀ h, (w.hosts h).mbox = []
  copies : ∀ h ds, copies (w.hosts h).store ds ≤ 1

/-- host `h` holds `ds` at the start -/
def hadAt (w0 : World) (h ds : Nat) : Bool := (lookup (w0.hosts h).store ds).isSome

namespace Aux

theorem inv_fresh (w0 : World) (hf : Fresh w0) : Inv (hadAt w0) w0 := by
  refine ⟨?_, ?_, ?_, ?_, ?_, ?_, ?_, ?_, ?_, ?_, ?_, ?_, ?_⟩
  · intro h ds; simp [hf.log, storedCnt, hadN]; split <;> omega
  · intro h ds hpos
    left
    simp only [hf.log, storedCnt, hadN, hadAt, List.countP_nil, Nat.zero_add] at hpos
    by_cases hh : (lookup (w0.hosts h).store ds).isSome = true
    · exact hh
    · simp [hh] at hpos
  · intro h ds hd; simp [hf.invalid] at hd
  · intro h ds hd; simp [hf.invalid] at hd
  · intro h ds; simp [hf.log, hf.futs, storedCnt, annCnt, annFailCnt]
  · exact hf.copies
  · intro h ds k hk; simp [hf.log] at hk
  · intro h ds k hk; simp [hf.log] at hk
  · intro h ds hd; simp [hf.allocd] at hd
  · intro h ds; simp [hf.futs]
  · intro h ds; simp [hf.log, hf.mbox, ctrlPubCnt, annCnt, pubPending]
  · intro h; simp [hf.log, hf.mbox, ctrlFailCnt, failCnt, failPending]
  · intro h ds b hb; simp [hf.log, lastEx] at hb

theorem cons_fresh (truth : Nat → String × String) (w0 : World) (hf : Fresh w0)
    (ht : ∀ h, ∀ e ∈ (w0.hosts h).store, e.2 = truth e.1) : Cons truth w0 := by
  refine ⟨ht, ?_, ?_, ?_, ?_, ?_⟩
  · simp [hf.net]
  · intro h; simp [hf.sock]
  · intro h; simp [hf.inbox]
  · intro h; simp [hf.futs]
  · simp [hf.log]

theorem afw_fresh (w0 : World) (hf : Fresh w0) : AFW w0 := by
  intro h
  rw [hf.awaiting, hf.futs]
  exact ⟨by simp, by simp, by simp, by simp⟩

theorem inv_run (w0 : World) (hf : Fresh w0) (ops : List Op) : Inv (hadAt w0) (run w0 ops) :=
  inv_mstar (run_mstar w0 ops) (inv_fresh w0 hf)

end Aux

/-! ### the property theorems -/

/-- **single copy.** Whatever the commands, retries, duplicates and interleavings: per (dataset, host)
at most one successful store — none at all on a host that held the dataset from the start — and the
store never contains two entries of one dataset. -/
theorem c07_single_copy (w0 : World) (hf : Fresh w0) (ops : List Op) (h ds : Nat) :
    storedCnt (run w0 ops).log h ds + (if hadAt w0 h ds then 1 else 0) ≤ 1 ∧
    copies ((run w0 ops).hosts h).store ds ≤ 1 :=
  ⟨(inv_run w0 hf ops).cnt_le h ds, (inv_run w0 hf ops).copies_le h ds⟩

/-- **bytes equal.** If all initial copies of every dataset are `truth ds = (bytes, deser_fun)`, then
after any history every copy on every host is `truth ds`, every successful store wrote `truth ds`, every
payload put on the wire carried the source's `truth ds`, and every payload delivered to the controller
(fetch) is `truth ds`. -/
theorem c07_bytes_equal (truth : Nat → String × String) (w0 : World) (hf : Fresh w0)
    (ht : ∀ h, ∀ e ∈ (w0.hosts h).store, e.2 = truth e.1) (ops : List Op) :
    (∀ h, ∀ e ∈ ((run w0 ops).hosts h).store, e.2 = truth e.1) ∧
    (∀ h ds i b f, Event.stored h ds i b f ∈ (run w0 ops).log → (b, f) = truth ds) ∧
    (∀ h c b f, Event.sent h c b f ∈ (run w0 ops).log → (b, f) = truth c.ds) ∧
    (∀ p, Event.ctrlGot p ∈ (run w0 ops).log → (p.value, p.deser) = truth p.ds) := by
  have hc := cons_mstar (run_mstar w0 ops) (cons_fresh truth w0 hf ht)
  refine ⟨hc.store, ?_, ?_, ?_⟩
  · intro h ds i b f hm; exact hc.log _ hm
  · intro h c b f hm; exact hc.log _ hm
  · intro p hm; exact hc.log _ hm

/-- **announced once.** The data server of `h` pushes `DatasetPublished(ds)` to its executor at most once,
never more often than a copy of `ds` was written and closed there, never for a dataset `h` already had
(redundant transfer); the exact balance is: stores = announcements + failure reports raised at the
announce stage + store jobs that sit between `buf.close()` and the callback.  The executor forwards
every announcement to the controller exactly once and invents none (`ctrlPub` + still queued = announced). -/
theorem c07_announced_once (w0 : World) (hf : Fresh w0) (ops : List Op) (h ds : Nat) :
    annCnt (run w0 ops).log h ds ≤ storedCnt (run w0 ops).log h ds ∧
    annCnt (run w0 ops).log h ds ≤ 1 ∧
    (hadAt w0 h ds = true → annCnt (run w0 ops).log h ds = 0) ∧
    storedCnt (run w0 ops).log h ds = annCnt (run w0 ops).log h ds + annFailCnt (run w0 ops).log h ds +
      ((run w0 ops).hosts h).futs.countP (atStage2 ds) ∧
    ctrlPubCnt (run w0 ops).log h ds + pubPending ((run w0 ops).hosts h).mbox ds = annCnt (run w0 ops).log h ds := by
  have hi := inv_run w0 hf ops
  have h1 := hi.ann_bal h ds
  have h2 := hi.cnt_le h ds
  refine ⟨by omega, by omega, ?_, h1, hi.pub_bal h ds⟩
  intro hh
  simp [hadN, hh] at h2
  omega

/-- **no resurrection.** Once the data server of `h` has handled a purge of `ds` (a `purged` event is in the
trace: the shm purge request was made — whether or not `h` held `ds` at that moment, an unknown key is not
an error — and `ds ∈ invalid`), then whatever happens afterwards — late payloads, duplicates, retries, new
redundant transfers, faults — no store of `ds` happens at `h`, nothing is announced, the store does not contain
it, no allocation of it is open, and it stays invalid. -/
theorem c07_no_resurrection (w0 : World) (hf : Fresh w0) (ops later : List Op) (h ds k : Nat)
    (hp : Event.purged h ds k ∈ (run w0 ops).log) :
    storedCnt (run w0 (ops ++ later)).log h ds = storedCnt (run w0 ops).log h ds ∧
    annCnt (run w0 (ops ++ later)).log h ds = annCnt (run w0 ops).log h ds ∧
    lookup ((run w0 (ops ++ later)).hosts h).store ds = none ∧
    ds ∈ ((run w0 (ops ++ later)).hosts h).invalid := by
  have hi := inv_run w0 hf ops
  have hd := hi.purged_inv h ds k hp
  rw [run_append]
  have hs := purged_mstar (run_mstar (run w0 ops) later) hi h ds hd
  have hi2 := inv_mstar (run_mstar (run w0 ops) later) hi
  exact ⟨hs.2.1, hs.2.2.2.2, hi2.inv_nostore h ds hs.1, hs.1⟩

/-- **a payload arriving after the purge is DISCARDED** (the clause of the property text, as the event the tie
compares: `ignored`).  After ANY history in which `h` handled a purge of `ds`, and ANY continuation `later` — however
many other purges, transfers, retries, faults it contains: `invalid` has no horizon — when the message loop of the live
data server of `h` stands at a payload of `ds`, all it does is drop it from the inbox and trace `ignored`: no store job
is submitted (`futs` unchanged), nothing is allocated, stored or announced. -/
theorem c07_late_payload_discarded (w0 : World) (hf : Fresh w0) (ops later : List Op) (h ds k : Nat) (p : Payload)
    (rest : List Msg) (hp : Event.purged h ds k ∈ (run w0 ops).log) (hpd : p.ds = ds)
    (hc : ((run w0 (ops ++ later)).hosts h).crashed = false)
    (hi : ((run w0 (ops ++ later)).hosts h).inbox = .pay p :: rest) :
    handleHead h (run w0 (ops ++ later)) =
      ((run w0 (ops ++ later)).setHost h { (run w0 (ops ++ later)).hosts h with inbox := rest }).emit
        (.ignored h ds p.confirmIdx) := by
  have hinv := (c07_no_resurrection w0 hf ops later h ds k hp).2.2.2
  generalize run w0 (ops ++ later) = w at hc hi hinv
  subst hpd
  simp [handleHead, handleMsg, hc, hi, World.setHost, hinv]

/-- **the race: the purge overtakes the payload.** If the purge of `ds` was handled at `h` when `h` had never
held or stored `ds` (the payload of the transfer was still on its way), then `h` never stores, announces or
holds `ds`: the late payload is discarded. -/
theorem c07_no_resurrection_race (w0 : World) (hf : Fresh w0) (ops later : List Op) (h ds k : Nat)
    (hp : Event.purged h ds k ∈ (run w0 ops).log)
    (hnot : hadAt w0 h ds = false) (hnone : storedCnt (run w0 ops).log h ds = 0) :
    storedCnt (run w0 (ops ++ later)).log h ds = 0 ∧ annCnt (run w0 (ops ++ later)).log h ds = 0 ∧
    lookup ((run w0 (ops ++ later)).hosts h).store ds = none := by
  have h1 := c07_no_resurrection w0 hf ops later h ds k hp
  have h2 := (c07_announced_once w0 hf (ops ++ later) h ds).1
  refine ⟨by omega, by omega, h1.2.2.1⟩

/-- **purge waits.** Every shm purge of a dataset happens at a moment when no future of that dataset
(send = read in progress, or store) is left in `futs_in_progress`. -/
theorem c07_purge_waits (w0 : World) (hf : Fresh w0) (ops : List Op) (h ds k : Nat)
    (hp : Event.purged h ds k ∈ (run w0 ops).log) : k = 0 :=
  (inv_run w0 hf ops).purge_ok h ds k hp

/-- the pool job of future key `k` on host `h` has come to its end: what it reports on its way out.
(Every way a job run by the pool ends emits one of these: `send_payload` ends with `sent` or — invalid command,
dataset not in the store at either stage, a raising socket — `sendFail`; `store_payload` ends with `announced`,
with `redundant` (ConflictError) or with `storeFail`.) -/
def jobEnded (h : Nat) (k : Key) (evs : List Event) : Prop :=
  match k with
  | .cmd c => (∃ b f, Event.sent h c b f ∈ evs) ∨ Event.sendFail h c ∈ evs
  | .pay p => Event.announced h p.ds p.confirmIdx ∈ evs ∨ Event.redundant h p.ds p.confirmIdx ∈ evs ∨
              ∃ st, Event.storeFail h p.ds p.confirmIdx st ∈ evs

namespace Aux
theorem jobEnded_iff (h : Nat) (k : Key) (evs : List Event) : jobEnded h k evs ↔ ended h k evs := by
  cases k <;> exact Iff.rfl
end Aux

/-- **the purge waits for EVERY job in flight.** The message loop of a live data server standing at a purge of `ds`,
with ANY futures in `futs_in_progress` — any number of them, of any dataset, send or store jobs, each at any stage,
run by the pool in any order (`sched`): the trace it produces is `post ++ purged h ds 0 :: pre` (newest first), i.e.
the shm purge is issued with no future left (`0`), and `pre` — what happened between the start of the `wait` and the
shm purge — contains the end-of-job report of every future that was pending: the purge waited for all of them, not
for one.  (Last clause: `pre` contains no shm purge at all — the `purged` event displayed is the first one after the
wait began, so `pre` really is "before the purge".) -/
theorem c07_purge_waits_every_job (w : World) (h ds : Nat) (rest : List Msg) (fuel : Nat) (sched : List Nat)
    (hc : (w.hosts h).crashed = false) (hi : (w.hosts h).inbox = .purge ds :: rest) :
    ∃ pre post, (handleAll h (fuel + 1) sched w).1.log = post ++ Event.purged h ds 0 :: (pre ++ w.log) ∧
      (∀ f ∈ (w.hosts h).futs, f.result = none → jobEnded h f.key pre) ∧
      ∀ h' d k, Event.purged h' d k ∉ pre := by
  obtain ⟨pre, post, hl, hall, hnp⟩ := handleAll_purge_log w h ds rest fuel sched hc hi
  exact ⟨pre, post, hl, fun f hm hr => (jobEnded_iff h f.key pre).mpr (hall f hm hr), hnp⟩

/-- the purge arm of the message loop — `wait` · `maybe_clean` · the body of the arm — with the behaviour of the
`wait` call as parameters (`blocks`: return_when = ALL_COMPLETED and no timeout; `timeoutMs`) -/
def purgeArm (blocks : Bool) (timeoutMs : Option Nat) (h : Nat) (sched : List Nat) (w : World) : World :=
  let r1 := purgeWaitWith blocks timeoutMs h (w.hosts h).futs.length sched w
  let r2 := mclean h r1.2 r1.1
  handleHead h r2.1

namespace Aux
/-- the model's message loop standing at a purge IS this arm with the two constants read from the source -/
theorem handleAll_one_eq (w : World) (h ds : Nat) (rest : List Msg) (sched : List Nat)
    (hc : (w.hosts h).crashed = false) (hi : (w.hosts h).inbox = .purge ds :: rest) :
    (handleAll h 1 sched w).1 = purgeArm purgeWaitBlocks Gen.DataServerWait.purgeWaitTimeoutMs h sched w := by
  simp [handleAll, purgeArm, purgeWait, hc, hi]
end Aux

/-- **the `wait` calls are the ones the model has** (the side condition of the table `Gen/DataServerWait.lean`, which
the translator regenerates from data_server.py on every run): the purge arm calls
`wait(…, return_when=ALL_COMPLETED)` WITHOUT `timeout` before the shm purge, `maybe_clean` calls
`wait(…, return_when=FIRST_COMPLETED)` without `timeout`.  `decide` evaluates the generated constants: a `timeout=`
(or another `return_when`, or no call before the shm purge) in the source makes this theorem — and with it
`purgeWait_eq`, on which every purge-waits theorem rests — fail.  (Which futures the call is given is observed by the
tie at run time, not decided here.) -/
theorem c07_wait_calls_as_modelled : purgeWaitBlocks = true ∧ cleanWaitAsModelled = true := by decide

/-- **the purge waits for every job — IF the wait blocks** (the hypothesis 'ALL_COMPLETED over all futures, no
timeout' explicit: `hb`; that the source satisfies it is `c07_wait_calls_as_modelled`).  Same conclusion as
`c07_purge_waits_every_job`, for the arm with ANY `timeoutMs` field and `blocks = true`. -/
theorem c07_purge_arm_waits_every_job (blocks : Bool) (timeoutMs : Option Nat) (hb : blocks = true)
    (w : World) (h ds : Nat) (rest : List Msg) (sched : List Nat)
    (hc : (w.hosts h).crashed = false) (hi : (w.hosts h).inbox = .purge ds :: rest) :
    ∃ pre post, (purgeArm blocks timeoutMs h sched w).log = post ++ Event.purged h ds 0 :: (pre ++ w.log) ∧
      (∀ f ∈ (w.hosts h).futs, f.result = none → jobEnded h f.key pre) ∧
      ∀ h' d k, Event.purged h' d k ∉ pre := by
  subst hb
  have he : purgeArm true timeoutMs h sched w = (handleAll h (0 + 1) sched w).1 := by
    simp [handleAll, purgeArm, purgeWait, purgeWaitWith, purgeWaitBlocks_true, hc, hi]
  rw [he]
  exact c07_purge_waits_every_job w h ds rest 0 sched hc hi

/-- **… and NOT otherwise.** With a `wait` that may return early (a `timeout`: jobs that take longer are returned as
`not_done`; FIRST_COMPLETED; a subset of the futures) the arm issues the shm purge with jobs of that dataset still in
flight: on the three-futures state below (two send jobs of dataset 0, a store job of dataset 5; the `maybe_clean`
that follows the wait brings the futures below `cap` = 2 by finishing the store job and the first send job) the trace
has `purged 1 0 1` — the shm purge is issued while the send job that has its READ BUFFER OPEN is still in flight.  So the hypothesis `blocks = true` of `c07_purge_arm_waits_every_job` cannot be dropped.  (On the
real code: the check's `fake_wait` honours `timeout`; a source with `timeout=` in that call is reported through the
oracle kind `purge-no-wait` with a failing input, and the corpus case `C07_timed_wait_purges_early.json` replays this
witness on the real loop with the timeout forced from outside.) -/
theorem c07_purge_arm_waits_full_fails :
    ¬ ∀ (timeoutMs : Option Nat) (w : World) (h ds : Nat) (rest : List Msg) (sched : List Nat),
        (w.hosts h).crashed = false → (w.hosts h).inbox = .purge ds :: rest →
        ∀ k, Event.purged h ds k ∈ (purgeArm false timeoutMs h sched w).log → k = 0 := by
  intro hall
  have := hall (some 2000)
    { hosts := fun h => if h = 1 then
        { store := [(0, "aa", "df0")], inbox := [.purge 0],
          futs := [⟨.cmd ⟨1, 2, 2, 0, 0⟩, 0, none⟩, ⟨.cmd ⟨1, 0, 0, 0, 1⟩, 1, none⟩, ⟨.pay ⟨3, 7, 5, "df5", "ee"⟩, 0, none⟩] }
        else {} }
    1 0 [] [2] (by decide) (by decide) 1 (by decide)
  omega

/-- **… seen from one iteration of `recv_loop`.** In ANY state in which the data server of `h` is alive with nothing
unread (whatever its pool is doing): the iteration that receives a purge of `ds` — initial `maybe_clean`,
`recv_messages`, the purge branch, the retry loop — produces `post ++ purged h ds 0 :: pre`, and every future that was
pending when the iteration began has reported the end of its job in `pre`, before the shm purge. -/
theorem c07_purge_waits_every_job_tick (w : World) (h ds : Nat) (sched : List Nat)
    (hc : (w.hosts h).crashed = false) (hs : (w.hosts h).sock = []) (hi : (w.hosts h).inbox = []) :
    ∃ pre post, (step w (.tick h [.msg (.purge ds)] sched)).log = post ++ Event.purged h ds 0 :: (pre ++ w.log) ∧
      (∀ f ∈ (w.hosts h).futs, f.result = none → jobEnded h f.key pre) ∧
      ∀ h' d k, Event.purged h' d k ∉ pre := by
  obtain ⟨pre, post, hl, hall, hnp⟩ := tick_msg_purge_log h ds sched w hc hs hi
  exact ⟨pre, post, hl, fun f hm hr => (jobEnded_iff h f.key pre).mpr (hall f hm hr), hnp⟩

/-- **retry until acked.**
(a) In any reachable state, if the confirmation of transfer `idx` is overdue at host `h` (`at > 0`,
`at + 4000 ms < now`), its ack has not been received and its dataset has not been purged, then the
next iteration of `recv_loop` (here: a timer iteration, nothing to read) submits a re-send of `idx` —
whatever else is in the retry queue, whatever the pool does meanwhile.
(b) Once the ack of `idx` has been received, no later history contains another re-send of `idx`.
(c) Once the dataset has been purged at `h`, no later history submits or performs any send of it there. -/
theorem c07_retry_until_acked (w0 : World) (hf : Fresh w0) (ops : List Op) (h : Nat) :
    (∀ idx c t sched,
        ((run w0 ops).hosts h).crashed = false → ((run w0 ops).hosts h).sock = [] → ((run w0 ops).hosts h).inbox = [] →
        lookup ((run w0 ops).hosts h).awaiting idx = some (c, some t) → 0 < t → t + grace < (run w0 ops).now →
        idx ∉ ((run w0 ops).hosts h).acks → c.ds ∉ ((run w0 ops).hosts h).invalid →
        resubmitCnt (run w0 ops).log h idx < resubmitCnt (run w0 (ops ++ [.tick h [] sched])).log h idx) ∧
    (∀ idx later, idx ∈ ((run w0 ops).hosts h).acks →
        resubmitCnt (run w0 (ops ++ later)).log h idx = resubmitCnt (run w0 ops).log h idx) ∧
    (∀ ds k later, Event.purged h ds k ∈ (run w0 ops).log →
        submitDsCnt (run w0 (ops ++ later)).log h ds = submitDsCnt (run w0 ops).log h ds ∧
        sentDsCnt (run w0 (ops ++ later)).log h ds = sentDsCnt (run w0 ops).log h ds) := by
  refine ⟨?_, ?_, ?_⟩
  · intro idx c t sched hal hs hin hl ht0 ht hna hnv
    rw [run_append]
    have haf := afw_mstar (run_mstar w0 ops) (afw_fresh w0 hf) h
    exact tick_resubmits h idx c t sched (run w0 ops) ⟨haf, hal, hl, hna, hnv⟩ hs hin ⟨ht0, ht⟩
  · intro idx later ha
    rw [run_append]
    exact (acked_mstar (run_mstar (run w0 ops) later) h idx ha).2
  · intro ds k later hp
    have hi := inv_run w0 hf ops
    rw [run_append]
    have := purged_mstar (run_mstar (run w0 ops) later) hi h ds (hi.purged_inv h ds k hp)
    exact ⟨this.2.2.1, this.2.2.2.1⟩

/-- **exactly one copy, existence half (1): a payload that gets through is stored and announced.**
In any reachable state in which the data server of `h` is alive and idle (nothing in its socket, inbox, pool,
nothing to confirm), a payload frame for `h` it has not seen yet (its Syn is not in `Listener.acked`) of a
dataset that is neither purged nor half-written there: after the iteration that reads the frame and the store
job, `h` holds the dataset, the Syn has been acknowledged, and — if `h` did not hold it before — the copy is the
payload's bytes and deser_fun, it was written once and announced to the executor with the payload's transmit
index.  (`_partial`: the hosts are quiescent; for busy hosts the clause is carried by the safety invariants and,
per run, by the oracle's loss-free drain.) -/
theorem c07_delivered_is_stored_partial (w0 : World) (ops : List Op) (h i si sa : Nat) (p : Payload) (sched : List Nat)
    (hh : h ≠ 0) (hc : ((run w0 ops).hosts h).crashed = false) (hs : ((run w0 ops).hosts h).sock = [])
    (hin : ((run w0 ops).hosts h).inbox = []) (hfu : ((run w0 ops).hosts h).futs = [])
    (haw : ((run w0 ops).hosts h).awaiting = [])
    (hget : (run w0 ops).net[i]? = some (.data h si sa p)) (hack : (si, sa) ∉ ((run w0 ops).hosts h).acked)
    (hinv : p.ds ∉ ((run w0 ops).hosts h).invalid) (hal : p.ds ∉ ((run w0 ops).hosts h).allocd) :
    (lookup ((run w0 (ops ++ [.tick h [.frame i false] sched, .job h 0])).hosts h).store p.ds).isSome ∧
    Frame.plain sa (.ack si) ∈ (run w0 (ops ++ [.tick h [.frame i false] sched, .job h 0])).net ∧
    (lookup ((run w0 ops).hosts h).store p.ds = none →
      lookup ((run w0 (ops ++ [.tick h [.frame i false] sched, .job h 0])).hosts h).store p.ds = some (p.value, p.deser) ∧
      Event.stored h p.ds p.confirmIdx p.value p.deser ∈ (run w0 (ops ++ [.tick h [.frame i false] sched, .job h 0])).log ∧
      Event.announced h p.ds p.confirmIdx ∈ (run w0 (ops ++ [.tick h [.frame i false] sched, .job h 0])).log ∧
      EMsg.pub p.ds p.confirmIdx ∈ ((run w0 (ops ++ [.tick h [.frame i false] sched, .job h 0])).hosts h).mbox) := by
  rw [run_append]
  exact deliver_completes (run w0 ops) h i si sa p sched hh hc hs hin hfu haw hget hack hinv hal

/-- **existence half (2): an unconfirmed transfer completes as soon as the network lets one copy of the payload
and of the confirmation through.**  Source `s` alive and idle with exactly the transfer `c` (index `idx`, to host
`t`) unconfirmed and overdue, holding the dataset; target `t` alive and idle, has not seen this transfer's Syn,
does not hold the dataset, has neither purged it nor an allocation of it open.  Then five steps — the source's next
iteration (which re-submits the send, `c07_retry_until_acked` (a)), the send job, the target's iteration reading the
new frame, the store job, the source's iteration reading the ack — end with the target holding exactly the
source's bytes and deser_fun, the arrival announced with index `idx`, and `idx` confirmed at the source (after
which, by (b), it is never re-sent).  Frames already on the wire are untouched (any loss / delay of OTHER frames). -/
theorem c07_completes_partial (w0 : World) (ops : List Op) (s t idx : Nat) (c : Cmd) (at_ : Nat) (b f : String)
    (hs0 : s ≠ 0) (ht0 : t ≠ 0) (hst : s ≠ t)
    (hcs : c.source = s) (hct : c.target = t) (hcd : c.daddr = t) (hci : c.idx = idx)
    (hsc : ((run w0 ops).hosts s).crashed = false) (hss : ((run w0 ops).hosts s).sock = [])
    (hsi : ((run w0 ops).hosts s).inbox = []) (hsf : ((run w0 ops).hosts s).futs = [])
    (hsa : ((run w0 ops).hosts s).awaiting = [(idx, c, some at_)])
    (hdue : 0 < at_ ∧ at_ + grace < (run w0 ops).now) (hna : idx ∉ ((run w0 ops).hosts s).acks)
    (hsv : c.ds ∉ ((run w0 ops).hosts s).invalid) (hsl : lookup ((run w0 ops).hosts s).store c.ds = some (b, f))
    (htc : ((run w0 ops).hosts t).crashed = false) (hts : ((run w0 ops).hosts t).sock = [])
    (hti : ((run w0 ops).hosts t).inbox = []) (htf : ((run w0 ops).hosts t).futs = [])
    (hta : ((run w0 ops).hosts t).awaiting = []) (hack : (idx, s) ∉ ((run w0 ops).hosts t).acked)
    (htv : c.ds ∉ ((run w0 ops).hosts t).invalid) (htal : c.ds ∉ ((run w0 ops).hosts t).allocd)
    (htl : lookup ((run w0 ops).hosts t).store c.ds = none) :
    lookup ((run w0 (ops ++ completion s t (run w0 ops).net.length)).hosts t).store c.ds = some (b, f) ∧
    Event.announced t c.ds idx ∈ (run w0 (ops ++ completion s t (run w0 ops).net.length)).log ∧
    idx ∈ ((run w0 (ops ++ completion s t (run w0 ops).net.length)).hosts s).acks := by
  rw [run_append]
  exact completes (run w0 ops) s t idx c at_ b f hs0 ht0 hst hcs hct hcd hci hsc hss hsi hsf hsa hdue hna hsv hsl
    htc hts hti htf hta hack htv htal htl

/-- without "one copy gets through" there is nothing to prove: a network that drops the payload leaves the target
empty (the data server then retries for ever, which the property allows) -/
theorem c07_completes_full_fails :
    ¬ (∀ (w0 : World) (_ : Fresh w0) (ops : List Op) (c : Cmd) (b f : String),
        Event.sent c.source c b f ∈ (run w0 ops).log → (lookup ((run w0 ops).hosts c.target).store c.ds).isSome) := by
  intro hall
  have := hall { hosts := fun h => if h = 1 then { store := [(0, "aa", "df0")] } else {} }
    (by refine ⟨rfl, rfl, ?_, ?_, ?_, ?_, ?_, ?_, ?_, ?_⟩ <;> intro h <;> (try intro ds) <;> simp only [] <;> split <;>
          simp [copies, List.filter_cons] <;> split <;> simp)
    [.tick 1 [.msg (.cmd ⟨1, 2, 2, 0, 0⟩)] [], .job 1 0, .drop 0] ⟨1, 2, 2, 0, 0⟩ "aa" "df0" (by decide)
  revert this
  decide

/-- **failures are passed on.** Every DatasetTransmitFailure the data server of `h` raises — a send job
whose `get` or `send_data` raised, a store job whose allocate (memory pressure), close or announce raised, a
Future that raised (`buf.close()` in the `finally` of `send_payload`) and was reported by `maybe_clean` — is
put on the executor's socket and forwarded to the controller exactly once: forwarded + still queued = raised. -/
theorem c07_failures_forwarded (w0 : World) (hf : Fresh w0) (ops : List Op) (h : Nat) :
    ctrlFailCnt (run w0 ops).log h + failPending ((run w0 ops).hosts h).mbox = failCnt (run w0 ops).log h :=
  (inv_run w0 hf ops).fail_bal h

/-- a Future that raised is reported by the next `maybe_clean` and its transfer is NOT retried: the entry of
`awaiting_confirmation` keeps its `-1` (here: `none`) stamp for ever (decided on the witness `exExc`). -/
def exExc : List Op :=
  [.tick 1 [.msg (.cmd ⟨1, 2, 2, 0, 0⟩)] [], .jobstep 1 0 .none, .jobstep 1 0 .closeExc, .drop 0,
   .tick 1 [] [], .adv 9000, .tick 1 [] [], .adv 9000, .tick 1 [] []]

/-- **the executor's purge filter.**
(a) In every reachable state: if the last thing the executor of `h` did about `ds` was to tell the controller
that it is there (`ctrlPub`), `ds` is in `Executor.datasets`; if it was to forward its purge, it is not.
(b) A purge from the controller for a dataset in `Executor.datasets` is forwarded: after the executor's next
iteration the purge sits in the data server's socket, `ds` has left `Executor.datasets`, nothing else changed
in the store.  (The controller purges a dataset only at a host that announced it: C04.) -/
theorem c07_exec_purge_filter (w0 : World) (hf : Fresh w0) (ops : List Op) (h ds : Nat) :
    (∀ b, lastEx (run w0 ops).log h ds = some b → (ds ∈ ((run w0 ops).hosts h).published ↔ b = true)) ∧
    (ds ∈ ((run w0 ops).hosts h).published → ((run w0 ops).hosts h).mbox = [] →
      let w' := run w0 (ops ++ [.etick h [ds]])
      Event.purgeFwd h ds ∈ w'.log ∧ ds ∉ (w'.hosts h).published ∧
      (w'.hosts h).sock = ((run w0 ops).hosts h).sock ++ [Frame.plain h (Msg.purge ds)] ∧
      (w'.hosts h).store = ((run w0 ops).hosts h).store) := by
  refine ⟨(inv_run w0 hf ops).pub_hist h ds, ?_⟩
  intro hpub hmb
  rw [run_append]
  generalize run w0 ops = w at hpub hmb
  simp [run, step, etick, feedE, injectE, execAll, execHandle, World.setHost, World.emit, hmb, hpub]

/-- **the executor's purge filter, the other direction.** In ANY state: a purge from the controller for a dataset that
is NOT in `Executor.datasets` (executor's socket otherwise empty) is dropped by the executor's next iteration — the
only trace is `purgeDropped`; nothing reaches the data server's socket, `Executor.datasets` and the store are
unchanged.  Together with `c07_exec_purge_filter` (b): under `mbox = []` the purge is forwarded IF AND ONLY IF the
dataset is in `Executor.datasets`.  (The tie compares the `purgeDropped` / `purgeFwd` events op by op.) -/
theorem c07_exec_purge_dropped (w : World) (h ds : Nat)
    (hn : ds ∉ (w.hosts h).published) (hmb : (w.hosts h).mbox = []) :
    (step w (.etick h [ds])).log = Event.purgeDropped h ds :: w.log ∧
    ((step w (.etick h [ds])).hosts h).sock = (w.hosts h).sock ∧
    ((step w (.etick h [ds])).hosts h).published = (w.hosts h).published ∧
    ((step w (.etick h [ds])).hosts h).store = (w.hosts h).store ∧
    Event.purgeFwd h ds ∉ (step w (.etick h [ds])).log.take 1 := by
  simp [step, etick, feedE, injectE, execAll, execHandle, World.setHost, World.emit, hmb, hn]

/-- **a purge right behind the announcement.** In ANY state: the data server's `DatasetPublished(ds)` is still queued on
the executor's socket (the executor has not seen it yet — whether or not `ds` is in `Executor.datasets`) when the
controller's purge of `ds` arrives behind it.  The executor's next iteration handles both in order: it tells the
controller (`ctrlPub`), then FORWARDS the purge — it is not dropped as "unexpected" — and `ds` is not in
`Executor.datasets` afterwards.  (The case the hypotheses `mbox = []` of `c07_exec_purge_filter` (b) and
`c07_purge_end_to_end_partial` leave out.) -/
theorem c07_exec_purge_behind_announcement (w : World) (h ds idx : Nat) (hmb : (w.hosts h).mbox = [.pub ds idx]) :
    (step w (.etick h [ds])).log = Event.purgeFwd h ds :: Event.ctrlPub h ds idx :: w.log ∧
    ds ∉ ((step w (.etick h [ds])).hosts h).published ∧
    ((step w (.etick h [ds])).hosts h).sock = (w.hosts h).sock ++ [Frame.plain h (Msg.purge ds)] ∧
    ((step w (.etick h [ds])).hosts h).mbox = [] := by
  have hin : ds ∈ insertS (w.hosts h).published ds := by
    unfold insertS; split
    · assumption
    · simp
  simp [step, etick, feedE, injectE, execAll, execHandle, World.setHost, World.emit, hmb, hin]

/-- **purge, end to end.** The controller's purge of `ds` arrives at the executor of `h`, which has `ds` in
`Executor.datasets` (it saw it published: what the controller's purge presupposes, C04), its socket otherwise
empty; the data server is alive with empty socket and inbox — whatever its pool is doing.  Then the executor's
iteration followed by the data server's iteration issues the shm purge (after waiting for every job), and from
then on, whatever arrives, nothing of `ds` is stored, announced or held at `h`.  (`_partial`: the hypothesis
`ds ∈ Executor.datasets`; without it the executor drops the purge, see `c07_purge_end_to_end_full_fails`.) -/
theorem c07_purge_end_to_end_partial (w0 : World) (hf : Fresh w0) (ops later : List Op) (h ds : Nat) (sched : List Nat)
    (hpub : ds ∈ ((run w0 ops).hosts h).published) (hmb : ((run w0 ops).hosts h).mbox = [])
    (hc : ((run w0 ops).hosts h).crashed = false) (hs : ((run w0 ops).hosts h).sock = [])
    (hin : ((run w0 ops).hosts h).inbox = []) :
    (∃ k, Event.purged h ds k ∈ (run w0 (ops ++ [.etick h [ds], .tick h [] sched])).log) ∧
    storedCnt (run w0 (ops ++ [.etick h [ds], .tick h [] sched] ++ later)).log h ds =
      storedCnt (run w0 (ops ++ [.etick h [ds], .tick h [] sched])).log h ds ∧
    annCnt (run w0 (ops ++ [.etick h [ds], .tick h [] sched] ++ later)).log h ds =
      annCnt (run w0 (ops ++ [.etick h [ds], .tick h [] sched])).log h ds ∧
    lookup ((run w0 (ops ++ [.etick h [ds], .tick h [] sched] ++ later)).hosts h).store ds = none := by
  have hp : ∃ k, Event.purged h ds k ∈ (run w0 (ops ++ [.etick h [ds], .tick h [] sched])).log := by
    rw [run_append]
    generalize run w0 ops = w at hpub hmb hc hs hin
    have he : ((etick h [ds] w).hosts h).crashed = false ∧
        ((etick h [ds] w).hosts h).sock = [Frame.plain h (Msg.purge ds)] ∧ ((etick h [ds] w).hosts h).inbox = [] := by
      simp [etick, feedE, injectE, execAll, execHandle, World.setHost, World.emit, hmb, hpub, hc, hs, hin]
    simp only [run, List.foldl_cons, List.foldl_nil, step]
    exact tick_handles_purge h ds sched (etick h [ds] w) he.1 he.2.1 he.2.2
  obtain ⟨k, hk⟩ := hp
  have := c07_no_resurrection w0 hf (ops ++ [.etick h [ds], .tick h [] sched]) later h ds k hk
  exact ⟨⟨k, hk⟩, this.1, this.2.1, this.2.2.1⟩

/-! ### non-vacuity: a concrete history exercising every hypothesis -/

/-- host 1 holds dataset 0; host 2 and 3 are empty -/
def exW0 : World := { hosts := fun h => if h = 1 then { store := [(0, "aa", "df0")] } else {} }

theorem exFresh : Fresh exW0 := by
  refine ⟨rfl, rfl, ?_, ?_, ?_, ?_, ?_, ?_, ?_, ?_⟩ <;> intro h <;> (try intro ds) <;> simp only [exW0] <;> split <;>
    simp [copies, List.filter_cons] <;> split <;> simp

def exT : Cmd := ⟨1, 2, 2, 0, 0⟩      -- transfer 1 → 2, idx 0
def exF : Cmd := ⟨1, 0, 0, 0, 1⟩      -- fetch from 1, idx 1
def exR : Cmd := ⟨1, 2, 2, 0, 2⟩      -- redundant transfer 1 → 2, idx 2

/-- transfer, its payload duplicated by the network, stored once; fetch delivered; a redundant
transfer is sent -/
def exPre : List Op :=
  [.tick 1 [.msg (.cmd exT), .msg (.cmd exF)] [], .job 1 0, .job 1 0,
   .tick 2 [.frame 0 true] [], .job 2 0, .ctrl 1 false,
   .tick 1 [.msg (.cmd exR)] [], .job 1 0]

/-- … its payload arrives while the target still holds the dataset -/
def exRedundant : List Op := exPre ++ [.tick 2 [.frame 3 false] [], .job 2 0]

/-- … or the target is purged first -/
def exOps : List Op := exPre ++ [.tick 2 [.msg (.purge 0)] []]

/-- and then the redundant payload and the duplicate of the first one arrive late -/
def exLate : List Op := [.tick 2 [.frame 3 false, .frame 0 false] [], .job 2 0]

example : storedCnt (run exW0 exOps).log 2 0 = 1 ∧ annCnt (run exW0 exOps).log 2 0 = 1 := by decide
example : Event.stored 2 0 0 "aa" "df0" ∈ (run exW0 exOps).log ∧
    Event.ctrlGot ⟨1, 1, 0, "df0", "aa"⟩ ∈ (run exW0 exOps).log := by decide
example : Event.redundant 2 0 2 ∈ (run exW0 exRedundant).log ∧ annCnt (run exW0 exRedundant).log 2 0 = 1 := by decide
example : Event.purged 2 0 0 ∈ (run exW0 exOps).log := by decide
example : Event.ignored 2 0 2 ∈ (run exW0 (exOps ++ exLate)).log ∧
    storedCnt (run exW0 (exOps ++ exLate)).log 2 0 = 1 := by decide
example : storedCnt (run exW0 exOps).log 2 0 + (if hadAt exW0 2 0 then 1 else 0) ≤ 1 :=
  (c07_single_copy exW0 exFresh exOps 2 0).1
example : storedCnt (run exW0 (exOps ++ exLate)).log 2 0 = storedCnt (run exW0 exOps).log 2 0 :=
  (c07_no_resurrection exW0 exFresh exOps exLate 2 0 0 (by decide)).1

def exTruth : Nat → String × String := fun ds => if ds = 0 then ("aa", "df0") else ("", "")

theorem exTruthOk : ∀ h, ∀ e ∈ (exW0.hosts h).store, e.2 = exTruth e.1 := by
  intro h e he
  simp only [exW0] at he
  split at he
  · simp at he; subst he; rfl
  · simp at he

example : ∀ p, Event.ctrlGot p ∈ (run exW0 exOps).log → (p.value, p.deser) = exTruth p.ds :=
  (c07_bytes_equal exTruth exW0 exFresh exTruthOk exOps).2.2.2
example : annCnt (run exW0 exRedundant).log 2 0 ≤ storedCnt (run exW0 exRedundant).log 2 0 :=
  (c07_announced_once exW0 exFresh exRedundant 2 0).1
example : hadAt exW0 1 0 = true ∧ annCnt (run exW0 exOps).log 1 0 = 0 :=
  ⟨by decide, (c07_announced_once exW0 exFresh exOps 1 0).2.2.1 (by decide)⟩

/-- a purge at the source arriving while the send job of a transfer is still queued: the purge branch
runs the job first (the payload is sent), then purges -/
def exRace : List Op := [.tick 1 [.msg (.cmd exT)] [], .tick 1 [.msg (.purge 0)] []]
example : Event.purged 1 0 0 ∈ (run exW0 exRace).log ∧ sentDsCnt (run exW0 exRace).log 1 0 = 1 ∧
    ((run exW0 exRace).hosts 1).futs = [] := by decide
example : (0 : Nat) = 0 := c07_purge_waits exW0 exFresh exRace 1 0 0 (by decide)

/-- an unconfirmed transfer whose payload was dropped: overdue after 4001 ms, re-sent by the next
iteration; and after its ack no further re-send. -/
def exRetry : List Op := [.tick 1 [.msg (.cmd exT)] [], .job 1 0, .drop 0, .tick 1 [] [], .adv 4001]

example : lookup ((run exW0 exRetry).hosts 1).awaiting 0 = some (exT, some 1) ∧ (run exW0 exRetry).now = 4002 := by decide
example : resubmitCnt (run exW0 exRetry).log 1 0 < resubmitCnt (run exW0 (exRetry ++ [.tick 1 [] []])).log 1 0 :=
  (c07_retry_until_acked exW0 exFresh exRetry 1).1 0 exT 1 [] (by decide) (by decide) (by decide) (by decide)
    (by decide) (by decide) (by decide) (by decide)
example : resubmitCnt (run exW0 (exRetry ++ [.tick 1 [] []])).log 1 0 = 1 := by decide

def exAcked : List Op := exRetry ++ [.tick 1 [] [], .job 1 0, .tick 2 [.frame 0 false] [], .tick 1 [.frame 0 false] []]
example : 0 ∈ ((run exW0 exAcked).hosts 1).acks := by decide
example : resubmitCnt (run exW0 (exAcked ++ [.adv 9000, .tick 1 [] [], .adv 9000, .tick 1 [] []])).log 1 0 = 1 := by decide

/-- … and fails without it: a purge for a dataset the executor has not seen published is dropped ("unexpected
purge"), the data server never hears of it, and a payload arriving later is stored and announced. -/
def exDropped : List Op :=
  [.etick 2 [0], .tick 2 [] [],
   .tick 1 [.msg (.cmd ⟨1, 2, 2, 0, 0⟩)] [], .job 1 0, .tick 2 [.frame 0 false] [], .job 2 0]

theorem c07_purge_end_to_end_full_fails :
    ¬ (∀ (w0 : World) (_ : Fresh w0) (pre later : List Op) (h ds : Nat),
        storedCnt (run w0 (pre ++ [.etick h [ds], .tick h [] []] ++ later)).log h ds =
          storedCnt (run w0 (pre ++ [.etick h [ds], .tick h [] []])).log h ds) := by
  intro hall
  have := hall exW0 exFresh [] [.tick 1 [.msg (.cmd ⟨1, 2, 2, 0, 0⟩)] [], .job 1 0, .tick 2 [.frame 0 false] [], .job 2 0] 2 0
  revert this
  decide


/-! ### non-vacuity of the new clauses -/

/-- the race of the property text: the purge reaches host 2 before the payload of transfer 0 was stored there
(host 2 never held dataset 0): shm is asked to purge an unknown key, which is not an error; the late payload
is ignored -/
def exRacePre : List Op := [.tick 1 [.msg (.cmd exT)] [], .job 1 0, .tick 2 [.msg (.purge 0)] []]
def exRaceLate : List Op := [.tick 2 [.frame 0 false] [], .job 2 0]
example : Event.purged 2 0 0 ∈ (run exW0 exRacePre).log ∧ ((run exW0 exRacePre).hosts 2).crashed = false ∧
    0 ∈ ((run exW0 exRacePre).hosts 2).invalid := by decide
example : Event.ignored 2 0 0 ∈ (run exW0 (exRacePre ++ exRaceLate)).log := by decide
example : storedCnt (run exW0 (exRacePre ++ exRaceLate)).log 2 0 = 0 ∧
    lookup ((run exW0 (exRacePre ++ exRaceLate)).hosts 2).store 0 = none :=
  let r := c07_no_resurrection_race exW0 exFresh exRacePre exRaceLate 2 0 0 (by decide) (by decide) (by decide)
  ⟨r.1, r.2.2⟩

/-- a store job stopped between `buf.close()` and the announce callback: the copy exists, nothing is announced
yet, the balance of `c07_announced_once` counts the job; the next stage announces; the executor forwards -/
def exStaged : List Op := [.tick 1 [.msg (.cmd exT)] [], .job 1 0, .tick 2 [.frame 0 false] [], .jobstep 2 0 .none, .jobstep 2 0 .none]
example : storedCnt (run exW0 exStaged).log 2 0 = 1 ∧ annCnt (run exW0 exStaged).log 2 0 = 0 ∧
    ((run exW0 exStaged).hosts 2).futs.countP (atStage2 0) = 1 := by decide
example : annCnt (run exW0 (exStaged ++ [.jobstep 2 0 .none])).log 2 0 = 1 ∧
    pubPending ((run exW0 (exStaged ++ [.jobstep 2 0 .none])).hosts 2).mbox 0 = 1 ∧
    ctrlPubCnt (run exW0 (exStaged ++ [.jobstep 2 0 .none, .etick 2 []])).log 2 0 = 1 ∧
    0 ∈ ((run exW0 (exStaged ++ [.jobstep 2 0 .none, .etick 2 []])).hosts 2).published := by decide
/-- … or the announce callback raises: stored, reported, never announced -/
example : annFailCnt (run exW0 (exStaged ++ [.jobstep 2 0 .fail])).log 2 0 = 1 ∧
    annCnt (run exW0 (exStaged ++ [.jobstep 2 0 .fail, .tick 2 [] [], .etick 2 []])).log 2 0 = 0 ∧
    ctrlFailCnt (run exW0 (exStaged ++ [.jobstep 2 0 .fail, .tick 2 [] [], .etick 2 []])).log 2 = 1 := by decide

/-- memory pressure: allocate times out; the failure is reported, nothing is stored; a later redundant transfer
stores the dataset -/
def exPressure : List Op := [.tick 1 [.msg (.cmd exT)] [], .job 1 0, .tick 2 [.frame 0 false] [], .jobstep 2 0 .fail]
example : Event.storeFail 2 0 0 0 ∈ (run exW0 exPressure).log ∧ storedCnt (run exW0 exPressure).log 2 0 = 0 ∧
    failCnt (run exW0 exPressure).log 2 = 1 ∧ failPending ((run exW0 exPressure).hosts 2).mbox = 1 := by decide
example : ctrlFailCnt (run exW0 (exPressure ++ [.etick 2 []])).log 2 = 1 :=
  by have := c07_failures_forwarded exW0 exFresh (exPressure ++ [.etick 2 []]) 2; revert this; decide

/-- the Future of a send job raised (`closeExc`): reported by the next `maybe_clean`, never retried -/
example : Event.futFail 1 (.cmd ⟨1, 2, 2, 0, 0⟩) ∈ (run exW0 exExc).log ∧ resubmitCnt (run exW0 exExc).log 1 0 = 0 ∧
    lookup ((run exW0 exExc).hosts 1).awaiting 0 = some (⟨1, 2, 2, 0, 0⟩, none) := by decide

/-- retries are per transfer index: transfers 0 and 2 from host 1, the payload of 0 is lost, 2 is delivered and
confirmed; the next iteration after the grace period re-sends 0 (a "highest confirmed index" rule would not) -/
def exTwo : List Op :=
  [.tick 1 [.msg (.cmd exT), .msg (.cmd exR)] [], .job 1 0, .job 1 0, .drop 0, .tick 1 [] [],
   .tick 2 [.frame 0 false] [], .job 2 0, .tick 1 [.frame 0 false] [], .adv 4001]
example : 2 ∈ ((run exW0 exTwo).hosts 1).acks ∧ 0 ∉ ((run exW0 exTwo).hosts 1).acks ∧
    lookup ((run exW0 exTwo).hosts 1).awaiting 0 = some (exT, some 1) := by decide
example : resubmitCnt (run exW0 exTwo).log 1 0 < resubmitCnt (run exW0 (exTwo ++ [.tick 1 [] []])).log 1 0 :=
  (c07_retry_until_acked exW0 exFresh exTwo 1).1 0 exT 1 [] (by decide) (by decide) (by decide) (by decide)
    (by decide) (by decide) (by decide) (by decide)

/-- the executor's filter: host 1 computed dataset 0 itself (`published` at the start), the purge is forwarded -/
def exW1 : World := { hosts := fun h => if h = 1 then { store := [(0, "aa", "df0")], published := [0] } else {} }
example : Event.purgeFwd 1 0 ∈ (run exW1 [.etick 1 [0]]).log ∧
    Event.purged 1 0 0 ∈ (run exW1 [.etick 1 [0], .tick 1 [] []]).log := by decide
example : Event.purgeDropped 2 0 ∈ (run exW0 exDropped).log ∧ storedCnt (run exW0 exDropped).log 2 0 = 1 := by decide

/-- non-vacuity of `c07_completes_partial`: the state after `exRetry` (payload of transfer 0 dropped, 4001 ms later) -/
example : lookup ((run exW0 (exRetry ++ completion 1 2 (run exW0 exRetry).net.length)).hosts 2).store 0 = some ("aa", "df0") ∧
    Event.announced 2 0 0 ∈ (run exW0 (exRetry ++ completion 1 2 (run exW0 exRetry).net.length)).log ∧
    0 ∈ ((run exW0 (exRetry ++ completion 1 2 (run exW0 exRetry).net.length)).hosts 1).acks :=
  c07_completes_partial exW0 exRetry 1 2 0 exT 1 "aa" "df0" (by decide) (by decide) (by decide) rfl rfl rfl rfl
    (by decide) (by decide) (by decide) (by decide) (by decide) (by decide) (by decide) (by decide) (by decide)
    (by decide) (by decide) (by decide) (by decide) (by decide) (by decide) (by decide) (by decide) (by decide)

/-! ### non-vacuity of "the purge waits for EVERY job" -/

/-- two send jobs (transfer 0, fetch 1) submitted by the same iteration that then reads the purge: the purge branch
runs BOTH to their end — in either order — before the shm purge (logs are newest first) -/
example : (run exW0 [.tick 1 [.msg (.cmd exT), .msg (.cmd exF), .msg (.purge 0)] []]).log =
    [.purged 1 0 0, .sent 1 exF "aa" "df0", .sent 1 exT "aa" "df0", .submitted 1 1 0, .submitted 1 0 0] := by decide
example : (run exW0 [.tick 1 [.msg (.cmd exT), .msg (.cmd exF), .msg (.purge 0)] [1]]).log =
    [.purged 1 0 0, .sent 1 exT "aa" "df0", .sent 1 exF "aa" "df0", .submitted 1 1 0, .submitted 1 0 0] := by decide
example : ((run exW0 [.tick 1 [.msg (.cmd exT), .msg (.cmd exF), .msg (.purge 0)] [1]]).hosts 1).futs = [] ∧
    lookup ((run exW0 [.tick 1 [.msg (.cmd exT), .msg (.cmd exF), .msg (.purge 0)] [1]]).hosts 1).store 0 = none := by decide

/-- a send job stopped at stage 1 (buffer open) and a fresh one: both are finished before the purge -/
def exStage1 : List Op := [.tick 1 [.msg (.cmd exT)] [], .jobstep 1 0 .none]
example : ((run exW0 exStage1).hosts 1).futs = [⟨.cmd exT, 1, none⟩] := by decide
example : (run exW0 (exStage1 ++ [.tick 1 [.msg (.cmd exF), .msg (.purge 0)] []])).log =
    [.purged 1 0 0, .sent 1 exF "aa" "df0", .sent 1 exT "aa" "df0", .submitted 1 1 0, .submitted 1 0 0] := by decide

/-- a store job stopped between allocate and close at the target when the purge arrives: written, closed and
announced first, then purged -/
example : (run exW0 [.tick 1 [.msg (.cmd exT)] [], .job 1 0, .tick 2 [.frame 0 false] [], .jobstep 2 0 .none,
      .tick 2 [.msg (.purge 0)] []]).log =
    [.purged 2 0 0, .announced 2 0 0, .stored 2 0 0 "aa" "df0", .sent 1 exT "aa" "df0", .submitted 1 0 0] := by decide

/-- `c07_purge_waits_every_job_tick` on the stage-1 state: the pending send job of transfer 0 reports before the purge -/
example : ∃ pre post, (run exW0 (exStage1 ++ [.tick 1 [.msg (.purge 0)] [3]])).log =
      post ++ Event.purged 1 0 0 :: (pre ++ (run exW0 exStage1).log) ∧ jobEnded 1 (.cmd exT) pre := by
  obtain ⟨pre, post, hl, hall, _⟩ := c07_purge_waits_every_job_tick (run exW0 exStage1) 1 0 [3] (by decide) (by decide) (by decide)
  refine ⟨pre, post, ?_, hall ⟨.cmd exT, 1, none⟩ (by decide) rfl⟩
  rw [run_append]; exact hl

/-- the message loop standing at a purge of dataset 0 with THREE futures in flight: a send job not yet started, a send
job with its buffer open, and a store job of ANOTHER dataset (5) -/
def exWPh : Host :=
  { store := [(0, "aa", "df0")], inbox := [.purge 0],
    futs := [⟨.cmd exT, 0, none⟩, ⟨.cmd exF, 1, none⟩, ⟨.pay ⟨3, 7, 5, "df5", "ee"⟩, 0, none⟩] }
def exWP : World := { hosts := fun h => if h = 1 then exWPh else {} }

example : ∃ pre post, (handleAll 1 1 [2, 1] exWP).1.log = post ++ Event.purged 1 0 0 :: (pre ++ exWP.log) ∧
    jobEnded 1 (.cmd exT) pre ∧ jobEnded 1 (.cmd exF) pre ∧ jobEnded 1 (.pay ⟨3, 7, 5, "df5", "ee"⟩) pre := by
  obtain ⟨pre, post, hl, hall, _⟩ := c07_purge_waits_every_job exWP 1 0 [] 0 [2, 1] (by decide) (by decide)
  exact ⟨pre, post, hl, hall ⟨.cmd exT, 0, none⟩ (by decide) rfl, hall ⟨.cmd exF, 1, none⟩ (by decide) rfl,
    hall ⟨.pay ⟨3, 7, 5, "df5", "ee"⟩, 0, none⟩ (by decide) rfl⟩
/-- … what the theorem's `pre` is there, for two schedules -/
example : (handleAll 1 1 [2, 1] exWP).1.log =
    [.purged 1 0 0, .sent 1 exT "aa" "df0", .sent 1 exF "aa" "df0", .announced 1 5 7, .stored 1 5 7 "ee" "df5"] := by decide
example : (handleAll 1 1 [] exWP).1.log =
    [.purged 1 0 0, .announced 1 5 7, .stored 1 5 7 "ee" "df5", .sent 1 exF "aa" "df0", .sent 1 exT "aa" "df0"] := by decide
/-- `c07_purge_arm_waits_every_job` on the same state (any `timeoutMs` field, `blocks = true`), and what the arm does
there when the wait does NOT block (timeout 2 s, all three jobs slower): `maybe_clean` finishes two of them, the shm
purge is issued with one future of dataset 0 left -/
example : ∃ pre post, (purgeArm true (some 2000) 1 [2, 1] exWP).log = post ++ Event.purged 1 0 0 :: (pre ++ exWP.log) ∧
    jobEnded 1 (.cmd exT) pre ∧ jobEnded 1 (.cmd exF) pre := by
  obtain ⟨pre, post, hl, hall, _⟩ := c07_purge_arm_waits_every_job true (some 2000) rfl exWP 1 0 [] [2, 1] (by decide) (by decide)
  exact ⟨pre, post, hl, hall ⟨.cmd exT, 0, none⟩ (by decide) rfl, hall ⟨.cmd exF, 1, none⟩ (by decide) rfl⟩
example : (purgeArm false (some 2000) 1 [2] exWP).log =
    [.purged 1 0 1, .sent 1 exT "aa" "df0", .announced 1 5 7, .stored 1 5 7 "ee" "df5"] ∧
    (purgeArm false (some 2000) 1 [2] exWP).now = exWP.now + 2000 := by decide
/-- `c07_exec_purge_dropped`: host 2 has never seen dataset 0 published -/
example : (step exW0 (.etick 2 [0])).log = [.purgeDropped 2 0] ∧ ((step exW0 (.etick 2 [0])).hosts 2).sock = [] := by decide
/-- `jobEnded` is not trivially true: nothing has ended in an empty trace, and the report of one job is not the
report of another -/
example : ¬ jobEnded 1 (.cmd exT) [] ∧ ¬ jobEnded 1 (.cmd exT) [.sent 1 exF "aa" "df0"] ∧
    ¬ jobEnded 1 (.pay ⟨3, 7, 5, "df5", "ee"⟩) [.stored 1 5 7 "ee" "df5"] := by
  simp [jobEnded, exT, exF]

end EkwVerif.Transfer
