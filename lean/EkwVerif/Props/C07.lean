/-
C07 — a transfer stores the dataset once, byte-identical, and announces it once; fetch delivers the
same bytes; a purge racing with a transfer waits for the futures in progress; late payloads never
resurrect a purged dataset.

All theorems quantify over EVERY history `ops` (`Model/Transfer.lean : Op`): recv_loop iterations
fed with any frames (taken or duplicated, any order) and any commands / purges, pool jobs in any
order, clock advances, frame drops, controller receptions.  They are proved for the larger class of
all interleavings of micro steps (`MStar`) and transferred by `Aux.run_mstar`.
-/
import EkwVerif.Lemmas.Transfer
import EkwVerif.Lemmas.TransferRetry

namespace EkwVerif.Transfer
open Aux

/-- start of a history: nothing in flight, nothing queued, nothing purged; stores are arbitrary
(each key at most once). -/
structure Fresh (w : World) : Prop where
  log : w.log = []
  net : w.net = []
  futs : ∀ h, (w.hosts h).futs = []
  invalid : ∀ h, (w.hosts h).invalid = []
  sock : ∀ h, (w.hosts h).sock = []
  inbox : ∀ h, (w.hosts h).inbox = []
  awaiting : ∀ h, (w.hosts h).awaiting = []
  copies : ∀ h ds, copies (w.hosts h).store ds ≤ 1

/-- host `h` holds `ds` at the start -/
def hadAt (w0 : World) (h ds : Nat) : Bool := (lookup (w0.hosts h).store ds).isSome

namespace Aux

theorem inv_fresh (w0 : World) (hf : Fresh w0) : Inv (hadAt w0) w0 := by
  refine ⟨?_, ?_, ?_, ?_, ?_, ?_, ?_, ?_⟩
  · intro h ds; simp [hf.log, storedCnt, hadN]; split <;> omega
  · intro h ds hpos
    left
    simp only [hf.log, storedCnt, hadN, hadAt, List.countP_nil, Nat.zero_add] at hpos
    by_cases hh : (lookup (w0.hosts h).store ds).isSome = true
    · exact hh
    · simp [hh] at hpos
  · intro h ds hd; simp [hf.invalid] at hd
  · intro h ds hd; simp [hf.invalid] at hd
  · intro h ds; simp [hf.log, storedCnt, annCnt]
  · exact hf.copies
  · intro h ds k hk; simp [hf.log] at hk
  · intro h ds k hk; simp [hf.log] at hk

theorem cons_fresh (truth : Nat → String × String) (w0 : World) (hf : Fresh w0)
    (ht : ∀ h, ∀ e ∈ (w0.hosts h).store, e.2 = truth e.1) : Cons truth w0 := by
  refine ⟨ht, ?_, ?_, ?_, ?_, ?_⟩
  · simp [hf.net]
  · intro h; simp [hf.sock]
  · intro h; simp [hf.inbox]
  · intro h; simp [hf.futs]
  · simp [hf.log]

theorem afw_fresh (w0 : World) (hf : Fresh w0) : AFW w0 := by
  intro h
  rw [hf.awaiting, hf.futs]
  exact ⟨by simp, by simp, by simp, by simp⟩

theorem inv_run (w0 : World) (hf : Fresh w0) (ops : List Op) : Inv (hadAt w0) (run w0 ops) :=
  inv_mstar (run_mstar w0 ops) (inv_fresh w0 hf)

end Aux

/-! ### the property theorems -/

/-- **single copy.** Whatever the commands, retries, duplicates and interleavings: per (dataset, host)
at most one successful store — none at all on a host that held the dataset from the start — and the
store never contains two entries of one dataset. -/
theorem c07_single_copy (w0 : World) (hf : Fresh w0) (ops : List Op) (h ds : Nat) :
    storedCnt (run w0 ops).log h ds + (if hadAt w0 h ds then 1 else 0) ≤ 1 ∧
    copies ((run w0 ops).hosts h).store ds ≤ 1 :=
  ⟨(inv_run w0 hf ops).cnt_le h ds, (inv_run w0 hf ops).copies_le h ds⟩

/-- **bytes equal.** If all initial copies of every dataset are `truth ds = (bytes, deser_fun)`, then
after any history every copy on every host is `truth ds`, every successful store wrote `truth ds`, every
payload put on the wire carried the source's `truth ds`, and every payload delivered to the controller
(fetch) is `truth ds`. -/
theorem c07_bytes_equal (truth : Nat → String × String) (w0 : World) (hf : Fresh w0)
    (ht : ∀ h, ∀ e ∈ (w0.hosts h).store, e.2 = truth e.1) (ops : List Op) :
    (∀ h, ∀ e ∈ ((run w0 ops).hosts h).store, e.2 = truth e.1) ∧
    (∀ h ds i b f, Event.stored h ds i b f ∈ (run w0 ops).log → (b, f) = truth ds) ∧
    (∀ h c b f, Event.sent h c b f ∈ (run w0 ops).log → (b, f) = truth c.ds) ∧
    (∀ p, Event.ctrlGot p ∈ (run w0 ops).log → (p.value, p.deser) = truth p.ds) := by
  have hc := cons_mstar (run_mstar w0 ops) (cons_fresh truth w0 hf ht)
  refine ⟨hc.store, ?_, ?_, ?_⟩
  · intro h ds i b f hm; exact hc.log _ hm
  · intro h c b f hm; exact hc.log _ hm
  · intro p hm; exact hc.log _ hm

/-- **announced once.** The number of `DatasetPublished` a host emits for a dataset equals the number
of its successful stores (one per arrival), is at most one, and is zero for a host that already had the
dataset (redundant transfer). -/
theorem c07_announced_once (w0 : World) (hf : Fresh w0) (ops : List Op) (h ds : Nat) :
    annCnt (run w0 ops).log h ds = storedCnt (run w0 ops).log h ds ∧
    annCnt (run w0 ops).log h ds ≤ 1 ∧
    (hadAt w0 h ds = true → annCnt (run w0 ops).log h ds = 0) := by
  have hi := inv_run w0 hf ops
  have h1 := hi.ann_eq h ds
  have h2 := hi.cnt_le h ds
  refine ⟨h1, by omega, ?_⟩
  intro hh
  simp [hadN, hh] at h2
  omega

/-- **no resurrection.** Once `ds` has been purged at `h` (a `purged` event is in the trace, equivalently
`ds ∈ invalid`), then whatever happens afterwards — late payloads, duplicates, retries, new redundant
transfers — no store of `ds` happens at `h`, the store does not contain it, and it stays invalid. -/
theorem c07_no_resurrection (w0 : World) (hf : Fresh w0) (ops later : List Op) (h ds k : Nat)
    (hp : Event.purged h ds k ∈ (run w0 ops).log) :
    storedCnt (run w0 (ops ++ later)).log h ds = storedCnt (run w0 ops).log h ds ∧
    lookup ((run w0 (ops ++ later)).hosts h).store ds = none ∧
    ds ∈ ((run w0 (ops ++ later)).hosts h).invalid := by
  have hi := inv_run w0 hf ops
  have hd := hi.purged_inv h ds k hp
  rw [run_append]
  have hs := purged_mstar (run_mstar (run w0 ops) later) hi h ds hd
  have hi2 := inv_mstar (run_mstar (run w0 ops) later) hi
  exact ⟨hs.2.1, hi2.inv_nostore h ds hs.1, hs.1⟩

/-- **purge waits.** Every shm purge of a dataset happens at a moment when no future of that dataset
(send = read in progress, or store) is left in `futs_in_progress`. -/
theorem c07_purge_waits (w0 : World) (hf : Fresh w0) (ops : List Op) (h ds k : Nat)
    (hp : Event.purged h ds k ∈ (run w0 ops).log) : k = 0 :=
  (inv_run w0 hf ops).purge_ok h ds k hp

/-- **retry until acked.**
(a) In any reachable state, if the confirmation of transfer `idx` is overdue at host `h` (`at > 0`,
`at + 4000 ms < now`), its ack has not been received and its dataset has not been purged, then the
next iteration of `recv_loop` (here: a timer iteration, nothing to read) submits a re-send of `idx` —
whatever else is in the retry queue, whatever the pool does meanwhile.
(b) Once the ack of `idx` has been received, no later history contains another re-send of `idx`.
(c) Once the dataset has been purged at `h`, no later history submits or performs any send of it there. -/
theorem c07_retry_until_acked (w0 : World) (hf : Fresh w0) (ops : List Op) (h : Nat) :
    (∀ idx c t sched,
        ((run w0 ops).hosts h).crashed = false → ((run w0 ops).hosts h).sock = [] → ((run w0 ops).hosts h).inbox = [] →
        lookup ((run w0 ops).hosts h).awaiting idx = some (c, some t) → 0 < t → t + grace < (run w0 ops).now →
        idx ∉ ((run w0 ops).hosts h).acks → c.ds ∉ ((run w0 ops).hosts h).invalid →
        resubmitCnt (run w0 ops).log h idx < resubmitCnt (run w0 (ops ++ [.tick h [] sched])).log h idx) ∧
    (∀ idx later, idx ∈ ((run w0 ops).hosts h).acks →
        resubmitCnt (run w0 (ops ++ later)).log h idx = resubmitCnt (run w0 ops).log h idx) ∧
    (∀ ds k later, Event.purged h ds k ∈ (run w0 ops).log →
        submitDsCnt (run w0 (ops ++ later)).log h ds = submitDsCnt (run w0 ops).log h ds ∧
        sentDsCnt (run w0 (ops ++ later)).log h ds = sentDsCnt (run w0 ops).log h ds) := by
  refine ⟨?_, ?_, ?_⟩
  · intro idx c t sched hal hs hin hl ht0 ht hna hnv
    rw [run_append]
    have haf := afw_mstar (run_mstar w0 ops) (afw_fresh w0 hf) h
    exact tick_resubmits h idx c t sched (run w0 ops) ⟨haf, hal, hl, hna, hnv⟩ hs hin ⟨ht0, ht⟩
  · intro idx later ha
    rw [run_append]
    exact (acked_mstar (run_mstar (run w0 ops) later) h idx ha).2
  · intro ds k later hp
    have hi := inv_run w0 hf ops
    rw [run_append]
    have := purged_mstar (run_mstar (run w0 ops) later) hi h ds (hi.purged_inv h ds k hp)
    exact ⟨this.2.2.1, this.2.2.2⟩

/-! ### non-vacuity: a concrete history exercising every hypothesis -/

/-- host 1 holds dataset 0; host 2 and 3 are empty -/
def exW0 : World := { hosts := fun h => if h = 1 then { store := [(0, "aa", "df0")] } else {} }

theorem exFresh : Fresh exW0 := by
  refine ⟨rfl, rfl, ?_, ?_, ?_, ?_, ?_, ?_⟩ <;> intro h <;> (try intro ds) <;> simp only [exW0] <;> split <;>
    simp [copies, List.filter_cons] <;> split <;> simp

def exT : Cmd := ⟨1, 2, 2, 0, 0⟩      -- transfer 1 → 2, idx 0
def exF : Cmd := ⟨1, 0, 0, 0, 1⟩      -- fetch from 1, idx 1
def exR : Cmd := ⟨1, 2, 2, 0, 2⟩      -- redundant transfer 1 → 2, idx 2

/-- transfer, its payload duplicated by the network, stored once; fetch delivered; a redundant
transfer is sent -/
def exPre : List Op :=
  [.tick 1 [.msg (.cmd exT), .msg (.cmd exF)] [], .job 1 0, .job 1 0,
   .tick 2 [.frame 0 true] [], .job 2 0, .ctrl 1 false,
   .tick 1 [.msg (.cmd exR)] [], .job 1 0]

/-- … its payload arrives while the target still holds the dataset -/
def exRedundant : List Op := exPre ++ [.tick 2 [.frame 3 false] [], .job 2 0]

/-- … or the target is purged first -/
def exOps : List Op := exPre ++ [.tick 2 [.msg (.purge 0)] []]

/-- and then the redundant payload and the duplicate of the first one arrive late -/
def exLate : List Op := [.tick 2 [.frame 3 false, .frame 0 false] [], .job 2 0]

example : storedCnt (run exW0 exOps).log 2 0 = 1 ∧ annCnt (run exW0 exOps).log 2 0 = 1 := by decide
example : Event.stored 2 0 0 "aa" "df0" ∈ (run exW0 exOps).log ∧
    Event.ctrlGot ⟨1, 1, 0, "df0", "aa"⟩ ∈ (run exW0 exOps).log := by decide
example : Event.redundant 2 0 2 ∈ (run exW0 exRedundant).log ∧ annCnt (run exW0 exRedundant).log 2 0 = 1 := by decide
example : Event.purged 2 0 0 ∈ (run exW0 exOps).log := by decide
example : Event.ignored 2 0 2 ∈ (run exW0 (exOps ++ exLate)).log ∧
    storedCnt (run exW0 (exOps ++ exLate)).log 2 0 = 1 := by decide
example : storedCnt (run exW0 exOps).log 2 0 + (if hadAt exW0 2 0 then 1 else 0) ≤ 1 :=
  (c07_single_copy exW0 exFresh exOps 2 0).1
example : storedCnt (run exW0 (exOps ++ exLate)).log 2 0 = storedCnt (run exW0 exOps).log 2 0 :=
  (c07_no_resurrection exW0 exFresh exOps exLate 2 0 0 (by decide)).1

def exTruth : Nat → String × String := fun ds => if ds = 0 then ("aa", "df0") else ("", "")

theorem exTruthOk : ∀ h, ∀ e ∈ (exW0.hosts h).store, e.2 = exTruth e.1 := by
  intro h e he
  simp only [exW0] at he
  split at he
  · simp at he; subst he; rfl
  · simp at he

example : ∀ p, Event.ctrlGot p ∈ (run exW0 exOps).log → (p.value, p.deser) = exTruth p.ds :=
  (c07_bytes_equal exTruth exW0 exFresh exTruthOk exOps).2.2.2
example : annCnt (run exW0 exRedundant).log 2 0 = storedCnt (run exW0 exRedundant).log 2 0 :=
  (c07_announced_once exW0 exFresh exRedundant 2 0).1
example : hadAt exW0 1 0 = true ∧ annCnt (run exW0 exOps).log 1 0 = 0 :=
  ⟨by decide, (c07_announced_once exW0 exFresh exOps 1 0).2.2 (by decide)⟩

/-- a purge at the source arriving while the send job of a transfer is still queued: the purge branch
runs the job first (the payload is sent), then purges -/
def exRace : List Op := [.tick 1 [.msg (.cmd exT)] [], .tick 1 [.msg (.purge 0)] []]
example : Event.purged 1 0 0 ∈ (run exW0 exRace).log ∧ sentDsCnt (run exW0 exRace).log 1 0 = 1 ∧
    ((run exW0 exRace).hosts 1).futs = [] := by decide
example : (0 : Nat) = 0 := c07_purge_waits exW0 exFresh exRace 1 0 0 (by decide)

/-- an unconfirmed transfer whose payload was dropped: overdue after 4001 ms, re-sent by the next
iteration; and after its ack no further re-send. -/
def exRetry : List Op := [.tick 1 [.msg (.cmd exT)] [], .job 1 0, .drop 0, .tick 1 [] [], .adv 4001]

example : lookup ((run exW0 exRetry).hosts 1).awaiting 0 = some (exT, some 1) ∧ (run exW0 exRetry).now = 4002 := by decide
example : resubmitCnt (run exW0 exRetry).log 1 0 < resubmitCnt (run exW0 (exRetry ++ [.tick 1 [] []])).log 1 0 :=
  (c07_retry_until_acked exW0 exFresh exRetry 1).1 0 exT 1 [] (by decide) (by decide) (by decide) (by decide)
    (by decide) (by decide) (by decide) (by decide)
example : resubmitCnt (run exW0 (exRetry ++ [.tick 1 [] []])).log 1 0 = 1 := by decide

def exAcked : List Op := exRetry ++ [.tick 1 [] [], .job 1 0, .tick 2 [.frame 0 false] [], .tick 1 [.frame 0 false] []]
example : 0 ∈ ((run exW0 exAcked).hosts 1).acks := by decide
example : resubmitCnt (run exW0 (exAcked ++ [.adv 9000, .tick 1 [] [], .adv 9000, .tick 1 [] []])).log 1 0 = 1 := by decide

end EkwVerif.Transfer
