/-
C09 — shared-memory datasets keep their bytes, are protected in use, stay reachable.

Same model as C08 (Model/Shm.lean); histories are arbitrary lists of `Op`. `SafeRun` is explained in
Props/C08.lean (writer creates its segment while `created`; no purge request on a reader-less dataset
whose disk job is in flight = known finding C08-purge-in-flight).
The model mirrors the code AFTER the fix of the lock leak (`page_out_at_least` gives `pageout_all`
back when the lottery has no winners); `c09_lock_discipline` is false for the unfixed code.
-/
import EkwVerif.Lemmas.ShmLive3
import EkwVerif.Lemmas.ShmWriter
import EkwVerif.Lemmas.ShmMicroCount

namespace EkwVerif.Shm
open Aux

namespace Aux

theorem maxStart_ge (rs : List (String × Nat)) (r : String) (t0 : Nat) (h : (r, t0) ∈ rs) : t0 ≤ maxStart rs := by
  induction rs with
  | nil => cases h
  | cons a rs ih =>
    obtain ⟨r', t'⟩ := a
    simp only [maxStart]
    rcases List.mem_cons.mp h with h | h
    · cases h; exact Nat.le_max_left _ _
    · exact Nat.le_trans (ih h) (Nat.le_max_right _ _)

end Aux

/-! ### content -/

/-- Bytes read equal bytes written, through any number of page-out / page-in cycles: after every
`SafeRun` history, whenever `get k` is granted, the segment handed out has the granted size and
holds exactly the token the writer of this dataset put there (`wrote`, set by the writer's
create-and-write step and by nothing else), and the `get` itself does not touch it.
Missing for full strength: histories with a purge request racing an in-flight disk job
(`SafeRun`; witness `c09_content_full_fails`). -/
theorem c09_content_partial (cap sc sr : Nat) (ops : List Op) (h : SafeRun (init cap sc sr) ops)
    (k : String) (t : Nat) (cands : List String) (size : Nat) (r deser : String)
    (hg : (get (run (init cap sc sr) ops) k t cands).2 = .granted size r deser) :
    ∃ d, find? (run (init cap sc sr) ops).ds k = some d ∧ d.status = .inMemory ∧ d.size = size ∧ d.deser = deser ∧
      ∀ tok, d.wrote = some tok →
        find? (get (run (init cap sc sr) ops) k t cands).1.segs k = some ⟨size, tok⟩ := by
  obtain ⟨_, hc⟩ := core_run ops _ (base_init cap sc sr) (core_init cap sc sr) h
  generalize run (init cap sc sr) ops = s at hg hc ⊢
  unfold get at hg ⊢
  cases hd : find? s.ds k with
  | none => simp [hd] at hg
  | some d =>
    simp only [hd] at hg ⊢
    cases hst : d.status <;> simp only [hst] at hg ⊢
    · cases hg
    · cases hf : firstFresh d.readers cands with
      | none => simp [hf] at hg
      | some r' =>
        simp only [hf] at hg ⊢
        cases hg
        refine ⟨d, rfl, hst, rfl, rfl, ?_⟩
        intro tok hw
        have := hc.content k d tok hd hw
        rw [hst] at this
        simpa [Holds] using this
    · cases hg
    · split at hg <;> cases hg
    · cases hg

/-- in the excluded class the property fails: after the purge/page-out race of `raceOps` a `get`
is granted although no segment exists under the key -/
theorem c09_content_full_fails :
    ¬ ∀ (cap sc sr : Nat) (ops : List Op) (k : String) (t : Nat) (cands : List String) (size : Nat) (r deser : String),
        (get (run (init cap sc sr) ops) k t cands).2 = .granted size r deser →
        (find? (get (run (init cap sc sr) ops) k t cands).1.segs k).isSome = true := by
  intro h
  have := h 10 900 900
    [.add "a" 6 "" 1, .cwrite "a" 6 1, .closeW "a", .add "b" 6 "" 2, .purge "a",
     .add "a" 8 "" 3, .cwrite "a" 8 2, .closeW "a", .io 0 .ok, .cb 0] "a" 4 ["r"] 8 "r" "" (by decide)
  revert this
  decide

/-! ### who writes the bytes -/

namespace Aux

/-- every dataset of `ds'` already was in `ds` under the same key with the same `wrote` -/
def KeepsWrote (ds ds' : List (String × Dataset)) : Prop :=
  ∀ k d', find? ds' k = some d' → ∃ d, find? ds k = some d ∧ d'.wrote = d.wrote

theorem kw_refl (ds : List (String × Dataset)) : KeepsWrote ds ds := fun _ d' h => ⟨d', h, rfl⟩

theorem kw_trans {a b c : List (String × Dataset)} (h1 : KeepsWrote a b) (h2 : KeepsWrote b c) : KeepsWrote a c := by
  intro k d' h
  obtain ⟨d1, e1, w1⟩ := h2 k d' h
  obtain ⟨d0, e0, w0⟩ := h1 k d1 e1
  exact ⟨d0, e0, w1.trans w0⟩

theorem kw_set (ds : List (String × Dataset)) (k : String) (d0 v : Dataset) (h : find? ds k = some d0)
    (hw : v.wrote = d0.wrote) : KeepsWrote ds (set ds k v) := by
  intro x d' hx
  by_cases e : x = k
  · subst e; rw [find?_set_self _ _ _ _ h] at hx; cases hx; exact ⟨d0, h, hw⟩
  · rw [find?_set_ne _ _ _ _ e] at hx; exact ⟨d', hx, rfl⟩

theorem kw_erase (ds : List (String × Dataset)) (k : String) (hn : Nd ds) : KeepsWrote ds (erase ds k) := by
  intro x d' hx
  by_cases e : x = k
  · subst e; rw [find?_erase_self _ _ hn] at hx; cases hx
  · rw [find?_erase_ne _ _ _ e] at hx; exact ⟨d', hx, rfl⟩

theorem kw_purge (s : St) (k : String) (hn : Nd s.ds) : KeepsWrote s.ds (purge s k).ds := by
  unfold purge
  cases hd : find? s.ds k with
  | none => exact kw_refl _
  | some d =>
    simp only
    split
    · exact kw_set _ _ d _ hd rfl
    · split
      · exact kw_refl _
      · cases find? s.segs k with
        | none => exact kw_refl _
        | some g => exact kw_erase _ _ hn

theorem kw_purgeFailed (s : St) (k : String) (hn : Nd s.ds) : KeepsWrote s.ds (purgeFailed s k).ds := by
  unfold purgeFailed
  cases hd : find? s.ds k with
  | none => exact kw_refl _
  | some d => simp only; split; exact kw_refl _; exact kw_erase _ _ hn

theorem kw_afterClose (s : St) (k : String) (hn : Nd s.ds) : KeepsWrote s.ds (afterClose s k).ds := by
  unfold afterClose
  cases find? s.ds k with
  | none => exact kw_refl _
  | some d => simp only; split; exact kw_purge s k hn; exact kw_refl _

theorem kw_pageOut (s : St) (k : String) : KeepsWrote s.ds (pageOut s k).ds := by
  unfold pageOut
  cases hd : find? s.ds k with
  | none => exact kw_refl _
  | some d => exact kw_set _ _ d _ hd rfl

theorem kw_pageOutAll (ws : List String) : ∀ (s : St), KeepsWrote s.ds (pageOutAll s ws).ds := by
  induction ws with
  | nil => intro s; exact kw_refl _
  | cons k ws ih => intro s; simp only [pageOutAll, List.foldl_cons]; exact kw_trans (kw_pageOut s k) (ih _)

theorem kw_pageOutAtLeast (s : St) (a t : Nat) : KeepsWrote s.ds (pageOutAtLeast s a t).ds := by
  unfold pageOutAtLeast
  split
  · exact kw_refl _
  · simp only; split
    · exact kw_refl _
    · exact kw_pageOutAll _ { s with lock := true, count := _ }

theorem kw_closeCb (s : St) (k r : String) (hn : Nd s.ds) : KeepsWrote s.ds (closeCb s k r).1.ds := by
  unfold closeCb
  cases hd : find? s.ds k with
  | none => exact kw_refl _
  | some d =>
    simp only
    split
    · split
      · exact kw_refl _
      · exact kw_trans (kw_set _ _ d { d with status := .inMemory } hd rfl)
          (kw_afterClose { s with ds := set s.ds k { d with status := .inMemory } } k (nd_set _ _ _ hn))
    · split
      · exact kw_refl _
      · exact kw_trans (kw_set _ _ d { d with readers := eraseReader d.readers r } hd rfl)
          (kw_afterClose { s with ds := set s.ds k { d with readers := eraseReader d.readers r } } k (nd_set _ _ _ hn))

theorem kw_get (s : St) (k : String) (t : Nat) (cands : List String) : KeepsWrote s.ds (get s k t cands).1.ds := by
  unfold get
  cases hd : find? s.ds k with
  | none => exact kw_refl _
  | some d =>
    simp only
    split
    · exact kw_refl _
    · exact kw_refl _
    · exact kw_refl _
    · split
      · exact kw_pageOutAtLeast _ _ _
      · exact kw_set _ _ d _ hd rfl
    · split
      · exact kw_refl _
      · exact kw_set _ _ d _ hd rfl

theorem ioStep_ds (s : St) (id : Nat) (inj : IoRes) : (ioStep s id inj).1.ds = s.ds := (ioStep_frame s id inj).1

theorem kw_cbStep (s : St) (id : Nat) (hn : Nd s.ds) : KeepsWrote s.ds (cbStep s id).1.ds := by
  unfold cbStep
  cases findJob s.jobs id with
  | none => exact kw_refl _
  | some j =>
    simp only
    cases j.io with
    | none => exact kw_refl _
    | some b =>
      have hss : ∀ st, KeepsWrote s.ds (setStatusIfSame s.ds j.key j.gen st) := by
        intro st
        unfold setStatusIfSame
        cases hd : find? s.ds j.key with
        | none => exact kw_refl _
        | some d => simp only; split; exact kw_set _ _ d _ hd rfl; exact kw_refl _
      cases j.kind <;> cases b <;> simp only [decCount]
      · exact kw_purgeFailed { s with jobs := eraseJob s.jobs id } j.key hn
      · exact hss _
      · exact kw_purgeFailed { s with jobs := eraseJob s.jobs id } j.key hn
      · exact hss _

end Aux

/-- The ghost field `wrote` of the content theorem is what it claims to be: the writer's
create-and-write step records its token and puts exactly these bytes into the fresh segment … -/
theorem c09_writer_writes (s : St) (k : String) (size tok : Nat) (d : Dataset) (hd : find? s.ds k = some d)
    (hg : find? s.segs k = none) (hs : size ≠ 0) :
    (cwrite s k size tok).2 = .ok ∧ find? (cwrite s k size tok).1.segs k = some ⟨size, tok⟩ ∧
    ∃ d', find? (cwrite s k size tok).1.ds k = some d' ∧ d'.wrote = some tok := by
  have e : cwrite s k size tok = ({ s with segs := s.segs ++ [(k, { size := size, data := tok })], ds := set s.ds k { d with wrote := some tok } }, .ok) := by
    simp [cwrite, hg, hd, hs]
  rw [e]
  exact ⟨rfl, find?_append_self _ _ _ hg, _, find?_set_self _ _ _ _ hd, rfl⟩

/-- … and no other step of any client or disk job changes `wrote` of a stored dataset
(for EVERY state with unique keys). -/
theorem c09_wrote_only_by_writer (s : St) (hn : Nd s.ds) (op : Op) (k : String) (d d' : Dataset)
    (hd : find? s.ds k = some d) (hd' : find? (step s op).1.ds k = some d')
    (hop : ∀ size tok, op ≠ .cwrite k size tok) : d'.wrote = d.wrote := by
  have fin : KeepsWrote s.ds (step s op).1.ds → d'.wrote = d.wrote := by
    intro h
    obtain ⟨d0, e0, w0⟩ := h k d' hd'
    rw [hd] at e0; cases e0; exact w0
  cases op with
  | freeSpace => exact fin (kw_refl _)
  | purge k' => exact fin (kw_purge s k' hn)
  | closeW k' => exact fin (kw_closeCb s k' "" hn)
  | closeR k' r => exact fin (kw_closeCb s k' r hn)
  | get k' t cands => exact fin (kw_get s k' t cands)
  | io id inj => exact fin (by simp only [step]; rw [ioStep_ds]; exact kw_refl _)
  | cb id => exact fin (kw_cbStep s id hn)
  | add k' size deser t =>
    simp only [step, add] at hd'
    split at hd'
    · rw [hd] at hd'; cases hd'; rfl
    · split at hd'
      · rw [hd] at hd'; cases hd'; rfl
      · split at hd'
        · obtain ⟨d0, e0, w0⟩ := kw_pageOutAtLeast s _ t k d' hd'
          rw [hd] at e0; cases e0; exact w0
        · simp only at hd'
          rw [find?_append_some _ _ _ _ _ hd] at hd'; cases hd'; rfl
  | cwrite k' size tok =>
    have hk : k ≠ k' := by intro e; subst e; exact hop size tok rfl
    simp only [step, cwrite] at hd'
    split at hd'
    · rw [hd] at hd'; cases hd'; rfl
    cases hg : find? s.segs k' with
    | some g => simp only [hg] at hd'; rw [hd] at hd'; cases hd'; rfl
    | none =>
      simp only [hg] at hd'
      cases hk' : find? s.ds k' with
      | none => simp only [hk'] at hd'; rw [hd] at hd'; cases hd'; rfl
      | some dk =>
        simp only [hk'] at hd'
        rw [find?_set_ne _ _ _ _ hk, hd] at hd'; cases hd'; rfl

/-! ### not readable before the writer has finished -/

/-- `get` on a dataset whose writer has not closed (`created`) — and likewise while it is being
paged out or in — answers `wait`, registers no reader and changes nothing; for EVERY state. -/
theorem c09_not_before_close (s : St) (k : String) (t : Nat) (cands : List String) (d : Dataset)
    (hd : find? s.ds k = some d) (hst : d.status = .created ∨ d.status = .pagingOut ∨ d.status = .pagedIn) :
    get s k t cands = (s, .wait) := by
  unfold get
  rcases hst with h | h | h <;> simp [hd, h]

/-- … and only the writer's close turns `created` into `in_memory` in `close_callback` -/
theorem c09_close_writer (s : St) (k : String) (d : Dataset) (hd : find? s.ds k = some d) :
    (d.status = .created → ∀ rdid, rdid ≠ "" → closeCb s k rdid = (s, .valueError)) ∧
    (d.status ≠ .created → closeCb s k "" = (s, .valueError)) := by
  constructor
  · intro hst rdid hr
    simp [closeCb, hd, hr, hst]
  · intro hst
    simp [closeCb, hd, hst]

/-! ### protected in use -/

/-- A dataset with a reader younger than STALE_READ is not chosen by `page_out_at_least`: every
winner is `in_memory`/stale-`created`, and if it is `in_memory` all its readers are older than the
window; datasets that are not winners keep their record, and no segment is touched. For EVERY state
with unique keys (`Nd`, which holds after every history: `c09_keys_unique`). -/
theorem c09_protected (s : St) (amount t : Nat) (hn : Nd s.ds) (k : String) (d : Dataset) (hd : find? s.ds k = some d)
    (r : String) (t0 : Nat) (hr : (r, t0) ∈ d.readers) (hfresh : t ≤ t0 + s.staleRead) (hst : d.status = .inMemory) :
    find? (pageOutAtLeast s amount t).ds k = some d ∧ (pageOutAtLeast s amount t).segs = s.segs := by
  have hnp : isPageoutable s.staleCreate s.staleRead d t = false := by
    have hm := maxStart_ge d.readers r t0 hr
    have hne : d.readers.isEmpty = false := by cases h : d.readers <;> simp [h] at hr ⊢
    have : ¬ (maxStart d.readers + s.staleRead < t) := by omega
    simp [isPageoutable, hst, hne, this]
  unfold pageOutAtLeast
  split
  · exact ⟨hd, rfl⟩
  · simp only
    split
    · exact ⟨hd, rfl⟩
    · have hk : k ∉ lottery (candidates s.staleCreate s.staleRead t s.ds) amount := by
        intro hk
        obtain ⟨d', hd', hp⟩ := winners_pageoutable _ _ _ _ _ hn k hk
        rw [hd] at hd'; cases hd'; rw [hnp] at hp; cases hp
      obtain ⟨r1, r2, _⟩ := pageOutAll_other _ { s with lock := true, count := _ } k hk
      exact ⟨r1.trans hd, r2⟩

/-- every dataset that `page_out_at_least` does send to disk was `is_pageoutable` at that time -/
theorem c09_evicted_were_pageoutable (s : St) (amount t : Nat) (hn : Nd s.ds) (k : String) (d : Dataset)
    (hd : find? s.ds k = some d) (hch : find? (pageOutAtLeast s amount t).ds k ≠ some d) :
    isPageoutable s.staleCreate s.staleRead d t = true := by
  unfold pageOutAtLeast at hch
  split at hch
  · exact absurd hd hch
  · simp only at hch
    split at hch
    · exact absurd hd hch
    · by_cases hk : k ∈ lottery (candidates s.staleCreate s.staleRead t s.ds) amount
      · obtain ⟨d', hd', hp⟩ := winners_pageoutable _ _ _ _ _ hn k hk
        rw [hd] at hd'; cases hd'; exact hp
      · obtain ⟨r1, _, _⟩ := pageOutAll_other _ { s with lock := true, count := (lottery (candidates s.staleCreate s.staleRead t s.ds) amount).length } k hk
        exact absurd (r1.trans hd) hch

/-- A purge while ANY reader holds the dataset unlinks nothing: it only sets `delayed_purge`. -/
theorem c09_protected_purge (s : St) (k : String) (d : Dataset) (hd : find? s.ds k = some d) (hr : d.readers ≠ []) :
    purge s k = { s with ds := set s.ds k { d with delayed := true } } := by
  have : d.readers.isEmpty = false := by cases h : d.readers <;> simp [h] at hr ⊢
  simp [purge, hd, this]

theorem c09_keys_unique (cap sc sr : Nat) (ops : List Op) : Nd (run (init cap sc sr) ops).ds :=
  (base_run ops _ (base_init cap sc sr)).nd


/-! ### delayed purge -/

/-- The close of the last reader (`r` is the only id left: any number of readers may have come and gone) executes a
purge that arrived during the read: the dataset is gone, its segment is unlinked, its size is returned. For EVERY state
with unique keys in which the dataset is still `in_memory` -- which `c09_protected_step` guarantees as long as one of
its readers is younger than STALE_READ; for a dataset evicted under readers that have all gone stale see
`c09_delayed_purge_stale_full_fails`. -/
theorem c09_delayed_purge (s : St) (k r : String) (d : Dataset) (g : Seg)
    (hn : Nd s.ds) (hns : Nd s.segs) (hd : find? s.ds k = some d) (hst : d.status = .inMemory)
    (hr : eraseReader d.readers r = []) (hne : r ≠ "") (hdel : d.delayed = true) (hg : find? s.segs k = some g) :
    (closeCb s k r).2 = .ok ∧ find? (closeCb s k r).1.ds k = none ∧ find? (closeCb s k r).1.segs k = none ∧
    (closeCb s k r).1.free = s.free + d.size := by
  have e1 : eraseReader d.readers r = [] := hr
  have hd' : ∀ w, find? (set s.ds k w) k = some w := fun w => find?_set_self s.ds k w d hd
  have e : closeCb s k r =
      ({ s with segs := erase s.segs k, free := s.free + d.size, ds := erase (set s.ds k { d with readers := [] }) k }, .ok) := by
    simp [closeCb, hd, hne, hst, e1, afterClose, hd', hdel, purge, hg]
  rw [e]
  exact ⟨rfl, find?_erase_self _ _ (nd_set _ _ _ hn), find?_erase_self _ _ hns, rfl⟩

/-- … while the close of a reader that is not the last one keeps dataset, segment and the flag. -/
theorem c09_delayed_purge_waits (s : St) (k r : String) (d : Dataset) (hd : find? s.ds k = some d)
    (hst : d.status = .inMemory) (hne : r ≠ "") (hrest : eraseReader d.readers r ≠ []) :
    closeCb s k r = ({ s with ds := set s.ds k { d with readers := eraseReader d.readers r } }, .ok) := by
  have : (eraseReader d.readers r).isEmpty = false := by
    cases h : eraseReader d.readers r <;> simp [h] at hrest ⊢
  have hd' : ∀ w, find? (set s.ds k w) k = some w := fun w => find?_set_self s.ds k w d hd
  simp [closeCb, hd, hne, hst, afterClose, hd', this]

/-! ### protection across every step -/

namespace Aux

theorem purge_other (s : St) (k' k : String) (h : k ≠ k') :
    find? (purge s k').ds k = find? s.ds k ∧ find? (purge s k').segs k = find? s.segs k := by
  unfold purge
  cases find? s.ds k' with
  | none => exact ⟨rfl, rfl⟩
  | some d =>
    simp only
    split
    · exact ⟨find?_set_ne _ _ _ _ h, rfl⟩
    · split
      · exact ⟨rfl, rfl⟩
      · cases find? s.segs k' with
        | none => exact ⟨rfl, rfl⟩
        | some g => exact ⟨find?_erase_ne _ _ _ h, find?_erase_ne _ _ _ h⟩

theorem purgeFailed_other (s : St) (k' k : String) (h : k ≠ k') :
    find? (purgeFailed s k').ds k = find? s.ds k ∧ find? (purgeFailed s k').segs k = find? s.segs k := by
  unfold purgeFailed
  cases find? s.ds k' with
  | none => exact ⟨rfl, rfl⟩
  | some d =>
    simp only
    split
    · exact ⟨rfl, rfl⟩
    · exact ⟨find?_erase_ne _ _ _ h, find?_erase_ne _ _ _ h⟩

theorem afterClose_other (s : St) (k' k : String) (h : k ≠ k') :
    find? (afterClose s k').ds k = find? s.ds k ∧ find? (afterClose s k').segs k = find? s.segs k := by
  unfold afterClose
  cases find? s.ds k' with
  | none => exact ⟨rfl, rfl⟩
  | some d => simp only; split; exact purge_other s k' k h; exact ⟨rfl, rfl⟩

theorem mem_erase_ne (rs : List (String × Nat)) (r r' : String) (t0 : Nat) (h : (r, t0) ∈ rs) (hne : r ≠ r') :
    (r, t0) ∈ erase rs r' := by
  induction rs with
  | nil => cases h
  | cons a rs ih =>
    obtain ⟨x, tx⟩ := a
    by_cases hx : x = r'
    · simp only [erase, hx, ↓reduceIte]
      rcases List.mem_cons.mp h with h | h
      · cases h; exact absurd hx hne
      · exact h
    · simp only [erase, hx, ↓reduceIte]
      rcases List.mem_cons.mp h with h | h
      · rw [h]; exact List.mem_cons_self
      · exact List.mem_cons_of_mem _ (ih h)

end Aux

/-- the time an operation reads from the clock, if any -/
def opTime : Op → Option Nat
  | .add _ _ _ t => some t
  | .get _ t _ => some t
  | _ => none

/-- Protected in use, across EVERY step of every client and every disk job: in a state satisfying
the invariants (`Base`, `Core`: all states reached by `SafeRun` histories), a dataset that is
`in_memory` and held by a reader `(r, t0)` that is younger than STALE_READ at the time of the step
is still `in_memory`, still the same object, still held by `r` after the step, and its segment
is untouched — whatever the step is, except `r`'s own close. -/
theorem c09_protected_step (s : St) (hb : Base s) (hc : Core s) (op : Op) (k : String) (d : Dataset)
    (hd : find? s.ds k = some d) (hst : d.status = .inMemory) (r : String) (t0 : Nat) (hr : (r, t0) ∈ d.readers)
    (hne : op ≠ .closeR k r) (hfresh : ∀ t, opTime op = some t → t ≤ t0 + s.staleRead) :
    (∃ d', find? (step s op).1.ds k = some d' ∧ d'.status = .inMemory ∧ (r, t0) ∈ d'.readers ∧ d'.gen = d.gen) ∧
    (∀ g, find? s.segs k = some g → find? (step s op).1.segs k = some g) := by
  have same : (∃ d', find? s.ds k = some d' ∧ d'.status = .inMemory ∧ (r, t0) ∈ d'.readers ∧ d'.gen = d.gen) :=
    ⟨d, hd, hst, hr, rfl⟩
  have hnj : ∀ j ∈ s.jobs, j.key ≠ k := no_job_at s hc k d hd (by simp [hst])
  have hrne : d.readers ≠ [] := by intro e; rw [e] at hr; cases hr
  cases op with
  | freeSpace => exact ⟨same, fun g hg => hg⟩
  | add k' size deser t =>
    simp only [step, add]
    split
    · exact ⟨same, fun g hg => hg⟩
    · split
      · exact ⟨same, fun g hg => hg⟩
      · split
        · obtain ⟨h1, h2⟩ := c09_protected s (size - s.free) t hb.nd k d hd r t0 hr (hfresh t rfl) hst
          exact ⟨⟨d, h1, hst, hr, rfl⟩, fun g hg => by rw [h2]; exact hg⟩
        · exact ⟨⟨d, find?_append_some _ _ _ _ _ hd, hst, hr, rfl⟩, fun g hg => hg⟩
  | cwrite k' size tok =>
    simp only [step, cwrite]
    split
    · exact ⟨same, fun g hg => hg⟩
    cases hg' : find? s.segs k' with
    | some g' => exact ⟨same, fun g hg => hg⟩
    | none =>
      simp only
      by_cases hk : k = k'
      · subst hk
        simp only [hd]
        exact ⟨⟨_, find?_set_self _ _ _ _ hd, hst, hr, rfl⟩, fun g hg => by rw [hg'] at hg; cases hg⟩
      · refine ⟨?_, fun g hg => by rw [find?_append_ne _ _ _ _ hk]; exact hg⟩
        cases find? s.ds k' with
        | none => exact same
        | some d' => exact ⟨d, by simp only; rw [find?_set_ne _ _ _ _ hk]; exact hd, hst, hr, rfl⟩
  | closeW k' =>
    by_cases hk : k = k'
    · subst hk
      have e : closeCb s k "" = (s, .valueError) := by simp [closeCb, hd, hst]
      simp only [step, e]; exact ⟨same, fun g hg => hg⟩
    · simp only [step, closeCb]
      cases hd' : find? s.ds k' with
      | none => exact ⟨same, fun g hg => hg⟩
      | some d' =>
        simp only [↓reduceIte]
        split
        · exact ⟨same, fun g hg => hg⟩
        · obtain ⟨a1, a2⟩ := afterClose_other { s with ds := set s.ds k' { d' with status := .inMemory } } k' k hk
          refine ⟨⟨d, ?_, hst, hr, rfl⟩, fun g hg => by rw [a2]; exact hg⟩
          rw [a1]; simp only; rw [find?_set_ne _ _ _ _ hk]; exact hd
  | closeR k' r' =>
    by_cases hk : k = k'
    · subst hk
      have hr' : r ≠ r' := by intro e; subst e; exact hne rfl
      by_cases he : r' = ""
      · subst he
        have e : closeCb s k "" = (s, .valueError) := by simp [closeCb, hd, hst]
        simp only [step, e]; exact ⟨same, fun g hg => hg⟩
      · have hm := mem_erase_ne d.readers r r' t0 hr hr'
        have hrest : eraseReader d.readers r' ≠ [] := by
          intro e; unfold eraseReader at e; rw [e] at hm; cases hm
        simp only [step, c09_delayed_purge_waits s k r' d hd hst he hrest]
        exact ⟨⟨_, find?_set_self _ _ _ _ hd, hst, hm, rfl⟩, fun g hg => hg⟩
    · simp only [step, closeCb]
      cases hd' : find? s.ds k' with
      | none => exact ⟨same, fun g hg => hg⟩
      | some d' =>
        simp only
        split
        · split
          · exact ⟨same, fun g hg => hg⟩
          · obtain ⟨a1, a2⟩ := afterClose_other { s with ds := set s.ds k' { d' with status := .inMemory } } k' k hk
            refine ⟨⟨d, ?_, hst, hr, rfl⟩, fun g hg => by rw [a2]; exact hg⟩
            rw [a1]; simp only; rw [find?_set_ne _ _ _ _ hk]; exact hd
        · split
          · exact ⟨same, fun g hg => hg⟩
          · obtain ⟨a1, a2⟩ := afterClose_other { s with ds := set s.ds k' { d' with readers := eraseReader d'.readers r' } } k' k hk
            refine ⟨⟨d, ?_, hst, hr, rfl⟩, fun g hg => by rw [a2]; exact hg⟩
            rw [a1]; simp only; rw [find?_set_ne _ _ _ _ hk]; exact hd
  | get k' t cands =>
    simp only [step, get]
    by_cases hk : k = k'
    · subst hk
      simp only [hd, hst]
      cases firstFresh d.readers cands with
      | none => exact ⟨same, fun g hg => hg⟩
      | some r' =>
        simp only
        exact ⟨⟨_, find?_set_self _ _ _ _ hd, by first | rfl | exact hst, List.mem_append_left _ hr, rfl⟩, fun g hg => hg⟩
    · cases hd' : find? s.ds k' with
      | none => exact ⟨same, fun g hg => hg⟩
      | some d' =>
        simp only
        split
        · exact ⟨same, fun g hg => hg⟩
        · exact ⟨same, fun g hg => hg⟩
        · exact ⟨same, fun g hg => hg⟩
        · split
          · obtain ⟨h1, h2⟩ := c09_protected s (d'.size - s.free) t hb.nd k d hd r t0 hr (hfresh t rfl) hst
            exact ⟨⟨d, h1, hst, hr, rfl⟩, fun g hg => by rw [h2]; exact hg⟩
          · exact ⟨⟨d, by simp only [pageIn]; rw [find?_set_ne _ _ _ _ hk]; exact hd, hst, hr, rfl⟩, fun g hg => hg⟩
        · split
          · exact ⟨same, fun g hg => hg⟩
          · exact ⟨⟨d, by simp only; rw [find?_set_ne _ _ _ _ hk]; exact hd, hst, hr, rfl⟩, fun g hg => hg⟩
  | purge k' =>
    simp only [step]
    by_cases hk : k = k'
    · subst hk
      rw [c09_protected_purge s k d hd hrne]
      exact ⟨⟨_, find?_set_self _ _ _ _ hd, hst, hr, rfl⟩, fun g hg => hg⟩
    · obtain ⟨a1, a2⟩ := purge_other s k' k hk
      exact ⟨⟨d, by rw [a1]; exact hd, hst, hr, rfl⟩, fun g hg => by rw [a2]; exact hg⟩
  | io id inj =>
    simp only [step, ioStep]
    cases hf : findJob s.jobs id with
    | none => exact ⟨same, fun g hg => hg⟩
    | some j =>
      simp only
      have hjk : k ≠ j.key := fun e => hnj j (findJob_some _ _ _ hf).1 e.symm
      split
      · exact ⟨same, fun g hg => hg⟩
      · cases j.kind with
        | out =>
          simp only
          split
          · exact ⟨same, fun g hg => hg⟩
          · cases find? s.segs j.key with
            | none => exact ⟨same, fun g hg => hg⟩
            | some g' => exact ⟨same, fun g hg => by simp only; rw [find?_erase_ne _ _ _ hjk]; exact hg⟩
        | inn =>
          simp only
          split
          · exact ⟨same, fun g hg => hg⟩
          · cases find? s.segs j.key with
            | some g' => exact ⟨same, fun g hg => hg⟩
            | none =>
              simp only
              split
              · exact ⟨same, fun g hg => by simp only; rw [find?_append_ne _ _ _ _ hjk]; exact hg⟩
              · split
                · exact ⟨same, fun g hg => by simp only; rw [find?_append_ne _ _ _ _ hjk]; exact hg⟩
                · split
                  · exact ⟨same, fun g hg => by simp only; rw [find?_append_ne _ _ _ _ hjk]; exact hg⟩
                  · exact ⟨same, fun g hg => by simp only; rw [find?_append_ne _ _ _ _ hjk]; exact hg⟩
  | cb id =>
    simp only [step, cbStep]
    cases hf : findJob s.jobs id with
    | none => exact ⟨same, fun g hg => hg⟩
    | some j =>
      simp only
      have hjk : k ≠ j.key := fun e => hnj j (findJob_some _ _ _ hf).1 e.symm
      cases j.io with
      | none => exact ⟨same, fun g hg => hg⟩
      | some b =>
        simp only
        have hss : ∀ st, find? (setStatusIfSame s.ds j.key j.gen st) k = some d := by
          intro st
          unfold setStatusIfSame
          cases find? s.ds j.key with
          | none => exact hd
          | some dj => simp only; split; rw [find?_set_ne _ _ _ _ hjk]; exact hd; exact hd
        cases j.kind <;> cases b <;> simp only [decCount]
        · obtain ⟨a1, a2⟩ := purgeFailed_other { s with jobs := eraseJob s.jobs id } j.key k hjk
          exact ⟨⟨d, by rw [a1]; exact hd, hst, hr, rfl⟩, fun g hg => by rw [a2]; exact hg⟩
        · exact ⟨⟨d, hss _, hst, hr, rfl⟩, fun g hg => hg⟩
        · obtain ⟨a1, a2⟩ := purgeFailed_other { s with jobs := eraseJob s.jobs id } j.key k hjk
          exact ⟨⟨d, by rw [a1]; exact hd, hst, hr, rfl⟩, fun g hg => by rw [a2]; exact hg⟩
        · exact ⟨⟨d, hss _, hst, hr, rfl⟩, fun g hg => hg⟩

/-- … and also across the one interleaving that is finer than a step: a purge of ANY key `k'` served while the writer
thread of a page-out job is between writing its file and unlinking the segment (`ioMidPurge`, see
`c08_midio_purge_atomic`). The protected dataset stays `in_memory`, the same object, held by `r`, its segment untouched
(a purge of the protected key itself is only recorded as `delayed_purge`). -/
theorem c09_protected_midio (s : St) (_hb : Base s) (hc : Core s) (id : Nat) (k' : String) (k : String) (d : Dataset)
    (hd : find? s.ds k = some d) (hst : d.status = .inMemory) (r : String) (t0 : Nat) (hr : (r, t0) ∈ d.readers) :
    (∃ d', find? (ioMidPurge s id k').1.ds k = some d' ∧ d'.status = .inMemory ∧ (r, t0) ∈ d'.readers ∧ d'.gen = d.gen) ∧
    (∀ g, find? s.segs k = some g → find? (ioMidPurge s id k').1.segs k = some g) := by
  have same : (∃ d', find? s.ds k = some d' ∧ d'.status = .inMemory ∧ (r, t0) ∈ d'.readers ∧ d'.gen = d.gen) :=
    ⟨d, hd, hst, hr, rfl⟩
  have hnj : ∀ j ∈ s.jobs, j.key ≠ k := no_job_at s hc k d hd (by simp [hst])
  have hrne : d.readers ≠ [] := by intro e; rw [e] at hr; cases hr
  unfold ioMidPurge
  cases hf : findJob s.jobs id with
  | none => exact ⟨same, fun g hg => hg⟩
  | some j =>
    simp only
    have hjk : k ≠ j.key := fun e => hnj j (findJob_some _ _ _ hf).1 e.symm
    split
    · exact ⟨same, fun g hg => hg⟩
    · cases hg0 : find? s.segs j.key with
      | none => exact ⟨same, fun g hg => hg⟩
      | some g0 =>
        simp only
        -- the purge, on the state whose spill file has been written
        have hp : (∃ d', find? (purge { s with files := put s.files j.key g0 } k').ds k = some d' ∧ d'.status = .inMemory ∧
              (r, t0) ∈ d'.readers ∧ d'.gen = d.gen) ∧
            (∀ g, find? s.segs k = some g → find? (purge { s with files := put s.files j.key g0 } k').segs k = some g) := by
          by_cases hk : k = k'
          · subst hk
            rw [c09_protected_purge { s with files := put s.files j.key g0 } k d hd hrne]
            exact ⟨⟨_, find?_set_self _ _ _ _ hd, hst, hr, rfl⟩, fun g hg => hg⟩
          · obtain ⟨a1, a2⟩ := purge_other { s with files := put s.files j.key g0 } k' k hk
            exact ⟨⟨d, by rw [a1]; exact hd, hst, hr, rfl⟩, fun g hg => by rw [a2]; exact hg⟩
        obtain ⟨hp1, hp2⟩ := hp
        cases find? (purge { s with files := put s.files j.key g0 } k').segs j.key with
        | some g1 => exact ⟨hp1, fun g hg => by simp only; rw [find?_erase_ne _ _ _ hjk]; exact hp2 g hg⟩
        | none => exact ⟨hp1, fun g hg => hp2 g hg⟩

/-- `c09_protected_step` for the states reached by `SafeRun` histories (same gap as
`c09_content_partial`: the purge/disk-job race, where an orphaned page-out job can unlink the
segment of a re-allocated key even while it is being read). -/
theorem c09_protected_history_partial (cap sc sr : Nat) (ops : List Op) (hs : SafeRun (init cap sc sr) ops)
    (op : Op) (k : String) (d : Dataset) (hd : find? (run (init cap sc sr) ops).ds k = some d) (hst : d.status = .inMemory)
    (r : String) (t0 : Nat) (hr : (r, t0) ∈ d.readers) (hne : op ≠ .closeR k r)
    (hfresh : ∀ t, opTime op = some t → t ≤ t0 + (run (init cap sc sr) ops).staleRead) :
    (∃ d', find? (step (run (init cap sc sr) ops) op).1.ds k = some d' ∧ d'.status = .inMemory ∧ (r, t0) ∈ d'.readers ∧ d'.gen = d.gen) ∧
    (∀ g, find? (run (init cap sc sr) ops).segs k = some g → find? (step (run (init cap sc sr) ops) op).1.segs k = some g) := by
  obtain ⟨hb, hc⟩ := core_run ops _ (base_init cap sc sr) (core_init cap sc sr) hs
  exact c09_protected_step _ hb hc op k d hd hst r t0 hr hne hfresh

/-! ### lock discipline -/

/-- After EVERY history (no assumption on the clients) OF HANDLER-ATOMIC STEPS (every request handler and every
disk-job callback is one step of the model): `pageout_all` is held iff `pageout_count > 0`, and `pageout_count` is the
number of page-out jobs whose callback has not run yet; in particular the lock is free whenever no page-out job is pending.
That the callbacks of one batch, running in several pool threads, behave like atomic steps on the counter and the lock is
`c09_batch_lock_released_exact` below (and is false without `pageout_one` around the decrement:
`c09_unlocked_decrement_full_fails`). -/
theorem c09_lock_discipline (cap sc sr : Nat) (ops : List Op) :
    ((run (init cap sc sr) ops).lock = true ↔ 0 < (run (init cap sc sr) ops).count) ∧
    (run (init cap sc sr) ops).count = outJobs (run (init cap sc sr) ops).jobs ∧
    (outJobs (run (init cap sc sr) ops).jobs = 0 → (run (init cap sc sr) ops).lock = false) := by
  have hb := base_run ops _ (base_init cap sc sr)
  refine ⟨hb.lockCount, hb.countJobs, ?_⟩
  intro h0
  have := hb.lockCount
  have := hb.countJobs
  cases hl : (run (init cap sc sr) ops).lock
  · rfl
  · have := hb.lockCount.mp hl; omega

/-! ### lock discipline at thread level: `pageout_count -= 1; if pageout_count == 0: pageout_all.release()` (Lemmas/ShmMicroCount.lean) -/

open MicroCount in
/-- **The counter of a batch and the release of `pageout_all`, with the callbacks of the batch in real threads**: every
callback split into acquire `pageout_one` · read the counter · write it minus one · test it against 0 (release `pageout_all`) ·
release `pageout_one`; for every non-empty batch whose callbacks all take `pageout_one` and EVERY interleaving of their
micro steps: the counter equals the number of callbacks that have not yet written, `pageout_all` is never released while not
held, it has been released exactly when it is no longer held (at most once), only after every callback has written (counter
0); and when all callbacks have finished the counter is 0 and the lock is free. This is what the handler-atomic `cbStep` of
Model/Shm.lean (and `c09_lock_discipline`, `c09_batch_in_flight_ends`) assumes of real threads. -/
theorem c09_batch_lock_released_exact (ths : List Th) (hne : ths ≠ []) (hl : ∀ t ∈ ths, t.locking = true)
    (hi : ∀ t ∈ ths, t.pc = .idle) (sched : List Nat) :
    ((crun (start ths) sched).count = (((crun (start ths) sched).ths.countP Th.pre : Nat) : Int) ∧
     (crun (start ths) sched).bad = false ∧
     (crun (start ths) sched).releases = (if (crun (start ths) sched).all then 0 else 1) ∧
     ((crun (start ths) sched).all = false → (crun (start ths) sched).count = 0)) ∧
    ((∀ t ∈ (crun (start ths) sched).ths, t.pc = .done) →
      (crun (start ths) sched).count = 0 ∧ (crun (start ths) sched).all = false ∧ (crun (start ths) sched).releases = 1) := by
  refine ⟨locked_batch_exact ths hne hl hi sched, ?_⟩
  intro hd
  obtain ⟨h1, h2, h3, _⟩ := locked_batch_done ths hne hl hi sched hd
  exact ⟨h1, h2, h3⟩

open MicroCount in
/-- … and it is false as soon as the decrement is not under `pageout_one` (re-audit probe P3: `pageout_count -= 1; if … ==
0: release` moved out of the `with` block): two callbacks of one batch both read 2; both finish; the counter is 1 and
`pageout_all` is held for ever -- every later eviction attempt is turned away and requests that need one are answered `wait`
for ever (clause (e)). The harness puts a real second thread at the STORE_ATTR of `pageout_count` inside the real callback. -/
theorem c09_unlocked_decrement_full_fails :
    ¬ ∀ (ths : List Th), ths ≠ [] → (∀ t ∈ ths, t.pc = .idle) → ∀ (sched : List Nat),
        (∀ t ∈ (crun (start ths) sched).ths, t.pc = .done) → (crun (start ths) sched).all = false := by
  intro h
  have h1 := h racyBatch (by decide) (by decide) racySchedule unlocked_decrement_loses.1
  rw [unlocked_decrement_loses.2.2.1] at h1
  cases h1

/-! ### eventually granted -/

/-- **A batch in flight always ends** (every history, no assumption on the clients): once the disk jobs pending after
any history have completed -- page-outs and page-ins, I/O part already done or not, each one succeeding or failing
(`inj` arbitrary) -- the pool is empty and `pageout_all` is free, so the next eviction attempt is not turned away. -/
theorem c09_batch_in_flight_ends (cap sc sr : Nat) (ops : List Op) (inj : Nat → IoRes) :
    (drainWith (run (init cap sc sr) ops) (run (init cap sc sr) ops).jobs inj).jobs = [] ∧
    (drainWith (run (init cap sc sr) ops) (run (init cap sc sr) ops).jobs inj).lock = false := by
  obtain ⟨a, b, _⟩ := drainWith_quiesces inj _ _ (base_run ops _ (base_init cap sc sr)) rfl
  exact ⟨a, b⟩

/-- A page-out job gives its space back whatever its outcome (`inj` = success, unwritable spill directory, missing
segment …): after its I/O part and its callback, free space has grown by exactly the dataset's size. With the failure
callback's purge as it was before the fix this is false (the dataset stayed `paging_out`, its space was never
returned; witness corpus/C09_stuck_pageout.json). -/
theorem c09_pageout_returns_space_partial (cap sc sr : Nat) (ops : List Op) (hs : SafeRun (init cap sc sr) ops) (j : Job) (inj : IoRes)
    (hj : j ∈ (run (init cap sc sr) ops).jobs) (hk : j.kind = .out) (hio : j.io = none) :
    (completeWith (run (init cap sc sr) ops) j.id inj).free = (run (init cap sc sr) ops).free + j.size := by
  obtain ⟨hb, hc⟩ := core_run ops _ (base_init cap sc sr) (core_init cap sc sr) hs
  exact (completeWith_out _ j inj hb hc hj hk hio).1

/-- **A request that can be satisfied by evicting idle datasets is eventually granted** -- from ANY state reached by a
`SafeRun` history, with ANY outcomes of the disk jobs: let the jobs in flight complete (each succeeding or failing,
`inj0`); in the quiescent state `s0` so reached, an allocation of a new key with `size ≤ capacity` and
`size ≤ free + Σ sizes of the datasets evictable now` is granted at once, or answered `wait`, and after the page-outs it
launched have completed (each succeeding or failing, `inj1`) the retry is granted. Uses the lock discipline ("the lock
is free when nothing is pending" -- false before the lock-leak fix), "the lottery frees enough", "one job per winner",
"a completed page-out returns its size whatever its outcome" (false before the failed-job-purge fix).
Remaining gap: `SafeRun` (purge racing an in-flight disk job, as for `c09_content_partial`). -/
theorem c09_eventually_granted_partial (cap sc sr : Nat) (ops : List Op) (hs : SafeRun (init cap sc sr) ops)
    (inj0 inj1 : Nat → IoRes) (k : String) (size : Nat) (deser : String) (t t' : Nat) :
    let s0 := drainWith (run (init cap sc sr) ops) (run (init cap sc sr) ops).jobs inj0
    s0.jobs = [] ∧
    (find? s0.ds k = none → size ≤ s0.cap → size ≤ s0.free + candTotal s0.staleCreate s0.staleRead t s0.ds →
      (add s0 k size deser t).2 = .granted ∨
      ((add s0 k size deser t).2 = .wait ∧
        (add (drainWith (add s0 k size deser t).1 (add s0 k size deser t).1.jobs inj1) k size deser t').2 = .granted)) := by
  obtain ⟨hb, hc⟩ := core_run ops _ (base_init cap sc sr) (core_init cap sc sr) hs
  obtain ⟨hc0, hb0⟩ := core_drainWith inj0 (run (init cap sc sr) ops).jobs _ hb hc
  obtain ⟨hq, _, _⟩ := drainWith_quiesces inj0 _ _ hb rfl
  exact ⟨hq, fun hk hcap hroom => eventually_granted_any _ hb0 hc0 k size deser t t' inj1 hq hk hcap hroom⟩

/-- **… and so is a `get` of a dataset that is on disk**: in the quiescent state `s0` (as above), for a dataset on disk
whose writer wrote `tok`, with `size ≤ free + Σ sizes of the datasets evictable now`: if it fits, the first request
launches the page-in and the next one after that job's successful completion is granted; if it does not, the first
request launches page-outs, after their completion (each succeeding or failing) the second launches the page-in, and
the third is granted -- and the segment handed out holds the writer's bytes. -/
theorem c09_get_eventually_granted_partial (cap sc sr : Nat) (ops : List Op) (hs : SafeRun (init cap sc sr) ops)
    (inj0 inj1 : Nat → IoRes) (k : String) (d : Dataset) (tok : Nat) (t1 t2 t3 : Nat) (c1 c2 c3 : List String) (r : String) :
    let s0 := drainWith (run (init cap sc sr) ops) (run (init cap sc sr) ops).jobs inj0
    find? s0.ds k = some d → d.status = .onDisk → d.wrote = some tok → d.size ≠ 0 → firstFresh d.readers c3 = some r →
    d.size ≤ s0.free + candTotal s0.staleCreate s0.staleRead t1 s0.ds →
    (d.size ≤ s0.free ∧ (get s0 k t1 c1).2 = .wait ∧
      (get (drainWith (get s0 k t1 c1).1 (get s0 k t1 c1).1.jobs (fun _ => .ok)) k t3 c3).2 = .granted d.size r d.deser) ∨
    (s0.free < d.size ∧ (get s0 k t1 c1).2 = .wait ∧
      let s2 := drainWith (get s0 k t1 c1).1 (get s0 k t1 c1).1.jobs inj1
      (get s2 k t2 c2).2 = .wait ∧
      (get (drainWith (get s2 k t2 c2).1 (get s2 k t2 c2).1.jobs (fun _ => .ok)) k t3 c3).2 = .granted d.size r d.deser ∧
      find? (drainWith (get s2 k t2 c2).1 (get s2 k t2 c2).1.jobs (fun _ => .ok)).segs k = some ⟨d.size, tok⟩) := by
  obtain ⟨hb, hc⟩ := core_run ops _ (base_init cap sc sr) (core_init cap sc sr) hs
  obtain ⟨hc0, hb0⟩ := core_drainWith inj0 (run (init cap sc sr) ops).jobs _ hb hc
  obtain ⟨hq, _, _⟩ := drainWith_quiesces inj0 _ _ hb rfl
  intro s0 hd hst hw hs0 hr hroom
  exact get_eventually _ hb0 hc0 hq k d tok hd hst hw hs0 t1 t2 t3 c1 c2 c3 r hr inj1 hroom

/-! ### the same at the API the workers use: `client.allocate`, `client.get` (`_send_command`) -/

/-- `client.allocate` in a quiescent `SafeRun`-reachable state, for a new key with `size ≤ capacity` and
`size ≤ free + evictable`: if the environment lets the launched page-outs complete during the first pause (each
succeeding or failing), the call returns the buffer after at most two requests -- for every timeout that allows a second
request (`100 ms < budget`; the default is 60 s), whatever follows in the schedule. -/
theorem c09_client_allocate_granted_partial (cap sc sr : Nat) (ops : List Op) (hs : SafeRun (init cap sc sr) ops)
    (hq : (run (init cap sc sr) ops).jobs = []) (inj : Nat → IoRes) (k : String) (size : Nat) (deser : String)
    (budget : Nat) (hbud : sleepMs < budget) (a1 a2 : Attempt) (rest : List Attempt)
    (hk : find? (run (init cap sc sr) ops).ds k = none) (hcap : size ≤ (run (init cap sc sr) ops).cap)
    (hroom : size ≤ (run (init cap sc sr) ops).free +
      candTotal (run (init cap sc sr) ops).staleCreate (run (init cap sc sr) ops).staleRead a1.t (run (init cap sc sr) ops).ds)
    (h1 : a1.env = []) (h2 : a2.env = drainOps (add (run (init cap sc sr) ops) k size deser a1.t).1.jobs inj) :
    ∃ s' n, clientAlloc (run (init cap sc sr) ops) k size deser budget (a1 :: a2 :: rest) = (s', .granted "", n) ∧ n ≤ 2 := by
  obtain ⟨hb, hc⟩ := core_run ops _ (base_init cap sc sr) (core_init cap sc sr) hs
  generalize run (init cap sc sr) ops = s at *
  have hpos : 0 < budget := by unfold sleepMs at hbud; omega
  have hpos2 : 0 < budget - min sleepMs budget := by unfold sleepMs at *; omega
  unfold clientAlloc
  rcases eventually_granted_any s hb hc k size deser a1.t a2.t inj hq hk hcap hroom with hg | ⟨hw, hg⟩
  · refine ⟨(add s k size deser a1.t).1, 1, ?_, by omega⟩
    apply sendLoop_first _ _ _ _ _ _ hpos
    rw [h1]; simp only [run, askAdd]
    cases hadd : add s k size deser a1.t with
    | mk s1 o => rw [hadd] at hg; simp only at hg; subst hg; rfl
  · have e1 : askAdd k size deser (run s a1.env) a1 = ((add s k size deser a1.t).1, none) := by
      rw [h1]; simp only [run, askAdd]
      cases hadd : add s k size deser a1.t with
      | mk s1 o => rw [hadd] at hw; simp only at hw; subst hw; rfl
    rw [sendLoop_wait _ _ _ _ _ _ hpos _ e1]
    refine ⟨(add (drainWith (add s k size deser a1.t).1 (add s k size deser a1.t).1.jobs inj) k size deser a2.t).1, 2, ?_, by omega⟩
    apply sendLoop_first _ _ _ _ _ _ hpos2
    rw [h2, run_drainOps]; simp only [askAdd]
    cases hadd : add (drainWith (add s k size deser a1.t).1 (add s k size deser a1.t).1.jobs inj) k size deser a2.t with
    | mk s1 o => rw [hadd] at hg; simp only at hg; subst hg; rfl

/-- `client.get` of a dataset on disk, same setting: if it fits, two requests (page-in launched; granted after the job has
completed during the pause); if not, three (page-outs launched; page-in launched after they completed, each succeeding
or failing; granted after the page-in completed) -- for every timeout that allows a third request (`200 ms < budget`).
The reader id in the result is the one the close lambda will send. -/
theorem c09_client_get_granted_partial (cap sc sr : Nat) (ops : List Op) (hs : SafeRun (init cap sc sr) ops)
    (hq : (run (init cap sc sr) ops).jobs = []) (inj : Nat → IoRes) (k : String) (d : Dataset) (tok : Nat)
    (budget : Nat) (hbud : 2 * sleepMs < budget) (a1 a2 a3 : Attempt) (rest : List Attempt) (r : String)
    (hd : find? (run (init cap sc sr) ops).ds k = some d) (hst : d.status = .onDisk) (hw : d.wrote = some tok) (hs0 : d.size ≠ 0)
    (hroom : d.size ≤ (run (init cap sc sr) ops).free +
      candTotal (run (init cap sc sr) ops).staleCreate (run (init cap sc sr) ops).staleRead a1.t (run (init cap sc sr) ops).ds)
    (h1 : a1.env = []) :
    (d.size ≤ (run (init cap sc sr) ops).free →
      a2.env = drainOps (get (run (init cap sc sr) ops) k a1.t a1.cands).1.jobs (fun _ => .ok) →
      firstFresh d.readers a2.cands = some r →
      ∃ s', clientGet (run (init cap sc sr) ops) k budget (a1 :: a2 :: rest) = (s', .granted r, 2)) ∧
    ((run (init cap sc sr) ops).free < d.size →
      a2.env = drainOps (get (run (init cap sc sr) ops) k a1.t a1.cands).1.jobs inj →
      a3.env = drainOps (get (drainWith (get (run (init cap sc sr) ops) k a1.t a1.cands).1
                              (get (run (init cap sc sr) ops) k a1.t a1.cands).1.jobs inj) k a2.t a2.cands).1.jobs (fun _ => .ok) →
      firstFresh d.readers a3.cands = some r →
      ∃ s', clientGet (run (init cap sc sr) ops) k budget (a1 :: a2 :: a3 :: rest) = (s', .granted r, 3)) := by
  obtain ⟨hb, hc⟩ := core_run ops _ (base_init cap sc sr) (core_init cap sc sr) hs
  generalize run (init cap sc sr) ops = s at *
  have hpos : 0 < budget := by unfold sleepMs at hbud; omega
  have hpos2 : 0 < budget - min sleepMs budget := by unfold sleepMs at *; omega
  have hpos3 : 0 < budget - min sleepMs budget - min sleepMs (budget - min sleepMs budget) := by unfold sleepMs at *; omega
  -- an attempt answered `wait` / granted, as `askGet` sees it
  have waitAns : ∀ (u : St) (a : Attempt), (get u k a.t a.cands).2 = .wait → askGet k u a = ((get u k a.t a.cands).1, none) := by
    intro u a h
    unfold askGet
    cases hg : get u k a.t a.cands with
    | mk u1 o => rw [hg] at h; simp only at h; subst h; rfl
  have grantAns : ∀ (u : St) (a : Attempt) (size : Nat) (deser : String), (get u k a.t a.cands).2 = .granted size r deser →
      askGet k u a = ((get u k a.t a.cands).1, some (.granted r)) := by
    intro u a size deser h
    unfold askGet
    cases hg : get u k a.t a.cands with
    | mk u1 o => rw [hg] at h; simp only at h; subst h; rfl
  constructor
  · intro hfit h2 hr
    obtain ⟨w1, g2, _⟩ := get_pagein_granted s hb hc hq k d tok hd hst hw hs0 hfit a1.t a2.t a1.cands a2.cands r hr
    unfold clientGet
    have e1 : askGet k (run s a1.env) a1 = ((get s k a1.t a1.cands).1, none) := by rw [h1]; exact waitAns s a1 w1
    rw [sendLoop_wait _ _ _ _ _ _ hpos _ e1]
    exact ⟨_, sendLoop_first _ _ _ _ _ _ hpos2 _ _ (by rw [h2, run_drainOps]; exact grantAns _ a2 _ _ g2)⟩
  · intro hnofit h2 h3 hr
    rcases get_eventually s hb hc hq k d tok hd hst hw hs0 a1.t a2.t a3.t a1.cands a2.cands a3.cands r hr inj hroom with ⟨hfit, _⟩ | ⟨_, w1, rest'⟩
    · omega
    · simp only at rest'
      obtain ⟨w2, g3, _⟩ := rest'
      unfold clientGet
      have e1 : askGet k (run s a1.env) a1 = ((get s k a1.t a1.cands).1, none) := by rw [h1]; exact waitAns s a1 w1
      rw [sendLoop_wait _ _ _ _ _ _ hpos _ e1]
      have e2 : askGet k (run (get s k a1.t a1.cands).1 a2.env) a2 =
          ((get (drainWith (get s k a1.t a1.cands).1 (get s k a1.t a1.cands).1.jobs inj) k a2.t a2.cands).1, none) := by
        rw [h2, run_drainOps]; exact waitAns _ a2 w2
      rw [sendLoop_wait _ _ _ _ _ _ hpos2 _ e2]
      exact ⟨_, sendLoop_first _ _ _ _ _ _ hpos3 _ _ (by rw [h3, run_drainOps]; exact grantAns _ a3 _ _ g3)⟩

/-- `TimeoutError` means the budget was used up by pauses after `wait` answers -- `wait` is never fatal and the loop never
gives up early: if `client.allocate` / `client.get` ends in `timeout` after `n` requests, then `budget ≤ n · 100 ms`
(so with the default 60 s at least 600 requests were made). For EVERY state and schedule. -/
theorem c09_client_timeout_exhausted (s : St) (k : String) (size : Nat) (deser : String) (budget : Nat) (sched : List Attempt) (s' : St) (n : Nat) :
    (clientAlloc s k size deser budget sched = (s', .timeout, n) → budget ≤ n * sleepMs) ∧
    (clientGet s k budget sched = (s', .timeout, n) → budget ≤ n * sleepMs) := by
  constructor
  · intro h
    have := (sendLoop_timeout _ (askAdd_no_timeout k size deser) sched budget s 0 s' n h).2
    simpa using this
  · intro h
    have := (sendLoop_timeout _ (askGet_no_timeout k) sched budget s 0 s' n h).2
    simpa using this

/-- the buffer returned by `client.allocate` closes with the empty id (the writer's close): its result `granted rdid` carries
what the close lambda sends, and that is `""`. The `client.get` half -- the id carried is the one the store registered for this
read -- is `c09_client_get_close_id` below. -/
theorem c09_client_close_ids (s : St) (k : String) (size : Nat) (deser : String) (budget : Nat) (sched : List Attempt) (s' : St) (rdid : String) (n : Nat) :
    (clientAlloc s k size deser budget sched = (s', .granted rdid, n) → rdid = "") := by
  unfold clientAlloc
  suffices h : ∀ (sched : List Attempt) (budget : Nat) (s : St) (m : Nat), sendLoop (askAdd k size deser) sched budget s m = (s', .granted rdid, n) → rdid = "" from h sched budget s 0
  intro sched
  induction sched with
  | nil => intro budget s m h; simp only [sendLoop] at h; split at h <;> cases h
  | cons a rest ih =>
    intro budget s m h
    simp only [sendLoop] at h
    split at h
    · cases h
    · cases hask : askAdd k size deser (run s a.env) a with
      | mk s1 o =>
        cases o with
        | none => simp only [hask] at h; exact ih _ _ _ h
        | some r =>
          simp only [hask] at h
          unfold askAdd at hask
          split at hask <;> cases hask <;> cases h
          rfl

theorem get_granted_registers (s : St) (k : String) (t : Nat) (cands : List String) (s' : St) (size : Nat) (r deser : String)
    (h : get s k t cands = (s', .granted size r deser)) :
    ∃ d, find? s'.ds k = some d ∧ d.status = .inMemory ∧ find? d.readers r = some t ∧ d.size = size ∧
      ∃ d0, find? s.ds k = some d0 ∧ find? d0.readers r = none ∧ d0.gen = d.gen := by
  unfold get at h
  cases hd : find? s.ds k with
  | none => simp [hd] at h
  | some d0 =>
    simp only [hd] at h
    cases hst : d0.status <;> simp only [hst] at h
    · cases h
    · cases hf : firstFresh d0.readers cands with
      | none => simp [hf] at h
      | some r' =>
        simp only [hf, Prod.mk.injEq, GetOut.granted.injEq] at h
        obtain ⟨hs', hsz, hr, _⟩ := h
        subst hs'; subst hr
        have hfresh : find? d0.readers r' = none := by
          clear hd hst hsz
          induction cands with
          | nil => simp [firstFresh] at hf
          | cons c cs ih =>
            simp only [firstFresh] at hf
            split at hf
            · exact ih hf
            · cases hf
              cases hh : find? d0.readers r' with
              | none => rfl
              | some _ => simp_all
        refine ⟨_, find?_set_self _ _ _ _ hd, rfl, ?_, hsz, d0, rfl, hfresh, rfl⟩
        exact find?_append_self _ _ _ hfresh
    · cases h
    · split at h <;> cases h
    · cases h

/-- the get half of `c09_client_close_ids`: when `client.get` returns with `granted rdid`, `rdid` is the id under which the
store registered THIS read in the request that was granted (fresh at that moment, start time = the time of that request,
dataset in memory): the close lambda of the returned buffer sends exactly that id -/
theorem c09_client_get_close_id (s : St) (k : String) (budget : Nat) (sched : List Attempt) (s' : St) (rdid : String) (n : Nat)
    (h : clientGet s k budget sched = (s', .granted rdid, n)) :
    ∃ d, find? s'.ds k = some d ∧ d.status = .inMemory ∧ (find? d.readers rdid).isSome ∧
      (rdid ≠ "" → (clientClose s' k rdid).2 = .ok) := by
  unfold clientGet at h
  suffices hh : ∀ (sched : List Attempt) (budget : Nat) (s : St) (m : Nat), sendLoop (askGet k) sched budget s m = (s', .granted rdid, n) →
      ∃ d, find? s'.ds k = some d ∧ d.status = .inMemory ∧ (find? d.readers rdid).isSome by
    obtain ⟨d, hd, hst, hr⟩ := hh sched budget s 0 h
    refine ⟨d, hd, hst, hr, ?_⟩
    intro e
    simp [clientClose, closeCb, hd, e, hst]
  intro sched
  induction sched with
  | nil => intro budget s m h; simp only [sendLoop] at h; split at h <;> cases h
  | cons a rest ih =>
    intro budget s m h
    simp only [sendLoop] at h
    split at h
    · cases h
    · cases hask : askGet k (run s a.env) a with
      | mk s1 o =>
        cases o with
        | none => simp only [hask] at h; exact ih _ _ _ h
        | some r =>
          simp only [hask, Prod.mk.injEq] at h
          obtain ⟨h1, h2, _⟩ := h
          subst h1; subst h2
          unfold askGet at hask
          cases hg : get (run s a.env) k a.t a.cands with
          | mk s2 o2 =>
            rw [hg] at hask
            cases o2 with
            | granted size r deser =>
              simp only [Prod.mk.injEq, Option.some.injEq, ClientOut.granted.injEq] at hask
              obtain ⟨e1, e2⟩ := hask
              subst e1; subst e2
              obtain ⟨d, hd, hst, hr, _⟩ := get_granted_registers _ _ _ _ _ _ _ _ hg
              exact ⟨d, hd, hst, by simp [hr]⟩
            | wait => simp at hask
            | keyError => simp at hask
            | noUuid => simp at hask

/-! ### delayed purge when the readers have gone stale (known finding C09-stale-reader-close) -/

/-- a purge arrives during a read; the reader stays silent for longer than STALE_READ; memory pressure evicts the
dataset under it; the reader closes at last -/
def staleReaderOps : List Op :=
  [.add "a" 6 "" 1, .cwrite "a" 6 7, .closeW "a", .get "a" 2 ["r1"], .purge "a",     -- purge delayed by r1
   .add "b" 6 "" 1000,                                                                  -- r1 is stale: a is evicted
   .io 0 .ok, .cb 0, .closeR "a" "r1"]

/-- Clause "a purge during a read takes effect when the last reader closes" is false when the dataset was evicted under
a reader that had gone stale: `close_callback` refuses the close (`ValueError`: status is not `in_memory`), the reader
stays registered, the purge flag stays set, the dataset stays in the store (on disk) and comes back with the next `get`.
Replayed on the real store (corpus/C09_stale_reader_close.json). -/
theorem c09_delayed_purge_stale_full_fails :
    ¬ ∀ (cap sc sr : Nat) (ops : List Op) (k r : String) (d : Dataset),
        SafeRun (init cap sc sr) ops → find? (run (init cap sc sr) ops).ds k = some d → d.delayed = true →
        eraseReader d.readers r = [] → r ≠ "" →
        (closeCb (run (init cap sc sr) ops) k r).2 = .ok ∧ find? (closeCb (run (init cap sc sr) ops) k r).1.ds k = none := by
  intro h
  have := h 10 900 900 (staleReaderOps.take 8) "a" "r1"
    { gen := 0, size := 6, status := .onDisk, created := 1, readers := [("r1", 2)], first := 2, last := 2, deser := "",
      delayed := true, wrote := some 7 } (by decide) (by decide) rfl (by decide) (by decide)
  revert this
  decide

/-! ### not readable before the writer has finished, at the level of histories -/

/-- **In every history of the class, a dataset that is handed out has been closed by its own writer before**: after a
`SafeRun` history in which every writer's close reaches the allocation it was granted and NO REQUEST THAT READS THE CLOCK
(`add`, `get` -- the requests that can start an eviction attempt) arrives while some writer is older than STALE_CREATE
(`WriterRun` = `ownCloseB ∧ timelyB` at every step; `timelyB` is this stronger, state-independent form of "no eviction
attempt happens while some writer is stale"), a granted `get` refers to a dataset whose allocation `g` has
an earlier `close_callback(key, "")` step in the history, sent by the writer of allocation `g` while `g` was being
written (status `created`) -- the step that made it readable. The two excluded classes are known findings
(`c09_readable_after_close_full_fails`). The key `k'` of that close is not stated to be `k` (it is: allocation numbers are
never reused, but that invariant is not part of the proof); what is stated is that the close acted on the allocation
`d.gen` that is handed out. Non-vacuity: `writerDemo` below. -/
theorem c09_readable_after_close_partial (cap sc sr : Nat) (as : List AOp)
    (hs : SafeRun (init cap sc sr) (as.map (·.1))) (hw : WriterRun (init cap sc sr) as)
    (k : String) (t : Nat) (cands : List String) (size : Nat) (r deser : String)
    (hg : (get (run (init cap sc sr) (as.map (·.1))) k t cands).2 = .granted size r deser) :
    ∃ d pre post op k', find? (run (init cap sc sr) (as.map (·.1))).ds k = some d ∧
      as = pre ++ (op, d.gen) :: post ∧ wclose op = some k' ∧
      ∃ d0, find? (run (init cap sc sr) (pre.map (·.1))).ds k' = some d0 ∧ d0.status = .created ∧ d0.gen = d.gen := by
  have hall := readable_run as (init cap sc sr) [] (base_init cap sc sr) (core_init cap sc sr) hs hw
    (by intro k d h; simp [init] at h)
  rw [runA_fst] at hall
  -- the dataset handed out is `in_memory`
  have hd : ∃ d, find? (run (init cap sc sr) (as.map (·.1))).ds k = some d ∧ d.status = .inMemory := by
    generalize run (init cap sc sr) (as.map (·.1)) = s at hg
    unfold get at hg
    cases hd : find? s.ds k with
    | none => simp [hd] at hg
    | some d =>
      simp only [hd] at hg
      cases hst : d.status <;> simp only [hst] at hg
      · cases hg
      · exact ⟨d, rfl, hst⟩
      · cases hg
      · split at hg <;> cases hg
      · cases hg
  obtain ⟨d, hd, hst⟩ := hd
  have hmem := hall k d hd (by rw [hst]; simp)
  rcases closed_origin as (init cap sc sr) [] d.gen hmem with h0 | ⟨pre, post, op, k', d0, e, hwc, hd0, hst0, hg0⟩
  · cases h0
  · exact ⟨d, pre, post, op, k', hd, e, hwc, d0, hd0, hst0, hg0⟩


/-- non-vacuity of `c09_readable_after_close_partial`: a history of the class (`SafeRun` and `WriterRun`) with eviction, a
page-in and a second allocation, after which `get` IS granted -- and the close the theorem speaks of is step 2 -/
def writerDemo : List AOp :=
  [(.add "a" 6 "" 1, 0), (.cwrite "a" 6 1, 0), (.closeW "a", 0), (.add "b" 6 "" 2, 0), (.io 0 .ok, 0), (.cb 0, 0),
   (.add "b" 6 "" 3, 1), (.cwrite "b" 6 2, 1), (.closeW "b", 1), (.purge "b", 0), (.get "a" 4 ["r0"], 0), (.io 1 .ok, 0), (.cb 1, 0)]

example : SafeRun (init 10 900 900) (writerDemo.map (·.1)) ∧ WriterRun (init 10 900 900) writerDemo ∧
    (get (run (init 10 900 900) (writerDemo.map (·.1))) "a" 5 ["r1"]).2 = .granted 6 "r1" "" ∧
    writerDemo[2]?.map (fun a => (wclose a.1, a.2)) = some (some "a", 0) := by decide

/-- a writer older than STALE_CREATE is treated as dead: evicted, paged in again, handed out -- never closed -/
def staleWriterOps : List AOp :=
  [(.add "a" 6 "" 1, 0), (.cwrite "a" 6 7, 0), (.add "b" 6 "" 1000, 1), (.io 0 .ok, 0), (.cb 0, 0),
   (.get "a" 1001 ["r"], 0), (.io 1 .ok, 0), (.cb 1, 0)]

/-- the dataset is dropped while being written (purge in status `created`), the key is allocated again, and the FIRST
writer's close marks the SECOND allocation readable -/
def foreignCloseOps : List AOp :=
  [(.add "a" 6 "" 1, 0), (.cwrite "a" 6 7, 0), (.purge "a", 0), (.add "a" 4 "" 2, 1), (.closeW "a", 0)]

/-- Without the two conditions of `WriterRun` the statement is false -- each condition is needed on its own: a stale
writer's dataset is handed out without any close (known finding C09-stale-writer-readable), and after a drop + key
reuse the close of the OLD writer makes the NEW allocation readable (C09-purge-created-key-reuse). Both histories are
`SafeRun`; both are replayed on the real store (corpus/C09_stale_writer.json, C09_purge_created_reuse.json). -/
theorem c09_readable_after_close_full_fails :
    (¬ ∀ (cap sc sr : Nat) (as : List AOp) (k : String) (t : Nat) (cands : List String) (size : Nat) (r deser : String) (d : Dataset),
        SafeRun (init cap sc sr) (as.map (·.1)) →
        (get (run (init cap sc sr) (as.map (·.1))) k t cands).2 = .granted size r deser →
        find? (run (init cap sc sr) (as.map (·.1))).ds k = some d → d.gen ∈ (runA (init cap sc sr) [] as).2) ∧
    (SafeRun (init 10 900 900) (staleWriterOps.map (·.1)) ∧ (runA (init 10 900 900) [] staleWriterOps).2 = [] ∧
      (get (run (init 10 900 900) (staleWriterOps.map (·.1))) "a" 1002 ["r"]).2 = .granted 6 "r" "") ∧
    (SafeRun (init 10 900 900) (foreignCloseOps.map (·.1)) ∧ (runA (init 10 900 900) [] foreignCloseOps).2 = [] ∧
      (get (run (init 10 900 900) (foreignCloseOps.map (·.1))) "a" 3 ["r"]).2 = .granted 4 "r" "") := by
  refine ⟨?_, by decide, by decide⟩
  intro h
  have := h 10 900 900 staleWriterOps "a" 1002 ["r"] 6 "r" ""
    { gen := 0, size := 6, status := .inMemory, created := 1, readers := [], first := 0, last := 0, deser := "",
      delayed := false, wrote := some 7 } (by decide) (by decide) (by decide)
  revert this
  decide

/-! ### content after key reuse -/

/-- **A page-out writes the CURRENT segment** (after every `SafeRun` history): whatever file an earlier life of the key
(or an earlier page-out of this dataset) left in the spill directory -- `purge` never removes it: `old` is arbitrary --,
after the I/O part of a page-out job the file under the key holds exactly the bytes of the segment that was paged out,
and the segment is gone. Together with `c09_content_partial` (which holds for all `SafeRun` histories, key reuse
included): the bytes read after purge + re-allocation + eviction + page-in are those of the LAST writer. (A `_page_out`
that skips the write when a file of the same size exists returns the PREVIOUS life's bytes; the life-cycle family of
the generator reaches it.) -/
theorem c09_content_after_reuse (cap sc sr : Nat) (ops : List Op) (hs : SafeRun (init cap sc sr) ops) (id : Nat) (j : Job) (g : Seg)
    (old : Option Seg) (hj : findJob (run (init cap sc sr) ops).jobs id = some j) (hk : j.kind = .out)
    (hio : j.io = none) (hseg : find? (run (init cap sc sr) ops).segs j.key = some g)
    (_hold : find? (run (init cap sc sr) ops).files j.key = old) :
    (ioStep (run (init cap sc sr) ops) id .ok).2 = .done true ∧
    find? (ioStep (run (init cap sc sr) ops) id .ok).1.files j.key = some g ∧
    find? (ioStep (run (init cap sc sr) ops) id .ok).1.segs j.key = none := by
  obtain ⟨_, hc⟩ := core_run ops _ (base_init cap sc sr) (core_init cap sc sr) hs
  generalize run (init cap sc sr) ops = s at *
  have e : ioStep s id .ok = ({ s with files := put s.files j.key g, segs := erase s.segs j.key, jobs := setJobIo s.jobs id true }, .done true) := by
    simp [ioStep, hj, hio, hk, hseg]
  rw [e]
  exact ⟨rfl, by simp only [put_find?, ↓reduceIte], find?_erase_self _ _ hc.ndSegs⟩

/-- two lives of one key with the same size and different bytes, each written, evicted, read back and purged: the second
life reads its own bytes (7 then 9), and the history is in the class of `c09_content_partial` -/
def twoLivesOps : List Op :=
  [.add "a" 6 "" 1, .cwrite "a" 6 7, .closeW "a", .add "p" 10 "" 2, .io 0 .ok, .cb 0,     -- life 1 evicted
   .get "a" 3 ["r1"], .io 1 .ok, .cb 1, .get "a" 4 ["r1"], .closeR "a" "r1", .purge "a",  -- read back, purged (file stays)
   .add "a" 6 "" 5, .cwrite "a" 6 9, .closeW "a", .add "p" 10 "" 6, .io 2 .ok, .cb 2,     -- life 2, same size, evicted
   .get "a" 7 ["r2"], .io 3 .ok, .cb 3]

example : SafeRun (init 10 900 900) twoLivesOps ∧
    find? (run (init 10 900 900) (twoLivesOps.take 12)).files "a" = some ⟨6, 7⟩ ∧
    (get (run (init 10 900 900) twoLivesOps) "a" 8 ["r2"]).2 = .granted 6 "r2" "" ∧
    find? (run (init 10 900 900) twoLivesOps).segs "a" = some ⟨6, 9⟩ := by decide

/-! ### non-vacuity -/

/-- a held dataset under memory pressure: `a` (6 of 10 bytes) is read by `r1`; `add b 6` must wait and `a` stays -/
example :
    SafeRun (init 10 900 900) [.add "a" 6 "" 1, .cwrite "a" 6 7, .closeW "a", .get "a" 5 ["r1"]] ∧
    (find? (run (init 10 900 900) [.add "a" 6 "" 1, .cwrite "a" 6 7, .closeW "a", .get "a" 5 ["r1"]]).ds "a").map
        (fun d => decide (d.status = .inMemory) && d.readers.contains ("r1", 5)) = some true ∧
    (step (run (init 10 900 900) [.add "a" 6 "" 1, .cwrite "a" 6 7, .closeW "a", .get "a" 5 ["r1"]]) (.add "b" 6 "" 6)).2 = .add .wait ∧
    (find? (step (run (init 10 900 900) [.add "a" 6 "" 1, .cwrite "a" 6 7, .closeW "a", .get "a" 5 ["r1"]]) (.add "b" 6 "" 6)).1.ds "a").map
        (fun d => d.status) = some .inMemory ∧
    -- ... while 15 minutes later the same reader no longer protects it
    (find? (step (run (init 10 900 900) [.add "a" 6 "" 1, .cwrite "a" 6 7, .closeW "a", .get "a" 5 ["r1"]]) (.add "b" 6 "" 906)).1.ds "a").map
        (fun d => d.status) = some .pagingOut := by
  decide

/-- the hypotheses of `c09_eventually_granted_partial` hold in a concrete reachable state and the
`wait`-then-granted branch is the one taken -/
example :
    SafeRun (init 10 900 900) [.add "a" 6 "" 1, .cwrite "a" 6 7, .add "c" 9 "" 2, .closeW "a"] ∧
    (run (init 10 900 900) [.add "a" 6 "" 1, .cwrite "a" 6 7, .add "c" 9 "" 2, .closeW "a"]).jobs = [] ∧
    find? (run (init 10 900 900) [.add "a" 6 "" 1, .cwrite "a" 6 7, .add "c" 9 "" 2, .closeW "a"]).ds "b" = none ∧
    6 ≤ (run (init 10 900 900) [.add "a" 6 "" 1, .cwrite "a" 6 7, .add "c" 9 "" 2, .closeW "a"]).free +
        candTotal 900 900 4 (run (init 10 900 900) [.add "a" 6 "" 1, .cwrite "a" 6 7, .add "c" 9 "" 2, .closeW "a"]).ds ∧
    (add (run (init 10 900 900) [.add "a" 6 "" 1, .cwrite "a" 6 7, .add "c" 9 "" 2, .closeW "a"]) "b" 6 "" 4).2 = .wait := by
  decide

example : (get (run (init 10 900 900) [.add "a" 6 "x" 1, .cwrite "a" 6 7, .closeW "a"]) "a" 2 ["r"]).2 = .granted 6 "r" "x" := by
  decide

example : (run (init 10 900 900) [.add "a" 6 "" 1, .cwrite "a" 6 7, .closeW "a", .add "b" 6 "" 2]).lock = true ∧
    (run (init 10 900 900) [.add "a" 6 "" 1, .cwrite "a" 6 7, .closeW "a", .add "b" 6 "" 2, .io 0 .ok, .cb 0]).lock = false ∧
    -- an eviction attempt that finds nothing evictable leaves the lock free (this is the fixed leak)
    (run (init 10 900 900) [.add "a" 6 "" 1, .add "b" 6 "" 2]).lock = false := by decide

end EkwVerif.Shm
