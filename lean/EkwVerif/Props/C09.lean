/-
C09 — shared-memory datasets keep their bytes, are protected in use, stay reachable.

Same model as C08 (Model/Shm.lean); histories are arbitrary lists of `Op`. `SafeRun` is explained in
Props/C08.lean (writer creates its segment while `created`; no purge request on a reader-less dataset
whose disk job is in flight = known finding C08-purge-in-flight).
The model mirrors the code AFTER the fix of the lock leak (`page_out_at_least` gives `pageout_all`
back when the lottery has no winners); `c09_lock_discipline` is false for the unfixed code.
-/
import EkwVerif.Lemmas.ShmLive

namespace EkwVerif.Shm
open Aux

namespace Aux

theorem maxStart_ge (rs : List (String × Nat)) (r : String) (t0 : Nat) (h : (r, t0) ∈ rs) : t0 ≤ maxStart rs := by
  induction rs with
  | nil => cases h
  | cons a rs ih =>
    obtain ⟨r', t'⟩ := a
    simp only [maxStart]
    rcases List.mem_cons.mp h with h | h
    · cases h; exact Nat.le_max_left _ _
    · exact Nat.le_trans (ih h) (Nat.le_max_right _ _)

theorem pageOut_other (s : St) (k x : String) (h : x ≠ k) : find? (pageOut s k).ds x = find? s.ds x := by
  unfold pageOut
  cases find? s.ds k with
  | none => rfl
  | some d => simp only; exact find?_set_ne _ _ _ _ h

theorem pageOutAll_other (ws : List String) : ∀ (s : St) (x : String), x ∉ ws →
    find? (pageOutAll s ws).ds x = find? s.ds x ∧ (pageOutAll s ws).segs = s.segs ∧ (pageOutAll s ws).files = s.files := by
  induction ws with
  | nil => intro s x _; exact ⟨rfl, rfl, rfl⟩
  | cons k ws ih =>
    intro s x hx
    simp only [pageOutAll, List.foldl_cons]
    have h1 : x ≠ k := fun e => hx (e ▸ List.mem_cons_self)
    have h2 : x ∉ ws := fun e => hx (List.mem_cons_of_mem _ e)
    obtain ⟨r1, r2, r3⟩ := ih (pageOut s k) x h2
    exact ⟨r1.trans (pageOut_other s k x h1), r2.trans (pageOut_frame s k).2.2.2.2.1, r3.trans (pageOut_frame s k).2.2.2.2.2.1⟩

theorem pageOutAll_segs (ws : List String) : ∀ (s : St), (pageOutAll s ws).segs = s.segs := by
  induction ws with
  | nil => intro s; rfl
  | cons k ws ih => intro s; simp only [pageOutAll, List.foldl_cons]; exact (ih _).trans (pageOut_frame s k).2.2.2.2.1

end Aux

/-! ### content -/

/-- Bytes read equal bytes written, through any number of page-out / page-in cycles: after every
`SafeRun` history, whenever `get k` is granted, the segment handed out has the granted size and
holds exactly the token the writer of this dataset put there (`wrote`, set by the writer's
create-and-write step and by nothing else), and the `get` itself does not touch it.
Missing for full strength: histories with a purge request racing an in-flight disk job
(`SafeRun`; witness `c09_content_full_fails`). -/
theorem c09_content_partial (cap sc sr : Nat) (ops : List Op) (h : SafeRun (init cap sc sr) ops)
    (k : String) (t : Nat) (cands : List String) (size : Nat) (r deser : String)
    (hg : (get (run (init cap sc sr) ops) k t cands).2 = .granted size r deser) :
    ∃ d, find? (run (init cap sc sr) ops).ds k = some d ∧ d.status = .inMemory ∧ d.size = size ∧ d.deser = deser ∧
      ∀ tok, d.wrote = some tok →
        find? (get (run (init cap sc sr) ops) k t cands).1.segs k = some ⟨size, tok⟩ := by
  obtain ⟨_, hc⟩ := core_run ops _ (base_init cap sc sr) (core_init cap sc sr) h
  generalize run (init cap sc sr) ops = s at hg hc ⊢
  unfold get at hg ⊢
  cases hd : find? s.ds k with
  | none => simp [hd] at hg
  | some d =>
    simp only [hd] at hg ⊢
    cases hst : d.status <;> simp only [hst] at hg ⊢
    · cases hg
    · cases hf : firstFresh d.readers cands with
      | none => simp [hf] at hg
      | some r' =>
        simp only [hf] at hg ⊢
        cases hg
        refine ⟨d, rfl, hst, rfl, rfl, ?_⟩
        intro tok hw
        have := hc.content k d tok hd hw
        rw [hst] at this
        simpa [Holds] using this
    · cases hg
    · split at hg <;> cases hg
    · cases hg

/-- in the excluded class the property fails: after the purge/page-out race of `raceOps` a `get`
is granted although no segment exists under the key -/
theorem c09_content_full_fails :
    ¬ ∀ (cap sc sr : Nat) (ops : List Op) (k : String) (t : Nat) (cands : List String) (size : Nat) (r deser : String),
        (get (run (init cap sc sr) ops) k t cands).2 = .granted size r deser →
        (find? (get (run (init cap sc sr) ops) k t cands).1.segs k).isSome = true := by
  intro h
  have := h 10 900 900
    [.add "a" 6 "" 1, .cwrite "a" 6 1, .closeW "a", .add "b" 6 "" 2, .purge "a",
     .add "a" 8 "" 3, .cwrite "a" 8 2, .closeW "a", .io 0 .ok, .cb 0] "a" 4 ["r"] 8 "r" "" (by decide)
  revert this
  decide

/-! ### not readable before the writer has finished -/

/-- `get` on a dataset whose writer has not closed (`created`) — and likewise while it is being
paged out or in — answers `wait`, registers no reader and changes nothing; for EVERY state. -/
theorem c09_not_before_close (s : St) (k : String) (t : Nat) (cands : List String) (d : Dataset)
    (hd : find? s.ds k = some d) (hst : d.status = .created ∨ d.status = .pagingOut ∨ d.status = .pagedIn) :
    get s k t cands = (s, .wait) := by
  unfold get
  rcases hst with h | h | h <;> simp [hd, h]

/-- … and only the writer's close turns `created` into `in_memory` in `close_callback` -/
theorem c09_close_writer (s : St) (k : String) (d : Dataset) (hd : find? s.ds k = some d) :
    (d.status = .created → ∀ rdid, rdid ≠ "" → closeCb s k rdid = (s, .valueError)) ∧
    (d.status ≠ .created → closeCb s k "" = (s, .valueError)) := by
  constructor
  · intro hst rdid hr
    simp [closeCb, hd, hr, hst]
  · intro hst
    simp [closeCb, hd, hst]

/-! ### protected in use -/

/-- A dataset with a reader younger than STALE_READ is not chosen by `page_out_at_least`: every
winner is `in_memory`/stale-`created`, and if it is `in_memory` all its readers are older than the
window; datasets that are not winners keep their record, and no segment is touched. For EVERY state
with unique keys (`Nd`, which holds after every history: `c09_keys_unique`). -/
theorem c09_protected (s : St) (amount t : Nat) (hn : Nd s.ds) (k : String) (d : Dataset) (hd : find? s.ds k = some d)
    (r : String) (t0 : Nat) (hr : (r, t0) ∈ d.readers) (hfresh : t ≤ t0 + s.staleRead) (hst : d.status = .inMemory) :
    find? (pageOutAtLeast s amount t).ds k = some d ∧ (pageOutAtLeast s amount t).segs = s.segs := by
  have hnp : isPageoutable s.staleCreate s.staleRead d t = false := by
    have hm := maxStart_ge d.readers r t0 hr
    have hne : d.readers.isEmpty = false := by cases h : d.readers <;> simp [h] at hr ⊢
    have : ¬ (maxStart d.readers + s.staleRead < t) := by omega
    simp [isPageoutable, hst, hne, this]
  unfold pageOutAtLeast
  split
  · exact ⟨hd, rfl⟩
  · simp only
    split
    · exact ⟨hd, rfl⟩
    · have hk : k ∉ lottery (candidates s.staleCreate s.staleRead t s.ds) amount := by
        intro hk
        obtain ⟨d', hd', hp⟩ := winners_pageoutable _ _ _ _ _ hn k hk
        rw [hd] at hd'; cases hd'; rw [hnp] at hp; cases hp
      obtain ⟨r1, r2, _⟩ := pageOutAll_other _ { s with lock := true, count := _ } k hk
      exact ⟨r1.trans hd, r2⟩

/-- every dataset that `page_out_at_least` does send to disk was `is_pageoutable` at that time -/
theorem c09_evicted_were_pageoutable (s : St) (amount t : Nat) (hn : Nd s.ds) (k : String) (d : Dataset)
    (hd : find? s.ds k = some d) (hch : find? (pageOutAtLeast s amount t).ds k ≠ some d) :
    isPageoutable s.staleCreate s.staleRead d t = true := by
  unfold pageOutAtLeast at hch
  split at hch
  · exact absurd hd hch
  · simp only at hch
    split at hch
    · exact absurd hd hch
    · by_cases hk : k ∈ lottery (candidates s.staleCreate s.staleRead t s.ds) amount
      · obtain ⟨d', hd', hp⟩ := winners_pageoutable _ _ _ _ _ hn k hk
        rw [hd] at hd'; cases hd'; exact hp
      · obtain ⟨r1, _, _⟩ := pageOutAll_other _ { s with lock := true, count := (lottery (candidates s.staleCreate s.staleRead t s.ds) amount).length } k hk
        exact absurd (r1.trans hd) hch

/-- A purge while ANY reader holds the dataset unlinks nothing: it only sets `delayed_purge`. -/
theorem c09_protected_purge (s : St) (k : String) (d : Dataset) (hd : find? s.ds k = some d) (hr : d.readers ≠ []) :
    purge s k = { s with ds := set s.ds k { d with delayed := true } } := by
  have : d.readers.isEmpty = false := by cases h : d.readers <;> simp [h] at hr ⊢
  simp [purge, hd, this]

theorem c09_keys_unique (cap sc sr : Nat) (ops : List Op) : Nd (run (init cap sc sr) ops).ds :=
  (base_run ops _ (base_init cap sc sr)).nd

/-! ### delayed purge -/

/-- The close of the last reader executes a purge that arrived during the read: the dataset is
gone, its segment is unlinked, its size is returned. For EVERY state with unique keys. -/
theorem c09_delayed_purge (s : St) (k r : String) (t0 : Nat) (d : Dataset) (g : Seg)
    (hn : Nd s.ds) (hns : Nd s.segs) (hd : find? s.ds k = some d) (hst : d.status = .inMemory)
    (hr : d.readers = [(r, t0)]) (hne : r ≠ "") (hdel : d.delayed = true) (hg : find? s.segs k = some g) :
    (closeCb s k r).2 = .ok ∧ find? (closeCb s k r).1.ds k = none ∧ find? (closeCb s k r).1.segs k = none ∧
    (closeCb s k r).1.free = s.free + d.size := by
  have e1 : eraseReader d.readers r = [] := by simp [eraseReader, erase, hr]
  have hd' : ∀ w, find? (set s.ds k w) k = some w := fun w => find?_set_self s.ds k w d hd
  have e : closeCb s k r =
      ({ s with segs := erase s.segs k, free := s.free + d.size, ds := erase (set s.ds k { d with readers := [] }) k }, .ok) := by
    simp [closeCb, hd, hne, hst, e1, afterClose, hd', hdel, purge, hg]
  rw [e]
  exact ⟨rfl, find?_erase_self _ _ (nd_set _ _ _ hn), find?_erase_self _ _ hns, rfl⟩

/-- … while the close of a reader that is not the last one keeps dataset, segment and the flag. -/
theorem c09_delayed_purge_waits (s : St) (k r : String) (d : Dataset) (hd : find? s.ds k = some d)
    (hst : d.status = .inMemory) (hne : r ≠ "") (hrest : eraseReader d.readers r ≠ []) :
    closeCb s k r = ({ s with ds := set s.ds k { d with readers := eraseReader d.readers r } }, .ok) := by
  have : (eraseReader d.readers r).isEmpty = false := by
    cases h : eraseReader d.readers r <;> simp [h] at hrest ⊢
  have hd' : ∀ w, find? (set s.ds k w) k = some w := fun w => find?_set_self s.ds k w d hd
  simp [closeCb, hd, hne, hst, afterClose, hd', this]

/-! ### lock discipline -/

/-- After EVERY history (no assumption on the clients): `pageout_all` is held iff
`pageout_count > 0`, and `pageout_count` is the number of page-out jobs whose callback has not
run yet; in particular the lock is free whenever no page-out job is pending. -/
theorem c09_lock_discipline (cap sc sr : Nat) (ops : List Op) :
    ((run (init cap sc sr) ops).lock = true ↔ 0 < (run (init cap sc sr) ops).count) ∧
    (run (init cap sc sr) ops).count = outJobs (run (init cap sc sr) ops).jobs ∧
    (outJobs (run (init cap sc sr) ops).jobs = 0 → (run (init cap sc sr) ops).lock = false) := by
  have hb := base_run ops _ (base_init cap sc sr)
  refine ⟨hb.lockCount, hb.countJobs, ?_⟩
  intro h0
  have := hb.lockCount
  have := hb.countJobs
  cases hl : (run (init cap sc sr) ops).lock
  · rfl
  · have := hb.lockCount.mp hl; omega

/-! ### eventually granted -/

/-- every dataset that is evictable at time `t` has really been written (its segment exists);
holds when writers create their segment before they close (and stale writers did so) -/
def EvictableWritten (s : St) (t : Nat) : Prop :=
  ∀ p ∈ s.ds, isPageoutable s.staleCreate s.staleRead p.2 t = true → (find? s.segs p.1).isSome = true

instance (s : St) (t : Nat) : Decidable (EvictableWritten s t) := by unfold EvictableWritten; exact inferInstance

namespace Aux

theorem eventually_granted (s : St) (hb : Base s) (hc : Core s) (k : String) (size : Nat) (deser : String) (t t' : Nat)
    (hq : s.jobs = []) (hk : find? s.ds k = none) (hcap : size ≤ s.cap)
    (hroom : size ≤ s.free + candTotal s.staleCreate s.staleRead t s.ds) (hw : EvictableWritten s t) :
    (add s k size deser t).2 = .granted ∨
    ((add s k size deser t).2 = .wait ∧
      (add (drain (add s k size deser t).1 (add s k size deser t).1.jobs) k size deser t').2 = .granted) := by
  by_cases hfit : size ≤ s.free
  · left
    have h1 : ¬ size > s.cap := by omega
    have h2 : ¬ size > s.free := by omega
    simp [add, hk, h1, h2]
  · right
    have h1 : ¬ size > s.cap := by omega
    have h2 : size > s.free := by omega
    have hadd : add s k size deser t = (pageOutAtLeast s (size - s.free) t, .wait) := by simp [add, hk, h1, h2]
    rw [hadd]
    refine ⟨rfl, ?_⟩
    simp only
    -- the state after the first request is a `step`: invariants carry over
    have hstep : (step s (.add k size deser t)).1 = pageOutAtLeast s (size - s.free) t := by simp [step, hadd]
    have hb1 : Base (pageOutAtLeast s (size - s.free) t) := hstep ▸ base_step s _ hb
    have hc1 : Core (pageOutAtLeast s (size - s.free) t) := hstep ▸ core_step s _ hb hc rfl
    -- the lock is free because nothing is pending (lock discipline)
    have hlock : s.lock = false := by
      have h0 : s.count = 0 := by rw [hb.countJobs, hq]; rfl
      cases hl : s.lock
      · rfl
      · have := hb.lockCount.mp hl; omega
    generalize hws : lottery (candidates s.staleCreate s.staleRead t s.ds) (size - s.free) = ws at *
    have henough : size - s.free ≤ (ws.map (dsize s.ds)).sum := by
      rw [← hws]; exact lottery_enough _ _ _ _ _ hb.nd (by omega)
    have hne : ws.isEmpty = false := by
      cases ws with
      | nil => simp at henough; omega
      | cons _ _ => rfl
    have hs1 : pageOutAtLeast s (size - s.free) t = pageOutAll { s with lock := true, count := ws.length } ws := by
      simp [pageOutAtLeast, hlock, hws, hne]
    have hwin : ∀ w ∈ ws, ∃ d, find? s.ds w = some d ∧ isPageoutable s.staleCreate s.staleRead d t = true := by
      intro w hw'; rw [← hws] at hw'; exact winners_pageoutable _ _ _ _ _ hb.nd w hw'
    have hfound : ∀ w ∈ ws, (find? ({ s with lock := true, count := ws.length } : St).ds w).isSome = true := by
      intro w hw'; obtain ⟨d, hd, _⟩ := hwin w hw'; simp [hd]
    obtain ⟨J, hJ, hall, hsum⟩ := pageOutAll_spec ws { s with lock := true, count := ws.length } hfound
    have hJ' : (pageOutAtLeast s (size - s.free) t).jobs = J := by rw [hs1, hJ]; simp [hq]
    have hsegs : (pageOutAtLeast s (size - s.free) t).segs = s.segs := by rw [hs1]; exact pageOutAll_segs ws _
    obtain ⟨f1, c1, k1⟩ := pageOutAtLeast_free s (size - s.free) t
    have hall' : ∀ j ∈ J, j.kind = .out ∧ j.io = none ∧ (find? (pageOutAtLeast s (size - s.free) t).segs j.key).isSome = true := by
      intro j hj
      obtain ⟨a, b, c⟩ := hall j hj
      obtain ⟨d, hd, hp⟩ := hwin j.key c
      exact ⟨a, b, by rw [hsegs]; exact hw (j.key, d) (find?_mem _ _ _ hd) hp⟩
    obtain ⟨q1, q2, _, q4⟩ := drain_all J _ hb1 hc1 hJ' hall'
    rw [hJ']
    have hk2 : find? (drain (pageOutAtLeast s (size - s.free) t) J).ds k = none := by
      have := (q4 k).trans (k1 k)
      rw [hk] at this
      cases h : find? (drain (pageOutAtLeast s (size - s.free) t) J).ds k <;> simp [h] at this ⊢
    have hfree : size ≤ (drain (pageOutAtLeast s (size - s.free) t) J).free := by
      rw [q1, f1, hsum]
      have : (ws.map (dsize ({ s with lock := true, count := ws.length } : St).ds)).sum = (ws.map (dsize s.ds)).sum := rfl
      omega
    have hcap2 : ¬ size > (drain (pageOutAtLeast s (size - s.free) t) J).cap := by rw [q2, c1]; omega
    have hfree2 : ¬ size > (drain (pageOutAtLeast s (size - s.free) t) J).free := by omega
    simp [add, hk2, hcap2, hfree2]

end Aux

/-- A request that can be satisfied by evicting idle datasets is eventually granted: in every
state reached by a `SafeRun` history in which all disk jobs have completed — including states
reached after an eviction attempt that found nothing evictable — an allocation of a new key with
`size ≤ capacity` and `size ≤ free + Σ sizes of the datasets evictable now` is either granted at
once, or answered `wait`, and after the launched page-out jobs have completed (I/O successful)
the retry is granted. Uses `c09_lock_discipline` (the lock must be free when nothing is pending —
false before the fix), "the lottery frees enough", "one job per winner", "a completed page-out
returns its size". Same `SafeRun` gap as `c09_content_partial`; `EvictableWritten` states that
the evictable datasets have segments to write out. -/
theorem c09_eventually_granted_partial (cap sc sr : Nat) (ops : List Op) (hs : SafeRun (init cap sc sr) ops)
    (k : String) (size : Nat) (deser : String) (t t' : Nat)
    (hq : (run (init cap sc sr) ops).jobs = [])
    (hk : find? (run (init cap sc sr) ops).ds k = none)
    (hcap : size ≤ (run (init cap sc sr) ops).cap)
    (hroom : size ≤ (run (init cap sc sr) ops).free +
      candTotal (run (init cap sc sr) ops).staleCreate (run (init cap sc sr) ops).staleRead t (run (init cap sc sr) ops).ds)
    (hw : EvictableWritten (run (init cap sc sr) ops) t) :
    (add (run (init cap sc sr) ops) k size deser t).2 = .granted ∨
    ((add (run (init cap sc sr) ops) k size deser t).2 = .wait ∧
      (add (drain (add (run (init cap sc sr) ops) k size deser t).1 (add (run (init cap sc sr) ops) k size deser t).1.jobs)
        k size deser t').2 = .granted) := by
  obtain ⟨hb, hc⟩ := core_run ops _ (base_init cap sc sr) (core_init cap sc sr) hs
  exact eventually_granted _ hb hc k size deser t t' hq hk hcap hroom hw

/-! ### non-vacuity -/

/-- the hypotheses of `c09_eventually_granted_partial` hold in a concrete reachable state and the
`wait`-then-granted branch is the one taken -/
example :
    SafeRun (init 10 900 900) [.add "a" 6 "" 1, .cwrite "a" 6 7, .add "c" 9 "" 2, .closeW "a"] ∧
    (run (init 10 900 900) [.add "a" 6 "" 1, .cwrite "a" 6 7, .add "c" 9 "" 2, .closeW "a"]).jobs = [] ∧
    find? (run (init 10 900 900) [.add "a" 6 "" 1, .cwrite "a" 6 7, .add "c" 9 "" 2, .closeW "a"]).ds "b" = none ∧
    6 ≤ (run (init 10 900 900) [.add "a" 6 "" 1, .cwrite "a" 6 7, .add "c" 9 "" 2, .closeW "a"]).free +
        candTotal 900 900 4 (run (init 10 900 900) [.add "a" 6 "" 1, .cwrite "a" 6 7, .add "c" 9 "" 2, .closeW "a"]).ds ∧
    EvictableWritten (run (init 10 900 900) [.add "a" 6 "" 1, .cwrite "a" 6 7, .add "c" 9 "" 2, .closeW "a"]) 4 ∧
    (add (run (init 10 900 900) [.add "a" 6 "" 1, .cwrite "a" 6 7, .add "c" 9 "" 2, .closeW "a"]) "b" 6 "" 4).2 = .wait := by
  decide

example : (get (run (init 10 900 900) [.add "a" 6 "x" 1, .cwrite "a" 6 7, .closeW "a"]) "a" 2 ["r"]).2 = .granted 6 "r" "x" := by
  decide

example : (run (init 10 900 900) [.add "a" 6 "" 1, .cwrite "a" 6 7, .closeW "a", .add "b" 6 "" 2]).lock = true ∧
    (run (init 10 900 900) [.add "a" 6 "" 1, .cwrite "a" 6 7, .closeW "a", .add "b" 6 "" 2, .io 0 .ok, .cb 0]).lock = false ∧
    -- an eviction attempt that finds nothing evictable leaves the lock free (this is the fixed leak)
    (run (init 10 900 900) [.add "a" 6 "" 1, .add "b" 6 "" 2]).lock = false := by decide

end EkwVerif.Shm
