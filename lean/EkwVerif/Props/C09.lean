/-
C09 — shared-memory datasets keep their bytes, are protected in use, stay reachable.

Same model as C08 (Model/Shm.lean); histories are arbitrary lists of `Op`. `SafeRun` is explained in
Props/C08.lean (writer creates its segment while `created`; no purge request on a reader-less dataset
whose disk job is in flight = known finding C08-purge-in-flight).
The model mirrors the code AFTER the fix of the lock leak (`page_out_at_least` gives `pageout_all`
back when the lottery has no winners); `c09_lock_discipline` is false for the unfixed code.
-/
import EkwVerif.Lemmas.ShmLive

namespace EkwVerif.Shm
open Aux

namespace Aux

theorem maxStart_ge (rs : List (String × Nat)) (r : String) (t0 : Nat) (h : (r, t0) ∈ rs) : t0 ≤ maxStart rs := by
  induction rs with
  | nil => cases h
  | cons a rs ih =>
    obtain ⟨r', t'⟩ := a
    simp only [maxStart]
    rcases List.mem_cons.mp h with h | h
    · cases h; exact Nat.le_max_left _ _
    · exact Nat.le_trans (ih h) (Nat.le_max_right _ _)

theorem pageOut_other (s : St) (k x : String) (h : x ≠ k) : find? (pageOut s k).ds x = find? s.ds x := by
  unfold pageOut
  cases find? s.ds k with
  | none => rfl
  | some d => simp only; exact find?_set_ne _ _ _ _ h

theorem pageOutAll_other (ws : List String) : ∀ (s : St) (x : String), x ∉ ws →
    find? (pageOutAll s ws).ds x = find? s.ds x ∧ (pageOutAll s ws).segs = s.segs ∧ (pageOutAll s ws).files = s.files := by
  induction ws with
  | nil => intro s x _; exact ⟨rfl, rfl, rfl⟩
  | cons k ws ih =>
    intro s x hx
    simp only [pageOutAll, List.foldl_cons]
    have h1 : x ≠ k := fun e => hx (e ▸ List.mem_cons_self)
    have h2 : x ∉ ws := fun e => hx (List.mem_cons_of_mem _ e)
    obtain ⟨r1, r2, r3⟩ := ih (pageOut s k) x h2
    exact ⟨r1.trans (pageOut_other s k x h1), r2.trans (pageOut_frame s k).2.2.2.2.1, r3.trans (pageOut_frame s k).2.2.2.2.2.1⟩

theorem pageOutAll_segs (ws : List String) : ∀ (s : St), (pageOutAll s ws).segs = s.segs := by
  induction ws with
  | nil => intro s; rfl
  | cons k ws ih => intro s; simp only [pageOutAll, List.foldl_cons]; exact (ih _).trans (pageOut_frame s k).2.2.2.2.1

end Aux

/-! ### content -/

/-- Bytes read equal bytes written, through any number of page-out / page-in cycles: after every
`SafeRun` history, whenever `get k` is granted, the segment handed out has the granted size and
holds exactly the token the writer of this dataset put there (`wrote`, set by the writer's
create-and-write step and by nothing else), and the `get` itself does not touch it.
Missing for full strength: histories with a purge request racing an in-flight disk job
(`SafeRun`; witness `c09_content_full_fails`). -/
theorem c09_content_partial (cap sc sr : Nat) (ops : List Op) (h : SafeRun (init cap sc sr) ops)
    (k : String) (t : Nat) (cands : List String) (size : Nat) (r deser : String)
    (hg : (get (run (init cap sc sr) ops) k t cands).2 = .granted size r deser) :
    ∃ d, find? (run (init cap sc sr) ops).ds k = some d ∧ d.status = .inMemory ∧ d.size = size ∧ d.deser = deser ∧
      ∀ tok, d.wrote = some tok →
        find? (get (run (init cap sc sr) ops) k t cands).1.segs k = some ⟨size, tok⟩ := by
  obtain ⟨_, hc⟩ := core_run ops _ (base_init cap sc sr) (core_init cap sc sr) h
  generalize run (init cap sc sr) ops = s at hg hc ⊢
  unfold get at hg ⊢
  cases hd : find? s.ds k with
  | none => simp [hd] at hg
  | some d =>
    simp only [hd] at hg ⊢
    cases hst : d.status <;> simp only [hst] at hg ⊢
    · cases hg
    · cases hf : firstFresh d.readers cands with
      | none => simp [hf] at hg
      | some r' =>
        simp only [hf] at hg ⊢
        cases hg
        refine ⟨d, rfl, hst, rfl, rfl, ?_⟩
        intro tok hw
        have := hc.content k d tok hd hw
        rw [hst] at this
        simpa [Holds] using this
    · cases hg
    · split at hg <;> cases hg
    · cases hg

/-- in the excluded class the property fails: after the purge/page-out race of `raceOps` a `get`
is granted although no segment exists under the key -/
theorem c09_content_full_fails :
    ¬ ∀ (cap sc sr : Nat) (ops : List Op) (k : String) (t : Nat) (cands : List String) (size : Nat) (r deser : String),
        (get (run (init cap sc sr) ops) k t cands).2 = .granted size r deser →
        (find? (get (run (init cap sc sr) ops) k t cands).1.segs k).isSome = true := by
  intro h
  have := h 10 900 900
    [.add "a" 6 "" 1, .cwrite "a" 6 1, .closeW "a", .add "b" 6 "" 2, .purge "a",
     .add "a" 8 "" 3, .cwrite "a" 8 2, .closeW "a", .io 0 .ok, .cb 0] "a" 4 ["r"] 8 "r" "" (by decide)
  revert this
  decide

/-! ### who writes the bytes -/

namespace Aux

/-- every dataset of `ds'` already was in `ds` under the same key with the same `wrote` -/
def KeepsWrote (ds ds' : List (String × Dataset)) : Prop :=
  ∀ k d', find? ds' k = some d' → ∃ d, find? ds k = some d ∧ d'.wrote = d.wrote

theorem kw_refl (ds : List (String × Dataset)) : KeepsWrote ds ds := fun _ d' h => ⟨d', h, rfl⟩

theorem kw_trans {a b c : List (String × Dataset)} (h1 : KeepsWrote a b) (h2 : KeepsWrote b c) : KeepsWrote a c := by
  intro k d' h
  obtain ⟨d1, e1, w1⟩ := h2 k d' h
  obtain ⟨d0, e0, w0⟩ := h1 k d1 e1
  exact ⟨d0, e0, w1.trans w0⟩

theorem kw_set (ds : List (String × Dataset)) (k : String) (d0 v : Dataset) (h : find? ds k = some d0)
    (hw : v.wrote = d0.wrote) : KeepsWrote ds (set ds k v) := by
  intro x d' hx
  by_cases e : x = k
  · subst e; rw [find?_set_self _ _ _ _ h] at hx; cases hx; exact ⟨d0, h, hw⟩
  · rw [find?_set_ne _ _ _ _ e] at hx; exact ⟨d', hx, rfl⟩

theorem kw_erase (ds : List (String × Dataset)) (k : String) (hn : Nd ds) : KeepsWrote ds (erase ds k) := by
  intro x d' hx
  by_cases e : x = k
  · subst e; rw [find?_erase_self _ _ hn] at hx; cases hx
  · rw [find?_erase_ne _ _ _ e] at hx; exact ⟨d', hx, rfl⟩

theorem kw_purge (s : St) (k : String) (hn : Nd s.ds) : KeepsWrote s.ds (purge s k).ds := by
  unfold purge
  cases hd : find? s.ds k with
  | none => exact kw_refl _
  | some d =>
    simp only
    split
    · exact kw_set _ _ d _ hd rfl
    · split
      · exact kw_refl _
      · cases find? s.segs k with
        | none => exact kw_refl _
        | some g => exact kw_erase _ _ hn

theorem kw_afterClose (s : St) (k : String) (hn : Nd s.ds) : KeepsWrote s.ds (afterClose s k).ds := by
  unfold afterClose
  cases find? s.ds k with
  | none => exact kw_refl _
  | some d => simp only; split; exact kw_purge s k hn; exact kw_refl _

theorem kw_pageOut (s : St) (k : String) : KeepsWrote s.ds (pageOut s k).ds := by
  unfold pageOut
  cases hd : find? s.ds k with
  | none => exact kw_refl _
  | some d => exact kw_set _ _ d _ hd rfl

theorem kw_pageOutAll (ws : List String) : ∀ (s : St), KeepsWrote s.ds (pageOutAll s ws).ds := by
  induction ws with
  | nil => intro s; exact kw_refl _
  | cons k ws ih => intro s; simp only [pageOutAll, List.foldl_cons]; exact kw_trans (kw_pageOut s k) (ih _)

theorem kw_pageOutAtLeast (s : St) (a t : Nat) : KeepsWrote s.ds (pageOutAtLeast s a t).ds := by
  unfold pageOutAtLeast
  split
  · exact kw_refl _
  · simp only; split
    · exact kw_refl _
    · exact kw_pageOutAll _ { s with lock := true, count := _ }

theorem kw_closeCb (s : St) (k r : String) (hn : Nd s.ds) : KeepsWrote s.ds (closeCb s k r).1.ds := by
  unfold closeCb
  cases hd : find? s.ds k with
  | none => exact kw_refl _
  | some d =>
    simp only
    split
    · split
      · exact kw_refl _
      · exact kw_trans (kw_set _ _ d { d with status := .inMemory } hd rfl)
          (kw_afterClose { s with ds := set s.ds k { d with status := .inMemory } } k (nd_set _ _ _ hn))
    · split
      · exact kw_refl _
      · exact kw_trans (kw_set _ _ d { d with readers := eraseReader d.readers r } hd rfl)
          (kw_afterClose { s with ds := set s.ds k { d with readers := eraseReader d.readers r } } k (nd_set _ _ _ hn))

theorem kw_get (s : St) (k : String) (t : Nat) (cands : List String) : KeepsWrote s.ds (get s k t cands).1.ds := by
  unfold get
  cases hd : find? s.ds k with
  | none => exact kw_refl _
  | some d =>
    simp only
    split
    · exact kw_refl _
    · exact kw_refl _
    · exact kw_refl _
    · split
      · exact kw_pageOutAtLeast _ _ _
      · exact kw_set _ _ d _ hd rfl
    · split
      · exact kw_refl _
      · exact kw_set _ _ d _ hd rfl

theorem ioStep_ds (s : St) (id : Nat) (inj : IoRes) : (ioStep s id inj).1.ds = s.ds := by
  unfold ioStep
  cases findJob s.jobs id with
  | none => rfl
  | some j =>
    simp only
    split
    · rfl
    · cases j.kind with
      | out => simp only; split; rfl; cases find? s.segs j.key <;> rfl
      | inn =>
        simp only; split; rfl
        cases find? s.segs j.key with
        | some g => rfl
        | none => simp only; split; rfl; split <;> rfl

theorem kw_cbStep (s : St) (id : Nat) (hn : Nd s.ds) : KeepsWrote s.ds (cbStep s id).1.ds := by
  unfold cbStep
  cases findJob s.jobs id with
  | none => exact kw_refl _
  | some j =>
    simp only
    cases j.io with
    | none => exact kw_refl _
    | some b =>
      have hss : ∀ st, KeepsWrote s.ds (setStatusIfSame s.ds j.key j.gen st) := by
        intro st
        unfold setStatusIfSame
        cases hd : find? s.ds j.key with
        | none => exact kw_refl _
        | some d => simp only; split; exact kw_set _ _ d _ hd rfl; exact kw_refl _
      cases j.kind <;> cases b <;> simp only [decCount]
      · exact kw_purge { s with jobs := eraseJob s.jobs id } j.key hn
      · exact hss _
      · exact kw_purge { s with jobs := eraseJob s.jobs id } j.key hn
      · exact hss _

end Aux

/-- The ghost field `wrote` of the content theorem is what it claims to be: the writer's
create-and-write step records its token and puts exactly these bytes into the fresh segment … -/
theorem c09_writer_writes (s : St) (k : String) (size tok : Nat) (d : Dataset) (hd : find? s.ds k = some d)
    (hg : find? s.segs k = none) :
    (cwrite s k size tok).2 = .ok ∧ find? (cwrite s k size tok).1.segs k = some ⟨size, tok⟩ ∧
    ∃ d', find? (cwrite s k size tok).1.ds k = some d' ∧ d'.wrote = some tok := by
  have e : cwrite s k size tok = ({ s with segs := s.segs ++ [(k, { size := size, data := tok })], ds := set s.ds k { d with wrote := some tok } }, .ok) := by
    simp [cwrite, hg, hd]
  rw [e]
  exact ⟨rfl, find?_append_self _ _ _ hg, _, find?_set_self _ _ _ _ hd, rfl⟩

/-- … and no other step of any client or disk job changes `wrote` of a stored dataset
(for EVERY state with unique keys). -/
theorem c09_wrote_only_by_writer (s : St) (hn : Nd s.ds) (op : Op) (k : String) (d d' : Dataset)
    (hd : find? s.ds k = some d) (hd' : find? (step s op).1.ds k = some d')
    (hop : ∀ size tok, op ≠ .cwrite k size tok) : d'.wrote = d.wrote := by
  have fin : KeepsWrote s.ds (step s op).1.ds → d'.wrote = d.wrote := by
    intro h
    obtain ⟨d0, e0, w0⟩ := h k d' hd'
    rw [hd] at e0; cases e0; exact w0
  cases op with
  | freeSpace => exact fin (kw_refl _)
  | purge k' => exact fin (kw_purge s k' hn)
  | closeW k' => exact fin (kw_closeCb s k' "" hn)
  | closeR k' r => exact fin (kw_closeCb s k' r hn)
  | get k' t cands => exact fin (kw_get s k' t cands)
  | io id inj => exact fin (by simp only [step]; rw [ioStep_ds]; exact kw_refl _)
  | cb id => exact fin (kw_cbStep s id hn)
  | add k' size deser t =>
    simp only [step, add] at hd'
    split at hd'
    · rw [hd] at hd'; cases hd'; rfl
    · split at hd'
      · rw [hd] at hd'; cases hd'; rfl
      · split at hd'
        · obtain ⟨d0, e0, w0⟩ := kw_pageOutAtLeast s _ t k d' hd'
          rw [hd] at e0; cases e0; exact w0
        · simp only at hd'
          rw [find?_append_some _ _ _ _ _ hd] at hd'; cases hd'; rfl
  | cwrite k' size tok =>
    have hk : k ≠ k' := by intro e; subst e; exact hop size tok rfl
    simp only [step, cwrite] at hd'
    cases hg : find? s.segs k' with
    | some g => simp only [hg] at hd'; rw [hd] at hd'; cases hd'; rfl
    | none =>
      simp only [hg] at hd'
      cases hk' : find? s.ds k' with
      | none => simp only [hk'] at hd'; rw [hd] at hd'; cases hd'; rfl
      | some dk =>
        simp only [hk'] at hd'
        rw [find?_set_ne _ _ _ _ hk, hd] at hd'; cases hd'; rfl

/-! ### not readable before the writer has finished -/

/-- `get` on a dataset whose writer has not closed (`created`) — and likewise while it is being
paged out or in — answers `wait`, registers no reader and changes nothing; for EVERY state. -/
theorem c09_not_before_close (s : St) (k : String) (t : Nat) (cands : List String) (d : Dataset)
    (hd : find? s.ds k = some d) (hst : d.status = .created ∨ d.status = .pagingOut ∨ d.status = .pagedIn) :
    get s k t cands = (s, .wait) := by
  unfold get
  rcases hst with h | h | h <;> simp [hd, h]

/-- … and only the writer's close turns `created` into `in_memory` in `close_callback` -/
theorem c09_close_writer (s : St) (k : String) (d : Dataset) (hd : find? s.ds k = some d) :
    (d.status = .created → ∀ rdid, rdid ≠ "" → closeCb s k rdid = (s, .valueError)) ∧
    (d.status ≠ .created → closeCb s k "" = (s, .valueError)) := by
  constructor
  · intro hst rdid hr
    simp [closeCb, hd, hr, hst]
  · intro hst
    simp [closeCb, hd, hst]

/-! ### protected in use -/

/-- A dataset with a reader younger than STALE_READ is not chosen by `page_out_at_least`: every
winner is `in_memory`/stale-`created`, and if it is `in_memory` all its readers are older than the
window; datasets that are not winners keep their record, and no segment is touched. For EVERY state
with unique keys (`Nd`, which holds after every history: `c09_keys_unique`). -/
theorem c09_protected (s : St) (amount t : Nat) (hn : Nd s.ds) (k : String) (d : Dataset) (hd : find? s.ds k = some d)
    (r : String) (t0 : Nat) (hr : (r, t0) ∈ d.readers) (hfresh : t ≤ t0 + s.staleRead) (hst : d.status = .inMemory) :
    find? (pageOutAtLeast s amount t).ds k = some d ∧ (pageOutAtLeast s amount t).segs = s.segs := by
  have hnp : isPageoutable s.staleCreate s.staleRead d t = false := by
    have hm := maxStart_ge d.readers r t0 hr
    have hne : d.readers.isEmpty = false := by cases h : d.readers <;> simp [h] at hr ⊢
    have : ¬ (maxStart d.readers + s.staleRead < t) := by omega
    simp [isPageoutable, hst, hne, this]
  unfold pageOutAtLeast
  split
  · exact ⟨hd, rfl⟩
  · simp only
    split
    · exact ⟨hd, rfl⟩
    · have hk : k ∉ lottery (candidates s.staleCreate s.staleRead t s.ds) amount := by
        intro hk
        obtain ⟨d', hd', hp⟩ := winners_pageoutable _ _ _ _ _ hn k hk
        rw [hd] at hd'; cases hd'; rw [hnp] at hp; cases hp
      obtain ⟨r1, r2, _⟩ := pageOutAll_other _ { s with lock := true, count := _ } k hk
      exact ⟨r1.trans hd, r2⟩

/-- every dataset that `page_out_at_least` does send to disk was `is_pageoutable` at that time -/
theorem c09_evicted_were_pageoutable (s : St) (amount t : Nat) (hn : Nd s.ds) (k : String) (d : Dataset)
    (hd : find? s.ds k = some d) (hch : find? (pageOutAtLeast s amount t).ds k ≠ some d) :
    isPageoutable s.staleCreate s.staleRead d t = true := by
  unfold pageOutAtLeast at hch
  split at hch
  · exact absurd hd hch
  · simp only at hch
    split at hch
    · exact absurd hd hch
    · by_cases hk : k ∈ lottery (candidates s.staleCreate s.staleRead t s.ds) amount
      · obtain ⟨d', hd', hp⟩ := winners_pageoutable _ _ _ _ _ hn k hk
        rw [hd] at hd'; cases hd'; exact hp
      · obtain ⟨r1, _, _⟩ := pageOutAll_other _ { s with lock := true, count := (lottery (candidates s.staleCreate s.staleRead t s.ds) amount).length } k hk
        exact absurd (r1.trans hd) hch

/-- A purge while ANY reader holds the dataset unlinks nothing: it only sets `delayed_purge`. -/
theorem c09_protected_purge (s : St) (k : String) (d : Dataset) (hd : find? s.ds k = some d) (hr : d.readers ≠ []) :
    purge s k = { s with ds := set s.ds k { d with delayed := true } } := by
  have : d.readers.isEmpty = false := by cases h : d.readers <;> simp [h] at hr ⊢
  simp [purge, hd, this]

theorem c09_keys_unique (cap sc sr : Nat) (ops : List Op) : Nd (run (init cap sc sr) ops).ds :=
  (base_run ops _ (base_init cap sc sr)).nd


/-! ### delayed purge -/

/-- The close of the last reader executes a purge that arrived during the read: the dataset is
gone, its segment is unlinked, its size is returned. For EVERY state with unique keys. -/
theorem c09_delayed_purge (s : St) (k r : String) (t0 : Nat) (d : Dataset) (g : Seg)
    (hn : Nd s.ds) (hns : Nd s.segs) (hd : find? s.ds k = some d) (hst : d.status = .inMemory)
    (hr : d.readers = [(r, t0)]) (hne : r ≠ "") (hdel : d.delayed = true) (hg : find? s.segs k = some g) :
    (closeCb s k r).2 = .ok ∧ find? (closeCb s k r).1.ds k = none ∧ find? (closeCb s k r).1.segs k = none ∧
    (closeCb s k r).1.free = s.free + d.size := by
  have e1 : eraseReader d.readers r = [] := by simp [eraseReader, erase, hr]
  have hd' : ∀ w, find? (set s.ds k w) k = some w := fun w => find?_set_self s.ds k w d hd
  have e : closeCb s k r =
      ({ s with segs := erase s.segs k, free := s.free + d.size, ds := erase (set s.ds k { d with readers := [] }) k }, .ok) := by
    simp [closeCb, hd, hne, hst, e1, afterClose, hd', hdel, purge, hg]
  rw [e]
  exact ⟨rfl, find?_erase_self _ _ (nd_set _ _ _ hn), find?_erase_self _ _ hns, rfl⟩

/-- … while the close of a reader that is not the last one keeps dataset, segment and the flag. -/
theorem c09_delayed_purge_waits (s : St) (k r : String) (d : Dataset) (hd : find? s.ds k = some d)
    (hst : d.status = .inMemory) (hne : r ≠ "") (hrest : eraseReader d.readers r ≠ []) :
    closeCb s k r = ({ s with ds := set s.ds k { d with readers := eraseReader d.readers r } }, .ok) := by
  have : (eraseReader d.readers r).isEmpty = false := by
    cases h : eraseReader d.readers r <;> simp [h] at hrest ⊢
  have hd' : ∀ w, find? (set s.ds k w) k = some w := fun w => find?_set_self s.ds k w d hd
  simp [closeCb, hd, hne, hst, afterClose, hd', this]

/-! ### protection across every step -/

namespace Aux

theorem purge_other (s : St) (k' k : String) (h : k ≠ k') :
    find? (purge s k').ds k = find? s.ds k ∧ find? (purge s k').segs k = find? s.segs k := by
  unfold purge
  cases find? s.ds k' with
  | none => exact ⟨rfl, rfl⟩
  | some d =>
    simp only
    split
    · exact ⟨find?_set_ne _ _ _ _ h, rfl⟩
    · split
      · exact ⟨rfl, rfl⟩
      · cases find? s.segs k' with
        | none => exact ⟨rfl, rfl⟩
        | some g => exact ⟨find?_erase_ne _ _ _ h, find?_erase_ne _ _ _ h⟩

theorem afterClose_other (s : St) (k' k : String) (h : k ≠ k') :
    find? (afterClose s k').ds k = find? s.ds k ∧ find? (afterClose s k').segs k = find? s.segs k := by
  unfold afterClose
  cases find? s.ds k' with
  | none => exact ⟨rfl, rfl⟩
  | some d => simp only; split; exact purge_other s k' k h; exact ⟨rfl, rfl⟩

theorem mem_erase_ne (rs : List (String × Nat)) (r r' : String) (t0 : Nat) (h : (r, t0) ∈ rs) (hne : r ≠ r') :
    (r, t0) ∈ erase rs r' := by
  induction rs with
  | nil => cases h
  | cons a rs ih =>
    obtain ⟨x, tx⟩ := a
    by_cases hx : x = r'
    · simp only [erase, hx, ↓reduceIte]
      rcases List.mem_cons.mp h with h | h
      · cases h; exact absurd hx hne
      · exact h
    · simp only [erase, hx, ↓reduceIte]
      rcases List.mem_cons.mp h with h | h
      · rw [h]; exact List.mem_cons_self
      · exact List.mem_cons_of_mem _ (ih h)

end Aux

/-- the time an operation reads from the clock, if any -/
def opTime : Op → Option Nat
  | .add _ _ _ t => some t
  | .get _ t _ => some t
  | _ => none

/-- Protected in use, across EVERY step of every client and every disk job: in a state satisfying
the invariants (`Base`, `Core`: all states reached by `SafeRun` histories), a dataset that is
`in_memory` and held by a reader `(r, t0)` that is younger than STALE_READ at the time of the step
is still `in_memory`, still the same object, still held by `r` after the step, and its segment
is untouched — whatever the step is, except `r`'s own close. -/
theorem c09_protected_step (s : St) (hb : Base s) (hc : Core s) (op : Op) (k : String) (d : Dataset)
    (hd : find? s.ds k = some d) (hst : d.status = .inMemory) (r : String) (t0 : Nat) (hr : (r, t0) ∈ d.readers)
    (hne : op ≠ .closeR k r) (hfresh : ∀ t, opTime op = some t → t ≤ t0 + s.staleRead) :
    (∃ d', find? (step s op).1.ds k = some d' ∧ d'.status = .inMemory ∧ (r, t0) ∈ d'.readers ∧ d'.gen = d.gen) ∧
    (∀ g, find? s.segs k = some g → find? (step s op).1.segs k = some g) := by
  have same : (∃ d', find? s.ds k = some d' ∧ d'.status = .inMemory ∧ (r, t0) ∈ d'.readers ∧ d'.gen = d.gen) :=
    ⟨d, hd, hst, hr, rfl⟩
  have hnj : ∀ j ∈ s.jobs, j.key ≠ k := no_job_at s hc k d hd (by simp [hst])
  have hrne : d.readers ≠ [] := by intro e; rw [e] at hr; cases hr
  cases op with
  | freeSpace => exact ⟨same, fun g hg => hg⟩
  | add k' size deser t =>
    simp only [step, add]
    split
    · exact ⟨same, fun g hg => hg⟩
    · split
      · exact ⟨same, fun g hg => hg⟩
      · split
        · obtain ⟨h1, h2⟩ := c09_protected s (size - s.free) t hb.nd k d hd r t0 hr (hfresh t rfl) hst
          exact ⟨⟨d, h1, hst, hr, rfl⟩, fun g hg => by rw [h2]; exact hg⟩
        · exact ⟨⟨d, find?_append_some _ _ _ _ _ hd, hst, hr, rfl⟩, fun g hg => hg⟩
  | cwrite k' size tok =>
    simp only [step, cwrite]
    cases hg' : find? s.segs k' with
    | some g' => exact ⟨same, fun g hg => hg⟩
    | none =>
      simp only
      by_cases hk : k = k'
      · subst hk
        simp only [hd]
        exact ⟨⟨_, find?_set_self _ _ _ _ hd, hst, hr, rfl⟩, fun g hg => by rw [hg'] at hg; cases hg⟩
      · refine ⟨?_, fun g hg => by rw [find?_append_ne _ _ _ _ hk]; exact hg⟩
        cases find? s.ds k' with
        | none => exact same
        | some d' => exact ⟨d, by simp only; rw [find?_set_ne _ _ _ _ hk]; exact hd, hst, hr, rfl⟩
  | closeW k' =>
    by_cases hk : k = k'
    · subst hk
      have e : closeCb s k "" = (s, .valueError) := by simp [closeCb, hd, hst]
      simp only [step, e]; exact ⟨same, fun g hg => hg⟩
    · simp only [step, closeCb]
      cases hd' : find? s.ds k' with
      | none => exact ⟨same, fun g hg => hg⟩
      | some d' =>
        simp only [↓reduceIte]
        split
        · exact ⟨same, fun g hg => hg⟩
        · obtain ⟨a1, a2⟩ := afterClose_other { s with ds := set s.ds k' { d' with status := .inMemory } } k' k hk
          refine ⟨⟨d, ?_, hst, hr, rfl⟩, fun g hg => by rw [a2]; exact hg⟩
          rw [a1]; simp only; rw [find?_set_ne _ _ _ _ hk]; exact hd
  | closeR k' r' =>
    by_cases hk : k = k'
    · subst hk
      have hr' : r ≠ r' := by intro e; subst e; exact hne rfl
      by_cases he : r' = ""
      · subst he
        have e : closeCb s k "" = (s, .valueError) := by simp [closeCb, hd, hst]
        simp only [step, e]; exact ⟨same, fun g hg => hg⟩
      · have hm := mem_erase_ne d.readers r r' t0 hr hr'
        have hrest : eraseReader d.readers r' ≠ [] := by
          intro e; unfold eraseReader at e; rw [e] at hm; cases hm
        simp only [step, c09_delayed_purge_waits s k r' d hd hst he hrest]
        exact ⟨⟨_, find?_set_self _ _ _ _ hd, hst, hm, rfl⟩, fun g hg => hg⟩
    · simp only [step, closeCb]
      cases hd' : find? s.ds k' with
      | none => exact ⟨same, fun g hg => hg⟩
      | some d' =>
        simp only
        split
        · split
          · exact ⟨same, fun g hg => hg⟩
          · obtain ⟨a1, a2⟩ := afterClose_other { s with ds := set s.ds k' { d' with status := .inMemory } } k' k hk
            refine ⟨⟨d, ?_, hst, hr, rfl⟩, fun g hg => by rw [a2]; exact hg⟩
            rw [a1]; simp only; rw [find?_set_ne _ _ _ _ hk]; exact hd
        · split
          · exact ⟨same, fun g hg => hg⟩
          · obtain ⟨a1, a2⟩ := afterClose_other { s with ds := set s.ds k' { d' with readers := eraseReader d'.readers r' } } k' k hk
            refine ⟨⟨d, ?_, hst, hr, rfl⟩, fun g hg => by rw [a2]; exact hg⟩
            rw [a1]; simp only; rw [find?_set_ne _ _ _ _ hk]; exact hd
  | get k' t cands =>
    simp only [step, get]
    by_cases hk : k = k'
    · subst hk
      simp only [hd, hst]
      cases firstFresh d.readers cands with
      | none => exact ⟨same, fun g hg => hg⟩
      | some r' =>
        simp only
        exact ⟨⟨_, find?_set_self _ _ _ _ hd, by first | rfl | exact hst, List.mem_append_left _ hr, rfl⟩, fun g hg => hg⟩
    · cases hd' : find? s.ds k' with
      | none => exact ⟨same, fun g hg => hg⟩
      | some d' =>
        simp only
        split
        · exact ⟨same, fun g hg => hg⟩
        · exact ⟨same, fun g hg => hg⟩
        · exact ⟨same, fun g hg => hg⟩
        · split
          · obtain ⟨h1, h2⟩ := c09_protected s (d'.size - s.free) t hb.nd k d hd r t0 hr (hfresh t rfl) hst
            exact ⟨⟨d, h1, hst, hr, rfl⟩, fun g hg => by rw [h2]; exact hg⟩
          · exact ⟨⟨d, by simp only [pageIn]; rw [find?_set_ne _ _ _ _ hk]; exact hd, hst, hr, rfl⟩, fun g hg => hg⟩
        · split
          · exact ⟨same, fun g hg => hg⟩
          · exact ⟨⟨d, by simp only; rw [find?_set_ne _ _ _ _ hk]; exact hd, hst, hr, rfl⟩, fun g hg => hg⟩
  | purge k' =>
    simp only [step]
    by_cases hk : k = k'
    · subst hk
      rw [c09_protected_purge s k d hd hrne]
      exact ⟨⟨_, find?_set_self _ _ _ _ hd, hst, hr, rfl⟩, fun g hg => hg⟩
    · obtain ⟨a1, a2⟩ := purge_other s k' k hk
      exact ⟨⟨d, by rw [a1]; exact hd, hst, hr, rfl⟩, fun g hg => by rw [a2]; exact hg⟩
  | io id inj =>
    simp only [step, ioStep]
    cases hf : findJob s.jobs id with
    | none => exact ⟨same, fun g hg => hg⟩
    | some j =>
      simp only
      have hjk : k ≠ j.key := fun e => hnj j (findJob_some _ _ _ hf).1 e.symm
      split
      · exact ⟨same, fun g hg => hg⟩
      · cases j.kind with
        | out =>
          simp only
          split
          · exact ⟨same, fun g hg => hg⟩
          · cases find? s.segs j.key with
            | none => exact ⟨same, fun g hg => hg⟩
            | some g' => exact ⟨same, fun g hg => by simp only; rw [find?_erase_ne _ _ _ hjk]; exact hg⟩
        | inn =>
          simp only
          split
          · exact ⟨same, fun g hg => hg⟩
          · cases find? s.segs j.key with
            | some g' => exact ⟨same, fun g hg => hg⟩
            | none =>
              simp only
              split
              · exact ⟨same, fun g hg => by simp only; rw [find?_append_ne _ _ _ _ hjk]; exact hg⟩
              · split
                · exact ⟨same, fun g hg => by simp only; rw [find?_append_ne _ _ _ _ hjk]; exact hg⟩
                · exact ⟨same, fun g hg => by simp only; rw [find?_append_ne _ _ _ _ hjk]; exact hg⟩
  | cb id =>
    simp only [step, cbStep]
    cases hf : findJob s.jobs id with
    | none => exact ⟨same, fun g hg => hg⟩
    | some j =>
      simp only
      have hjk : k ≠ j.key := fun e => hnj j (findJob_some _ _ _ hf).1 e.symm
      cases j.io with
      | none => exact ⟨same, fun g hg => hg⟩
      | some b =>
        simp only
        have hss : ∀ st, find? (setStatusIfSame s.ds j.key j.gen st) k = some d := by
          intro st
          unfold setStatusIfSame
          cases find? s.ds j.key with
          | none => exact hd
          | some dj => simp only; split; rw [find?_set_ne _ _ _ _ hjk]; exact hd; exact hd
        cases j.kind <;> cases b <;> simp only [decCount]
        · obtain ⟨a1, a2⟩ := purge_other { s with jobs := eraseJob s.jobs id } j.key k hjk
          exact ⟨⟨d, by rw [a1]; exact hd, hst, hr, rfl⟩, fun g hg => by rw [a2]; exact hg⟩
        · exact ⟨⟨d, hss _, hst, hr, rfl⟩, fun g hg => hg⟩
        · obtain ⟨a1, a2⟩ := purge_other { s with jobs := eraseJob s.jobs id } j.key k hjk
          exact ⟨⟨d, by rw [a1]; exact hd, hst, hr, rfl⟩, fun g hg => by rw [a2]; exact hg⟩
        · exact ⟨⟨d, hss _, hst, hr, rfl⟩, fun g hg => hg⟩

/-- `c09_protected_step` for the states reached by `SafeRun` histories (same gap as
`c09_content_partial`: the purge/disk-job race, where an orphaned page-out job can unlink the
segment of a re-allocated key even while it is being read). -/
theorem c09_protected_history_partial (cap sc sr : Nat) (ops : List Op) (hs : SafeRun (init cap sc sr) ops)
    (op : Op) (k : String) (d : Dataset) (hd : find? (run (init cap sc sr) ops).ds k = some d) (hst : d.status = .inMemory)
    (r : String) (t0 : Nat) (hr : (r, t0) ∈ d.readers) (hne : op ≠ .closeR k r)
    (hfresh : ∀ t, opTime op = some t → t ≤ t0 + (run (init cap sc sr) ops).staleRead) :
    (∃ d', find? (step (run (init cap sc sr) ops) op).1.ds k = some d' ∧ d'.status = .inMemory ∧ (r, t0) ∈ d'.readers ∧ d'.gen = d.gen) ∧
    (∀ g, find? (run (init cap sc sr) ops).segs k = some g → find? (step (run (init cap sc sr) ops) op).1.segs k = some g) := by
  obtain ⟨hb, hc⟩ := core_run ops _ (base_init cap sc sr) (core_init cap sc sr) hs
  exact c09_protected_step _ hb hc op k d hd hst r t0 hr hne hfresh

/-! ### lock discipline -/

/-- After EVERY history (no assumption on the clients): `pageout_all` is held iff
`pageout_count > 0`, and `pageout_count` is the number of page-out jobs whose callback has not
run yet; in particular the lock is free whenever no page-out job is pending. -/
theorem c09_lock_discipline (cap sc sr : Nat) (ops : List Op) :
    ((run (init cap sc sr) ops).lock = true ↔ 0 < (run (init cap sc sr) ops).count) ∧
    (run (init cap sc sr) ops).count = outJobs (run (init cap sc sr) ops).jobs ∧
    (outJobs (run (init cap sc sr) ops).jobs = 0 → (run (init cap sc sr) ops).lock = false) := by
  have hb := base_run ops _ (base_init cap sc sr)
  refine ⟨hb.lockCount, hb.countJobs, ?_⟩
  intro h0
  have := hb.lockCount
  have := hb.countJobs
  cases hl : (run (init cap sc sr) ops).lock
  · rfl
  · have := hb.lockCount.mp hl; omega

/-! ### eventually granted -/

/-- every dataset that is evictable at time `t` has really been written (its segment exists);
holds when writers create their segment before they close (and stale writers did so) -/
def EvictableWritten (s : St) (t : Nat) : Prop :=
  ∀ p ∈ s.ds, isPageoutable s.staleCreate s.staleRead p.2 t = true → (find? s.segs p.1).isSome = true

instance (s : St) (t : Nat) : Decidable (EvictableWritten s t) := by unfold EvictableWritten; exact inferInstance

namespace Aux

theorem eventually_granted (s : St) (hb : Base s) (hc : Core s) (k : String) (size : Nat) (deser : String) (t t' : Nat)
    (hq : s.jobs = []) (hk : find? s.ds k = none) (hcap : size ≤ s.cap)
    (hroom : size ≤ s.free + candTotal s.staleCreate s.staleRead t s.ds) (hw : EvictableWritten s t) :
    (add s k size deser t).2 = .granted ∨
    ((add s k size deser t).2 = .wait ∧
      (add (drain (add s k size deser t).1 (add s k size deser t).1.jobs) k size deser t').2 = .granted) := by
  by_cases hfit : size ≤ s.free
  · left
    have h1 : ¬ size > s.cap := by omega
    have h2 : ¬ size > s.free := by omega
    simp [add, hk, h1, h2]
  · right
    have h1 : ¬ size > s.cap := by omega
    have h2 : size > s.free := by omega
    have hadd : add s k size deser t = (pageOutAtLeast s (size - s.free) t, .wait) := by simp [add, hk, h1, h2]
    rw [hadd]
    refine ⟨rfl, ?_⟩
    simp only
    -- the state after the first request is a `step`: invariants carry over
    have hstep : (step s (.add k size deser t)).1 = pageOutAtLeast s (size - s.free) t := by simp [step, hadd]
    have hb1 : Base (pageOutAtLeast s (size - s.free) t) := hstep ▸ base_step s _ hb
    have hc1 : Core (pageOutAtLeast s (size - s.free) t) := hstep ▸ core_step s _ hb hc rfl
    -- the lock is free because nothing is pending (lock discipline)
    have hlock : s.lock = false := by
      have h0 : s.count = 0 := by rw [hb.countJobs, hq]; rfl
      cases hl : s.lock
      · rfl
      · have := hb.lockCount.mp hl; omega
    generalize hws : lottery (candidates s.staleCreate s.staleRead t s.ds) (size - s.free) = ws at *
    have henough : size - s.free ≤ (ws.map (dsize s.ds)).sum := by
      rw [← hws]; exact lottery_enough _ _ _ _ _ hb.nd (by omega)
    have hne : ws.isEmpty = false := by
      cases ws with
      | nil => simp at henough; omega
      | cons _ _ => rfl
    have hs1 : pageOutAtLeast s (size - s.free) t = pageOutAll { s with lock := true, count := ws.length } ws := by
      simp [pageOutAtLeast, hlock, hws, hne]
    have hwin : ∀ w ∈ ws, ∃ d, find? s.ds w = some d ∧ isPageoutable s.staleCreate s.staleRead d t = true := by
      intro w hw'; rw [← hws] at hw'; exact winners_pageoutable _ _ _ _ _ hb.nd w hw'
    have hfound : ∀ w ∈ ws, (find? ({ s with lock := true, count := ws.length } : St).ds w).isSome = true := by
      intro w hw'; obtain ⟨d, hd, _⟩ := hwin w hw'; simp [hd]
    obtain ⟨J, hJ, hall, hsum⟩ := pageOutAll_spec ws { s with lock := true, count := ws.length } hfound
    have hJ' : (pageOutAtLeast s (size - s.free) t).jobs = J := by rw [hs1, hJ]; simp [hq]
    have hsegs : (pageOutAtLeast s (size - s.free) t).segs = s.segs := by rw [hs1]; exact pageOutAll_segs ws _
    obtain ⟨f1, c1, k1⟩ := pageOutAtLeast_free s (size - s.free) t
    have hall' : ∀ j ∈ J, j.kind = .out ∧ j.io = none ∧ (find? (pageOutAtLeast s (size - s.free) t).segs j.key).isSome = true := by
      intro j hj
      obtain ⟨a, b, c⟩ := hall j hj
      obtain ⟨d, hd, hp⟩ := hwin j.key c
      exact ⟨a, b, by rw [hsegs]; exact hw (j.key, d) (find?_mem _ _ _ hd) hp⟩
    obtain ⟨q1, q2, _, q4⟩ := drain_all J _ hb1 hc1 hJ' hall'
    rw [hJ']
    have hk2 : find? (drain (pageOutAtLeast s (size - s.free) t) J).ds k = none := by
      have := (q4 k).trans (k1 k)
      rw [hk] at this
      cases h : find? (drain (pageOutAtLeast s (size - s.free) t) J).ds k <;> simp [h] at this ⊢
    have hfree : size ≤ (drain (pageOutAtLeast s (size - s.free) t) J).free := by
      rw [q1, f1, hsum]
      have : (ws.map (dsize ({ s with lock := true, count := ws.length } : St).ds)).sum = (ws.map (dsize s.ds)).sum := rfl
      omega
    have hcap2 : ¬ size > (drain (pageOutAtLeast s (size - s.free) t) J).cap := by rw [q2, c1]; omega
    have hfree2 : ¬ size > (drain (pageOutAtLeast s (size - s.free) t) J).free := by omega
    simp [add, hk2, hcap2, hfree2]

end Aux

/-- A request that can be satisfied by evicting idle datasets is eventually granted: in every
state reached by a `SafeRun` history in which all disk jobs have completed — including states
reached after an eviction attempt that found nothing evictable — an allocation of a new key with
`size ≤ capacity` and `size ≤ free + Σ sizes of the datasets evictable now` is either granted at
once, or answered `wait`, and after the launched page-out jobs have completed (I/O successful)
the retry is granted. Uses `c09_lock_discipline` (the lock must be free when nothing is pending —
false before the fix), "the lottery frees enough", "one job per winner", "a completed page-out
returns its size". Same `SafeRun` gap as `c09_content_partial`; `EvictableWritten` states that
the evictable datasets have segments to write out. -/
theorem c09_eventually_granted_partial (cap sc sr : Nat) (ops : List Op) (hs : SafeRun (init cap sc sr) ops)
    (k : String) (size : Nat) (deser : String) (t t' : Nat)
    (hq : (run (init cap sc sr) ops).jobs = [])
    (hk : find? (run (init cap sc sr) ops).ds k = none)
    (hcap : size ≤ (run (init cap sc sr) ops).cap)
    (hroom : size ≤ (run (init cap sc sr) ops).free +
      candTotal (run (init cap sc sr) ops).staleCreate (run (init cap sc sr) ops).staleRead t (run (init cap sc sr) ops).ds)
    (hw : EvictableWritten (run (init cap sc sr) ops) t) :
    (add (run (init cap sc sr) ops) k size deser t).2 = .granted ∨
    ((add (run (init cap sc sr) ops) k size deser t).2 = .wait ∧
      (add (drain (add (run (init cap sc sr) ops) k size deser t).1 (add (run (init cap sc sr) ops) k size deser t).1.jobs)
        k size deser t').2 = .granted) := by
  obtain ⟨hb, hc⟩ := core_run ops _ (base_init cap sc sr) (core_init cap sc sr) hs
  exact eventually_granted _ hb hc k size deser t t' hq hk hcap hroom hw

/-! ### non-vacuity -/

/-- a held dataset under memory pressure: `a` (6 of 10 bytes) is read by `r1`; `add b 6` must wait and `a` stays -/
example :
    SafeRun (init 10 900 900) [.add "a" 6 "" 1, .cwrite "a" 6 7, .closeW "a", .get "a" 5 ["r1"]] ∧
    (find? (run (init 10 900 900) [.add "a" 6 "" 1, .cwrite "a" 6 7, .closeW "a", .get "a" 5 ["r1"]]).ds "a").map
        (fun d => decide (d.status = .inMemory) && d.readers.contains ("r1", 5)) = some true ∧
    (step (run (init 10 900 900) [.add "a" 6 "" 1, .cwrite "a" 6 7, .closeW "a", .get "a" 5 ["r1"]]) (.add "b" 6 "" 6)).2 = .add .wait ∧
    (find? (step (run (init 10 900 900) [.add "a" 6 "" 1, .cwrite "a" 6 7, .closeW "a", .get "a" 5 ["r1"]]) (.add "b" 6 "" 6)).1.ds "a").map
        (fun d => d.status) = some .inMemory ∧
    -- ... while 15 minutes later the same reader no longer protects it
    (find? (step (run (init 10 900 900) [.add "a" 6 "" 1, .cwrite "a" 6 7, .closeW "a", .get "a" 5 ["r1"]]) (.add "b" 6 "" 906)).1.ds "a").map
        (fun d => d.status) = some .pagingOut := by
  decide

/-- the hypotheses of `c09_eventually_granted_partial` hold in a concrete reachable state and the
`wait`-then-granted branch is the one taken -/
example :
    SafeRun (init 10 900 900) [.add "a" 6 "" 1, .cwrite "a" 6 7, .add "c" 9 "" 2, .closeW "a"] ∧
    (run (init 10 900 900) [.add "a" 6 "" 1, .cwrite "a" 6 7, .add "c" 9 "" 2, .closeW "a"]).jobs = [] ∧
    find? (run (init 10 900 900) [.add "a" 6 "" 1, .cwrite "a" 6 7, .add "c" 9 "" 2, .closeW "a"]).ds "b" = none ∧
    6 ≤ (run (init 10 900 900) [.add "a" 6 "" 1, .cwrite "a" 6 7, .add "c" 9 "" 2, .closeW "a"]).free +
        candTotal 900 900 4 (run (init 10 900 900) [.add "a" 6 "" 1, .cwrite "a" 6 7, .add "c" 9 "" 2, .closeW "a"]).ds ∧
    EvictableWritten (run (init 10 900 900) [.add "a" 6 "" 1, .cwrite "a" 6 7, .add "c" 9 "" 2, .closeW "a"]) 4 ∧
    (add (run (init 10 900 900) [.add "a" 6 "" 1, .cwrite "a" 6 7, .add "c" 9 "" 2, .closeW "a"]) "b" 6 "" 4).2 = .wait := by
  decide

example : (get (run (init 10 900 900) [.add "a" 6 "x" 1, .cwrite "a" 6 7, .closeW "a"]) "a" 2 ["r"]).2 = .granted 6 "r" "x" := by
  decide

example : (run (init 10 900 900) [.add "a" 6 "" 1, .cwrite "a" 6 7, .closeW "a", .add "b" 6 "" 2]).lock = true ∧
    (run (init 10 900 900) [.add "a" 6 "" 1, .cwrite "a" 6 7, .closeW "a", .add "b" 6 "" 2, .io 0 .ok, .cb 0]).lock = false ∧
    -- an eviction attempt that finds nothing evictable leaves the lock free (this is the fixed leak)
    (run (init 10 900 900) [.add "a" 6 "" 1, .add "b" 6 "" 2]).lock = false := by decide

end EkwVerif.Shm
