/-
C19 — a job accepted by the builder is well formed and carries the values given.
Property theorems `c19_*`; helper lemmas live in `namespace Aux`.
Model: EkwVerif/Model/Builder.lean (cascade/low/builders.py after the C19 `fix:` commits).
-/
import EkwVerif.Model.Builder
import EkwVerif.Props.C16

namespace EkwVerif.Builder

/-- the value of the LAST item with key `k` in an item list (Python: later bindings win) -/
def lastBinding {κ α : Type} [DecidableEq κ] : List (κ × α) → κ → Option α
  | [], _ => none
  | (k', v) :: rest, k =>
    match lastBinding rest k with
    | some w => some w
    | none => if k' = k then some v else none

/-- declared types `ot` (output) and `it` (parameter) are compatible -/
def Compatible (env : TyEnv) (ot it : Ty) : Prop :=
  it = anyTy ∨ ot = anyTy ∨ ot = it ∨ (ot, it) ∈ legits ∨ env.subclass ot it = true

/-- an edge starts at an existing output of an existing task, ends at an existing task and,
if it is a keyword edge, at an existing parameter of compatible declared type -/
def EdgeOk (env : TyEnv) (tasks : List (String × Task)) (e : Edge) : Prop :=
  ∃ st ot kt, lookup tasks e.src = some st ∧ lookup st.defn.outputSchema e.out = some ot ∧
    lookup tasks e.sink = some kt ∧
    ∀ p, e.into = .kw p → ∃ it, lookup kt.defn.inputSchema p = some it ∧ Compatible env ot it

/-- a keyword static of a declared parameter has the declared type -/
def StaticOk (env : TyEnv) (t : Task) (k : String) (v : Val) : Prop :=
  ∀ ty, lookup t.defn.inputSchema k = some ty → ty = anyTy ∨ ty ∈ skipped ∨ env.subclass v.ty ty = true

/-- a type name the builder can interpret: absent annotation or evaluable (builtin) class -/
def TyKnown (env : TyEnv) (ty : Ty) : Prop := ty = anyTy ∨ env.evaluable ty = true

instance (env : TyEnv) (ty : Ty) : Decidable (TyKnown env ty) := by unfold TyKnown; infer_instance

def TaskKnown (env : TyEnv) (t : Task) : Prop :=
  (∀ k ty, (k, ty) ∈ t.defn.inputSchema → TyKnown env ty) ∧ (∀ k ty, (k, ty) ∈ t.defn.outputSchema → TyKnown env ty)

def NodesKnown (env : TyEnv) (nodes : List (String × Task)) : Prop := ∀ n t, (n, t) ∈ nodes → TaskKnown env t

/-- every annotation of the signature is absent or an evaluable (builtin) class -/
def SigKnown (env : TyEnv) (s : Sig) : Prop :=
  (∀ p ∈ s.params, TyKnown env (type2str p.ann)) ∧ TyKnown env (type2str s.ret)

instance (env : TyEnv) (s : Sig) : Decidable (SigKnown env s) := by unfold SigKnown; infer_instance

def OpKnown (env : TyEnv) : Op → Prop
  | .fromCallable s _ => SigKnown env s
  | .fromEntrypoint _ schema out _ => (∀ k ty, (k, ty) ∈ schema → TyKnown env ty) ∧ TyKnown env out
  | _ => True

namespace Aux

theorem lookup_dset {κ α : Type} [DecidableEq κ] (d : List (κ × α)) (k k' : κ) (v : α) :
    lookup (dset d k v) k' = if k = k' then some v else lookup d k' := by
  induction d with
  | nil => simp [dset, lookup]
  | cons hd tl ih =>
    obtain ⟨a, b⟩ := hd
    simp only [dset]
    by_cases h : a = k
    · subst h
      by_cases h2 : a = k' <;> simp [lookup, h2]
    · simp only [h, ↓reduceIte, lookup, ih]
      by_cases h2 : a = k'
      · subst h2; simp [Ne.symm h]
      · simp [h2]

theorem lookup_update {κ α : Type} [DecidableEq κ] (d e : List (κ × α)) (k : κ) :
    lookup (update d e) k = match lastBinding e k with | some v => some v | none => lookup d k := by
  induction e generalizing d with
  | nil => simp [update, lastBinding]
  | cons hd tl ih =>
    obtain ⟨a, b⟩ := hd
    have := ih (dset d a b)
    simp only [update, List.foldl_cons] at this ⊢
    rw [this]
    simp only [lastBinding]
    cases lastBinding tl k with
    | some w => rfl
    | none => simp only [lookup_dset]; by_cases h : a = k <;> simp [h]

theorem lookup_mem {κ α : Type} [DecidableEq κ] (d : List (κ × α)) (k : κ) (v : α)
    (h : lookup d k = some v) : (k, v) ∈ d := by
  induction d with
  | nil => simp [lookup] at h
  | cons hd tl ih =>
    obtain ⟨a, b⟩ := hd
    simp only [lookup] at h
    by_cases h2 : a = k
    · simp only [h2, ↓reduceIte, Option.some.injEq] at h; subst h; subst h2; simp
    · simp only [h2, ↓reduceIte] at h; exact List.mem_cons_of_mem _ (ih h)

theorem mem_dset {κ α : Type} [DecidableEq κ] (d : List (κ × α)) (k : κ) (v : α) (x : κ × α)
    (h : x ∈ dset d k v) : x ∈ d ∨ x = (k, v) := by
  induction d with
  | nil => simp [dset] at h; exact Or.inr h
  | cons hd tl ih =>
    obtain ⟨a, b⟩ := hd
    simp only [dset] at h
    by_cases h2 : a = k
    · simp only [h2, ↓reduceIte, List.mem_cons] at h
      rcases h with h | h
      · exact Or.inr h
      · exact Or.inl (List.mem_cons_of_mem _ h)
    · simp only [h2, ↓reduceIte, List.mem_cons] at h
      rcases h with h | h
      · exact Or.inl (by simp [h])
      · rcases ih h with h | h
        · exact Or.inl (List.mem_cons_of_mem _ h)
        · exact Or.inr h

theorem mem_update {κ α : Type} [DecidableEq κ] (d e : List (κ × α)) (x : κ × α)
    (h : x ∈ update d e) : x ∈ d ∨ x ∈ e := by
  induction e generalizing d with
  | nil => exact Or.inl (by simpa [update] using h)
  | cons hd tl ih =>
    simp only [update, List.foldl_cons] at h
    rcases ih (dset d hd.1 hd.2) h with h | h
    · rcases mem_dset _ _ _ _ h with h | h
      · exact Or.inl h
      · exact Or.inr (by simp [h])
    · exact Or.inr (List.mem_cons_of_mem _ h)

theorem lastBinding_enumFrom (n : Nat) (args : List Val) (i : Nat) :
    lastBinding (enumFrom n args) i = if n ≤ i then args[i - n]? else none := by
  induction args generalizing n with
  | nil => simp [enumFrom, lastBinding]
  | cons a as ih =>
    simp only [enumFrom, lastBinding, ih (n + 1)]
    by_cases h : n + 1 ≤ i
    · have h1 : n ≤ i := by omega
      have h2 : i - n = (i - (n + 1)) + 1 := by omega
      simp only [h, ↓reduceIte, h1, h2, List.getElem?_cons_succ]
      cases as[i - (n + 1)]? with
      | some w => rfl
      | none =>
        have : ¬ n = i := by omega
        simp [this]
    · simp only [h, ↓reduceIte]
      by_cases h3 : n = i
      · subst h3; simp
      · have : ¬ n ≤ i := by omega
        simp [h3, this]

theorem truthy_some (o : Option Ty) (t : Ty) (h : truthy o = some t) : o = some t := by
  cases o with
  | none => simp [truthy] at h
  | some s =>
    simp only [truthy] at h
    by_cases h2 : s = ""
    · simp [h2] at h
    · simp only [h2, ↓reduceIte, Option.some.injEq] at h; rw [h]

theorem collect_ok_nil (l : List (Except Err (List Problem))) (h : collect l = .ok []) :
    ∀ x ∈ l, x = .ok [] := by
  induction l with
  | nil => intro x hx; cases hx
  | cons hd tl ih =>
    cases hd with
    | error e => simp [collect] at h
    | ok ps =>
      simp only [collect] at h
      cases hc : collect tl with
      | error e => simp [hc] at h
      | ok qs =>
        simp only [hc, Except.ok.injEq, List.append_eq_nil_iff] at h
        intro x hx
        rcases List.mem_cons.mp hx with hx | hx
        · rw [hx, h.1]
        · exact ih (by rw [hc, h.2]) x hx

theorem collect_total (l : List (Except Err (List Problem))) (h : ∀ x ∈ l, ∃ ps, x = .ok ps) :
    ∃ ps, collect l = .ok ps := by
  induction l with
  | nil => exact ⟨[], rfl⟩
  | cons hd tl ih =>
    obtain ⟨ps, hps⟩ := h hd (by simp)
    obtain ⟨qs, hqs⟩ := ih (fun x hx => h x (List.mem_cons_of_mem _ hx))
    exact ⟨ps ++ qs, by simp [hps, collect, hqs]⟩

theorem isSubclass_true (env : TyEnv) (ot it : Ty) (h : isSubclass env ot it = .ok true) : Compatible env ot it := by
  unfold isSubclass at h
  unfold Compatible
  split at h
  · rename_i hc
    rcases hc with hc | hc | hc | hc
    · exact Or.inl hc
    · exact Or.inr (Or.inl hc)
    · exact Or.inr (Or.inr (Or.inl hc))
    · exact Or.inr (Or.inr (Or.inr (Or.inl hc)))
  · split at h
    · simp only [Except.ok.injEq] at h
      exact Or.inr (Or.inr (Or.inr (Or.inr h)))
    · cases h

theorem edgeErrors_ok_nil (env : TyEnv) (nodes : List (String × Task)) (e : Edge)
    (h : edgeErrors env nodes e = .ok []) : EdgeOk env nodes e := by
  unfold edgeErrors at h
  unfold EdgeOk
  cases hs : lookup nodes e.src with
  | none =>
    simp only [hs] at h
    cases hk : lookup nodes e.sink with
    | none => simp [hk] at h
    | some kt =>
      simp only [hk] at h
      cases hi : e.into with
      | ps i => simp [hi] at h
      | kw p =>
        simp only [hi] at h
        cases ht : truthy (lookup kt.defn.inputSchema p) with
        | none => simp [ht] at h
        | some it => simp [ht] at h
  | some st =>
    simp only [hs] at h
    cases ho : truthy (lookup st.defn.outputSchema e.out) with
    | none =>
      simp only [ho] at h
      cases hk : lookup nodes e.sink with
      | none => simp [hk] at h
      | some kt =>
        simp only [hk] at h
        cases hi : e.into with
        | ps i => simp [hi] at h
        | kw p =>
          simp only [hi] at h
          cases ht : truthy (lookup kt.defn.inputSchema p) with
          | none => simp [ht] at h
          | some it => simp [ht] at h
    | some ot =>
      simp only [ho] at h
      have hot := truthy_some _ _ ho
      cases hk : lookup nodes e.sink with
      | none => simp [hk] at h
      | some kt =>
        simp only [hk] at h
        refine ⟨st, ot, kt, rfl, hot, rfl, ?_⟩
        intro p hp
        simp only [hp] at h
        cases ht : truthy (lookup kt.defn.inputSchema p) with
        | none => simp [ht] at h
        | some it =>
          simp only [ht] at h
          refine ⟨it, truthy_some _ _ ht, ?_⟩
          cases hc : isSubclass env ot it with
          | error err => simp [hc] at h
          | ok bb =>
            cases bb with
            | true => exact isSubclass_true env ot it hc
            | false => simp [hc] at h

theorem staticCheck_ok_nil (env : TyEnv) (n : String) (t : Task) (k : String) (v : Val)
    (h : staticCheck env n t k v = .ok []) : StaticOk env t k v := by
  intro ty hty
  unfold staticCheck at h
  simp only [hty] at h
  unfold isInstance at h
  by_cases h1 : ty = anyTy ∨ ty ∈ skipped
  · rcases h1 with h1 | h1
    · exact Or.inl h1
    · exact Or.inr (Or.inl h1)
  · simp only [h1, ↓reduceIte] at h
    by_cases h2 : env.evaluable ty = true
    · simp only [h2, ↓reduceIte] at h
      cases hs : env.subclass v.ty ty with
      | true => exact Or.inr (Or.inr rfl)
      | false => simp [hs] at h
    · simp [h2] at h

theorem isSubclass_total (env : TyEnv) (ot it : Ty) (h1 : TyKnown env ot) (h2 : TyKnown env it) :
    ∃ b, isSubclass env ot it = .ok b := by
  unfold isSubclass
  split
  · exact ⟨true, rfl⟩
  · rename_i hc
    have e1 : env.evaluable ot = true := by
      rcases h1 with h1 | h1
      · exact absurd (Or.inr (Or.inl h1)) hc
      · exact h1
    have e2 : env.evaluable it = true := by
      rcases h2 with h2 | h2
      · exact absurd (Or.inl h2) hc
      · exact h2
    simp [e1, e2]

theorem isInstance_total (env : TyEnv) (v : Val) (ty : Ty) (h : TyKnown env ty) :
    ∃ b, isInstance env v ty = .ok b := by
  unfold isInstance
  split
  · exact ⟨true, rfl⟩
  · rename_i hc
    rcases h with h | h
    · exact absurd (Or.inl h) hc
    · simp [h]

theorem staticCheck_total (env : TyEnv) (n : String) (t : Task) (k : String) (v : Val)
    (h : TaskKnown env t) : ∃ ps, staticCheck env n t k v = .ok ps := by
  unfold staticCheck
  cases hl : lookup t.defn.inputSchema k with
  | none => exact ⟨[], rfl⟩
  | some ty =>
    obtain ⟨b, hb⟩ := isInstance_total env v ty (h.1 k ty (lookup_mem _ _ _ hl))
    cases b <;> simp [hb]

theorem edgeErrors_total (env : TyEnv) (nodes : List (String × Task)) (e : Edge)
    (h : NodesKnown env nodes) : ∃ ps, edgeErrors env nodes e = .ok ps := by
  unfold edgeErrors
  cases hk : lookup nodes e.sink with
  | none => simp
  | some kt =>
    cases hi : e.into with
    | ps i => simp
    | kw p =>
      cases ht : truthy (lookup kt.defn.inputSchema p) with
      | none => simp [ht]
      | some it =>
        have kit : TyKnown env it :=
          (h e.sink kt (lookup_mem _ _ _ hk)).1 p it (lookup_mem _ _ _ (truthy_some _ _ ht))
        cases hs : lookup nodes e.src with
        | none => simp [ht]
        | some st =>
          cases ho : truthy (lookup st.defn.outputSchema e.out) with
          | none => simp [ht, ho]
          | some ot =>
            have kot : TyKnown env ot :=
              (h e.src st (lookup_mem _ _ _ hs)).2 e.out ot (lookup_mem _ _ _ (truthy_some _ _ ho))
            obtain ⟨b, hb⟩ := isSubclass_total env ot it kot kit
            cases b <;> simp [ht, ho, hb]

theorem build_total (env : TyEnv) (b : JobBuilder) (h : NodesKnown env b.nodes) :
    (∃ j, build env b = .ok (.job j)) ∨ (∃ l, l ≠ [] ∧ build env b = .ok (.problems l)) := by
  have hs : ∃ s, collect (staticChecks env b.nodes) = .ok s := by
    apply collect_total
    intro x hx
    simp only [staticChecks, List.mem_flatMap, List.mem_map] at hx
    obtain ⟨nt, hnt, kv, _, rfl⟩ := hx
    exact staticCheck_total env nt.1 nt.2 kv.1 kv.2 (h nt.1 nt.2 hnt)
  have he : ∃ es, collect (b.edges.map (edgeErrors env b.nodes)) = .ok es := by
    apply collect_total
    intro x hx
    simp only [List.mem_map] at hx
    obtain ⟨e, _, rfl⟩ := hx
    exact edgeErrors_total env b.nodes e h
  obtain ⟨s, hs⟩ := hs
  obtain ⟨es, he⟩ := he
  unfold build
  simp only [hs, he]
  by_cases hn : s ++ es ++ fanInErrors b.edges [] = []
  · left; exact ⟨{ tasks := b.nodes, edges := b.edges }, by rw [if_pos hn]⟩
  · right; exact ⟨s ++ es ++ fanInErrors b.edges [], hn, by rw [if_neg hn]⟩

/-- what an accepting `build` has established -/
theorem build_job_inv (env : TyEnv) (b : JobBuilder) (j : Job) (h : build env b = .ok (.job j)) :
    collect (staticChecks env b.nodes) = .ok [] ∧ collect (b.edges.map (edgeErrors env b.nodes)) = .ok [] ∧
    fanInErrors b.edges [] = [] ∧ j = { tasks := b.nodes, edges := b.edges } := by
  unfold build at h
  cases hs : collect (staticChecks env b.nodes) with
  | error e => simp [hs] at h
  | ok s =>
    simp only [hs] at h
    cases he : collect (b.edges.map (edgeErrors env b.nodes)) with
    | error e => simp [he] at h
    | ok es =>
      simp only [he] at h
      by_cases hn : s ++ es ++ fanInErrors b.edges [] = []
      · rw [if_pos hn] at h
        simp only [Except.ok.injEq, Result.job.injEq] at h
        simp only [List.append_eq_nil_iff] at hn
        refine ⟨by rw [hn.1.1], by rw [hn.1.2], hn.2, h.symm⟩
      · rw [if_neg hn] at h
        simp at h

/-- no fan-in problem ⇔ no edge's sink input was fed before, and the sink inputs are pairwise distinct -/
theorem fanInErrors_nil (es : List Edge) (fed : List (String × Into)) :
    fanInErrors es fed = [] ↔ (∀ e ∈ es, e.sinkInput ∉ fed) ∧ (es.map Edge.sinkInput).Nodup := by
  induction es generalizing fed with
  | nil => simp [fanInErrors]
  | cons e es ih =>
    simp only [fanInErrors, List.append_eq_nil_iff, ih, List.map_cons, List.nodup_cons, List.mem_cons,
      forall_eq_or_imp, List.mem_map]
    constructor
    · rintro ⟨h1, h2, h3⟩
      have h1' : e.sinkInput ∉ fed := by
        intro hc; simp [hc] at h1
      refine ⟨⟨h1', fun x hx hc => h2 x hx (Or.inr hc)⟩, ?_, h3⟩
      rintro ⟨x, hx, hxe⟩
      exact h2 x hx (Or.inl hxe)
    · rintro ⟨⟨h1, h2⟩, h3, h4⟩
      refine ⟨by simp [h1], ?_, h4⟩
      intro x hx hc
      rcases hc with hc | hc
      · exact h3 ⟨x, hx, hc⟩
      · exact h2 x hx hc

theorem fromCallable_known (env : TyEnv) (s : Sig) (environment : List String) (h : SigKnown env s) :
    TaskKnown env (fromCallable s environment) := by
  constructor
  · intro k ty hm
    simp only [fromCallable, dictOf] at hm
    rcases mem_update _ _ _ hm with hm | hm
    · cases hm
    · simp only [List.mem_map, List.mem_filter] at hm
      obtain ⟨p, ⟨hp, _⟩, heq⟩ := hm
      have := h.1 p hp
      simp only [Prod.mk.injEq] at heq
      rw [← heq.2]; exact this
  · intro k ty hm
    simp only [fromCallable, List.mem_singleton, Prod.mk.injEq] at hm
    rw [hm.2]; exact h.2

/-- the store invariant behind `c19_never_crashes_run` -/
def ObjOk (env : TyEnv) : Obj → Prop
  | .task t => TaskKnown env t
  | .builder b => NodesKnown env b.nodes
  | .result r => ∃ x, r = .ok x
  | .invalid => True

theorem evalOp_ok (env : TyEnv) (store : List Obj) (op : Op) (hs : ∀ o ∈ store, ObjOk env o)
    (hop : OpKnown env op) : ObjOk env (evalOp env store op) := by
  cases op with
  | fromCallable s environment => exact fromCallable_known env s environment hop
  | fromEntrypoint ep schema out environment =>
    constructor
    · intro k ty hm
      simp only [fromEntrypoint, dictOf] at hm
      rcases mem_update _ _ _ hm with hm | hm
      · cases hm
      · exact hop.1 k ty hm
    · intro k ty hm
      simp only [fromEntrypoint, List.mem_singleton, Prod.mk.injEq] at hm
      rw [hm.2]; exact hop.2
  | withValues t args kwargs =>
    simp only [evalOp]
    cases h : store[t]? with
    | none => trivial
    | some o =>
      cases o with
      | task tk =>
        have := hs _ (List.mem_of_getElem? h)
        exact this
      | _ => trivial
  | newBuilder =>
    intro n t hm
    cases hm
  | withNode b name t =>
    simp only [evalOp]
    cases hb : store[b]? with
    | none => trivial
    | some ob =>
      cases ob with
      | builder jb =>
        cases ht : store[t]? with
        | none => trivial
        | some ot =>
          cases ot with
          | task tk =>
            have h1 : NodesKnown env jb.nodes := hs _ (List.mem_of_getElem? hb)
            have h2 : TaskKnown env tk := hs _ (List.mem_of_getElem? ht)
            intro n t' hm
            simp only [withNode] at hm
            rcases mem_dset _ _ _ _ hm with hm | hm
            · exact h1 n t' hm
            · simp only [Prod.mk.injEq] at hm; rw [hm.2]; exact h2
          | _ => trivial
      | _ => trivial
  | withEdge b source sink into frum =>
    simp only [evalOp]
    cases hb : store[b]? with
    | none => trivial
    | some ob =>
      cases ob with
      | builder jb =>
        have h1 : NodesKnown env jb.nodes := hs _ (List.mem_of_getElem? hb)
        cases frum <;> exact h1
      | _ => trivial
  | build b =>
    simp only [evalOp]
    cases hb : store[b]? with
    | none => trivial
    | some ob =>
      cases ob with
      | builder jb =>
        have h1 : NodesKnown env jb.nodes := hs _ (List.mem_of_getElem? hb)
        rcases build_total env jb h1 with ⟨j, hj⟩ | ⟨l, _, hl⟩
        · exact ⟨_, hj⟩
        · exact ⟨_, hl⟩
      | _ => trivial

theorem run_ok (env : TyEnv) (ops : List Op) (store : List Obj) (hs : ∀ o ∈ store, ObjOk env o)
    (hops : ∀ op ∈ ops, OpKnown env op) : ∀ o ∈ run env store ops, ObjOk env o := by
  induction ops generalizing store with
  | nil => simpa [run] using hs
  | cons op ops ih =>
    simp only [run, List.foldl_cons]
    apply ih
    · intro o ho
      simp only [step, List.mem_append, List.mem_singleton] at ho
      rcases ho with ho | ho
      · exact hs o ho
      · rw [ho]; exact evalOp_ok env store op hs (hops op (by simp))
    · intro op' h'; exact hops op' (List.mem_cons_of_mem _ h')

theorem run_prefix (env : TyEnv) (ops : List Op) (store : List Obj) :
    ∃ rest, run env store ops = store ++ rest := by
  induction ops generalizing store with
  | nil => exact ⟨[], by simp [run]⟩
  | cons op ops ih =>
    obtain ⟨rest, hr⟩ := ih (step env store op)
    refine ⟨evalOp env store op :: rest, ?_⟩
    simp only [run, List.foldl_cons] at hr ⊢
    rw [hr]; simp [step]

end Aux

open Aux

/-! ### property theorems -/

/-- **Accepted ⇒ well formed.**  If `build` accepts, the job carries exactly the builder's
tasks and edges, every edge starts at an existing output of an existing task, ends at an
existing task and (keyword edge) an existing parameter of compatible declared type, and no two
edges end at the same input of the same task. -/
theorem c19_accepted_wellformed (env : TyEnv) (b : JobBuilder) (j : Job)
    (h : build env b = .ok (.job j)) :
    j.tasks = b.nodes ∧ j.edges = b.edges ∧ (∀ e ∈ j.edges, EdgeOk env j.tasks e) ∧
    (j.edges.map Edge.sinkInput).Nodup := by
  obtain ⟨_, he, hf, rfl⟩ := build_job_inv env b j h
  refine ⟨rfl, rfl, ?_, ((fanInErrors_nil b.edges []).mp hf).2⟩
  intro e hmem
  exact edgeErrors_ok_nil env b.nodes e (collect_ok_nil _ he _ (List.mem_map_of_mem hmem))

/-- Accepted jobs also have every keyword static of a declared parameter of the declared type. -/
theorem c19_accepted_statics (env : TyEnv) (b : JobBuilder) (j : Job)
    (h : build env b = .ok (.job j)) :
    ∀ n t, (n, t) ∈ j.tasks → ∀ k v, (k, v) ∈ t.kw → StaticOk env t k v := by
  obtain ⟨hs, _, _, rfl⟩ := build_job_inv env b j h
  intro n t hnt k v hkv
  apply staticCheck_ok_nil env n t k v
  apply collect_ok_nil _ hs
  simp only [staticChecks, List.mem_flatMap, List.mem_map]
  exact ⟨(n, t), hnt, (k, v), hkv, rfl⟩

/-- **Rejected ⇐ an input fed twice.** Whenever two edges of the description end at the same input of
the same task, `build` does not return a job (it returns problems, or raises for a non-evaluable type). -/
theorem c19_fed_twice_rejected (env : TyEnv) (b : JobBuilder)
    (h : ¬ (b.edges.map Edge.sinkInput).Nodup) : ∀ j, build env b ≠ .ok (.job j) := by
  intro j hj
  exact h (by have := (c19_accepted_wellformed env b j hj); rw [this.2.1] at this; exact this.2.2.2)

/-- **Never crashes.**  For a builder whose tasks declare only absent or evaluable (builtin)
types, `build` returns a job or a NON-EMPTY list of problems — never an exception (`.error`). -/
theorem c19_never_crashes (env : TyEnv) (b : JobBuilder) (h : NodesKnown env b.nodes) :
    (∃ j, build env b = .ok (.job j)) ∨ (∃ l, l ≠ [] ∧ build env b = .ok (.problems l)) :=
  build_total env b h

/-- **Never crashes, for every program.**  Whatever sequence of builder calls is made
(`from_callable` on signatures with absent/builtin annotations, `with_values` with any values,
`with_node`, `with_edge` with existing or dangling endpoints, `build`), no `build` raises. -/
theorem c19_never_crashes_run (env : TyEnv) (ops : List Op) (hops : ∀ op ∈ ops, OpKnown env op) :
    ∀ r, Obj.result r ∈ run env [] ops → ∃ x, r = .ok x := by
  intro r hr
  exact run_ok env ops [] (by intro o ho; cases ho) hops _ hr

/-- **Values.**  `with_values(*args, **kwargs)` puts `args[i]` under position `i`, the last
binding of `k` in `kwargs` under `k`, keeps every other position / name as it was (so later
calls override earlier ones and defaults), and does not touch the definition. -/
theorem c19_values (t : Task) (args : List Val) (kwargs : List (String × Val)) :
    (withValues t args kwargs).defn = t.defn ∧
    (∀ i, lookup (withValues t args kwargs).ps i =
      match args[i]? with | some v => some v | none => lookup t.ps i) ∧
    (∀ k, lookup (withValues t args kwargs).kw k =
      match lastBinding kwargs k with | some v => some v | none => lookup t.kw k) := by
  refine ⟨rfl, ?_, ?_⟩
  · intro i
    simp only [withValues, lookup_update, lastBinding_enumFrom, Nat.zero_le, ↓reduceIte, Nat.sub_zero]
    cases args[i]? <;> rfl
  · intro k
    simp only [withValues, lookup_update]
    cases lastBinding kwargs k <;> rfl

/-- a second `with_values` overrides the first where it binds, and only there -/
theorem c19_values_override (t : Task) (a1 a2 : List Val) (k1 k2 : List (String × Val)) :
    (∀ i v, a2[i]? = some v → lookup (withValues (withValues t a1 k1) a2 k2).ps i = some v) ∧
    (∀ i, a2[i]? = none → lookup (withValues (withValues t a1 k1) a2 k2).ps i = lookup (withValues t a1 k1).ps i) ∧
    (∀ k v, lastBinding k2 k = some v → lookup (withValues (withValues t a1 k1) a2 k2).kw k = some v) ∧
    (∀ k, lastBinding k2 k = none → lookup (withValues (withValues t a1 k1) a2 k2).kw k = lookup (withValues t a1 k1).kw k) := by
  refine ⟨?_, ?_, ?_, ?_⟩
  · intro i v h; rw [(c19_values _ a2 k2).2.1 i, h]
  · intro i h; rw [(c19_values _ a2 k2).2.1 i, h]
  · intro k v h; rw [(c19_values _ a2 k2).2.2 k, h]
  · intro k h; rw [(c19_values _ a2 k2).2.2 k, h]

/-- defaults of keyword-capable parameters are the initial keyword statics; the input schema
lists exactly those parameters with their declared types (parameter names are unique in Python) -/
theorem c19_from_callable (s : Sig) (k : String) :
    lookup (fromCallable s).kw k =
      lastBinding ((s.params.filter (fun p => p.kind.byKeyword)).filterMap (fun p => p.dflt.map (fun d => (p.name, d)))) k ∧
    lookup (fromCallable s).defn.inputSchema k =
      lastBinding ((s.params.filter (fun p => p.kind.byKeyword)).map (fun p => (p.name, type2str p.ann))) k ∧
    (fromCallable s).ps = [] := by
  refine ⟨?_, ?_, rfl⟩
  · simp only [fromCallable, dictOf, lookup_update, lookup]
    cases lastBinding _ k <;> rfl
  · simp only [fromCallable, dictOf, lookup_update, lookup]
    cases lastBinding _ k <;> rfl

/-- the task given to `with_node` (with the values bound to it) is the task of that name in the
accepted job; other names are as in the builder before -/
theorem c19_values_in_job (env : TyEnv) (b : JobBuilder) (n : String) (t : Task) (j : Job)
    (h : build env (withNode b n t) = .ok (.job j)) :
    lookup j.tasks n = some t ∧ ∀ m, m ≠ n → lookup j.tasks m = lookup b.nodes m := by
  have := (c19_accepted_wellformed env _ j h).1
  rw [this]
  refine ⟨by simp [withNode, lookup_dset], ?_⟩
  intro m hm
  simp [withNode, lookup_dset, Ne.symm hm]

/-- **Persistence (of the model's store).**  `run` only appends: objects created earlier (tasks,
builders, results of `build`, i.e. jobs) are what they were, whatever is done later. The model holds
values, not references, so this is a fact about the MODEL; that the real builders never write to an
earlier object is what the correspondence check observes (every earlier real object is re-read after
every call and compared with this store). -/
theorem c19_persistent (env : TyEnv) (store : List Obj) (ops : List Op) (i : Nat) (h : i < store.length) :
    (run env store ops)[i]? = store[i]? := by
  obtain ⟨rest, hr⟩ := run_prefix env ops store
  rw [hr, List.getElem?_append_left h]

namespace Aux
/-- (definitional; not counted as a property theorem) adding nodes/edges yields a builder that
differs from the original only by that node / edge -/
theorem persistent_builder (b : JobBuilder) (n : String) (t : Task) (src snk frum : String) (into : Into) :
    (withNode b n t).edges = b.edges ∧ (withEdge b src snk into frum).nodes = b.nodes ∧
    (withEdge b src snk into frum).edges = b.edges ++ [⟨src, frum, snk, into⟩] := ⟨rfl, rfl, rfl⟩
end Aux

/-! ### the chain builder → scheduler: an accepted job satisfies what C16 (and C01–C04) assume -/

/-- the job as `cascade.scheduler.graph.precompute` reads it (Model/Presched.lean): task ids with the
names of their outputs, edges with their sink input -/
def toPresched (j : Job) : Presched.Job String String :=
  { tasks := j.tasks.map (fun nt => (nt.1, nt.2.defn.outputSchema.map (·.1)))
    edges := j.edges.map (fun e =>
      { src := e.src, out := e.out, dst := e.sink,
        key := match e.into with | .kw p => .kw p | .ps i => .ps i }) }

namespace Aux

def keysOf {α : Type} (d : List (String × α)) : List String := d.map (·.1)

theorem keysOf_dset {α : Type} (d : List (String × α)) (k : String) (v : α) (h : (keysOf d).Nodup) :
    (keysOf (dset d k v)).Nodup := by
  induction d with
  | nil => simp [dset, keysOf]
  | cons hd tl ih =>
    obtain ⟨a, b⟩ := hd
    simp only [keysOf, List.map_cons, List.nodup_cons] at h
    simp only [dset]
    by_cases hk : a = k
    · subst hk
      simpa [keysOf] using h
    · simp only [hk, ↓reduceIte, keysOf, List.map_cons, List.nodup_cons]
      refine ⟨?_, ih h.2⟩
      intro hm
      obtain ⟨x, hx, hxa⟩ := List.mem_map.mp hm
      rcases mem_dset _ _ _ _ hx with hx | hx
      · exact h.1 (List.mem_map.mpr ⟨x, hx, hxa⟩)
      · rw [hx] at hxa; exact hk hxa.symm

theorem lookup_some_mem_keys {α : Type} (d : List (String × α)) (k : String) (v : α) (h : lookup d k = some v) :
    k ∈ keysOf d := List.mem_map.mpr ⟨(k, v), lookup_mem d k v h, rfl⟩

theorem key_inj (a b : Into) (h : (match a with | .kw p => Presched.Key.kw p | .ps i => Presched.Key.ps i) =
    (match b with | .kw p => Presched.Key.kw p | .ps i => Presched.Key.ps i)) : a = b := by
  cases a <;> cases b <;> simp_all

theorem eq_of_nodup_map {α β : Type} (f : α → β) : ∀ (l : List α), (l.map f).Nodup →
    ∀ a ∈ l, ∀ b ∈ l, f a = f b → a = b := by
  intro l
  induction l with
  | nil => intro _ a ha; cases ha
  | cons x xs ih =>
    intro h a ha b hb hab
    simp only [List.map_cons, List.nodup_cons, List.mem_map, not_exists, not_and] at h
    rcases List.mem_cons.mp ha with ha1 | ha1
    · rcases List.mem_cons.mp hb with hb1 | hb1
      · rw [ha1, hb1]
      · rw [ha1] at hab; exact absurd hab.symm (h.1 b hb1)
    · rcases List.mem_cons.mp hb with hb1 | hb1
      · rw [hb1] at hab; exact absurd hab (h.1 a ha1)
      · exact ih h.2 a ha1 b hb1 hab

/-- the store invariant behind `c19_accepted_presched_wf_run`: builders have distinct node names -/
def ObjNames : Obj → Prop
  | .builder b => (keysOf b.nodes).Nodup
  | _ => True

end Aux

/-- **Accepted ⇒ what the scheduler assumes.**  For a builder with distinct node names (every builder
made by `with_node` from the empty one: `c19_accepted_presched_wf_run`), an accepted job read as a
scheduler job is well-formed in the sense of C16 (`Presched.Job.WF`: task ids distinct, both ends of
every edge are tasks) and no sink input has two sources (`Presched.Job.UniqueInputs`, the hypothesis
under which the executor's `param_source` agrees with the scheduler's `edge_i`). So every `c16_*`
theorem applies to it as soon as it is acyclic — which `build` does NOT check
(`c19_accepted_may_be_cyclic`). -/
theorem c19_accepted_presched_wf (env : TyEnv) (b : JobBuilder) (j : Job)
    (hk : (Aux.keysOf b.nodes).Nodup) (h : build env b = .ok (.job j)) :
    (toPresched j).WF ∧ (toPresched j).UniqueInputs := by
  obtain ⟨ht, he, hok, hnd⟩ := c19_accepted_wellformed env b j h
  refine ⟨⟨?_, ?_, ?_⟩, ?_⟩
  · show ((toPresched j).tasks.map (·.1)).Nodup
    simp only [toPresched, List.map_map]
    rw [ht]
    exact hk
  · intro e he'
    simp only [toPresched, List.mem_map] at he'
    obtain ⟨e0, he0, rfl⟩ := he'
    obtain ⟨st, ot, kt, h1, _, _, _⟩ := hok e0 he0
    show e0.src ∈ (toPresched j).tasks.map (·.1)
    simp only [toPresched, List.map_map]
    exact lookup_some_mem_keys _ _ _ h1
  · intro e he'
    simp only [toPresched, List.mem_map] at he'
    obtain ⟨e0, he0, rfl⟩ := he'
    obtain ⟨st, ot, kt, _, _, h3, _⟩ := hok e0 he0
    show e0.sink ∈ (toPresched j).tasks.map (·.1)
    simp only [toPresched, List.map_map]
    exact lookup_some_mem_keys _ _ _ h3
  · intro e1 h1 e2 h2 hd hkey
    simp only [toPresched, List.mem_map] at h1 h2
    obtain ⟨a, ha, rfl⟩ := h1
    obtain ⟨c, hc, rfl⟩ := h2
    simp only at hd hkey
    have hsi : a.sinkInput = c.sinkInput := by
      unfold Edge.sinkInput
      rw [hd, key_inj _ _ hkey]
    have hac : a = c := eq_of_nodup_map Edge.sinkInput _ hnd a ha c hc hsi
    subst hac
    exact ⟨rfl, rfl⟩

/-- …for every program of builder calls: every job any `build` returns is well-formed for the scheduler. -/
theorem c19_accepted_presched_wf_run (env : TyEnv) (ops : List Op) :
    ∀ j, Obj.result (.ok (.job j)) ∈ run env [] ops → (toPresched j).WF ∧ (toPresched j).UniqueInputs := by
  -- invariant: builders have distinct names, accepted jobs are well-formed
  let Good : Obj → Prop := fun o => ObjNames o ∧
    (∀ j, o = Obj.result (.ok (.job j)) → (toPresched j).WF ∧ (toPresched j).UniqueInputs)
  have step_ok : ∀ (store : List Obj) (op : Op), (∀ o ∈ store, Good o) → Good (evalOp env store op) := by
    intro store op hs
    have names : ∀ (i : Nat) (jb : JobBuilder), store[i]? = some (Obj.builder jb) → (keysOf jb.nodes).Nodup :=
      fun i jb hi => (hs _ (List.mem_of_getElem? hi)).1
    cases op with
    | fromCallable s e => exact ⟨trivial, by intro j hj; cases hj⟩
    | fromEntrypoint a b c d => exact ⟨trivial, by intro j hj; cases hj⟩
    | withValues t args kwargs =>
      simp only [evalOp]
      cases h : store[t]? with
      | none => exact ⟨trivial, by intro j hj; cases hj⟩
      | some o => cases o <;> exact ⟨trivial, by intro j hj; cases hj⟩
    | newBuilder => exact ⟨by simp [evalOp, ObjNames, JobBuilder.empty, keysOf], by intro j hj; cases hj⟩
    | withNode b name t =>
      simp only [evalOp]
      cases hb : store[b]? with
      | none => exact ⟨trivial, by intro j hj; cases hj⟩
      | some ob =>
        cases ob with
        | builder jb =>
          cases ht : store[t]? with
          | none => exact ⟨trivial, by intro j hj; cases hj⟩
          | some ot =>
            cases ot with
            | task tk => exact ⟨keysOf_dset _ _ _ (names b jb hb), by intro j hj; cases hj⟩
            | _ => exact ⟨trivial, by intro j hj; cases hj⟩
        | _ => exact ⟨trivial, by intro j hj; cases hj⟩
    | withEdge b source sink into frum =>
      simp only [evalOp]
      cases hb : store[b]? with
      | none => exact ⟨trivial, by intro j hj; cases hj⟩
      | some ob =>
        cases ob with
        | builder jb => cases frum <;> exact ⟨names b jb hb, by intro j hj; cases hj⟩
        | _ => exact ⟨trivial, by intro j hj; cases hj⟩
    | build b =>
      simp only [evalOp]
      cases hb : store[b]? with
      | none => exact ⟨trivial, by intro j hj; cases hj⟩
      | some ob =>
        cases ob with
        | builder jb =>
          refine ⟨trivial, ?_⟩
          intro j hj
          simp only [Obj.result.injEq] at hj
          exact c19_accepted_presched_wf env jb j (names b jb hb) hj
        | _ => exact ⟨trivial, by intro j hj; cases hj⟩
  have run_ok' : ∀ (ops : List Op) (store : List Obj), (∀ o ∈ store, Good o) → ∀ o ∈ run env store ops, Good o := by
    intro ops
    induction ops with
    | nil => intro store hs; simpa [run] using hs
    | cons op ops ih =>
      intro store hs
      simp only [run, List.foldl_cons]
      apply ih
      intro o ho
      simp only [step, List.mem_append, List.mem_singleton] at ho
      rcases ho with ho | ho
      · exact hs o ho
      · rw [ho]; exact step_ok store op hs
  intro j hj
  exact (run_ok' ops [] (by intro o ho; cases ho) _ hj).2 j rfl

/-- What `build` does NOT establish: acyclicity. A two-task cycle is accepted; read as a scheduler
job it is not a DAG (`Presched.IsDag` is the explicit hypothesis of the `c16_*` theorems and of the
controller model's `WF.topo`; nothing between the builder and `precompute` rejects a cycle). -/
theorem c19_accepted_may_be_cyclic :
    ∃ (b : JobBuilder) (j : Job), (Aux.keysOf b.nodes).Nodup ∧ build builtinEnv b = .ok (.job j) ∧
      ¬ Presched.IsDag (toPresched j) := by
  let t : Task := fromCallable { params := [⟨"x", .posOrKw, .absent, none⟩], ret := .absent }
  let b : JobBuilder := withEdge (withEdge (withNode (withNode JobBuilder.empty "a" t) "b" t) "a" "b" (.kw "x")) "b" "a" (.kw "x")
  refine ⟨b, { tasks := b.nodes, edges := b.edges }, by decide, by decide, ?_⟩
  rintro ⟨rk, hrk⟩
  have h1 := hrk ⟨"a", "0", "b", .kw "x"⟩ (by decide)
  have h2 := hrk ⟨"b", "0", "a", .kw "x"⟩ (by decide)
  simp only at h1 h2
  omega

/-! ### non-vacuity -/

def exSrc : Task := fromCallable { params := [⟨"x", .posOrKw, .absent, none⟩], ret := .named "int" }
def exSnk : Task := fromCallable
  { params := [⟨"a", .posOrKw, .named "int", none⟩, ⟨"b", .posOrKw, .named "str", some ⟨"str", "'q'"⟩⟩,
               ⟨"c", .kwOnly, .absent, some ⟨"int", "3"⟩⟩, ⟨"r", .varPos, .absent, none⟩], ret := .nameless }
def exB : JobBuilder := withNode (withNode JobBuilder.empty "s" (withValues exSrc [⟨"str", "'xy'"⟩] [])) "k" exSnk

-- accepted: int output into int parameter
example : build builtinEnv (withEdge exB "s" "k" (.kw "a")) =
    .ok (.job { tasks := exB.nodes, edges := [⟨"s", "0", "k", .kw "a"⟩] }) := by decide
-- rejected with the problem list: incompatible types, missing sink task (source fine), missing output
example : build builtinEnv (withEdge (withEdge (withEdge exB "s" "k" (.kw "b")) "s" "nope" (.kw "a")) "s" "k" (.ps 0) "1")
    = .ok (.problems [.incompatible ⟨"s", "0", "k", .kw "b"⟩, .toNoTask "nope", .fromNoParam "1"]) := by decide
-- rejected: parameter `a` of `k` fed by two edges (the second is reported); two edges into DIFFERENT inputs are fine
example : build builtinEnv (withEdge (withEdge exB "s" "k" (.kw "a")) "s" "k" (.kw "a"))
    = .ok (.problems [.fedTwice ⟨"s", "0", "k", .kw "a"⟩]) := by decide
example : build builtinEnv (withEdge (withEdge exB "s" "k" (.kw "a")) "s" "k" (.ps 1)) =
    .ok (.job { tasks := exB.nodes, edges := [⟨"s", "0", "k", .kw "a"⟩, ⟨"s", "0", "k", .ps 1⟩] }) := by decide
-- the accepted job as the scheduler reads it
example : (toPresched { tasks := exB.nodes, edges := [⟨"s", "0", "k", .kw "a"⟩] }).edges = [⟨"s", "0", "k", .kw "a"⟩] ∧
    (toPresched { tasks := exB.nodes, edges := [] }).tasks = [("s", ["0"]), ("k", ["0"])] := by decide
-- `-> None` (an annotation object without `__name__`) is an unvalidated output
example : exSnk.defn.outputSchema = [("0", "Any")] := by decide
-- the hypothesis of c19_never_crashes holds for it
example : NodesKnown builtinEnv exB.nodes := by
  intro n t h
  simp only [exB, withNode, dset, JobBuilder.empty] at h
  simp at h
  rcases h with ⟨_, rfl⟩ | ⟨_, rfl⟩
  · exact fromCallable_known builtinEnv { params := [⟨"x", .posOrKw, .absent, none⟩], ret := .named "int" } [] (by decide)
  · exact fromCallable_known builtinEnv _ [] (by decide)
-- a crash exists in the model when the hypothesis fails: a class name that is not evaluable
example : build builtinEnv (withEdge (withNode (withNode JobBuilder.empty "s"
      (fromCallable { params := [], ret := .named "Foo" })) "k" exSnk) "s" "k" (.kw "a")) = .error .nameError := by decide
-- values: positional 'xy' is under position 0 (not {'x': 'y'}), a later call overrides, defaults stay
example : lookup (withValues exSrc [⟨"str", "'xy'"⟩] []).ps 0 = some ⟨"str", "'xy'"⟩ := by decide
example : lookup (withValues (withValues exSnk [⟨"int", "7"⟩] [("b", ⟨"str", "'u'"⟩)]) [⟨"int", "8"⟩] [("c", ⟨"int", "4"⟩)]).kw "b" = some ⟨"str", "'u'"⟩
    ∧ lookup (withValues (withValues exSnk [⟨"int", "7"⟩] [("b", ⟨"str", "'u'"⟩)]) [⟨"int", "8"⟩] [("c", ⟨"int", "4"⟩)]).ps 0 = some ⟨"int", "8"⟩
    ∧ lookup (withValues (withValues exSnk [⟨"int", "7"⟩] [("b", ⟨"str", "'u'"⟩)]) [⟨"int", "8"⟩] [("c", ⟨"int", "4"⟩)]).kw "c" = some ⟨"int", "4"⟩ := by decide
-- persistence on a concrete program
example : (run builtinEnv [] [.newBuilder, .fromCallable ⟨[], .absent⟩ [], .withNode 0 "a" 1, .build 2, .withEdge 2 "a" "z" (.ps 0) (some "0"), .build 4]).length = 6 := by decide
-- the default of `with_edge(frum=…)` is the output name `from_callable` declares
example : (withEdge exB "s" "k" (.kw "a")).edges = [⟨"s", "0", "k", .kw "a"⟩] ∧ exSrc.defn.outputSchema.map (·.1) = ["0"] := by decide

/-! ### audit round 2: exactly when `build` raises; no parameter name is special -/

/-- the keyword static `k` of task `t` cannot be judged without evaluating a type name outside the universe -/
def StaticNeeds (env : TyEnv) (t : Task) (k : String) : Prop :=
  ∃ ty, lookup t.defn.inputSchema k = some ty ∧ ¬ (ty = anyTy ∨ ty ∈ skipped) ∧ env.evaluable ty = false

/-- the edge `e` has both ends, is a keyword edge into an existing parameter, its two declared types are not
trivially compatible, and one of them is a type name outside the universe -/
def EdgeNeeds (env : TyEnv) (nodes : List (String × Task)) (e : Edge) : Prop :=
  ∃ st ot kt p it, lookup nodes e.src = some st ∧ truthy (lookup st.defn.outputSchema e.out) = some ot ∧
    lookup nodes e.sink = some kt ∧ e.into = .kw p ∧ truthy (lookup kt.defn.inputSchema p) = some it ∧
    ¬ (it = anyTy ∨ ot = anyTy ∨ ot = it ∨ (ot, it) ∈ legits) ∧ ¬ (env.evaluable ot = true ∧ env.evaluable it = true)

def NeedsUnknown (env : TyEnv) (b : JobBuilder) : Prop :=
  (∃ n t k v, (n, t) ∈ b.nodes ∧ (k, v) ∈ t.kw ∧ StaticNeeds env t k) ∨ (∃ e ∈ b.edges, EdgeNeeds env b.nodes e)

namespace Aux

theorem err_eq (e : Err) : e = .nameError := by cases e; rfl

theorem collect_error_iff (l : List (Except Err (List Problem))) :
    collect l = .error .nameError ↔ .error .nameError ∈ l := by
  induction l with
  | nil => simp [collect]
  | cons hd tl ih =>
    cases hd with
    | error e => cases e; simp [collect]
    | ok ps =>
      simp only [collect, List.mem_cons, reduceCtorEq, false_or]
      rw [← ih]
      cases hc : collect tl with
      | error e => cases e; simp
      | ok qs => simp

theorem isInstance_error_iff (env : TyEnv) (v : Val) (ty : Ty) :
    isInstance env v ty = .error .nameError ↔ ¬ (ty = anyTy ∨ ty ∈ skipped) ∧ env.evaluable ty = false := by
  unfold isInstance
  by_cases h1 : ty = anyTy ∨ ty ∈ skipped
  · simp [h1]
  · by_cases h2 : env.evaluable ty = true
    · simp [h1, h2]
    · simp [h1, h2]

theorem isSubclass_error_iff (env : TyEnv) (ot it : Ty) :
    isSubclass env ot it = .error .nameError ↔
      ¬ (it = anyTy ∨ ot = anyTy ∨ ot = it ∨ (ot, it) ∈ legits) ∧ ¬ (env.evaluable ot = true ∧ env.evaluable it = true) := by
  unfold isSubclass
  by_cases h1 : it = anyTy ∨ ot = anyTy ∨ ot = it ∨ (ot, it) ∈ legits
  · simp [h1]
  · by_cases h2 : env.evaluable ot = true ∧ env.evaluable it = true
    · simp [h1, h2]
    · simp [h1, h2]

theorem staticCheck_error_iff (env : TyEnv) (n : String) (t : Task) (k : String) (v : Val) :
    staticCheck env n t k v = .error .nameError ↔ StaticNeeds env t k := by
  unfold staticCheck StaticNeeds
  cases hl : lookup t.defn.inputSchema k with
  | none => simp
  | some ty =>
    simp only [Option.some.injEq, exists_eq_left']
    rw [← isInstance_error_iff env v ty]
    cases hi : isInstance env v ty with
    | error e => cases e; simp
    | ok b => cases b <;> simp

theorem edgeErrors_error_iff (env : TyEnv) (nodes : List (String × Task)) (e : Edge) :
    edgeErrors env nodes e = .error .nameError ↔ EdgeNeeds env nodes e := by
  unfold edgeErrors EdgeNeeds
  cases hk : lookup nodes e.sink with
  | none => simp
  | some kt =>
    cases hi : e.into with
    | ps i => simp
    | kw p =>
      cases ht : truthy (lookup kt.defn.inputSchema p) with
      | none => simp [ht]
      | some it =>
        cases hs : lookup nodes e.src with
        | none => simp [ht]
        | some st =>
          cases ho : truthy (lookup st.defn.outputSchema e.out) with
          | none => simp [ht, ho]
          | some ot =>
            simp only [ht, ho, Option.some.injEq, Into.kw.injEq, exists_and_left, exists_eq_left']
            rw [← isSubclass_error_iff env ot it]
            cases hc : isSubclass env ot it with
            | error er => cases er; simp
            | ok b => cases b <;> simp

end Aux

/-- **`build` raises exactly when an item needs an unknown type name.**  `build` raises (NameError, the only exception
left) if and only if some keyword static is bound to a parameter whose declared type is a name outside the universe
(and not `Any` / a skipped name), or some keyword edge with both ends present joins two declared types that are not
trivially compatible (`Any`, equal, a `legits` pair) and one of them is outside the universe.  In particular a
non-builtin annotation that no bound value and no edge touches never makes `build` raise, and every other static and
edge of such a builder is still judged - which is what the oracle's item-wise exemption relies on. -/
theorem c19_crash_iff_item_needs_unknown_type (env : TyEnv) (b : JobBuilder) :
    build env b = .error .nameError ↔ NeedsUnknown env b := by
  have hS : collect (staticChecks env b.nodes) = .error .nameError ↔
      ∃ n t k v, (n, t) ∈ b.nodes ∧ (k, v) ∈ t.kw ∧ StaticNeeds env t k := by
    rw [Aux.collect_error_iff]
    constructor
    · intro hx
      simp only [staticChecks, List.mem_flatMap, List.mem_map] at hx
      obtain ⟨nt, hnt, kv, hkv, hxe⟩ := hx
      exact ⟨nt.1, nt.2, kv.1, kv.2, hnt, hkv, (Aux.staticCheck_error_iff env _ _ _ _).mp hxe⟩
    · intro ⟨n, t, k, v, hnt, hkv, hn⟩
      simp only [staticChecks, List.mem_flatMap, List.mem_map]
      exact ⟨(n, t), hnt, (k, v), hkv, (Aux.staticCheck_error_iff env n t k v).mpr hn⟩
  have hE : collect (b.edges.map (edgeErrors env b.nodes)) = .error .nameError ↔ ∃ e ∈ b.edges, EdgeNeeds env b.nodes e := by
    rw [Aux.collect_error_iff]
    constructor
    · intro hx
      simp only [List.mem_map] at hx
      obtain ⟨e, he, hxe⟩ := hx
      exact ⟨e, he, (Aux.edgeErrors_error_iff env _ e).mp hxe⟩
    · intro ⟨e, he, hn⟩
      exact List.mem_map.mpr ⟨e, he, (Aux.edgeErrors_error_iff env _ e).mpr hn⟩
  unfold NeedsUnknown
  rw [← hS, ← hE]
  unfold build
  cases h1 : collect (staticChecks env b.nodes) with
  | error e1 => cases e1; simp
  | ok s =>
    cases h2 : collect (b.edges.map (edgeErrors env b.nodes)) with
    | error e2 => cases e2; simp
    | ok es =>
      dsimp only
      split <;> simp

namespace Aux
theorem lastBinding_isSome {κ α : Type} [DecidableEq κ] (l : List (κ × α)) (k : κ) :
    (lastBinding l k).isSome = true ↔ k ∈ l.map (·.1) := by
  induction l with
  | nil => simp [lastBinding]
  | cons hd tl ih =>
    obtain ⟨k', v⟩ := hd
    simp only [lastBinding, List.map_cons, List.mem_cons]
    cases h : lastBinding tl k with
    | some w =>
      have : k ∈ tl.map (·.1) := ih.mp (by simp [h])
      simp [this]
    | none =>
      have : ¬ k ∈ tl.map (·.1) := fun hm => by have := ih.mpr hm; simp [h] at this
      by_cases hk : k' = k
      · simp [hk]
      · simp [hk, this, Ne.symm hk]
end Aux

/-- **No parameter name is special.**  The input schema `from_callable` records has an entry for `k` if and only if `k`
is the name of a positional-or-keyword or keyword-only parameter of the signature - whatever the name is (`self`,
`cls`, `args`, ...: an unbound method `C.f`, a plain `def f(self, a)`); positional-only parameters, `*args` and
`**kwargs` never appear. (The receiver of a BOUND method is not part of the signature `inspect` reports.) -/
theorem c19_schema_is_exactly_the_keyword_parameters (s : Sig) (k : String) :
    (lookup (fromCallable s).defn.inputSchema k).isSome = true ↔ ∃ p ∈ s.params, p.kind.byKeyword = true ∧ p.name = k := by
  rw [(c19_from_callable s k).2.1, Aux.lastBinding_isSome]
  simp only [List.map_map, List.mem_map, List.mem_filter, Function.comp]
  constructor
  · intro ⟨p, ⟨hp, hb⟩, hk⟩; exact ⟨p, hp, hb, hk⟩
  · intro ⟨p, hp, hb, hk⟩; exact ⟨p, ⟨hp, hb⟩, hk⟩

-- `C.f` for `class C: def f(self, a: int, /, ...)`: the receiver is an ordinary parameter of the schema
example : (fromCallable { params := [⟨"self", .posOrKw, .absent, none⟩, ⟨"a", .posOrKw, .named "int", none⟩], ret := .absent }).defn.inputSchema
    = [("self", "Any"), ("a", "int")] := by decide
-- a declared type outside the universe that nothing touches: build does not raise, and still judges the rest
example : build builtinEnv (withEdge (withNode (withNode JobBuilder.empty "s"
      (fromCallable { params := [⟨"u", .posOrKw, .named "Foo", none⟩], ret := .named "int" })) "k" exSnk) "s" "k" (.kw "b")) =
    .ok (.problems [.incompatible ⟨"s", "0", "k", .kw "b"⟩]) := by decide
-- ... and raises as soon as an item needs it
example : NeedsUnknown builtinEnv (withEdge (withNode (withNode JobBuilder.empty "s"
      (fromCallable { params := [], ret := .named "Foo" })) "k" exSnk) "s" "k" (.kw "a")) :=
  (c19_crash_iff_item_needs_unknown_type _ _).mp (by decide)

/-! ### audit round 2: every verdict of every program -/

namespace Aux

theorem evalOp_result (env : TyEnv) (store : List Obj) (op : Op) (r : Except Err Result)
    (h : evalOp env store op = .result r) : ∃ jb, Obj.builder jb ∈ store ∧ r = build env jb := by
  cases op with
  | fromCallable s environment => simp [evalOp] at h
  | fromEntrypoint ep schema out environment => simp [evalOp] at h
  | withValues t args kwargs =>
    simp only [evalOp] at h
    split at h <;> cases h
  | newBuilder => simp [evalOp] at h
  | withNode b name t =>
    simp only [evalOp] at h
    split at h <;> cases h
  | withEdge b source sink into frum =>
    simp only [evalOp] at h
    split at h
    · split at h <;> cases h
    · cases h
  | build b =>
    simp only [evalOp] at h
    split at h
    · rename_i jb heq
      injection h with h
      exact ⟨jb, List.mem_of_getElem? heq, h.symm⟩
    · cases h

theorem run_results (env : TyEnv) (ops : List Op) (store : List Obj)
    (hs : ∀ r, Obj.result r ∈ store → ∃ jb, Obj.builder jb ∈ store ∧ r = build env jb) :
    ∀ r, Obj.result r ∈ run env store ops → ∃ jb, Obj.builder jb ∈ run env store ops ∧ r = build env jb := by
  induction ops generalizing store with
  | nil => simpa [run] using hs
  | cons op ops ih =>
    simp only [run, List.foldl_cons]
    apply ih
    intro r hr
    simp only [step, List.mem_append, List.mem_singleton] at hr ⊢
    rcases hr with hr | hr
    · obtain ⟨jb, hjb, e⟩ := hs r hr
      exact ⟨jb, Or.inl hjb, e⟩
    · obtain ⟨jb, hjb, e⟩ := evalOp_result env store op r hr.symm
      exact ⟨jb, Or.inl hjb, e⟩

end Aux

/-- **Every verdict of every program, without hypothesis on the annotations.**  Whatever sequence of builder calls is
made - also with type names outside the universe - every result of a `build` in the store is the verdict on a builder
the program made, and it is an exception (NameError) exactly when that builder has an item that needs an unknown type
name; otherwise it is a job or a problem list. (`c19_never_crashes_run` is the special case in which no task declares
such a name.) -/
theorem c19_every_verdict_run (env : TyEnv) (ops : List Op) :
    ∀ r, Obj.result r ∈ run env [] ops → ∃ jb, Obj.builder jb ∈ run env [] ops ∧ r = build env jb ∧
      (r = .error .nameError ↔ NeedsUnknown env jb) ∧ (¬ NeedsUnknown env jb → ∃ x, r = .ok x) := by
  intro r hr
  obtain ⟨jb, hjb, e⟩ := Aux.run_results env ops [] (by intro r h; cases h) r hr
  refine ⟨jb, hjb, e, ?_, ?_⟩
  · rw [e]; exact c19_crash_iff_item_needs_unknown_type env jb
  · intro hn
    rw [e]
    cases hb : build env jb with
    | ok x => exact ⟨x, rfl⟩
    | error err =>
      cases err
      exact absurd ((c19_crash_iff_item_needs_unknown_type env jb).mp hb) hn

-- non-vacuity: a program that declares the unknown name `Foo`; the builder that does not touch it gets a verdict, the one whose
-- edge needs it raises
example : (run builtinEnv [] [.fromCallable ⟨[], .named "Foo"⟩ [], .fromCallable ⟨[⟨"a", .posOrKw, .named "int", none⟩], .absent⟩ [],
      .newBuilder, .withNode 2 "s" 0, .withNode 3 "k" 1, .build 4, .withEdge 4 "s" "k" (.kw "a") none, .build 6]).map
    (fun o => match o with | .result (.error _) => 2 | .result (.ok (.job _)) => 1 | _ => 0) = [0, 0, 0, 0, 0, 1, 0, 2] := by decide

end EkwVerif.Builder
