/-
C05 for ANY cluster shape (Model/FailureN.lean: a list of executors, one controller, a network that may lose what
is in flight), built on the per-executor lemmas of Props/C05.lean:

  * `c05_never_hangs_any_shape_partial` : some executor sees a failure, it gets to run, then a delivery, then a
    controller iteration, NOTHING IS LOST in between  ⇒  `run` has returned or raised (never `starved`);
  * `c05_bounded_full_fails`            : the no-loss hypothesis cannot be dropped: if the frames of the failing
    executor are lost (it has left its loop, nobody retries them) the controller waits for ever;
  * `c05_shutdown_tears_down`           : an executor that reads ExecutorShutdown answers and tears down, no child left;
  * `c05_all_executors_torn_down`       : after the run has ended — normally or with an error, whatever was lost — every
    executor that gets to run once more is torn down and has no child left, and stays so.
-/
import EkwVerif.Props.C05
import EkwVerif.Model.FailureN

namespace EkwVerif.C05
open EkwVerif.Failure

/-- `run` has returned or raised -/
def EndedN (s : SysN) : Prop := s.ctrl.status = .endedOk ∨ s.ctrl.status = .endedErr

/-- executor `i` is alive and a failure is visible to it -/
def AtExecN (s : SysN) (i : Nat) : Prop :=
  ∃ n, s.nodes[i]? = some n ∧ n.exec.terminating = false ∧ ExecFailurePending n.exec n.inbox

/-- nothing in flight is ever lost along this schedule -/
def NoLoss (sched : List StepN) : Prop := ∀ x ∈ sched, x ≠ StepN.lose

/-- executor `i` runs, then the network delivers, then the controller receives (anything else before, between, after) -/
def FairN (i : Nat) (sched : List StepN) : Prop :=
  ∃ a b c d, sched = a ++ [StepN.tick i] ++ b ++ [StepN.deliver] ++ c ++ [StepN.ctrl] ++ d

namespace AuxN
open Aux

def NotRunningN (s : SysN) : Prop := s.ctrl.status ≠ .running
def InNetN (s : SysN) : Prop := HasFailure s.net
def AtCtrlN (s : SysN) : Prop := HasFailure s.ctrlInbox

def Stage0 (s : SysN) (i : Nat) : Prop := NotRunningN s ∨ AtExecN s i ∨ InNetN s ∨ AtCtrlN s
def Stage1 (s : SysN) : Prop := NotRunningN s ∨ InNetN s ∨ AtCtrlN s
def Stage2 (s : SysN) : Prop := NotRunningN s ∨ AtCtrlN s

theorem execTickN_frame (t : HealthTable) (s : SysN) (j : Nat) :
    (execTickN t s j).ctrl = s.ctrl ∧ (execTickN t s j).ctrlInbox = s.ctrlInbox ∧ (execTickN t s j).delivered = s.delivered ∧
    ∃ extra, (execTickN t s j).net = s.net ++ extra := by
  unfold execTickN
  cases s.nodes[j]? with
  | none => exact ⟨rfl, rfl, rfl, [], by simp⟩
  | some n => exact ⟨rfl, rfl, rfl, _, rfl⟩

theorem execTickN_other (t : HealthTable) (s : SysN) (i j : Nat) (h : j ≠ i) : (execTickN t s j).nodes[i]? = s.nodes[i]? := by
  unfold execTickN
  cases s.nodes[j]? with
  | none => rfl
  | some n => simp [List.getElem?_set_ne h]

theorem execTickN_stage0 {t : HealthTable} (hall : allRaise t = true) (s : SysN) (i j : Nat) (h : Stage0 s i) :
    Stage0 (execTickN t s j) i ∧ (j = i → Stage1 (execTickN t s j)) := by
  obtain ⟨hc, hi, _, extra, hn⟩ := execTickN_frame t s j
  rcases h with he | ⟨n, hn0, hnt, hp⟩ | hn' | hc'
  · have : NotRunningN (execTickN t s j) := by unfold NotRunningN; rw [hc]; exact he
    exact ⟨Or.inl this, fun _ => Or.inl this⟩
  · by_cases hji : j = i
    · subst hji
      have hrep := tick_reports hall n.exec n.inbox hnt hp
      have : InNetN (execTickN t s j) := by
        unfold InNetN execTickN
        rw [hn0]
        simp only [tickNode, hnt, Bool.false_eq_true, if_false]
        exact hasFailure_append_right hrep
      exact ⟨Or.inr (Or.inr (Or.inl this)), fun _ => Or.inr (Or.inl this)⟩
    · refine ⟨Or.inr (Or.inl ⟨n, ?_, hnt, hp⟩), fun h => absurd h hji⟩
      rw [execTickN_other t s i j hji]; exact hn0
  · have : InNetN (execTickN t s j) := by unfold InNetN; rw [hn]; exact hasFailure_append_left hn'
    exact ⟨Or.inr (Or.inr (Or.inl this)), fun _ => Or.inr (Or.inl this)⟩
  · have : AtCtrlN (execTickN t s j) := by unfold AtCtrlN; rw [hi]; exact hc'
    exact ⟨Or.inr (Or.inr (Or.inr this)), fun _ => Or.inr (Or.inr this)⟩

theorem execTickN_stage1 (t : HealthTable) (s : SysN) (j : Nat) (h : Stage1 s) : Stage1 (execTickN t s j) := by
  obtain ⟨hc, hi, _, extra, hn⟩ := execTickN_frame t s j
  rcases h with he | hn' | hc'
  · exact Or.inl (by unfold NotRunningN; rw [hc]; exact he)
  · exact Or.inr (Or.inl (by unfold InNetN; rw [hn]; exact hasFailure_append_left hn'))
  · exact Or.inr (Or.inr (by unfold AtCtrlN; rw [hi]; exact hc'))

theorem execTickN_stage2 (t : HealthTable) (s : SysN) (j : Nat) (h : Stage2 s) : Stage2 (execTickN t s j) := by
  obtain ⟨hc, hi, _, _⟩ := execTickN_frame t s j
  rcases h with he | hc'
  · exact Or.inl (by unfold NotRunningN; rw [hc]; exact he)
  · exact Or.inr (by unfold AtCtrlN; rw [hi]; exact hc')

theorem deliverN_stage0 (s : SysN) (i : Nat) (h : Stage0 s i) : Stage0 (deliverN s) i := by
  rcases h with he | ha | hn | hc
  · exact Or.inl he
  · exact Or.inr (Or.inl ha)
  · exact Or.inr (Or.inr (Or.inr (hasFailure_append_right hn)))
  · exact Or.inr (Or.inr (Or.inr (hasFailure_append_left hc)))

theorem deliverN_stage1 (s : SysN) (h : Stage1 s) : Stage2 (deliverN s) := by
  rcases h with he | hn | hc
  · exact Or.inl he
  · exact Or.inr (hasFailure_append_right hn)
  · exact Or.inr (hasFailure_append_left hc)

theorem deliverN_stage2 (s : SysN) (h : Stage2 s) : Stage2 (deliverN s) := by
  rcases h with he | hc
  · exact Or.inl he
  · exact Or.inr (hasFailure_append_left hc)

/-- what the controller's iteration does -/
theorem ctrlStepN_cases (s : SysN) :
    (s.ctrl.status ≠ .running ∧ ctrlStepN s = s)
    ∨ (s.ctrl.status = .running ∧ awaitable s.ctrl = false ∧ ctrlStepN s = endRunN s s.ctrl .endedOk 1)
    ∨ (s.ctrl.status = .running ∧ awaitable s.ctrl = true ∧ (scanBatch s.ctrl.hosts s.ctrlInbox).reason = true
        ∧ ctrlStepN s = endRunN s { s.ctrl with hosts := (scanBatch s.ctrl.hosts s.ctrlInbox).hosts } .endedErr 2)
    ∨ (s.ctrl.status = .running ∧ awaitable s.ctrl = true ∧ (scanBatch s.ctrl.hosts s.ctrlInbox).reason = false
        ∧ ctrlStepN s = { s with ctrl := (scanBatch s.ctrl.hosts s.ctrlInbox).events.foldl notifyOne
                                           { s.ctrl with hosts := (scanBatch s.ctrl.hosts s.ctrlInbox).hosts },
                                 ctrlInbox := [], delivered := s.delivered ++ s.ctrlInbox }) := by
  unfold ctrlStepN
  cases hs : s.ctrl.status with
  | running =>
    simp only
    by_cases ha : awaitable s.ctrl = true
    · by_cases hr : (scanBatch s.ctrl.hosts s.ctrlInbox).reason = true
      · right; right; left; simp [ha, hr]
      · right; right; right; simp [ha, hr]
    · right; left
      simp only [Bool.not_eq_true] at ha
      simp [ha]
  | endedOk => left; simp
  | endedErr => left; simp
  | starved => left; simp

theorem ctrlStepN_status (s : SysN) :
    (ctrlStepN s).ctrl.status = s.ctrl.status ∨ (ctrlStepN s).ctrl.status = .endedOk ∨ (ctrlStepN s).ctrl.status = .endedErr := by
  rcases ctrlStepN_cases s with ⟨_, h⟩ | ⟨_, _, h⟩ | ⟨_, _, _, h⟩ | ⟨hr, _, _, h⟩ <;> rw [h]
  · exact Or.inl rfl
  · exact Or.inr (Or.inl rfl)
  · exact Or.inr (Or.inr rfl)
  · left; simp only; rw [(notify_requested _ _).2]

theorem ctrlStepN_stage2 (s : SysN) (h : Stage2 s) : NotRunningN (ctrlStepN s) := by
  rcases ctrlStepN_cases s with ⟨hne, heq⟩ | ⟨_, _, heq⟩ | ⟨_, _, _, heq⟩ | ⟨hrun, _, hr, _⟩
  · rw [heq]; exact hne
  · unfold NotRunningN; rw [heq]; simp [endRunN]
  · unfold NotRunningN; rw [heq]; simp [endRunN]
  · rcases h with he | hc
    · exact absurd hrun he
    · rw [scan_reason hc] at hr; cases hr

theorem ctrlStepN_stage0 (s : SysN) (i : Nat) (h : Stage0 s i) : Stage0 (ctrlStepN s) i := by
  rcases ctrlStepN_cases s with ⟨_, heq⟩ | ⟨_, _, heq⟩ | ⟨_, _, _, heq⟩ | ⟨hrun, _, hr, heq⟩
  · rw [heq]; exact h
  · left; unfold NotRunningN; rw [heq]; simp [endRunN]
  · left; unfold NotRunningN; rw [heq]; simp [endRunN]
  · rcases h with hend | ha | hnet | hc
    · exact absurd hrun hend
    · rw [heq]; exact Or.inr (Or.inl ha)
    · rw [heq]; exact Or.inr (Or.inr (Or.inl hnet))
    · rw [scan_reason hc] at hr; cases hr

theorem ctrlStepN_stage1 (s : SysN) (h : Stage1 s) : Stage1 (ctrlStepN s) := by
  rcases ctrlStepN_cases s with ⟨_, heq⟩ | ⟨_, _, heq⟩ | ⟨_, _, _, heq⟩ | ⟨hrun, _, hr, heq⟩
  · rw [heq]; exact h
  · left; unfold NotRunningN; rw [heq]; simp [endRunN]
  · left; unfold NotRunningN; rw [heq]; simp [endRunN]
  · rcases h with hend | hnet | hc
    · exact absurd hrun hend
    · rw [heq]; exact Or.inr (Or.inl hnet)
    · rw [scan_reason hc] at hr; cases hr

theorem stage1_of_stage2 {s : SysN} (h : Stage2 s) : Stage1 s := by
  rcases h with h | h
  · exact Or.inl h
  · exact Or.inr (Or.inr h)

theorem step_stage0 {t : HealthTable} (hall : allRaise t = true) (s : SysN) (i : Nat) (x : StepN) (hx : x ≠ .lose)
    (h : Stage0 s i) : Stage0 (stepN t s x) i := by
  cases x with
  | tick j => exact (execTickN_stage0 hall s i j h).1
  | deliver => exact deliverN_stage0 s i h
  | lose => exact absurd rfl hx
  | ctrl => exact ctrlStepN_stage0 s i h

theorem step_stage1 (t : HealthTable) (s : SysN) (x : StepN) (hx : x ≠ .lose) (h : Stage1 s) : Stage1 (stepN t s x) := by
  cases x with
  | tick j => exact execTickN_stage1 t s j h
  | deliver => exact stage1_of_stage2 (deliverN_stage1 s h)
  | lose => exact absurd rfl hx
  | ctrl => exact ctrlStepN_stage1 s h

theorem step_stage2 (t : HealthTable) (s : SysN) (x : StepN) (hx : x ≠ .lose) (h : Stage2 s) : Stage2 (stepN t s x) := by
  cases x with
  | tick j => exact execTickN_stage2 t s j h
  | deliver => exact deliverN_stage2 s h
  | lose => exact absurd rfl hx
  | ctrl => exact Or.inl (ctrlStepN_stage2 s h)

theorem sched_stage0 {t : HealthTable} (hall : allRaise t = true) (i : Nat) : ∀ (l : List StepN) (s : SysN), NoLoss l → Stage0 s i → Stage0 (runN t s l) i
  | [], _, _, h => h
  | x :: xs, s, hl, h =>
    sched_stage0 hall i xs (stepN t s x) (fun y hy => hl y (List.mem_cons_of_mem _ hy))
      (step_stage0 hall s i x (hl x (List.mem_cons_self ..)) h)

theorem sched_stage1 (t : HealthTable) : ∀ (l : List StepN) (s : SysN), NoLoss l → Stage1 s → Stage1 (runN t s l)
  | [], _, _, h => h
  | x :: xs, s, hl, h =>
    sched_stage1 t xs (stepN t s x) (fun y hy => hl y (List.mem_cons_of_mem _ hy)) (step_stage1 t s x (hl x (List.mem_cons_self ..)) h)

theorem sched_stage2 (t : HealthTable) : ∀ (l : List StepN) (s : SysN), NoLoss l → Stage2 s → Stage2 (runN t s l)
  | [], _, _, h => h
  | x :: xs, s, hl, h =>
    sched_stage2 t xs (stepN t s x) (fun y hy => hl y (List.mem_cons_of_mem _ hy)) (step_stage2 t s x (hl x (List.mem_cons_self ..)) h)

/-- once the controller has left `running` it never returns to it, whatever happens (losses included) -/
theorem step_notRunning (t : HealthTable) (s : SysN) (x : StepN) (h : NotRunningN s) : NotRunningN (stepN t s x) := by
  cases x with
  | tick j => unfold NotRunningN stepN; rw [(execTickN_frame t s j).1]; exact h
  | deliver => exact h
  | lose => exact h
  | ctrl => exact ctrlStepN_stage2 s (Or.inl h)

theorem sched_notRunning (t : HealthTable) : ∀ (l : List StepN) (s : SysN), NotRunningN s → NotRunningN (runN t s l)
  | [], _, h => h
  | x :: xs, s, h => sched_notRunning t xs (stepN t s x) (step_notRunning t s x h)

theorem step_notStarved (t : HealthTable) (s : SysN) (x : StepN) (h : s.ctrl.status ≠ .starved) : (stepN t s x).ctrl.status ≠ .starved := by
  cases x with
  | tick j => show (execTickN t s j).ctrl.status ≠ _; rw [(execTickN_frame t s j).1]; exact h
  | deliver => exact h
  | lose => exact h
  | ctrl =>
    show (ctrlStepN s).ctrl.status ≠ _
    rcases ctrlStepN_status s with h1 | h1 | h1 <;> rw [h1]
    · exact h
    · decide
    · decide

theorem sched_notStarved (t : HealthTable) : ∀ (l : List StepN) (s : SysN), s.ctrl.status ≠ .starved → (runN t s l).ctrl.status ≠ .starved
  | [], _, h => h
  | x :: xs, s, h => sched_notStarved t xs (stepN t s x) (step_notStarved t s x h)

theorem runN_append (t : HealthTable) (s : SysN) (a b : List StepN) : runN t s (a ++ b) = runN t (runN t s a) b := by
  simp [runN, List.foldl_append]

theorem endedN_of {s : SysN} (h1 : NotRunningN s) (h2 : s.ctrl.status ≠ .starved) : EndedN s := by
  unfold NotRunningN at h1
  unfold EndedN
  cases hs : s.ctrl.status with
  | running => exact absurd hs h1
  | endedOk => exact Or.inl rfl
  | endedErr => exact Or.inr rfl
  | starved => exact absurd hs h2

end AuxN

/-- NEVER HANGS, ANY CLUSTER SHAPE (partial: no loss). Any number of executors. If executor `i` is alive and sees a raised
task or a dead child (or a failure report is already in flight / in the controller's queue), then after ANY schedule in
which executor `i` runs, then the network delivers, then the controller receives — other executors and the controller
interleaving at will — and in which NOTHING IN FLIGHT IS LOST (`NoLoss`; for the report of an executor that leaves its
loop this is an assumption, see `c05_bounded_full_fails`), `run` has returned or raised. -/
theorem c05_never_hangs_any_shape_partial (s : SysN) (i : Nat) (sched : List StepN) (hf : FairN i sched) (hl : NoLoss sched)
    (hns : s.ctrl.status ≠ .starved)
    (h0 : AtExecN s i ∨ HasFailure s.net ∨ HasFailure s.ctrlInbox) :
    EndedN (runN Gen.healthTable s sched) := by
  refine AuxN.endedN_of ?_ (AuxN.sched_notStarved _ sched s hns)
  obtain ⟨a, b, c, d, rfl⟩ := hf
  have hla : NoLoss a := fun x hx => hl x (by simp [hx])
  have hlb : NoLoss b := fun x hx => hl x (by simp [hx])
  have hlc : NoLoss c := fun x hx => hl x (by simp [hx])
  simp only [AuxN.runN_append]
  apply AuxN.sched_notRunning
  have h1 := AuxN.sched_stage0 Aux.health_all_raise i a s hla (Or.inr h0)
  have h2 : AuxN.Stage1 (runN Gen.healthTable (runN Gen.healthTable s a) [StepN.tick i]) :=
    (AuxN.execTickN_stage0 Aux.health_all_raise _ i i h1).2 rfl
  have h3 := AuxN.sched_stage1 Gen.healthTable b _ hlb h2
  have h4 : AuxN.Stage2 (runN Gen.healthTable _ [StepN.deliver]) := AuxN.deliverN_stage1 _ h3
  have h5 := AuxN.sched_stage2 Gen.healthTable c _ hlc h4
  exact AuxN.ctrlStepN_stage2 _ h5

/-! ## teardown of every executor -/

/-- no child of the executor is alive -/
def NoChildAlive (st : ExecSt) : Prop :=
  (∀ w h, (w, h) ∈ st.workers → h = .notStarted ∨ ∃ c s, h = .proc (some c) s) ∧ st.shm.isSome = true ∧ st.data.isSome = true

/-- torn down: `terminate` has run and no child is left -/
def TornDown (st : ExecSt) : Prop := st.terminating = true ∧ NoChildAlive st

namespace AuxN
open Aux

/-- the for-loop either leaves the executor's state alone or — serving ExecutorShutdown — replaces it by `terminate`'s -/
theorem processMsgs_state (st : ExecSt) : ∀ (inbox : List EMsg),
    ((processMsgs st inbox).1 = st ∧ (processMsgs st inbox).2.2 ≠ .broke) ∨
    ((processMsgs st inbox).1 = (terminate st).2 ∧ (processMsgs st inbox).2.2 = .broke)
  | [] => by simp [processMsgs]
  | m :: rest => by
    have ih := processMsgs_state st rest
    cases m with
    | taskSequence w =>
      simp only [processMsgs]
      by_cases ha : workerAlive st w = true
      · simp only [ha, if_true]; exact ih
      · simp [ha]
    | ack => simpa [processMsgs] using ih
    | purge => simpa [processMsgs] using ih
    | executorShutdown => right; simp [processMsgs]
    | taskFailure w => simpa [processMsgs] using ih
    | published ds c => simpa [processMsgs] using ih
    | transmitFailure => simpa [processMsgs] using ih
    | other => left; simp [processMsgs]

theorem processMsgs_shutdown (st : ExecSt) : ∀ (inbox : List EMsg), EMsg.executorShutdown ∈ inbox →
    (processMsgs st inbox).2.2 = .broke ∨ (processMsgs st inbox).2.2 = .raised
  | [], h => by cases h
  | m :: rest, h => by
    cases m with
    | executorShutdown => left; simp [processMsgs]
    | taskSequence w =>
      have ih := processMsgs_shutdown st rest (by simpa using h)
      simp only [processMsgs]
      by_cases ha : workerAlive st w = true
      · simp only [ha, if_true]; exact ih
      · right; simp [ha]
    | ack => have ih := processMsgs_shutdown st rest (by simpa using h); simpa [processMsgs] using ih
    | purge => have ih := processMsgs_shutdown st rest (by simpa using h); simpa [processMsgs] using ih
    | taskFailure w => have ih := processMsgs_shutdown st rest (by simpa using h); simpa [processMsgs] using ih
    | published ds c => have ih := processMsgs_shutdown st rest (by simpa using h); simpa [processMsgs] using ih
    | transmitFailure => have ih := processMsgs_shutdown st rest (by simpa using h); simpa [processMsgs] using ih
    | other => right; simp [processMsgs]

/-- the outputs of a failing iteration: what the for-loop sent, then ExecutorFailure, then teardown actions -/
theorem mem_failOut {m : CMsg} {outs : List EOut} {host : String} {acts : List TermAct} :
    EOut.toController m ∈ outs ++ [EOut.toController (.executorFailure host)] ++ acts.map EOut.act ↔
    (EOut.toController m ∈ outs ∨ m = .executorFailure host) := by
  simp [List.mem_append, List.mem_map]

def failedOf (t : HealthTable) (r : ExecSt × List EOut × LoopStatus) : Bool :=
  match r.2.2 with
  | .raised => true
  | _ => !r.1.terminating && (healthcheck t r.1).isSome

theorem tick_unfold (t : HealthTable) (st : ExecSt) (inbox : List EMsg) (hnt : st.terminating = false) :
    tick t st inbox =
      if failedOf t (processMsgs st inbox) = true then
        ((terminate (processMsgs st inbox).1).2,
         (processMsgs st inbox).2.1 ++ [.toController (.executorFailure st.host)] ++ (terminate (processMsgs st inbox).1).1.map .act)
      else ((processMsgs st inbox).1, (processMsgs st inbox).2.1) := by
  unfold tick failedOf
  simp only [hnt, Bool.false_eq_true, if_false]
  rfl

/-- an iteration leaves the executor as it is, or as `terminate` leaves it -/
theorem tick_state (t : HealthTable) (st : ExecSt) (inbox : List EMsg) (hnt : st.terminating = false) :
    ((tick t st inbox).1 = st ∨ (tick t st inbox).1 = (terminate st).2) ∧
    (EMsg.executorShutdown ∈ inbox → (tick t st inbox).1 = (terminate st).2) := by
  have hst := processMsgs_state st inbox
  have htt : (terminate st).2.terminating = true := terminateWith_terminating posix st
  rw [tick_unfold t st inbox hnt]
  by_cases hf : failedOf t (processMsgs st inbox) = true
  · rw [if_pos hf]
    rcases hst with ⟨h1, _⟩ | ⟨h1, h2⟩
    · show ((terminate (processMsgs st inbox).1).2 = st ∨ (terminate (processMsgs st inbox).1).2 = (terminate st).2) ∧ _
      rw [h1]; exact ⟨Or.inr rfl, fun _ => rfl⟩
    · unfold failedOf at hf
      rw [h2] at hf
      simp [h1, htt] at hf
  · rw [if_neg hf]
    show ((processMsgs st inbox).1 = st ∨ (processMsgs st inbox).1 = (terminate st).2) ∧
      (_ → (processMsgs st inbox).1 = (terminate st).2)
    rcases hst with ⟨h1, hnb⟩ | ⟨h1, h2⟩
    · refine ⟨Or.inl h1, fun hin => ?_⟩
      rcases processMsgs_shutdown st inbox hin with h | h
      · exact absurd h hnb
      · unfold failedOf at hf; rw [h] at hf; simp at hf
    · exact ⟨Or.inr h1, fun _ => h1⟩

/-- only the executor's own host name appears in the ExecutorExit / ExecutorFailure it sends, and it sends them only
when it tears down in the same iteration -/
theorem processMsgs_exit_msgs (st : ExecSt) : ∀ (inbox : List EMsg) (h : String),
    (EOut.toController (.executorExit h) ∈ (processMsgs st inbox).2.1 → h = st.host ∧ (processMsgs st inbox).2.2 = .broke) ∧
    EOut.toController (.executorFailure h) ∉ (processMsgs st inbox).2.1
  | [], h => by simp [processMsgs]
  | m :: rest, h => by
    have ih := processMsgs_exit_msgs st rest h
    cases m with
    | taskSequence w =>
      simp only [processMsgs]
      by_cases ha : workerAlive st w = true
      · simp only [ha, if_true, List.mem_cons, reduceCtorEq, false_or]; exact ih
      · simp [ha]
    | ack => simpa [processMsgs] using ih
    | purge => simpa [processMsgs] using ih
    | executorShutdown =>
      simp only [processMsgs]
      constructor
      · intro hm
        simp only [List.mem_cons, EOut.toController.injEq, CMsg.executorExit.injEq, List.mem_map, reduceCtorEq, and_false,
          exists_false, or_false] at hm
        exact ⟨hm, trivial⟩
      · simp
    | taskFailure w => simpa [processMsgs] using ih
    | published ds c => simpa [processMsgs] using ih
    | transmitFailure => simpa [processMsgs] using ih
    | other => simp [processMsgs]

theorem tick_exit_msgs (t : HealthTable) (st : ExecSt) (inbox : List EMsg) (h : String) (hnt : st.terminating = false)
    (hm : CMsg.executorExit h ∈ (tick t st inbox).2.filterMap EOut.ctrl? ∨ CMsg.executorFailure h ∈ (tick t st inbox).2.filterMap EOut.ctrl?) :
    h = st.host ∧ (tick t st inbox).1 = (terminate st).2 := by
  have hst := processMsgs_state st inbox
  have hex := processMsgs_exit_msgs st inbox h
  have htt : (terminate st).2.terminating = true := terminateWith_terminating posix st
  have hmem : ∀ m l, m ∈ List.filterMap EOut.ctrl? l ↔ EOut.toController m ∈ l := by
    intro m l
    rw [List.mem_filterMap]
    constructor
    · rintro ⟨a, ha, hc⟩
      cases a <;> simp [EOut.ctrl?] at hc
      subst hc; exact ha
    · intro ha; exact ⟨_, ha, rfl⟩
  simp only [hmem] at hm
  rw [tick_unfold t st inbox hnt] at hm ⊢
  by_cases hf : failedOf t (processMsgs st inbox) = true
  · rw [if_pos hf] at hm ⊢
    simp only [mem_failOut] at hm
    rcases hst with ⟨h1, hnb⟩ | ⟨h1, h2⟩
    · refine ⟨?_, by show (terminate (processMsgs st inbox).1).2 = _; rw [h1]⟩
      rcases hm with (hm | hm) | (hm | hm)
      · exact absurd (hex.1 hm).2 hnb
      · cases hm
      · exact absurd hm hex.2
      · cases hm; rfl
    · unfold failedOf at hf
      rw [h2] at hf
      simp [h1, htt] at hf
  · rw [if_neg hf] at hm ⊢
    simp only at hm
    rcases hm with hm | hm
    · obtain ⟨e1, e2⟩ := hex.1 hm
      rcases hst with ⟨_, hnb⟩ | ⟨h1, _⟩
      · exact absurd e2 hnb
      · exact ⟨e1, h1⟩
    · exact absurd hm hex.2

theorem terminate_host (st : ExecSt) : (terminate st).2.host = st.host := by
  unfold terminate terminateWith
  by_cases ht : st.terminating = true <;> simp [ht]

theorem tornDown_terminate (st : ExecSt) (hnt : st.terminating = false) : TornDown (terminate st).2 := by
  obtain ⟨h1, h2, h3, h4⟩ := c05_teardown_std st hnt
  exact ⟨h4, h1, h2, h3⟩

/-- the state after an iteration that gives up (`fail`): `terminate` applied to the state the for-loop left -/
theorem tornDown_terminate_processed (st : ExecSt) (inbox : List EMsg) (hnt : st.terminating = false) :
    TornDown (terminate (processMsgs st inbox).1).2 := by
  rcases processMsgs_state st inbox with ⟨h, _⟩ | ⟨h, _⟩
  · rw [h]; exact tornDown_terminate st hnt
  · rw [h]
    have htt : (terminate st).2.terminating = true := terminateWith_terminating posix st
    have : terminate (terminate st).2 = ([], (terminate st).2) := terminateWith_of_terminating posix _ htt
    rw [this]; exact tornDown_terminate st hnt

end AuxN

/-- SHUTDOWN ⇒ TEARDOWN (every executor). A live executor that finds ExecutorShutdown in its queue — whatever else is
in the queue, whatever state its children are in — ends the iteration torn down (`terminate` has run, no child is
alive) and has sent ExecutorExit, or ExecutorFailure if something raised first. -/
theorem c05_shutdown_tears_down (st : ExecSt) (inbox : List EMsg) (hnt : st.terminating = false)
    (hs : EMsg.executorShutdown ∈ inbox) :
    (tick Gen.healthTable st inbox).1 = (terminate st).2 ∧ TornDown (tick Gen.healthTable st inbox).1 ∧
    (CMsg.executorExit st.host ∈ (tick Gen.healthTable st inbox).2.filterMap EOut.ctrl? ∨
     CMsg.executorFailure st.host ∈ (tick Gen.healthTable st inbox).2.filterMap EOut.ctrl?) := by
  have h1 := (AuxN.tick_state Gen.healthTable st inbox hnt).2 hs
  refine ⟨h1, by rw [h1]; exact AuxN.tornDown_terminate st hnt, ?_⟩
  have spec := Aux.processMsgs_spec st inbox
  unfold tick
  simp only [hnt, Bool.false_eq_true, if_false]
  rcases AuxN.processMsgs_shutdown st inbox hs with hb | hr
  · rw [hb] at spec
    left
    simp only [hb]
    split
    · exact Aux.mem_ctrl_of_mem (by simp [spec.1])
    · exact Aux.mem_ctrl_of_mem spec.1
  · right
    simp only [hr, if_true]
    exact Aux.mem_ctrl_of_mem (by simp)

/-! ## every executor is torn down once the run has ended -/

/-- start of a run: the controller is running, host names are distinct, every executor is alive in its loop and
registered, and nobody has announced an exit yet -/
def InitN (s : SysN) : Prop :=
  s.ctrl.status = .running ∧
  (∀ (j k : Nat) (n m : Node), s.nodes[j]? = some n → s.nodes[k]? = some m → n.exec.host = m.exec.host → j = k) ∧
  (∀ (j : Nat) (n : Node), s.nodes[j]? = some n → n.exec.terminating = false ∧ n.exec.host ∈ s.ctrl.hosts) ∧
  (∀ m, m ∈ s.net ∨ m ∈ s.ctrlInbox → ∀ h, m ≠ .executorExit h ∧ m ≠ .executorFailure h)

namespace AuxN
open Aux

structure InvN (s : SysN) : Prop where
  inj : ∀ (j k : Nat) (n m : Node), s.nodes[j]? = some n → s.nodes[k]? = some m → n.exec.host = m.exec.host → j = k
  msgs : ∀ m, m ∈ s.net ∨ m ∈ s.ctrlInbox → ∀ h, (m = .executorExit h ∨ m = .executorFailure h) →
           ∀ (j : Nat) (n : Node), s.nodes[j]? = some n → n.exec.host = h → TornDown n.exec
  live : ∀ (j : Nat) (n : Node), s.nodes[j]? = some n → TornDown n.exec ∨ (n.exec.terminating = false ∧
           (EMsg.executorShutdown ∈ n.inbox ∨ (s.ctrl.status = .running ∧ n.exec.host ∈ s.ctrl.hosts)))

theorem inv_init (s : SysN) (h : InitN s) : InvN s := by
  obtain ⟨hr, hinj, hl, hm⟩ := h
  refine ⟨hinj, ?_, ?_⟩
  · intro m hmm h' hh
    obtain ⟨a, b⟩ := hm m hmm h'
    rcases hh with rfl | rfl
    · exact absurd rfl a
    · exact absurd rfl b
  · intro j n hn
    obtain ⟨a, b⟩ := hl j n hn
    exact Or.inr ⟨a, Or.inr ⟨hr, b⟩⟩

theorem execTickN_nodes (t : HealthTable) (s : SysN) (i j : Nat) :
    (execTickN t s i).nodes[j]? = if j = i then (s.nodes[i]?).map (fun n => (tickNode t n).1) else s.nodes[j]? := by
  unfold execTickN
  cases hn : s.nodes[i]? with
  | none =>
    by_cases hji : j = i
    · subst hji; simp [hn]
    · simp [hji]
  | some n =>
    have hlt : i < s.nodes.length := by
      obtain ⟨h, _⟩ := List.getElem?_eq_some_iff.1 hn; exact h
    simp only [List.getElem?_set, hlt, if_true, Option.map_some]
    by_cases hji : j = i
    · subst hji; simp
    · have : ¬ i = j := fun h => hji h.symm
      simp [hji, this]

theorem execTickN_net (t : HealthTable) (s : SysN) (i : Nat) :
    (execTickN t s i).net = s.net ++ (match s.nodes[i]? with | some n => (tickNode t n).2 | none => []) := by
  unfold execTickN
  cases s.nodes[i]? <;> simp

theorem tickNode_spec (t : HealthTable) (n : Node) :
    (n.exec.terminating = true → tickNode t n = (n, [])) ∧
    (n.exec.terminating = false →
      (tickNode t n).1.exec.host = n.exec.host ∧
      (((tickNode t n).1.exec = n.exec ∧ EMsg.executorShutdown ∉ n.inbox) ∨ TornDown (tickNode t n).1.exec) ∧
      (∀ h, (CMsg.executorExit h ∈ (tickNode t n).2 ∨ CMsg.executorFailure h ∈ (tickNode t n).2) →
        h = n.exec.host ∧ TornDown (tickNode t n).1.exec)) := by
  constructor
  · intro ht; simp [tickNode, ht]
  · intro hnt
    have hst := tick_state t n.exec n.inbox hnt
    have htd := tornDown_terminate n.exec hnt
    simp only [tickNode, hnt, Bool.false_eq_true, if_false]
    refine ⟨?_, ?_, ?_⟩
    · rcases hst.1 with h | h <;> rw [h]
      exact terminate_host n.exec
    · by_cases hs : EMsg.executorShutdown ∈ n.inbox
      · right; rw [hst.2 hs]; exact htd
      · rcases hst.1 with h | h
        · exact Or.inl ⟨h, hs⟩
        · right; rw [h]; exact htd
    · intro h hm
      obtain ⟨h1, h2⟩ := tick_exit_msgs t n.exec n.inbox h hnt hm
      exact ⟨h1, by rw [h2]; exact htd⟩

theorem inv_tick (t : HealthTable) (s : SysN) (i : Nat) (h : InvN s) : InvN (execTickN t s i) := by
  have hc : (execTickN t s i).ctrl = s.ctrl := (execTickN_frame t s i).1
  have hci : (execTickN t s i).ctrlInbox = s.ctrlInbox := (execTickN_frame t s i).2.1
  -- what node j of the new system is
  have hnode : ∀ (j : Nat) (n' : Node), (execTickN t s i).nodes[j]? = some n' →
      (j ≠ i ∧ s.nodes[j]? = some n') ∨ (j = i ∧ ∃ n : Node, s.nodes[i]? = some n ∧ n' = (tickNode t n).1) := by
    intro j n' hj
    rw [execTickN_nodes] at hj
    by_cases hji : j = i
    · right
      simp only [hji, if_true] at hj
      cases hn : s.nodes[i]? with
      | none => rw [hn] at hj; cases hj
      | some n => rw [hn] at hj; simp at hj; exact ⟨hji, n, rfl, hj.symm⟩
    · left; simp only [hji, if_false] at hj; exact ⟨hji, hj⟩
  have hhost : ∀ (j : Nat) (n' : Node), (execTickN t s i).nodes[j]? = some n' → ∃ n : Node, s.nodes[j]? = some n ∧ n'.exec.host = n.exec.host ∧
      (TornDown n.exec → n' = n) := by
    intro j n' hj
    rcases hnode j n' hj with ⟨_, h1⟩ | ⟨rfl, n, h1, rfl⟩
    · exact ⟨n', h1, rfl, fun _ => rfl⟩
    · refine ⟨n, h1, ?_, ?_⟩
      · by_cases ht : n.exec.terminating = true
        · rw [(tickNode_spec t n).1 ht]
        · simp only [Bool.not_eq_true] at ht
          exact ((tickNode_spec t n).2 ht).1
      · intro htd; rw [(tickNode_spec t n).1 htd.1]
  refine ⟨?_, ?_, ?_⟩
  · intro j k n m hj hk hh
    obtain ⟨n0, a1, a2, _⟩ := hhost j n hj
    obtain ⟨m0, b1, b2, _⟩ := hhost k m hk
    exact h.inj j k n0 m0 a1 b1 (by rw [← a2, ← b2]; exact hh)
  · intro m hm hname hmm j n' hj hh
    obtain ⟨n0, a1, a2, a3⟩ := hhost j n' hj
    rw [hci, execTickN_net] at hm
    have hold : m ∈ s.net ∨ m ∈ s.ctrlInbox → TornDown n'.exec := by
      intro hm'
      have := h.msgs m hm' hname hmm j n0 a1 (by rw [← a2]; exact hh)
      rw [a3 this]; exact this
    rcases hm with hm | hm
    · rcases List.mem_append.1 hm with hm | hm
      · exact hold (Or.inl hm)
      · -- a new message: sent by node i in this iteration
        cases hn : s.nodes[i]? with
        | none => rw [hn] at hm; cases hm
        | some n =>
          rw [hn] at hm
          simp only at hm
          by_cases ht : n.exec.terminating = true
          · rw [(tickNode_spec t n).1 ht] at hm; cases hm
          · simp only [Bool.not_eq_true] at ht
            have hmsg : CMsg.executorExit hname ∈ (tickNode t n).2 ∨ CMsg.executorFailure hname ∈ (tickNode t n).2 := by
              rcases hmm with rfl | rfl
              · exact Or.inl hm
              · exact Or.inr hm
            obtain ⟨e1, e2⟩ := ((tickNode_spec t n).2 ht).2.2 hname hmsg
            -- node j has the host of node i, hence j = i
            have hji : j = i := h.inj j i n0 n a1 hn (by rw [← a2, hh, e1])
            subst hji
            rcases hnode j n' hj with ⟨hne, _⟩ | ⟨_, n1, c1, c2⟩
            · exact absurd rfl hne
            · rw [hn] at c1; cases c1; rw [c2]; exact e2
    · exact hold (Or.inr hm)
  · intro j n' hj
    rw [hc]
    rcases hnode j n' hj with ⟨_, h1⟩ | ⟨rfl, n, h1, rfl⟩
    · exact h.live j n' h1
    · rcases h.live j n h1 with htd | ⟨hnt, hrest⟩
      · rw [(tickNode_spec t n).1 htd.1]; exact Or.inl htd
      · obtain ⟨e1, e2, _⟩ := (tickNode_spec t n).2 hnt
        rcases e2 with ⟨e3, e4⟩ | e3
        · right
          rcases hrest with hsd | hrun
          · exact absurd hsd e4
          · rw [e3]; exact ⟨hnt, Or.inr hrun⟩
        · exact Or.inl e3

theorem pop_fold : ∀ (b : List CMsg) (hosts : List String) (h : String), h ∈ hosts → h ∉ b.foldl popHost hosts →
    ∃ m ∈ b, m = .executorExit h ∨ m = .executorFailure h
  | [], hosts, h, hin, hout => absurd hin hout
  | m :: rest, hosts, h, hin, hout => by
    rw [List.foldl_cons] at hout
    by_cases hp : h ∈ popHost hosts m
    · obtain ⟨m', hm', hx⟩ := pop_fold rest _ h hp hout
      exact ⟨m', List.mem_cons_of_mem _ hm', hx⟩
    · refine ⟨m, List.mem_cons_self .., ?_⟩
      cases m with
      | executorExit h' =>
        simp only [popHost, List.mem_filter, hin, true_and, bne_iff_ne, ne_eq, Decidable.not_not] at hp
        left; rw [hp]
      | executorFailure h' =>
        simp only [popHost, List.mem_filter, hin, true_and, bne_iff_ne, ne_eq, Decidable.not_not] at hp
        right; rw [hp]
      | _ => exact absurd hin hp

theorem notify_hosts : ∀ (evs : List CMsg) (c : Ctrl), (evs.foldl notifyOne c).hosts = c.hosts
  | [], _ => rfl
  | e :: es, c => by
    rw [List.foldl_cons, notify_hosts es (notifyOne c e)]
    cases e <;> simp [notifyOne] <;> split <;> simp

theorem shutdownTo_exec (hs : List String) (n : Node) : (shutdownTo hs n).exec = n.exec := by
  unfold shutdownTo; split <;> rfl

theorem inv_endRun (s : SysN) (c : Ctrl) (st : CtrlStatus) (k : Nat) (h : InvN s) (hst : st ≠ .running)
    (hc : ∀ (j : Nat) (n : Node), s.nodes[j]? = some n → n.exec.terminating = false → s.ctrl.status = .running → n.exec.host ∈ s.ctrl.hosts →
            n.exec.host ∈ c.hosts ∨ TornDown n.exec) :
    InvN (endRunN s c st k) := by
  have hnode : ∀ (j : Nat) (n' : Node), (endRunN s c st k).nodes[j]? = some n' → ∃ n : Node, s.nodes[j]? = some n ∧ n' = shutdownTo c.hosts n := by
    intro j n' hj
    simp only [endRunN, List.getElem?_map] at hj
    cases hn : s.nodes[j]? with
    | none => rw [hn] at hj; cases hj
    | some n => rw [hn] at hj; simp at hj; exact ⟨n, rfl, hj.symm⟩
  refine ⟨?_, ?_, ?_⟩
  · intro j k' n m hj hk hh
    obtain ⟨n0, a1, rfl⟩ := hnode j n hj
    obtain ⟨m0, b1, rfl⟩ := hnode k' m hk
    rw [shutdownTo_exec, shutdownTo_exec] at hh
    exact h.inj j k' n0 m0 a1 b1 hh
  · intro m hm hname hmm j n' hj hh
    obtain ⟨n0, a1, rfl⟩ := hnode j n' hj
    rw [shutdownTo_exec] at hh ⊢
    have hm' : m ∈ s.net ∨ m ∈ s.ctrlInbox := by
      rcases hm with hm | hm
      · exact Or.inl hm
      · simp [endRunN] at hm
    exact h.msgs m hm' hname hmm j n0 a1 hh
  · intro j n' hj
    obtain ⟨n0, a1, rfl⟩ := hnode j n' hj
    rw [shutdownTo_exec]
    rcases h.live j n0 a1 with htd | ⟨hnt, hrest⟩
    · exact Or.inl htd
    · rcases hrest with hsd | ⟨hrun, hin⟩
      · right
        refine ⟨hnt, Or.inl ?_⟩
        unfold shutdownTo; split
        · exact List.mem_append_left _ hsd
        · exact hsd
      · rcases hc j n0 a1 hnt hrun hin with hin' | htd
        · right
          refine ⟨hnt, Or.inl ?_⟩
          unfold shutdownTo
          have : c.hosts.contains n0.exec.host = true := by simpa using hin'
          rw [if_pos this]
          simp
        · exact Or.inl htd

theorem inv_ctrl (s : SysN) (h : InvN s) : InvN (ctrlStepN s) := by
  -- a host that was popped from the controller's table had announced its exit: it is torn down
  have hpop : ∀ (j : Nat) (n : Node), s.nodes[j]? = some n → n.exec.host ∈ s.ctrl.hosts →
      n.exec.host ∈ (scanBatch s.ctrl.hosts s.ctrlInbox).hosts ∨ TornDown n.exec := by
    intro j n hn hin
    by_cases hp : n.exec.host ∈ (scanBatch s.ctrl.hosts s.ctrlInbox).hosts
    · exact Or.inl hp
    · right
      obtain ⟨m, hm, hx⟩ := pop_fold s.ctrlInbox s.ctrl.hosts n.exec.host hin hp
      exact h.msgs m (Or.inr hm) n.exec.host hx j n hn rfl
  rcases ctrlStepN_cases s with ⟨_, heq⟩ | ⟨_, _, heq⟩ | ⟨_, _, _, heq⟩ | ⟨hrun, _, _, heq⟩ <;> rw [heq]
  · exact h
  · exact inv_endRun s s.ctrl .endedOk 1 h (by decide) (fun j n _ _ _ hin => Or.inl hin)
  · exact inv_endRun s _ .endedErr 2 h (by decide) (fun j n hn _ _ hin => hpop j n hn hin)
  · refine ⟨h.inj, ?_, ?_⟩
    · intro m hm hname hmm j n hj hh
      have hm' : m ∈ s.net ∨ m ∈ s.ctrlInbox := by
        rcases hm with hm | hm
        · exact Or.inl hm
        · cases hm
      exact h.msgs m hm' hname hmm j n hj hh
    · intro j n hj
      rcases h.live j n hj with htd | ⟨hnt, hrest⟩
      · exact Or.inl htd
      · rcases hrest with hsd | ⟨_, hin⟩
        · exact Or.inr ⟨hnt, Or.inl hsd⟩
        · rcases hpop j n hj hin with hin' | htd
          · right
            refine ⟨hnt, Or.inr ⟨?_, ?_⟩⟩
            · show (List.foldl notifyOne _ _).status = _
              rw [(notify_requested _ _).2]; exact hrun
            · show _ ∈ (List.foldl notifyOne _ _).hosts
              rw [notify_hosts]; exact hin'
          · exact Or.inl htd

theorem inv_step (t : HealthTable) (s : SysN) (x : StepN) (h : InvN s) : InvN (stepN t s x) := by
  cases x with
  | tick i => exact inv_tick t s i h
  | deliver =>
    refine ⟨h.inj, ?_, h.live⟩
    intro m hm
    have : m ∈ s.net ∨ m ∈ s.ctrlInbox := by
      rcases hm with hm | hm
      · cases hm
      · rcases List.mem_append.1 hm with hm | hm
        · exact Or.inr hm
        · exact Or.inl hm
    exact h.msgs m this
  | lose =>
    refine ⟨h.inj, ?_, h.live⟩
    intro m hm
    have : m ∈ s.net ∨ m ∈ s.ctrlInbox := by
      rcases hm with hm | hm
      · cases hm
      · exact Or.inr hm
    exact h.msgs m this
  | ctrl => exact inv_ctrl s h

theorem inv_run (t : HealthTable) : ∀ (l : List StepN) (s : SysN), InvN s → InvN (runN t s l)
  | [], _, h => h
  | x :: xs, s, h => inv_run t xs (stepN t s x) (inv_step t s x h)

theorem step_len (t : HealthTable) (s : SysN) (x : StepN) : (stepN t s x).nodes.length = s.nodes.length := by
  cases x with
  | tick i =>
    show (execTickN t s i).nodes.length = _
    unfold execTickN
    cases s.nodes[i]? <;> simp
  | deliver => rfl
  | lose => rfl
  | ctrl =>
    show (ctrlStepN s).nodes.length = _
    rcases ctrlStepN_cases s with ⟨_, heq⟩ | ⟨_, _, heq⟩ | ⟨_, _, _, heq⟩ | ⟨_, _, _, heq⟩ <;> rw [heq] <;> simp [endRunN]

theorem run_len (t : HealthTable) : ∀ (l : List StepN) (s : SysN), (runN t s l).nodes.length = s.nodes.length
  | [], _ => rfl
  | x :: xs, s => by
    show (runN t (stepN t s x) xs).nodes.length = _
    rw [run_len t xs, step_len]

/-- a torn-down executor stays torn down -/
theorem step_tornDown (t : HealthTable) (s : SysN) (x : StepN) (j : Nat) (n : Node) (hn : s.nodes[j]? = some n)
    (htd : TornDown n.exec) : ∃ n', (stepN t s x).nodes[j]? = some n' ∧ TornDown n'.exec := by
  cases x with
  | tick i =>
    show ∃ n', (execTickN t s i).nodes[j]? = some n' ∧ _
    rw [execTickN_nodes]
    by_cases hji : j = i
    · subst hji
      simp only [if_true, hn, Option.map_some]
      rw [(tickNode_spec t n).1 htd.1]
      exact ⟨n, rfl, htd⟩
    · simp only [hji, if_false]; exact ⟨n, hn, htd⟩
  | deliver => exact ⟨n, hn, htd⟩
  | lose => exact ⟨n, hn, htd⟩
  | ctrl =>
    show ∃ n', (ctrlStepN s).nodes[j]? = some n' ∧ _
    rcases ctrlStepN_cases s with ⟨_, heq⟩ | ⟨_, _, heq⟩ | ⟨_, _, _, heq⟩ | ⟨_, _, _, heq⟩ <;> rw [heq]
    · exact ⟨n, hn, htd⟩
    · exact ⟨shutdownTo s.ctrl.hosts n, by simp [endRunN, hn], by rw [shutdownTo_exec]; exact htd⟩
    · exact ⟨shutdownTo (scanBatch s.ctrl.hosts s.ctrlInbox).hosts n, by simp [endRunN, hn], by rw [shutdownTo_exec]; exact htd⟩
    · exact ⟨n, hn, htd⟩

/-- after the end: an executor that runs once more is torn down -/
theorem tick_after_end (t : HealthTable) (s : SysN) (j : Nat) (n : Node) (h : InvN s) (hnr : NotRunningN s)
    (hn : s.nodes[j]? = some n) : ∃ n', (execTickN t s j).nodes[j]? = some n' ∧ TornDown n'.exec := by
  rw [execTickN_nodes]
  simp only [if_true, hn, Option.map_some]
  refine ⟨_, rfl, ?_⟩
  rcases h.live j n hn with htd | ⟨hnt, hsd | ⟨hrun, _⟩⟩
  · rw [(tickNode_spec t n).1 htd.1]; exact htd
  · rcases ((tickNode_spec t n).2 hnt).2.1 with ⟨_, e⟩ | e
    · exact absurd hsd e
    · exact e
  · exact absurd hrun hnr

theorem all_torn_down (t : HealthTable) : ∀ (l : List StepN) (s : SysN), InvN s → NotRunningN s →
    ∀ (j : Nat) (n : Node), (runN t s l).nodes[j]? = some n →
      (StepN.tick j ∈ l ∨ ∃ n0 : Node, s.nodes[j]? = some n0 ∧ TornDown n0.exec) → TornDown n.exec
  | [], s, _, _, j, n, hn, hc => by
    rcases hc with hc | ⟨n0, h1, h2⟩
    · cases hc
    · have : runN t s [] = s := rfl
      rw [this, h1] at hn; cases hn; exact h2
  | x :: xs, s, hinv, hnr, j, n, hn, hc => by
    have hinv' := inv_step t s x hinv
    have hnr' := step_notRunning t s x hnr
    have hn' : (runN t (stepN t s x) xs).nodes[j]? = some n := hn
    apply all_torn_down t xs (stepN t s x) hinv' hnr' j n hn'
    rcases hc with hc | ⟨n0, h1, h2⟩
    · rcases List.mem_cons.1 hc with heq | hin
      · right
        subst heq
        -- node j exists in s (lengths are preserved)
        have hlt : j < s.nodes.length := by
          have h1 : j < (runN t (stepN t s (StepN.tick j)) xs).nodes.length := by
            obtain ⟨h, _⟩ := List.getElem?_eq_some_iff.1 hn'; exact h
          rw [run_len, step_len] at h1; exact h1
        obtain ⟨n0, hn0⟩ : ∃ n0, s.nodes[j]? = some n0 := ⟨s.nodes[j], by simp [hlt]⟩
        exact tick_after_end t s j n0 hinv hnr hn0
      · exact Or.inl hin
    · exact Or.inr (step_tornDown t s x j n0 h1 h2)

end AuxN

/-- AN EXECUTOR THAT IS NEVER TOLD TO STOP GIVES UP BY ITSELF (iteration level). Whatever is — or is NOT — in its queue (in
particular: no ExecutorShutdown, because the controller's message was lost, or the controller is gone), whatever state its
children are in: the iteration in which `sender.maybe_retry()` raises (its heartbeat / report to the controller was not
acknowledged within the retry budget) ends with the executor TORN DOWN — `terminate` has run and no child is alive — and an
ExecutorFailure sent. This is the only route to teardown for an executor whose ExecutorShutdown was lost; that the retry
budget IS eventually exhausted when the controller has vanished is a property of ReliableSender (C06) and of wall-clock time,
observed on real clusters (~17 s), not proved here; `c05_all_executors_torn_down` does not cover this case (its model
delivers ExecutorShutdown straight into the inboxes). -/
theorem c05_untold_executor_gives_up (st : ExecSt) (inbox : List EMsg) (hb : Bool) (hnt : st.terminating = false) :
    TornDown (tickEnv Gen.healthTable st inbox hb true).1 ∧
    CMsg.executorFailure st.host ∈ (tickEnv Gen.healthTable st inbox hb true).2.filterMap EOut.ctrl? := by
  have htd := AuxN.tornDown_terminate_processed st inbox hnt
  unfold tickEnv
  simp only [hnt, Bool.false_eq_true, if_false]
  cases hs : (processMsgs st inbox).2.2 <;> simp only <;> (try split) <;>
    exact ⟨htd, Aux.mem_ctrl_of_mem (by simp)⟩

/-- non-vacuity: a healthy executor with a live worker, an empty queue, heartbeat due, retry budget exhausted -/
example : TornDown (tickEnv Gen.healthTable { host := "h0", workers := [("h0.w0", .proc none false)], shm := none, data := none,
                                               terminating := false } [] true true).1 :=
  (c05_untold_executor_gives_up _ [] true rfl).1

/-- EVERY EXECUTOR IS TORN DOWN — after normal completion and after a failure alike, any cluster shape, whatever was lost
OF THE EXECUTOR-TO-CONTROLLER TRAFFIC on the way. From a start state (`InitN`) run ANY schedule `sched1` (ticks of any executors,
deliveries, LOSSES, controller iterations) at the end of which `run` has returned or raised; then any further schedule `sched2`
in which every executor gets to run at least one more iteration. Afterwards every executor has run `terminate` and has no child left.
What is NOT covered (scope of the model, not of a hypothesis): (1) `StepN.lose` (`loseN`) drops only what executors have sent towards
the controller; the controller's `ExecutorShutdown` is written straight into every registered node's inbox (`shutdownTo`), so a LOST
ExecutorShutdown is not a behaviour of this model (on the real code such an executor is not told to stop; it gives up by itself when
its heartbeat to the vanished controller has used up its retries -- iteration-level theorem `c05_retry_exhausted_fails`, observed
on real clusters ~17 s after the run, not a theorem about the system); (2) every iteration of the N-model tears down with
`terminate = terminateWith posix`, the environment in which SIGKILL + join ends a process (`KillWorks posix`); for environments in
which it does not, see `c05_teardown` / `c05_teardown_needs_kill`. -/
theorem c05_all_executors_torn_down (s0 : SysN) (h0 : InitN s0) (sched1 sched2 : List StepN)
    (hend : EndedN (runN Gen.healthTable s0 sched1))
    (hall : ∀ j, j < s0.nodes.length → StepN.tick j ∈ sched2) :
    ∀ (j : Nat) (n : Node), (runN Gen.healthTable (runN Gen.healthTable s0 sched1) sched2).nodes[j]? = some n → TornDown n.exec := by
  intro j n hn
  have hinv := AuxN.inv_run Gen.healthTable sched1 s0 (AuxN.inv_init s0 h0)
  have hnr : AuxN.NotRunningN (runN Gen.healthTable s0 sched1) := by
    unfold AuxN.NotRunningN
    rcases hend with h | h <;> rw [h] <;> decide
  apply AuxN.all_torn_down Gen.healthTable sched2 _ hinv hnr j n hn
  left
  apply hall
  have h1 : j < (runN Gen.healthTable (runN Gen.healthTable s0 sched1) sched2).nodes.length := by
    obtain ⟨h, _⟩ := List.getElem?_eq_some_iff.1 hn; exact h
  rw [AuxN.run_len, AuxN.run_len] at h1
  exact h1

/-! ## without the no-loss hypothesis: the controller waits for ever -/

def witExec : ExecSt :=
  { host := "h0", workers := [("h0.w0", .proc (some 1) false)], shm := none, data := none, terminating := false }
def witCtrl : Ctrl :=
  { status := .running, requested := ["sink|o"], outputs := [], remaining := 1, hosts := ["h0"], shutdownCalls := 0, shutdownSent := [] }
/-- one executor whose worker has died, a controller waiting for `sink|o` -/
def witN : SysN := { nodes := [⟨witExec, []⟩], net := [], ctrlInbox := [], ctrl := witCtrl, delivered := [] }
/-- the system after the executor has reported (ExecutorFailure, once), torn down and left its loop, and the frame was lost -/
def lostN : SysN := { witN with nodes := [⟨(terminate witExec).2, []⟩] }

namespace AuxN

theorem wit_lost : runN Gen.healthTable witN [.tick 0, .lose] = lostN := by decide

theorem lost_fix (x : StepN) : stepN Gen.healthTable lostN x = lostN := by
  cases x with
  | tick j =>
    cases j with
    | zero => decide
    | succ k => simp [stepN, execTickN, lostN, witN]
  | deliver => decide
  | lose => decide
  | ctrl => decide

theorem lost_run : ∀ (l : List StepN), runN Gen.healthTable lostN l = lostN
  | [] => rfl
  | x :: xs => by
    show runN Gen.healthTable (stepN Gen.healthTable lostN x) xs = lostN
    rw [lost_fix x, lost_run xs]

end AuxN

/-- BOUNDED TIME needs the no-loss hypothesis (the full statement fails). Witness: one executor sees its dead worker, sends
ExecutorFailure — once: it then tears down and leaves its loop, so nobody re-sends — and the frame is lost. Whatever
happens afterwards, in any order and for ever, the controller is still `running` (it polls; heartbeat breach only logs).
This is the composition with known finding C06-exit-unretried. -/
theorem c05_bounded_full_fails :
    InitN witN ∧ AtExecN witN 0 ∧
    ∀ sched : List StepN, (runN Gen.healthTable witN ([.tick 0, .lose] ++ sched)).ctrl.status = .running := by
  refine ⟨⟨rfl, ?_, ?_, ?_⟩, ⟨⟨witExec, []⟩, rfl, rfl, Or.inr (Or.inl ⟨"h0.w0", _, by simp [witExec], Or.inr ⟨1, false, rfl⟩⟩)⟩, ?_⟩
  · intro j k n m hj hk _
    have hj' : j = 0 := by
      cases j with
      | zero => rfl
      | succ j => simp [witN] at hj
    have hk' : k = 0 := by
      cases k with
      | zero => rfl
      | succ k => simp [witN] at hk
    rw [hj', hk']
  · intro j n hj
    cases j with
    | zero => simp [witN] at hj; subst hj; exact ⟨rfl, by simp [witExec, witCtrl, witN]⟩
    | succ j => simp [witN] at hj
  · intro m hm; simp [witN] at hm
  · intro sched
    rw [AuxN.runN_append, AuxN.wit_lost, AuxN.lost_run]
    rfl

/-! ## non-vacuity: a 2-host cluster -/

def exA : ExecSt := { host := "hA", workers := [("hA.w0", .proc none false)], shm := none, data := none, terminating := false }
def exB : ExecSt := { host := "hB", workers := [("hB.w0", .proc (some (-9)) false), ("hB.w1", .proc none true)], shm := none, data := none,
                      terminating := false, segments := ["sCaschB01"] }
def exN : SysN :=
  { nodes := [⟨exA, []⟩, ⟨exB, []⟩], net := [], ctrlInbox := [],
    ctrl := { status := .running, requested := ["sink|o"], outputs := [], remaining := 2, hosts := ["hA", "hB"], shutdownCalls := 0, shutdownSent := [] },
    delivered := [] }

/-- host B has a SIGKILLed worker; A ticks first, then B, deliver, controller: the run ends with an error; after one more
iteration of A (B has already torn down by itself) both executors are terminating, no child alive, B's segment is gone -/
example : (runN Gen.healthTable exN [.tick 0, .tick 1, .deliver, .ctrl]).ctrl.status = .endedErr := by decide
example : ((runN Gen.healthTable exN [.tick 0, .tick 1, .deliver, .ctrl, .tick 0, .tick 1]).nodes.map (·.exec.terminating)) = [true, true] := by decide
example : ((runN Gen.healthTable exN [.tick 0, .tick 1, .deliver, .ctrl, .tick 0, .tick 1]).nodes.map (·.exec.segments)) = [[], []] := by decide
example : ((runN Gen.healthTable exN [.tick 0, .tick 1, .deliver, .ctrl]).nodes.map (·.inbox)) = [[.executorShutdown], []] := by decide
/-- the same with the report lost: still running -/
example : (runN Gen.healthTable exN [.tick 0, .tick 1, .lose, .ctrl, .tick 0, .deliver, .ctrl]).ctrl.status = .running := by decide
example : FairN 1 [.tick 0, .tick 1, .deliver, .ctrl] := ⟨[.tick 0], [], [], [], rfl⟩
example : NoLoss [.tick 0, .tick 1, .deliver, .ctrl] := by intro x hx; simp at hx; rcases hx with rfl | rfl | rfl | rfl <;> decide

end EkwVerif.C05
