/-
C05 — a failing task or dying worker-side process fails the run, never hangs it; afterwards no
child process (and, unless the shm server was SIGKILLed, no shared-memory segment) is left behind.

Theorems over `Model/Failure.lean`, instantiated with the table generated from the source
(`Gen/Health.lean`). What is NOT proved here (sampled by the real-cluster fault runs instead): that
the OS really delivers exit codes / removes processes and /dev/shm files, wall-clock bounds, and the
bounded delivery of an acknowledged message (C06).
-/
import EkwVerif.Model.Failure
import EkwVerif.Gen.Health

namespace EkwVerif.C05
open EkwVerif.Failure

/-- some child of the executor is not running: a worker that was never started or has an exit
code, or the shm / data server has an exit code (whatever the code, 0 included) -/
def DeadChild (st : ExecSt) : Prop :=
  (∃ w h, (w, h) ∈ st.workers ∧ (h = .notStarted ∨ ∃ c s, h = .proc (some c) s))
  ∨ st.shm.isSome = true ∨ st.data.isSome = true

/-- every child is running -/
def AllAlive (st : ExecSt) : Prop :=
  (∀ w h, (w, h) ∈ st.workers → ∃ s, h = .proc none s) ∧ st.shm = none ∧ st.data = none

/-- a failure the executor can see: a TaskFailure in its queue or a dead child -/
def ExecFailurePending (st : ExecSt) (inbox : List EMsg) : Prop :=
  (∃ w, EMsg.taskFailure w ∈ inbox) ∨ DeadChild st

def HasFailure (l : List CMsg) : Prop := ∃ m ∈ l, m.isFailure = true

/-- stage 0 of the propagation: the failure is visible to a live executor -/
def AtExecutor (s : Sys) : Prop := s.exec.terminating = false ∧ ExecFailurePending s.exec s.execInbox

def Ended (s : Sys) : Prop := s.ctrl.status ≠ .running

/-- a schedule in which, in this order, the executor ticks, the network delivers, the controller receives
(anything may happen before, between and after) -/
def Fair (sched : List Step) : Prop :=
  ∃ a b c d, sched = a ++ [Step.tick] ++ b ++ [Step.deliver] ++ c ++ [Step.ctrl] ++ d

namespace Aux

theorem health_all_raise : Gen.health_all_raise = true := by decide

theorem holds_none (p : FailPred) : p.holds none = false := by cases p <;> rfl

theorem classFails_none (t : HealthTable) (c : ChildClass) : classFails t c none = false := by
  unfold classFails
  rw [Bool.eq_false_iff]
  intro h
  rw [List.any_eq_true] at h
  obtain ⟨r, _, hr⟩ := h
  simp [rowFails, holds_none] at hr

theorem classFails_of_allRaise {t : HealthTable} (h : allRaise t = true) (c : ChildClass) (code : Int) :
    classFails t c (some code) = true := by
  unfold allRaise at h
  simp only [List.all_cons, List.all_nil, Bool.and_true, Bool.and_eq_true, List.any_eq_true] at h
  obtain ⟨⟨hw, hs, hd⟩, _⟩ := h
  have key : ∀ c', (∃ r, r ∈ t.rows ∧ ((r.child == c') = true ∧ r.raises = true) ∧ (r.pred == FailPred.exited) = true) →
      classFails t c' (some code) = true := by
    intro c' ⟨r, hr, ⟨h1, h2⟩, h3⟩
    unfold classFails
    rw [List.any_eq_true]
    refine ⟨r, hr, ?_⟩
    simp only [beq_iff_eq] at h1 h3
    simp [rowFails, h1, h2, h3, FailPred.holds]
  cases c
  · exact key _ hw
  · exact key _ hs
  · exact key _ hd

theorem noneRaises_of_allRaise {t : HealthTable} (h : allRaise t = true) : t.workerNoneRaises = true := by
  unfold allRaise at h
  simp only [Bool.and_eq_true] at h
  exact h.2

theorem findSome_isSome {α β} (f : α → Option β) : ∀ (l : List α) (x : α), x ∈ l → (f x).isSome = true →
    (l.findSome? f).isSome = true
  | [], _, hx, _ => by cases hx
  | y :: ys, x, hx, hf => by
    rw [List.findSome?_cons]
    cases hy : f y with
    | some b => simp
    | none =>
      simp only
      rcases List.mem_cons.1 hx with rfl | hx'
      · rw [hy] at hf; cases hf
      · exact findSome_isSome f ys x hx' hf

theorem findSome_none {α β} (f : α → Option β) : ∀ (l : List α), (∀ x ∈ l, f x = none) → l.findSome? f = none
  | [], _ => rfl
  | y :: ys, h => by
    rw [List.findSome?_cons, h y (List.mem_cons_self ..)]
    exact findSome_none f ys (fun x hx => h x (List.mem_cons_of_mem _ hx))

/-- generic detection: with a table in which every branch raises on any exit, a dead child makes healthcheck raise -/
theorem detects_of_allRaise {t : HealthTable} (hall : allRaise t = true) (st : ExecSt) (h : DeadChild st) :
    (healthcheck t st).isSome = true := by
  unfold healthcheck
  rcases h with ⟨w, hd, hmem, hdead⟩ | hs | hdata
  · have : (st.workers.findSome? (workerCheck t)).isSome = true := by
      apply findSome_isSome _ _ (w, hd) hmem
      rcases hdead with rfl | ⟨c, s, rfl⟩
      · simp [workerCheck, noneRaises_of_allRaise hall]
      · simp [workerCheck, classFails_of_allRaise hall]
    cases hfs : st.workers.findSome? (workerCheck t) with
    | some e => rfl
    | none => rw [hfs] at this; cases this
  · cases hfs : st.workers.findSome? (workerCheck t) with
    | some e => rfl
    | none =>
      cases hshm : st.shm with
      | none => rw [hshm] at hs; cases hs
      | some c => simp [classFails_of_allRaise hall]
  · cases hfs : st.workers.findSome? (workerCheck t) with
    | some e => rfl
    | none =>
      cases hd : st.data with
      | none => rw [hd] at hdata; cases hdata
      | some c =>
        simp only [classFails_of_allRaise hall]
        split <;> rfl

theorem no_false_alarm (t : HealthTable) (st : ExecSt) (h : AllAlive st) : healthcheck t st = none := by
  obtain ⟨hw, hs, hd⟩ := h
  unfold healthcheck
  have : st.workers.findSome? (workerCheck t) = none := by
    apply findSome_none
    intro ⟨w, hnd⟩ hx
    obtain ⟨s, rfl⟩ := hw w hnd hx
    simp [workerCheck, classFails_none]
  rw [this, hs, hd]
  simp [classFails_none]

/-! ### the recv_loop iteration -/

theorem processMsgs_spec (st : ExecSt) : ∀ (inbox : List EMsg),
    match (processMsgs st inbox).2.2 with
    | .done => (processMsgs st inbox).1 = st ∧
               ((∃ w, EMsg.taskFailure w ∈ inbox) → EOut.toController .taskFailure ∈ (processMsgs st inbox).2.1)
    | .broke => EOut.toController (.executorExit st.host) ∈ (processMsgs st inbox).2.1 ∧ (processMsgs st inbox).1.terminating = true
    | .raised => True
  | [] => by simp [processMsgs]
  | m :: rest => by
    have ih := processMsgs_spec st rest
    cases m with
    | taskSequence w =>
      simp only [processMsgs]
      by_cases ha : workerAlive st w = true
      · simp only [ha, if_true]
        generalize processMsgs st rest = r at ih ⊢
        obtain ⟨s', o, stt⟩ := r
        cases stt <;> simp_all <;> (try exact ih.2)
      · simp [ha]
    | ack =>
      simp only [processMsgs]
      generalize processMsgs st rest = r at ih ⊢
      obtain ⟨s', o, stt⟩ := r
      cases stt <;> simp_all <;> (try exact ih.2)
    | purge =>
      simp only [processMsgs]
      generalize processMsgs st rest = r at ih ⊢
      obtain ⟨s', o, stt⟩ := r
      cases stt <;> simp_all <;> (try exact ih.2)
    | executorShutdown =>
      simp only [processMsgs]
      refine ⟨List.mem_cons_self .., ?_⟩
      unfold terminate
      by_cases ht : st.terminating = true <;> simp [ht]
    | taskFailure w =>
      simp only [processMsgs]
      generalize processMsgs st rest = r at ih ⊢
      obtain ⟨s', o, stt⟩ := r
      cases stt <;> simp_all <;> (try exact ih.2)
    | published ds c =>
      simp only [processMsgs]
      generalize processMsgs st rest = r at ih ⊢
      obtain ⟨s', o, stt⟩ := r
      cases stt <;> simp_all <;> (try exact ih.2)
    | transmitFailure =>
      simp only [processMsgs]
      generalize processMsgs st rest = r at ih ⊢
      obtain ⟨s', o, stt⟩ := r
      cases stt <;> simp_all <;> (try exact ih.2)
    | other => simp [processMsgs]

theorem mem_ctrl_of_mem {m : CMsg} {l : List EOut} (h : EOut.toController m ∈ l) : m ∈ l.filterMap EOut.ctrl? := by
  rw [List.mem_filterMap]
  exact ⟨_, h, rfl⟩

/-- a live executor that sees a failure sends a failure-class message to the controller in this very iteration -/
theorem tick_reports {t : HealthTable} (hall : allRaise t = true) (st : ExecSt) (inbox : List EMsg)
    (hnt : st.terminating = false) (hp : ExecFailurePending st inbox) :
    HasFailure ((tick t st inbox).2.filterMap EOut.ctrl?) := by
  have spec := processMsgs_spec st inbox
  unfold tick
  simp only [hnt, Bool.false_eq_true, if_false]
  cases hs : (processMsgs st inbox).2.2 with
  | raised =>
    simp only [if_true]
    exact ⟨.executorFailure st.host, mem_ctrl_of_mem (by simp), rfl⟩
  | broke =>
    rw [hs] at spec
    simp only
    have hin := spec.1
    split
    · exact ⟨.executorExit st.host, mem_ctrl_of_mem (by simp [hin]), rfl⟩
    · exact ⟨.executorExit st.host, mem_ctrl_of_mem hin, rfl⟩
  | done =>
    rw [hs] at spec
    obtain ⟨hst, htf⟩ := spec
    simp only
    rcases hp with htask | hdead
    · have hin := htf htask
      split
      · exact ⟨.taskFailure, mem_ctrl_of_mem (by simp [hin]), rfl⟩
      · exact ⟨.taskFailure, mem_ctrl_of_mem hin, rfl⟩
    · have hh : (healthcheck t (processMsgs st inbox).1).isSome = true := by
        rw [hst]; exact detects_of_allRaise hall st hdead
      rw [hst] at hh ⊢
      simp only [hnt, hh, Bool.not_false, Bool.and_self, if_true]
      exact ⟨.executorFailure st.host, mem_ctrl_of_mem (by simp), rfl⟩

/-- a healthcheck failure or an exception in the loop also tears the executor down -/
theorem tick_terminates_on_dead_child {t : HealthTable} (hall : allRaise t = true) (st : ExecSt)
    (hnt : st.terminating = false) (hd : DeadChild st) : (tick t st []).1.terminating = true := by
  have hh := detects_of_allRaise hall st hd
  simp [tick, hnt, processMsgs, hh, terminate]

/-! ### propagation stages -/

def InNet (s : Sys) : Prop := HasFailure s.net
def AtCtrl (s : Sys) : Prop := HasFailure s.ctrlInbox

def Stage0 (s : Sys) : Prop := Ended s ∨ AtExecutor s ∨ InNet s ∨ AtCtrl s
def Stage1 (s : Sys) : Prop := Ended s ∨ InNet s ∨ AtCtrl s
def Stage2 (s : Sys) : Prop := Ended s ∨ AtCtrl s

theorem hasFailure_append_left {a b : List CMsg} (h : HasFailure a) : HasFailure (a ++ b) := by
  obtain ⟨m, hm, hf⟩ := h; exact ⟨m, List.mem_append_left _ hm, hf⟩
theorem hasFailure_append_right {a b : List CMsg} (h : HasFailure b) : HasFailure (a ++ b) := by
  obtain ⟨m, hm, hf⟩ := h; exact ⟨m, List.mem_append_right _ hm, hf⟩

theorem execTick_ctrl (t : HealthTable) (s : Sys) : (execTick t s).ctrl = s.ctrl ∧ (execTick t s).ctrlInbox = s.ctrlInbox
    ∧ (execTick t s).delivered = s.delivered := by
  unfold execTick; split <;> simp

theorem execTick_net (t : HealthTable) (s : Sys) : ∃ extra, (execTick t s).net = s.net ++ extra := by
  unfold execTick; split
  · exact ⟨[], by simp⟩
  · exact ⟨_, rfl⟩

theorem execTick_stage0 {t : HealthTable} (hall : allRaise t = true) (s : Sys) (h : Stage0 s) : Stage1 (execTick t s) := by
  obtain ⟨hc, hi, _⟩ := execTick_ctrl t s
  obtain ⟨extra, hn⟩ := execTick_net t s
  rcases h with he | ⟨hnt, hp⟩ | hn' | hc'
  · exact Or.inl (by unfold Ended; rw [hc]; exact he)
  · refine Or.inr (Or.inl ?_)
    have := tick_reports hall s.exec s.execInbox hnt hp
    unfold InNet execTick
    simp only [hnt, Bool.false_eq_true, if_false]
    exact hasFailure_append_right this
  · exact Or.inr (Or.inl (by unfold InNet; rw [hn]; exact hasFailure_append_left hn'))
  · exact Or.inr (Or.inr (by unfold AtCtrl; rw [hi]; exact hc'))

theorem execTick_stage1 (t : HealthTable) (s : Sys) (h : Stage1 s) : Stage1 (execTick t s) := by
  obtain ⟨hc, hi, _⟩ := execTick_ctrl t s
  obtain ⟨extra, hn⟩ := execTick_net t s
  rcases h with he | hn' | hc'
  · exact Or.inl (by unfold Ended; rw [hc]; exact he)
  · exact Or.inr (Or.inl (by unfold InNet; rw [hn]; exact hasFailure_append_left hn'))
  · exact Or.inr (Or.inr (by unfold AtCtrl; rw [hi]; exact hc'))

theorem execTick_stage2 (t : HealthTable) (s : Sys) (h : Stage2 s) : Stage2 (execTick t s) := by
  obtain ⟨hc, hi, _⟩ := execTick_ctrl t s
  rcases h with he | hc'
  · exact Or.inl (by unfold Ended; rw [hc]; exact he)
  · exact Or.inr (by unfold AtCtrl; rw [hi]; exact hc')

theorem deliver_stage0 (s : Sys) (h : Stage0 s) : Stage0 (deliver s) := by
  rcases h with he | ha | hn | hc
  · exact Or.inl he
  · exact Or.inr (Or.inl ha)
  · exact Or.inr (Or.inr (Or.inr (hasFailure_append_right hn)))
  · exact Or.inr (Or.inr (Or.inr (hasFailure_append_left hc)))

theorem deliver_stage1 (s : Sys) (h : Stage1 s) : Stage2 (deliver s) := by
  rcases h with he | hn | hc
  · exact Or.inl he
  · exact Or.inr (hasFailure_append_right hn)
  · exact Or.inr (hasFailure_append_left hc)

theorem deliver_stage2 (s : Sys) (h : Stage2 s) : Stage2 (deliver s) := by
  rcases h with he | hc
  · exact Or.inl he
  · exact Or.inr (hasFailure_append_left hc)

theorem scan_reason {hosts : List String} {b : List CMsg} (h : HasFailure b) : (scanBatch hosts b).reason = true := by
  obtain ⟨m, hm, hf⟩ := h
  simp only [scanBatch, List.any_eq_true]
  exact ⟨m, hm, hf⟩

/-- what the controller's iteration does: stays running only if it was running, was waiting, and no failure was in its queue -/
theorem ctrlStep_cases (s : Sys) :
    (s.ctrl.status ≠ .running ∧ ctrlStep s = s)
    ∨ (s.ctrl.status = .running ∧ awaitable s.ctrl = false ∧ (ctrlStep s).ctrl.status = .endedOk)
    ∨ (s.ctrl.status = .running ∧ awaitable s.ctrl = true ∧ (scanBatch s.ctrl.hosts s.ctrlInbox).reason = true
        ∧ (ctrlStep s).ctrl.status = .endedErr ∧ (ctrlStep s).ctrl.shutdownCalls = s.ctrl.shutdownCalls + 2)
    ∨ (s.ctrl.status = .running ∧ awaitable s.ctrl = true ∧ (scanBatch s.ctrl.hosts s.ctrlInbox).reason = false
        ∧ (ctrlStep s).exec = s.exec ∧ (ctrlStep s).execInbox = s.execInbox ∧ (ctrlStep s).net = s.net) := by
  unfold ctrlStep
  cases hs : s.ctrl.status with
  | running =>
    simp only
    by_cases ha : awaitable s.ctrl = true
    · by_cases hr : (scanBatch s.ctrl.hosts s.ctrlInbox).reason = true
      · right; right; left
        simp [ha, hr, endRun]
      · right; right; right
        simp [ha, hr]
    · right; left
      simp only [Bool.not_eq_true] at ha
      simp [ha, endRun]
  | endedOk => left; simp
  | endedErr => left; simp
  | starved => left; simp

theorem ctrlStep_stage2 (s : Sys) (h : Stage2 s) : Ended (ctrlStep s) := by
  rcases ctrlStep_cases s with ⟨hne, heq⟩ | ⟨_, _, hok⟩ | ⟨_, _, _, herr, _⟩ | ⟨hrun, _, hr, _⟩
  · rw [heq]; exact hne
  · unfold Ended; rw [hok]; decide
  · unfold Ended; rw [herr]; decide
  · rcases h with he | hc
    · exact absurd hrun he
    · rw [scan_reason hc] at hr; cases hr

theorem ctrlStep_stage0 (s : Sys) (h : Stage0 s) : Stage0 (ctrlStep s) := by
  rcases ctrlStep_cases s with ⟨_, heq⟩ | ⟨_, _, hok⟩ | ⟨_, _, _, herr, _⟩ | ⟨hrun, _, hr, he, hi, hn⟩
  · rw [heq]; exact h
  · left; unfold Ended; rw [hok]; decide
  · left; unfold Ended; rw [herr]; decide
  · rcases h with hend | ⟨hnt, hp⟩ | hnet | hc
    · exact absurd hrun hend
    · exact Or.inr (Or.inl ⟨by rw [he]; exact hnt, by rw [he, hi]; exact hp⟩)
    · exact Or.inr (Or.inr (Or.inl (by unfold InNet; rw [hn]; exact hnet)))
    · rw [scan_reason hc] at hr; cases hr

theorem ctrlStep_stage1 (s : Sys) (h : Stage1 s) : Stage1 (ctrlStep s) := by
  rcases ctrlStep_cases s with ⟨_, heq⟩ | ⟨_, _, hok⟩ | ⟨_, _, _, herr, _⟩ | ⟨hrun, _, hr, _, _, hn⟩
  · rw [heq]; exact h
  · left; unfold Ended; rw [hok]; decide
  · left; unfold Ended; rw [herr]; decide
  · rcases h with hend | hnet | hc
    · exact absurd hrun hend
    · exact Or.inr (Or.inl (by unfold InNet; rw [hn]; exact hnet))
    · rw [scan_reason hc] at hr; cases hr

theorem stage1_of_stage2 {s : Sys} (h : Stage2 s) : Stage1 s := by
  rcases h with h | h
  · exact Or.inl h
  · exact Or.inr (Or.inr h)
theorem stage0_of_stage1 {s : Sys} (h : Stage1 s) : Stage0 s := by
  rcases h with h | h | h
  · exact Or.inl h
  · exact Or.inr (Or.inr (Or.inl h))
  · exact Or.inr (Or.inr (Or.inr h))

theorem step_stage0 {t : HealthTable} (hall : allRaise t = true) (s : Sys) (st : Step) (h : Stage0 s) : Stage0 (step t s st) := by
  cases st
  · exact stage0_of_stage1 (execTick_stage0 hall s h)
  · exact deliver_stage0 s h
  · exact ctrlStep_stage0 s h

theorem step_stage1 (t : HealthTable) (s : Sys) (st : Step) (h : Stage1 s) : Stage1 (step t s st) := by
  cases st
  · exact execTick_stage1 t s h
  · exact stage1_of_stage2 (deliver_stage1 s h)
  · exact ctrlStep_stage1 s h

theorem step_stage2 (t : HealthTable) (s : Sys) (st : Step) (h : Stage2 s) : Stage2 (step t s st) := by
  cases st
  · exact execTick_stage2 t s h
  · exact deliver_stage2 s h
  · exact Or.inl (ctrlStep_stage2 s h)

theorem sched_stage0 {t : HealthTable} (hall : allRaise t = true) : ∀ (l : List Step) (s : Sys), Stage0 s → Stage0 (runSchedule t s l)
  | [], _, h => h
  | x :: xs, s, h => sched_stage0 hall xs (step t s x) (step_stage0 hall s x h)
theorem sched_stage1 (t : HealthTable) : ∀ (l : List Step) (s : Sys), Stage1 s → Stage1 (runSchedule t s l)
  | [], _, h => h
  | x :: xs, s, h => sched_stage1 t xs (step t s x) (step_stage1 t s x h)
theorem sched_stage2 (t : HealthTable) : ∀ (l : List Step) (s : Sys), Stage2 s → Stage2 (runSchedule t s l)
  | [], _, h => h
  | x :: xs, s, h => sched_stage2 t xs (step t s x) (step_stage2 t s x h)
theorem sched_ended (t : HealthTable) : ∀ (l : List Step) (s : Sys), Ended s → Ended (runSchedule t s l)
  | [], _, h => h
  | x :: xs, s, h => by
    apply sched_ended t xs (step t s x)
    cases x
    · unfold Ended step; rw [(execTick_ctrl t s).1]; exact h
    · exact h
    · exact ctrlStep_stage2 s (Or.inl h)

theorem runSchedule_append (t : HealthTable) (s : Sys) (a b : List Step) :
    runSchedule t s (a ++ b) = runSchedule t (runSchedule t s a) b := by
  simp [runSchedule, List.foldl_append]

theorem never_hangs_of_allRaise {t : HealthTable} (hall : allRaise t = true) (s : Sys) (sched : List Step)
    (hf : Fair sched) (h0 : Stage0 s) : Ended (runSchedule t s sched) := by
  obtain ⟨a, b, c, d, rfl⟩ := hf
  simp only [runSchedule_append]
  apply sched_ended
  have h1 := sched_stage0 hall a s h0
  have h2 : Stage1 (runSchedule t (runSchedule t s a) [Step.tick]) := execTick_stage0 hall _ h1
  have h3 := sched_stage1 t b _ h2
  have h4 : Stage2 (runSchedule t _ [Step.deliver]) := deliver_stage1 _ h3
  have h5 := sched_stage2 t c _ h4
  exact ctrlStep_stage2 _ h5

/-! ### outputs come from payloads -/

theorem mem_setOutput {o : List (String × Int)} {ds : String} {x : Int} {d : String} {v : Int}
    (h : (d, v) ∈ setOutput o ds x) : (d, v) = (ds, x) ∨ (d, v) ∈ o := by
  unfold setOutput at h
  rcases List.mem_cons.1 h with h | h
  · exact Or.inl h
  · exact Or.inr (List.mem_filter.1 h).1

theorem notify_outputs : ∀ (evs : List CMsg) (c : Ctrl) (d : String) (v : Int),
    (d, v) ∈ (evs.foldl notifyOne c).outputs → (d, v) ∈ c.outputs ∨ CMsg.payload d v ∈ evs
  | [], _, _, _, h => Or.inl h
  | e :: es, c, d, v, h => by
    rw [List.foldl_cons] at h
    rcases notify_outputs es (notifyOne c e) d v h with h1 | h1
    · cases e with
      | payload ds x =>
        rcases mem_setOutput h1 with heq | hin
        · right; cases heq; exact List.mem_cons_self ..
        · exact Or.inl hin
      | published ds cm =>
        simp only [notifyOne] at h1
        split at h1 <;> exact Or.inl h1
      | _ => exact Or.inl h1
    · exact Or.inr (List.mem_cons_of_mem _ h1)

theorem notify_requested : ∀ (evs : List CMsg) (c : Ctrl), (evs.foldl notifyOne c).requested = c.requested ∧
    (evs.foldl notifyOne c).status = c.status
  | [], _ => ⟨rfl, rfl⟩
  | e :: es, c => by
    rw [List.foldl_cons]
    have := notify_requested es (notifyOne c e)
    rw [this.1, this.2]
    cases e <;> simp [notifyOne] <;> split <;> simp

/-- invariant: every stored output was read from a payload; a run that ended ok misses nothing -/
def OutInv (s : Sys) : Prop :=
  (∀ d v, (d, v) ∈ s.ctrl.outputs → CMsg.payload d v ∈ s.delivered) ∧
  (s.ctrl.status = .endedOk → missing s.ctrl = false)

theorem ctrlStep_outInv (s : Sys) (h : OutInv s) : OutInv (ctrlStep s) := by
  obtain ⟨h1, h2⟩ := h
  unfold ctrlStep
  cases hs : s.ctrl.status with
  | running =>
    simp only
    by_cases ha : awaitable s.ctrl = true
    · by_cases hr : (scanBatch s.ctrl.hosts s.ctrlInbox).reason = true
      · simp only [ha, hr, Bool.not_true, Bool.false_eq_true, if_false, if_true, endRun]
        exact ⟨fun d v hd => List.mem_append_left _ (h1 d v hd), by simp⟩
      · simp only [ha, hr, Bool.not_true, Bool.false_eq_true, if_false]
        constructor
        · intro d v hd
          rcases notify_outputs _ _ d v hd with hin | hin
          · exact List.mem_append_left _ (h1 d v hin)
          · exact List.mem_append_right _ (List.mem_filter.1 hin).1
        · intro hok
          rw [(notify_requested _ _).2] at hok
          simp only at hok
          rw [hs] at hok; cases hok
    · simp only [Bool.not_eq_true] at ha
      simp only [ha, Bool.not_false, if_true, endRun]
      refine ⟨fun d v hd => List.mem_append_left _ (h1 d v hd), fun _ => ?_⟩
      unfold awaitable at ha
      simp only [Bool.or_eq_false_iff] at ha
      simpa [missing] using ha.2
  | endedOk => simp only; exact ⟨h1, h2⟩
  | endedErr => simp only; exact ⟨h1, h2⟩
  | starved => simp only; exact ⟨h1, h2⟩

theorem step_outInv (t : HealthTable) (s : Sys) (st : Step) (h : OutInv s) : OutInv (step t s st) := by
  cases st
  · obtain ⟨hc, _, hd⟩ := execTick_ctrl t s
    unfold OutInv step; rw [hc, hd]; exact h
  · exact h
  · exact ctrlStep_outInv s h

theorem sched_outInv (t : HealthTable) : ∀ (l : List Step) (s : Sys), OutInv s → OutInv (runSchedule t s l)
  | [], _, h => h
  | x :: xs, s, h => sched_outInv t xs (step t s x) (step_outInv t s x h)

theorem lookup_some_mem {d : String} : ∀ {o : List (String × Int)}, (o.lookup d).isNone = false → ∃ v, (d, v) ∈ o
  | [], h => by simp at h
  | (k, x) :: o', h => by
    by_cases hk : d = k
    · subst hk; exact ⟨x, List.mem_cons_self ..⟩
    · have hne : (d == k) = false := by simpa using hk
      rw [List.lookup_cons, hne] at h
      obtain ⟨v, hv⟩ := lookup_some_mem (o := o') h
      exact ⟨v, List.mem_cons_of_mem _ hv⟩

theorem notify_calls : ∀ (evs : List CMsg) (c : Ctrl), (evs.foldl notifyOne c).shutdownCalls = c.shutdownCalls
  | [], _ => rfl
  | e :: es, c => by
    rw [List.foldl_cons, notify_calls es (notifyOne c e)]
    cases e <;> simp [notifyOne] <;> split <;> simp

theorem run_finally : ∀ (fuel : Nat) (c : Ctrl) (stream : List (List CMsg)), c.status = .running →
    ((runLoop fuel c stream).status = .endedOk ∨ (runLoop fuel c stream).status = .endedErr) →
    (runLoop fuel c stream).shutdownCalls ≥ c.shutdownCalls + 1
  | 0, c, _, hrun, h => by
    simp only [runLoop] at h
    rw [hrun] at h
    rcases h with h | h <;> cases h
  | fuel + 1, c, stream, hrun, h => by
    unfold runLoop at h ⊢
    by_cases ha : awaitable c = true
    · simp only [ha, Bool.not_true, Bool.false_eq_true, if_false] at h ⊢
      cases hre : recvEvents c.hosts stream with
      | starved hosts =>
        rw [hre] at h
        simp only at h
        rcases h with h | h <;> cases h
      | raised sentTo left rest =>
        simp only [doShutdown]
        omega
      | events ev hosts rest =>
        rw [hre] at h
        simp only at h ⊢
        have hst : (ev.foldl notifyOne { c with hosts := hosts }).status = .running := by
          rw [(notify_requested _ _).2]; exact hrun
        have := run_finally fuel _ rest hst h
        rw [notify_calls] at this
        exact this
    · simp only [Bool.not_eq_true] at ha
      simp only [ha, Bool.not_false, if_true, doShutdown]
      omega

/-! ### teardown -/

theorem termWorker_dead (p : String × Handle) : (termWorker p).2.2 = .notStarted ∨ ∃ c s, (termWorker p).2.2 = .proc (some c) s := by
  obtain ⟨w, h⟩ := p
  cases h with
  | notStarted => left; rfl
  | proc e s =>
    right
    cases e with
    | some c => exact ⟨c, s, rfl⟩
    | none => cases s <;> simp [termWorker]

theorem termWorker_acts (w : String) (e : Option Int) (s : Bool) :
    TermAct.workerShutdown w ∈ (termWorker (w, .proc e s)).1 ∧ TermAct.workerJoin w ∈ (termWorker (w, .proc e s)).1 ∧
    (e = none → s = true → TermAct.workerKill w ∈ (termWorker (w, .proc e s)).1) := by
  cases e with
  | some c => simp [termWorker]
  | none => cases s <;> simp [termWorker]

end Aux

/-! ## the property theorems -/

/-- DETECTION. With the healthcheck as it is in the source (generated table; side condition by `decide`):
whenever some worker-side child has exited — any exit code, 0 included — or was never started,
the next `healthcheck` raises. -/
theorem c05_detects (st : ExecSt) (h : DeadChild st) : (healthcheck Gen.healthTable st).isSome = true :=
  Aux.detects_of_allRaise Aux.health_all_raise st h

/-- ... and it raises only then: with every child running the healthcheck is silent (no spurious failure). -/
theorem c05_detects_only (st : ExecSt) (h : AllAlive st) : healthcheck Gen.healthTable st = none :=
  Aux.no_false_alarm _ st h

/-- WORKER BODY. A task raising an `Exception` yields a TaskFailure message from a worker that lives on;
`sys.exit`, another BaseException or a signal ends the process with an exit code and without TaskFailure
(so only the healthcheck can notice). Publications made before the crash point are sent either way. -/
theorem c05_worker_body (w : String) (pubs : List EMsg) (o : TaskOutcome) :
    (o = .raisesException → (workerBody w pubs o).exit = none ∧ EMsg.taskFailure w ∈ (workerBody w pubs o).msgs) ∧
    (o ≠ .raisesException → (workerBody w pubs o).msgs = pubs) ∧
    ((workerBody w pubs o).exit = none ↔ (o = .returns ∨ o = .raisesException)) := by
  cases o <;> simp [workerBody]

/-- RECV_LOOP. A live (not terminating) executor that has a TaskFailure in its queue or a dead child sends,
in this very iteration, a message of the class that makes the controller shut down and raise
(TaskFailure forwarded, or ExecutorFailure, or ExecutorExit when a shutdown request was being served). -/
theorem c05_tick_reports (st : ExecSt) (inbox : List EMsg) (hnt : st.terminating = false)
    (hp : ExecFailurePending st inbox) :
    HasFailure ((tick Gen.healthTable st inbox).2.filterMap EOut.ctrl?) :=
  Aux.tick_reports Aux.health_all_raise st inbox hnt hp

/-- BRIDGE. A batch containing a failure-class message makes `recv_events` shut down and raise — whatever
else is in the batch (events do not mask it), and `ExecutorShutdown` goes to every host that has not
itself just reported its exit. -/
theorem c05_bridge_raises (hosts : List String) (b : List CMsg) (rest : List (List CMsg)) (h : HasFailure b) :
    ∃ left rest', recvEvents hosts (b :: rest) = .raised (b.foldl popHost hosts) left rest' := by
  have hr : (scanBatch hosts b).reason = true := Aux.scan_reason h
  refine ⟨(shutdownLoop (scanBatch hosts b).hosts rest).1, (shutdownLoop (scanBatch hosts b).hosts rest).2, ?_⟩
  simp only [recvEvents, hr, if_true]
  rfl

/-- RUN. `impl.run` over any stream of listener batches: if it ends (ok or with an error) then
`bridge.shutdown()` has been called at least once more (`finally`), and a failure-class message in the
batch it is waiting on ends it with an error. -/
theorem c05_run_finally (fuel : Nat) (c : Ctrl) (stream : List (List CMsg)) (hrun : c.status = .running) :
    (((runLoop fuel c stream).status = .endedOk ∨ (runLoop fuel c stream).status = .endedErr) →
      (runLoop fuel c stream).shutdownCalls ≥ c.shutdownCalls + 1) ∧
    (∀ b rest, stream = b :: rest → awaitable c = true → HasFailure b → (runLoop (fuel + 1) c stream).status = .endedErr) := by
  refine ⟨Aux.run_finally fuel c stream hrun, ?_⟩
  intro b rest hs ha hf
  subst hs
  obtain ⟨left, rest', hre⟩ := c05_bridge_raises c.hosts b rest hf
  unfold runLoop
  simp only [ha, Bool.not_true, Bool.false_eq_true, if_false, hre]

/-- BOUNDED (three rounds). From any state in which the controller is running and a live executor sees a
raised task or a dead child: after one executor iteration, one delivery and one controller iteration the
run HAS ENDED; it has ended with an error — after at least one `bridge.shutdown()` — whenever the
controller was still waiting for a task or a requested output. -/
theorem c05_bounded (s : Sys) (hrun : s.ctrl.status = .running) (hp : AtExecutor s) :
    let s' := ctrlStep (deliver (execTick Gen.healthTable s))
    s'.ctrl.status ≠ .running ∧
    (awaitable s.ctrl = true → s'.ctrl.status = .endedErr ∧ s'.ctrl.shutdownCalls ≥ s.ctrl.shutdownCalls + 1) := by
  intro s'
  have h1 : Aux.Stage1 (execTick Gen.healthTable s) := Aux.execTick_stage0 Aux.health_all_raise s (Or.inr (Or.inl hp))
  have h2 : Aux.Stage2 (deliver (execTick Gen.healthTable s)) := Aux.deliver_stage1 _ h1
  refine ⟨Aux.ctrlStep_stage2 _ h2, fun ha => ?_⟩
  have hc : (deliver (execTick Gen.healthTable s)).ctrl = s.ctrl := (Aux.execTick_ctrl _ s).1
  have hat : Aux.AtCtrl (deliver (execTick Gen.healthTable s)) := by
    rcases h2 with he | h
    · exact absurd (by rw [hc]; exact hrun) he
    · exact h
  rcases Aux.ctrlStep_cases (deliver (execTick Gen.healthTable s)) with ⟨hne, _⟩ | ⟨_, hna, _⟩ | ⟨_, _, _, herr, hcalls⟩ | ⟨_, _, hr, _⟩
  · exact absurd (by rw [hc]; exact hrun) hne
  · rw [hc, ha] at hna; cases hna
  · refine ⟨herr, ?_⟩
    show (ctrlStep (deliver (execTick Gen.healthTable s))).ctrl.shutdownCalls ≥ _
    rw [hcalls, hc]; omega
  · rw [Aux.scan_reason hat] at hr; cases hr

/-- NEVER HANGS (any fair schedule). From any state in which the failure is visible to a live executor, or
its report is already in flight or in the controller's queue: after ANY schedule that contains, in
this order, an executor iteration, a delivery and a controller iteration, `run` has ended. -/
theorem c05_never_hangs (s : Sys) (sched : List Step) (hf : Fair sched)
    (h0 : AtExecutor s ∨ HasFailure s.net ∨ HasFailure s.ctrlInbox) :
    (runSchedule Gen.healthTable s sched).ctrl.status ≠ .running :=
  Aux.never_hangs_of_allRaise Aux.health_all_raise s sched hf (Or.inr h0)

/-- NO WRONG VALUE. Along every schedule `state.outputs` is only ever written from a payload the controller
has read (with C01: the payload carries the dataset's value), and a run that ends without an error has a
value for every requested output. -/
theorem c05_no_wrong_value (s0 : Sys) (sched : List Step) (hrun : s0.ctrl.status = .running)
    (hempty : s0.ctrl.outputs = []) :
    let s := runSchedule Gen.healthTable s0 sched
    (∀ d v, (d, v) ∈ s.ctrl.outputs → CMsg.payload d v ∈ s.delivered) ∧
    (s.ctrl.status = .endedOk → ∀ d ∈ s.ctrl.requested, ∃ v, (d, v) ∈ s.ctrl.outputs) := by
  intro s
  have hinv : Aux.OutInv s0 := by
    constructor
    · rw [hempty]; intro d v h; cases h
    · rw [hrun]; intro h; cases h
  obtain ⟨h1, h2⟩ := Aux.sched_outInv Gen.healthTable sched s0 hinv
  refine ⟨h1, fun hok d hd => ?_⟩
  have hm := h2 hok
  unfold missing at hm
  have := List.any_eq_false.1 hm d hd
  exact Aux.lookup_some_mem (by simpa using this)

/-- TEARDOWN. `terminate` is idempotent; it addresses every child: each started worker is sent
WorkerShutdown and joined (and killed if it was alive but stuck), a live shm server is shut down, a live
data server is killed; afterwards no child is alive. -/
theorem c05_teardown (st : ExecSt) :
    terminate (terminate st).2 = ([], (terminate st).2) ∧
    (st.terminating = false →
      (∀ w e s, (w, Handle.proc e s) ∈ st.workers →
        TermAct.workerShutdown w ∈ (terminate st).1 ∧ TermAct.workerJoin w ∈ (terminate st).1 ∧
        (e = none → s = true → TermAct.workerKill w ∈ (terminate st).1)) ∧
      (st.shm = none → TermAct.shmShutdown ∈ (terminate st).1) ∧
      (st.data = none → TermAct.dataKill ∈ (terminate st).1) ∧
      (∀ w h, (w, h) ∈ (terminate st).2.workers → h = .notStarted ∨ ∃ c s, h = .proc (some c) s) ∧
      (terminate st).2.shm.isSome = true ∧ (terminate st).2.data.isSome = true) := by
  constructor
  · unfold terminate
    by_cases ht : st.terminating = true <;> simp [ht]
  · intro hnt
    unfold terminate
    simp only [hnt, Bool.false_eq_true, if_false]
    refine ⟨fun w e s hmem => ?_, fun hs => ?_, fun hd => ?_, fun w h hmem => ?_, by simp, by simp⟩
    · obtain ⟨a1, a2, a3⟩ := Aux.termWorker_acts w e s
      have hin : ∀ a, a ∈ (termWorker (w, .proc e s)).1 → a ∈ (st.workers.map termWorker).flatMap (·.1) := by
        intro a ha
        rw [List.mem_flatMap]
        exact ⟨termWorker (w, .proc e s), List.mem_map_of_mem hmem, ha⟩
      exact ⟨List.mem_append_left _ (List.mem_append_left _ (hin _ a1)),
             List.mem_append_left _ (List.mem_append_left _ (hin _ a2)),
             fun h1 h2 => List.mem_append_left _ (List.mem_append_left _ (hin _ (a3 h1 h2)))⟩
    · simp [hs]
    · simp [hd]
    · simp only [List.map_map, List.mem_map] at hmem
      obtain ⟨p, _, hp⟩ := hmem
      have := Aux.termWorker_dead p
      have h2 : (termWorker p).2.2 = h := by
        have := congrArg Prod.snd hp; simpa using this
      rw [h2] at this; exact this

/-- SEGMENTS (partial). After `terminate` no shared-memory segment of the host remains, PROVIDED the shm
server was still alive (it is asked to shut down and unlinks everything) or had died through SIGTERM
(its handler unlinks everything). Excluded class: the shm server was SIGKILLed — see
`c05_segments_full_fails` (known finding C05-shm-sigkill-leak). -/
theorem c05_segments_partial (st : ExecSt) (hnt : st.terminating = false) :
    (st.shm = none → (terminate st).2.segments = []) ∧
    (terminate (shmDies st .sigterm)).2.segments = [] := by
  constructor
  · intro h; simp [terminate, hnt, h]
  · simp [terminate, shmDies, hnt]

/-- SEGMENTS (full statement fails). Witness: the shm server is SIGKILLed while it holds a segment; nobody
unlinks the segment, `terminate` included. -/
theorem c05_segments_full_fails :
    ¬ ∀ (st : ExecSt) (how : ShmDeath), st.terminating = false → (terminate (shmDies st how)).2.segments = [] := by
  intro h
  have := h { host := "h0", workers := [], shm := none, data := none, terminating := false, segments := ["sCasch0ab"] } .sigkill rfl
  simp [terminate, shmDies] at this

/-! ## non-vacuity -/

def exSt : ExecSt :=
  { host := "h0", workers := [("h0.w0", .proc none false), ("h0.w1", .proc (some 0) false)], shm := none, data := none, terminating := false }

def exCtrl : Ctrl :=
  { status := .running, requested := ["sink|o"], outputs := [], remaining := 1, hosts := ["h0"], shutdownCalls := 0, shutdownSent := [] }

def exSys : Sys := { exec := exSt, execInbox := [], net := [], ctrlInbox := [], ctrl := exCtrl, delivered := [] }

/-- a worker that exited with code 0 is a dead child, and the real table reports it -/
example : DeadChild exSt := Or.inl ⟨"h0.w1", _, by simp [exSt], Or.inr ⟨0, false, rfl⟩⟩
example : healthcheck Gen.healthTable exSt = some (.workerFailed "h0.w1") := by decide
/-- with the table of the pinned tree (predicate `!= 0`, no `raise`) the same state is NOT detected -/
example : healthcheck { rows := [⟨.worker, .nonzero, false⟩, ⟨.shm, .nonzero, false⟩, ⟨.dataServer, .nonzero, false⟩], workerNoneRaises := false }
    { exSt with data := some (-9) } = none := by decide
example : AllAlive { exSt with workers := [("h0.w0", .proc none false)] } := ⟨by simp, rfl, rfl⟩
/-- the three rounds on the example: the run ends with an error after two shutdown calls, the executor is told to stop -/
example : (ctrlStep (deliver (execTick Gen.healthTable exSys))).ctrl.status = .endedErr := by decide
example : (ctrlStep (deliver (execTick Gen.healthTable exSys))).ctrl.shutdownCalls = 2 := by decide
example : AtExecutor exSys := ⟨rfl, Or.inr (Or.inl ⟨"h0.w1", _, by simp [exSys, exSt], Or.inr ⟨0, false, rfl⟩⟩)⟩
example : Fair [.ctrl, .tick, .ctrl, .deliver, .tick, .ctrl] := ⟨[.ctrl], [.ctrl], [.tick], [], rfl⟩
def exHealthy : ExecSt := { exSt with workers := [("h0.w0", .proc none false)] }
def exSysHealthy : Sys := { exSys with exec := exHealthy }
def exSysDone : Sys :=
  { exSysHealthy with execInbox := [.published "sink|o" true], ctrlInbox := [.payload "sink|o" 51] }
/-- without the failure the same system keeps running: the theorems are not vacuous -/
example : (runSchedule Gen.healthTable exSysHealthy [.tick, .deliver, .ctrl]).ctrl.status = .running := by decide
/-- a healthy run ends ok with the value of the payload -/
example : (runSchedule Gen.healthTable exSysDone [.tick, .deliver, .ctrl, .ctrl]).ctrl.status = .endedOk := by decide
example : (runSchedule Gen.healthTable exSysDone [.tick, .deliver, .ctrl, .ctrl]).ctrl.outputs = [("sink|o", 51)] := by decide
example : (terminate exSt).1 = [.workerShutdown "h0.w0", .workerJoin "h0.w0", .workerShutdown "h0.w1", .workerJoin "h0.w1", .shmShutdown, .shmJoin, .dataKill] := by decide
example : workerBody "w" [] (.systemExit 3) = ⟨[], some 3⟩ := rfl
example : workerBody "w" [] .raisesException = ⟨[.taskFailure "w"], none⟩ := rfl

end EkwVerif.C05
