/-
C05 — a failing task or dying worker-side process fails the run, never hangs it; afterwards no
child process (and, unless the shm server was SIGKILLed, no shared-memory segment) is left behind.

Theorems over `Model/Failure.lean`, instantiated with the tables generated from the source
(`Gen/Health.lean`: Executor.healthcheck; `Gen/ShmEntry.lean`: the ways out of the shm server's request loop and
whether `entrypoint` runs the exit handler on each of them). What is NOT proved here (sampled by the real-cluster fault runs instead): that
the OS really delivers exit codes / removes processes and /dev/shm files, wall-clock bounds, and the
bounded delivery of an acknowledged message (C06).
-/
import EkwVerif.Model.Failure
import EkwVerif.Gen.Health
import EkwVerif.Gen.ShmEntry

namespace EkwVerif.C05
open EkwVerif.Failure

/-- some child of the executor is not running: a worker that was never started or has an exit
code, or the shm / data server has an exit code (whatever the code, 0 included) -/
def DeadChild (st : ExecSt) : Prop :=
  (∃ w h, (w, h) ∈ st.workers ∧ (h = .notStarted ∨ ∃ c s, h = .proc (some c) s))
  ∨ st.shm.isSome = true ∨ st.data.isSome = true

/-- every child is running -/
def AllAlive (st : ExecSt) : Prop :=
  (∀ w h, (w, h) ∈ st.workers → ∃ s, h = .proc none s) ∧ st.shm = none ∧ st.data = none

/-- a failure the executor can see: a TaskFailure in its queue or a dead child -/
def ExecFailurePending (st : ExecSt) (inbox : List EMsg) : Prop :=
  (∃ w, EMsg.taskFailure w ∈ inbox) ∨ DeadChild st

def HasFailure (l : List CMsg) : Prop := ∃ m ∈ l, m.isFailure = true

/-- stage 0 of the propagation: the failure is visible to a live executor -/
def AtExecutor (s : Sys) : Prop := s.exec.terminating = false ∧ ExecFailurePending s.exec s.execInbox

/-- the controller's loop is not waiting any more (proof-internal; the property-level notion is `Ended`) -/
def NotRunning (s : Sys) : Prop := s.ctrl.status ≠ .running

/-- `run` has RETURNED or RAISED. `CtrlStatus.starved` (the loop would poll for ever) is deliberately NOT an end. -/
def Ended (s : Sys) : Prop := s.ctrl.status = .endedOk ∨ s.ctrl.status = .endedErr

/-- a schedule in which, in this order, the executor ticks, the network delivers, the controller receives
(anything may happen before, between and after) -/
def Fair (sched : List Step) : Prop :=
  ∃ a b c d, sched = a ++ [Step.tick] ++ b ++ [Step.deliver] ++ c ++ [Step.ctrl] ++ d

namespace Aux

theorem health_all_raise : Gen.health_all_raise = true := by decide

/-- the generated fact about cascade/shm/server.py: `entrypoint` runs `server.atexit` on EVERY path out of
`server.start()` (normal return and exception), the handler unlinks, ShutdownCommand leaves the loop, SIGTERM/SIGINT
are handled by the exit handler -/
theorem shm_entry_clean : Gen.shm_entry_clean = true := by decide

theorem entryClean_spec (e : ShmEntry) (h : entryClean e = true) :
    e.cleansOn .returned = true ∧ e.cleansOn .raised = true ∧ e.shutdownBreaks = true ∧
    e.sigtermHandler = true ∧ e.sigintHandler = true ∧ e.atexitUnlinks = true := by
  simp only [entryClean, List.all_cons, List.all_nil, Bool.and_true, Bool.and_eq_true] at h
  obtain ⟨⟨⟨⟨h1, h2⟩, h3⟩, h4⟩, h5⟩ := h
  refine ⟨h1, h2, h3, h4, h5, ?_⟩
  simp only [ShmEntry.cleansOn, Bool.and_eq_true] at h1
  exact h1.1

/-- with a clean table, every death of the shm server except SIGKILL leaves no segment, at once -/
theorem shmDies_segments (e : ShmEntry) (h : entryClean e = true) (st : ExecSt) (how : ShmDeath) (hk : how ≠ .sigkill) :
    (shmDies e st how).segments = [] := by
  obtain ⟨_, h2, _, h4, h5, h6⟩ := entryClean_spec e h
  cases how with
  | sigterm => simp [shmDies, shmSignalled, h4, h6]
  | sigint => simp [shmDies, shmSignalled, h5, h6]
  | sigkill => exact absurd rfl hk
  | loopException => simp [shmDies, h2]

theorem shmDies_dead (e : ShmEntry) (st : ExecSt) (how : ShmDeath) : (shmDies e st how).shm.isSome = true := by
  cases how <;> simp [shmDies, shmSignalled] <;> split <;> rfl

theorem shmDies_terminating (e : ShmEntry) (st : ExecSt) (how : ShmDeath) : (shmDies e st how).terminating = st.terminating := by
  cases how <;> simp [shmDies, shmSignalled] <;> split <;> rfl

theorem terminateWith_terminating (os : Os) (st : ExecSt) : (terminateWith os st).2.terminating = true := by
  unfold terminateWith
  by_cases ht : st.terminating = true <;> simp [ht]

theorem terminateWith_of_terminating (os : Os) (s : ExecSt) (h : s.terminating = true) : terminateWith os s = ([], s) := by
  simp [terminateWith, h]

/-- a shm server that has already exited is left alone: its segments are what they are -/
theorem terminateWith_dead_shm_segments (os : Os) (st : ExecSt) (h : st.shm.isSome = true) :
    (terminateWith os st).2.segments = st.segments := by
  unfold terminateWith
  by_cases ht : st.terminating = true
  · simp [ht]
  · cases hs : st.shm with
    | none => rw [hs] at h; cases h
    | some c => simp [ht, termShmWith, hs]

theorem terminate_keeps_segments_nil (os : Os) (st : ExecSt) (hd : st.shm.isSome = true) (h : st.segments = []) :
    (terminateWith os st).2.segments = [] := by
  rw [terminateWith_dead_shm_segments os st hd]; exact h

theorem holds_none (p : FailPred) : p.holds none = false := by cases p <;> rfl

theorem classFails_none (t : HealthTable) (c : ChildClass) : classFails t c none = false := by
  unfold classFails
  rw [Bool.eq_false_iff]
  intro h
  rw [List.any_eq_true] at h
  obtain ⟨r, _, hr⟩ := h
  simp [rowFails, holds_none] at hr

theorem classFails_of_allRaise {t : HealthTable} (h : allRaise t = true) (c : ChildClass) (code : Int) :
    classFails t c (some code) = true := by
  unfold allRaise at h
  simp only [List.all_cons, List.all_nil, Bool.and_true, Bool.and_eq_true, List.any_eq_true] at h
  obtain ⟨⟨hw, hs, hd⟩, _⟩ := h
  have key : ∀ c', (∃ r, r ∈ t.rows ∧ ((r.child == c') = true ∧ r.raises = true) ∧ (r.pred == FailPred.exited) = true) →
      classFails t c' (some code) = true := by
    intro c' ⟨r, hr, ⟨h1, h2⟩, h3⟩
    unfold classFails
    rw [List.any_eq_true]
    refine ⟨r, hr, ?_⟩
    simp only [beq_iff_eq] at h1 h3
    simp [rowFails, h1, h2, h3, FailPred.holds]
  cases c
  · exact key _ hw
  · exact key _ hs
  · exact key _ hd

theorem noneRaises_of_allRaise {t : HealthTable} (h : allRaise t = true) : t.workerNoneRaises = true := by
  unfold allRaise at h
  simp only [Bool.and_eq_true] at h
  exact h.2

theorem findSome_isSome {α β} (f : α → Option β) : ∀ (l : List α) (x : α), x ∈ l → (f x).isSome = true →
    (l.findSome? f).isSome = true
  | [], _, hx, _ => by cases hx
  | y :: ys, x, hx, hf => by
    rw [List.findSome?_cons]
    cases hy : f y with
    | some b => simp
    | none =>
      simp only
      rcases List.mem_cons.1 hx with rfl | hx'
      · rw [hy] at hf; cases hf
      · exact findSome_isSome f ys x hx' hf

theorem findSome_none {α β} (f : α → Option β) : ∀ (l : List α), (∀ x ∈ l, f x = none) → l.findSome? f = none
  | [], _ => rfl
  | y :: ys, h => by
    rw [List.findSome?_cons, h y (List.mem_cons_self ..)]
    exact findSome_none f ys (fun x hx => h x (List.mem_cons_of_mem _ hx))

/-- generic detection: with a table in which every branch raises on any exit, a dead child makes healthcheck raise -/
theorem detects_of_allRaise {t : HealthTable} (hall : allRaise t = true) (st : ExecSt) (h : DeadChild st) :
    (healthcheck t st).isSome = true := by
  unfold healthcheck
  rcases h with ⟨w, hd, hmem, hdead⟩ | hs | hdata
  · have : (st.workers.findSome? (workerCheck t)).isSome = true := by
      apply findSome_isSome _ _ (w, hd) hmem
      rcases hdead with rfl | ⟨c, s, rfl⟩
      · simp [workerCheck, noneRaises_of_allRaise hall]
      · simp [workerCheck, classFails_of_allRaise hall]
    cases hfs : st.workers.findSome? (workerCheck t) with
    | some e => rfl
    | none => rw [hfs] at this; cases this
  · cases hfs : st.workers.findSome? (workerCheck t) with
    | some e => rfl
    | none =>
      cases hshm : st.shm with
      | none => rw [hshm] at hs; cases hs
      | some c => simp [classFails_of_allRaise hall]
  · cases hfs : st.workers.findSome? (workerCheck t) with
    | some e => rfl
    | none =>
      cases hd : st.data with
      | none => rw [hd] at hdata; cases hdata
      | some c =>
        simp only [classFails_of_allRaise hall]
        split <;> rfl

theorem no_false_alarm (t : HealthTable) (st : ExecSt) (h : AllAlive st) : healthcheck t st = none := by
  obtain ⟨hw, hs, hd⟩ := h
  unfold healthcheck
  have : st.workers.findSome? (workerCheck t) = none := by
    apply findSome_none
    intro ⟨w, hnd⟩ hx
    obtain ⟨s, rfl⟩ := hw w hnd hx
    simp [workerCheck, classFails_none]
  rw [this, hs, hd]
  simp [classFails_none]

/-! ### the recv_loop iteration -/

theorem processMsgs_spec (st : ExecSt) : ∀ (inbox : List EMsg),
    match (processMsgs st inbox).2.2 with
    | .done => (processMsgs st inbox).1 = st ∧
               ((∃ w, EMsg.taskFailure w ∈ inbox) → EOut.toController .taskFailure ∈ (processMsgs st inbox).2.1)
    | .broke => EOut.toController (.executorExit st.host) ∈ (processMsgs st inbox).2.1 ∧ (processMsgs st inbox).1.terminating = true
    | .raised => True
  | [] => by simp [processMsgs]
  | m :: rest => by
    have ih := processMsgs_spec st rest
    cases m with
    | taskSequence w =>
      simp only [processMsgs]
      by_cases ha : workerAlive st w = true
      · simp only [ha, if_true]
        generalize processMsgs st rest = r at ih ⊢
        obtain ⟨s', o, stt⟩ := r
        cases stt <;> simp_all <;> (try exact ih.2)
      · simp [ha]
    | ack =>
      simp only [processMsgs]
      generalize processMsgs st rest = r at ih ⊢
      obtain ⟨s', o, stt⟩ := r
      cases stt <;> simp_all <;> (try exact ih.2)
    | purge =>
      simp only [processMsgs]
      generalize processMsgs st rest = r at ih ⊢
      obtain ⟨s', o, stt⟩ := r
      cases stt <;> simp_all <;> (try exact ih.2)
    | executorShutdown =>
      simp only [processMsgs]
      refine ⟨List.mem_cons_self .., ?_⟩
      exact terminateWith_terminating posix st
    | taskFailure w =>
      simp only [processMsgs]
      generalize processMsgs st rest = r at ih ⊢
      obtain ⟨s', o, stt⟩ := r
      cases stt <;> simp_all <;> (try exact ih.2)
    | published ds c =>
      simp only [processMsgs]
      generalize processMsgs st rest = r at ih ⊢
      obtain ⟨s', o, stt⟩ := r
      cases stt <;> simp_all <;> (try exact ih.2)
    | transmitFailure =>
      simp only [processMsgs]
      generalize processMsgs st rest = r at ih ⊢
      obtain ⟨s', o, stt⟩ := r
      cases stt <;> simp_all <;> (try exact ih.2)
    | other => simp [processMsgs]

theorem mem_ctrl_of_mem {m : CMsg} {l : List EOut} (h : EOut.toController m ∈ l) : m ∈ l.filterMap EOut.ctrl? := by
  rw [List.mem_filterMap]
  exact ⟨_, h, rfl⟩

/-- a live executor that sees a failure sends a failure-class message to the controller in this very iteration -/
theorem tick_reports {t : HealthTable} (hall : allRaise t = true) (st : ExecSt) (inbox : List EMsg)
    (hnt : st.terminating = false) (hp : ExecFailurePending st inbox) :
    HasFailure ((tick t st inbox).2.filterMap EOut.ctrl?) := by
  have spec := processMsgs_spec st inbox
  unfold tick
  simp only [hnt, Bool.false_eq_true, if_false]
  cases hs : (processMsgs st inbox).2.2 with
  | raised =>
    simp only [if_true]
    exact ⟨.executorFailure st.host, mem_ctrl_of_mem (by simp), rfl⟩
  | broke =>
    rw [hs] at spec
    simp only
    have hin := spec.1
    split
    · exact ⟨.executorExit st.host, mem_ctrl_of_mem (by simp [hin]), rfl⟩
    · exact ⟨.executorExit st.host, mem_ctrl_of_mem hin, rfl⟩
  | done =>
    rw [hs] at spec
    obtain ⟨hst, htf⟩ := spec
    simp only
    rcases hp with htask | hdead
    · have hin := htf htask
      split
      · exact ⟨.taskFailure, mem_ctrl_of_mem (by simp [hin]), rfl⟩
      · exact ⟨.taskFailure, mem_ctrl_of_mem hin, rfl⟩
    · have hh : (healthcheck t (processMsgs st inbox).1).isSome = true := by
        rw [hst]; exact detects_of_allRaise hall st hdead
      rw [hst] at hh ⊢
      simp only [hnt, hh, Bool.not_false, Bool.and_self, if_true]
      exact ⟨.executorFailure st.host, mem_ctrl_of_mem (by simp), rfl⟩

/-- a healthcheck failure or an exception in the loop also tears the executor down -/
theorem tick_terminates_on_dead_child {t : HealthTable} (hall : allRaise t = true) (st : ExecSt)
    (hnt : st.terminating = false) (hd : DeadChild st) : (tick t st []).1.terminating = true := by
  have hh := detects_of_allRaise hall st hd
  simp [tick, hnt, processMsgs, hh, terminate, terminateWith_terminating]

/-! ### the iteration with its environment inputs (heartbeat due, retry budget exhausted) -/

theorem tickEnv_plain (t : HealthTable) (st : ExecSt) (inbox : List EMsg) : tickEnv t st inbox false false = tick t st inbox := by
  unfold tickEnv tick
  by_cases ht : st.terminating = true
  · simp [ht]
  · simp only [ht, Bool.false_eq_true, if_false]
    cases hs : (processMsgs st inbox).2.2 <;> simp <;> split <;> simp_all

/-- whatever the environment inputs: a live executor that sees a failure reports it in this very iteration -/
theorem tickEnv_reports {t : HealthTable} (hall : allRaise t = true) (st : ExecSt) (inbox : List EMsg) (hb rt : Bool)
    (hnt : st.terminating = false) (hp : ExecFailurePending st inbox) :
    HasFailure ((tickEnv t st inbox hb rt).2.filterMap EOut.ctrl?) := by
  have spec := processMsgs_spec st inbox
  unfold tickEnv
  simp only [hnt, Bool.false_eq_true, if_false]
  cases hs : (processMsgs st inbox).2.2 with
  | raised =>
    exact ⟨.executorFailure st.host, mem_ctrl_of_mem (by simp), rfl⟩
  | broke =>
    rw [hs] at spec
    have hin := spec.1
    simp only
    split
    · exact ⟨.executorExit st.host, mem_ctrl_of_mem (by simp [hin]), rfl⟩
    · split
      · exact ⟨.executorExit st.host, mem_ctrl_of_mem (by simp [hin]), rfl⟩
      · exact ⟨.executorExit st.host, mem_ctrl_of_mem (by simp [hin]), rfl⟩
  | done =>
    rw [hs] at spec
    obtain ⟨hst, htf⟩ := spec
    simp only
    rcases hp with htask | hdead
    · have hin := htf htask
      split
      · exact ⟨.taskFailure, mem_ctrl_of_mem (by simp [hin]), rfl⟩
      · split
        · exact ⟨.taskFailure, mem_ctrl_of_mem (by simp [hin]), rfl⟩
        · exact ⟨.taskFailure, mem_ctrl_of_mem (by simp [hin]), rfl⟩
    · have hh : (healthcheck t (processMsgs st inbox).1).isSome = true := by
        rw [hst]; exact detects_of_allRaise hall st hdead
      rw [hst] at hh ⊢
      simp only [hnt, hh, Bool.not_false, Bool.and_self, if_true]
      exact ⟨.executorFailure st.host, mem_ctrl_of_mem (by simp), rfl⟩

/-- messages a healthy executor handles without any effect on its own state -/
def Benign (st : ExecSt) : EMsg → Prop
  | .ack | .purge | .published _ _ => True
  | .taskSequence w => workerAlive st w = true
  | _ => False

theorem processMsgs_benign (st : ExecSt) : ∀ (inbox : List EMsg), (∀ m ∈ inbox, Benign st m) →
    (processMsgs st inbox).1 = st ∧ (processMsgs st inbox).2.2 = .done ∧
    ∀ m ∈ (processMsgs st inbox).2.1.filterMap EOut.ctrl?, m.isFailure = false
  | [], _ => by simp [processMsgs]
  | m :: rest, h => by
    have ih := processMsgs_benign st rest (fun x hx => h x (List.mem_cons_of_mem _ hx))
    have hm := h m (List.mem_cons_self ..)
    cases m with
    | taskSequence w =>
      have hw : workerAlive st w = true := hm
      simp only [processMsgs, hw, if_true]
      refine ⟨ih.1, ih.2.1, ?_⟩
      intro x hx
      simp only [List.filterMap_cons, EOut.ctrl?] at hx
      exact ih.2.2 x hx
    | ack => simpa [processMsgs] using ih
    | purge => simpa [processMsgs] using ih
    | published ds c =>
      simp only [processMsgs]
      refine ⟨ih.1, ih.2.1, ?_⟩
      intro x hx
      simp only [List.filterMap_cons, EOut.ctrl?, List.mem_cons] at hx
      rcases hx with rfl | hx
      · rfl
      · exact ih.2.2 x hx
    | executorShutdown => exact absurd hm (by simp [Benign])
    | taskFailure w => exact absurd hm (by simp [Benign])
    | transmitFailure => exact absurd hm (by simp [Benign])
    | other => exact absurd hm (by simp [Benign])

/-! ### propagation stages -/

def InNet (s : Sys) : Prop := HasFailure s.net
def AtCtrl (s : Sys) : Prop := HasFailure s.ctrlInbox

def Stage0 (s : Sys) : Prop := NotRunning s ∨ AtExecutor s ∨ InNet s ∨ AtCtrl s
def Stage1 (s : Sys) : Prop := NotRunning s ∨ InNet s ∨ AtCtrl s
def Stage2 (s : Sys) : Prop := NotRunning s ∨ AtCtrl s

theorem hasFailure_append_left {a b : List CMsg} (h : HasFailure a) : HasFailure (a ++ b) := by
  obtain ⟨m, hm, hf⟩ := h; exact ⟨m, List.mem_append_left _ hm, hf⟩
theorem hasFailure_append_right {a b : List CMsg} (h : HasFailure b) : HasFailure (a ++ b) := by
  obtain ⟨m, hm, hf⟩ := h; exact ⟨m, List.mem_append_right _ hm, hf⟩

theorem execTick_ctrl (t : HealthTable) (s : Sys) : (execTick t s).ctrl = s.ctrl ∧ (execTick t s).ctrlInbox = s.ctrlInbox
    ∧ (execTick t s).delivered = s.delivered := by
  unfold execTick; split <;> simp

theorem execTick_net (t : HealthTable) (s : Sys) : ∃ extra, (execTick t s).net = s.net ++ extra := by
  unfold execTick; split
  · exact ⟨[], by simp⟩
  · exact ⟨_, rfl⟩

theorem execTick_stage0 {t : HealthTable} (hall : allRaise t = true) (s : Sys) (h : Stage0 s) : Stage1 (execTick t s) := by
  obtain ⟨hc, hi, _⟩ := execTick_ctrl t s
  obtain ⟨extra, hn⟩ := execTick_net t s
  rcases h with he | ⟨hnt, hp⟩ | hn' | hc'
  · exact Or.inl (by unfold NotRunning; rw [hc]; exact he)
  · refine Or.inr (Or.inl ?_)
    have := tick_reports hall s.exec s.execInbox hnt hp
    unfold InNet execTick
    simp only [hnt, Bool.false_eq_true, if_false]
    exact hasFailure_append_right this
  · exact Or.inr (Or.inl (by unfold InNet; rw [hn]; exact hasFailure_append_left hn'))
  · exact Or.inr (Or.inr (by unfold AtCtrl; rw [hi]; exact hc'))

theorem execTick_stage1 (t : HealthTable) (s : Sys) (h : Stage1 s) : Stage1 (execTick t s) := by
  obtain ⟨hc, hi, _⟩ := execTick_ctrl t s
  obtain ⟨extra, hn⟩ := execTick_net t s
  rcases h with he | hn' | hc'
  · exact Or.inl (by unfold NotRunning; rw [hc]; exact he)
  · exact Or.inr (Or.inl (by unfold InNet; rw [hn]; exact hasFailure_append_left hn'))
  · exact Or.inr (Or.inr (by unfold AtCtrl; rw [hi]; exact hc'))

theorem execTick_stage2 (t : HealthTable) (s : Sys) (h : Stage2 s) : Stage2 (execTick t s) := by
  obtain ⟨hc, hi, _⟩ := execTick_ctrl t s
  rcases h with he | hc'
  · exact Or.inl (by unfold NotRunning; rw [hc]; exact he)
  · exact Or.inr (by unfold AtCtrl; rw [hi]; exact hc')

theorem deliver_stage0 (s : Sys) (h : Stage0 s) : Stage0 (deliver s) := by
  rcases h with he | ha | hn | hc
  · exact Or.inl he
  · exact Or.inr (Or.inl ha)
  · exact Or.inr (Or.inr (Or.inr (hasFailure_append_right hn)))
  · exact Or.inr (Or.inr (Or.inr (hasFailure_append_left hc)))

theorem deliver_stage1 (s : Sys) (h : Stage1 s) : Stage2 (deliver s) := by
  rcases h with he | hn | hc
  · exact Or.inl he
  · exact Or.inr (hasFailure_append_right hn)
  · exact Or.inr (hasFailure_append_left hc)

theorem deliver_stage2 (s : Sys) (h : Stage2 s) : Stage2 (deliver s) := by
  rcases h with he | hc
  · exact Or.inl he
  · exact Or.inr (hasFailure_append_left hc)

theorem scan_reason {hosts : List String} {b : List CMsg} (h : HasFailure b) : (scanBatch hosts b).reason = true := by
  obtain ⟨m, hm, hf⟩ := h
  simp only [scanBatch, List.any_eq_true]
  exact ⟨m, hm, hf⟩

/-- what the controller's iteration does: stays running only if it was running, was waiting, and no failure was in its queue -/
theorem ctrlStep_cases (s : Sys) :
    (s.ctrl.status ≠ .running ∧ ctrlStep s = s)
    ∨ (s.ctrl.status = .running ∧ awaitable s.ctrl = false ∧ (ctrlStep s).ctrl.status = .endedOk)
    ∨ (s.ctrl.status = .running ∧ awaitable s.ctrl = true ∧ (scanBatch s.ctrl.hosts s.ctrlInbox).reason = true
        ∧ (ctrlStep s).ctrl.status = .endedErr ∧ (ctrlStep s).ctrl.shutdownCalls = s.ctrl.shutdownCalls + 2)
    ∨ (s.ctrl.status = .running ∧ awaitable s.ctrl = true ∧ (scanBatch s.ctrl.hosts s.ctrlInbox).reason = false
        ∧ (ctrlStep s).exec = s.exec ∧ (ctrlStep s).execInbox = s.execInbox ∧ (ctrlStep s).net = s.net) := by
  unfold ctrlStep
  cases hs : s.ctrl.status with
  | running =>
    simp only
    by_cases ha : awaitable s.ctrl = true
    · by_cases hr : (scanBatch s.ctrl.hosts s.ctrlInbox).reason = true
      · right; right; left
        simp [ha, hr, endRun]
      · right; right; right
        simp [ha, hr]
    · right; left
      simp only [Bool.not_eq_true] at ha
      simp [ha, endRun]
  | endedOk => left; simp
  | endedErr => left; simp
  | starved => left; simp

theorem ctrlStep_stage2 (s : Sys) (h : Stage2 s) : NotRunning (ctrlStep s) := by
  rcases ctrlStep_cases s with ⟨hne, heq⟩ | ⟨_, _, hok⟩ | ⟨_, _, _, herr, _⟩ | ⟨hrun, _, hr, _⟩
  · rw [heq]; exact hne
  · unfold NotRunning; rw [hok]; decide
  · unfold NotRunning; rw [herr]; decide
  · rcases h with he | hc
    · exact absurd hrun he
    · rw [scan_reason hc] at hr; cases hr

theorem ctrlStep_stage0 (s : Sys) (h : Stage0 s) : Stage0 (ctrlStep s) := by
  rcases ctrlStep_cases s with ⟨_, heq⟩ | ⟨_, _, hok⟩ | ⟨_, _, _, herr, _⟩ | ⟨hrun, _, hr, he, hi, hn⟩
  · rw [heq]; exact h
  · left; unfold NotRunning; rw [hok]; decide
  · left; unfold NotRunning; rw [herr]; decide
  · rcases h with hend | ⟨hnt, hp⟩ | hnet | hc
    · exact absurd hrun hend
    · exact Or.inr (Or.inl ⟨by rw [he]; exact hnt, by rw [he, hi]; exact hp⟩)
    · exact Or.inr (Or.inr (Or.inl (by unfold InNet; rw [hn]; exact hnet)))
    · rw [scan_reason hc] at hr; cases hr

theorem ctrlStep_stage1 (s : Sys) (h : Stage1 s) : Stage1 (ctrlStep s) := by
  rcases ctrlStep_cases s with ⟨_, heq⟩ | ⟨_, _, hok⟩ | ⟨_, _, _, herr, _⟩ | ⟨hrun, _, hr, _, _, hn⟩
  · rw [heq]; exact h
  · left; unfold NotRunning; rw [hok]; decide
  · left; unfold NotRunning; rw [herr]; decide
  · rcases h with hend | hnet | hc
    · exact absurd hrun hend
    · exact Or.inr (Or.inl (by unfold InNet; rw [hn]; exact hnet))
    · rw [scan_reason hc] at hr; cases hr

theorem stage1_of_stage2 {s : Sys} (h : Stage2 s) : Stage1 s := by
  rcases h with h | h
  · exact Or.inl h
  · exact Or.inr (Or.inr h)
theorem stage0_of_stage1 {s : Sys} (h : Stage1 s) : Stage0 s := by
  rcases h with h | h | h
  · exact Or.inl h
  · exact Or.inr (Or.inr (Or.inl h))
  · exact Or.inr (Or.inr (Or.inr h))

theorem step_stage0 {t : HealthTable} (hall : allRaise t = true) (s : Sys) (st : Step) (h : Stage0 s) : Stage0 (step t s st) := by
  cases st
  · exact stage0_of_stage1 (execTick_stage0 hall s h)
  · exact deliver_stage0 s h
  · exact ctrlStep_stage0 s h

theorem step_stage1 (t : HealthTable) (s : Sys) (st : Step) (h : Stage1 s) : Stage1 (step t s st) := by
  cases st
  · exact execTick_stage1 t s h
  · exact stage1_of_stage2 (deliver_stage1 s h)
  · exact ctrlStep_stage1 s h

theorem step_stage2 (t : HealthTable) (s : Sys) (st : Step) (h : Stage2 s) : Stage2 (step t s st) := by
  cases st
  · exact execTick_stage2 t s h
  · exact deliver_stage2 s h
  · exact Or.inl (ctrlStep_stage2 s h)

theorem sched_stage0 {t : HealthTable} (hall : allRaise t = true) : ∀ (l : List Step) (s : Sys), Stage0 s → Stage0 (runSchedule t s l)
  | [], _, h => h
  | x :: xs, s, h => sched_stage0 hall xs (step t s x) (step_stage0 hall s x h)
theorem sched_stage1 (t : HealthTable) : ∀ (l : List Step) (s : Sys), Stage1 s → Stage1 (runSchedule t s l)
  | [], _, h => h
  | x :: xs, s, h => sched_stage1 t xs (step t s x) (step_stage1 t s x h)
theorem sched_stage2 (t : HealthTable) : ∀ (l : List Step) (s : Sys), Stage2 s → Stage2 (runSchedule t s l)
  | [], _, h => h
  | x :: xs, s, h => sched_stage2 t xs (step t s x) (step_stage2 t s x h)
theorem sched_ended (t : HealthTable) : ∀ (l : List Step) (s : Sys), NotRunning s → NotRunning (runSchedule t s l)
  | [], _, h => h
  | x :: xs, s, h => by
    apply sched_ended t xs (step t s x)
    cases x
    · unfold NotRunning step; rw [(execTick_ctrl t s).1]; exact h
    · exact h
    · exact ctrlStep_stage2 s (Or.inl h)

theorem runSchedule_append (t : HealthTable) (s : Sys) (a b : List Step) :
    runSchedule t s (a ++ b) = runSchedule t (runSchedule t s a) b := by
  simp [runSchedule, List.foldl_append]

theorem never_hangs_of_allRaise {t : HealthTable} (hall : allRaise t = true) (s : Sys) (sched : List Step)
    (hf : Fair sched) (h0 : Stage0 s) : NotRunning (runSchedule t s sched) := by
  obtain ⟨a, b, c, d, rfl⟩ := hf
  simp only [runSchedule_append]
  apply sched_ended
  have h1 := sched_stage0 hall a s h0
  have h2 : Stage1 (runSchedule t (runSchedule t s a) [Step.tick]) := execTick_stage0 hall _ h1
  have h3 := sched_stage1 t b _ h2
  have h4 : Stage2 (runSchedule t _ [Step.deliver]) := deliver_stage1 _ h3
  have h5 := sched_stage2 t c _ h4
  exact ctrlStep_stage2 _ h5

/-! ### outputs come from payloads -/

theorem mem_setOutput {o : List (String × Int)} {ds : String} {x : Int} {d : String} {v : Int}
    (h : (d, v) ∈ setOutput o ds x) : (d, v) = (ds, x) ∨ (d, v) ∈ o := by
  unfold setOutput at h
  rcases List.mem_cons.1 h with h | h
  · exact Or.inl h
  · exact Or.inr (List.mem_filter.1 h).1

theorem notify_outputs : ∀ (evs : List CMsg) (c : Ctrl) (d : String) (v : Int),
    (d, v) ∈ (evs.foldl notifyOne c).outputs → (d, v) ∈ c.outputs ∨ CMsg.payload d v ∈ evs
  | [], _, _, _, h => Or.inl h
  | e :: es, c, d, v, h => by
    rw [List.foldl_cons] at h
    rcases notify_outputs es (notifyOne c e) d v h with h1 | h1
    · cases e with
      | payload ds x =>
        rcases mem_setOutput h1 with heq | hin
        · right; cases heq; exact List.mem_cons_self ..
        · exact Or.inl hin
      | published ds cm =>
        simp only [notifyOne] at h1
        split at h1 <;> exact Or.inl h1
      | _ => exact Or.inl h1
    · exact Or.inr (List.mem_cons_of_mem _ h1)

theorem notify_requested : ∀ (evs : List CMsg) (c : Ctrl), (evs.foldl notifyOne c).requested = c.requested ∧
    (evs.foldl notifyOne c).status = c.status
  | [], _ => ⟨rfl, rfl⟩
  | e :: es, c => by
    rw [List.foldl_cons]
    have := notify_requested es (notifyOne c e)
    rw [this.1, this.2]
    cases e <;> simp [notifyOne] <;> split <;> simp

/-- invariant: every stored output was read from a payload; a run that ended ok misses nothing -/
def OutInv (s : Sys) : Prop :=
  (∀ d v, (d, v) ∈ s.ctrl.outputs → CMsg.payload d v ∈ s.delivered) ∧
  (s.ctrl.status = .endedOk → missing s.ctrl = false)

theorem ctrlStep_outInv (s : Sys) (h : OutInv s) : OutInv (ctrlStep s) := by
  obtain ⟨h1, h2⟩ := h
  unfold ctrlStep
  cases hs : s.ctrl.status with
  | running =>
    simp only
    by_cases ha : awaitable s.ctrl = true
    · by_cases hr : (scanBatch s.ctrl.hosts s.ctrlInbox).reason = true
      · simp only [ha, hr, Bool.not_true, Bool.false_eq_true, if_false, if_true, endRun]
        exact ⟨fun d v hd => List.mem_append_left _ (h1 d v hd), by simp⟩
      · simp only [ha, hr, Bool.not_true, Bool.false_eq_true, if_false]
        constructor
        · intro d v hd
          rcases notify_outputs _ _ d v hd with hin | hin
          · exact List.mem_append_left _ (h1 d v hin)
          · exact List.mem_append_right _ (List.mem_filter.1 hin).1
        · intro hok
          rw [(notify_requested _ _).2] at hok
          simp only at hok
          rw [hs] at hok; cases hok
    · simp only [Bool.not_eq_true] at ha
      simp only [ha, Bool.not_false, if_true, endRun]
      refine ⟨fun d v hd => List.mem_append_left _ (h1 d v hd), fun _ => ?_⟩
      unfold awaitable at ha
      simp only [Bool.or_eq_false_iff] at ha
      simpa [missing] using ha.2
  | endedOk => simp only; exact ⟨h1, h2⟩
  | endedErr => simp only; exact ⟨h1, h2⟩
  | starved => simp only; exact ⟨h1, h2⟩

theorem step_outInv (t : HealthTable) (s : Sys) (st : Step) (h : OutInv s) : OutInv (step t s st) := by
  cases st
  · obtain ⟨hc, _, hd⟩ := execTick_ctrl t s
    unfold OutInv step; rw [hc, hd]; exact h
  · exact h
  · exact ctrlStep_outInv s h

theorem sched_outInv (t : HealthTable) : ∀ (l : List Step) (s : Sys), OutInv s → OutInv (runSchedule t s l)
  | [], _, h => h
  | x :: xs, s, h => sched_outInv t xs (step t s x) (step_outInv t s x h)

theorem lookup_some_mem {d : String} : ∀ {o : List (String × Int)}, (o.lookup d).isNone = false → ∃ v, (d, v) ∈ o
  | [], h => by simp at h
  | (k, x) :: o', h => by
    by_cases hk : d = k
    · subst hk; exact ⟨x, List.mem_cons_self ..⟩
    · have hne : (d == k) = false := by simpa using hk
      rw [List.lookup_cons, hne] at h
      obtain ⟨v, hv⟩ := lookup_some_mem (o := o') h
      exact ⟨v, List.mem_cons_of_mem _ hv⟩

theorem notify_calls : ∀ (evs : List CMsg) (c : Ctrl), (evs.foldl notifyOne c).shutdownCalls = c.shutdownCalls
  | [], _ => rfl
  | e :: es, c => by
    rw [List.foldl_cons, notify_calls es (notifyOne c e)]
    cases e <;> simp [notifyOne] <;> split <;> simp

theorem run_finally : ∀ (fuel : Nat) (c : Ctrl) (stream : List (List CMsg)), c.status = .running →
    ((runLoop fuel c stream).status = .endedOk ∨ (runLoop fuel c stream).status = .endedErr) →
    (runLoop fuel c stream).shutdownCalls ≥ c.shutdownCalls + 1
  | 0, c, _, hrun, h => by
    simp only [runLoop] at h
    rw [hrun] at h
    rcases h with h | h <;> cases h
  | fuel + 1, c, stream, hrun, h => by
    unfold runLoop at h ⊢
    by_cases ha : awaitable c = true
    · simp only [ha, Bool.not_true, Bool.false_eq_true, if_false] at h ⊢
      cases hre : recvEvents c.hosts stream with
      | starved hosts =>
        rw [hre] at h
        simp only at h
        rcases h with h | h <;> cases h
      | raised sentTo left rest =>
        simp only [doShutdown]
        omega
      | events ev hosts rest =>
        rw [hre] at h
        simp only at h ⊢
        have hst : (ev.foldl notifyOne { c with hosts := hosts }).status = .running := by
          rw [(notify_requested _ _).2]; exact hrun
        have := run_finally fuel _ rest hst h
        rw [notify_calls] at this
        exact this
    · simp only [Bool.not_eq_true] at ha
      simp only [ha, Bool.not_false, if_true, doShutdown]
      omega

/-! ### `starved` is not an end, and is never produced -/

theorem ctrlStep_status (s : Sys) :
    (ctrlStep s).ctrl.status = s.ctrl.status ∨ (ctrlStep s).ctrl.status = .endedOk ∨ (ctrlStep s).ctrl.status = .endedErr := by
  unfold ctrlStep
  cases hs : s.ctrl.status with
  | running =>
    simp only
    by_cases ha : awaitable s.ctrl = true
    · by_cases hr : (scanBatch s.ctrl.hosts s.ctrlInbox).reason = true
      · right; right; simp [ha, hr, endRun]
      · left
        simp only [ha, hr, Bool.not_true, Bool.false_eq_true, if_false]
        rw [(notify_requested _ _).2]
        exact hs
    · right; left
      simp only [Bool.not_eq_true] at ha
      simp [ha, endRun]
  | endedOk => left; simp [hs]
  | endedErr => left; simp [hs]
  | starved => left; simp [hs]

/-- `starved` is never produced by a step: a system that is not starved never becomes so -/
theorem step_notStarved (t : HealthTable) (s : Sys) (st : Step) (h : s.ctrl.status ≠ .starved) : (step t s st).ctrl.status ≠ .starved := by
  cases st
  · show (execTick t s).ctrl.status ≠ _
    rw [(execTick_ctrl t s).1]; exact h
  · exact h
  · show (ctrlStep s).ctrl.status ≠ _
    rcases ctrlStep_status s with h1 | h1 | h1 <;> rw [h1]
    · exact h
    · decide
    · decide

theorem sched_notStarved (t : HealthTable) : ∀ (l : List Step) (s : Sys), s.ctrl.status ≠ .starved → (runSchedule t s l).ctrl.status ≠ .starved
  | [], _, h => h
  | x :: xs, s, h => sched_notStarved t xs (step t s x) (step_notStarved t s x h)

theorem ended_of {s : Sys} (h1 : NotRunning s) (h2 : s.ctrl.status ≠ .starved) : Ended s := by
  unfold NotRunning at h1
  unfold Ended
  cases hs : s.ctrl.status with
  | running => exact absurd hs h1
  | endedOk => exact Or.inl rfl
  | endedErr => exact Or.inr rfl
  | starved => exact absurd hs h2

/-! ### teardown -/

theorem termWorker_dead (os : Os) (hk : os.killed.isSome = true) (p : String × Handle) :
    (termWorkerWith os p).2.2 = .notStarted ∨ ∃ c s, (termWorkerWith os p).2.2 = .proc (some c) s := by
  obtain ⟨w, h⟩ := p
  cases h with
  | notStarted => left; rfl
  | proc e s =>
    right
    cases e with
    | some c => exact ⟨c, s, rfl⟩
    | none =>
      simp only [termWorkerWith]
      cases hw : os.workerExit s with
      | some c => exact ⟨c, s, rfl⟩
      | none =>
        cases hkk : os.killed with
        | none => rw [hkk] at hk; cases hk
        | some c => exact ⟨c, s, rfl⟩

theorem termWorker_acts (os : Os) (w : String) (e : Option Int) (s : Bool) :
    TermAct.workerShutdown w ∈ (termWorkerWith os (w, .proc e s)).1 ∧ TermAct.workerJoin w ∈ (termWorkerWith os (w, .proc e s)).1 ∧
    (e = none → os.workerExit s = none → TermAct.workerKill w ∈ (termWorkerWith os (w, .proc e s)).1) := by
  cases e with
  | some c => simp [termWorkerWith]
  | none =>
    simp only [termWorkerWith]
    cases hw : os.workerExit s <;> simp

theorem termShm_spec (os : Os) (hk : os.killed.isSome = true) (st : ExecSt) :
    (termShmWith os st).2.1.isSome = true ∧
    (st.shm = none → TermAct.shmShutdown ∈ (termShmWith os st).1 ∧
      ((os.shmReply st.shmMode = false ∨ (os.shmExit st.shmMode st.segments).2 = none) → TermAct.shmKill ∈ (termShmWith os st).1)) := by
  unfold termShmWith
  cases hs : st.shm with
  | some c => simp
  | none =>
    by_cases hr : os.shmReply st.shmMode = true
    · cases he : (os.shmExit st.shmMode st.segments).2 with
      | some c => simp [hr, he]
      | none => simp [hr, he, hk]
    · simp [hr, hk]

theorem termData_spec (os : Os) (hk : os.killed.isSome = true) (st : ExecSt) :
    (termDataWith os st).2.isSome = true ∧ (st.data = none → TermAct.dataKill ∈ (termDataWith os st).1) := by
  unfold termDataWith
  cases hs : st.data <;> simp [hk]

/-! ### the table side condition is NECESSARY for detection (witness states: one child, exit code 0 / never started) -/

theorem holds_zero (p : FailPred) : p.holds (some 0) = (p == .exited) := by
  cases p <;> rfl

theorem exitedRow_of_classFails_zero (t : HealthTable) (c : ChildClass) (h : classFails t c (some 0) = true) :
    t.rows.any (fun r => r.child == c && r.raises && r.pred == .exited) = true := by
  unfold classFails at h
  rw [List.any_eq_true] at h ⊢
  obtain ⟨r, hr, hx⟩ := h
  refine ⟨r, hr, ?_⟩
  simp only [rowFails, holds_zero, Bool.and_eq_true] at hx ⊢
  exact ⟨⟨hx.1, hx.2.1⟩, hx.2.2⟩

def oneWorker (h : Handle) : ExecSt := { host := "h", workers := [("h.w0", h)], shm := none, data := none, terminating := false }
def noWorker (shm data : Option Int) : ExecSt := { host := "h", workers := [], shm := shm, data := data, terminating := false }

theorem allRaise_of_detects (t : HealthTable) (h : ∀ st : ExecSt, DeadChild st → (healthcheck t st).isSome = true) :
    allRaise t = true := by
  have hw := h (oneWorker (.proc (some 0) false)) (Or.inl ⟨"h.w0", _, by simp [oneWorker], Or.inr ⟨0, false, rfl⟩⟩)
  have hn := h (oneWorker .notStarted) (Or.inl ⟨"h.w0", _, by simp [oneWorker], Or.inl rfl⟩)
  have hs := h (noWorker (some 0) none) (Or.inr (Or.inl rfl))
  have hd := h (noWorker none (some 0)) (Or.inr (Or.inr rfl))
  simp only [healthcheck, oneWorker, noWorker, List.findSome?, workerCheck, classFails_none] at hw hn hs hd
  have hw' : classFails t .worker (some 0) = true := by
    by_cases hc : classFails t .worker (some 0) = true
    · exact hc
    · simp [hc] at hw
  have hn' : t.workerNoneRaises = true := by
    by_cases hc : t.workerNoneRaises = true
    · exact hc
    · simp [hc] at hn
  have hs' : classFails t .shm (some 0) = true := by
    by_cases hc : classFails t .shm (some 0) = true
    · exact hc
    · simp [hc] at hs
  have hd' : classFails t .dataServer (some 0) = true := by
    by_cases hc : classFails t .dataServer (some 0) = true
    · exact hc
    · simp [hc] at hd
  simp [allRaise, exitedRow_of_classFails_zero t _ hw', exitedRow_of_classFails_zero t _ hs', exitedRow_of_classFails_zero t _ hd', hn']

end Aux

/-! ## the property theorems -/

/-- DETECTION. For the healthcheck DESCRIBED BY THE GENERATED TABLE `Gen.healthTable` (side condition by `decide`):
whenever some worker-side child has exited — any exit code, 0 included — or was never started, the next `healthcheck` raises.
The quantifier over ALL exit codes is a statement about the table's predicate classes (`exited`: `exitcode is not None`,
`nonzero`, `never`). That the SOURCE predicate is in the class the table names is established outside Lean, by the translator
`health` of harness/ekw/props/c05.py: it reads the tests of `Executor.healthcheck` STRUCTURALLY (`x is None`, `x is not None`,
comparisons of the exit code with integer literals, `in (literals)`, truth value, not/and/or, one-parameter lambda helpers
inlined; if/elif chains combined in order) and decides the class exactly (a Boolean combination of such atoms is constant
between consecutive literals, so its values on None and on every literal and its neighbours decide it); any other shape, or
a predicate in none of the three classes (e.g. `ex is not None and ex != -2`), is reported as a broken tie, and the check then
calls the real healthcheck with every exit code None, -255..255 for each kind of child and reports a code that goes unnoticed
as a failing input. -/
theorem c05_detects (st : ExecSt) (h : DeadChild st) : (healthcheck Gen.healthTable st).isSome = true :=
  Aux.detects_of_allRaise Aux.health_all_raise st h

/-- DETECTION, CHARACTERISED. For ANY table of the model's shape (whatever the translator produces from whatever source):
every dead child is detected IF AND ONLY IF the side condition `allRaise` holds. So the side condition that `decide` checks on
the generated table is not merely sufficient: a healthcheck whose test for some kind of child is not of class `exited`
(`nonzero`: exit code 0 goes unnoticed, the pinned defect C05-healthcheck-exit0; `never`), or whose branch does not `raise`,
or that lets a never-started worker pass, PROVABLY misses a dead child (witnesses: an executor with one child that has ended
with exit code 0, or one never-started worker). -/
theorem c05_detects_iff_table (t : HealthTable) :
    (∀ st : ExecSt, DeadChild st → (healthcheck t st).isSome = true) ↔ allRaise t = true :=
  ⟨Aux.allRaise_of_detects t, fun h st hd => Aux.detects_of_allRaise h st hd⟩

/-- non-vacuity: the pinned tree's table (the shm/data-server branches were bare `ValueError(...)` expressions, not raises) and a
`nonzero` worker test both fail detection -/
example : ¬ ∀ st : ExecSt, DeadChild st →
    (healthcheck { rows := [⟨.worker, .exited, true⟩, ⟨.shm, .exited, false⟩, ⟨.dataServer, .exited, false⟩], workerNoneRaises := true } st).isSome = true := by
  rw [c05_detects_iff_table]; decide
example : ¬ ∀ st : ExecSt, DeadChild st →
    (healthcheck { rows := [⟨.worker, .nonzero, true⟩, ⟨.shm, .exited, true⟩, ⟨.dataServer, .exited, true⟩], workerNoneRaises := true } st).isSome = true := by
  rw [c05_detects_iff_table]; decide

/-- ... and it raises only then: with every child running the healthcheck is silent (no spurious failure). -/
theorem c05_detects_only (st : ExecSt) (h : AllAlive st) : healthcheck Gen.healthTable st = none :=
  Aux.no_false_alarm _ st h

/-- WORKER BODY. A task raising an `Exception` yields a TaskFailure message from a worker that lives on;
`sys.exit`, another BaseException or a signal ends the process with an exit code and without TaskFailure
(so only the healthcheck can notice). Publications made before the crash point are sent either way. -/
theorem c05_worker_body (w : String) (pubs : List EMsg) (o : TaskOutcome) :
    (o = .raisesException → (workerBody w pubs o).exit = none ∧ EMsg.taskFailure w ∈ (workerBody w pubs o).msgs) ∧
    (o ≠ .raisesException → (workerBody w pubs o).msgs = pubs) ∧
    ((workerBody w pubs o).exit = none ↔ (o = .returns ∨ o = .raisesException)) := by
  cases o <;> simp [workerBody]

/-- RECV_LOOP. A live (not terminating) executor that has a TaskFailure in its queue or a dead child sends,
in this very iteration, a message of the class that makes the controller shut down and raise
(TaskFailure forwarded, or ExecutorFailure, or ExecutorExit when a shutdown request was being served). -/
theorem c05_tick_reports (st : ExecSt) (inbox : List EMsg) (hnt : st.terminating = false)
    (hp : ExecFailurePending st inbox) :
    HasFailure ((tick Gen.healthTable st inbox).2.filterMap EOut.ctrl?) :=
  Aux.tick_reports Aux.health_all_raise st inbox hnt hp

/-- RECV_LOOP with its environment. The same for `tickEnv`, i.e. whether or not the heartbeat is due and whether or
not `sender.maybe_retry()` raises in this iteration; `tick` is the instance with both inputs false. -/
theorem c05_tick_env_reports (st : ExecSt) (inbox : List EMsg) (hb rt : Bool) (hnt : st.terminating = false)
    (hp : ExecFailurePending st inbox) :
    HasFailure ((tickEnv Gen.healthTable st inbox hb rt).2.filterMap EOut.ctrl?) ∧
    tickEnv Gen.healthTable st inbox false false = tick Gen.healthTable st inbox :=
  ⟨Aux.tickEnv_reports Aux.health_all_raise st inbox hb rt hnt hp, Aux.tickEnv_plain _ st inbox⟩

/-- NO SPURIOUS FAILURE (loop level). An executor whose children are all alive, that receives only acks, purges,
publications and task sequences for live workers, and whose sender has not run out of retries, sends no failure-class
message and stays as it is — heartbeat due or not. The ONLY way a healthy executor fails by itself is the retry budget
(`c05_retry_exhausted_fails`). -/
theorem c05_no_spurious_failure (st : ExecSt) (inbox : List EMsg) (hb : Bool) (ha : AllAlive st)
    (hnt : st.terminating = false) (hben : ∀ m ∈ inbox, Aux.Benign st m) :
    (tickEnv Gen.healthTable st inbox hb false).1 = st ∧
    ∀ m ∈ (tickEnv Gen.healthTable st inbox hb false).2.filterMap EOut.ctrl?, m.isFailure = false := by
  obtain ⟨h1, h2, h3⟩ := Aux.processMsgs_benign st inbox hben
  have hh : healthcheck Gen.healthTable st = none := c05_detects_only st ha
  unfold tickEnv
  simp only [hnt, Bool.false_eq_true, if_false, h2, h1, hh, Option.isSome_none, Bool.and_false, Bool.not_false, Bool.true_and]
  refine ⟨trivial, ?_⟩
  intro m hm
  rw [List.filterMap_append, List.mem_append] at hm
  rcases hm with hm | hm
  · exact h3 m hm
  · by_cases hbb : hb = true
    · simp [hbb, EOut.ctrl?] at hm; subst hm; rfl
    · simp [hbb] at hm

/-- RETRY BUDGET. When `sender.maybe_retry()` raises (a message to the controller was not acknowledged within the
retry budget) the executor reports `ExecutorFailure` and tears itself down. -/
theorem c05_retry_exhausted_fails (st : ExecSt) (inbox : List EMsg) (hb : Bool) (hnt : st.terminating = false) :
    HasFailure ((tickEnv Gen.healthTable st inbox hb true).2.filterMap EOut.ctrl?) ∧
    (tickEnv Gen.healthTable st inbox hb true).1.terminating = true := by
  unfold tickEnv
  simp only [hnt, Bool.false_eq_true, if_false]
  have ht : ∀ x, (terminate x).2.terminating = true := fun x => Aux.terminateWith_terminating posix x
  cases hs : (processMsgs st inbox).2.2 <;> simp only <;> (try split) <;>
    exact ⟨⟨.executorFailure st.host, Aux.mem_ctrl_of_mem (by simp), rfl⟩, ht _⟩

/-- TASK CRASH ⇒ REPORT. Whatever way a task body ends other than by returning — an `Exception`, `sys.exit(n)` for any
n (0 included), another `BaseException`, a signal — once the messages the worker sent before are in the executor's queue
and the worker's handle shows what became of the process, the executor's next iteration sends a failure-class message:
either the TaskFailure the worker produced, or an ExecutorFailure because the healthcheck sees the exit code. -/
theorem c05_task_crash_reported (st : ExecSt) (w : String) (stuck : Bool) (pubs inbox : List EMsg) (o : TaskOutcome)
    (ho : o ≠ .returns) (hnt : st.terminating = false) (hw : (w, Handle.proc none stuck) ∈ st.workers) :
    let r := workerBody w pubs o
    let st' : ExecSt := { st with workers := st.workers.map (fun p => if p.1 = w then (w, .proc r.exit stuck) else p) }
    HasFailure ((tick Gen.healthTable st' (inbox ++ r.msgs)).2.filterMap EOut.ctrl?) := by
  intro r st'
  apply c05_tick_reports st' (inbox ++ r.msgs) hnt
  have hmem : (w, Handle.proc r.exit stuck) ∈ st'.workers :=
    List.mem_map.2 ⟨(w, .proc none stuck), hw, by simp⟩
  cases o with
  | returns => exact absurd rfl ho
  | raisesException => exact Or.inl ⟨w, List.mem_append_right _ (by simp [r, workerBody])⟩
  | systemExit c => exact Or.inr (Or.inl ⟨w, _, hmem, Or.inr ⟨c, stuck, rfl⟩⟩)
  | baseException => exact Or.inr (Or.inl ⟨w, _, hmem, Or.inr ⟨1, stuck, rfl⟩⟩)
  | killed sg => exact Or.inr (Or.inl ⟨w, _, hmem, Or.inr ⟨-(sg : Int), stuck, rfl⟩⟩)

/-- BRIDGE. A batch containing a failure-class message makes `recv_events` shut down and raise — whatever
else is in the batch (events do not mask it), and `ExecutorShutdown` goes to every host that has not
itself just reported its exit. -/
theorem c05_bridge_raises (hosts : List String) (b : List CMsg) (rest : List (List CMsg)) (h : HasFailure b) :
    ∃ left rest', recvEvents hosts (b :: rest) = .raised (b.foldl popHost hosts) left rest' := by
  have hr : (scanBatch hosts b).reason = true := Aux.scan_reason h
  refine ⟨(shutdownLoop (scanBatch hosts b).hosts rest).1, (shutdownLoop (scanBatch hosts b).hosts rest).2, ?_⟩
  simp only [recvEvents, hr, if_true]
  rfl

/-- RUN. `impl.run` over any stream of listener batches: if it ends (ok or with an error) then
`bridge.shutdown()` has been called at least once more (`finally`), and a failure-class message in the
batch it is waiting on ends it with an error. -/
theorem c05_run_finally (fuel : Nat) (c : Ctrl) (stream : List (List CMsg)) (hrun : c.status = .running) :
    (((runLoop fuel c stream).status = .endedOk ∨ (runLoop fuel c stream).status = .endedErr) →
      (runLoop fuel c stream).shutdownCalls ≥ c.shutdownCalls + 1) ∧
    (∀ b rest, stream = b :: rest → awaitable c = true → HasFailure b → (runLoop (fuel + 1) c stream).status = .endedErr) := by
  refine ⟨Aux.run_finally fuel c stream hrun, ?_⟩
  intro b rest hs ha hf
  subst hs
  obtain ⟨left, rest', hre⟩ := c05_bridge_raises c.hosts b rest hf
  unfold runLoop
  simp only [ha, Bool.not_true, Bool.false_eq_true, if_false, hre]

/- Where the partiality of the two bounded-time theorems below sits: NOT in a hypothesis but in the step relation. `Step` of
Model/Failure.lean has the constructors `tick`, `deliver`, `ctrl` only, and `deliver` hands EVERYTHING in flight to the
controller's listener: this one-executor model cannot lose a message, so the theorems say nothing about runs in which the
report of the failing executor is lost. (An earlier version carried a hypothesis `LosslessDelivery` that was provable by `rfl`
and never used; it is gone.) Loss is a step of the N-executor model (`StepN.lose`, Model/FailureN.lean): there the hypothesis
`NoLoss sched` of `c05_never_hangs_any_shape_partial` is real, and without it the statement FAILS
(`c05_bounded_full_fails`, Props/C05N.lean: the `ExecutorFailure`/`ExecutorExit` of an executor that then leaves its loop is
sent once and never retried -- known finding C06-exit-unretried; C06 gives delivery only while the sender lives). -/

/-- BOUNDED (three rounds; partial: the model's `deliver` is lossless BY CONSTRUCTION and there is one executor -- any
cluster shape and an explicit loss step: `c05_never_hangs_any_shape_partial`, `c05_bounded_full_fails`).
From any state in which the controller is running and a live executor sees a raised task or a dead child: after one
executor iteration, one delivery and one controller iteration the run HAS ENDED (returned or raised — `starved`
is not an end); it has ended with an error — after at least one `bridge.shutdown()` — whenever the controller was
still waiting for a task or a requested output. -/
theorem c05_bounded_lossless_partial (s : Sys) (hrun : s.ctrl.status = .running) (hp : AtExecutor s) :
    let s' := ctrlStep (deliver (execTick Gen.healthTable s))
    Ended s' ∧
    (awaitable s.ctrl = true → s'.ctrl.status = .endedErr ∧ s'.ctrl.shutdownCalls ≥ s.ctrl.shutdownCalls + 1) := by
  intro s'
  have h1 : Aux.Stage1 (execTick Gen.healthTable s) := Aux.execTick_stage0 Aux.health_all_raise s (Or.inr (Or.inl hp))
  have h2 : Aux.Stage2 (deliver (execTick Gen.healthTable s)) := Aux.deliver_stage1 _ h1
  have hns : s'.ctrl.status ≠ .starved :=
    Aux.sched_notStarved Gen.healthTable [.tick, .deliver, .ctrl] s (by rw [hrun]; decide)
  refine ⟨Aux.ended_of (Aux.ctrlStep_stage2 _ h2) hns, fun ha => ?_⟩
  have hc : (deliver (execTick Gen.healthTable s)).ctrl = s.ctrl := (Aux.execTick_ctrl _ s).1
  have hat : Aux.AtCtrl (deliver (execTick Gen.healthTable s)) := by
    rcases h2 with he | h
    · exact absurd (by rw [hc]; exact hrun) he
    · exact h
  rcases Aux.ctrlStep_cases (deliver (execTick Gen.healthTable s)) with ⟨hne, _⟩ | ⟨_, hna, _⟩ | ⟨_, _, _, herr, hcalls⟩ | ⟨_, _, hr, _⟩
  · exact absurd (by rw [hc]; exact hrun) hne
  · rw [hc, ha] at hna; cases hna
  · refine ⟨herr, ?_⟩
    show (ctrlStep (deliver (execTick Gen.healthTable s))).ctrl.shutdownCalls ≥ _
    rw [hcalls, hc]; omega
  · rw [Aux.scan_reason hat] at hr; cases hr

/-- NEVER HANGS (any fair schedule; partial: no loss step in this one-executor model -- see the note above). From any state in which the controller
is running (or has ended) and the failure is visible to a live executor, or its report is already in flight or in the
controller's queue: after ANY schedule that contains, in this order, an executor iteration, a delivery and a controller
iteration, `run` has ended — returned or raised; a controller that polls for ever (`starved`) does not count. -/
theorem c05_never_hangs_lossless_partial (s : Sys) (sched : List Step) (hf : Fair sched)
    (hns : s.ctrl.status ≠ .starved)
    (h0 : AtExecutor s ∨ HasFailure s.net ∨ HasFailure s.ctrlInbox) :
    Ended (runSchedule Gen.healthTable s sched) :=
  Aux.ended_of (Aux.never_hangs_of_allRaise Aux.health_all_raise s sched hf (Or.inr h0))
    (Aux.sched_notStarved Gen.healthTable sched s hns)

/-- NO WRONG VALUE. Along every schedule `state.outputs` is only ever written from a payload the controller
has read (with C01: the payload carries the dataset's value), and a run that ends without an error has a
value for every requested output. -/
theorem c05_no_wrong_value (s0 : Sys) (sched : List Step) (hrun : s0.ctrl.status = .running)
    (hempty : s0.ctrl.outputs = []) :
    let s := runSchedule Gen.healthTable s0 sched
    (∀ d v, (d, v) ∈ s.ctrl.outputs → CMsg.payload d v ∈ s.delivered) ∧
    (s.ctrl.status = .endedOk → ∀ d ∈ s.ctrl.requested, ∃ v, (d, v) ∈ s.ctrl.outputs) := by
  intro s
  have hinv : Aux.OutInv s0 := by
    constructor
    · rw [hempty]; intro d v h; cases h
    · rw [hrun]; intro h; cases h
  obtain ⟨h1, h2⟩ := Aux.sched_outInv Gen.healthTable sched s0 hinv
  refine ⟨h1, fun hok d hd => ?_⟩
  have hm := h2 hok
  unfold missing at hm
  have := List.any_eq_false.1 hm d hd
  exact Aux.lookup_some_mem (by simpa using this)

/-- what the teardown theorem ASSUMES of the OS: `kill()` followed by `join()` leaves the process with an exit code
(SIGKILL cannot be caught; `join` sees the exit) -/
def KillWorks (os : Os) : Prop := os.killed.isSome = true

/-- TEARDOWN. In ANY environment in which SIGKILL works — whatever the workers and the shm server do with the
shutdown requests they are sent: exit, ignore them, answer and stay — `terminate` is idempotent; it addresses every
child: each started worker is sent WorkerShutdown and joined for the grace, and killed if it is still alive then; a live
shm server is sent the shutdown command and killed if it does not answer or does not exit within the grace; a live data
server is killed; afterwards no child is alive. Only `KillWorks` is assumed of the environment (`c05_teardown_needs_kill`:
it cannot be dropped — the effect is not built into the program). -/
theorem c05_teardown (os : Os) (hk : KillWorks os) (st : ExecSt) :
    terminateWith os (terminateWith os st).2 = ([], (terminateWith os st).2) ∧
    (st.terminating = false →
      (∀ w e s, (w, Handle.proc e s) ∈ st.workers →
        TermAct.workerShutdown w ∈ (terminateWith os st).1 ∧ TermAct.workerJoin w ∈ (terminateWith os st).1 ∧
        (e = none → os.workerExit s = none → TermAct.workerKill w ∈ (terminateWith os st).1)) ∧
      (st.shm = none → TermAct.shmShutdown ∈ (terminateWith os st).1 ∧
        ((os.shmReply st.shmMode = false ∨ (os.shmExit st.shmMode st.segments).2 = none) → TermAct.shmKill ∈ (terminateWith os st).1)) ∧
      (st.data = none → TermAct.dataKill ∈ (terminateWith os st).1) ∧
      (∀ w h, (w, h) ∈ (terminateWith os st).2.workers → h = .notStarted ∨ ∃ c s, h = .proc (some c) s) ∧
      (terminateWith os st).2.shm.isSome = true ∧ (terminateWith os st).2.data.isSome = true) := by
  constructor
  · exact Aux.terminateWith_of_terminating os _ (Aux.terminateWith_terminating os st)
  · intro hnt
    obtain ⟨s1, s2⟩ := Aux.termShm_spec os hk st
    obtain ⟨d1, d2⟩ := Aux.termData_spec os hk st
    unfold terminateWith
    simp only [hnt, Bool.false_eq_true, if_false]
    refine ⟨fun w e s hmem => ?_, fun hs => ?_, fun hd => ?_, fun w h hmem => ?_, s1, d1⟩
    · obtain ⟨a1, a2, a3⟩ := Aux.termWorker_acts os w e s
      have hin : ∀ a, a ∈ (termWorkerWith os (w, .proc e s)).1 → a ∈ (st.workers.map (termWorkerWith os)).flatMap (·.1) := by
        intro a ha
        rw [List.mem_flatMap]
        exact ⟨termWorkerWith os (w, .proc e s), List.mem_map_of_mem hmem, ha⟩
      exact ⟨List.mem_append_left _ (List.mem_append_left _ (hin _ a1)),
             List.mem_append_left _ (List.mem_append_left _ (hin _ a2)),
             fun h1 h2 => List.mem_append_left _ (List.mem_append_left _ (hin _ (a3 h1 h2)))⟩
    · obtain ⟨b1, b2⟩ := s2 hs
      exact ⟨List.mem_append_left _ (List.mem_append_right _ b1), fun h => List.mem_append_left _ (List.mem_append_right _ (b2 h))⟩
    · exact List.mem_append_right _ (d2 hd)
    · simp only [List.map_map, List.mem_map] at hmem
      obtain ⟨p, _, hp⟩ := hmem
      have := Aux.termWorker_dead os hk p
      have h2 : (termWorkerWith os p).2.2 = h := by
        have := congrArg Prod.snd hp; simpa using this
      rw [h2] at this; exact this

/-- the hypothesis of `c05_teardown` is needed: in an environment where a killed process does not go away, a stuck
worker is still alive after `terminate` -/
theorem c05_teardown_needs_kill :
    ¬ ∀ (os : Os) (st : ExecSt), st.terminating = false →
      ∀ w h, (w, h) ∈ (terminateWith os st).2.workers → h = .notStarted ∨ ∃ c s, h = .proc (some c) s := by
  intro h
  have := h { posix with killed := none }
    { host := "h0", workers := [("h0.w0", .proc none true)], shm := none, data := none, terminating := false } rfl
    "h0.w0" (.proc none true) (by simp [terminateWith, termWorkerWith, posix])
  simp at this

/-- the standard environment satisfies the hypothesis: the `terminate` used by `tick` leaves no child alive -/
theorem c05_teardown_std (st : ExecSt) (hnt : st.terminating = false) :
    (∀ w h, (w, h) ∈ (terminate st).2.workers → h = .notStarted ∨ ∃ c s, h = .proc (some c) s) ∧
    (terminate st).2.shm.isSome = true ∧ (terminate st).2.data.isSome = true ∧ (terminate st).2.terminating = true := by
  obtain ⟨_, h⟩ := c05_teardown posix rfl st
  obtain ⟨_, _, _, h4, h5, h6⟩ := h hnt
  exact ⟨h4, h5, h6, Aux.terminateWith_terminating posix st⟩

/-- the live shm server reacts to the shutdown command as the server of the SOURCE TREE does (table generated from
shm/server.py): it answers, and what happens then is `shmShutdown` -/
def ShmConforms (os : Os) (st : ExecSt) : Prop :=
  os.shmReply st.shmMode = true ∧ os.shmExit st.shmMode st.segments = shmShutdown Gen.shmEntry st.segments

/-- SEGMENTS (partial). After `terminate` no shared-memory segment of the host remains, PROVIDED the shm
server was still alive and reacts as the source tree's server (it is asked to shut down, leaves its loop, `entrypoint`
runs the exit handler, which unlinks everything — the generated fact `Aux.shm_entry_clean`; it is not killed), had died
through SIGTERM (its handler unlinks everything) or had died because its request loop raised (`entrypoint` catches the
exception and runs the exit handler). Holds in any environment. Excluded classes: the shm server was SIGKILLed, or it
did not answer / exit and `terminate` had to kill it — see `c05_segments_full_fails` (known finding
C05-shm-sigkill-leak). -/
theorem c05_segments_partial (os : Os) (st : ExecSt) (hnt : st.terminating = false) :
    (st.shm = none → ShmConforms os st →
      (terminateWith os st).2.segments = [] ∧ (terminateWith os st).2.shm = some 0 ∧ TermAct.shmKill ∉ (terminateWith os st).1) ∧
    (terminateWith os (shmDies Gen.shmEntry st .sigterm)).2.segments = [] ∧
    (terminateWith os (shmDies Gen.shmEntry st .loopException)).2.segments = [] := by
  refine ⟨?_, ?_, ?_⟩
  · intro h ⟨hr, he⟩
    have hsd : shmShutdown Gen.shmEntry st.segments = ([], some 0) := by
      simp [shmShutdown, show Gen.shmEntry.shutdownBreaks = true by decide,
        show Gen.shmEntry.cleansOn .returned = true by decide, show Gen.shmEntry.codeOn .returned = 0 by decide]
    rw [hsd] at he
    have hw : ∀ a, a ∈ (st.workers.map (termWorkerWith os)).flatMap (·.1) → a ≠ TermAct.shmKill := by
      intro a ha
      rw [List.mem_flatMap] at ha
      obtain ⟨r, hr', ha'⟩ := ha
      rw [List.mem_map] at hr'
      obtain ⟨⟨w, hd⟩, _, rfl⟩ := hr'
      cases hd with
      | notStarted => simp [termWorkerWith] at ha'
      | proc e s =>
        cases e with
        | some c => simp [termWorkerWith] at ha'; rcases ha' with rfl | rfl <;> simp
        | none =>
          simp only [termWorkerWith] at ha'
          cases hwe : os.workerExit s <;> rw [hwe] at ha' <;> simp at ha' <;> rcases ha' with rfl | rfl | rfl | rfl <;> simp
    have hd : ∀ a, a ∈ (termDataWith os st).1 → a ≠ TermAct.shmKill := by
      intro a ha; unfold termDataWith at ha; cases hdd : st.data <;> rw [hdd] at ha <;> simp at ha; subst ha; simp
    have hsh : termShmWith os st = ([.shmShutdown, .shmJoin], some 0, []) := by
      simp [termShmWith, h, hr, he]
    unfold terminateWith
    simp only [hnt, Bool.false_eq_true, if_false, hsh]
    refine ⟨trivial, trivial, ?_⟩
    intro hin
    rcases List.mem_append.1 hin with hin | hin
    · rcases List.mem_append.1 hin with hin | hin
      · exact hw _ hin rfl
      · simp at hin
    · exact hd _ hin rfl
  · exact Aux.terminate_keeps_segments_nil os _ (Aux.shmDies_dead _ st _) (Aux.shmDies_segments _ Aux.shm_entry_clean st _ (by decide))
  · exact Aux.terminate_keeps_segments_nil os _ (Aux.shmDies_dead _ st _) (Aux.shmDies_segments _ Aux.shm_entry_clean st _ (by decide))

/-- SEGMENTS, every death but SIGKILL: whichever way the shm server of the source tree dies while its executor
lives — SIGTERM, SIGINT, an exception out of its request loop — its segments are gone when it has exited, and
stay gone through `terminate` (any environment). -/
theorem c05_segments_all_but_sigkill (os : Os) (st : ExecSt) (how : ShmDeath) (hk : how ≠ .sigkill) :
    (shmDies Gen.shmEntry st how).segments = [] ∧ (terminateWith os (shmDies Gen.shmEntry st how)).2.segments = [] :=
  ⟨Aux.shmDies_segments _ Aux.shm_entry_clean st how hk,
   Aux.terminate_keeps_segments_nil os _ (Aux.shmDies_dead _ st _) (Aux.shmDies_segments _ Aux.shm_entry_clean st how hk)⟩

/-- SHM REQUEST LOOP RAISES. One undecodable datagram (or a failing `respond`) ends the server process: with the
table of the source tree it exits with code 0 after unlinking everything, the executor's next healthcheck reports
the dead child (exit code 0 counts), hence the same recv_loop iteration sends a failure-class message. -/
theorem c05_shm_loop_exception_fails_run (st : ExecSt) (inbox : List EMsg) (hnt : st.terminating = false) :
    let st' := shmDies Gen.shmEntry st .loopException
    st'.shm = some 0 ∧ st'.segments = [] ∧
    (healthcheck Gen.healthTable st').isSome = true ∧
    HasFailure ((tick Gen.healthTable st' inbox).2.filterMap EOut.ctrl?) := by
  refine ⟨by simp [shmDies, show Gen.shmEntry.codeOn .raised = 0 by decide], Aux.shmDies_segments _ Aux.shm_entry_clean st _ (by decide), ?_, ?_⟩
  · exact c05_detects _ (Or.inr (Or.inl (Aux.shmDies_dead _ st _)))
  · exact c05_tick_reports _ inbox (by rw [Aux.shmDies_terminating]; exact hnt)
      (Or.inr (Or.inr (Or.inl (Aux.shmDies_dead _ st _))))

/-- every death of the shm server (SIGKILL included) is a dead child the healthcheck reports -/
theorem c05_shm_death_detected (st : ExecSt) (how : ShmDeath) :
    (healthcheck Gen.healthTable (shmDies Gen.shmEntry st how)).isSome = true :=
  c05_detects _ (Or.inr (Or.inl (Aux.shmDies_dead _ st how)))

/-- the step the standard environment takes for a live shm server in mode `ok` (segments gone, exit code 0) IS what
the server of the source tree does on the shutdown command: `break` out of the loop, `entrypoint` goes on to the exit
handler. Hence the `terminate` used by `tick` leaves no segment when the shm server was alive and responsive. -/
theorem c05_terminate_matches_shm_server (st : ExecSt) (hnt : st.terminating = false) (hs : st.shm = none) (hm : st.shmMode = .ok) :
    ShmConforms posix st ∧ (terminate st).2.segments = [] ∧ (terminate st).2.shm = some 0 := by
  have h : shmShutdown Gen.shmEntry st.segments = ([], some 0) := by
    simp [shmShutdown, show Gen.shmEntry.shutdownBreaks = true by decide,
      show Gen.shmEntry.cleansOn .returned = true by decide, show Gen.shmEntry.codeOn .returned = 0 by decide]
  have hc : ShmConforms posix st := by
    refine ⟨by simp [posix, hm], ?_⟩
    rw [h]; simp [posix, hm]
  obtain ⟨h1, h2, _⟩ := (c05_segments_partial posix st hnt).1 hs hc
  exact ⟨hc, h1, h2⟩

/-- SEGMENTS (full statement fails). Witnesses: (1) the shm server is SIGKILLed while it holds a segment; nobody
unlinks the segment, `terminate` included. (2) the shm server does not answer the shutdown command (frozen, or killed
between reading and answering it): `terminate` kills it after the grace — the executor exits, the segment stays. -/
theorem c05_segments_full_fails :
    (¬ ∀ (st : ExecSt) (how : ShmDeath), st.terminating = false → (terminate (shmDies Gen.shmEntry st how)).2.segments = []) ∧
    (¬ ∀ (st : ExecSt), st.terminating = false → st.shm = none → (terminate st).2.segments = []) := by
  constructor
  · intro h
    have := h { host := "h0", workers := [], shm := none, data := none, terminating := false, segments := ["sCasch0ab"] } .sigkill rfl
    simp [terminate, terminateWith, termShmWith, shmDies] at this
  · intro h
    have := h { host := "h0", workers := [], shm := none, data := none, terminating := false, segments := ["sCasch0ab"], shmMode := .mute } rfl rfl
    simp [terminate, terminateWith, termShmWith, posix] at this

/-! ## non-vacuity -/

def exSt : ExecSt :=
  { host := "h0", workers := [("h0.w0", .proc none false), ("h0.w1", .proc (some 0) false)], shm := none, data := none, terminating := false }

def exCtrl : Ctrl :=
  { status := .running, requested := ["sink|o"], outputs := [], remaining := 1, hosts := ["h0"], shutdownCalls := 0, shutdownSent := [] }

def exSys : Sys := { exec := exSt, execInbox := [], net := [], ctrlInbox := [], ctrl := exCtrl, delivered := [] }

/-- a worker that exited with code 0 is a dead child, and the real table reports it -/
example : DeadChild exSt := Or.inl ⟨"h0.w1", _, by simp [exSt], Or.inr ⟨0, false, rfl⟩⟩
example : healthcheck Gen.healthTable exSt = some (.workerFailed "h0.w1") := by decide
/-- with the table of the pinned tree (predicate `!= 0`, no `raise`) the same state is NOT detected -/
example : healthcheck { rows := [⟨.worker, .nonzero, false⟩, ⟨.shm, .nonzero, false⟩, ⟨.dataServer, .nonzero, false⟩], workerNoneRaises := false }
    { exSt with data := some (-9) } = none := by decide
example : AllAlive { exSt with workers := [("h0.w0", .proc none false)] } := ⟨by simp, rfl, rfl⟩
/-- the three rounds on the example: the run ends with an error after two shutdown calls, the executor is told to stop -/
example : (ctrlStep (deliver (execTick Gen.healthTable exSys))).ctrl.status = .endedErr := by decide
example : (ctrlStep (deliver (execTick Gen.healthTable exSys))).ctrl.shutdownCalls = 2 := by decide
example : AtExecutor exSys := ⟨rfl, Or.inr (Or.inl ⟨"h0.w1", _, by simp [exSys, exSt], Or.inr ⟨0, false, rfl⟩⟩)⟩
example : Fair [.ctrl, .tick, .ctrl, .deliver, .tick, .ctrl] := ⟨[.ctrl], [.ctrl], [.tick], [], rfl⟩
def exHealthy : ExecSt := { exSt with workers := [("h0.w0", .proc none false)] }
def exSysHealthy : Sys := { exSys with exec := exHealthy }
def exSysDone : Sys :=
  { exSysHealthy with execInbox := [.published "sink|o" true], ctrlInbox := [.payload "sink|o" 51] }
/-- without the failure the same system keeps running: the theorems are not vacuous -/
example : (runSchedule Gen.healthTable exSysHealthy [.tick, .deliver, .ctrl]).ctrl.status = .running := by decide
/-- a healthy run ends ok with the value of the payload -/
example : (runSchedule Gen.healthTable exSysDone [.tick, .deliver, .ctrl, .ctrl]).ctrl.status = .endedOk := by decide
example : (runSchedule Gen.healthTable exSysDone [.tick, .deliver, .ctrl, .ctrl]).ctrl.outputs = [("sink|o", 51)] := by decide
example : (terminate exSt).1 = [.workerShutdown "h0.w0", .workerJoin "h0.w0", .workerShutdown "h0.w1", .workerJoin "h0.w1", .shmShutdown, .shmJoin, .dataKill] := by decide
/-- a shm server that never answers the shutdown command is killed after the grace; one that answers but lingers is joined, then killed -/
example : (terminate { exSt with shmMode := .mute }).1 = [.workerShutdown "h0.w0", .workerJoin "h0.w0", .workerShutdown "h0.w1", .workerJoin "h0.w1", .shmShutdown, .shmKill, .shmJoin, .dataKill] := by decide
example : ((terminate { exSt with shmMode := .lingers }).1.drop 4) = [.shmShutdown, .shmJoin, .shmKill, .shmJoin, .dataKill] := by decide
example : (terminate { exSt with shmMode := .mute }).2.shm = some (-9) := by decide
example : workerBody "w" [] (.systemExit 3) = ⟨[], some 3⟩ := rfl
example : workerBody "w" [] .raisesException = ⟨[.taskFailure "w"], none⟩ := rfl


/-- the shm server holds two segments when a datagram it cannot decode arrives -/
def exShm : ExecSt := { exHealthy with segments := ["sCasch0aa", "sCasch0bb"] }
example : (shmDies Gen.shmEntry exShm .loopException).segments = [] := by decide
example : (shmDies Gen.shmEntry exShm .loopException).shm = some 0 := by decide
/-- a server whose `entrypoint` runs the exit handler only in the `else:` of the try around `start()` (table row
`raised` without atexit) leaves both segments behind on that death — and only on that one: the hypothesis
`Aux.shm_entry_clean` is not vacuous -/
def exEntryElse : ShmEntry := { Gen.shmEntry with rows := [⟨.returned, true, true⟩, ⟨.raised, true, false⟩] }
example : entryClean exEntryElse = false := by decide
example : (terminate (shmDies exEntryElse exShm .loopException)).2.segments = ["sCasch0aa", "sCasch0bb"] := by decide
example : (terminate (shmDies exEntryElse exShm .sigterm)).2.segments = [] := by decide
example : shmShutdown exEntryElse exShm.segments = ([], some 0) := by decide
/-- an exception that is not caught at all: exit code 1, still detected -/
example : (shmDies { Gen.shmEntry with rows := [⟨.returned, true, true⟩] } exShm .loopException).shm = some 1 := by decide

end EkwVerif.C05
