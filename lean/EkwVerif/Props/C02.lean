/-
C02 — every task is dispatched exactly once, to a free worker, after its inputs exist.

The system (`Model/Ctrl.lean`) is the small-step semantics of `controller.impl.run` (every Python
function of assign/act/plan/flush/notify is one Lean function) composed with an abstract
environment of executors in which events reach the controller in ANY order and batching, and
environment steps interleave with controller micro-steps arbitrarily. The environment carries
one ghost monitor per clause of the property (`Env.viol`); the theorems say that a monitor
never fires in any reachable state, for every job, cluster, admissible heuristic choice
(oracle) and schedule.
-/
import EkwVerif.Lemmas.CtrlN
import EkwVerif.Lemmas.CtrlFinal
import EkwVerif.Lemmas.CtrlWorker
import EkwVerif.Lemmas.SchedTermA

namespace EkwVerif.Ctrl

theorem inv1_reachable (f : Sem) (j : Job) (cl : Cluster) (hw : cl.ids.Nodup) (s : Sys)
    (hr : Reachable f j cl s) : Inv1 cl s := by
  induction hr with
  | init => exact inv1_init j cl hw
  | step s s' st _ hs ih => exact inv1_step f j cl s s' st ih hs

/-- **Exactly once (upper half).** In every reachable state every task has been named by at
most one `task_sequence` command, and the double-dispatch monitor has not fired. -/
theorem c02_at_most_once (f : Sem) (j : Job) (cl : Cluster) (hw : cl.ids.Nodup) (s : Sys)
    (hr : Reachable f j cl s) :
    (∀ t, s.env.dispatchedE t ≤ 1) ∧ "C02 double-dispatch" ∉ s.env.viol := by
  have h := inv1_reachable f j cl hw s hr
  exact ⟨fun t => by rw [h.disp_eq]; exact h.once.le t, h.no_dd⟩

/-- **To a worker that exists, is not busy, and satisfies the GPU requirement.** The three
monitors evaluated by the environment at the moment a `task_sequence` command arrives (worker
is in the cluster; no task dispatched to it is still queued; `needs_gpu → worker has a gpu`)
never fire. -/
theorem c02_worker_ok (f : Sem) (j : Job) (cl : Cluster) (hw : cl.ids.Nodup) (s : Sys)
    (hr : Reachable f j cl s) :
    "C02 unknown-worker" ∉ s.env.viol ∧ "C02 busy-worker" ∉ s.env.viol ∧ "C02 gpu" ∉ s.env.viol := by
  have h := inv1_reachable f j cl hw s hr
  exact ⟨h.no_unknown, h.no_busy, h.no_gpu⟩

/-- A task that is in flight (dispatched, completion not yet notified) is in flight on exactly
the workers the controller believes busy: idle workers have nothing queued or ongoing. -/
theorem c02_idle_means_free (f : Sem) (j : Job) (cl : Cluster) (hw : cl.ids.Nodup) (s : Sys)
    (hr : Reachable f j cl s) (w : Worker) (hi : w ∈ s.ctl.idle) : ∀ t, (w, t) ∉ s.env.queued := by
  have h := inv1_reachable f j cl hw s hr
  intro t hq
  exact h.idle_free w hi t (h.queued_flight w t hq)

/-- **After its inputs exist.** At the moment a task is dispatched every dataset it consumes has
been produced, and is present on the target host or a transfer of it to that host is
outstanding (commanded earlier or in the same `act`). -/
theorem c02_inputs_ready (f : Sem) (j : Job) (cl : Cluster) (wf : WF j cl) (s : Sys) (hr : Reachable f j cl s) :
    "C02 input-not-produced" ∉ s.env.viol ∧ "C02 input-neither-present-nor-in-transfer" ∉ s.env.viol := by
  have h := invAll_reachable f j cl wf s hr
  exact ⟨h.h2.no_input_not_produced, h.h4.no_input_absent⟩

/-- **Exactly once (lower half).** A task whose completion the controller has seen was
dispatched exactly once and has really run. -/
theorem c02_done_means_ran_once (f : Sem) (j : Job) (cl : Cluster) (wf : WF j cl) (s : Sys) (hr : Reachable f j cl s)
    (t : Task) (hd : s.ctl.doneC t = true) : s.env.ran t = true ∧ s.env.dispatchedE t = 1 := by
  have h := invAll_reachable f j cl wf s hr
  have hran := h.h2.done_ran t hd
  exact ⟨hran, by rw [h.h1.disp_eq]; exact (h.h2.ran_disp t hran).1⟩

/-- A dispatched task is in flight on one worker only. -/
theorem c02_one_worker (f : Sem) (j : Job) (cl : Cluster) (wf : WF j cl) (s : Sys) (hr : Reachable f j cl s) :
    ∀ w w' t, s.inFlight w t → s.inFlight w' t → w = w' :=
  (invAll_reachable f j cl wf s hr).h2x.uniq

/-- **Inputs are really published** (non-atomic task bodies, Model/CtrlN.lean). When bodies publish outputs one at a time,
a task is made computable or dispatched only when every input has actually been published by its producer — never an
output that a still-running body has computed but not yet handed to its host's store. -/
theorem c02_inputs_published (f : Sem) (j : Job) (cl : Cluster) (wf : WF j cl) (x : SysN) (hr : ReachableN f j cl x)
    (t : Task) (ht : t ∈ x.sys.ctl.computable ∨ x.sys.ctl.dispatched t = 1) :
    ∀ ds, ds ∈ j.inputs t → x.hidden ds = false := by
  intro ds hds
  have hb := reachableN_sys f j cl x hr
  have ha := (invAll_reachable f j cl wf _ hb).h2.ready t ht ds hds
  cases hh : x.hidden ds with
  | false => rfl
  | true => have := (invN_reachable f j cl wf x hr).unannounced ds hh; rw [ha] at this; cases this

/-! ### "not already busy" at full strength (audit C02 #3) -/

/-- **A worker has at most one task in flight** (dispatched, completion not yet notified): queued, running or run. -/
theorem c02_worker_single_flight (f : Sem) (j : Job) (cl : Cluster) (hw : cl.ids.Nodup) (s : Sys)
    (hr : Reachable f j cl s) : ∀ w t t', s.inFlight w t → s.inFlight w t' → t = t' :=
  invW_reachable f j cl hw s hr

/-- **An idle worker is free — started bodies included** (non-atomic task bodies, Model/CtrlN.lean). A task is dispatched
only to a worker in `idle_workers` (`assignOne`). Such a worker has no task queued AND no body running: every running
body (started, some output not yet published — it is no longer in `queued`) is in flight on exactly one worker, and
that worker is not idle. -/
theorem c02_idle_means_free_running (f : Sem) (j : Job) (cl : Cluster) (wf : WF j cl) (x : SysN) (hr : ReachableN f j cl x)
    (w : Worker) (hi : w ∈ x.sys.ctl.idle) :
    (∀ t, (w, t) ∉ x.sys.env.queued) ∧
    (∀ t, x.running j t = true → ∃ w', w' ≠ w ∧ x.sys.inFlight w' t ∧ ∀ w'', x.sys.inFlight w'' t → w'' = w') := by
  have hb := reachableN_sys f j cl x hr
  have h1 := inv1_reachable f j cl wf.workersNodup x.sys hb
  refine ⟨fun t hq => h1.idle_free w hi t (h1.queued_flight w t hq), ?_⟩
  intro t hrun
  obtain ⟨w', hf, huniq, _⟩ := running_in_flight f j cl wf x hr t hrun
  refine ⟨w', ?_, hf, huniq⟩
  intro he; subst he
  exact h1.idle_free _ hi t hf

/-- **No second body on a worker.** When the body of a queued task starts on worker `w`, no other body that was started
on `w` (a running task in flight on `w`) is still running: the model never needs two bodies on one worker process. -/
theorem c02_no_second_body (f : Sem) (j : Job) (cl : Cluster) (wf : WF j cl) (x x' : SysN) (hr : ReachableN f j cl x)
    (w : Worker) (t : Task) (hs : stepN f j cl x (.start w t) = some x') :
    ∀ t', x.running j t' = true → ¬ x.sys.inFlight w t' := by
  have hb := reachableN_sys f j cl x hr
  have h1 := inv1_reachable f j cl wf.workersNodup x.sys hb
  have hW := invW_reachable f j cl wf.workersNodup x.sys hb
  intro t' hrun hf'
  -- `t` is queued on `w`, hence in flight on `w`; so is the running `t'`: the same task — but a running task is not queued
  simp only [stepN] at hs
  split at hs; · cases hs
  cases he : step f j cl x.sys (.env (.run w t)) with
  | none => simp [he] at hs
  | some s' =>
    obtain ⟨hq, _, _⟩ := envRun_inv f j cl _ _ _ _ he
    have hft := h1.queued_flight w t hq
    have : t' = t := hW w t' t hf' hft
    subst this
    obtain ⟨_, _, _, hnq⟩ := running_in_flight f j cl wf x hr t' hrun
    exact hnq w hq

/-! ### the GPU / free-worker clauses from the REAL mechanism (audit C02 #2)

`assignOne` validates the oracle's choice (worker idle, task computable, GPU flag); an inadmissible choice is "no such
behaviour". In the extended system (`Model/Sched.lean`) the pair comes out of the modelled control flow of `assign()`:
`assign_within_component` partitions the computable tasks and the given idle workers by GPU flag (`awcEnter`), runs
`_assignment_heuristic` on (gpu tasks, gpu workers), then on (cpu tasks, cpu workers + gpu workers still idle). The
theorems below show that every pair that control flow can yield is admissible — so the validation in `assignOne` never
rejects anything the real control flow produces, and the C02 clauses hold BECAUSE of the partition. -/

/-- **Every (task, worker) pair of the current `_assignment_heuristic` call is admissible**: the worker exists, is idle,
has nothing queued or in flight; the task is computable and has never been dispatched; a GPU task is only ever paired
with a GPU worker. -/
theorem c02_assign_admissible (f : Sem) (j : Job) (cl : Cluster) (cm : Comps) (wf : WF j cl) (wfc : WFC j cm) (x : SysX)
    (hr : ReachableX f j cl cm x) {c : Nat} {cls : Cls} {tasks : List Task} {workers : List Worker} {ph : HPhase}
    {cpuT : List Task} {cpuW : List Worker} {k : Bool}
    (hst : x.sch.stage = .inH c cls tasks workers ph cpuT cpuW k) (t : Task) (w : Worker) (ht : t ∈ tasks) (hw : w ∈ workers) :
    w ∈ cl.ids ∧ w ∈ x.sys.ctl.idle ∧ (∀ t', (w, t') ∉ x.sys.env.queued) ∧ (∀ t', ¬ x.sys.inFlight w t') ∧
    t ∈ x.sys.ctl.computable ∧ x.sys.env.dispatchedE t = 0 ∧ (j.gpu t = true → cl.hasGpu w = true) := by
  have hX := invX_reachable f j cl cm wf wfc x hr
  have hE := sT_invE_reachable f j cl cm x hr
  have h1 := hX.hA.h1
  have hph : x.sys.phase = .assigning := by
    cases hp : x.sys.phase with
    | assigning => rfl
    | _ => rcases hX.hS.stage_phase (by rw [hp]; simp) with h | h <;> (rw [hst] at h; cases h)
  have hok := hX.hS.stage_ok
  simp only [StageOk, hst] at hok
  obtain ⟨okW, okT, okG⟩ := hok
  obtain ⟨_, _, e3, _⟩ := (stageE_inH hst).mp (hE.asg hph)
  have hwi := (okW w (List.mem_append.mpr (Or.inl hw))).1
  have htc := (okT t (List.mem_append.mpr (Or.inl ht))).1
  refine ⟨h1.idle_known w hwi, hwi, fun t' hq => h1.idle_free w hwi t' (h1.queued_flight w t' hq), h1.idle_free w hwi,
    htc, by rw [h1.disp_eq]; exact h1.once.comp t htc, ?_⟩
  intro hgt
  cases cls with
  | gpu => exact okG rfl w hw
  | cpu => rw [e3 rfl t ht] at hgt; cases hgt

/-- **The validation never rejects what the control flow yields.** For a pair of the current heuristic call, the only
oracle rejections `assignOne` can still raise concern the transmit-source argument — never "worker not idle", "task not
computable" or "gpu task on cpu worker" —, and with the sources the scan of `build_assignment` finds (`chooseCands`)
there is none at all. -/
theorem c02_filter_never_rejects (f : Sem) (j : Job) (cl : Cluster) (cm : Comps) (wf : WF j cl) (wfc : WFC j cm) (x : SysX)
    (hr : ReachableX f j cl cm x) {c : Nat} {cls : Cls} {tasks : List Task} {workers : List Worker} {ph : HPhase}
    {cpuT : List Task} {cpuW : List Worker} {k : Bool}
    (hst : x.sch.stage = .inH c cls tasks workers ph cpuT cpuW k) (a : Asg) (ht : a.task ∈ tasks) (hw : a.worker ∈ workers) :
    (∀ msg, assignOne j cl x.sys.ctl a = .error (.oracle msg) →
      msg ≠ "worker not idle" ∧ msg ≠ "task not computable" ∧ msg ≠ "gpu task on cpu worker") ∧
    (∀ msg, assignOne j cl x.sys.ctl ⟨a.worker, a.task, chooseCands cl.hosts x.sys.ctl (j.inputs a.task)⟩ ≠ .error (.oracle msg)) := by
  obtain ⟨_, hwi, _, _, htc, _, hg⟩ := c02_assign_admissible f j cl cm wf wfc x hr hst a.task a.worker ht hw
  refine ⟨?_, sT_assign_exists j cl x.sys.ctl a.worker a.task hwi htc hg⟩
  intro msg hm
  unfold assignOne at hm
  have h1 : x.sys.ctl.idle.contains a.worker = true := by simpa using hwi
  have h2 : x.sys.ctl.computable.contains a.task = true := by simpa using htc
  have h3 : (j.gpu a.task && !(cl.hasGpu a.worker)) = false := by
    cases hgt : j.gpu a.task with
    | false => simp
    | true => simp [hg hgt]
  simp only [h1, h2, h3, Bool.not_true, Bool.false_eq_true, if_false] at hm
  split at hm
  · rename_i e he
    simp only [Except.error.injEq] at hm
    subst hm
    -- the oracle errors of `build_assignment`'s loop are the two about the transmit source
    have key : ∀ (l : List Ds) (c0 : Ctl) (m : String), buildPrep cl a.worker a.cands c0 l = .error (.oracle m) →
        m = "transmit source is not `available`" ∨ m = "no transmit source given" := by
      intro l
      induction l with
      | nil => intro c0 m h0; simp [buildPrep] at h0
      | cons y l ih =>
        intro c0 m h0
        unfold buildPrep at h0
        split at h0
        · exact ih _ _ h0
        · split at h0
          · split at h0
            · rename_i e3 h3; simp only [Except.error.injEq] at h0; subst h0; exact ih _ _ h3
            · cases h0
          · split at h0
            · split at h0
              · dsimp only at h0
                split at h0
                · rename_i e3 h3; simp only [Except.error.injEq] at h0; subst h0; exact ih _ _ h3
                · cases h0
              · simp only [Except.error.injEq, Err.oracle.injEq] at h0; exact Or.inl h0.symm
            · split at h0
              · simp only [Except.error.injEq, Err.oracle.injEq] at h0; exact Or.inr h0.symm
              · simp at h0
    rcases key _ _ _ he with rfl | rfl <;> simp
  · cases hm

/-- **Every dispatch of the extended system goes to an existing, free worker that fits the GPU requirement** — derived
from the stage of `assign()`'s control flow, not from the validation of the oracle value. -/
theorem c02_dispatch_by_control_flow (f : Sem) (j : Job) (cl : Cluster) (cm : Comps) (wf : WF j cl) (wfc : WFC j cm)
    (x x' : SysX) (hr : ReachableX f j cl cm x) (a : Asg) (hs : stepX f j cl cm x (.base (.assign a)) = some x') :
    a.worker ∈ cl.ids ∧ a.worker ∈ x.sys.ctl.idle ∧ (∀ t', (a.worker, t') ∉ x.sys.env.queued) ∧
    (∀ t', ¬ x.sys.inFlight a.worker t') ∧ x.sys.env.dispatchedE a.task = 0 ∧
    (j.gpu a.task = true → cl.hasGpu a.worker = true) := by
  simp only [stepX] at hs
  split at hs; · cases hs
  split at hs
  · rename_i c cls tasks workers phase cpuT cpuW k hstage
    split at hs; · cases hs
    rename_i hmem
    simp only [Bool.or_eq_true, Bool.not_eq_true', not_or, Bool.not_eq_false] at hmem
    have ht : a.task ∈ tasks := by simpa using hmem.1
    have hw : a.worker ∈ workers := by simpa using hmem.2
    obtain ⟨g1, g2, g3, g4, _, g6, g7⟩ := c02_assign_admissible f j cl cm wf wfc x hr hstage a.task a.worker ht hw
    exact ⟨g1, g2, g3, g4, g6, g7⟩
  · cases hs

/-! non-vacuity: a two-task chain on one worker reaches a state where both were dispatched once -/
section
def exJob : Job := { tasks := [{ nOut := 1, gpu := false, inputs := [] }, { nOut := 1, gpu := false, inputs := [⟨0, 0⟩] }], ext := [⟨1, 0⟩] }
def exCl : Cluster := { workers := [(⟨0, 0⟩, false)] }
def exSem : Sem := fun t k args => s!"t{t}.{k}({args})"
def exSteps : List Step :=
  [.enter, .assign ⟨⟨0, 0⟩, 0, []⟩, .endAssign, .plan1, .endPlan, .endFlushF, .endFlush,
   .env (.run ⟨0, 0⟩ 0), .recv [.pubW ⟨0, 0⟩ ⟨0, 0⟩], .notify1, .endNotify,
   .enter, .assign ⟨⟨0, 0⟩, 1, []⟩, .endAssign, .plan1, .endPlan, .endFlushF, .endFlush]
example : ((runSteps exSem exJob exCl (Sys.init exJob exCl) exSteps).map
    (fun s => (s.env.dispatchedE 0, s.env.dispatchedE 1, s.env.viol, s.err))) = some (1, 1, [], none) := by
  decide
end

/-! non-vacuity of the GPU partition: a CPU task `t0` and a GPU task `t1`, a CPU worker and a GPU worker on one host. After
`assign_within_component` has been entered the GPU call holds exactly (gpu tasks, gpu workers) and keeps (cpu tasks, cpu
workers) for the second call; assigning the GPU task to the CPU worker is not a step of the system -/
section
def exJobP : Job := { tasks := [{ nOut := 1, gpu := false, inputs := [] }, { nOut := 1, gpu := true, inputs := [] }], ext := [] }
def exClP : Cluster := { workers := [(⟨0, 0⟩, false), (⟨0, 1⟩, true)] }
def exCmP1 : Comps := { compOf := fun _ => 0, n := 1 }
def stageView (x : SysX) : Option (Cls × List Task × List Worker) :=
  match x.sch.stage with
  | .inH _ cls ts ws _ _ _ _ => some (cls, ts, ws)
  | _ => none
def stageView2 (x : SysX) : Option (List Task × List Worker) :=
  match x.sch.stage with
  | .inH _ _ _ _ _ cpuT cpuW _ => some (cpuT, cpuW)
  | _ => none
def exStepsP : List StepX := [.base .enter, .beginStepII, .migrate 0, .awcEnter]
example : ((runStepsX exSem exJobP exClP exCmP1 (SysX.init exJobP exClP exCmP1) exStepsP).bind stageView) =
    some (.gpu, [1], [⟨0, 1⟩]) := by
  decide
example : ((runStepsX exSem exJobP exClP exCmP1 (SysX.init exJobP exClP exCmP1) exStepsP).bind stageView2) =
    some ([0], [⟨0, 0⟩]) := by
  decide
example : (runStepsX exSem exJobP exClP exCmP1 (SysX.init exJobP exClP exCmP1)
    (exStepsP ++ [.hPhase2, .base (.assign ⟨⟨0, 0⟩, 1, []⟩)])).isNone = true := by
  decide
example : ((runStepsX exSem exJobP exClP exCmP1 (SysX.init exJobP exClP exCmP1)
    (exStepsP ++ [.hPhase2, .base (.assign ⟨⟨0, 1⟩, 1, []⟩), .hEnd, .hPhase2, .base (.assign ⟨⟨0, 0⟩, 0, []⟩)])).map
    (fun x => (x.sys.env.dispatchedE 0, x.sys.env.dispatchedE 1, x.sys.env.viol, x.sys.ctl.idle))) = some (1, 1, [], []) := by
  decide
end

end EkwVerif.Ctrl
