/-
C02 — every task is dispatched exactly once, to a free worker, after its inputs exist.

The system (`Model/Ctrl.lean`) is the small-step semantics of `controller.impl.run` (every Python
function of assign/act/plan/flush/notify is one Lean function) composed with an abstract
environment of executors in which events reach the controller in ANY order and batching, and
environment steps interleave with controller micro-steps arbitrarily. The environment carries
one ghost monitor per clause of the property (`Env.viol`); the theorems say that a monitor
never fires in any reachable state, for every job, cluster, admissible heuristic choice
(oracle) and schedule.
-/
import EkwVerif.Lemmas.CtrlN
import EkwVerif.Lemmas.CtrlFinal

namespace EkwVerif.Ctrl

theorem inv1_reachable (f : Sem) (j : Job) (cl : Cluster) (hw : cl.ids.Nodup) (s : Sys)
    (hr : Reachable f j cl s) : Inv1 cl s := by
  induction hr with
  | init => exact inv1_init j cl hw
  | step s s' st _ hs ih => exact inv1_step f j cl s s' st ih hs

/-- **Exactly once (upper half).** In every reachable state every task has been named by at
most one `task_sequence` command, and the double-dispatch monitor has not fired. -/
theorem c02_at_most_once (f : Sem) (j : Job) (cl : Cluster) (hw : cl.ids.Nodup) (s : Sys)
    (hr : Reachable f j cl s) :
    (∀ t, s.env.dispatchedE t ≤ 1) ∧ "C02 double-dispatch" ∉ s.env.viol := by
  have h := inv1_reachable f j cl hw s hr
  exact ⟨fun t => by rw [h.disp_eq]; exact h.once.le t, h.no_dd⟩

/-- **To a worker that exists, is not busy, and satisfies the GPU requirement.** The three
monitors evaluated by the environment at the moment a `task_sequence` command arrives (worker
is in the cluster; no task dispatched to it is still queued; `needs_gpu → worker has a gpu`)
never fire. -/
theorem c02_worker_ok (f : Sem) (j : Job) (cl : Cluster) (hw : cl.ids.Nodup) (s : Sys)
    (hr : Reachable f j cl s) :
    "C02 unknown-worker" ∉ s.env.viol ∧ "C02 busy-worker" ∉ s.env.viol ∧ "C02 gpu" ∉ s.env.viol := by
  have h := inv1_reachable f j cl hw s hr
  exact ⟨h.no_unknown, h.no_busy, h.no_gpu⟩

/-- A task that is in flight (dispatched, completion not yet notified) is in flight on exactly
the workers the controller believes busy: idle workers have nothing queued or ongoing. -/
theorem c02_idle_means_free (f : Sem) (j : Job) (cl : Cluster) (hw : cl.ids.Nodup) (s : Sys)
    (hr : Reachable f j cl s) (w : Worker) (hi : w ∈ s.ctl.idle) : ∀ t, (w, t) ∉ s.env.queued := by
  have h := inv1_reachable f j cl hw s hr
  intro t hq
  exact h.idle_free w hi t (h.queued_flight w t hq)

/-- **After its inputs exist.** At the moment a task is dispatched every dataset it consumes has
been produced, and is present on the target host or a transfer of it to that host is
outstanding (commanded earlier or in the same `act`). -/
theorem c02_inputs_ready (f : Sem) (j : Job) (cl : Cluster) (wf : WF j cl) (s : Sys) (hr : Reachable f j cl s) :
    "C02 input-not-produced" ∉ s.env.viol ∧ "C02 input-neither-present-nor-in-transfer" ∉ s.env.viol := by
  have h := invAll_reachable f j cl wf s hr
  exact ⟨h.h2.no_input_not_produced, h.h4.no_input_absent⟩

/-- **Exactly once (lower half).** A task whose completion the controller has seen was
dispatched exactly once and has really run. -/
theorem c02_done_means_ran_once (f : Sem) (j : Job) (cl : Cluster) (wf : WF j cl) (s : Sys) (hr : Reachable f j cl s)
    (t : Task) (hd : s.ctl.doneC t = true) : s.env.ran t = true ∧ s.env.dispatchedE t = 1 := by
  have h := invAll_reachable f j cl wf s hr
  have hran := h.h2.done_ran t hd
  exact ⟨hran, by rw [h.h1.disp_eq]; exact (h.h2.ran_disp t hran).1⟩

/-- A dispatched task is in flight on one worker only. -/
theorem c02_one_worker (f : Sem) (j : Job) (cl : Cluster) (wf : WF j cl) (s : Sys) (hr : Reachable f j cl s) :
    ∀ w w' t, s.inFlight w t → s.inFlight w' t → w = w' :=
  (invAll_reachable f j cl wf s hr).h2x.uniq

/-- **Inputs are really published** (non-atomic task bodies, Model/CtrlN.lean). When bodies publish outputs one at a time,
a task is made computable or dispatched only when every input has actually been published by its producer — never an
output that a still-running body has computed but not yet handed to its host's store. -/
theorem c02_inputs_published (f : Sem) (j : Job) (cl : Cluster) (wf : WF j cl) (x : SysN) (hr : ReachableN f j cl x)
    (t : Task) (ht : t ∈ x.sys.ctl.computable ∨ x.sys.ctl.dispatched t = 1) :
    ∀ ds, ds ∈ j.inputs t → x.hidden ds = false := by
  intro ds hds
  have hb := reachableN_sys f j cl x hr
  have ha := (invAll_reachable f j cl wf _ hb).h2.ready t ht ds hds
  cases hh : x.hidden ds with
  | false => rfl
  | true => have := (invN_reachable f j cl wf x hr).unannounced ds hh; rw [ha] at this; cases this

/-! non-vacuity: a two-task chain on one worker reaches a state where both were dispatched once -/
section
def exJob : Job := { tasks := [{ nOut := 1, gpu := false, inputs := [] }, { nOut := 1, gpu := false, inputs := [⟨0, 0⟩] }], ext := [⟨1, 0⟩] }
def exCl : Cluster := { workers := [(⟨0, 0⟩, false)] }
def exSem : Sem := fun t k args => s!"t{t}.{k}({args})"
def exSteps : List Step :=
  [.enter, .assign ⟨⟨0, 0⟩, 0, []⟩, .endAssign, .plan1, .endPlan, .endFlushF, .endFlush,
   .env (.run ⟨0, 0⟩ 0), .recv [.pubW ⟨0, 0⟩ ⟨0, 0⟩], .notify1, .endNotify,
   .enter, .assign ⟨⟨0, 0⟩, 1, []⟩, .endAssign, .plan1, .endPlan, .endFlushF, .endFlush]
example : ((runSteps exSem exJob exCl (Sys.init exJob exCl) exSteps).map
    (fun s => (s.env.dispatchedE 0, s.env.dispatchedE 1, s.env.viol, s.err))) = some (1, 1, [], none) := by
  decide
end

end EkwVerif.Ctrl
