/-
C01 — a distributed run returns exactly the values sequential evaluation would.

`den f j ds` is sequential evaluation of the job in one process (`seqEval`: tasks in order, each
from the values computed so far); `f` (what a task body computes from its argument values) is
uninterpreted. The cluster, the placement (oracle), and the order/batching of events are
universally quantified in `Reachable`.

"Every dataset the caller asked for is delivered" needs the run to return. Before the repair of controller/notify.py
(fixed finding C01-last-output-overtakes: completion inferred from the LAST output's notice) a run under any-order
delivery could spin or exit its loop early; the theorems `c01_return_complete` and `c01_run_delivers` below state, for
ANY order and batching of events, what then could only be said under FIFO delivery.
-/
import EkwVerif.Lemmas.CtrlFinal
import EkwVerif.Lemmas.SchedIdle
import EkwVerif.Lemmas.SchedTermC
import EkwVerif.Lemmas.CtrlPresched
import EkwVerif.Lemmas.CtrlWFCheck

namespace EkwVerif.Ctrl

/-- **Every copy of a dataset, on every host, equals its sequential value** (StoreSound). -/
theorem c01_store_sound (f : Sem) (j : Job) (cl : Cluster) (wf : WF j cl) (s : Sys) (hr : Reachable f j cl s) :
    ∀ h ds v, s.env.present h ds = some v → den f j ds = some v :=
  (invAll_reachable f j cl wf s hr).h3.store_sound

/-- **Delivered values are the sequential values**, at any time during the run. -/
theorem c01_outputs_sound (f : Sem) (j : Job) (cl : Cluster) (wf : WF j cl) (s : Sys) (hr : Reachable f j cl s) :
    ∀ ds v, s.ctl.outputs ds = some v → den f j ds = some v :=
  fun ds v h => ((invAll_reachable f j cl wf s hr).h3.outputs_ok ds v h).1

/-- **When `run` returns, every requested dataset has been delivered and equals the value of
sequential evaluation** — whatever the cluster, the placement and the event order were. -/
theorem c01_outputs_sequential (f : Sem) (j : Job) (cl : Cluster) (wf : WF j cl) (s : Sys) (hr : Reachable f j cl s)
    (hfin : s.phase = .finished) : ∀ ds, ds ∈ j.ext → ∃ v, s.ctl.outputs ds = some v ∧ den f j ds = some v := by
  have hF := (invF_reachable f j cl s hr).fin hfin
  have h3 := (invAll_reachable f j cl wf s hr).h3
  intro ds hds
  have ha := hF.2
  simp only [Ctl.hasAwaitable, Bool.or_eq_false_iff, List.any_eq_false] at ha
  have hsome := ha.2 ds hds
  cases ho : s.ctl.outputs ds with
  | none => simp [ho] at hsome
  | some v => exact ⟨v, rfl, (h3.outputs_ok ds v ho).1⟩

/-- **Independence.** Two finished runs of the same job — on different clusters, with different
placements and event orders — deliver the same value for every requested dataset. -/
theorem c01_independent (f : Sem) (j : Job) (cl cl' : Cluster) (wf : WF j cl) (wf' : WF j cl') (s s' : Sys)
    (hr : Reachable f j cl s) (hr' : Reachable f j cl' s') (hfin : s.phase = .finished) (hfin' : s'.phase = .finished) :
    ∀ ds, ds ∈ j.ext → s.ctl.outputs ds = s'.ctl.outputs ds := by
  intro ds hds
  obtain ⟨v, hv, hd⟩ := c01_outputs_sequential f j cl wf s hr hfin ds hds
  obtain ⟨v', hv', hd'⟩ := c01_outputs_sequential f j cl' wf' s' hr' hfin' ds hds
  rw [hv, hv']
  rw [hd] at hd'
  exact hd'

/-- **When `run` returns nothing was skipped** (any event order): every task of the job ran, exactly once, its completion
was seen by the controller, and every requested dataset has been delivered with the value of sequential evaluation. -/
theorem c01_return_complete (f : Sem) (j : Job) (cl : Cluster) (wf : WF j cl) (s : Sys) (hr : Reachable f j cl s)
    (hfin : s.phase = .finished) :
    (∀ t, t < j.tasks.length → s.env.ran t = true ∧ s.env.dispatchedE t = 1 ∧ s.ctl.doneC t = true) ∧
    (∀ ds, ds ∈ j.ext → ∃ v, s.ctl.outputs ds = some v ∧ den f j ds = some v) := by
  refine ⟨?_, c01_outputs_sequential f j cl wf s hr hfin⟩
  intro t ht
  have h := invAll_reachable f j cl wf s hr
  have hd := sL_done f j cl wf s hr hfin t ht
  have hran := h.h2.done_ran t hd
  exact ⟨hran, by rw [h.h1.disp_eq]; exact (h.h2.ran_disp t hran).1, hd⟩

/-- **The run delivers** (any event order, every feasible cluster, every admissible choice of the heuristics; extended
system with the scheduler's bookkeeping). At every moment of a run: the controller has neither crashed nor raised, its
loop has made at most `roundBound j` iterations (it cannot spin), whenever it blocks in `recv_events` an event is on its
way or an executor can move (it cannot wait for nothing; every executor step consumes a queued task or an outstanding
transfer), and once the loop has exited every requested dataset has been delivered with the sequential value and every
task ran exactly once. Executor fairness (an enabled executor step is eventually taken) is the only assumption left
between this and "every run returns the requested outputs". -/
theorem c01_run_delivers (f : Sem) (j : Job) (cl : Cluster) (cm : Comps) (wf : WF j cl) (wfc : WFC j cm)
    (feas : Feasible j cl) (x : SysX) (hr : ReachableX f j cl cm x) :
    x.sys.err = none ∧ x.sch.schErr = none ∧ x.sys.rounds ≤ roundBound j ∧
    (x.sys.phase = .waiting → x.sys.env.pending ≠ [] ∨ ∃ es e', envStepP f j x.sys.env es = some e') ∧
    (x.sys.phase = .finished →
      (∀ ds, ds ∈ j.ext → ∃ v, x.sys.ctl.outputs ds = some v ∧ den f j ds = some v) ∧
      (∀ t, t < j.tasks.length → x.sys.env.ran t = true ∧ x.sys.env.dispatchedE t = 1 ∧ x.sys.ctl.doneC t = true)) := by
  have hR := sL_reachableX_base f j cl cm x hr
  have hX := invX_reachable f j cl cm wf wfc x hr
  have hF := invF_reachable f j cl x.sys hR
  have herr : x.sys.err = none := by
    cases he : x.sys.err with
    | none => rfl
    | some e =>
      have hm := hF.err_msg e he
      simp only [crashMsgs, List.mem_cons, List.not_mem_nil, or_false] at hm
      rcases hm with rfl | rfl | rfl | rfl | rfl | rfl
      · exact absurd he hX.hA.h4.no_err_notfound
      · exact absurd he hX.hA.h2.no_err_plan
      · exact absurd he hX.hA.h1.no_double_add
      · exact absurd he hX.hA.h4.no_err_pop
      · exact absurd he hX.hA.h2.no_err_tracker
      · exact absurd he hX.hA.h2.no_err_ongoing
  refine ⟨herr, hX.hS.no_schErr, sB_rounds_bounded f j cl cm wf wfc feas x hr, ?_, ?_⟩
  · intro hw
    rcases sI_no_idle_wait f j cl cm wf wfc feas x hr hw with h | ⟨es, e', he⟩
    · exact Or.inl h
    · exact Or.inr ⟨es, e', by rw [envStepP_eq f j x.sys.env es hX.hA.h1.no_trim]; exact he⟩
  intro hfin
  have := c01_return_complete f j cl wf x.sys hR hfin
  exact ⟨this.2, this.1⟩

/-- **Every requested dataset is delivered, with the sequential value** (audit C01 #1: clause (a) without the
hypothesis `phase = finished`). From every reachable state of the extended system — any job, any feasible cluster,
any admissible choice of the heuristics, any order and batching of events, any interleaving of executor steps — it is
INEVITABLE (`Inev`: on every maximal execution, after finitely many steps) that `run` returns with every requested
dataset delivered and equal to sequential evaluation, and every task run exactly once. Termination is a theorem
(`sT_inevitable`: a lexicographic measure decreases at every step of the whole system and no reachable state but
`finished` is terminal); no fairness beyond "an enabled step is eventually taken" is used. -/
theorem c01_delivers (f : Sem) (j : Job) (cl : Cluster) (cm : Comps) (wf : WF j cl) (wfc : WFC j cm)
    (feas : Feasible j cl) (x : SysX) (hr : ReachableX f j cl cm x) :
    Inev f j cl cm (fun y => y.sys.phase = .finished ∧
      (∀ ds, ds ∈ j.ext → ∃ v, y.sys.ctl.outputs ds = some v ∧ den f j ds = some v) ∧
      (∀ t, t < j.tasks.length → y.sys.env.ran t = true ∧ y.sys.env.dispatchedE t = 1 ∧ y.sys.ctl.doneC t = true)) x := by
  refine (sT_inevitable f j cl cm wf wfc feas x hr).mono ?_ hr
  intro y hy hfin
  have hR := sL_reachableX_base f j cl cm y hy
  have := c01_return_complete f j cl wf y.sys hR hfin
  exact ⟨hfin, this.2, this.1⟩

/-- in particular from the initial state: every maximal execution of `run` delivers -/
theorem c01_run_returns_outputs (f : Sem) (j : Job) (cl : Cluster) (cm : Comps) (wf : WF j cl) (wfc : WFC j cm)
    (feas : Feasible j cl) (σ : Nat → SysX) (h0 : σ 0 = SysX.init j cl cm)
    (hmax : ∀ n, (∃ st, stepX f j cl cm (σ n) st = some (σ (n + 1))) ∨
      ((∀ st, stepX f j cl cm (σ n) st = none) ∧ σ (n + 1) = σ n)) :
    ∃ n, ∀ ds, ds ∈ j.ext → ∃ v, (σ n).sys.ctl.outputs ds = some v ∧ den f j ds = some v := by
  have hreach : ∀ n, ReachableX f j cl cm (σ n) := by
    intro n
    induction n with
    | zero => rw [h0]; exact ReachableX.init
    | succ n ih =>
      rcases hmax n with ⟨st, hs⟩ | ⟨_, he⟩
      · exact ReachableX.step _ _ st ih hs
      · rw [he]; exact ih
  obtain ⟨n, hn⟩ := sT_maximal_finishes f j cl cm wf wfc feas σ h0 hmax
  exact ⟨n, c01_outputs_sequential f j cl wf (σ n).sys (sL_reachableX_base f j cl cm _ (hreach n)) hn⟩

/-- **Every requested dataset is delivered — no free hypothesis** (re-audit C01 #1: `cm` was a free parameter constrained only
by `WFC`, and `WF`/`WFC` were never checked on a replayed input). `c01_delivers` for the component map that C16's `precompute`
yields for the `JobInstance` the job stands for (`preComps j key`, any positional/keyword keying of the edges; `WFC` is PROVED for
it: `preComps_wfc`), with `WF` and `Feasible` replaced by the Bool checks that the drivers evaluate on every replayed input
(`wfCheck`, `feasCheck`; sound by `wfCheck_sound`, `feasCheck_sound`). -/
theorem c01_delivers_checked (f : Sem) (j : Job) (cl : Cluster) (key : Task → Ds → Presched.Key)
    (hwf : wfCheck j cl = true) (hfeas : feasCheck j cl = true) (x : SysX) (hr : ReachableX f j cl (preComps j key) x) :
    Inev f j cl (preComps j key) (fun y => y.sys.phase = .finished ∧
      (∀ ds, ds ∈ j.ext → ∃ v, y.sys.ctl.outputs ds = some v ∧ den f j ds = some v) ∧
      (∀ t, t < j.tasks.length → y.sys.env.ran t = true ∧ y.sys.env.dispatchedE t = 1 ∧ y.sys.ctl.doneC t = true)) x :=
  c01_delivers f j cl (preComps j key) (wfCheck_sound j cl hwf) (preComps_wfc j cl (wfCheck_sound j cl hwf) key)
    (feasCheck_sound j cl hfeas) x hr

/-! non-vacuity (audit C01 #5): a reachable FINISHED state with a non-empty set of requested outputs — one task whose
output is requested, on one worker: dispatched, run, announced, fetched, payload delivered, loop exit with the value of
sequential evaluation — and a two-task chain on two hosts with a transfer -/
section
def exJobF : Job := { tasks := [{ nOut := 1, gpu := false, inputs := [] }], ext := [⟨0, 0⟩] }
def exClF : Cluster := { workers := [(⟨0, 0⟩, false)] }
def exSemF : Sem := fun t k args => s!"t{t}.{k}({args})"
def exStepsF : List Step :=
  [.enter, .assign ⟨⟨0, 0⟩, 0, []⟩, .endAssign, .plan1, .endPlan, .endFlushF, .endFlush,
   .env (.run ⟨0, 0⟩ 0), .recv [.pubW ⟨0, 0⟩ ⟨0, 0⟩], .notify1, .endNotify,
   .enter, .endAssign, .endPlan, .flushF1, .endFlushF, .endFlush,
   .env (.io 0), .recv [.payload ⟨0, 0⟩ "t0.0([])"], .notify1, .endNotify, .enter]
example : ((runSteps exSemF exJobF exClF (Sys.init exJobF exClF) exStepsF).map
    (fun s => (s.phase, s.ctl.outputs ⟨0, 0⟩, den exSemF exJobF ⟨0, 0⟩))) =
    some (.finished, some "t0.0([])", some "t0.0([])") := by
  decide
example : ((runSteps exSemF exJobF exClF (Sys.init exJobF exClF) exStepsF).map
    (fun s => (s.env.viol, s.err, s.shutdowns, s.env.ran 0, s.env.dispatchedE 0))) = some ([], none, 1, true, 1) := by
  decide
example : exJobF.ext ≠ [] := by decide
/-- the finished state above is reachable, so the hypotheses of `c01_outputs_sequential` / `c01_return_complete` are satisfiable -/
example : ∃ s, Reachable exSemF exJobF exClF s ∧ s.phase = .finished ∧ s.ctl.outputs ⟨0, 0⟩ = some "t0.0([])" := by
  have key : ∀ (l : List Step) (s s' : Sys), Reachable exSemF exJobF exClF s →
      runSteps exSemF exJobF exClF s l = some s' → Reachable exSemF exJobF exClF s' := by
    intro l
    induction l with
    | nil => intro s s' hr h; simp only [runSteps, Option.some.injEq] at h; subst h; exact hr
    | cons st l ih =>
      intro s s' hr h
      simp only [runSteps] at h
      cases hst : step exSemF exJobF exClF s st with
      | none => simp [hst] at h
      | some s1 => simp only [hst] at h; exact ih s1 s' (Reachable.step s s1 st hr hst) h
  cases hrun : runSteps exSemF exJobF exClF (Sys.init exJobF exClF) exStepsF with
  | none =>
    have : (runSteps exSemF exJobF exClF (Sys.init exJobF exClF) exStepsF).isSome = true := by decide
    rw [hrun] at this; cases this
  | some s =>
    have h1 : ((runSteps exSemF exJobF exClF (Sys.init exJobF exClF) exStepsF).map
        (fun s => (s.phase, s.ctl.outputs ⟨0, 0⟩))) = some (.finished, some "t0.0([])") := by decide
    rw [hrun] at h1
    simp only [Option.map_some, Option.some.injEq, Prod.mk.injEq] at h1
    exact ⟨s, key exStepsF _ _ Reachable.init hrun, h1.1, h1.2⟩
/-- two hosts: `t1 ← t0.0` runs on the other host after a transfer; the notice of `t1`'s output is processed BEFORE the
late announcement of the transfer; `t0.0` is purged on both hosts, `t1.0` fetched; finished with the sequential value -/
def exJobG : Job := { tasks := [{ nOut := 1, gpu := false, inputs := [] }, { nOut := 1, gpu := false, inputs := [⟨0, 0⟩] }], ext := [⟨1, 0⟩] }
def exClG : Cluster := { workers := [(⟨0, 0⟩, false), (⟨1, 0⟩, false)] }
def exStepsG : List Step :=
  [.enter, .assign ⟨⟨0, 0⟩, 0, []⟩, .endAssign, .plan1, .endPlan, .endFlushF, .endFlush,
   .env (.run ⟨0, 0⟩ 0), .recv [.pubW ⟨0, 0⟩ ⟨0, 0⟩], .notify1, .endNotify,
   .enter, .assign ⟨⟨1, 0⟩, 1, [(⟨0, 0⟩, 0)]⟩, .endAssign, .plan1, .endPlan, .endFlushF, .endFlush,
   .env (.io 0), .env (.run ⟨1, 0⟩ 1), .recv [.pubW ⟨1, 0⟩ ⟨1, 0⟩, .pubT 1 ⟨0, 0⟩], .notify1, .notify1, .endNotify,
   .enter, .endAssign, .endPlan, .flushF1, .endFlushF, .flushP1, .endFlush,
   .env (.io 0), .recv [.payload ⟨1, 0⟩ "t1.0([t0.0([])])"], .notify1, .endNotify, .enter]
example : ((runSteps exSemF exJobG exClG (Sys.init exJobG exClG) exStepsG).map
    (fun s => (s.phase, s.ctl.outputs ⟨1, 0⟩, den exSemF exJobG ⟨1, 0⟩))) =
    some (.finished, some "t1.0([t0.0([])])", some "t1.0([t0.0([])])") := by
  decide
example : ((runSteps exSemF exJobG exClG (Sys.init exJobG exClG) exStepsG).map
    (fun s => (s.env.viol, s.err, s.env.purged))) = some ([], none, [(0, ⟨0, 0⟩), (1, ⟨0, 0⟩)]) := by
  decide
end

end EkwVerif.Ctrl
