/-
C01 — a distributed run returns exactly the values sequential evaluation would.

`den f j ds` is sequential evaluation of the job in one process (`seqEval`: tasks in order, each
from the values computed so far); `f` (what a task body computes from its argument values) is
uninterpreted. The cluster, the placement (oracle), and the order/batching of events are
universally quantified in `Reachable`.
-/
import EkwVerif.Lemmas.CtrlFinal

namespace EkwVerif.Ctrl

/-- **Every copy of a dataset, on every host, equals its sequential value** (StoreSound). -/
theorem c01_store_sound (f : Sem) (j : Job) (cl : Cluster) (wf : WF j cl) (s : Sys) (hr : Reachable f j cl s) :
    ∀ h ds v, s.env.present h ds = some v → den f j ds = some v :=
  (invAll_reachable f j cl wf s hr).h3.store_sound

/-- **Delivered values are the sequential values**, at any time during the run. -/
theorem c01_outputs_sound (f : Sem) (j : Job) (cl : Cluster) (wf : WF j cl) (s : Sys) (hr : Reachable f j cl s) :
    ∀ ds v, s.ctl.outputs ds = some v → den f j ds = some v :=
  fun ds v h => ((invAll_reachable f j cl wf s hr).h3.outputs_ok ds v h).1

/-- **When `run` returns, every requested dataset has been delivered and equals the value of
sequential evaluation** — whatever the cluster, the placement and the event order were. -/
theorem c01_outputs_sequential (f : Sem) (j : Job) (cl : Cluster) (wf : WF j cl) (s : Sys) (hr : Reachable f j cl s)
    (hfin : s.phase = .finished) : ∀ ds, ds ∈ j.ext → ∃ v, s.ctl.outputs ds = some v ∧ den f j ds = some v := by
  have hF := (invF_reachable f j cl s hr).fin hfin
  have h3 := (invAll_reachable f j cl wf s hr).h3
  intro ds hds
  have ha := hF.2
  simp only [Ctl.hasAwaitable, Bool.or_eq_false_iff, List.any_eq_false] at ha
  have hsome := ha.2 ds hds
  cases ho : s.ctl.outputs ds with
  | none => simp [ho] at hsome
  | some v => exact ⟨v, rfl, (h3.outputs_ok ds v ho).1⟩

/-- **Independence.** Two finished runs of the same job — on different clusters, with different
placements and event orders — deliver the same value for every requested dataset. -/
theorem c01_independent (f : Sem) (j : Job) (cl cl' : Cluster) (wf : WF j cl) (wf' : WF j cl') (s s' : Sys)
    (hr : Reachable f j cl s) (hr' : Reachable f j cl' s') (hfin : s.phase = .finished) (hfin' : s'.phase = .finished) :
    ∀ ds, ds ∈ j.ext → s.ctl.outputs ds = s'.ctl.outputs ds := by
  intro ds hds
  obtain ⟨v, hv, hd⟩ := c01_outputs_sequential f j cl wf s hr hfin ds hds
  obtain ⟨v', hv', hd'⟩ := c01_outputs_sequential f j cl' wf' s' hr' hfin' ds hds
  rw [hv, hv']
  rw [hd] at hd'
  exact hd'

end EkwVerif.Ctrl
