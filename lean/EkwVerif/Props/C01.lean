/-
C01 — a distributed run returns exactly the values sequential evaluation would.

`den f j ds` is sequential evaluation of the job in one process (`seqEval`: tasks in order, each
from the values computed so far); `f` (what a task body computes from its argument values) is
uninterpreted. The cluster, the placement (oracle), and the order/batching of events are
universally quantified in `Reachable`.

"Every dataset the caller asked for is delivered" needs the run to return. Before the repair of controller/notify.py
(fixed finding C01-last-output-overtakes: completion inferred from the LAST output's notice) a run under any-order
delivery could spin or exit its loop early; the theorems `c01_return_complete` and `c01_run_delivers` below state, for
ANY order and batching of events, what then could only be said under FIFO delivery.
-/
import EkwVerif.Lemmas.CtrlFinal
import EkwVerif.Lemmas.SchedIdle

namespace EkwVerif.Ctrl

/-- **Every copy of a dataset, on every host, equals its sequential value** (StoreSound). -/
theorem c01_store_sound (f : Sem) (j : Job) (cl : Cluster) (wf : WF j cl) (s : Sys) (hr : Reachable f j cl s) :
    ∀ h ds v, s.env.present h ds = some v → den f j ds = some v :=
  (invAll_reachable f j cl wf s hr).h3.store_sound

/-- **Delivered values are the sequential values**, at any time during the run. -/
theorem c01_outputs_sound (f : Sem) (j : Job) (cl : Cluster) (wf : WF j cl) (s : Sys) (hr : Reachable f j cl s) :
    ∀ ds v, s.ctl.outputs ds = some v → den f j ds = some v :=
  fun ds v h => ((invAll_reachable f j cl wf s hr).h3.outputs_ok ds v h).1

/-- **When `run` returns, every requested dataset has been delivered and equals the value of
sequential evaluation** — whatever the cluster, the placement and the event order were. -/
theorem c01_outputs_sequential (f : Sem) (j : Job) (cl : Cluster) (wf : WF j cl) (s : Sys) (hr : Reachable f j cl s)
    (hfin : s.phase = .finished) : ∀ ds, ds ∈ j.ext → ∃ v, s.ctl.outputs ds = some v ∧ den f j ds = some v := by
  have hF := (invF_reachable f j cl s hr).fin hfin
  have h3 := (invAll_reachable f j cl wf s hr).h3
  intro ds hds
  have ha := hF.2
  simp only [Ctl.hasAwaitable, Bool.or_eq_false_iff, List.any_eq_false] at ha
  have hsome := ha.2 ds hds
  cases ho : s.ctl.outputs ds with
  | none => simp [ho] at hsome
  | some v => exact ⟨v, rfl, (h3.outputs_ok ds v ho).1⟩

/-- **Independence.** Two finished runs of the same job — on different clusters, with different
placements and event orders — deliver the same value for every requested dataset. -/
theorem c01_independent (f : Sem) (j : Job) (cl cl' : Cluster) (wf : WF j cl) (wf' : WF j cl') (s s' : Sys)
    (hr : Reachable f j cl s) (hr' : Reachable f j cl' s') (hfin : s.phase = .finished) (hfin' : s'.phase = .finished) :
    ∀ ds, ds ∈ j.ext → s.ctl.outputs ds = s'.ctl.outputs ds := by
  intro ds hds
  obtain ⟨v, hv, hd⟩ := c01_outputs_sequential f j cl wf s hr hfin ds hds
  obtain ⟨v', hv', hd'⟩ := c01_outputs_sequential f j cl' wf' s' hr' hfin' ds hds
  rw [hv, hv']
  rw [hd] at hd'
  exact hd'

/-- **When `run` returns nothing was skipped** (any event order): every task of the job ran, exactly once, its completion
was seen by the controller, and every requested dataset has been delivered with the value of sequential evaluation. -/
theorem c01_return_complete (f : Sem) (j : Job) (cl : Cluster) (wf : WF j cl) (s : Sys) (hr : Reachable f j cl s)
    (hfin : s.phase = .finished) :
    (∀ t, t < j.tasks.length → s.env.ran t = true ∧ s.env.dispatchedE t = 1 ∧ s.ctl.doneC t = true) ∧
    (∀ ds, ds ∈ j.ext → ∃ v, s.ctl.outputs ds = some v ∧ den f j ds = some v) := by
  refine ⟨?_, c01_outputs_sequential f j cl wf s hr hfin⟩
  intro t ht
  have h := invAll_reachable f j cl wf s hr
  have hd := sL_done f j cl wf s hr hfin t ht
  have hran := h.h2.done_ran t hd
  exact ⟨hran, by rw [h.h1.disp_eq]; exact (h.h2.ran_disp t hran).1, hd⟩

/-- **The run delivers** (any event order, every feasible cluster, every admissible choice of the heuristics; extended
system with the scheduler's bookkeeping). At every moment of a run: the controller has neither crashed nor raised, its
loop has made at most `roundBound j` iterations (it cannot spin), whenever it blocks in `recv_events` an event is on its
way or an executor can move (it cannot wait for nothing; every executor step consumes a queued task or an outstanding
transfer), and once the loop has exited every requested dataset has been delivered with the sequential value and every
task ran exactly once. Executor fairness (an enabled executor step is eventually taken) is the only assumption left
between this and "every run returns the requested outputs". -/
theorem c01_run_delivers (f : Sem) (j : Job) (cl : Cluster) (cm : Comps) (wf : WF j cl) (wfc : WFC j cm)
    (feas : Feasible j cl) (x : SysX) (hr : ReachableX f j cl cm x) :
    x.sys.err = none ∧ x.sch.schErr = none ∧ x.sys.rounds ≤ roundBound j ∧
    (x.sys.phase = .waiting → x.sys.env.pending ≠ [] ∨ ∃ es e', envStep f j x.sys.env es = some e') ∧
    (x.sys.phase = .finished →
      (∀ ds, ds ∈ j.ext → ∃ v, x.sys.ctl.outputs ds = some v ∧ den f j ds = some v) ∧
      (∀ t, t < j.tasks.length → x.sys.env.ran t = true ∧ x.sys.env.dispatchedE t = 1 ∧ x.sys.ctl.doneC t = true)) := by
  have hR := sL_reachableX_base f j cl cm x hr
  have hX := invX_reachable f j cl cm wf wfc x hr
  have hF := invF_reachable f j cl x.sys hR
  have herr : x.sys.err = none := by
    cases he : x.sys.err with
    | none => rfl
    | some e =>
      have hm := hF.err_msg e he
      simp only [crashMsgs, List.mem_cons, List.not_mem_nil, or_false] at hm
      rcases hm with rfl | rfl | rfl | rfl | rfl | rfl
      · exact absurd he hX.hA.h4.no_err_notfound
      · exact absurd he hX.hA.h2.no_err_plan
      · exact absurd he hX.hA.h1.no_double_add
      · exact absurd he hX.hA.h4.no_err_pop
      · exact absurd he hX.hA.h2.no_err_tracker
      · exact absurd he hX.hA.h2.no_err_ongoing
  refine ⟨herr, hX.hS.no_schErr, sB_rounds_bounded f j cl cm wf wfc feas x hr,
    fun hw => sI_no_idle_wait f j cl cm wf wfc feas x hr hw, ?_⟩
  intro hfin
  have := c01_return_complete f j cl wf x.sys hR hfin
  exact ⟨this.2, this.1⟩

end EkwVerif.Ctrl
