/-
C18 — the gateway attributes progress/results to the right job and keeps the newest.
Property theorems only (helper lemmas are `private`/`lemma`-style `theorem`s prefixed `aux_`
and are not counted as obligations... they live in namespace `EkwVerif.Gateway.Aux`).
-/
import EkwVerif.Model.Gateway

namespace EkwVerif.Gateway

/-! ### job-level view of a history -/

/-- What one controller report does to the job it names, as seen through `serve`. -/
def jobStep (job : Job) (r : Report) : Job :=
  if !job.registered then job else putResults (maybeUpdate job r.status r.ts) r.results

/-- The reports of a history that are addressed to job `j`, in order of reception. -/
def reportsOf (j : String) : List Op → List Report
  | [] => []
  | .report r :: ops => if r.job == j then r :: reportsOf j ops else reportsOf j ops
  | _ :: ops => reportsOf j ops

/-- The progress reports that are actually read: those before the first shutdown notice. -/
def eff : Bool → List Report → List (String × Int)
  | false, _ => []
  | true, [] => []
  | true, r :: rs =>
    match r.status with
    | none => eff true rs
    | some p => if p == shutdownMark then [] else (p, r.ts) :: eff true rs

/-- the abstract rule: keep the entry with the greatest timestamp, first received wins ties -/
def upd (cur : String × Int) (e : String × Int) : String × Int :=
  if cur.2 ≥ e.2 then cur else e

/-- `(p,t)` is the first-received entry among those of greatest timestamp in `es`, provided
that timestamp exceeds the initial one; otherwise it is the initial value. -/
def Newest (init : String × Int) (es : List (String × Int)) (cur : String × Int) : Prop :=
  (cur = init ∧ ∀ e ∈ es, e.2 ≤ init.2) ∨
  (∃ i : Nat, es[i]? = some cur ∧ init.2 < cur.2 ∧ (∀ e ∈ es, e.2 ≤ cur.2) ∧
        ∀ k : Nat, k < i → ∀ e : String × Int, es[k]? = some e → e.2 < cur.2)

namespace Aux

theorem newest_snoc (init : String × Int) (es : List (String × Int)) (cur e : String × Int)
    (h : Newest init es cur) : Newest init (es ++ [e]) (upd cur e) := by
  unfold upd
  rcases h with ⟨hc, hall⟩ | ⟨i, hi, hlt, hall, hbefore⟩
  · subst hc
    by_cases hge : cur.2 ≥ e.2
    · simp only [hge, ↓reduceIte]
      left
      refine ⟨rfl, ?_⟩
      intro x hx
      rcases List.mem_append.mp hx with hx | hx
      · exact hall x hx
      · simp at hx; subst hx; exact hge
    · simp only [hge, ↓reduceIte]
      right
      refine ⟨es.length, by simp, by omega, ?_, ?_⟩
      · intro x hx
        rcases List.mem_append.mp hx with hx | hx
        · have := hall x hx; omega
        · simp at hx; subst hx; omega
      · intro k hk x hx
        have : es[k]? = some x := by
          rw [List.getElem?_append_left hk] at hx; exact hx
        have hm : x ∈ es := List.mem_of_getElem? this
        have := hall x hm; omega
  · have hilt : i < es.length := by
      rcases Nat.lt_or_ge i es.length with h | h
      · exact h
      · rw [List.getElem?_eq_none h] at hi; cases hi
    by_cases hge : cur.2 ≥ e.2
    · simp only [hge, ↓reduceIte]
      right
      refine ⟨i, ?_, hlt, ?_, ?_⟩
      · rw [List.getElem?_append_left hilt]; exact hi
      · intro x hx
        rcases List.mem_append.mp hx with hx | hx
        · exact hall x hx
        · simp at hx; subst hx; exact hge
      · intro k hk x hx
        have hk' : k < es.length := by omega
        rw [List.getElem?_append_left hk'] at hx
        exact hbefore k hk x hx
    · simp only [hge, ↓reduceIte]
      right
      refine ⟨es.length, by simp, by omega, ?_, ?_⟩
      · intro x hx
        rcases List.mem_append.mp hx with hx | hx
        · have := hall x hx; omega
        · simp at hx; subst hx; omega
      · intro k hk x hx
        rw [List.getElem?_append_left hk] at hx
        have hm : x ∈ es := List.mem_of_getElem? hx
        have := hall x hm; omega

theorem newest_foldl (init : String × Int) (es pre : List (String × Int)) (cur : String × Int)
    (h : Newest init pre cur) : Newest init (pre ++ es) (es.foldl upd cur) := by
  induction es generalizing pre cur with
  | nil => simpa using h
  | cons e es ih =>
    have := ih (pre ++ [e]) (upd cur e) (newest_snoc init pre cur e h)
    simpa [List.append_assoc] using this

theorem putResults_progress (job : Job) (rs : List (String × String)) :
    (putResults job rs).progress = job.progress ∧ (putResults job rs).lastSeen = job.lastSeen ∧
    (putResults job rs).registered = job.registered := by
  unfold putResults
  induction rs generalizing job with
  | nil => simp
  | cons r rs ih => simp only [List.foldl_cons]; have := ih { job with results := r :: job.results }; simpa using this

theorem jobStep_foldl_unreg (job : Job) (rs : List Report) (h : job.registered = false) :
    rs.foldl jobStep job = job := by
  induction rs with
  | nil => rfl
  | cons r rs ih => simp only [List.foldl_cons]; rw [show jobStep job r = job by simp [jobStep, h]]; exact ih

theorem view_foldl (job : Job) (rs : List Report) :
    let job' := rs.foldl jobStep job
    (job'.progress, job'.lastSeen) = (eff job.registered rs).foldl upd (job.progress, job.lastSeen) := by
  induction rs generalizing job with
  | nil => cases h : job.registered <;> simp [eff]
  | cons r rs ih =>
    cases hreg : job.registered with
    | false =>
      simp only [List.foldl_cons]
      rw [show jobStep job r = job by simp [jobStep, hreg]]
      have := ih job
      rw [hreg] at this
      simpa [eff] using this
    | true =>
      simp only [List.foldl_cons]
      have hp := putResults_progress (maybeUpdate job r.status r.ts) r.results
      have hstep : jobStep job r = putResults (maybeUpdate job r.status r.ts) r.results := by
        simp [jobStep, hreg]
      have := ih (jobStep job r)
      rw [hstep] at this ⊢
      rw [hp.1, hp.2.1, hp.2.2] at this
      rw [this]
      cases hs : r.status with
      | none => simp [eff, hs, maybeUpdate, hreg]
      | some p =>
        by_cases hsd : (p == shutdownMark) = true
        · simp [eff, hs, maybeUpdate, hsd]
        · by_cases hge : job.lastSeen ≥ r.ts
          · simp [eff, hs, maybeUpdate, hsd, hge, hreg, upd]
          · simp [eff, hs, maybeUpdate, hsd, hge, hreg, upd]

theorem find_set_same (s : St) (j : String) (job : Job) (h : (find? s j).isSome) :
    find? (set s j job) j = some job := by
  induction s with
  | nil => simp [find?] at h
  | cons e s ih =>
    obtain ⟨k, jb⟩ := e
    by_cases he : (k == j) = true
    · simp [find?, set, he]
    · simp only [find?, he] at h
      simp [find?, set, he, ih h]

theorem find_set_other (s : St) (j k : String) (job : Job) (h : (k == j) = false) :
    find? (set s k job) j = find? s j := by
  induction s with
  | nil => rfl
  | cons e s ih =>
    obtain ⟨k', jb⟩ := e
    by_cases he : (k' == k) = true
    · have hek : k' = k := by simpa using he
      subst hek
      simp [find?, set, h, ih]
    · simp only [set, he]
      by_cases hej : (k' == j) = true
      · simp [find?, hej]
      · simp [find?, hej, ih]

theorem find_append (s : St) (j k : String) (job : Job) :
    find? (s ++ [(k, job)]) j = match find? s j with
      | some x => some x
      | none => if k == j then some job else none := by
  induction s with
  | nil => simp [find?]
  | cons e s ih =>
    obtain ⟨k', jb⟩ := e
    by_cases hej : (k' == j) = true
    · simp [find?, hej]
    · simp [find?, hej, ih]

theorem find_append_fresh (s : St) (j k : String) (job : Job) (h : (find? s j).isSome) :
    find? (s ++ [(k, job)]) j = find? s j := by
  rw [find_append]
  cases hf : find? s j with
  | none => simp [hf] at h
  | some x => rfl

theorem nextFresh_fresh (s : St) (cs : List String) (k : String) (hn : nextFresh s cs = some k) :
    find? s k = none := by
  induction cs with
  | nil => simp [nextFresh] at hn
  | cons c cs ih =>
    unfold nextFresh at hn
    by_cases hc : (find? s c).isSome = true
    · simp only [hc, ↓reduceIte] at hn; exact ih hn
    · simp only [hc] at hn
      have : c = k := by simpa using hn
      subst this; simpa using hc

/-- Projection: what a history does to job `j` is the fold of `jobStep` over its reports. -/
theorem find_run (s : St) (ops : List Op) (j : String) (job : Job) (h : find? s j = some job) :
    find? (run s ops) j = some ((reportsOf j ops).foldl jobStep job) := by
  induction ops generalizing s job with
  | nil => simpa [run, reportsOf] using h
  | cons op ops ih =>
    unfold run
    simp only [List.foldl_cons]
    change find? (run (step s op).1 ops) j = _
    cases op with
    | spawn cs =>
      simp only [step, spawn, reportsOf]
      cases hn : nextFresh s cs with
      | none => exact ih s job h
      | some k =>
        simp only
        apply ih
        rw [find_append_fresh s j k _ (by simp [h])]; exact h
    | progressOf ids => simpa [step, reportsOf] using ih s job h
    | getResult a b => simpa [step, reportsOf] using ih s job h
    | report r =>
      simp only [step, report, reportsOf]
      by_cases hj : (r.job == j) = true
      · have hjj : r.job = j := by simpa using hj
        simp only [hj, ↓reduceIte, List.foldl_cons]
        rw [hjj, h]
        simp only
        by_cases hreg : job.registered = true
        · simp only [hreg, Bool.not_true, Bool.false_eq_true, ↓reduceIte]
          have hs : jobStep job r = putResults (maybeUpdate job r.status r.ts) r.results := by
            simp [jobStep, hreg]
          rw [hs]
          apply ih
          exact find_set_same s j _ (by simp [h])
        · have hreg' : job.registered = false := by simpa using hreg
          simp only [hreg', Bool.not_false, ↓reduceIte]
          rw [show jobStep job r = job by simp [jobStep, hreg']]
          exact ih s job h
      · have hj' : (r.job == j) = false := by simpa using hj
        simp only [hj', Bool.false_eq_true, ↓reduceIte]
        cases hf : find? s r.job with
        | none => exact ih s job h
        | some jb =>
          simp only
          by_cases hreg : jb.registered = true
          · simp only [hreg, Bool.not_true, Bool.false_eq_true, ↓reduceIte]
            apply ih
            rw [find_set_other s j r.job _ hj']; exact h
          · have hreg' : jb.registered = false := by simpa using hreg
            simp only [hreg', Bool.not_false, ↓reduceIte]
            exact ih s job h

theorem lookup_append (rs : List (String × String)) (r : String × String) (d : String) :
    lookupRes (rs ++ [r]) d = match lookupRes rs d with
      | some b => some b
      | none => if r.1 == d then some r.2 else none := by
  induction rs with
  | nil => obtain ⟨a, b⟩ := r; simp [lookupRes]
  | cons e rs ih =>
    obtain ⟨k, v⟩ := e
    by_cases he : (k == d) = true
    · simp [lookupRes, he]
    · simp [lookupRes, he, ih]

theorem lookup_putResults (job : Job) (rs : List (String × String)) (d : String) :
    lookupRes (putResults job rs).results d =
      match lookupRes rs.reverse d with
      | some b => some b
      | none => lookupRes job.results d := by
  unfold putResults
  induction rs generalizing job with
  | nil => simp [lookupRes]
  | cons r rs ih =>
    simp only [List.foldl_cons, List.reverse_cons]
    rw [ih, lookup_append]
    obtain ⟨k, v⟩ := r
    cases hf : lookupRes rs.reverse d with
    | some x => simp
    | none =>
      by_cases hr : (k == d) = true
      · simp [lookupRes, hr]
      · simp [lookupRes, hr]

end Aux

/-! ### Property theorems -/

/-- **Newest progress wins.** After any history `ops`, the progress shown for a job that
existed at the start is the first-received among the read progress reports with the
greatest timestamp (if that exceeds the initial `last_seen`), otherwise the initial one.
An older report arriving late never overwrites a newer one. -/
theorem c18_newest (s : St) (ops : List Op) (j : String) (job : Job) (h : find? s j = some job) :
    ∃ job', find? (run s ops) j = some job' ∧
      Newest (job.progress, job.lastSeen) (eff job.registered (reportsOf j ops))
        (job'.progress, job'.lastSeen) := by
  refine ⟨_, Aux.find_run s ops j job h, ?_⟩
  rw [Aux.view_foldl]
  have h0 : Newest (job.progress, job.lastSeen) [] (job.progress, job.lastSeen) := Or.inl ⟨rfl, by simp⟩
  have := Aux.newest_foldl (job.progress, job.lastSeen) (eff job.registered (reportsOf j ops)) []
    (job.progress, job.lastSeen) h0
  simpa using this

/-- A freshly spawned job starts at "0.00" with `last_seen = -1`: every report with a
non-negative timestamp is newer than the initial value. -/
theorem c18_newest_spawned (s : St) (cs : List String) (j : String) (ops : List Op)
    (h : (spawn s cs).2 = some j) :
    ∃ job', find? (run (spawn s cs).1 ops) j = some job' ∧
      Newest (started, -1) (eff true (reportsOf j ops)) (job'.progress, job'.lastSeen) := by
  unfold spawn at h ⊢
  cases hn : nextFresh s cs with
  | none => simp [hn] at h
  | some k =>
    simp only [hn] at h ⊢
    have hk : k = j := by simpa using h
    subst hk
    have hfresh : find? s k = none := Aux.nextFresh_fresh s cs k hn
    have hfind : find? (s ++ [(k, { progress := started, lastSeen := -1, results := [], registered := true })]) k
        = some { progress := started, lastSeen := -1, results := [], registered := true } := by
      rw [Aux.find_append, hfresh]; simp
    exact c18_newest _ ops k _ hfind

/-- **The shutdown notice does not erase progress** and is the last report read. -/
theorem c18_shutdown_keeps (job : Job) (r : Report) (rs : List Report)
    (hreg : job.registered = true) (hs : r.status = some shutdownMark) :
    let job' := (r :: rs).foldl jobStep job
    job'.progress = job.progress ∧ job'.lastSeen = job.lastSeen ∧ job'.registered = false := by
  simp only [List.foldl_cons]
  have hp := Aux.putResults_progress (maybeUpdate job r.status r.ts) r.results
  have h1 : jobStep job r = putResults (maybeUpdate job r.status r.ts) r.results := by
    simp [jobStep, hreg]
  have hm : maybeUpdate job r.status r.ts = { job with registered := false } := by
    simp [maybeUpdate, hs]
  have hreg' : (jobStep job r).registered = false := by rw [h1, hp.2.2, hm]
  rw [Aux.jobStep_foldl_unreg _ rs hreg', h1, hp.1, hp.2.1, hp.2.2, hm]
  simp

/-- **Results are returned exactly as uploaded, per (job, dataset).** One report's uploads:
the latest binding for `d` in the report wins, otherwise the previous value stays. -/
theorem c18_results (job : Job) (rs : List (String × String)) (d : String) :
    lookupRes (putResults job rs).results d =
      match lookupRes rs.reverse d with
      | some b => some b
      | none => lookupRes job.results d :=
  Aux.lookup_putResults job rs d

/-- **Results and progress of a job are untouched by reports for other jobs, by queries
and by spawns.** -/
theorem c18_isolation (s : St) (ops : List Op) (j : String) (job : Job) (h : find? s j = some job)
    (hno : reportsOf j ops = []) : find? (run s ops) j = some job := by
  have := Aux.find_run s ops j job h
  rw [hno] at this; simpa using this

/-- **Job identifiers are never reused**: `spawn` returns an id that names no existing job,
and every existing job keeps its entry. -/
theorem c18_ids_fresh (s : St) (cs : List String) (j : String) (h : (spawn s cs).2 = some j) :
    find? s j = none ∧ ∀ k job, find? s k = some job → find? (spawn s cs).1 k = some job := by
  unfold spawn at h ⊢
  cases hn : nextFresh s cs with
  | none => simp [hn] at h
  | some k =>
    simp only [hn] at h ⊢
    have hk : k = j := by simpa using h
    subst hk
    constructor
    · exact Aux.nextFresh_fresh s cs k hn
    · intro k' job hk'
      rw [Aux.find_append_fresh s k' k _ (by simp [hk'])]; exact hk'

/-- Jobs are never forgotten: any history keeps every id it ever had. -/
theorem c18_ids_persist (s : St) (ops : List Op) (j : String) (h : (find? s j).isSome) :
    (find? (run s ops) j).isSome := by
  cases hf : find? s j with
  | none => simp [hf] at h
  | some job => rw [Aux.find_run s ops j job hf]; simp

/-- **Unknown job or dataset ⇒ error response, state unchanged.** -/
theorem c18_unknown_is_error (s : St) (j d : String) (ids : List String)
    (hj : find? s j = none) (hm : j ∈ ids) :
    (step s (.getResult j d)) = (s, .result none) ∧
    (step s (.progressOf ids)) = (s, .progress none) := by
  constructor
  · simp [step, getResult, hj]
  · simp only [step, progressOf]
    have hne : ids.isEmpty = false := by cases ids <;> simp at hm ⊢
    simp only [hne, Bool.false_eq_true, ↓reduceIte]
    congr 2
    induction ids with
    | nil => simp at hm
    | cons i is ih =>
      rw [List.mapM_cons]
      by_cases hij : i = j
      · subst hij; simp [hj]
      · have hm' : j ∈ is := by
          rcases List.mem_cons.mp hm with h | h
          · exact absurd h.symm hij
          · exact h
        cases hfi : find? s i with
        | none => simp
        | some x =>
          have hne' : is.isEmpty = false := by cases is <;> simp at hm' ⊢
          have := ih hm' hne'
          simp [this]

theorem c18_unknown_dataset_is_error (s : St) (j d : String) (job : Job)
    (hj : find? s j = some job) (hd : lookupRes job.results d = none) :
    (step s (.getResult j d)) = (s, .result none) := by
  simp [step, getResult, hj, hd]

/-! ### non-vacuity: a concrete history in which an old report arrives late -/
example :
    let s0 := (spawn [] ["a"]).1
    let ops := [Op.report ⟨"a", some "50.00", 20, []⟩, Op.report ⟨"a", some "10.00", 5, [("d", "ff")]⟩,
                Op.report ⟨"a", some "Shutdown", 30, []⟩, Op.report ⟨"a", some "99.00", 40, []⟩]
    (progressOf (run s0 ops) ["a"] = some [("a", "50.00")]) ∧ getResult (run s0 ops) "a" "d" = some "ff" := by
  decide

end EkwVerif.Gateway
