/-
C18 — the gateway attributes progress/results to the right job, keeps the newest, never reuses
ids, answers requests naming unknown jobs/datasets with an error and keeps serving.

Property theorems only (`c18_*`); helper lemmas live in Lemmas/Gateway.lean and
Lemmas/GatewayServe.lean (namespace `EkwVerif.Gateway.Aux`).

Two levels:
  * flat histories `runH s evs` of *handled* events (what `handle_fe`/`handle_controller` do),
  * `serve g rounds`: the poll loop over scripted poll results; `c18_serve_refines_flat` ties the
    two (the state after any sequence of poll rounds is the flat run over the events that were
    handled, which are events of the rounds whose socket was registered at poll time).
-/
import EkwVerif.Lemmas.GatewayServe
import EkwVerif.Lemmas.Base64

namespace EkwVerif.Gateway

/-! ### newest progress -/

/-- **Newest progress wins.** After any history `evs` of handled events, the progress shown for
a job that existed at the start is the first-received among the progress reports naming the job
(on whatever socket they arrived) with the greatest timestamp, if that exceeds the initial
`last_seen`, otherwise the initial one. An older report arriving late never overwrites a newer
one; shutdown notices and uploads are no entries of the list, so they never erase it. -/
theorem c18_newest (s : St) (evs : List Ev) (j : String) (job : Job) (h : find? s j = some job) :
    ∃ job', find? (runH s evs) j = some job' ∧
      Newest (job.progress, job.lastSeen) (eff (reportsOf j evs)) (job'.progress, job'.lastSeen) := by
  refine ⟨_, Aux.find_run s evs j job h, ?_⟩
  rw [Aux.view_foldl]
  have h0 : Newest (job.progress, job.lastSeen) [] (job.progress, job.lastSeen) := Or.inl ⟨rfl, by simp⟩
  have := Aux.newest_foldl (job.progress, job.lastSeen) (eff (reportsOf j evs)) []
    (job.progress, job.lastSeen) h0
  simpa using this

/-- A freshly spawned job starts at "0.00" with `last_seen = -1`: every report with a
non-negative timestamp is newer than the initial value. -/
theorem c18_newest_spawned (s : St) (cs : List String) (j : String) (evs : List Ev)
    (h : (spawn s cs false).2 = some j) :
    ∃ job', find? (runH (spawn s cs false).1 evs) j = some job' ∧
      Newest (started, -1) (eff (reportsOf j evs)) (job'.progress, job'.lastSeen) := by
  unfold spawn at h ⊢
  cases hn : nextFresh s cs with
  | none => simp [hn] at h
  | some k =>
    simp only [hn, Bool.false_eq_true, ↓reduceIte] at h ⊢
    have hk : k = j := by simpa using h
    subst hk
    have hfresh : find? s k = none := Aux.nextFresh_fresh s cs k hn
    have hfind : find? (s ++ [(k, freshJob)]) k = some freshJob := by
      rw [Aux.find_append, hfresh]; simp
    exact c18_newest _ evs k _ hfind

/-- **The shutdown notice does not erase progress**: along any later history the shown progress is
the fold of the newest-wins rule over the progress reports that follow, started from what was shown
before the notice; and the job's own socket is closed from then on. -/
theorem c18_shutdown_keeps (job : Job) (r : Report) (rs : List Report)
    (hs : r.status = some shutdownMark) :
    let job' := (r :: rs).foldl jobStep job
    (job'.progress, job'.lastSeen) = (eff rs).foldl upd (job.progress, job.lastSeen) ∧
    job'.registered = false := by
  constructor
  · have := Aux.view_foldl job (r :: rs)
    simp only at this
    rw [this]
    simp [eff, hs]
  · simp only [List.foldl_cons]
    apply Aux.jobStep_foldl_unreg
    rw [Aux.jobStep_registered]; simp [hs]

/-! ### results -/

/-- **Results over histories.** After any history of handled events, the result returned for
(`j`,`d`) is the last accepted upload of `d` among the reports naming `j`, in order of reception;
if there is none, what was stored at the start. (`uploads`: everything every report carries, except
a repeated shutdown notice, which is rejected as a whole.) -/
theorem c18_results_history (s : St) (evs : List Ev) (j d : String) (job : Job) (h : find? s j = some job) :
    getResult (runH s evs) j d =
      (lastFor d (uploads job.registered (reportsOf j evs))).or (lookupRes job.results d) := by
  unfold getResult
  rw [Aux.find_run s evs j job h]
  exact Aux.results_foldl job _ d

/-- For a job spawned at the start of the history: the last accepted upload for exactly this job
and dataset, else an error response. -/
theorem c18_results_spawned (s : St) (cs : List String) (j d : String) (evs : List Ev)
    (h : (spawn s cs false).2 = some j) :
    getResult (runH (spawn s cs false).1 evs) j d = lastFor d (uploads true (reportsOf j evs)) := by
  unfold spawn at h ⊢
  cases hn : nextFresh s cs with
  | none => simp [hn] at h
  | some k =>
    simp only [hn, Bool.false_eq_true, ↓reduceIte] at h ⊢
    have hk : k = j := by simpa using h
    subst hk
    have hfresh : find? s k = none := Aux.nextFresh_fresh s cs k hn
    have hfind : find? (s ++ [(k, freshJob)]) k = some freshJob := by
      rw [Aux.find_append, hfresh]; simp
    rw [c18_results_history _ evs k d freshJob hfind]
    simp [freshJob, lookupRes]

/-- **A result is returned exactly as uploaded and only for the job and dataset it was uploaded
for**: whatever is returned for (`j`,`d`) was carried, for dataset `d`, by a handled report naming
`j`. -/
theorem c18_results_only_uploaded (s : St) (cs : List String) (j d b : String) (evs : List Ev)
    (h : (spawn s cs false).2 = some j)
    (hr : getResult (runH (spawn s cs false).1 evs) j d = some b) :
    ∃ k r, Ev.ctrl k (.report r) ∈ evs ∧ r.job = j ∧ (d, b) ∈ r.results := by
  rw [c18_results_spawned s cs j d evs h] at hr
  have hm := Aux.lastFor_mem d _ b hr
  obtain ⟨r, hrs, hp⟩ := Aux.uploads_mem _ _ _ hm
  have : ∀ evs : List Ev, r ∈ reportsOf j evs → ∃ k, Ev.ctrl k (.report r) ∈ evs ∧ r.job = j := by
    intro evs
    induction evs with
    | nil => simp [reportsOf]
    | cons e evs ih =>
      intro hmem
      cases e with
      | fe q =>
        simp only [reportsOf] at hmem
        obtain ⟨k, hk, hj⟩ := ih hmem
        exact ⟨k, List.mem_cons_of_mem _ hk, hj⟩
      | ctrl k m =>
        cases m with
        | garbage =>
          simp only [reportsOf] at hmem
          obtain ⟨k', hk, hj⟩ := ih hmem
          exact ⟨k', List.mem_cons_of_mem _ hk, hj⟩
        | report r' =>
          simp only [reportsOf] at hmem
          by_cases hj : (r'.job == j) = true
          · simp only [hj, ↓reduceIte, List.mem_cons] at hmem
            rcases hmem with hmem | hmem
            · subst hmem
              exact ⟨k, List.mem_cons_self, by simpa using hj⟩
            · obtain ⟨k', hk, hj'⟩ := ih hmem
              exact ⟨k', List.mem_cons_of_mem _ hk, hj'⟩
          · simp only [hj, Bool.false_eq_true, ↓reduceIte] at hmem
            obtain ⟨k', hk, hj'⟩ := ih hmem
            exact ⟨k', List.mem_cons_of_mem _ hk, hj'⟩
  obtain ⟨k, hk, hj⟩ := this evs hrs
  exact ⟨k, r, hk, hj, hp⟩

/-- A dataset for which no handled report naming the job carried anything: error response. -/
theorem c18_never_uploaded_is_error (s : St) (cs : List String) (j d : String) (evs : List Ev)
    (h : (spawn s cs false).2 = some j)
    (hno : ∀ r ∈ reportsOf j evs, ∀ p ∈ r.results, p.1 ≠ d) :
    handle (runH (spawn s cs false).1 evs) (.fe (.getResult j d)) =
      some (runH (spawn s cs false).1 evs, .result none) := by
  simp only [handle, handleFe]
  rw [c18_results_spawned s cs j d evs h]
  rw [Aux.lastFor_none]
  intro p hp
  obtain ⟨r, hr, hpr⟩ := Aux.uploads_mem _ _ _ hp
  exact hno r hr p hpr

/-- **Results and progress of a job are untouched by reports naming other jobs (known or not),
by garbage, by queries and by submits.** -/
theorem c18_isolation (s : St) (evs : List Ev) (j : String) (job : Job) (h : find? s j = some job)
    (hno : reportsOf j evs = []) : find? (runH s evs) j = some job := by
  have := Aux.find_run s evs j job h
  rw [hno] at this; simpa using this

/-- A report that is rejected (names no known job, or repeats a shutdown notice) changes nothing. -/
theorem c18_rejected_report_harmless (s : St) (r : Report) (h : (report s r).2 = .error) :
    (report s r).1 = s := by
  unfold report at h ⊢
  cases hf : find? s r.job with
  | none => simp only; split <;> rfl
  | some job =>
    simp only [hf] at h ⊢
    by_cases hsec : secondShutdown job r = true
    · simp [hsec]
    · simp [hsec] at h

/-! ### identifiers -/

/-- **Job identifiers are never reused**: `spawn` returns an id that names no existing job,
and every existing job keeps its entry; a failed launch changes nothing. -/
theorem c18_ids_fresh (s : St) (cs : List String) (fail : Bool) :
    (∀ j, (spawn s cs fail).2 = some j →
      find? s j = none ∧ ∀ k job, find? s k = some job → find? (spawn s cs fail).1 k = some job) ∧
    ((spawn s cs fail).2 = none → (spawn s cs fail).1 = s) := by
  unfold spawn
  cases hn : nextFresh s cs with
  | none => simp
  | some k =>
    cases fail
    · simp only [Bool.false_eq_true, ↓reduceIte, Option.some.injEq, reduceCtorEq, false_imp_iff, and_true]
      intro j hk
      subst hk
      refine ⟨Aux.nextFresh_fresh s cs k hn, ?_⟩
      intro k' job hk'
      rw [Aux.find_append_fresh s k' k _ (by simp [hk'])]; exact hk'
    · simp

/-- **Over histories: the ids handed out by submit responses are pairwise distinct** and none of
them named a job before. -/
theorem c18_ids_distinct (s : St) (evs : List Ev) :
    (handedOut s evs).Nodup ∧ ∀ j ∈ handedOut s evs, find? s j = none :=
  ⟨Aux.handedOut_nodup s evs, Aux.handedOut_fresh s evs⟩

/-- Jobs are never forgotten: any history keeps every id it ever had. -/
theorem c18_ids_persist (s : St) (evs : List Ev) (j : String) (h : (find? s j).isSome) :
    (find? (runH s evs) j).isSome := by
  cases hf : find? s j with
  | none => simp [hf] at h
  | some job => rw [Aux.find_run s evs j job hf]; simp

/-- **The jobs the gateway tracks are exactly the ids it handed out** (no phantom jobs after a
failed submit, none forgotten). -/
theorem c18_known_iff_handed_out (evs : List Ev) (j : String) :
    (find? (runH [] evs) j).isSome = true ↔ j ∈ handedOut [] evs := by
  rw [Aux.known_iff]; simp [find?]

/-! ### unknown job / dataset -/

/-- **Unknown job ⇒ error response, state unchanged** (one step). -/
theorem c18_unknown_is_error (s : St) (j d : String) (ids : List String)
    (hj : find? s j = none) (hm : j ∈ ids) :
    handle s (.fe (.getResult j d)) = some (s, .result none) ∧
    handle s (.fe (.progressOf ids)) = some (s, .progress none) := by
  constructor
  · simp [handle, handleFe, getResult, hj]
  · simp only [handle, handleFe, progressOf]
    have hne : ids.isEmpty = false := by cases ids <;> simp at hm ⊢
    simp only [hne, Bool.false_eq_true, ↓reduceIte]
    congr 3
    induction ids with
    | nil => simp at hm
    | cons i is ih =>
      rw [List.mapM_cons]
      by_cases hij : i = j
      · subst hij; simp [hj]
      · have hm' : j ∈ is := by
          rcases List.mem_cons.mp hm with h | h
          · exact absurd h.symm hij
          · exact h
        cases hfi : find? s i with
        | none => simp
        | some x =>
          have hne' : is.isEmpty = false := by cases is <;> simp at hm' ⊢
          have := ih hm' hne'
          simp [this]

/-- **Over histories: a query naming an id that no submit response ever handed out is answered
with an error and changes nothing**, whatever reports (also ones naming that id) were handled. -/
theorem c18_never_handed_out_is_error (evs : List Ev) (j d : String) (ids : List String)
    (hj : j ∉ handedOut [] evs) (hm : j ∈ ids) :
    handle (runH [] evs) (.fe (.getResult j d)) = some (runH [] evs, .result none) ∧
    handle (runH [] evs) (.fe (.progressOf ids)) = some (runH [] evs, .progress none) := by
  apply c18_unknown_is_error _ j d ids _ hm
  cases hf : find? (runH [] evs) j with
  | none => rfl
  | some x => exact absurd ((c18_known_iff_handed_out evs j).mp (by simp [hf])) hj

theorem c18_unknown_dataset_is_error (s : St) (j d : String) (job : Job)
    (hj : find? s j = some job) (hd : lookupRes job.results d = none) :
    handle s (.fe (.getResult j d)) = some (s, .result none) := by
  simp [handle, handleFe, getResult, hj, hd]

/-! ### the serve loop -/

/-- **The poll loop refines the flat machine**: after any sequence of poll rounds the state is the
flat run over the handled events, and every handled event is an event of some round. -/
theorem c18_serve_refines_flat (g : G) (rounds : List (List Ev)) :
    (serve g rounds).1.st = runH g.st (serve g rounds).2.2 ∧
    ∀ e ∈ (serve g rounds).2.2, ∃ b ∈ rounds, e ∈ b :=
  ⟨Aux.serve_st g rounds, Aux.serve_handled_mem g rounds⟩

/-- **The gateway keeps serving.** Whatever reports (naming unknown jobs, repeating shutdown
notices, arriving on foreign sockets, garbage), whatever requests (naming unknown jobs or datasets,
submits whose launch fails) and whatever frontend bytes that are no request at all (`malformed`:
no JSON, unknown class, a request class with a missing field) arrive, the loop is running after
every sequence of poll rounds that contains no shutdown request. -/
theorem c18_keeps_serving (g : G) (rounds : List (List Ev)) (hrun : g.phase = .running)
    (hs : ∀ b ∈ rounds, NoShutdown b) :
    (serve g rounds).1.phase = .running := by
  induction rounds generalizing g with
  | nil => simpa [serve] using hrun
  | cons b bs ih =>
    simp only [serve]
    apply ih
    · exact (Aux.poll_running g b hrun).2.2.2 (hs b List.mem_cons_self)
    · exact fun b' hb' => hs b' (List.mem_cons_of_mem _ hb')

/-- **Newest progress, at the serve level, without any hypothesis on the traffic.** After every
sequence of poll rounds (reports on any socket, garbage, malformed frontend bytes, shutdown
requests, rounds after the loop has ended) the progress of a job the gateway tracked at the start
is the first-received among the greatest-timestamp progress reports naming it that were HANDLED,
and every handled event is an event of some round. -/
theorem c18_serve_shows_newest (g : G) (rounds : List (List Ev)) (j : String) (job : Job)
    (h : find? g.st j = some job) :
    ∃ job', find? (serve g rounds).1.st j = some job' ∧
      Newest (job.progress, job.lastSeen) (eff (reportsOf j (serve g rounds).2.2))
        (job'.progress, job'.lastSeen) ∧
      ∀ e ∈ (serve g rounds).2.2, ∃ b ∈ rounds, e ∈ b := by
  obtain ⟨job', hf, hn⟩ := c18_newest g.st (serve g rounds).2.2 j job h
  refine ⟨job', ?_, hn, (c18_serve_refines_flat g rounds).2⟩
  rw [(c18_serve_refines_flat g rounds).1]; exact hf

/-- **Results at the serve level**: after every sequence of poll rounds the result for (`j`,`d`) is
the last accepted upload of `d` among the handled reports naming `j`, else what was stored before. -/
theorem c18_serve_results (g : G) (rounds : List (List Ev)) (j d : String) (job : Job)
    (h : find? g.st j = some job) :
    getResult (serve g rounds).1.st j d =
      (lastFor d (uploads job.registered (reportsOf j (serve g rounds).2.2))).or
        (lookupRes job.results d) := by
  rw [(c18_serve_refines_flat g rounds).1]
  exact c18_results_history g.st _ j d job h

/-- **A running gateway answers every event of a poll round in kind**: a socket registered at
poll time is handled (request → response of its class, controller message → processed), one that
is not registered is left unread; frontend bytes that are no request get the error response
`rejected`; nothing is dropped and the process does not end. No hypothesis on the events. -/
theorem c18_running_answers (g : G) (b : List Ev) (hrun : g.phase = .running) :
    (poll g b).g.phase ≠ .dead ∧ answersAll (flagged g.st b) (poll g b).outs = true :=
  (Aux.poll_running g b hrun).2.2.1

/-- Over ALL histories of poll rounds (shutdown requests and frontend bytes that are no request
included): the process never ends by an exception and no event is lost. -/
theorem c18_serve_never_dies (g : G) (rounds : List (List Ev)) (hrun : g.phase ≠ .dead) :
    (serve g rounds).1.phase ≠ .dead ∧
    ∀ outs ∈ (serve g rounds).2.1, ∀ o ∈ outs, o ≠ .died ∧ o ≠ .lost := by
  induction rounds generalizing g with
  | nil => simpa [serve] using hrun
  | cons b bs ih =>
    simp only [serve]
    by_cases hr : g.phase = .running
    · have hp := (Aux.poll_running g b hr).2.2.1
      have := ih (poll g b).g hp.1
      refine ⟨this.1, ?_⟩
      intro outs houts o ho
      rcases List.mem_cons.mp houts with h | h
      · subst h
        have := Aux.answersAll_served _ _ hp.2 o ho
        exact ⟨this.1, this.2.1⟩
      · exact this.2 outs h o ho
    · have hp := Aux.poll_ended g b hr
      have := ih (poll g b).g (by rw [hp.1]; exact hrun)
      refine ⟨this.1, ?_⟩
      intro outs houts o ho
      rcases List.mem_cons.mp houts with h | h
      · subst h
        have := hp.2.2 o ho
        subst this; simp
      · exact this.2 outs h o ho

/-- Events that cannot change what the gateway knows: every frontend message except a submit
(queries, shutdown requests, bytes that are no request) and non-report bytes on a job socket. -/
def passive : Ev → Bool
  | .fe (.submit _ _) => false
  | .fe _ => true
  | .ctrl _ .garbage => true
  | .ctrl _ (.report _) => false

/-- **Noise is invisible.** Over every history: erasing all malformed frontend bytes, all
non-report bytes on job sockets and all queries leaves the state — hence every later answer —
exactly as it was. (Before the repair of `handle_fe` one malformed frontend message ended the loop
for every job; that history is the `example` below.) -/
theorem c18_noise_invisible (s : St) (evs : List Ev) :
    runH s evs = runH s (evs.filter (fun e => !passive e)) := by
  induction evs generalizing s with
  | nil => rfl
  | cons e evs ih =>
    by_cases hp : passive e = true
    · have hstep : stepH s e = s := by
        cases e with
        | fe q => cases q <;> simp_all [passive, stepH, handle, handleFe]
        | ctrl k m => cases m <;> simp_all [passive, stepH, handle, handleCtrl]
      rw [Aux.runH_cons, hstep, List.filter_cons_of_neg (by simpa using hp)]
      exact ih s
    · rw [Aux.runH_cons, List.filter_cons_of_pos (by simpa using hp), Aux.runH_cons]
      exact ih _

/-- Frontend bytes that are no request are answered with an error response, the loop goes on and
the other jobs are served as before (the history that ended the loop before the repair). -/
example :
    let r := serve G.init [[.fe (.submit ["a"] false)], [.fe .malformed], [.fe (.progressOf [])]]
    r.1.phase = .running ∧ r.2.1 = [[.spawned (some "a")], [.rejected], [.progress (some [("a", "0.00")])]] := by
  decide

/-- **A closed socket is never read again**: once the shutdown notice of job `j` has been handled,
no later poll round handles an event of `j`'s own socket. -/
theorem c18_closed_socket_never_read (g : G) (rounds : List (List Ev)) (j : String) (job : Job)
    (hf : find? g.st j = some job) (hreg : job.registered = false) :
    ∀ e ∈ (serve g rounds).2.2, ∀ m, e ≠ .ctrl j m := by
  induction rounds generalizing g job with
  | nil => simp [serve]
  | cons b bs ih =>
    simp only [serve]
    have hp := Aux.poll_closed g b j job hf hreg
    obtain ⟨job', hf', hreg'⟩ := hp.1
    intro e he m
    rcases List.mem_append.mp he with he | he
    · exact hp.2 e he m
    · exact ih (poll g b).g job' hf' hreg' e he m

/-- **The shutdown notice is final for reports that arrive where they belong**: if every report of
the history arrives on the socket of the job it names, nothing changes for a job after its
shutdown notice. -/
theorem c18_shutdown_final_own_socket (g : G) (rounds : List (List Ev)) (j : String) (job : Job)
    (hf : find? g.st j = some job) (hreg : job.registered = false)
    (hown : ∀ b ∈ rounds, ∀ k r, Ev.ctrl k (.report r) ∈ b → k = r.job) :
    find? (serve g rounds).1.st j = some job := by
  rw [(c18_serve_refines_flat g rounds).1]
  apply c18_isolation _ _ j job hf
  have hclosed := c18_closed_socket_never_read g rounds j job hf hreg
  have hmem := (c18_serve_refines_flat g rounds).2
  generalize (serve g rounds).2.2 = hd at hclosed hmem
  induction hd with
  | nil => rfl
  | cons e evs ih =>
    have ih' := ih (fun e he => hclosed e (List.mem_cons_of_mem _ he)) (fun e he => hmem e (List.mem_cons_of_mem _ he))
    cases e with
    | fe q => simpa [reportsOf] using ih'
    | ctrl k m =>
      cases m with
      | garbage => simpa [reportsOf] using ih'
      | report r =>
        simp only [reportsOf]
        by_cases hj : (r.job == j) = true
        · exfalso
          obtain ⟨b, hb, heb⟩ := hmem _ List.mem_cons_self
          have hk := hown b hb k r heb
          have hjj : r.job = j := by simpa using hj
          exact hclosed _ List.mem_cons_self (.report r) (by rw [hk, hjj])
        · simp only [hj, Bool.false_eq_true, ↓reduceIte]; exact ih'

/-! ### the text form of a result -/

/-- **A result is returned exactly as uploaded, through its text form**: `handle_fe` answers with
`base64.b64encode(bytes)` inside the JSON response and the frontend's `decoded_result` applies
`base64.b64decode`; for EVERY byte string (any length, any content) decoding the encoding gives
the byte string back. (Model/Base64.lean; the tie compares `encode` with the text in the real
responses character for character.) -/
theorem c18_result_text_roundtrip (bs : List Nat) (h : ∀ b ∈ bs, b < 256) :
    B64.decode (B64.encode bs) = some bs :=
  B64.decode_encode bs h

/-- … and only as uploaded: two different uploads never have the same text. -/
theorem c18_result_text_injective (a b : List Nat) (ha : ∀ x ∈ a, x < 256) (hb : ∀ x ∈ b, x < 256)
    (h : B64.encode a = B64.encode b) : a = b := by
  have h1 := B64.decode_encode a ha
  have h2 := B64.decode_encode b hb
  rw [h] at h1
  rw [h1] at h2
  exact Option.some.inj h2

example : B64.encode [77, 97, 110, 255] = "TWFu/w==".toList ∧ B64.decode "TWFu/w==".toList = some [77, 97, 110, 255] := by
  decide

/-! ### non-vacuity: concrete histories -/

/-- an old report arrives late; an upload; a shutdown notice; a later report through a foreign socket -/
example :
    let s0 := (spawn [] ["a"] false).1
    let evs := [Ev.ctrl "a" (.report ⟨"a", some "50.00", 20, []⟩), .ctrl "a" (.report ⟨"a", some "10.00", 5, [("d", "ff")]⟩),
                .ctrl "a" (.report ⟨"a", some "Shutdown", 30, []⟩), .ctrl "b" (.report ⟨"zz", some "99.00", 40, [("d", "00")]⟩)]
    (progressOf (runH s0 evs) ["a"] = some [("a", "50.00")]) ∧ getResult (runH s0 evs) "a" "d" = some "ff" ∧
    getResult (runH s0 evs) "zz" "d" = none := by
  decide

/-- the serve loop: a report naming an unknown job, a failed launch, a report on a closed socket, a
shutdown request in the middle of a round -/
example :
    let r := serve G.init [[.fe (.submit ["a"] false)], [.fe (.submit ["b"] true)],
                           [.ctrl "a" (.report ⟨"nope", some "1.00", 1, []⟩)], [.fe (.submit ["a", "c"] false)],
                           [.ctrl "a" (.report ⟨"a", some "Shutdown", 2, []⟩)],
                           [.ctrl "a" (.report ⟨"a", some "7.00", 3, []⟩), .fe (.progressOf ["b"])],
                           [.fe .shutdown, .ctrl "c" (.report ⟨"c", some "5.00", 3, []⟩)], [.fe (.progressOf [])]]
    r.1.phase = .stopped ∧
    r.2.1 = [[.spawned (some "a")], [.spawned none], [.reported .error], [.spawned (some "c")], [.reported .ok],
             [.notRead, .progress none], [.bye, .reported .ok], [.notServed]] ∧
    handedOut [] r.2.2 = ["a", "c"] ∧ progressOf r.1.st [] = some [("a", "0.00"), ("c", "5.00")] := by
  decide

end EkwVerif.Gateway
