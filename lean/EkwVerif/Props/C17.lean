/-
C17 — every wire encoding of `cascade.shm.api` round-trips over its whole value domain, and a
value outside the domain is rejected by the encoder (never truncated).

Model: `Model/Codec.lean` (generic interpreter of field sequences + tag table).
Table: `Gen/ShmApi.lean` (regenerated from src/cascade/shm/api.py by the translator on every run).

Last section: the JSON *shape* of a job instance (Model/Json.lean) loads back to the same instance.

Property theorems (`c17_*`); helper lemmas live in `namespace Aux` / `JsonAux`.
All statements quantify over arbitrary naturals / integers, arbitrary strings and arbitrary schemas;
nothing is bounded. Only `c17_schema_ok` and the instantiation theorems speak about the generated table.
-/
import EkwVerif.Model.Codec
import EkwVerif.Model.Json
import EkwVerif.Gen.ShmApi

namespace EkwVerif.Codec

deriving instance DecidableEq for Except

/-- element-wise relation of two lists of equal length (core Lean has no `List.Forall₂`) -/
inductive Forall₂ {α β : Type} (R : α → β → Prop) : List α → List β → Prop
  | nil : Forall₂ R [] []
  | cons {a b as bs} : R a b → Forall₂ R as bs → Forall₂ R (a :: as) (b :: bs)

namespace Aux

theorem Forall₂.imp_mem {α β : Type} {R S : α → β → Prop} : ∀ {as : List α} {bs : List β},
    (∀ a b, a ∈ as → b ∈ bs → R a b → S a b) → Forall₂ R as bs → Forall₂ S as bs
  | [], [], _, _ => .nil
  | a :: as, b :: bs, h, hr => by
    cases hr with
    | cons h1 h2 =>
      exact .cons (h a b (List.mem_cons_self ..) (List.mem_cons_self ..) h1)
        (Forall₂.imp_mem (fun x y hx hy => h x y (List.mem_cons_of_mem _ hx) (List.mem_cons_of_mem _ hy)) h2)

/-! ### fixed-width integers -/

theorem toLE_length (w n : Nat) : (toLE w n).length = w := by
  induction w generalizing n with
  | zero => rfl
  | succ w ih => simp [toLE, ih]

theorem toBE_length (w n : Nat) : (toBE w n).length = w := by
  induction w generalizing n with
  | zero => rfl
  | succ w ih => simp [toBE, ih]

theorem div_lt_pow {w n : Nat} (h : n < 256 ^ (w + 1)) : n / 256 < 256 ^ w := by
  rw [Nat.pow_succ] at h
  exact (Nat.div_lt_iff_lt_mul (by decide)).mpr h

theorem fromLE_toLE (w n : Nat) (h : n < 256 ^ w) : fromLE (toLE w n) = n := by
  induction w generalizing n with
  | zero => simp at h; subst h; rfl
  | succ w ih =>
    simp only [toLE, fromLE]
    rw [ih _ (div_lt_pow h)]
    omega

theorem fromBE_snoc (bs : Bytes) (b : Nat) : fromBE (bs ++ [b]) = fromBE bs * 256 + b := by
  simp [fromBE, List.foldl_append]

theorem fromBE_toBE (w n : Nat) (h : n < 256 ^ w) : fromBE (toBE w n) = n := by
  induction w generalizing n with
  | zero => simp at h; subst h; rfl
  | succ w ih =>
    simp only [toBE]
    rw [fromBE_snoc, ih _ (div_lt_pow h)]
    omega

theorem natToBytes_length (e : Endian) (w n : Nat) : (natToBytes e w n).length = w := by
  cases e <;> simp [natToBytes, toBE_length, toLE_length]

theorem bytesToNat_natToBytes (e : Endian) (w n : Nat) (h : n < 256 ^ w) :
    bytesToNat e (natToBytes e w n) = n := by
  cases e <;> simp [natToBytes, bytesToNat, fromBE_toBE, fromLE_toLE, h]

theorem take_append_len {α} (a b : List α) (n : Nat) (h : a.length = n) : (a ++ b).take n = a := by
  subst h; simp

theorem drop_append_len {α} (a b : List α) (n : Nat) (h : a.length = n) : (a ++ b).drop n = b := by
  subst h; simp

/-! ### one field -/

theorem encodeInt_ok {w : Nat} {e : Endian} {n : Int} {b : Bytes} (h : encodeInt w e n = .ok b) :
    0 ≤ n ∧ n.toNat < 256 ^ w ∧ b = natToBytes e w n.toNat := by
  unfold encodeInt at h
  split at h
  · rename_i hc
    cases h
    exact ⟨hc.1, hc.2, rfl⟩
  · cases h

theorem encodeInt_of_dom {w : Nat} (e : Endian) {n : Int} (h0 : 0 ≤ n) (h1 : n.toNat < 256 ^ w) :
    encodeInt w e n = .ok (natToBytes e w n.toNat) := by
  unfold encodeInt
  simp [h0, h1]

/-- encoding succeeds exactly on the domain -/
theorem encodeVal_ok_dom {k : Kind} {v : Val} {b : Bytes} (h : encodeVal k v = .ok b) : InDom k v := by
  cases k <;> cases v <;> simp only [encodeVal, InDom] at h ⊢
  · obtain ⟨h0, h1, _⟩ := encodeInt_ok h; exact ⟨h0, h1⟩
  · cases h
  · cases h
  · split at h
    · rename_i hl
      split at h
      · rename_i ha; exact ⟨hl, ha⟩
      · cases h
    · cases h
  · split at h
    · rename_i hc
      obtain ⟨_, h1, _⟩ := encodeInt_ok h
      exact ⟨hc.1, hc.2, h1⟩
    · cases h
  · cases h

theorem encodeVal_of_dom {k : Kind} {v : Val} (h : InDom k v) : ∃ b, encodeVal k v = .ok b := by
  cases k <;> cases v <;> simp only [encodeVal, InDom] at h ⊢
  · exact ⟨_, encodeInt_of_dom _ h.1 h.2⟩
  · simp [h.1, h.2]
  · simp only [h.1, h.2.1, and_self, ↓reduceIte]
    exact ⟨_, encodeInt_of_dom _ h.1 h.2.2⟩

/-- decoding what the encoder produced (followed by arbitrary further bytes) gives the value back
and leaves exactly the further bytes -/
theorem decodeVal_encodeVal {k : Kind} {v : Val} {b : Bytes} (tail : Bytes)
    (h : encodeVal k v = .ok b) : decodeVal k (b ++ tail) = .ok (v, tail) := by
  cases k <;> cases v <;> simp only [encodeVal] at h
  · rename_i w e n
    obtain ⟨h0, h1, rfl⟩ := encodeInt_ok h
    simp only [decodeVal]
    rw [take_append_len _ _ _ (natToBytes_length e w _), drop_append_len _ _ _ (natToBytes_length e w _),
      bytesToNat_natToBytes e w _ h1]
    simp [Int.toNat_of_nonneg h0]
  · cases h
  · cases h
  · rename_i lw e cs
    split at h
    · rename_i hl
      split at h
      · rename_i ha
        cases h
        simp only [decodeVal, List.append_assoc]
        rw [take_append_len _ _ _ (natToBytes_length e lw _), drop_append_len _ _ _ (natToBytes_length e lw _),
          bytesToNat_natToBytes e lw _ hl, take_append_len _ _ _ rfl, drop_append_len _ _ _ rfl]
        simp [ha]
      · cases h
    · cases h
  · rename_i w e allowed n
    split at h
    · rename_i hc
      obtain ⟨h0, h1, rfl⟩ := encodeInt_ok h
      simp only [decodeVal]
      rw [take_append_len _ _ _ (natToBytes_length e w _), drop_append_len _ _ _ (natToBytes_length e w _),
        bytesToNat_natToBytes e w _ h1]
      simp [hc.2, Int.toNat_of_nonneg h0]
    · cases h
  · cases h

/-! ### field sequences -/

theorem encodeFields_ok_dom : ∀ {ks : List Kind} {vs : List Val} {bs : Bytes},
    encodeFields ks vs = .ok bs → Forall₂ InDom ks vs
  | [], [], _, _ => .nil
  | [], _ :: _, _, h => by simp [encodeFields] at h
  | _ :: _, [], _, h => by simp [encodeFields] at h
  | k :: ks, v :: vs, bs, h => by
    simp only [encodeFields] at h
    split at h
    · cases h
    · rename_i b hb
      split at h
      · cases h
      · rename_i bs' hbs
        exact .cons (encodeVal_ok_dom hb) (encodeFields_ok_dom hbs)

theorem encodeFields_of_dom : ∀ {ks : List Kind} {vs : List Val},
    Forall₂ InDom ks vs → ∃ bs, encodeFields ks vs = .ok bs
  | [], [], _ => ⟨[], rfl⟩
  | k :: ks, v :: vs, h => by
    cases h with
    | cons h1 h2 =>
      obtain ⟨b, hb⟩ := encodeVal_of_dom h1
      obtain ⟨bs, hbs⟩ := encodeFields_of_dom h2
      exact ⟨b ++ bs, by simp [encodeFields, hb, hbs]⟩

theorem decodeFields_encodeFields : ∀ {ks : List Kind} {vs : List Val} {bs : Bytes} (tail : Bytes),
    encodeFields ks vs = .ok bs → decodeFields ks (bs ++ tail) = .ok (vs, tail)
  | [], [], _, tail, h => by simp [encodeFields] at h; subst h; rfl
  | [], _ :: _, _, _, h => by simp [encodeFields] at h
  | _ :: _, [], _, _, h => by simp [encodeFields] at h
  | k :: ks, v :: vs, bs, tail, h => by
    simp only [encodeFields] at h
    split at h
    · cases h
    · rename_i b hb
      split at h
      · cases h
      · rename_i bs' hbs
        cases h
        simp only [decodeFields, List.append_assoc]
        rw [decodeVal_encodeVal (bs' ++ tail) hb]
        simp only
        rw [decodeFields_encodeFields tail hbs]

/-! ### attribute lookup / constructor keywords -/

theorem getField_cons_ne {k k' : String} {ks : List String} {v : Val} {vs : List Val} (h : k ≠ k') :
    getField k (k' :: ks) (v :: vs) = getField k ks vs := by
  simp [getField, h]

theorem getAll_length : ∀ {names ks : List String} {vs r : List Val},
    getAll names ks vs = some r → r.length = names.length
  | [], _, _, r, h => by simp [getAll] at h; subst h; rfl
  | n :: ns, ks, vs, r, h => by
    simp only [getAll] at h
    split at h
    · rename_i v r' hv hr
      cases h
      simp [getAll_length hr]
    · cases h

/-- `getAll` succeeds iff every name is found; element-wise description -/
theorem getAll_forall₂ : ∀ {names ks : List String} {vs r : List Val},
    getAll names ks vs = some r → Forall₂ (fun n v => getField n ks vs = some v) names r
  | [], _, _, r, h => by simp [getAll] at h; subst h; exact .nil
  | n :: ns, ks, vs, r, h => by
    simp only [getAll] at h
    split at h
    · rename_i v r' hv hr
      cases h
      exact .cons hv (getAll_forall₂ hr)
    · cases h

theorem getAll_of_forall₂ : ∀ {names ks : List String} {vs r : List Val},
    Forall₂ (fun n v => getField n ks vs = some v) names r → getAll names ks vs = some r
  | [], _, _, [], _ => rfl
  | n :: ns, ks, vs, v :: r, h => by
    cases h with
    | cons h1 h2 => simp [getAll, h1, getAll_of_forall₂ h2]

/-- looking a key of `ns` up in the values collected for `ns` gives what was collected for it -/
theorem getField_of_getAll : ∀ {ns ks : List String} {vs ws : List Val} {k : String},
    getAll ns ks vs = some ws → k ∈ ns → getField k ns ws = getField k ks vs
  | [], _, _, _, _, _, hk => by cases hk
  | n :: ns, ks, vs, ws, k, h, hk => by
    simp only [getAll] at h
    split at h
    · rename_i v r hv hr
      cases h
      by_cases hkn : k = n
      · subst hkn; simp [getField, hv]
      · rw [getField_cons_ne hkn]
        have : k ∈ ns := by
          cases hk with
          | head => exact absurd rfl hkn
          | tail _ h => exact h
        exact getField_of_getAll hr this
    · cases h

/-- reading all declared fields of a message back in declaration order is the identity -/
theorem getAll_self : ∀ {ks : List String} {vs : List Val},
    ks.Nodup → vs.length = ks.length → getAll ks ks vs = some vs
  | [], [], _, _ => rfl
  | [], _ :: _, _, h => by simp at h
  | _ :: _, [], _, h => by simp at h
  | k :: ks, v :: vs, hnd, hl => by
    have hnd' := List.nodup_cons.mp hnd
    have ih : getAll ks ks vs = some vs := getAll_self hnd'.2 (by simpa using hl)
    -- on the tail keys, the head entry is never hit
    have hshift : getAll ks (k :: ks) (v :: vs) = some vs := by
      apply getAll_of_forall₂
      have := getAll_forall₂ ih
      refine Forall₂.imp_mem ?_ this
      intro n w hn _ hw
      have hne : n ≠ k := fun e => hnd'.1 (e ▸ hn)
      rw [getField_cons_ne hne]; exact hw
    simp [getAll, getField, hshift]

theorem getAll_congr : ∀ {names ks ks' : List String} {vs vs' : List Val},
    (∀ n ∈ names, getField n ks vs = getField n ks' vs') → getAll names ks vs = getAll names ks' vs'
  | [], _, _, _, _, _ => rfl
  | n :: ns, ks, ks', vs, vs', h => by
    simp only [getAll]
    rw [h n (List.mem_cons_self ..), getAll_congr (fun m hm => h m (List.mem_cons_of_mem _ hm))]

/-! ### tag table -/

theorem find_fst_of_mem {α β} [BEq α] [LawfulBEq α] : ∀ {l : List (α × β)} {a : α} {b : β},
    (l.map (·.1)).Nodup → (a, b) ∈ l → l.find? (fun p => p.1 == a) = some (a, b)
  | [], _, _, _, h => by cases h
  | (a', b') :: l, a, b, hnd, h => by
    simp only [List.map_cons, List.nodup_cons] at hnd
    by_cases ha : a' = a
    · subst ha
      have : b' = b := by
        cases h with
        | head => rfl
        | tail _ h => exact absurd (List.mem_map.mpr ⟨(a', b), h, rfl⟩) hnd.1
      subst this
      simp [List.find?]
    · have hm : (a, b) ∈ l := by
        cases h with
        | head => exact absurd rfl ha
        | tail _ h => exact h
      rw [List.find?_cons_of_neg (by simpa using ha)]
      exact find_fst_of_mem hnd.2 hm

end Aux

open Aux

/-! ## Property theorems -/

/-- **Generic round trip, field level.** For every field sequence and all values: if the encoder
accepts the values, decoding its output (followed by arbitrary trailing bytes) returns exactly the
values and exactly the trailing bytes. Induction over the sequence; integers and strings unbounded. -/
theorem c17_fields_roundtrip (ks : List Kind) (vs : List Val) (h : Forall₂ InDom ks vs) (tail : Bytes) :
    ∃ bs, encodeFields ks vs = .ok bs ∧ decodeFields ks (bs ++ tail) = .ok (vs, tail) := by
  obtain ⟨bs, hbs⟩ := encodeFields_of_dom h
  exact ⟨bs, hbs, decodeFields_encodeFields tail hbs⟩

/-- **Generic round trip, message level.** For every class schema whose `ser` and `deser`
sequences agree and cover exactly the declared fields, and every message value in the domain,
`cls.deser(m.ser())` is `m` (also when further bytes follow). -/
theorem c17_roundtrip_generic (s : MsgSchema) (vals : List Val) (hw : WellFormed s)
    (hd : InDomainMsg s vals) (tail : Bytes) :
    ∃ bs, encodeMsg s vals = .ok bs ∧ decodeMsg s (bs ++ tail) = .ok vals := by
  obtain ⟨hsd, hfnd, hsnd, hcov, hsub⟩ := hw
  obtain ⟨hlen, hall⟩ := hd
  -- the attribute values read by `ser`
  have hget : ∀ l : List Field, (∀ f ∈ l, ∃ v, getField f.name s.fields vals = some v ∧ InDom f.kind v) →
      ∃ vs, getAll (l.map (·.name)) s.fields vals = some vs ∧ Forall₂ InDom (l.map (·.kind)) vs := by
    intro l
    induction l with
    | nil => intro _; exact ⟨[], rfl, .nil⟩
    | cons f fs ih =>
      intro hl
      obtain ⟨v, hv, hdv⟩ := hl f (List.mem_cons_self ..)
      obtain ⟨vs, hvs, hdvs⟩ := ih (fun g hg => hl g (List.mem_cons_of_mem _ hg))
      exact ⟨v :: vs, by simp [getAll, hv, hvs], .cons hdv hdvs⟩
  obtain ⟨vs, hvs, hdom⟩ := hget s.ser hall
  obtain ⟨bs, hbs⟩ := encodeFields_of_dom hdom
  refine ⟨bs, by simp [encodeMsg, hlen, hvs, hbs], ?_⟩
  have hdec := decodeFields_encodeFields tail hbs
  simp only [decodeMsg, ← hsd, hdec]
  -- constructor keywords: every declared field is found among the values read
  have : getAll s.fields (s.ser.map (·.name)) vs = some vals := by
    rw [getAll_congr (ks' := s.fields) (vs' := vals)
      (fun n hn => getField_of_getAll hvs (hcov n hn))]
    exact getAll_self hfnd hlen
  simp [this]

/-- **Rejection, never truncation (message level).** If a message value is outside the domain
of its class the encoder fails; equivalently, whenever the encoder produces bytes the value was in
the domain (so by `c17_roundtrip_generic` those bytes decode to the very same value). -/
theorem c17_rejects (s : MsgSchema) (vals : List Val) (h : ¬ InDomainMsg s vals) :
    ∃ e, encodeMsg s vals = .error e := by
  cases henc : encodeMsg s vals with
  | error e => exact ⟨e, rfl⟩
  | ok bs =>
    exfalso; apply h
    unfold encodeMsg at henc
    split at henc
    · rename_i hlen
      split at henc
      · cases henc
      · rename_i vs hvs
        refine ⟨hlen, ?_⟩
        have h1 := getAll_forall₂ hvs
        have h2 := encodeFields_ok_dom henc
        have key : ∀ (l : List Field) (ws : List Val),
            Forall₂ (fun n v => getField n s.fields vals = some v) (l.map (·.name)) ws →
            Forall₂ InDom (l.map (·.kind)) ws →
            ∀ f ∈ l, ∃ v, getField f.name s.fields vals = some v ∧ InDom f.kind v := by
          intro l
          induction l with
          | nil => intro _ _ _ f hf; cases hf
          | cons g gs ih =>
            intro ws h1 h2 f hf
            cases ws with
            | nil => cases h1
            | cons v ws =>
              simp only [List.map_cons] at h1 h2
              cases h1 with
              | cons h1a h1b =>
                cases h2 with
                | cons h2a h2b =>
                  cases hf with
                  | head => exact ⟨v, h1a, h2a⟩
                  | tail _ hf => exact ih ws h1b h2b f hf
        exact key s.ser vs h1 h2
    · cases henc

/-- **Rejection at field level**: one value outside the domain of its primitive (negative, too wide,
non-ASCII, over-long, no enum member, wrong type) makes the encoder fail. -/
theorem c17_rejects_field (k : Kind) (v : Val) (h : ¬ InDom k v) : ∃ e, encodeVal k v = .error e := by
  cases henc : encodeVal k v with
  | error e => exact ⟨e, rfl⟩
  | ok b => exact absurd (encodeVal_ok_dom henc) h

/-- The encoder never shortens: accepted values occupy exactly the declared widths
(`w` bytes for an integer, `lw + len` for a string). -/
theorem c17_no_truncation (k : Kind) (v : Val) (b : Bytes) (h : encodeVal k v = .ok b) :
    b.length = match k, v with
      | .int w _, _ => w
      | .enum w _ _, _ => w
      | .str lw _, .str cs => lw + cs.length
      | .str lw _, _ => lw := by
  cases k <;> cases v <;> simp only [encodeVal] at h
  · obtain ⟨_, _, rfl⟩ := encodeInt_ok h; simp [natToBytes_length]
  · cases h
  · cases h
  · split at h
    · split at h
      · cases h; simp [natToBytes_length]
      · cases h
    · cases h
  · split at h
    · obtain ⟨_, _, rfl⟩ := encodeInt_ok h; simp [natToBytes_length]
    · cases h
  · cases h

/-! ### table level -/

namespace Aux

theorem schemaOK_parts {t : Table} (h : SchemaOK t = true) :
    (∀ s ∈ t.msgs, WellFormed s) ∧ (t.msgs.map (·.cls)).Nodup ∧ (t.tags.map (·.1)).Nodup ∧
    (t.tags.map (·.2)).Nodup ∧ (∀ p ∈ t.tags, p.1.length = 1) ∧
    (∀ p ∈ t.tags, (t.schema p.2).isSome = true) ∧
    (∀ s ∈ t.msgs, s.isBase = false → (t.c2b s.cls).isSome = true) ∧
    (∀ s ∈ t.msgs, sizeWide s = true) ∧ (∀ s ∈ t.msgs, strWide s = true) := by
  simp only [SchemaOK, Bool.and_eq_true, List.all_eq_true, decide_eq_true_eq, Bool.or_eq_true,
    beq_iff_eq] at h
  obtain ⟨⟨⟨⟨⟨⟨⟨⟨h1, h2⟩, h3⟩, h4⟩, h5⟩, h6⟩, h7⟩, h8⟩, h9⟩ := h
  refine ⟨h1, h2, h3, h4, fun p hp => (h5 p hp).1, h6, ?_, h8, h9⟩
  intro s hs hb
  rcases h7 s hs with h | h
  · rw [hb] at h; cases h
  · exact h

theorem find_cls_of_mem {s : MsgSchema} : ∀ {l : List MsgSchema},
    (l.map (·.cls)).Nodup → s ∈ l → l.find? (fun x => x.cls == s.cls) = some s
  | [], _, hs => by cases hs
  | a :: l, hnd, hs => by
    simp only [List.map_cons, List.nodup_cons] at hnd
    by_cases ha : a.cls = s.cls
    · have : a = s := by
        cases hs with
        | head => rfl
        | tail _ h => exact absurd (ha ▸ List.mem_map.mpr ⟨s, h, rfl⟩) hnd.1
      subst this
      simp [List.find?]
    · have hm : s ∈ l := by
        cases hs with
        | head => exact absurd rfl ha
        | tail _ h => exact h
      rw [List.find?_cons_of_neg (by simpa using ha)]
      exact find_cls_of_mem hnd.2 hm

theorem schema_of_mem {t : Table} (hnd : (t.msgs.map (·.cls)).Nodup) {s : MsgSchema} (hs : s ∈ t.msgs) :
    t.schema s.cls = some s := find_cls_of_mem hnd hs

/-- executable domain test (used for the concrete examples) -/
def inDomMsgB (s : MsgSchema) (vals : List Val) : Bool :=
  decide (vals.length = s.fields.length) &&
  s.ser.all (fun f => match getField f.name s.fields vals with
    | some v => decide (InDom f.kind v)
    | none => false)

theorem inDomMsgB_sound {s : MsgSchema} {vals : List Val} (h : inDomMsgB s vals = true) : InDomainMsg s vals := by
  simp only [inDomMsgB, Bool.and_eq_true, decide_eq_true_eq, List.all_eq_true] at h
  refine ⟨h.1, fun f hf => ?_⟩
  have := h.2 f hf
  split at this
  · rename_i v hv; exact ⟨v, hv, by simpa using this⟩
  · cases this

def inDomainB (t : Table) (m : Msg) : Bool :=
  match t.schema m.cls with
  | some s => !s.isBase && inDomMsgB s m.vals
  | none => false

theorem inDomainB_sound {t : Table} {m : Msg} (h : inDomainB t m = true) : InDomain t m := by
  unfold inDomainB at h
  split at h
  · rename_i s hs
    simp only [Bool.and_eq_true, Bool.not_eq_true'] at h
    unfold Table.schema at hs
    have h1 := List.find?_some hs
    exact ⟨s, List.mem_of_find?_eq_some hs, by simpa using h1, h.1, inDomMsgB_sound h.2⟩
  · cases h

end Aux

/-- **Round trip through the tag table.** For every table satisfying `SchemaOK`, every concrete
class `s` of the table and every value in the domain of `s`: `api.deser(api.ser(m)) == m`. -/
theorem c17_roundtrip_table (t : Table) (hok : SchemaOK t = true) (m : Msg) (hd : InDomain t m) :
    ∃ bs, encode t m = .ok bs ∧ decode t bs = .ok m := by
  obtain ⟨hwf, hcls, htag1, _htag2, hlen1, _hex, hall, _, _⟩ := schemaOK_parts hok
  obtain ⟨s, hs, hc, hbase, hdm⟩ := hd
  have hsch : t.schema m.cls = some s := hc ▸ schema_of_mem hcls hs
  have hc2b := hall s hs hbase
  rw [hc] at hc2b
  obtain ⟨tag, htag⟩ := Option.isSome_iff_exists.mp hc2b
  -- the tag entry found by c2b
  have hmem : (tag, m.cls) ∈ t.tags := by
    unfold Table.c2b at htag
    cases hf : t.tags.find? (fun p => p.2 == m.cls) with
    | none => simp [hf] at htag
    | some p =>
      simp [hf] at htag
      have h1 := List.find?_some hf
      have h2 := List.mem_of_find?_eq_some hf
      simp at h1
      cases p with
      | mk a b => simp at htag h1; subst htag; subst h1; exact h2
  have htl : tag.length = 1 := hlen1 _ hmem
  have hb2c : t.b2c tag = some m.cls := by
    unfold Table.b2c
    rw [find_fst_of_mem htag1 hmem]; rfl
  obtain ⟨body, hbody, hdec⟩ := c17_roundtrip_generic s m.vals (hwf s hs) hdm []
  refine ⟨tag ++ body, by simp [encode, htag, hsch, hbody], ?_⟩
  simp only [List.append_nil] at hdec
  simp only [decode, take_append_len _ _ _ htl, drop_append_len _ _ _ htl, hb2c, hsch, hdec]

/-- Under `SchemaOK` every concrete class can be sent at all (it has a tag): the domain of
`c17_roundtrip_table` is not emptied by a class missing from `b2c`. -/
theorem c17_every_class_tagged (t : Table) (hok : SchemaOK t = true) (s : MsgSchema) (hs : s ∈ t.msgs)
    (hb : s.isBase = false) : ∃ tag, t.c2b s.cls = some tag ∧ t.b2c tag = some s.cls := by
  obtain ⟨_, _, htag1, _, _, _, hall, _, _⟩ := schemaOK_parts hok
  obtain ⟨tag, htag⟩ := Option.isSome_iff_exists.mp (hall s hs hb)
  refine ⟨tag, htag, ?_⟩
  have hmem : (tag, s.cls) ∈ t.tags := by
    unfold Table.c2b at htag
    cases hf : t.tags.find? (fun p => p.2 == s.cls) with
    | none => simp [hf] at htag
    | some p =>
      simp [hf] at htag
      have h1 := List.find?_some hf
      have h2 := List.mem_of_find?_eq_some hf
      simp at h1
      cases p with
      | mk a b => simp at htag h1; subst htag; subst h1; exact h2
  unfold Table.b2c
  rw [find_fst_of_mem htag1 hmem]; rfl

/-- Under `SchemaOK` every byte count below 2^64 is in the domain of every field that carries a
dataset size or a free-space figure (no 4-byte length fields). -/
theorem c17_sizes_in_domain (t : Table) (hok : SchemaOK t = true) (s : MsgSchema) (hs : s ∈ t.msgs)
    (f : Field) (hf : f ∈ s.ser) (hsz : f.name ∈ s.sizeFields) (n : Nat) (hn : n < 2 ^ 64) :
    InDom f.kind (.int (Int.ofNat n)) := by
  obtain ⟨_, _, _, _, _, _, _, hsize, _⟩ := schemaOK_parts hok
  have h := hsize s hs
  simp only [sizeWide, List.all_eq_true, Bool.and_eq_true, Bool.or_eq_true, bne_iff_ne, ne_eq,
    List.mem_append] at h
  have hk := (h f.name hsz).2 f (Or.inl hf)
  rcases hk with hk | hk
  · exact absurd rfl hk
  · cases hkind : f.kind with
    | int w e =>
      simp only [hkind, decide_eq_true_eq] at hk
      refine ⟨Int.natCast_nonneg n, ?_⟩
      have : (2:Nat) ^ 64 ≤ 256 ^ w :=
        calc (2:Nat) ^ 64 = 256 ^ 8 := by decide
          _ ≤ 256 ^ w := Nat.pow_le_pow_right (by decide) hk
      show n < 256 ^ w
      omega
    | str lw e => simp [hkind] at hk
    | enum w e a => simp [hkind] at hk

/-- Under `SchemaOK` every ASCII string shorter than 2^32 characters (keys, shm ids, error texts,
deserialiser names) is in the domain of every string field. -/
theorem c17_strings_in_domain (t : Table) (hok : SchemaOK t = true) (s : MsgSchema) (hs : s ∈ t.msgs)
    (f : Field) (hf : f ∈ s.ser) (lw : Nat) (e : Endian) (hk : f.kind = .str lw e)
    (cs : List Nat) (hascii : isAscii cs = true) (hlen : cs.length < 2 ^ 32) : InDom f.kind (.str cs) := by
  obtain ⟨_, _, _, _, _, _, _, _, hstr⟩ := schemaOK_parts hok
  have h := hstr s hs
  simp only [strWide, List.all_eq_true, List.mem_append] at h
  have h4 := h f (Or.inl hf)
  rw [hk] at h4 ⊢
  simp only [decide_eq_true_eq] at h4
  refine ⟨?_, hascii⟩
  have : (2:Nat) ^ 32 ≤ 256 ^ lw :=
    calc (2:Nat) ^ 32 = 256 ^ 4 := by decide
      _ ≤ 256 ^ lw := Nat.pow_le_pow_right (by decide) h4
  omega

/-! ### the generated table of cascade.shm.api -/

/-- The table read from src/cascade/shm/api.py satisfies every side condition: ser/deser sequences
agree for every class, tags are distinct single bytes, every concrete class — requests and
responses — is tagged, and every size / free-space field is at least 8 bytes wide.
(False on the pinned tree in three ways, see known/C17.json; true after the `fix:` commits.) -/
theorem c17_schema_ok : SchemaOK Gen.shmApi = true := by decide

/-- **Every message of cascade.shm.api round-trips**: any instance of any concrete class with
ASCII strings shorter than 2^32, sizes below 2^64 (see `c17_shm_api_sizes`) and enum members. -/
theorem c17_shm_api_roundtrip (m : Msg) (hd : InDomain Gen.shmApi m) :
    ∃ bs, encode Gen.shmApi m = .ok bs ∧ decode Gen.shmApi bs = .ok m :=
  c17_roundtrip_table Gen.shmApi c17_schema_ok m hd

/-- ... and outside that domain `api.ser` raises. -/
theorem c17_shm_api_rejects (m : Msg) (s : MsgSchema) (hs : Gen.shmApi.schema m.cls = some s)
    (h : ¬ InDomainMsg s m.vals) : ∃ e, encode Gen.shmApi m = .error e := by
  obtain ⟨e, he⟩ := c17_rejects s m.vals h
  unfold encode
  cases hc : Gen.shmApi.c2b m.cls with
  | none => exact ⟨.key, rfl⟩
  | some tag => exact ⟨e, by simp [hs, he]⟩

/-- all sizes below 2^64 are admitted by every size field of cascade.shm.api -/
theorem c17_shm_api_sizes (s : MsgSchema) (hs : s ∈ Gen.shmApi.msgs) (f : Field) (hf : f ∈ s.ser)
    (hsz : f.name ∈ s.sizeFields) (n : Nat) (hn : n < 2 ^ 64) : InDom f.kind (.int (Int.ofNat n)) :=
  c17_sizes_in_domain Gen.shmApi c17_schema_ok s hs f hf hsz n hn

/-- all ASCII strings shorter than 2^32 are admitted by every string field of cascade.shm.api -/
theorem c17_shm_api_strings (s : MsgSchema) (hs : s ∈ Gen.shmApi.msgs) (f : Field) (hf : f ∈ s.ser)
    (lw : Nat) (e : Endian) (hk : f.kind = .str lw e) (cs : List Nat) (hascii : isAscii cs = true)
    (hlen : cs.length < 2 ^ 32) : InDom f.kind (.str cs) :=
  c17_strings_in_domain Gen.shmApi c17_schema_ok s hs f hf lw e hk cs hascii hlen

/-! ### non-vacuity -/

/-- a class schema whose `ser` order is a permutation of the declaration order -/
def demoSchema : MsgSchema :=
  { cls := "X", fields := ["a", "b", "c"],
    ser := [⟨"b", .int 8 .big⟩, ⟨"c", .str 4 .big⟩, ⟨"a", .enum 4 .little [1, 2, 3]⟩],
    deser := [⟨"b", .int 8 .big⟩, ⟨"c", .str 4 .big⟩, ⟨"a", .enum 4 .little [1, 2, 3]⟩],
    isBase := false, isResponse := false, sizeFields := ["b"] }

-- hypotheses of c17_roundtrip_generic are satisfiable, with a value at the upper end of the domain
example : WellFormed demoSchema := by decide
example : InDomainMsg demoSchema [.int 3, .int (2 ^ 64 - 1), .str [104, 105]] :=
  Aux.inDomMsgB_sound (by decide)
-- swapping two reads in `deser`, or one width, or one byte order, breaks WellFormed
example : ¬ WellFormed { demoSchema with deser := [⟨"c", .str 4 .big⟩, ⟨"b", .int 8 .big⟩, ⟨"a", .enum 4 .little [1, 2, 3]⟩] } := by decide
example : ¬ WellFormed { demoSchema with deser := [⟨"b", .int 4 .big⟩, ⟨"c", .str 4 .big⟩, ⟨"a", .enum 4 .little [1, 2, 3]⟩] } := by decide
example : ¬ WellFormed { demoSchema with deser := [⟨"b", .int 8 .little⟩, ⟨"c", .str 4 .big⟩, ⟨"a", .enum 4 .little [1, 2, 3]⟩] } := by decide

example : Forall₂ InDom [.int 8 .big, .str 4 .big] [.int (2 ^ 64 - 1), .str [104, 105]] :=
  .cons (by decide) (.cons (by decide) .nil)

-- c17_rejects is not vacuous: 2^64 is outside an 8-byte field, 200 is not ASCII, -1 is negative
example : ¬ InDom (.int 8 .big) (.int (2 ^ 64)) := by decide
example : ¬ InDom (.str 4 .big) (.str [200]) := by decide
example : ¬ InDom (.int 8 .big) (.int (-1)) := by decide
example : ¬ InDomainMsg demoSchema [.int 3, .int (2 ^ 64), .str []] := by
  intro h
  obtain ⟨v, hv, hd⟩ := h.2 ⟨"b", .int 8 .big⟩ (by decide)
  have : v = .int (2 ^ 64) := by
    have : getField "b" demoSchema.fields [.int 3, .int (2 ^ 64), .str []] = some (.int (2 ^ 64)) := by decide
    rw [this] at hv; exact (Option.some.inj hv).symm
  subst this
  exact absurd hd (by decide)
example : encodeVal (.int 4 .big) (.int (2 ^ 32)) = .error .overflow := by decide

/-- `decode (encode m) = m`, executable -/
def roundtripB (t : Table) (m : Msg) : Bool :=
  match encode t m with
  | .ok bs => decide (decode t bs = .ok m)
  | .error _ => false

/-- Non-vacuity of the instantiation theorems, for EVERY concrete class of cascade.shm.api: the
translator emits one message per class with every size field at 2^64-1; each of them is in the
domain (so `c17_shm_api_roundtrip` applies to it) and evaluating the model confirms the round trip;
no concrete class lacks a witness. -/
theorem c17_shm_api_nonvacuous :
    (∀ m ∈ Gen.shmApiWitnesses, InDomain Gen.shmApi m ∧ roundtripB Gen.shmApi m = true) ∧
    (∀ s ∈ Gen.shmApi.msgs, s.isBase = false → ∃ m ∈ Gen.shmApiWitnesses, m.cls = s.cls) := by
  refine ⟨?_, ?_⟩
  · have h : Gen.shmApiWitnesses.all (fun m => inDomainB Gen.shmApi m && roundtripB Gen.shmApi m) = true := by decide
    intro m hm
    have := List.all_eq_true.mp h m hm
    simp only [Bool.and_eq_true] at this
    exact ⟨Aux.inDomainB_sound this.1, this.2⟩
  · have h : Gen.shmApi.msgs.all (fun s => s.isBase || Gen.shmApiWitnesses.any (fun m => m.cls == s.cls)) = true := by decide
    intro s hs hb
    have := List.all_eq_true.mp h s hs
    rw [hb] at this
    simp only [Bool.false_or, List.any_eq_true, beq_iff_eq] at this
    exact this



/-! ## The datagram transport: encode, send, receive into a buffer, decode

`wire t limit m` is what the receiving side decodes when `m` is sent (Model/Codec.lean). The clause "rejected when
encoding, never silently truncated" has to hold END TO END: the lenient decoder (`decodeVal` accepts short input, as
`deser_str` does) is harmless only if the transport never hands it a shortened datagram. -/

namespace Aux

/-- whenever `api.ser` produces bytes, `api.deser` of exactly these bytes is the message (no domain hypothesis: the
encoder succeeding is the hypothesis) -/
theorem encode_ok_decode (t : Table) (hok : SchemaOK t = true) (m : Msg) (bs : Bytes)
    (h : encode t m = .ok bs) : decode t bs = .ok m := by
  obtain ⟨hwf, _hcls, htag1, _htag2, hlen1, _hex, _hall, _, _⟩ := schemaOK_parts hok
  unfold encode at h
  split at h
  · cases h
  · rename_i tag htag
    split at h
    · cases h
    · rename_i s hsch
      split at h
      · cases h
      · rename_i body hbody
        cases h
        have hs : s ∈ t.msgs := List.mem_of_find?_eq_some hsch
        have hdm : InDomainMsg s m.vals := by
          by_cases hd : InDomainMsg s m.vals
          · exact hd
          · obtain ⟨e, he⟩ := c17_rejects s m.vals hd
            rw [he] at hbody; cases hbody
        obtain ⟨body', hbody', hdec⟩ := c17_roundtrip_generic s m.vals (hwf s hs) hdm []
        rw [hbody] at hbody'
        cases hbody'
        simp only [List.append_nil] at hdec
        have hmem : (tag, m.cls) ∈ t.tags := by
          unfold Table.c2b at htag
          cases hf : t.tags.find? (fun p => p.2 == m.cls) with
          | none => simp [hf] at htag
          | some p =>
            simp [hf] at htag
            have h1 := List.find?_some hf
            have h2 := List.mem_of_find?_eq_some hf
            simp at h1
            cases p with
            | mk a b => simp at htag h1; subst htag; subst h1; exact h2
        have htl : tag.length = 1 := hlen1 _ hmem
        have hb2c : t.b2c tag = some m.cls := by
          unfold Table.b2c
          rw [find_fst_of_mem htag1 hmem]; rfl
        simp only [decode, take_append_len _ _ _ htl, drop_append_len _ _ _ htl, hb2c, hsch, hdec]

end Aux

/-- **Never altered on the wire.** For every table satisfying `SchemaOK`, every receive buffer that holds a whole
datagram (`maxDatagram ≤ limit`) and EVERY message `m` (in the domain or not, of any size): if the receiving side decodes
anything at all, it decodes `m`. (Every other outcome is an error raised at the sender -- `api.ser` or `sendto` -- or, never
under these hypotheses, in the decoder.) -/
theorem c17_wire_never_alters (t : Table) (hok : SchemaOK t = true) (limit : Nat) (hl : maxDatagram ≤ limit)
    (m m' : Msg) (h : wire t limit m = .ok m') : m' = m := by
  unfold wire at h
  cases henc : encode t m with
  | error e => simp [henc] at h
  | ok bs =>
    simp only [henc] at h
    by_cases hfit : bs.length ≤ maxDatagram
    · have htake : bs.take limit = bs := List.take_of_length_le (Nat.le_trans hfit hl)
      simp only [transport, hfit, if_true, htake, Aux.encode_ok_decode t hok m bs henc] at h
      cases h; rfl
    · simp [transport, hfit] at h

/-- **Delivered whole.** Under the same hypotheses a message of the domain whose encoding fits one datagram arrives. -/
theorem c17_wire_roundtrip (t : Table) (hok : SchemaOK t = true) (limit : Nat) (hl : maxDatagram ≤ limit)
    (m : Msg) (hd : InDomain t m) :
    ∃ bs, encode t m = .ok bs ∧ (bs.length ≤ maxDatagram → wire t limit m = .ok m) := by
  obtain ⟨bs, henc, hdec⟩ := c17_roundtrip_table t hok m hd
  refine ⟨bs, henc, fun hfit => ?_⟩
  have htake : bs.take limit = bs := List.take_of_length_le (Nat.le_trans hfit hl)
  simp [wire, henc, transport, hfit, htake, hdec]

/-- **Too long for a datagram: refused at the sender**, whatever the receive buffer. -/
theorem c17_wire_oversize_rejected (t : Table) (limit : Nat) (m : Msg) (bs : Bytes) (henc : encode t m = .ok bs)
    (hbig : maxDatagram < bs.length) : wire t limit m = .error .msgsize := by
  have : ¬ bs.length ≤ maxDatagram := Nat.not_le.mpr hbig
  simp [wire, henc, transport, this]

/-- **A shorter buffer breaks it** (the pinned tree received into 1024 bytes): `GetRequest` with a key of 1020
characters is in the domain, is accepted by encoder and kernel, and the server decodes a DIFFERENT request (key of 1019
characters) without any error -- the hypothesis `maxDatagram ≤ limit` of `c17_wire_never_alters` cannot be dropped. -/
theorem c17_wire_small_buffer_fails :
    ¬ ∀ (limit : Nat) (m m' : Msg), wire Gen.shmApi limit m = .ok m' → m' = m := by
  intro h
  have hw : wire Gen.shmApi 1024 ⟨"GetRequest", [.str (List.replicate 1020 107)]⟩
      = .ok ⟨"GetRequest", [.str (List.replicate 1019 107)]⟩ := by decide +kernel
  have := h 1024 _ _ hw
  revert this
  decide +kernel

/-- The receive buffers of shm/server.py (`recvfrom`) and shm/client.py (`recv`), read from the source on every run, hold
a whole datagram. (False on the pinned tree: both were 1024; see known/aud17.json.) -/
theorem c17_shm_recv_buffers_ok : maxDatagram ≤ Gen.shmServerRecv ∧ maxDatagram ≤ Gen.shmClientRecv := by decide

/-- **cascade.shm end to end, requests** (client `send` -> server `recvfrom`): nothing the server decodes differs from
what the client sent. -/
theorem c17_shm_request_never_alters (m m' : Msg) (h : wire Gen.shmApi Gen.shmServerRecv m = .ok m') : m' = m :=
  c17_wire_never_alters Gen.shmApi c17_schema_ok _ c17_shm_recv_buffers_ok.1 m m' h

/-- **cascade.shm end to end, responses** (server `sendto` -> client `recv`). -/
theorem c17_shm_response_never_alters (m m' : Msg) (h : wire Gen.shmApi Gen.shmClientRecv m = .ok m') : m' = m :=
  c17_wire_never_alters Gen.shmApi c17_schema_ok _ c17_shm_recv_buffers_ok.2 m m' h

-- non-vacuity: a request with a key of 2000 characters (beyond the old buffer) arrives whole with the buffer of the source
example : wire Gen.shmApi Gen.shmServerRecv ⟨"GetRequest", [.str (List.replicate 2000 107)]⟩
    = .ok ⟨"GetRequest", [.str (List.replicate 2000 107)]⟩ := by decide +kernel


/-! ## The JSON encodings (Model/Json.lean): values of type `Any`, job instances, gateway messages

`encAny` / `decAny` model `orjson.dumps` / `orjson.loads` on the Python values a field of type `Any` can hold; the dump
and load functions model the key layout of `model_dump()` / the pydantic constructors. The model's text (`render`) is
compared byte for byte with what the real code writes on every run. What is proved: JSON-native values are accepted and
round-trip; whatever the encoder accepts comes back unchanged EXCEPT for three classes (tuple, non-finite float, natively
serialised scalar) that orjson alters silently -- the full clause fails on them (`*_full_fails`, known findings); the values
the encoder refuses are characterised exactly. -/

namespace JsonAux
open EkwVerif.Json

theorem encInt_ok {n : Int} {j : J} (h : encInt n = .ok j) : j = .int n := by
  unfold encInt at h
  split at h
  · cases h; rfl
  · cases h

theorem encInt_of_range {n : Int} (h : inInt64Range n = true) : encInt n = .ok (.int n) := by
  simp [encInt, h]

mutual
theorem decAny_encAny : ∀ (v : PyVal) (j : J), Lossless v = true → encAny v = .ok j → decAny j = v
  | .none, j, _, h => by simp only [encAny] at h; cases h; rfl
  | .bool b, j, _, h => by simp only [encAny] at h; cases h; rfl
  | .int n, j, _, h => by simp only [encAny] at h; rw [encInt_ok h]; rfl
  | .float f, j, _, h => by simp only [encAny] at h; cases h; rfl
  | .nonfinite k, j, hl, _ => by simp [Lossless] at hl
  | .str s, j, _, h => by simp only [encAny] at h; cases h; rfl
  | .bytes b, j, _, h => by simp only [encAny] at h; cases h
  | .list l, j, hl, h => by
    simp only [encAny] at h
    split at h
    · rename_i js hjs
      cases h
      simp only [Lossless] at hl
      simp only [decAny, decList_encList l js hl hjs]
    · cases h
  | .tuple l, j, hl, _ => by simp [Lossless] at hl
  | .set l, j, _, h => by simp only [encAny] at h; cases h
  | .frozenset l, j, _, h => by simp only [encAny] at h; cases h
  | .dict kvs, j, hl, h => by
    simp only [encAny] at h
    split at h
    · rename_i o ho
      cases h
      simp only [Lossless] at hl
      simp only [decAny, decPairs_encPairs kvs o hl ho]
    · cases h
  | .native c t, j, hl, _ => by simp [Lossless] at hl
  | .opaque c, j, _, h => by simp only [encAny] at h; cases h

theorem decList_encList : ∀ (l : List PyVal) (js : List J), LosslessList l = true → encList l = .ok js → decList js = l
  | [], js, _, h => by simp only [encList] at h; cases h; rfl
  | v :: vs, js, hl, h => by
    simp only [encList] at h
    split at h
    · cases h
    · rename_i j hj
      split at h
      · cases h
      · rename_i js' hjs'
        cases h
        simp only [LosslessList, Bool.and_eq_true] at hl
        simp only [decList, decAny_encAny v j hl.1 hj, decList_encList vs js' hl.2 hjs']

theorem decPairs_encPairs : ∀ (kvs : List (PyVal × PyVal)) (o : List (String × J)),
    LosslessPairs kvs = true → encPairs kvs = .ok o → decPairs o = kvs
  | [], o, _, h => by simp only [encPairs] at h; cases h; rfl
  | (k, v) :: rest, o, hl, h => by
    cases k with
    | str s =>
      simp only [encPairs] at h
      split at h
      · cases h
      · rename_i j hj
        split at h
        · cases h
        · rename_i o' ho'
          cases h
          simp only [LosslessPairs, Bool.and_eq_true] at hl
          simp only [decPairs, decAny_encAny v j hl.1.2 hj, decPairs_encPairs rest o' hl.2 ho']
    | _ => simp only [encPairs] at h; cases h
end

mutual
theorem native_lossless : ∀ (v : PyVal), Native v = true → Lossless v = true
  | .none, _ => rfl
  | .bool _, _ => rfl
  | .int _, _ => rfl
  | .float _, _ => rfl
  | .nonfinite _, h => by simp [Native] at h
  | .str _, _ => rfl
  | .bytes _, _ => rfl
  | .list l, h => by simp only [Native] at h; simp only [Lossless]; exact nativeList_lossless l h
  | .tuple _, h => by simp [Native] at h
  | .set _, h => by simp [Native] at h
  | .frozenset _, h => by simp [Native] at h
  | .dict kvs, h => by simp only [Native] at h; simp only [Lossless]; exact nativePairs_lossless kvs h
  | .native _ _, h => by simp [Native] at h
  | .opaque _, _ => rfl

theorem nativeList_lossless : ∀ (l : List PyVal), NativeList l = true → LosslessList l = true
  | [], _ => rfl
  | v :: vs, h => by
    simp only [NativeList, Bool.and_eq_true] at h
    simp only [LosslessList, Bool.and_eq_true]
    exact ⟨native_lossless v h.1, nativeList_lossless vs h.2⟩

theorem nativePairs_lossless : ∀ (kvs : List (PyVal × PyVal)), NativePairs kvs = true → LosslessPairs kvs = true
  | [], _ => rfl
  | (k, v) :: rest, h => by
    cases k with
    | str s =>
      simp only [NativePairs, Bool.and_eq_true] at h
      simp only [LosslessPairs, Bool.and_eq_true]
      exact ⟨⟨rfl, native_lossless v h.1⟩, nativePairs_lossless rest h.2⟩
    | _ => simp [NativePairs] at h
end

mutual
/-- the encoder fails exactly on the values with a refused node -/
theorem encAny_error_iff : ∀ (v : PyVal), (∃ e, encAny v = .error e) ↔ Refused v = true
  | .none => by simp [encAny, Refused]
  | .bool _ => by simp [encAny, Refused]
  | .int n => by
    simp only [encAny, encInt, Refused]
    cases inInt64Range n <;> simp
  | .float _ => by simp [encAny, Refused]
  | .nonfinite _ => by simp [encAny, Refused]
  | .str _ => by simp [encAny, Refused]
  | .bytes _ => by simp [encAny, Refused]
  | .list l => by
    have ih := encList_error_iff l
    simp only [encAny, Refused]
    cases h : encList l with
    | ok js => simp [h] at ih ⊢; exact ih
    | error e => simp [h] at ih ⊢; exact ih
  | .tuple l => by
    have ih := encList_error_iff l
    simp only [encAny, Refused]
    cases h : encList l with
    | ok js => simp [h] at ih ⊢; exact ih
    | error e => simp [h] at ih ⊢; exact ih
  | .set _ => by simp [encAny, Refused]
  | .frozenset _ => by simp [encAny, Refused]
  | .dict kvs => by
    have ih := encPairs_error_iff kvs
    simp only [encAny, Refused]
    cases h : encPairs kvs with
    | ok js => simp [h] at ih ⊢; exact ih
    | error e => simp [h] at ih ⊢; exact ih
  | .native _ _ => by simp [encAny, Refused]
  | .opaque _ => by simp [encAny, Refused]

theorem encList_error_iff : ∀ (l : List PyVal), (∃ e, encList l = .error e) ↔ RefusedList l = true
  | [] => by simp [encList, RefusedList]
  | v :: vs => by
    have ih1 := encAny_error_iff v
    have ih2 := encList_error_iff vs
    simp only [encList, RefusedList, Bool.or_eq_true]
    cases h1 : encAny v with
    | error e => simp [h1] at ih1 ⊢; exact Or.inl ih1
    | ok j =>
      simp only [h1] at ih1 ⊢
      have hv : Refused v = false := by
        cases hr : Refused v with
        | false => rfl
        | true => have := ih1.mpr hr; simp at this
      cases h2 : encList vs with
      | error e => simp [h2] at ih2 ⊢; exact Or.inr ih2
      | ok js =>
        simp only [h2] at ih2 ⊢
        have hvs : RefusedList vs = false := by
          cases hr : RefusedList vs with
          | false => rfl
          | true => have := ih2.mpr hr; simp at this
        simp [hv, hvs]

theorem encPairs_error_iff : ∀ (kvs : List (PyVal × PyVal)), (∃ e, encPairs kvs = .error e) ↔ RefusedPairs kvs = true
  | [] => by simp [encPairs, RefusedPairs]
  | (k, v) :: rest => by
    cases k with
    | str s =>
      have ih1 := encAny_error_iff v
      have ih2 := encPairs_error_iff rest
      simp only [encPairs, RefusedPairs, Bool.or_eq_true]
      cases h1 : encAny v with
      | error e => simp [h1] at ih1 ⊢; exact Or.inl ih1
      | ok j =>
        simp only [h1] at ih1 ⊢
        have hv : Refused v = false := by
          cases hr : Refused v with
          | false => rfl
          | true => have := ih1.mpr hr; simp at this
        cases h2 : encPairs rest with
        | error e => simp [h2] at ih2 ⊢; exact Or.inr ih2
        | ok js =>
          simp only [h2] at ih2 ⊢
          have hvs : RefusedPairs rest = false := by
            cases hr : RefusedPairs rest with
            | false => rfl
            | true => have := ih2.mpr hr; simp at this
          simp [hv, hvs]
    | _ => simp [encPairs, RefusedPairs]
end

mutual
theorem native_not_refused : ∀ (v : PyVal), Native v = true → Refused v = false
  | .none, _ => rfl
  | .bool _, _ => rfl
  | .int n, h => by simp only [Native] at h; simp [Refused, h]
  | .float _, _ => rfl
  | .nonfinite _, _ => rfl
  | .str _, _ => rfl
  | .bytes _, h => by simp [Native] at h
  | .list l, h => by simp only [Native] at h; simp only [Refused]; exact nativeList_not_refused l h
  | .tuple _, h => by simp [Native] at h
  | .set _, h => by simp [Native] at h
  | .frozenset _, h => by simp [Native] at h
  | .dict kvs, h => by simp only [Native] at h; simp only [Refused]; exact nativePairs_not_refused kvs h
  | .native _ _, _ => rfl
  | .opaque _, h => by simp [Native] at h

theorem nativeList_not_refused : ∀ (l : List PyVal), NativeList l = true → RefusedList l = false
  | [], _ => rfl
  | v :: vs, h => by
    simp only [NativeList, Bool.and_eq_true] at h
    simp [RefusedList, native_not_refused v h.1, nativeList_not_refused vs h.2]

theorem nativePairs_not_refused : ∀ (kvs : List (PyVal × PyVal)), NativePairs kvs = true → RefusedPairs kvs = false
  | [], _ => rfl
  | (k, v) :: rest, h => by
    cases k with
    | str s =>
      simp only [NativePairs, Bool.and_eq_true] at h
      simp [RefusedPairs, native_not_refused v h.1, nativePairs_not_refused rest h.2]
    | _ => simp [NativePairs] at h
end

theorem encAny_of_native (v : PyVal) (h : Native v = true) : ∃ j, encAny v = .ok j := by
  cases henc : encAny v with
  | ok j => exact ⟨j, rfl⟩
  | error e =>
    have := (encAny_error_iff v).mp ⟨e, henc⟩
    rw [native_not_refused v h] at this
    cases this

/-! #### str-keyed mappings of Any values, tasks, edges, jobs -/

theorem decStatics_encStatics : ∀ (kvs : List (String × PyVal)) (o : List (String × J)),
    LosslessStatics kvs = true → encStatics kvs = .ok o → decStatics o = kvs
  | [], o, _, h => by simp only [encStatics] at h; cases h; rfl
  | (k, v) :: rest, o, hl, h => by
    simp only [encStatics] at h
    split at h
    · cases h
    · rename_i j hj
      split at h
      · cases h
      · rename_i o' ho'
        cases h
        simp only [LosslessStatics, List.all_cons, Bool.and_eq_true] at hl
        simp only [decStatics, decAny_encAny v j hl.1 hj, decStatics_encStatics rest o' hl.2 ho']

theorem encStatics_of_native : ∀ (kvs : List (String × PyVal)), NativeStatics kvs = true → ∃ o, encStatics kvs = .ok o
  | [], _ => ⟨[], rfl⟩
  | (k, v) :: rest, h => by
    simp only [NativeStatics, List.all_cons, Bool.and_eq_true] at h
    obtain ⟨j, hj⟩ := encAny_of_native v h.1
    obtain ⟨o, ho⟩ := encStatics_of_native rest h.2
    exact ⟨(k, j) :: o, by simp [encStatics, hj, ho]⟩

theorem nativeStatics_lossless (kvs : List (String × PyVal)) (h : NativeStatics kvs = true) : LosslessStatics kvs = true := by
  simp only [NativeStatics, LosslessStatics, List.all_eq_true] at h ⊢
  exact fun p hp => native_lossless p.2 (h p hp)

theorem encStatics_error_iff : ∀ (kvs : List (String × PyVal)), (∃ e, encStatics kvs = .error e) ↔ RefusedStatics kvs = true
  | [] => by simp [encStatics, RefusedStatics]
  | (k, v) :: rest => by
    have ih1 := encAny_error_iff v
    have ih2 := encStatics_error_iff rest
    simp only [RefusedStatics] at ih2
    simp only [encStatics, RefusedStatics, List.any_cons, Bool.or_eq_true]
    cases h1 : encAny v with
    | error e => simp [h1] at ih1 ⊢; exact Or.inl ih1
    | ok j =>
      simp only [h1] at ih1 ⊢
      have hv : Refused v = false := by
        cases hr : Refused v with
        | false => rfl
        | true => have := ih1.mpr hr; simp at this
      cases h2 : encStatics rest with
      | error e => simp [h2] at ih2 ⊢; exact Or.inr ih2
      | ok o =>
        simp only [h2] at ih2 ⊢
        simp only [hv, Bool.false_eq_true, false_or]
        constructor
        · intro ⟨e, he⟩; cases he
        · intro hr; have := ih2.mpr hr; simp at this

theorem allM_map {α β : Type} (f : α → β) (g : β → Option α) (h : ∀ a, g (f a) = some a) :
    ∀ l : List α, allM g (l.map f) = some l
  | [] => rfl
  | a :: as => by simp [allM, h a, allM_map f g h as]

theorem loadDs_dumpDs (d : DatasetId) : loadDs (dumpDs d) = some d := by
  cases d; simp [loadDs, dumpDs, asObj, field, asStr]

theorem asOptStr_optStr (o : Option String) : asOptStr (optStr o) = some o := by
  cases o <;> rfl

theorem encOptInt_ok {o : Option Int} {j : J} (h : encOptInt o = .ok j) : asOptInt j = some o := by
  cases o with
  | none => simp only [encOptInt] at h; cases h; rfl
  | some n => simp only [encOptInt] at h; rw [encInt_ok h]; rfl

theorem loadEdge_dumpEdge (e : Edge) (j : J) (h : dumpEdge e = .ok j) : loadEdge j = some e := by
  cases e with
  | mk src sink kw ps =>
  simp only [dumpEdge] at h
  split at h
  · cases h
  · rename_i pj hps
    cases h
    simp [loadEdge, asObj, field, asStr, loadDs_dumpDs, asOptStr_optStr, encOptInt_ok hps]

theorem loadStrMap_dump (m : List (String × String)) : loadStrMap (dumpStrMap m) = some m := by
  simp only [loadStrMap, dumpStrMap, asObj]
  exact allM_map (fun p : String × String => (p.1, J.str p.2)) _ (fun a => by simp [asStr]) m

theorem loadDef_dumpDef (d : TaskDef) : loadDef (dumpDef d) = some d := by
  cases d
  simp [loadDef, dumpDef, asObj, field, asStr, asArr, asBool, asOptStr_optStr, loadStrMap_dump,
    allM_map J.str asStr (fun _ => rfl)]

theorem loadTask_dumpTask (t : TaskInst) (j : J) (hl : TaskLossless t = true) (h : dumpTask t = .ok j) :
    loadTask j = some t := by
  cases t with
  | mk d kw ps =>
  simp only [TaskLossless, Bool.and_eq_true] at hl
  simp only [dumpTask] at h
  split at h
  · cases h
  · rename_i kwj hkw
    split at h
    · cases h
    · rename_i psj hps
      cases h
      simp [loadTask, asObj, field, loadDef_dumpDef, decStatics_encStatics kw kwj hl.1 hkw,
        decStatics_encStatics ps psj hl.2 hps]

theorem dumpTask_of_native (t : TaskInst) (h : TaskNative t = true) : ∃ j, dumpTask t = .ok j := by
  simp only [TaskNative, Bool.and_eq_true] at h
  obtain ⟨kw, hkw⟩ := encStatics_of_native t.kw h.1
  obtain ⟨ps, hps⟩ := encStatics_of_native t.ps h.2
  exact ⟨_, by simp only [dumpTask, hkw, hps]; rfl⟩

theorem loadTasks_dumpTasks : ∀ (ts : List (String × TaskInst)) (o : List (String × J)),
    ts.all (fun p => TaskLossless p.2) = true → dumpTasks ts = .ok o →
    allM (fun p : String × J => (loadTask p.2).map (fun t => (p.1, t))) o = some ts
  | [], o, _, h => by simp only [dumpTasks] at h; cases h; rfl
  | (k, t) :: rest, o, hl, h => by
    simp only [dumpTasks] at h
    split at h
    · cases h
    · rename_i j hj
      split at h
      · cases h
      · rename_i o' ho'
        cases h
        simp only [List.all_cons, Bool.and_eq_true] at hl
        simp [allM, loadTask_dumpTask t j hl.1 hj, loadTasks_dumpTasks rest o' hl.2 ho']

theorem dumpTasks_of_native : ∀ (ts : List (String × TaskInst)), ts.all (fun p => TaskNative p.2) = true →
    ∃ o, dumpTasks ts = .ok o
  | [], _ => ⟨[], rfl⟩
  | (k, t) :: rest, h => by
    simp only [List.all_cons, Bool.and_eq_true] at h
    obtain ⟨j, hj⟩ := dumpTask_of_native t h.1
    obtain ⟨o, ho⟩ := dumpTasks_of_native rest h.2
    exact ⟨(k, j) :: o, by simp [dumpTasks, hj, ho]⟩

theorem loadEdges_dumpEdges : ∀ (es : List Edge) (js : List J), dumpEdges es = .ok js → allM loadEdge js = some es
  | [], js, h => by simp only [dumpEdges] at h; cases h; rfl
  | e :: rest, js, h => by
    simp only [dumpEdges] at h
    split at h
    · cases h
    · rename_i j hj
      split at h
      · cases h
      · rename_i js' hjs'
        cases h
        simp [allM, loadEdge_dumpEdge e j hj, loadEdges_dumpEdges rest js' hjs']

theorem dumpEdges_of_range : ∀ (es : List Edge), es.all EdgeInRange = true → ∃ js, dumpEdges es = .ok js
  | [], _ => ⟨[], rfl⟩
  | e :: rest, h => by
    simp only [List.all_cons, Bool.and_eq_true] at h
    obtain ⟨js, hjs⟩ := dumpEdges_of_range rest h.2
    have : ∃ j, dumpEdge e = .ok j := by
      cases e with
      | mk src sink kw ps =>
      cases ps with
      | none => exact ⟨_, by simp only [dumpEdge, encOptInt]; rfl⟩
      | some n =>
        have hr : inInt64Range n = true := by simpa [EdgeInRange] using h.1
        exact ⟨_, by simp only [dumpEdge, encOptInt, encInt_of_range hr]; rfl⟩
    obtain ⟨j, hj⟩ := this
    exact ⟨j :: js, by simp [dumpEdges, hj, hjs]⟩

end JsonAux

open EkwVerif.Json JsonAux

/-- **Values of type `Any`, in the domain**: a JSON-native value (None, bool, 64-bit int, finite float, str, lists and
str-keyed dicts of such, nested to any depth) is accepted by `orjson.dumps` and `orjson.loads` returns it. -/
theorem c17_any_roundtrip (v : PyVal) (h : Native v = true) : ∃ j, encAny v = .ok j ∧ decAny j = v := by
  obtain ⟨j, hj⟩ := encAny_of_native v h
  exact ⟨j, hj, decAny_encAny v j (native_lossless v h) hj⟩

/-- **Never altered, except ...**: whatever value the encoder accepts comes back unchanged, PROVIDED no node of it is a
tuple, a non-finite float or a natively serialised scalar (datetime, date, time, UUID) -- `Lossless`, decidable. The
hypothesis cannot be dropped: `c17_any_full_fails`. -/
theorem c17_any_never_alters_partial (v : PyVal) (j : J) (hl : Lossless v = true) (h : encAny v = .ok j) :
    decAny j = v := decAny_encAny v j hl h

/-- The full clause FAILS for `Any` values on the code as it is: `(1, 2)` is accepted and comes back as `[1, 2]`,
`inf` comes back as `None`, a datetime as its ISO string (each replayed on the real code on every run: known findings). -/
theorem c17_any_full_fails : ¬ ∀ (v : PyVal) (j : J), encAny v = .ok j → decAny j = v := by
  intro h
  have := h (.tuple [.int 1, .int 2]) (.arr [.int 1, .int 2]) rfl
  simp [decAny, decList] at this

example : encAny (.nonfinite .inf) = .ok .null ∧ decAny .null = .none := ⟨rfl, rfl⟩
example : encAny (.native "datetime" "2020-01-02T03:04:05") = .ok (.str "2020-01-02T03:04:05") := rfl

/-- **Rejected when encoding**: the encoder fails EXACTLY on the values that have -- before anything else fails -- a node
of a class JSON has no form for and orjson does not convert: bytes, set, frozenset, an unknown class, an integer beyond
64 bit, a mapping key that is no string. -/
theorem c17_any_rejects_iff (v : PyVal) : (∃ e, encAny v = .error e) ↔ Refused v = true := encAny_error_iff v

example : encAny (.dict [(.str "a", .list [.bytes [97, 98]])]) = .error .type := rfl
example : encAny (.dict [(.int 1, .str "a")]) = .error .key := rfl
example : encAny (.int (2 ^ 64)) = .error .intRange := by simp [encAny, encInt, inInt64Range]
example : encAny (.int (2 ^ 64 - 1)) = .ok (.int (2 ^ 64 - 1)) := by simp [encAny, encInt, inInt64Range]

/-- **Job instance, in the domain**: a job whose static inputs are JSON-native (and whose positional edge indices fit 64
bit) is written, and reading the document back returns the job: every task (definition with its output schema of any size,
static keyword and positional inputs), every edge (keyword or positional), every serde pair, every external output. -/
theorem c17_job_json_roundtrip (j : JobInst) (h : JobNative j = true) :
    ∃ d, dumpJob j = .ok d ∧ loadJob d = some j := by
  cases j with
  | mk tasks edges serdes ext =>
  simp only [JobNative, Bool.and_eq_true] at h
  obtain ⟨ts, hts⟩ := dumpTasks_of_native tasks h.1
  obtain ⟨es, hes⟩ := dumpEdges_of_range edges h.2
  have hl : tasks.all (fun p => TaskLossless p.2) = true := by
    simp only [List.all_eq_true] at h ⊢
    intro p hp
    have := h.1 p hp
    simp only [TaskNative, TaskLossless, Bool.and_eq_true] at this ⊢
    exact ⟨nativeStatics_lossless _ this.1, nativeStatics_lossless _ this.2⟩
  have h1 := loadTasks_dumpTasks tasks ts hl hts
  have h2 := loadEdges_dumpEdges edges es hes
  have h3 := allM_map (fun p : String × (String × String) => (p.1, J.arr [.str p.2.1, .str p.2.2]))
    (fun p : String × J => (loadPair p.2).map (fun t => (p.1, t))) (fun a => by simp [loadPair]) serdes
  have h4 := allM_map dumpDs loadDs loadDs_dumpDs ext
  refine ⟨_, by simp only [dumpJob, hts, hes]; rfl, ?_⟩
  simp [loadJob, asObj, asArr, field, h1, h2, h3, h4]

/-- **Job instance, never altered except ...**: whenever the writer produces a document, the reader returns the very job,
provided no static input contains a tuple, a non-finite float or a natively serialised scalar (`JobLossless`). -/
theorem c17_job_json_never_alters_partial (j : JobInst) (d : J) (hl : JobLossless j = true) (h : dumpJob j = .ok d) :
    loadJob d = some j := by
  cases j with
  | mk tasks edges serdes ext =>
  simp only [dumpJob] at h
  split at h
  · cases h
  · rename_i ts hts
    split at h
    · cases h
    · rename_i es hes
      cases h
      have h1 := loadTasks_dumpTasks tasks ts hl hts
      have h2 := loadEdges_dumpEdges edges es hes
      have h3 := allM_map (fun p : String × (String × String) => (p.1, J.arr [.str p.2.1, .str p.2.2]))
        (fun p : String × J => (loadPair p.2).map (fun t => (p.1, t))) (fun a => by simp [loadPair]) serdes
      have h4 := allM_map dumpDs loadDs loadDs_dumpDs ext
      simp [loadJob, asObj, asArr, field, h1, h2, h3, h4]

/-- a job with one task whose keyword input `x` is the tuple `(1, 2)` -/
def tupleJob : JobInst :=
  { tasks := [("t", { defn := ⟨"m.f", none, [], [], [("o", "int")], false⟩, kw := [("x", .tuple [.int 1, .int 2])], ps := [] })],
    edges := [], serdes := [], ext := [] }

/-- The full clause FAILS for job instances: the job above is written without error and read back with `x = [1, 2]`. -/
theorem c17_job_json_full_fails : ¬ ∀ (j : JobInst) (d : J), dumpJob j = .ok d → loadJob d = some j := by
  intro h
  obtain ⟨d, hd⟩ : ∃ d, dumpJob tupleJob = .ok d := ⟨_, rfl⟩
  have h2 := h tupleJob d hd
  have h3 : dumpJob tupleJob = .ok d := hd
  simp only [tupleJob, dumpJob, dumpTasks, dumpTask, encStatics, encAny, encList, encInt, dumpEdges] at h3
  have hr : inInt64Range 1 = true ∧ inInt64Range 2 = true := by decide
  simp only [hr.1, hr.2, if_true] at h3
  cases h3
  simp [loadJob, tupleJob, asObj, asArr, field, allM, loadTask, loadDef, dumpDef, dumpStrMap, asStr, asBool, asOptStr,
    optStr, loadStrMap, decStatics, decAny, decList] at h2

/-- **Job instance, rejected when encoding**: a static input with a refused node (bytes, set, frozenset, unknown class,
integer beyond 64 bit, non-str key) in any task makes the writer fail. -/
theorem c17_job_json_rejects (j : JobInst) (name : String) (t : TaskInst) (ht : (name, t) ∈ j.tasks)
    (hr : RefusedStatics t.kw = true ∨ RefusedStatics t.ps = true) : ∃ e, dumpJob j = .error e := by
  have htask : ∃ e, dumpTask t = .error e := by
    unfold dumpTask
    cases hkw : encStatics t.kw with
    | error e => exact ⟨e, rfl⟩
    | ok kw =>
      cases hps : encStatics t.ps with
      | error e => exact ⟨e, rfl⟩
      | ok ps =>
        exfalso
        rcases hr with hr | hr
        · obtain ⟨e, he⟩ := (encStatics_error_iff t.kw).mpr hr; rw [hkw] at he; cases he
        · obtain ⟨e, he⟩ := (encStatics_error_iff t.ps).mpr hr; rw [hps] at he; cases he
  have hts : ∀ ts : List (String × TaskInst), (name, t) ∈ ts → ∃ e, dumpTasks ts = .error e := by
    intro ts
    induction ts with
    | nil => intro h; cases h
    | cons p rest ih =>
      intro hmem
      obtain ⟨k, t'⟩ := p
      simp only [dumpTasks]
      cases hd : dumpTask t' with
      | error e => exact ⟨e, rfl⟩
      | ok jt =>
        cases hmem with
        | head => obtain ⟨e, he⟩ := htask; rw [hd] at he; cases he
        | tail _ hm =>
          obtain ⟨e, he⟩ := ih hm
          exact ⟨e, by simp [he]⟩
  obtain ⟨e, he⟩ := hts j.tasks ht
  exact ⟨e, by simp [dumpJob, he]⟩

/-! ### gateway requests and responses -/

namespace JsonAux

theorem loadSpec_dumpSpec (s : JobSpec) (d : J) (hl : SpecLossless s = true) (h : dumpSpec s = .ok d) :
    loadSpec d = some s := by
  cases s with
  | mk b env job w hosts slurm =>
  simp only [dumpSpec] at h
  split at h
  · cases h
  · rename_i ji hji
    split at h
    · cases h
    · rename_i wj hw
      split at h
      · cases h
      · rename_i hj hh
        cases h
        rw [encInt_ok hw, encInt_ok hh]
        cases job with
        | none =>
          simp only at hji
          cases hji
          simp [loadSpec, asObj, field, asOptStr_optStr, loadStrMap_dump, asInt, asBool]
        | some j =>
          simp only at hji
          have hlj : JobLossless j = true := by simpa [SpecLossless] using hl
          have hload := c17_job_json_never_alters_partial j ji hlj hji
          -- a job document is an object, never `null`
          have hobj : ∃ o, ji = .obj o := by
            unfold dumpJob at hji
            split at hji
            · cases hji
            · split at hji
              · cases hji
              · cases hji; exact ⟨_, rfl⟩
          obtain ⟨o, rfl⟩ := hobj
          simp [loadSpec, asObj, field, asOptStr_optStr, loadStrMap_dump, asInt, asBool, hload]

/-- what `parse_request` makes of a SubmitJobRequest document around the job document `o` -/
theorem loadReq_submit_doc (o : List (String × J)) :
    loadReq (.obj [("job", .obj [("benchmark_name", .null), ("envvars", .obj []), ("job_instance", .obj o),
      ("workers_per_host", .int 1), ("hosts", .int 1), ("use_slurm", .bool false)]), ("clazz", .str "SubmitJobRequest")])
    = (loadJob (.obj o)).map (fun j' => GwReq.submit ⟨none, [], some j', 1, 1, false⟩) := by
  cases h : loadJob (.obj o) <;>
    simp [loadReq, asObj, field, asStr, loadSpec, asOptStr, loadStrMap, allM, asInt, asBool, h]

end JsonAux

/-- **Gateway request, never altered except ...**: whenever `request_response` produces a document, `parse_request`
returns the very request -- class (through the `clazz` key) and every field -- provided the job instance of a
SubmitJobRequest has no tuple / non-finite float / natively serialised scalar among its static inputs. -/
theorem c17_gateway_request_never_alters_partial (r : GwReq) (d : J) (hl : ReqLossless r = true)
    (h : dumpReq r = .ok d) : loadReq d = some r := by
  cases r with
  | submit s =>
    simp only [dumpReq] at h
    split at h
    · cases h
    · rename_i js hjs
      cases h
      have := loadSpec_dumpSpec s js (by simpa [ReqLossless] using hl) hjs
      simp [loadReq, asObj, field, asStr, this]
  | progress ids =>
    simp only [dumpReq] at h
    cases h
    simp [loadReq, asObj, field, asStr, asArr, allM_map J.str asStr (fun _ => rfl)]
  | result job ds =>
    simp only [dumpReq] at h
    cases h
    simp [loadReq, asObj, field, asStr, loadDs_dumpDs]
  | shutdown =>
    simp only [dumpReq] at h
    cases h
    simp [loadReq, asObj, field, asStr]

/-- **Gateway request, in the domain**: accepted and parsed back to itself. -/
theorem c17_gateway_request_roundtrip (r : GwReq) (h : ReqNative r = true) :
    ∃ d, dumpReq r = .ok d ∧ loadReq d = some r := by
  have hex : ∃ d, dumpReq r = .ok d := by
    cases r with
    | submit s =>
      cases s with
      | mk b env job w hosts slurm =>
      simp only [ReqNative, SpecNative, Bool.and_eq_true] at h
      cases job with
      | none =>
        exact ⟨_, by simp only [dumpReq, dumpSpec, encInt_of_range h.1.2, encInt_of_range h.2]; rfl⟩
      | some j =>
        obtain ⟨d, hd, _⟩ := c17_job_json_roundtrip j (by simpa using h.1.1)
        exact ⟨_, by simp only [dumpReq, dumpSpec, hd, encInt_of_range h.1.2, encInt_of_range h.2]; rfl⟩
    | progress ids => exact ⟨_, rfl⟩
    | result job ds => exact ⟨_, rfl⟩
    | shutdown => exact ⟨_, rfl⟩
  obtain ⟨d, hd⟩ := hex
  refine ⟨d, hd, c17_gateway_request_never_alters_partial r d ?_ hd⟩
  cases r with
  | submit s =>
    cases s with
    | mk b env job w hosts slurm =>
    cases job with
    | none => rfl
    | some j =>
      simp only [ReqNative, SpecNative, Bool.and_eq_true] at h
      have hn : JobNative j = true := by simpa using h.1.1
      simp only [ReqLossless, SpecLossless, JobLossless]
      simp only [JobNative, Bool.and_eq_true, List.all_eq_true] at hn ⊢
      intro p hp
      have := hn.1 p hp
      simp only [TaskNative, TaskLossless, Bool.and_eq_true] at this ⊢
      exact ⟨nativeStatics_lossless _ this.1, nativeStatics_lossless _ this.2⟩
  | progress ids => rfl
  | result job ds => rfl
  | shutdown => rfl

/-- The full clause FAILS for gateway requests: a SubmitJobRequest carrying `tupleJob` is sent without error and the
gateway parses a job whose input is `[1, 2]`. -/
theorem c17_gateway_request_full_fails : ¬ ∀ (r : GwReq) (d : J), dumpReq r = .ok d → loadReq d = some r := by
  intro h
  apply c17_job_json_full_fails
  intro j d hd
  -- a job document is an object, never `null`
  have hobj : ∃ o, d = .obj o := by
    unfold dumpJob at hd
    split at hd
    · cases hd
    · split at hd
      · cases hd
      · cases hd; exact ⟨_, rfl⟩
  obtain ⟨o, rfl⟩ := hobj
  have hi : encInt 1 = .ok (.int 1) := by simp [encInt, inInt64Range]
  have hr : dumpReq (.submit ⟨none, [], some j, 1, 1, false⟩) = .ok (.obj [("job", .obj [("benchmark_name", .null),
      ("envvars", .obj []), ("job_instance", .obj o), ("workers_per_host", .int 1), ("hosts", .int 1),
      ("use_slurm", .bool false)]), ("clazz", .str "SubmitJobRequest")]) := by
    simp [dumpReq, dumpSpec, hd, hi, optStr, dumpStrMap]
  have h2 := h _ _ hr
  rw [JsonAux.loadReq_submit_doc] at h2
  cases hl : loadJob (.obj o) with
  | none => simp [hl] at h2
  | some j' =>
    simp only [hl, Option.map_some, Option.some.injEq, GwReq.submit.injEq, JobSpec.mk.injEq] at h2
    rw [h2.2.2.1]

/-- **Gateway response**: what `serialize_response` writes for a response that answers the request sent is parsed by
`request_response` to the very response (all response fields are strings / Optional strings / str-keyed maps of strings:
no partiality). -/
theorem c17_gateway_response_roundtrip (q : GwReq) (r : GwRsp) (h : r.answers q = true) :
    loadRsp q (dumpRsp r) = some r := by
  cases r <;> cases q <;> simp [GwRsp.answers] at h <;>
    simp [loadRsp, dumpRsp, asObj, field, asStr, asOptStr_optStr, loadStrMap_dump]

/-- ... and a response of a class that does not belong to the request sent is refused ("mismatch between sent and
received classes"), never taken for the expected one. -/
theorem c17_gateway_response_class_checked (q : GwReq) (r : GwRsp) (h : r.answers q = false) :
    loadRsp q (dumpRsp r) = none := by
  cases r <;> cases q <;> simp [GwRsp.answers] at h <;>
    simp [loadRsp, dumpRsp, asObj, field, asStr]

open EkwVerif.Json in
-- the loaders are not constant functions: a dump with a missing key, a positional index that is no integer, a request
-- whose class name is no Request are refused
example : loadJob (.obj [("tasks", .obj []), ("edges", .arr []), ("serdes", .obj [])]) = none := rfl
open EkwVerif.Json in
example : loadEdge (.obj [("source", dumpDs ⟨"t", "o"⟩), ("sink_task", .str "u"),
    ("sink_input_kw", .null), ("sink_input_ps", .str "0")]) = none := rfl
open EkwVerif.Json in
example : loadReq (.obj [("error", .null), ("clazz", .str "ShutdownResponse")]) = none := rfl
-- non-vacuity of the domain hypotheses
example : JobNative ⟨[("t", ⟨⟨"m.f", none, [], [], [("o", "int")], false⟩, [("x", .list [.int (2 ^ 64 - 1), .float ⟨true, 15, -1⟩])], [("0", .dict [(.str "k", .none)])]⟩)],
    [⟨⟨"t", "o"⟩, "u", none, some 7⟩], [], []⟩ = true := by decide
example : JobLossless tupleJob = false := by decide

end EkwVerif.Codec
