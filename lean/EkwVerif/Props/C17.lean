/-
C17 — every wire encoding of `cascade.shm.api` round-trips over its whole value domain, and a
value outside the domain is rejected by the encoder (never truncated).

Model: `Model/Codec.lean` (generic interpreter of field sequences + tag table).
Table: `Gen/ShmApi.lean` (regenerated from src/cascade/shm/api.py by the translator on every run).

Last section: the JSON *shape* of a job instance (Model/Json.lean) loads back to the same instance.

Property theorems (`c17_*`); helper lemmas live in `namespace Aux` / `JsonAux`.
All statements quantify over arbitrary naturals / integers, arbitrary strings and arbitrary schemas;
nothing is bounded. Only `c17_schema_ok` and the instantiation theorems speak about the generated table.
-/
import EkwVerif.Model.Codec
import EkwVerif.Model.Json
import EkwVerif.Gen.ShmApi

namespace EkwVerif.Codec

deriving instance DecidableEq for Except

/-- element-wise relation of two lists of equal length (core Lean has no `List.Forall₂`) -/
inductive Forall₂ {α β : Type} (R : α → β → Prop) : List α → List β → Prop
  | nil : Forall₂ R [] []
  | cons {a b as bs} : R a b → Forall₂ R as bs → Forall₂ R (a :: as) (b :: bs)

namespace Aux

theorem Forall₂.imp_mem {α β : Type} {R S : α → β → Prop} : ∀ {as : List α} {bs : List β},
    (∀ a b, a ∈ as → b ∈ bs → R a b → S a b) → Forall₂ R as bs → Forall₂ S as bs
  | [], [], _, _ => .nil
  | a :: as, b :: bs, h, hr => by
    cases hr with
    | cons h1 h2 =>
      exact .cons (h a b (List.mem_cons_self ..) (List.mem_cons_self ..) h1)
        (Forall₂.imp_mem (fun x y hx hy => h x y (List.mem_cons_of_mem _ hx) (List.mem_cons_of_mem _ hy)) h2)

/-! ### fixed-width integers -/

theorem toLE_length (w n : Nat) : (toLE w n).length = w := by
  induction w generalizing n with
  | zero => rfl
  | succ w ih => simp [toLE, ih]

theorem toBE_length (w n : Nat) : (toBE w n).length = w := by
  induction w generalizing n with
  | zero => rfl
  | succ w ih => simp [toBE, ih]

theorem div_lt_pow {w n : Nat} (h : n < 256 ^ (w + 1)) : n / 256 < 256 ^ w := by
  rw [Nat.pow_succ] at h
  exact (Nat.div_lt_iff_lt_mul (by decide)).mpr h

theorem fromLE_toLE (w n : Nat) (h : n < 256 ^ w) : fromLE (toLE w n) = n := by
  induction w generalizing n with
  | zero => simp at h; subst h; rfl
  | succ w ih =>
    simp only [toLE, fromLE]
    rw [ih _ (div_lt_pow h)]
    omega

theorem fromBE_snoc (bs : Bytes) (b : Nat) : fromBE (bs ++ [b]) = fromBE bs * 256 + b := by
  simp [fromBE, List.foldl_append]

theorem fromBE_toBE (w n : Nat) (h : n < 256 ^ w) : fromBE (toBE w n) = n := by
  induction w generalizing n with
  | zero => simp at h; subst h; rfl
  | succ w ih =>
    simp only [toBE]
    rw [fromBE_snoc, ih _ (div_lt_pow h)]
    omega

theorem natToBytes_length (e : Endian) (w n : Nat) : (natToBytes e w n).length = w := by
  cases e <;> simp [natToBytes, toBE_length, toLE_length]

theorem bytesToNat_natToBytes (e : Endian) (w n : Nat) (h : n < 256 ^ w) :
    bytesToNat e (natToBytes e w n) = n := by
  cases e <;> simp [natToBytes, bytesToNat, fromBE_toBE, fromLE_toLE, h]

theorem take_append_len {α} (a b : List α) (n : Nat) (h : a.length = n) : (a ++ b).take n = a := by
  subst h; simp

theorem drop_append_len {α} (a b : List α) (n : Nat) (h : a.length = n) : (a ++ b).drop n = b := by
  subst h; simp

/-! ### one field -/

theorem encodeInt_ok {w : Nat} {e : Endian} {n : Int} {b : Bytes} (h : encodeInt w e n = .ok b) :
    0 ≤ n ∧ n.toNat < 256 ^ w ∧ b = natToBytes e w n.toNat := by
  unfold encodeInt at h
  split at h
  · rename_i hc
    cases h
    exact ⟨hc.1, hc.2, rfl⟩
  · cases h

theorem encodeInt_of_dom {w : Nat} (e : Endian) {n : Int} (h0 : 0 ≤ n) (h1 : n.toNat < 256 ^ w) :
    encodeInt w e n = .ok (natToBytes e w n.toNat) := by
  unfold encodeInt
  simp [h0, h1]

/-- encoding succeeds exactly on the domain -/
theorem encodeVal_ok_dom {k : Kind} {v : Val} {b : Bytes} (h : encodeVal k v = .ok b) : InDom k v := by
  cases k <;> cases v <;> simp only [encodeVal, InDom] at h ⊢
  · obtain ⟨h0, h1, _⟩ := encodeInt_ok h; exact ⟨h0, h1⟩
  · cases h
  · cases h
  · split at h
    · rename_i hl
      split at h
      · rename_i ha; exact ⟨hl, ha⟩
      · cases h
    · cases h
  · split at h
    · rename_i hc
      obtain ⟨_, h1, _⟩ := encodeInt_ok h
      exact ⟨hc.1, hc.2, h1⟩
    · cases h
  · cases h

theorem encodeVal_of_dom {k : Kind} {v : Val} (h : InDom k v) : ∃ b, encodeVal k v = .ok b := by
  cases k <;> cases v <;> simp only [encodeVal, InDom] at h ⊢
  · exact ⟨_, encodeInt_of_dom _ h.1 h.2⟩
  · simp [h.1, h.2]
  · simp only [h.1, h.2.1, and_self, ↓reduceIte]
    exact ⟨_, encodeInt_of_dom _ h.1 h.2.2⟩

/-- decoding what the encoder produced (followed by arbitrary further bytes) gives the value back
and leaves exactly the further bytes -/
theorem decodeVal_encodeVal {k : Kind} {v : Val} {b : Bytes} (tail : Bytes)
    (h : encodeVal k v = .ok b) : decodeVal k (b ++ tail) = .ok (v, tail) := by
  cases k <;> cases v <;> simp only [encodeVal] at h
  · rename_i w e n
    obtain ⟨h0, h1, rfl⟩ := encodeInt_ok h
    simp only [decodeVal]
    rw [take_append_len _ _ _ (natToBytes_length e w _), drop_append_len _ _ _ (natToBytes_length e w _),
      bytesToNat_natToBytes e w _ h1]
    simp [Int.toNat_of_nonneg h0]
  · cases h
  · cases h
  · rename_i lw e cs
    split at h
    · rename_i hl
      split at h
      · rename_i ha
        cases h
        simp only [decodeVal, List.append_assoc]
        rw [take_append_len _ _ _ (natToBytes_length e lw _), drop_append_len _ _ _ (natToBytes_length e lw _),
          bytesToNat_natToBytes e lw _ hl, take_append_len _ _ _ rfl, drop_append_len _ _ _ rfl]
        simp [ha]
      · cases h
    · cases h
  · rename_i w e allowed n
    split at h
    · rename_i hc
      obtain ⟨h0, h1, rfl⟩ := encodeInt_ok h
      simp only [decodeVal]
      rw [take_append_len _ _ _ (natToBytes_length e w _), drop_append_len _ _ _ (natToBytes_length e w _),
        bytesToNat_natToBytes e w _ h1]
      simp [hc.2, Int.toNat_of_nonneg h0]
    · cases h
  · cases h

/-! ### field sequences -/

theorem encodeFields_ok_dom : ∀ {ks : List Kind} {vs : List Val} {bs : Bytes},
    encodeFields ks vs = .ok bs → Forall₂ InDom ks vs
  | [], [], _, _ => .nil
  | [], _ :: _, _, h => by simp [encodeFields] at h
  | _ :: _, [], _, h => by simp [encodeFields] at h
  | k :: ks, v :: vs, bs, h => by
    simp only [encodeFields] at h
    split at h
    · cases h
    · rename_i b hb
      split at h
      · cases h
      · rename_i bs' hbs
        exact .cons (encodeVal_ok_dom hb) (encodeFields_ok_dom hbs)

theorem encodeFields_of_dom : ∀ {ks : List Kind} {vs : List Val},
    Forall₂ InDom ks vs → ∃ bs, encodeFields ks vs = .ok bs
  | [], [], _ => ⟨[], rfl⟩
  | k :: ks, v :: vs, h => by
    cases h with
    | cons h1 h2 =>
      obtain ⟨b, hb⟩ := encodeVal_of_dom h1
      obtain ⟨bs, hbs⟩ := encodeFields_of_dom h2
      exact ⟨b ++ bs, by simp [encodeFields, hb, hbs]⟩

theorem decodeFields_encodeFields : ∀ {ks : List Kind} {vs : List Val} {bs : Bytes} (tail : Bytes),
    encodeFields ks vs = .ok bs → decodeFields ks (bs ++ tail) = .ok (vs, tail)
  | [], [], _, tail, h => by simp [encodeFields] at h; subst h; rfl
  | [], _ :: _, _, _, h => by simp [encodeFields] at h
  | _ :: _, [], _, _, h => by simp [encodeFields] at h
  | k :: ks, v :: vs, bs, tail, h => by
    simp only [encodeFields] at h
    split at h
    · cases h
    · rename_i b hb
      split at h
      · cases h
      · rename_i bs' hbs
        cases h
        simp only [decodeFields, List.append_assoc]
        rw [decodeVal_encodeVal (bs' ++ tail) hb]
        simp only
        rw [decodeFields_encodeFields tail hbs]

/-! ### attribute lookup / constructor keywords -/

theorem getField_cons_ne {k k' : String} {ks : List String} {v : Val} {vs : List Val} (h : k ≠ k') :
    getField k (k' :: ks) (v :: vs) = getField k ks vs := by
  simp [getField, h]

theorem getAll_length : ∀ {names ks : List String} {vs r : List Val},
    getAll names ks vs = some r → r.length = names.length
  | [], _, _, r, h => by simp [getAll] at h; subst h; rfl
  | n :: ns, ks, vs, r, h => by
    simp only [getAll] at h
    split at h
    · rename_i v r' hv hr
      cases h
      simp [getAll_length hr]
    · cases h

/-- `getAll` succeeds iff every name is found; element-wise description -/
theorem getAll_forall₂ : ∀ {names ks : List String} {vs r : List Val},
    getAll names ks vs = some r → Forall₂ (fun n v => getField n ks vs = some v) names r
  | [], _, _, r, h => by simp [getAll] at h; subst h; exact .nil
  | n :: ns, ks, vs, r, h => by
    simp only [getAll] at h
    split at h
    · rename_i v r' hv hr
      cases h
      exact .cons hv (getAll_forall₂ hr)
    · cases h

theorem getAll_of_forall₂ : ∀ {names ks : List String} {vs r : List Val},
    Forall₂ (fun n v => getField n ks vs = some v) names r → getAll names ks vs = some r
  | [], _, _, [], _ => rfl
  | n :: ns, ks, vs, v :: r, h => by
    cases h with
    | cons h1 h2 => simp [getAll, h1, getAll_of_forall₂ h2]

/-- looking a key of `ns` up in the values collected for `ns` gives what was collected for it -/
theorem getField_of_getAll : ∀ {ns ks : List String} {vs ws : List Val} {k : String},
    getAll ns ks vs = some ws → k ∈ ns → getField k ns ws = getField k ks vs
  | [], _, _, _, _, _, hk => by cases hk
  | n :: ns, ks, vs, ws, k, h, hk => by
    simp only [getAll] at h
    split at h
    · rename_i v r hv hr
      cases h
      by_cases hkn : k = n
      · subst hkn; simp [getField, hv]
      · rw [getField_cons_ne hkn]
        have : k ∈ ns := by
          cases hk with
          | head => exact absurd rfl hkn
          | tail _ h => exact h
        exact getField_of_getAll hr this
    · cases h

/-- reading all declared fields of a message back in declaration order is the identity -/
theorem getAll_self : ∀ {ks : List String} {vs : List Val},
    ks.Nodup → vs.length = ks.length → getAll ks ks vs = some vs
  | [], [], _, _ => rfl
  | [], _ :: _, _, h => by simp at h
  | _ :: _, [], _, h => by simp at h
  | k :: ks, v :: vs, hnd, hl => by
    have hnd' := List.nodup_cons.mp hnd
    have ih : getAll ks ks vs = some vs := getAll_self hnd'.2 (by simpa using hl)
    -- on the tail keys, the head entry is never hit
    have hshift : getAll ks (k :: ks) (v :: vs) = some vs := by
      apply getAll_of_forall₂
      have := getAll_forall₂ ih
      refine Forall₂.imp_mem ?_ this
      intro n w hn _ hw
      have hne : n ≠ k := fun e => hnd'.1 (e ▸ hn)
      rw [getField_cons_ne hne]; exact hw
    simp [getAll, getField, hshift]

theorem getAll_congr : ∀ {names ks ks' : List String} {vs vs' : List Val},
    (∀ n ∈ names, getField n ks vs = getField n ks' vs') → getAll names ks vs = getAll names ks' vs'
  | [], _, _, _, _, _ => rfl
  | n :: ns, ks, ks', vs, vs', h => by
    simp only [getAll]
    rw [h n (List.mem_cons_self ..), getAll_congr (fun m hm => h m (List.mem_cons_of_mem _ hm))]

/-! ### tag table -/

theorem find_fst_of_mem {α β} [BEq α] [LawfulBEq α] : ∀ {l : List (α × β)} {a : α} {b : β},
    (l.map (·.1)).Nodup → (a, b) ∈ l → l.find? (fun p => p.1 == a) = some (a, b)
  | [], _, _, _, h => by cases h
  | (a', b') :: l, a, b, hnd, h => by
    simp only [List.map_cons, List.nodup_cons] at hnd
    by_cases ha : a' = a
    · subst ha
      have : b' = b := by
        cases h with
        | head => rfl
        | tail _ h => exact absurd (List.mem_map.mpr ⟨(a', b), h, rfl⟩) hnd.1
      subst this
      simp [List.find?]
    · have hm : (a, b) ∈ l := by
        cases h with
        | head => exact absurd rfl ha
        | tail _ h => exact h
      rw [List.find?_cons_of_neg (by simpa using ha)]
      exact find_fst_of_mem hnd.2 hm

end Aux

open Aux

/-! ## Property theorems -/

/-- **Generic round trip, field level.** For every field sequence and all values: if the encoder
accepts the values, decoding its output (followed by arbitrary trailing bytes) returns exactly the
values and exactly the trailing bytes. Induction over the sequence; integers and strings unbounded. -/
theorem c17_fields_roundtrip (ks : List Kind) (vs : List Val) (h : Forall₂ InDom ks vs) (tail : Bytes) :
    ∃ bs, encodeFields ks vs = .ok bs ∧ decodeFields ks (bs ++ tail) = .ok (vs, tail) := by
  obtain ⟨bs, hbs⟩ := encodeFields_of_dom h
  exact ⟨bs, hbs, decodeFields_encodeFields tail hbs⟩

/-- **Generic round trip, message level.** For every class schema whose `ser` and `deser`
sequences agree and cover exactly the declared fields, and every message value in the domain,
`cls.deser(m.ser())` is `m` (also when further bytes follow). -/
theorem c17_roundtrip_generic (s : MsgSchema) (vals : List Val) (hw : WellFormed s)
    (hd : InDomainMsg s vals) (tail : Bytes) :
    ∃ bs, encodeMsg s vals = .ok bs ∧ decodeMsg s (bs ++ tail) = .ok vals := by
  obtain ⟨hsd, hfnd, hsnd, hcov, hsub⟩ := hw
  obtain ⟨hlen, hall⟩ := hd
  -- the attribute values read by `ser`
  have hget : ∀ l : List Field, (∀ f ∈ l, ∃ v, getField f.name s.fields vals = some v ∧ InDom f.kind v) →
      ∃ vs, getAll (l.map (·.name)) s.fields vals = some vs ∧ Forall₂ InDom (l.map (·.kind)) vs := by
    intro l
    induction l with
    | nil => intro _; exact ⟨[], rfl, .nil⟩
    | cons f fs ih =>
      intro hl
      obtain ⟨v, hv, hdv⟩ := hl f (List.mem_cons_self ..)
      obtain ⟨vs, hvs, hdvs⟩ := ih (fun g hg => hl g (List.mem_cons_of_mem _ hg))
      exact ⟨v :: vs, by simp [getAll, hv, hvs], .cons hdv hdvs⟩
  obtain ⟨vs, hvs, hdom⟩ := hget s.ser hall
  obtain ⟨bs, hbs⟩ := encodeFields_of_dom hdom
  refine ⟨bs, by simp [encodeMsg, hlen, hvs, hbs], ?_⟩
  have hdec := decodeFields_encodeFields tail hbs
  simp only [decodeMsg, ← hsd, hdec]
  -- constructor keywords: every declared field is found among the values read
  have : getAll s.fields (s.ser.map (·.name)) vs = some vals := by
    rw [getAll_congr (ks' := s.fields) (vs' := vals)
      (fun n hn => getField_of_getAll hvs (hcov n hn))]
    exact getAll_self hfnd hlen
  simp [this]

/-- **Rejection, never truncation (message level).** If a message value is outside the domain
of its class the encoder fails; equivalently, whenever the encoder produces bytes the value was in
the domain (so by `c17_roundtrip_generic` those bytes decode to the very same value). -/
theorem c17_rejects (s : MsgSchema) (vals : List Val) (h : ¬ InDomainMsg s vals) :
    ∃ e, encodeMsg s vals = .error e := by
  cases henc : encodeMsg s vals with
  | error e => exact ⟨e, rfl⟩
  | ok bs =>
    exfalso; apply h
    unfold encodeMsg at henc
    split at henc
    · rename_i hlen
      split at henc
      · cases henc
      · rename_i vs hvs
        refine ⟨hlen, ?_⟩
        have h1 := getAll_forall₂ hvs
        have h2 := encodeFields_ok_dom henc
        have key : ∀ (l : List Field) (ws : List Val),
            Forall₂ (fun n v => getField n s.fields vals = some v) (l.map (·.name)) ws →
            Forall₂ InDom (l.map (·.kind)) ws →
            ∀ f ∈ l, ∃ v, getField f.name s.fields vals = some v ∧ InDom f.kind v := by
          intro l
          induction l with
          | nil => intro _ _ _ f hf; cases hf
          | cons g gs ih =>
            intro ws h1 h2 f hf
            cases ws with
            | nil => cases h1
            | cons v ws =>
              simp only [List.map_cons] at h1 h2
              cases h1 with
              | cons h1a h1b =>
                cases h2 with
                | cons h2a h2b =>
                  cases hf with
                  | head => exact ⟨v, h1a, h2a⟩
                  | tail _ hf => exact ih ws h1b h2b f hf
        exact key s.ser vs h1 h2
    · cases henc

/-- **Rejection at field level**: one value outside the domain of its primitive (negative, too wide,
non-ASCII, over-long, no enum member, wrong type) makes the encoder fail. -/
theorem c17_rejects_field (k : Kind) (v : Val) (h : ¬ InDom k v) : ∃ e, encodeVal k v = .error e := by
  cases henc : encodeVal k v with
  | error e => exact ⟨e, rfl⟩
  | ok b => exact absurd (encodeVal_ok_dom henc) h

/-- The encoder never shortens: accepted values occupy exactly the declared widths
(`w` bytes for an integer, `lw + len` for a string). -/
theorem c17_no_truncation (k : Kind) (v : Val) (b : Bytes) (h : encodeVal k v = .ok b) :
    b.length = match k, v with
      | .int w _, _ => w
      | .enum w _ _, _ => w
      | .str lw _, .str cs => lw + cs.length
      | .str lw _, _ => lw := by
  cases k <;> cases v <;> simp only [encodeVal] at h
  · obtain ⟨_, _, rfl⟩ := encodeInt_ok h; simp [natToBytes_length]
  · cases h
  · cases h
  · split at h
    · split at h
      · cases h; simp [natToBytes_length]
      · cases h
    · cases h
  · split at h
    · obtain ⟨_, _, rfl⟩ := encodeInt_ok h; simp [natToBytes_length]
    · cases h
  · cases h

/-! ### table level -/

namespace Aux

theorem schemaOK_parts {t : Table} (h : SchemaOK t = true) :
    (∀ s ∈ t.msgs, WellFormed s) ∧ (t.msgs.map (·.cls)).Nodup ∧ (t.tags.map (·.1)).Nodup ∧
    (t.tags.map (·.2)).Nodup ∧ (∀ p ∈ t.tags, p.1.length = 1) ∧
    (∀ p ∈ t.tags, (t.schema p.2).isSome = true) ∧
    (∀ s ∈ t.msgs, s.isBase = false → (t.c2b s.cls).isSome = true) ∧
    (∀ s ∈ t.msgs, sizeWide s = true) ∧ (∀ s ∈ t.msgs, strWide s = true) := by
  simp only [SchemaOK, Bool.and_eq_true, List.all_eq_true, decide_eq_true_eq, Bool.or_eq_true,
    beq_iff_eq] at h
  obtain ⟨⟨⟨⟨⟨⟨⟨⟨h1, h2⟩, h3⟩, h4⟩, h5⟩, h6⟩, h7⟩, h8⟩, h9⟩ := h
  refine ⟨h1, h2, h3, h4, fun p hp => (h5 p hp).1, h6, ?_, h8, h9⟩
  intro s hs hb
  rcases h7 s hs with h | h
  · rw [hb] at h; cases h
  · exact h

theorem find_cls_of_mem {s : MsgSchema} : ∀ {l : List MsgSchema},
    (l.map (·.cls)).Nodup → s ∈ l → l.find? (fun x => x.cls == s.cls) = some s
  | [], _, hs => by cases hs
  | a :: l, hnd, hs => by
    simp only [List.map_cons, List.nodup_cons] at hnd
    by_cases ha : a.cls = s.cls
    · have : a = s := by
        cases hs with
        | head => rfl
        | tail _ h => exact absurd (ha ▸ List.mem_map.mpr ⟨s, h, rfl⟩) hnd.1
      subst this
      simp [List.find?]
    · have hm : s ∈ l := by
        cases hs with
        | head => exact absurd rfl ha
        | tail _ h => exact h
      rw [List.find?_cons_of_neg (by simpa using ha)]
      exact find_cls_of_mem hnd.2 hm

theorem schema_of_mem {t : Table} (hnd : (t.msgs.map (·.cls)).Nodup) {s : MsgSchema} (hs : s ∈ t.msgs) :
    t.schema s.cls = some s := find_cls_of_mem hnd hs

/-- executable domain test (used for the concrete examples) -/
def inDomMsgB (s : MsgSchema) (vals : List Val) : Bool :=
  decide (vals.length = s.fields.length) &&
  s.ser.all (fun f => match getField f.name s.fields vals with
    | some v => decide (InDom f.kind v)
    | none => false)

theorem inDomMsgB_sound {s : MsgSchema} {vals : List Val} (h : inDomMsgB s vals = true) : InDomainMsg s vals := by
  simp only [inDomMsgB, Bool.and_eq_true, decide_eq_true_eq, List.all_eq_true] at h
  refine ⟨h.1, fun f hf => ?_⟩
  have := h.2 f hf
  split at this
  · rename_i v hv; exact ⟨v, hv, by simpa using this⟩
  · cases this

def inDomainB (t : Table) (m : Msg) : Bool :=
  match t.schema m.cls with
  | some s => !s.isBase && inDomMsgB s m.vals
  | none => false

theorem inDomainB_sound {t : Table} {m : Msg} (h : inDomainB t m = true) : InDomain t m := by
  unfold inDomainB at h
  split at h
  · rename_i s hs
    simp only [Bool.and_eq_true, Bool.not_eq_true'] at h
    unfold Table.schema at hs
    have h1 := List.find?_some hs
    exact ⟨s, List.mem_of_find?_eq_some hs, by simpa using h1, h.1, inDomMsgB_sound h.2⟩
  · cases h

end Aux

/-- **Round trip through the tag table.** For every table satisfying `SchemaOK`, every concrete
class `s` of the table and every value in the domain of `s`: `api.deser(api.ser(m)) == m`. -/
theorem c17_roundtrip_table (t : Table) (hok : SchemaOK t = true) (m : Msg) (hd : InDomain t m) :
    ∃ bs, encode t m = .ok bs ∧ decode t bs = .ok m := by
  obtain ⟨hwf, hcls, htag1, _htag2, hlen1, _hex, hall, _, _⟩ := schemaOK_parts hok
  obtain ⟨s, hs, hc, hbase, hdm⟩ := hd
  have hsch : t.schema m.cls = some s := hc ▸ schema_of_mem hcls hs
  have hc2b := hall s hs hbase
  rw [hc] at hc2b
  obtain ⟨tag, htag⟩ := Option.isSome_iff_exists.mp hc2b
  -- the tag entry found by c2b
  have hmem : (tag, m.cls) ∈ t.tags := by
    unfold Table.c2b at htag
    cases hf : t.tags.find? (fun p => p.2 == m.cls) with
    | none => simp [hf] at htag
    | some p =>
      simp [hf] at htag
      have h1 := List.find?_some hf
      have h2 := List.mem_of_find?_eq_some hf
      simp at h1
      cases p with
      | mk a b => simp at htag h1; subst htag; subst h1; exact h2
  have htl : tag.length = 1 := hlen1 _ hmem
  have hb2c : t.b2c tag = some m.cls := by
    unfold Table.b2c
    rw [find_fst_of_mem htag1 hmem]; rfl
  obtain ⟨body, hbody, hdec⟩ := c17_roundtrip_generic s m.vals (hwf s hs) hdm []
  refine ⟨tag ++ body, by simp [encode, htag, hsch, hbody], ?_⟩
  simp only [List.append_nil] at hdec
  simp only [decode, take_append_len _ _ _ htl, drop_append_len _ _ _ htl, hb2c, hsch, hdec]

/-- Under `SchemaOK` every concrete class can be sent at all (it has a tag): the domain of
`c17_roundtrip_table` is not emptied by a class missing from `b2c`. -/
theorem c17_every_class_tagged (t : Table) (hok : SchemaOK t = true) (s : MsgSchema) (hs : s ∈ t.msgs)
    (hb : s.isBase = false) : ∃ tag, t.c2b s.cls = some tag ∧ t.b2c tag = some s.cls := by
  obtain ⟨_, _, htag1, _, _, _, hall, _, _⟩ := schemaOK_parts hok
  obtain ⟨tag, htag⟩ := Option.isSome_iff_exists.mp (hall s hs hb)
  refine ⟨tag, htag, ?_⟩
  have hmem : (tag, s.cls) ∈ t.tags := by
    unfold Table.c2b at htag
    cases hf : t.tags.find? (fun p => p.2 == s.cls) with
    | none => simp [hf] at htag
    | some p =>
      simp [hf] at htag
      have h1 := List.find?_some hf
      have h2 := List.mem_of_find?_eq_some hf
      simp at h1
      cases p with
      | mk a b => simp at htag h1; subst htag; subst h1; exact h2
  unfold Table.b2c
  rw [find_fst_of_mem htag1 hmem]; rfl

/-- Under `SchemaOK` every byte count below 2^64 is in the domain of every field that carries a
dataset size or a free-space figure (no 4-byte length fields). -/
theorem c17_sizes_in_domain (t : Table) (hok : SchemaOK t = true) (s : MsgSchema) (hs : s ∈ t.msgs)
    (f : Field) (hf : f ∈ s.ser) (hsz : f.name ∈ s.sizeFields) (n : Nat) (hn : n < 2 ^ 64) :
    InDom f.kind (.int (Int.ofNat n)) := by
  obtain ⟨_, _, _, _, _, _, _, hsize, _⟩ := schemaOK_parts hok
  have h := hsize s hs
  simp only [sizeWide, List.all_eq_true, Bool.and_eq_true, Bool.or_eq_true, bne_iff_ne, ne_eq,
    List.mem_append] at h
  have hk := (h f.name hsz).2 f (Or.inl hf)
  rcases hk with hk | hk
  · exact absurd rfl hk
  · cases hkind : f.kind with
    | int w e =>
      simp only [hkind, decide_eq_true_eq] at hk
      refine ⟨Int.natCast_nonneg n, ?_⟩
      have : (2:Nat) ^ 64 ≤ 256 ^ w :=
        calc (2:Nat) ^ 64 = 256 ^ 8 := by decide
          _ ≤ 256 ^ w := Nat.pow_le_pow_right (by decide) hk
      show n < 256 ^ w
      omega
    | str lw e => simp [hkind] at hk
    | enum w e a => simp [hkind] at hk

/-- Under `SchemaOK` every ASCII string shorter than 2^32 characters (keys, shm ids, error texts,
deserialiser names) is in the domain of every string field. -/
theorem c17_strings_in_domain (t : Table) (hok : SchemaOK t = true) (s : MsgSchema) (hs : s ∈ t.msgs)
    (f : Field) (hf : f ∈ s.ser) (lw : Nat) (e : Endian) (hk : f.kind = .str lw e)
    (cs : List Nat) (hascii : isAscii cs = true) (hlen : cs.length < 2 ^ 32) : InDom f.kind (.str cs) := by
  obtain ⟨_, _, _, _, _, _, _, _, hstr⟩ := schemaOK_parts hok
  have h := hstr s hs
  simp only [strWide, List.all_eq_true, List.mem_append] at h
  have h4 := h f (Or.inl hf)
  rw [hk] at h4 ⊢
  simp only [decide_eq_true_eq] at h4
  refine ⟨?_, hascii⟩
  have : (2:Nat) ^ 32 ≤ 256 ^ lw :=
    calc (2:Nat) ^ 32 = 256 ^ 4 := by decide
      _ ≤ 256 ^ lw := Nat.pow_le_pow_right (by decide) h4
  omega

/-! ### the generated table of cascade.shm.api -/

/-- The table read from src/cascade/shm/api.py satisfies every side condition: ser/deser sequences
agree for every class, tags are distinct single bytes, every concrete class — requests and
responses — is tagged, and every size / free-space field is at least 8 bytes wide.
(False on the pinned tree in three ways, see known/C17.json; true after the `fix:` commits.) -/
theorem c17_schema_ok : SchemaOK Gen.shmApi = true := by decide

/-- **Every message of cascade.shm.api round-trips**: any instance of any concrete class with
ASCII strings shorter than 2^32, sizes below 2^64 (see `c17_shm_api_sizes`) and enum members. -/
theorem c17_shm_api_roundtrip (m : Msg) (hd : InDomain Gen.shmApi m) :
    ∃ bs, encode Gen.shmApi m = .ok bs ∧ decode Gen.shmApi bs = .ok m :=
  c17_roundtrip_table Gen.shmApi c17_schema_ok m hd

/-- ... and outside that domain `api.ser` raises. -/
theorem c17_shm_api_rejects (m : Msg) (s : MsgSchema) (hs : Gen.shmApi.schema m.cls = some s)
    (h : ¬ InDomainMsg s m.vals) : ∃ e, encode Gen.shmApi m = .error e := by
  obtain ⟨e, he⟩ := c17_rejects s m.vals h
  unfold encode
  cases hc : Gen.shmApi.c2b m.cls with
  | none => exact ⟨.key, rfl⟩
  | some tag => exact ⟨e, by simp [hs, he]⟩

/-- all sizes below 2^64 are admitted by every size field of cascade.shm.api -/
theorem c17_shm_api_sizes (s : MsgSchema) (hs : s ∈ Gen.shmApi.msgs) (f : Field) (hf : f ∈ s.ser)
    (hsz : f.name ∈ s.sizeFields) (n : Nat) (hn : n < 2 ^ 64) : InDom f.kind (.int (Int.ofNat n)) :=
  c17_sizes_in_domain Gen.shmApi c17_schema_ok s hs f hf hsz n hn

/-- all ASCII strings shorter than 2^32 are admitted by every string field of cascade.shm.api -/
theorem c17_shm_api_strings (s : MsgSchema) (hs : s ∈ Gen.shmApi.msgs) (f : Field) (hf : f ∈ s.ser)
    (lw : Nat) (e : Endian) (hk : f.kind = .str lw e) (cs : List Nat) (hascii : isAscii cs = true)
    (hlen : cs.length < 2 ^ 32) : InDom f.kind (.str cs) :=
  c17_strings_in_domain Gen.shmApi c17_schema_ok s hs f hf lw e hk cs hascii hlen

/-! ### non-vacuity -/

/-- a class schema whose `ser` order is a permutation of the declaration order -/
def demoSchema : MsgSchema :=
  { cls := "X", fields := ["a", "b", "c"],
    ser := [⟨"b", .int 8 .big⟩, ⟨"c", .str 4 .big⟩, ⟨"a", .enum 4 .little [1, 2, 3]⟩],
    deser := [⟨"b", .int 8 .big⟩, ⟨"c", .str 4 .big⟩, ⟨"a", .enum 4 .little [1, 2, 3]⟩],
    isBase := false, isResponse := false, sizeFields := ["b"] }

-- hypotheses of c17_roundtrip_generic are satisfiable, with a value at the upper end of the domain
example : WellFormed demoSchema := by decide
example : InDomainMsg demoSchema [.int 3, .int (2 ^ 64 - 1), .str [104, 105]] :=
  Aux.inDomMsgB_sound (by decide)
-- swapping two reads in `deser`, or one width, or one byte order, breaks WellFormed
example : ¬ WellFormed { demoSchema with deser := [⟨"c", .str 4 .big⟩, ⟨"b", .int 8 .big⟩, ⟨"a", .enum 4 .little [1, 2, 3]⟩] } := by decide
example : ¬ WellFormed { demoSchema with deser := [⟨"b", .int 4 .big⟩, ⟨"c", .str 4 .big⟩, ⟨"a", .enum 4 .little [1, 2, 3]⟩] } := by decide
example : ¬ WellFormed { demoSchema with deser := [⟨"b", .int 8 .little⟩, ⟨"c", .str 4 .big⟩, ⟨"a", .enum 4 .little [1, 2, 3]⟩] } := by decide

example : Forall₂ InDom [.int 8 .big, .str 4 .big] [.int (2 ^ 64 - 1), .str [104, 105]] :=
  .cons (by decide) (.cons (by decide) .nil)

-- c17_rejects is not vacuous: 2^64 is outside an 8-byte field, 200 is not ASCII, -1 is negative
example : ¬ InDom (.int 8 .big) (.int (2 ^ 64)) := by decide
example : ¬ InDom (.str 4 .big) (.str [200]) := by decide
example : ¬ InDom (.int 8 .big) (.int (-1)) := by decide
example : ¬ InDomainMsg demoSchema [.int 3, .int (2 ^ 64), .str []] := by
  intro h
  obtain ⟨v, hv, hd⟩ := h.2 ⟨"b", .int 8 .big⟩ (by decide)
  have : v = .int (2 ^ 64) := by
    have : getField "b" demoSchema.fields [.int 3, .int (2 ^ 64), .str []] = some (.int (2 ^ 64)) := by decide
    rw [this] at hv; exact (Option.some.inj hv).symm
  subst this
  exact absurd hd (by decide)
example : encodeVal (.int 4 .big) (.int (2 ^ 32)) = .error .overflow := by decide

/-- `decode (encode m) = m`, executable -/
def roundtripB (t : Table) (m : Msg) : Bool :=
  match encode t m with
  | .ok bs => decide (decode t bs = .ok m)
  | .error _ => false

/-- Non-vacuity of the instantiation theorems, for EVERY concrete class of cascade.shm.api: the
translator emits one message per class with every size field at 2^64-1; each of them is in the
domain (so `c17_shm_api_roundtrip` applies to it) and evaluating the model confirms the round trip;
no concrete class lacks a witness. -/
theorem c17_shm_api_nonvacuous :
    (∀ m ∈ Gen.shmApiWitnesses, InDomain Gen.shmApi m ∧ roundtripB Gen.shmApi m = true) ∧
    (∀ s ∈ Gen.shmApi.msgs, s.isBase = false → ∃ m ∈ Gen.shmApiWitnesses, m.cls = s.cls) := by
  refine ⟨?_, ?_⟩
  · have h : Gen.shmApiWitnesses.all (fun m => inDomainB Gen.shmApi m && roundtripB Gen.shmApi m) = true := by decide
    intro m hm
    have := List.all_eq_true.mp h m hm
    simp only [Bool.and_eq_true] at this
    exact ⟨Aux.inDomainB_sound this.1, this.2⟩
  · have h : Gen.shmApi.msgs.all (fun s => s.isBase || Gen.shmApiWitnesses.any (fun m => m.cls == s.cls)) = true := by decide
    intro s hs hb
    have := List.all_eq_true.mp h s hs
    rw [hb] at this
    simp only [Bool.false_or, List.any_eq_true, beq_iff_eq] at this
    exact this


/-! ## JobInstance ↦ JSON ↦ JobInstance (shape model, Model/Json.lean)

Not a statement about pydantic / orjson (those are sampled through the real code): it says that
the key layout `job.dict()` uses — compared with the real dump on every run — loses nothing, for
jobs of any size, with positional and keyword edges, multi-output tasks, serdes and external outputs. -/

namespace JsonAux
open EkwVerif.Json

theorem allM_map {α β : Type} (f : α → β) (g : β → Option α) (h : ∀ a, g (f a) = some a) :
    ∀ l : List α, allM g (l.map f) = some l
  | [] => rfl
  | a :: as => by simp [allM, h a, allM_map f g h as]

theorem loadDs_dumpDs (d : DatasetId) : loadDs (dumpDs d) = some d := by
  cases d; simp [loadDs, dumpDs, asObj, field, asStr]

theorem asOptStr_optStr (o : Option String) : asOptStr (optStr o) = some o := by
  cases o <;> rfl

theorem asOptInt_optInt (o : Option Int) : asOptInt (optInt o) = some o := by
  cases o <;> rfl

theorem loadEdge_dumpEdge (e : Edge) : loadEdge (dumpEdge e) = some e := by
  cases e
  simp [loadEdge, dumpEdge, asObj, field, asStr, loadDs_dumpDs, asOptStr_optStr, asOptInt_optInt]

theorem loadStrMap_dump (m : List (String × String)) : loadStrMap (dumpStrMap m) = some m := by
  simp only [loadStrMap, dumpStrMap, asObj]
  exact allM_map (fun p : String × String => (p.1, J.str p.2)) _ (fun a => by simp [asStr]) m

theorem loadDef_dumpDef (d : TaskDef) : loadDef (dumpDef d) = some d := by
  cases d
  simp [loadDef, dumpDef, asObj, field, asStr, asArr, asBool, asOptStr_optStr, loadStrMap_dump,
    allM_map J.str asStr (fun _ => rfl)]

theorem loadTask_dumpTask (t : TaskInst) : loadTask (dumpTask t) = some t := by
  cases t
  simp [loadTask, dumpTask, asObj, field, loadDef_dumpDef]

end JsonAux

open EkwVerif.Json JsonAux in
/-- Reading back the JSON form of a job instance returns the instance: every task (definition with
its output schema of any size, static keyword and positional inputs as arbitrary JSON trees), every
edge (keyword or positional), every serde pair and every external output. -/
theorem c17_job_json_roundtrip (j : JobInst) : loadJob (dumpJob j) = some j := by
  cases j with
  | mk tasks edges serdes ext =>
  have h1 := allM_map (fun p : String × TaskInst => (p.1, dumpTask p.2))
    (fun p : String × J => (loadTask p.2).map (fun t => (p.1, t))) (fun a => by simp [loadTask_dumpTask]) tasks
  have h2 := allM_map dumpEdge loadEdge loadEdge_dumpEdge edges
  have h3 := allM_map (fun p : String × (String × String) => (p.1, J.arr [.str p.2.1, .str p.2.2]))
    (fun p : String × J => (loadPair p.2).map (fun t => (p.1, t))) (fun a => by simp [loadPair]) serdes
  have h4 := allM_map dumpDs loadDs loadDs_dumpDs ext
  simp [loadJob, dumpJob, asObj, asArr, field, h1, h2, h3, h4]

open EkwVerif.Json in
-- the loader is not the constant function: a dump with a missing key, or a positional index that is
-- no integer, is refused
example : loadJob (.obj [("tasks", .obj []), ("edges", .arr []), ("serdes", .obj [])]) = none := rfl
open EkwVerif.Json in
example : loadEdge (.obj [("source", dumpDs ⟨"t", "o"⟩), ("sink_task", .str "u"),
    ("sink_input_kw", .null), ("sink_input_ps", .str "0")]) = none := rfl

end EkwVerif.Codec
