/-
C02, worker side: a worker never enters `execute_sequence` before every dataset the sequence
requires has been announced to it — for every interleaving of TaskSequence / DatasetPublished /
DatasetPurge messages, including a command that overtakes the publication notices of its inputs.

What the bookkeeping of entrypoint.py means exactly (`c02_worker_bookkeeping`): while a sequence waits,
`missing_ds` is non-empty, a subset of what the sequence requires, disjoint from `availab_ds`, and
every required dataset outside it has been announced. A DatasetPurge only discards from
`availab_ds` — `missing_ds` is NOT touched (entrypoint.py:131-133) — so a notice that was followed by a
purge still counts: `c02_worker_avail_full_fails` is the history in which the worker enters
`execute_sequence` with a purged input, `c02_worker_avail_partial` says that this is the only way: when no
dataset a waiting sequence requires is purged while it waits, every required dataset is in `availab_ds`
(announced and not purged since) at entry. That the controller never sends such a purge is C04
(`c04_no_purge_while_running`); the composition with the executor is `Props/C02Exec.lean`.

The invariant is generic in the meaning `P` of "announced" so that the executor-layer model can
instantiate it with "completely written into the host's shm".
-/
import EkwVerif.Model.Worker

namespace EkwVerif.Worker

def reqOf (w : W) : Msg → List Ds
  | .taskSeq _ r => r
  | _ => (w.waiting.map (·.2)).getD []

/-- the executions of a history, each with the required set of its sequence and the history so far -/
def execs (w : W) (hist : List Msg) : List Msg → List (Nat × List Ds × List Msg)
  | [] => []
  | m :: ms =>
    if w.stopped then [] else
    match step w m with
    | (_, .raised _) => []
    | (w1, .executed id) => (id, reqOf w m, hist ++ [m]) :: execs w1 (hist ++ [m]) ms
    | (w1, _) => execs w1 (hist ++ [m]) ms

/-- the bookkeeping invariant, generic in what "announced" (`P`) means -/
structure InvP (P : Ds → Prop) (w : W) : Prop where
  avail_p : ∀ d, d ∈ w.avail → P d
  wait_p : ∀ id req, w.waiting = some (id, req) → ∀ d, d ∈ req → d ∈ w.missing ∨ P d
  missing_wait : w.waiting = none → w.missing = []

abbrev Inv (hist : List Msg) (w : W) : Prop := InvP (fun d => Msg.published d ∈ hist) w

namespace Aux

theorem mem_addSet (l : List Ds) (d x : Ds) : x ∈ addSet l d ↔ x ∈ l ∨ x = d := by
  unfold addSet
  split
  · rename_i h
    have : d ∈ l := by simpa using h
    constructor
    · exact Or.inl
    · rintro (h | rfl)
      · exact h
      · exact this
  · simp

theorem invP_init (P : Ds → Prop) : InvP P W.init := ⟨by simp [W.init], by simp [W.init], by simp [W.init]⟩

theorem inv_init : Inv [] W.init := invP_init _

/-- One message preserves the invariant when "announced" only grows and holds of the dataset of a notice;
an execution finds every required dataset announced. -/
theorem step_invP (P P' : Ds → Prop) (hmono : ∀ d, P d → P' d) (w w' : W) (m : Msg) (o : Out) (h : InvP P w)
    (hs : step w m = (w', o)) (hpub : ∀ d, m = .published d → P' d) :
    InvP P' w' ∧ (∀ id, o = .executed id → ∀ d, d ∈ reqOf w m → P' d) := by
  cases m with
  | shutdown =>
    simp only [step, Prod.mk.injEq] at hs
    obtain ⟨rfl, rfl⟩ := hs
    refine ⟨⟨?_, ?_, ?_⟩, by simp⟩
    · intro d hd; exact hmono d (h.avail_p d hd)
    · intro id req hw d hd
      rcases h.wait_p id req hw d hd with h1 | h1
      · exact Or.inl h1
      · exact Or.inr (hmono d h1)
    · exact h.missing_wait
  | purge ds =>
    simp only [step, Prod.mk.injEq] at hs
    obtain ⟨rfl, rfl⟩ := hs
    refine ⟨⟨?_, ?_, ?_⟩, by simp⟩
    · intro d hd
      simp only [List.mem_filter] at hd
      exact hmono d (h.avail_p d hd.1)
    · intro id req hw d hd
      rcases h.wait_p id req hw d hd with h1 | h1
      · exact Or.inl h1
      · exact Or.inr (hmono d h1)
    · exact h.missing_wait
  | published ds =>
    simp only [step] at hs
    have hav : ∀ d, d ∈ addSet w.avail ds → P' d := by
      intro d hd
      rcases (mem_addSet _ _ _).mp hd with h1 | rfl
      · exact hmono d (h.avail_p d h1)
      · exact hpub _ rfl
    split at hs
    · rename_i hmiss
      cases hw : w.waiting with
      | none =>
        have := h.missing_wait hw
        simp [this] at hmiss
      | some p =>
        obtain ⟨id, req⟩ := p
        simp only [hw] at hs
        have hwp : ∀ d, d ∈ req → d ∈ w.missing.filter (· != ds) ∨ P' d := by
          intro d hd
          rcases h.wait_p id req hw d hd with h1 | h1
          · by_cases hdd : d = ds
            · subst hdd; right; exact hpub _ rfl
            · left; simp [List.mem_filter, h1, hdd]
          · right; exact hmono d h1
        split at hs
        · rename_i hemp
          simp only [Prod.mk.injEq] at hs
          obtain ⟨rfl, rfl⟩ := hs
          have hnil : w.missing.filter (· != ds) = [] := by simpa using hemp
          refine ⟨⟨hav, by simp, by intro _; exact hnil⟩, ?_⟩
          intro id' _ d hd
          simp only [reqOf, hw, Option.map_some, Option.getD_some] at hd
          rcases hwp d hd with h1 | h1
          · rw [hnil] at h1; simp at h1
          · exact h1
        · simp only [Prod.mk.injEq] at hs
          obtain ⟨rfl, rfl⟩ := hs
          refine ⟨⟨hav, ?_, by simp⟩, by simp⟩
          intro id' req' hw' d hd
          simp only [Option.some.injEq, Prod.mk.injEq] at hw'
          obtain ⟨rfl, rfl⟩ := hw'
          exact hwp d hd
    · simp only [Prod.mk.injEq] at hs
      obtain ⟨rfl, rfl⟩ := hs
      refine ⟨⟨hav, ?_, h.missing_wait⟩, by simp⟩
      intro id req hw d hd
      rcases h.wait_p id req hw d hd with h1 | h1
      · exact Or.inl h1
      · exact Or.inr (hmono d h1)
  | taskSeq id required =>
    simp only [step] at hs
    cases hw : w.waiting with
    | some p =>
      simp only [hw, Prod.mk.injEq] at hs
      obtain ⟨rfl, rfl⟩ := hs
      refine ⟨⟨?_, ?_, ?_⟩, by simp⟩
      · intro d hd; exact hmono d (h.avail_p d hd)
      · intro id' req hw' d hd
        rcases h.wait_p id' req hw' d hd with h1 | h1
        · exact Or.inl h1
        · exact Or.inr (hmono d h1)
      · intro h0; simp [hw] at h0
    | none =>
      simp only [hw] at hs
      have hreq : ∀ d, d ∈ required → d ∈ required.filter (fun d => !w.avail.contains d) ∨ P' d := by
        intro d hd
        by_cases hin : d ∈ w.avail
        · right; exact hmono d (h.avail_p d hin)
        · left; simp [List.mem_filter, hd, hin]
      split at hs
      · rename_i hemp
        simp only [Prod.mk.injEq] at hs
        obtain ⟨rfl, rfl⟩ := hs
        have hnil : required.filter (fun d => !w.avail.contains d) = [] := by simpa using hemp
        refine ⟨⟨?_, by simp, by simp⟩, ?_⟩
        · intro d hd; exact hmono d (h.avail_p d hd)
        · intro id' _ d hd
          simp only [reqOf] at hd
          rcases hreq d hd with h1 | h1
          · rw [hnil] at h1; simp at h1
          · exact h1
      · simp only [Prod.mk.injEq] at hs
        obtain ⟨rfl, rfl⟩ := hs
        refine ⟨⟨?_, ?_, by simp⟩, by simp⟩
        · intro d hd; exact hmono d (h.avail_p d hd)
        · intro id' req' hw' d hd
          simp only [Option.some.injEq, Prod.mk.injEq] at hw'
          obtain ⟨rfl, rfl⟩ := hw'
          exact hreq d hd

theorem step_inv (hist : List Msg) (w w' : W) (m : Msg) (o : Out) (h : Inv hist w) (hs : step w m = (w', o)) :
    Inv (hist ++ [m]) w' ∧ (∀ id, o = .executed id → ∀ d, d ∈ reqOf w m → Msg.published d ∈ hist ++ [m]) :=
  step_invP _ _ (fun d hd => List.mem_append.mpr (Or.inl hd)) w w' m o h hs (fun d hm => by subst hm; simp)

theorem execs_sound (w : W) (hist msgs : List Msg) (h : Inv hist w) :
    ∀ e, e ∈ execs w hist msgs → ∀ d, d ∈ e.2.1 → Msg.published d ∈ e.2.2 := by
  induction msgs generalizing w hist with
  | nil => intro e he; simp [execs] at he
  | cons m ms ih =>
    intro e he
    unfold execs at he
    split at he
    · simp at he
    · cases hs : step w m with
      | mk w1 o =>
        have hstep := step_inv hist w w1 m o h hs
        rw [hs] at he
        cases o with
        | raised msg => simp at he
        | executed id =>
          simp only [List.mem_cons] at he
          rcases he with rfl | he
          · intro d hd; exact hstep.2 id rfl d hd
          · exact ih w1 _ hstep.1 e he
        | nothing => exact ih w1 _ hstep.1 e he
        | provided l => exact ih w1 _ hstep.1 e he
        | stop => exact ih w1 _ hstep.1 e he

end Aux

/-- **The worker waits for its inputs.** For every message history, whenever the worker
enters `execute_sequence` for a task sequence, a `DatasetPublished` notice for every dataset
the sequence requires has been received before — however the command and the notices were
interleaved. -/
theorem c02_worker_waits (msgs : List Msg) (id : Nat) (req : List Ds) (hist : List Msg)
    (he : (id, req, hist) ∈ execs W.init [] msgs) : ∀ d, d ∈ req → Msg.published d ∈ hist :=
  Aux.execs_sound W.init [] msgs Aux.inv_init (id, req, hist) he

/-- If a sequence starts immediately on arrival, every dataset it requires is in the worker's
set of currently available (announced and not purged) datasets. -/
theorem c02_worker_immediate (w : W) (id : Nat) (req : List Ds) (w' : W)
    (hs : step w (.taskSeq id req) = (w', .executed id)) : ∀ d, d ∈ req → d ∈ w.avail := by
  simp only [step] at hs
  cases hw : w.waiting with
  | some p => simp [hw] at hs
  | none =>
    simp only [hw] at hs
    split at hs
    · rename_i hemp
      intro d hd
      have hnil : req.filter (fun d => !w.avail.contains d) = [] := by simpa using hemp
      by_cases hin : d ∈ w.avail
      · exact hin
      · have : d ∈ req.filter (fun d => !w.avail.contains d) := by simp [List.mem_filter, hd, hin]
        rw [hnil] at this; simp at this
    · simp at hs

/-- non-vacuity: the command overtakes the notice of its input; execution happens only after it -/
example : execs W.init [] [.taskSeq 7 [(0, 0), (1, 0)], .published (0, 0), .purge (5, 5), .published (1, 0)] =
    [(7, [(0, 0), (1, 0)], [.taskSeq 7 [(0, 0), (1, 0)], .published (0, 0), .purge (5, 5), .published (1, 0)])] := by
  decide

-- ---------------------------------------------------------------------------------------------- purges
/-- the state after a history (the process stops at a raise or a shutdown) -/
def after : W → List Msg → W
  | w, [] => w
  | w, m :: ms =>
    if w.stopped then w else
    match step w m with
    | (w1, .raised _) => { w1 with stopped := true }
    | (w1, _) => after w1 ms

/-- the executions of a history with the worker's state at the moment of entry (the triggering message processed) -/
def execsAt (w : W) : List Msg → List (Nat × List Ds × W)
  | [] => []
  | m :: ms =>
    if w.stopped then [] else
    match step w m with
    | (_, .raised _) => []
    | (w1, .executed id) => (id, reqOf w m, w1) :: execsAt w1 ms
    | (w1, _) => execsAt w1 ms

/-- no DatasetPurge of a dataset that the waiting sequence requires arrives while it waits -/
def noPurgeWhileWaiting (w : W) : List Msg → Bool
  | [] => true
  | m :: ms =>
    if w.stopped then true else
    (match m with
     | .purge d => !((w.waiting.map (·.2)).getD []).contains d
     | _ => true) &&
    (match step w m with
     | (_, .raised _) => true
     | (w1, _) => noPurgeWhileWaiting w1 ms)

/-- what `availab_ds / missing_ds / waiting_ts` mean -/
structure Book (w : W) : Prop where
  wait_missing : ∀ id req, w.waiting = some (id, req) → w.missing ≠ [] ∧ (∀ d, d ∈ w.missing → d ∈ req ∧ d ∉ w.avail)
  nowait : w.waiting = none → w.missing = []

/-- every required dataset of the waiting sequence is still missing or available (announced, not purged) -/
def Held (w : W) : Prop := ∀ id req, w.waiting = some (id, req) → ∀ d, d ∈ req → d ∈ w.missing ∨ d ∈ w.avail

namespace Aux

theorem book_init : Book W.init := ⟨by simp [W.init], by simp [W.init]⟩

theorem not_mem_addSet_of (l : List Ds) (d x : Ds) (h : x ∉ l) (hx : x ≠ d) : x ∉ addSet l d := by
  intro hm
  rcases (mem_addSet l d x).mp hm with h1 | h1
  · exact h h1
  · exact hx h1

theorem step_book (w w' : W) (m : Msg) (o : Out) (h : Book w) (hs : step w m = (w', o)) : Book w' := by
  cases m with
  | shutdown =>
    simp only [step, Prod.mk.injEq] at hs
    obtain ⟨rfl, rfl⟩ := hs
    exact ⟨h.wait_missing, h.nowait⟩
  | purge ds =>
    simp only [step, Prod.mk.injEq] at hs
    obtain ⟨rfl, rfl⟩ := hs
    refine ⟨?_, h.nowait⟩
    intro id req hw
    obtain ⟨h1, h2⟩ := h.wait_missing id req hw
    refine ⟨h1, fun d hd => ⟨(h2 d hd).1, ?_⟩⟩
    intro hm
    simp only [List.mem_filter] at hm
    exact (h2 d hd).2 hm.1
  | published ds =>
    simp only [step] at hs
    split at hs
    · rename_i hmiss
      cases hw : w.waiting with
      | none =>
        have := h.nowait hw
        simp [this] at hmiss
      | some p =>
        obtain ⟨id, req⟩ := p
        simp only [hw] at hs
        obtain ⟨h1, h2⟩ := h.wait_missing id req hw
        split at hs
        · rename_i hemp
          simp only [Prod.mk.injEq] at hs
          obtain ⟨rfl, rfl⟩ := hs
          refine ⟨by simp, ?_⟩
          intro _
          simpa using hemp
        · rename_i hne
          simp only [Prod.mk.injEq] at hs
          obtain ⟨rfl, rfl⟩ := hs
          refine ⟨?_, by simp⟩
          intro id' req' hw'
          simp only [Option.some.injEq, Prod.mk.injEq] at hw'
          obtain ⟨rfl, rfl⟩ := hw'
          refine ⟨by simpa using hne, ?_⟩
          intro d hd
          simp only [List.mem_filter, bne_iff_ne, ne_eq] at hd
          exact ⟨(h2 d hd.1).1, not_mem_addSet_of _ _ _ (h2 d hd.1).2 hd.2⟩
    · rename_i hmiss
      simp only [Prod.mk.injEq] at hs
      obtain ⟨rfl, rfl⟩ := hs
      refine ⟨?_, h.nowait⟩
      intro id req hw
      obtain ⟨h1, h2⟩ := h.wait_missing id req hw
      refine ⟨h1, fun d hd => ⟨(h2 d hd).1, ?_⟩⟩
      apply not_mem_addSet_of _ _ _ (h2 d hd).2
      intro hdd
      subst hdd
      have : w.missing.contains d = true := by simpa using hd
      exact hmiss this
  | taskSeq id required =>
    simp only [step] at hs
    cases hw : w.waiting with
    | some p =>
      simp only [hw, Prod.mk.injEq] at hs
      obtain ⟨rfl, rfl⟩ := hs
      exact ⟨h.wait_missing, h.nowait⟩
    | none =>
      simp only [hw] at hs
      split at hs
      · simp only [Prod.mk.injEq] at hs
        obtain ⟨rfl, rfl⟩ := hs
        exact ⟨by simp, by simp⟩
      · rename_i hne
        simp only [Prod.mk.injEq] at hs
        obtain ⟨rfl, rfl⟩ := hs
        refine ⟨?_, by simp⟩
        intro id' req' hw'
        simp only [Option.some.injEq, Prod.mk.injEq] at hw'
        obtain ⟨rfl, rfl⟩ := hw'
        refine ⟨by simpa using hne, ?_⟩
        intro d hd
        simp only [List.mem_filter, Bool.not_eq_eq_eq_not, Bool.not_true, List.contains_eq_mem,
          decide_eq_false_iff_not] at hd
        exact hd

theorem after_book (w : W) (msgs : List Msg) (h : Book w) : Book (after w msgs) := by
  induction msgs generalizing w with
  | nil => exact h
  | cons m ms ih =>
    unfold after
    split
    · exact h
    · cases hs : step w m with
      | mk w1 o =>
        have h1 := step_book w w1 m o h hs
        cases o with
        | raised msg => exact ⟨h1.wait_missing, h1.nowait⟩
        | executed id => exact ih w1 h1
        | nothing => exact ih w1 h1
        | provided l => exact ih w1 h1
        | stop => exact ih w1 h1

theorem held_init : Held W.init := by intro id req hw; simp [W.init] at hw

/-- one message that is not a purge of a dataset the waiting sequence requires keeps `Held`; an execution finds
every required dataset in `availab_ds` -/
theorem step_held (w w' : W) (m : Msg) (o : Out) (h : Held w) (hb : Book w) (hs : step w m = (w', o))
    (hp : ∀ d, m = .purge d → d ∉ (w.waiting.map (·.2)).getD []) :
    Held w' ∧ (∀ id, o = .executed id → ∀ d, d ∈ reqOf w m → d ∈ w'.avail) := by
  cases m with
  | shutdown =>
    simp only [step, Prod.mk.injEq] at hs
    obtain ⟨rfl, rfl⟩ := hs
    exact ⟨h, by simp⟩
  | purge ds =>
    simp only [step, Prod.mk.injEq] at hs
    obtain ⟨rfl, rfl⟩ := hs
    refine ⟨?_, by simp⟩
    intro id req hw d hd
    have hw0 : w.waiting = some (id, req) := hw
    rcases h id req hw0 d hd with h1 | h1
    · exact Or.inl h1
    · right
      have hne : d ≠ ds := by
        intro hdd
        subst hdd
        have := hp d rfl
        simp [hw0] at this
        exact this hd
      simp [List.mem_filter, h1, hne]
  | published ds =>
    simp only [step] at hs
    split at hs
    · rename_i hmiss
      cases hw : w.waiting with
      | none =>
        have := hb.nowait hw
        simp [this] at hmiss
      | some p =>
        obtain ⟨id, req⟩ := p
        simp only [hw] at hs
        have hwp : ∀ d, d ∈ req → d ∈ w.missing.filter (· != ds) ∨ d ∈ addSet w.avail ds := by
          intro d hd
          rcases h id req hw d hd with h1 | h1
          · by_cases hdd : d = ds
            · subst hdd; right; exact (mem_addSet _ _ _).mpr (Or.inr rfl)
            · left; simp [List.mem_filter, h1, hdd]
          · right; exact (mem_addSet _ _ _).mpr (Or.inl h1)
        split at hs
        · rename_i hemp
          simp only [Prod.mk.injEq] at hs
          obtain ⟨rfl, rfl⟩ := hs
          have hnil : w.missing.filter (· != ds) = [] := by simpa using hemp
          refine ⟨by intro id' req' hw'; simp at hw', ?_⟩
          intro id' _ d hd
          simp only [reqOf, hw, Option.map_some, Option.getD_some] at hd
          rcases hwp d hd with h1 | h1
          · rw [hnil] at h1; simp at h1
          · exact h1
        · simp only [Prod.mk.injEq] at hs
          obtain ⟨rfl, rfl⟩ := hs
          refine ⟨?_, by simp⟩
          intro id' req' hw' d hd
          simp only [Option.some.injEq, Prod.mk.injEq] at hw'
          obtain ⟨rfl, rfl⟩ := hw'
          exact hwp d hd
    · simp only [Prod.mk.injEq] at hs
      obtain ⟨rfl, rfl⟩ := hs
      refine ⟨?_, by simp⟩
      intro id req hw d hd
      have hw0 : w.waiting = some (id, req) := hw
      rcases h id req hw0 d hd with h1 | h1
      · exact Or.inl h1
      · exact Or.inr ((mem_addSet _ _ _).mpr (Or.inl h1))
  | taskSeq id required =>
    simp only [step] at hs
    cases hw : w.waiting with
    | some p =>
      simp only [hw, Prod.mk.injEq] at hs
      obtain ⟨rfl, rfl⟩ := hs
      exact ⟨h, by simp⟩
    | none =>
      simp only [hw] at hs
      have hreq : ∀ d, d ∈ required → d ∈ required.filter (fun d => !w.avail.contains d) ∨ d ∈ w.avail := by
        intro d hd
        by_cases hin : d ∈ w.avail
        · exact Or.inr hin
        · left; simp [List.mem_filter, hd, hin]
      split at hs
      · rename_i hemp
        simp only [Prod.mk.injEq] at hs
        obtain ⟨rfl, rfl⟩ := hs
        have hnil : required.filter (fun d => !w.avail.contains d) = [] := by simpa using hemp
        refine ⟨by intro id' req' hw'; simp at hw', ?_⟩
        intro id' _ d hd
        simp only [reqOf] at hd
        rcases hreq d hd with h1 | h1
        · rw [hnil] at h1; simp at h1
        · exact h1
      · simp only [Prod.mk.injEq] at hs
        obtain ⟨rfl, rfl⟩ := hs
        refine ⟨?_, by simp⟩
        intro id' req' hw' d hd
        simp only [Option.some.injEq, Prod.mk.injEq] at hw'
        obtain ⟨rfl, rfl⟩ := hw'
        exact hreq d hd

theorem execsAt_sound (w : W) (msgs : List Msg) (h : Held w) (hb : Book w) (hc : noPurgeWhileWaiting w msgs = true) :
    ∀ e, e ∈ execsAt w msgs → ∀ d, d ∈ e.2.1 → d ∈ e.2.2.avail := by
  induction msgs generalizing w with
  | nil => intro e he; simp [execsAt] at he
  | cons m ms ih =>
    intro e he
    unfold execsAt at he
    unfold noPurgeWhileWaiting at hc
    split at he
    · simp at he
    · rename_i hst
      simp only [hst, Bool.false_eq_true, ↓reduceIte, Bool.and_eq_true] at hc
      cases hs : step w m with
      | mk w1 o =>
        have hp : ∀ d, m = .purge d → d ∉ (w.waiting.map (·.2)).getD [] := by
          intro d hm
          subst hm
          simpa using hc.1
        have hstep := step_held w w1 m o h hb hs hp
        have hb1 := step_book w w1 m o hb hs
        rw [hs] at he
        have hc2 := hc.2
        rw [hs] at hc2
        cases o with
        | raised msg => simp at he
        | executed id =>
          simp only [List.mem_cons] at he
          rcases he with rfl | he
          · intro d hd; exact hstep.2 id rfl d hd
          · exact ih w1 hstep.1 hb1 hc2 e he
        | nothing => exact ih w1 hstep.1 hb1 hc2 e he
        | provided l => exact ih w1 hstep.1 hb1 hc2 e he
        | stop => exact ih w1 hstep.1 hb1 hc2 e he

end Aux

/-- **What the bookkeeping means.** After every message history: a sequence waits exactly while `missing_ds` is
non-empty; `missing_ds` is a subset of what the waiting sequence requires and disjoint from `availab_ds`. The worker
never waits for a dataset it holds a (not purged) notice of, and never waits for nothing. -/
theorem c02_worker_bookkeeping (msgs : List Msg) :
    let w := after W.init msgs
    (∀ id req, w.waiting = some (id, req) → w.missing ≠ [] ∧ ∀ d, d ∈ w.missing → d ∈ req ∧ d ∉ w.avail) ∧
    (w.waiting = none → w.missing = []) :=
  let h := Aux.after_book W.init msgs Aux.book_init
  ⟨h.wait_missing, h.nowait⟩

/-- **Inputs still announced at entry, when no input is purged while its sequence waits.** For every history in which no
DatasetPurge names a dataset that the sequence waiting at that moment requires, every dataset a sequence requires is in
`availab_ds` — announced and not purged since — when the worker enters `execute_sequence` for it. -/
theorem c02_worker_avail_partial (msgs : List Msg) (hc : noPurgeWhileWaiting W.init msgs = true) (id : Nat) (req : List Ds) (w : W)
    (he : (id, req, w) ∈ execsAt W.init msgs) : ∀ d, d ∈ req → d ∈ w.avail :=
  Aux.execsAt_sound W.init msgs Aux.held_init Aux.book_init hc (id, req, w) he

/-- Without that hypothesis the statement is false of the code as it is: `missing_ds` is not updated by a purge, so the
notice of (0,0) still counts after (0,0) was purged, and the sequence is executed on the notice of (1,0). (The same
history on the real entrypoint: replayed by the check, `worker_witness_purged_input`.) -/
theorem c02_worker_avail_full_fails :
    ¬ (∀ (msgs : List Msg) (id : Nat) (req : List Ds) (w : W), (id, req, w) ∈ execsAt W.init msgs → ∀ d, d ∈ req → d ∈ w.avail) := by
  intro h
  have := h [.taskSeq 7 [(0, 0), (1, 0)], .published (0, 0), .purge (0, 0), .published (1, 0)] 7 [(0, 0), (1, 0)]
    { avail := [(1, 0)], waiting := none, missing := [], stopped := false } (by decide) (0, 0) (by decide)
  revert this
  decide

/-- non-vacuity of `c02_worker_avail_partial`: a purge of an unrelated dataset while waiting, executions happen -/
example : noPurgeWhileWaiting W.init [.taskSeq 7 [(0, 0), (1, 0)], .published (0, 0), .purge (5, 5), .published (1, 0)] = true ∧
    (execsAt W.init [.taskSeq 7 [(0, 0), (1, 0)], .published (0, 0), .purge (5, 5), .published (1, 0)]).length = 1 := by
  decide

end EkwVerif.Worker
