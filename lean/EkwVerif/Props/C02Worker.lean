/-
C02, worker side: a worker never enters `execute_sequence` before every dataset the sequence
requires has been announced to it — for every interleaving of TaskSequence / DatasetPublished /
DatasetPurge messages, including a command that overtakes the publication notices of its inputs.
-/
import EkwVerif.Model.Worker

namespace EkwVerif.Worker

def reqOf (w : W) : Msg → List Ds
  | .taskSeq _ r => r
  | _ => (w.waiting.map (·.2)).getD []

/-- the executions of a history, each with the required set of its sequence and the history so far -/
def execs (w : W) (hist : List Msg) : List Msg → List (Nat × List Ds × List Msg)
  | [] => []
  | m :: ms =>
    if w.stopped then [] else
    match step w m with
    | (_, .raised _) => []
    | (w1, .executed id) => (id, reqOf w m, hist ++ [m]) :: execs w1 (hist ++ [m]) ms
    | (w1, _) => execs w1 (hist ++ [m]) ms

structure Inv (hist : List Msg) (w : W) : Prop where
  avail_pub : ∀ d, d ∈ w.avail → Msg.published d ∈ hist
  wait_pub : ∀ id req, w.waiting = some (id, req) → ∀ d, d ∈ req → d ∈ w.missing ∨ Msg.published d ∈ hist
  missing_wait : w.waiting = none → w.missing = []

namespace Aux

theorem mem_addSet (l : List Ds) (d x : Ds) : x ∈ addSet l d ↔ x ∈ l ∨ x = d := by
  unfold addSet
  split
  · rename_i h
    have : d ∈ l := by simpa using h
    constructor
    · exact Or.inl
    · rintro (h | rfl)
      · exact h
      · exact this
  · simp

theorem inv_init : Inv [] W.init := ⟨by simp [W.init], by simp [W.init], by simp [W.init]⟩

theorem step_inv (hist : List Msg) (w w' : W) (m : Msg) (o : Out) (h : Inv hist w) (hs : step w m = (w', o)) :
    Inv (hist ++ [m]) w' ∧ (∀ id, o = .executed id → ∀ d, d ∈ reqOf w m → Msg.published d ∈ hist ++ [m]) := by
  cases m with
  | shutdown =>
    simp only [step, Prod.mk.injEq] at hs
    obtain ⟨rfl, rfl⟩ := hs
    refine ⟨⟨?_, ?_, ?_⟩, by simp⟩
    · intro d hd; exact List.mem_append.mpr (Or.inl (h.avail_pub d hd))
    · intro id req hw d hd
      rcases h.wait_pub id req hw d hd with h1 | h1
      · exact Or.inl h1
      · exact Or.inr (List.mem_append.mpr (Or.inl h1))
    · exact h.missing_wait
  | purge ds =>
    simp only [step, Prod.mk.injEq] at hs
    obtain ⟨rfl, rfl⟩ := hs
    refine ⟨⟨?_, ?_, ?_⟩, by simp⟩
    · intro d hd
      simp only [List.mem_filter] at hd
      exact List.mem_append.mpr (Or.inl (h.avail_pub d hd.1))
    · intro id req hw d hd
      rcases h.wait_pub id req hw d hd with h1 | h1
      · exact Or.inl h1
      · exact Or.inr (List.mem_append.mpr (Or.inl h1))
    · exact h.missing_wait
  | published ds =>
    simp only [step] at hs
    have hav : ∀ d, d ∈ addSet w.avail ds → Msg.published d ∈ hist ++ [Msg.published ds] := by
      intro d hd
      rcases (mem_addSet _ _ _).mp hd with h1 | rfl
      · exact List.mem_append.mpr (Or.inl (h.avail_pub d h1))
      · simp
    split at hs
    · rename_i hmiss
      cases hw : w.waiting with
      | none =>
        have := h.missing_wait hw
        simp [this] at hmiss
      | some p =>
        obtain ⟨id, req⟩ := p
        simp only [hw] at hs
        have hwp : ∀ d, d ∈ req → d ∈ w.missing.filter (· != ds) ∨ Msg.published d ∈ hist ++ [Msg.published ds] := by
          intro d hd
          rcases h.wait_pub id req hw d hd with h1 | h1
          · by_cases hdd : d = ds
            · subst hdd; right; simp
            · left; simp [List.mem_filter, h1, hdd]
          · right; exact List.mem_append.mpr (Or.inl h1)
        split at hs
        · rename_i hemp
          simp only [Prod.mk.injEq] at hs
          obtain ⟨rfl, rfl⟩ := hs
          have hnil : w.missing.filter (· != ds) = [] := by simpa using hemp
          refine ⟨⟨hav, by simp, by intro _; exact hnil⟩, ?_⟩
          intro id' _ d hd
          simp only [reqOf, hw, Option.map_some, Option.getD_some] at hd
          rcases hwp d hd with h1 | h1
          · rw [hnil] at h1; simp at h1
          · exact h1
        · simp only [Prod.mk.injEq] at hs
          obtain ⟨rfl, rfl⟩ := hs
          refine ⟨⟨hav, ?_, by simp [hw]⟩, by simp⟩
          intro id' req' hw' d hd
          simp only [hw, Option.some.injEq, Prod.mk.injEq] at hw'
          obtain ⟨rfl, rfl⟩ := hw'
          exact hwp d hd
    · simp only [Prod.mk.injEq] at hs
      obtain ⟨rfl, rfl⟩ := hs
      refine ⟨⟨hav, ?_, h.missing_wait⟩, by simp⟩
      intro id req hw d hd
      rcases h.wait_pub id req hw d hd with h1 | h1
      · exact Or.inl h1
      · exact Or.inr (List.mem_append.mpr (Or.inl h1))
  | taskSeq id required =>
    simp only [step] at hs
    cases hw : w.waiting with
    | some p =>
      simp only [hw, Prod.mk.injEq] at hs
      obtain ⟨rfl, rfl⟩ := hs
      refine ⟨⟨?_, ?_, ?_⟩, by simp⟩
      · intro d hd; exact List.mem_append.mpr (Or.inl (h.avail_pub d hd))
      · intro id' req hw' d hd
        rcases h.wait_pub id' req hw' d hd with h1 | h1
        · exact Or.inl h1
        · exact Or.inr (List.mem_append.mpr (Or.inl h1))
      · intro h0; simp [hw] at h0
    | none =>
      simp only [hw] at hs
      have hreq : ∀ d, d ∈ required → d ∈ required.filter (fun d => !w.avail.contains d) ∨
          Msg.published d ∈ hist ++ [Msg.taskSeq id required] := by
        intro d hd
        by_cases hin : d ∈ w.avail
        · right; exact List.mem_append.mpr (Or.inl (h.avail_pub d hin))
        · left; simp [List.mem_filter, hd, hin]
      split at hs
      · rename_i hemp
        simp only [Prod.mk.injEq] at hs
        obtain ⟨rfl, rfl⟩ := hs
        have hnil : required.filter (fun d => !w.avail.contains d) = [] := by simpa using hemp
        refine ⟨⟨?_, by simp [hw], by simp⟩, ?_⟩
        · intro d hd; exact List.mem_append.mpr (Or.inl (h.avail_pub d hd))
        · intro id' _ d hd
          simp only [reqOf] at hd
          rcases hreq d hd with h1 | h1
          · rw [hnil] at h1; simp at h1
          · exact h1
      · simp only [Prod.mk.injEq] at hs
        obtain ⟨rfl, rfl⟩ := hs
        refine ⟨⟨?_, ?_, by simp⟩, by simp⟩
        · intro d hd; exact List.mem_append.mpr (Or.inl (h.avail_pub d hd))
        · intro id' req' hw' d hd
          simp only [Option.some.injEq, Prod.mk.injEq] at hw'
          obtain ⟨rfl, rfl⟩ := hw'
          exact hreq d hd

theorem execs_sound (w : W) (hist msgs : List Msg) (h : Inv hist w) :
    ∀ e, e ∈ execs w hist msgs → ∀ d, d ∈ e.2.1 → Msg.published d ∈ e.2.2 := by
  induction msgs generalizing w hist with
  | nil => intro e he; simp [execs] at he
  | cons m ms ih =>
    intro e he
    unfold execs at he
    split at he
    · simp at he
    · cases hs : step w m with
      | mk w1 o =>
        have hstep := step_inv hist w w1 m o h hs
        rw [hs] at he
        cases o with
        | raised msg => simp at he
        | executed id =>
          simp only [List.mem_cons] at he
          rcases he with rfl | he
          · intro d hd; exact hstep.2 id rfl d hd
          · exact ih w1 _ hstep.1 e he
        | nothing => exact ih w1 _ hstep.1 e he
        | provided l => exact ih w1 _ hstep.1 e he
        | stop => exact ih w1 _ hstep.1 e he

end Aux

/-- **The worker waits for its inputs.** For every message history, whenever the worker
enters `execute_sequence` for a task sequence, a `DatasetPublished` notice for every dataset
the sequence requires has been received before — however the command and the notices were
interleaved. -/
theorem c02_worker_waits (msgs : List Msg) (id : Nat) (req : List Ds) (hist : List Msg)
    (he : (id, req, hist) ∈ execs W.init [] msgs) : ∀ d, d ∈ req → Msg.published d ∈ hist :=
  Aux.execs_sound W.init [] msgs Aux.inv_init (id, req, hist) he

/-- If a sequence starts immediately on arrival, every dataset it requires is in the worker's
set of currently available (announced and not purged) datasets. -/
theorem c02_worker_immediate (w : W) (id : Nat) (req : List Ds) (w' : W)
    (hs : step w (.taskSeq id req) = (w', .executed id)) : ∀ d, d ∈ req → d ∈ w.avail := by
  simp only [step] at hs
  cases hw : w.waiting with
  | some p => simp [hw] at hs
  | none =>
    simp only [hw] at hs
    split at hs
    · rename_i hemp
      intro d hd
      have hnil : req.filter (fun d => !w.avail.contains d) = [] := by simpa using hemp
      by_cases hin : d ∈ w.avail
      · exact hin
      · have : d ∈ req.filter (fun d => !w.avail.contains d) := by simp [List.mem_filter, hd, hin]
        rw [hnil] at this; simp at this
    · simp at hs

/-- non-vacuity: the command overtakes the notice of its input; execution happens only after it -/
example : execs W.init [] [.taskSeq 7 [(0, 0), (1, 0)], .published (0, 0), .purge (5, 5), .published (1, 0)] =
    [(7, [(0, 0), (1, 0)], [.taskSeq 7 [(0, 0), (1, 0)], .published (0, 0), .purge (5, 5), .published (1, 0)])] := by
  decide

end EkwVerif.Worker
