/-
C10, task SEQUENCES: the stateful `Memory` (`local`, `bufs`, shared memory) and `entrypoint.execute_sequence`
(Model/Runner.lean: `Mem`, `runM`, `execSeq`) against the memory-free description used by the C10 theorems
(`run` against "what `Memory.provide` can find", `memAfter`, `seqSpec`).

Property theorems (`c10_*`):
* `c10_mem_never_corrupted` — over every history of worker operations the "internal data corruption" branch of
  `Memory.provide` is dead;
* `c10_sequence_sees_local` — for every history and every task sequence, `execute_sequence` runs every task against
  exactly what its predecessors in the sequence handled (`memAfter`), published or not;
* `c10_seq_unpublished_visible` — a consumer later in the sequence finds the k-th value a generator producer yielded
  under the k-th declared output, for EVERY publish set;
* `c10_seq_failure_reported` — a `TaskFailure` is sent iff a task of the sequence ended with an error, it names that
  task, and no later task is started;
* `c10_flush_keeps_published` — what `flush()` leaves behind.
-/
import EkwVerif.Props.C10

namespace EkwVerif.Runner
open EkwVerif.Lower
open Aux

namespace AuxSeq

/-- a held buffer always has its local value (`bufs ⊆ keys(local)`) -/
def Inv (m : Mem) : Prop := ∀ ds, ds ∈ m.bufs → (m.loc.lookup ds).isSome = true

theorem inv_empty : Inv Mem.empty := by intro ds h; simp [Mem.empty] at h

theorem lookup_cons_ds (ds d : Ds) (v : Val) (l : List (Ds × Val)) :
    ((ds, v) :: l).lookup d = if d = ds then some v else l.lookup d := by
  simp only [List.lookup_cons]
  by_cases h : d = ds
  · subst h; simp
  · have : (d == ds) = false := by simpa using h
    simp [this, h]

theorem provide_spec (m : Mem) (hI : Inv m) (ds : Ds) :
    (m.find ds = none ∧ m.provide ds = .error .missingInput) ∨
    (∃ v m', m.find ds = some v ∧ m.provide ds = .ok (m', v) ∧ Inv m' ∧ (∀ d, m'.find d = m.find d)) := by
  unfold Mem.provide Mem.find
  cases hl : m.loc.lookup ds with
  | some v => right; exact ⟨v, m, rfl, rfl, hI, fun _ => rfl⟩
  | none =>
    have hnb : m.bufs.contains ds = false := by
      cases hb : m.bufs.contains ds with
      | false => rfl
      | true =>
        have := hI ds (by simpa using hb)
        simp [hl] at this
    simp only [hnb, Bool.false_eq_true, ↓reduceIte]
    cases hs : m.shm.lookup ds with
    | none => left; exact ⟨rfl, rfl⟩
    | some v =>
      right
      refine ⟨v, _, rfl, rfl, ?_, ?_⟩
      · intro d hd
        simp only [List.mem_cons] at hd
        simp only [lookup_cons_ds]
        rcases hd with rfl | hd
        · simp
        · split
          · rfl
          · exact hI d hd
      · intro d
        simp only [lookup_cons_ds]
        by_cases hd : d = ds
        · subst hd; simp [hl, hs]
        · simp [hd]

theorem find_ext (m m' : Mem) (h : ∀ d, m'.find d = m.find d) : m'.find = m.find := funext h

theorem provideAllM_spec (src : List (Param × Ds)) (m : Mem) (hI : Inv m) :
    ∃ m', provideAllM m src = (m', provideAll m.find src) ∧ Inv m' ∧ (∀ d, m'.find d = m.find d) := by
  induction src generalizing m with
  | nil => exact ⟨m, rfl, hI, fun _ => rfl⟩
  | cons e rest ih =>
    obtain ⟨p, ds⟩ := e
    rcases provide_spec m hI ds with ⟨hf, hp⟩ | ⟨v, m1, hf, hp, hI1, hfind⟩
    · refine ⟨m, ?_, hI, fun _ => rfl⟩
      simp [provideAllM, provideAll, hf, hp]
    · obtain ⟨m2, h2, hI2, hfind2⟩ := ih m1 hI1
      have hfe : m1.find = m.find := find_ext _ _ hfind
      refine ⟨m2, ?_, hI2, fun d => (hfind2 d).trans (hfind d)⟩
      simp only [provideAllM, provideAll, hf, hp, h2, hfe]
      cases provideAll m.find rest <;> rfl

theorem handle_find (m : Mem) (ds : Ds) (v : Val) (p : Bool) (d : Ds) :
    (m.handle ds v p).find d = if d = ds then some v else m.find d := by
  by_cases hc : (p && picklable v) = true <;> by_cases hd : d = ds <;>
    simp [Mem.handle, Mem.find, hc, lookup_cons_ds, hd]

theorem handle_inv (m : Mem) (hI : Inv m) (ds : Ds) (v : Val) (p : Bool) : Inv (m.handle ds v p) := by
  intro d hd
  have hb : (m.handle ds v p).bufs = m.bufs := by unfold Mem.handle; split <;> rfl
  have hl : (m.handle ds v p).loc = (ds, v) :: m.loc := by unfold Mem.handle; split <;> rfl
  rw [hb] at hd
  rw [hl, lookup_cons_ds]
  split
  · rfl
  · exact hI d hd

theorem applyHandled_spec (tid : String) (hs : List Handled) (m : Mem) (hI : Inv m) :
    Inv (applyHandled tid m hs) ∧ ∀ d, (applyHandled tid m hs).find d = memAfter tid hs m.find d := by
  induction hs generalizing m with
  | nil =>
    refine ⟨hI, ?_⟩
    intro d
    simp [applyHandled, memAfter, lastLookup]
  | cons h hs ih =>
    obtain ⟨hI', hf⟩ := ih (m.handle ⟨tid, h.output⟩ h.value h.publish) (handle_inv m hI _ _ _)
    refine ⟨hI', ?_⟩
    intro d
    have := hf d
    simp only [applyHandled, List.foldl_cons] at this ⊢
    rw [this]
    simp only [memAfter, handle_find, List.map_cons, lastLookup]
    by_cases ht : d.task = tid
    · simp only [ht, ↓reduceIte]
      cases hl : lastLookup d.output (hs.map (fun h => (h.output, h.value))) with
      | some w => rfl
      | none =>
        simp only
        by_cases ho : h.output = d.output
        · have : d = ⟨tid, h.output⟩ := by cases d; simp_all
          simp [this]
        · have : ¬ d = ⟨tid, h.output⟩ := by
            intro hd; apply ho; rw [hd]
          simp [this, ho]
    · have : ¬ d = ⟨tid, h.output⟩ := by
        intro hd; apply ht; rw [hd]
      simp [ht, this]

/-- **the stateful run refines the memory-free one** -/
theorem runM_spec (tid : String) (t : Task) (edges : List Edge) (m : Mem) (hI : Inv m) (pub : String → Bool)
    (res : Result) :
    (runM tid t edges m pub res).2 = run tid t edges m.find pub res ∧
    Inv (runM tid t edges m pub res).1 ∧
    ∀ d, (runM tid t edges m pub res).1.find d = memAfter tid (run tid t edges m.find pub res).handled m.find d := by
  unfold runM run prepare assemble
  cases hps : paramSource tid edges with
  | error e => exact ⟨rfl, hI, fun d => by simp [memAfter, lastLookup]⟩
  | ok src =>
    obtain ⟨m1, h1, hI1, hf1⟩ := provideAllM_spec src m hI
    simp only [h1]
    cases hpa : provideAll m.find src with
    | error e => exact ⟨by first | rfl | trivial, hI1, fun d => by simp [memAfter, lastLookup, hf1 d]⟩
    | ok ups =>
      simp only
      by_cases hemp : t.outputSchema.isEmpty = true
      · simp only [hemp, ↓reduceIte]
        exact ⟨by first | rfl | trivial, hI1, fun d => by simp [memAfter, lastLookup, hf1 d]⟩
      · simp only [hemp, Bool.false_eq_true, ↓reduceIte]
        obtain ⟨hI2, hf2⟩ := applyHandled_spec tid (store pub t.outputSchema res).1 m1 hI1
        refine ⟨by first | rfl | trivial, hI2, ?_⟩
        intro d
        rw [hf2 d, find_ext _ _ hf1]

theorem lookup_filter_key (l : List (Ds × Val)) (p : Ds → Bool) (d : Ds) :
    (l.filter (fun e => p e.1)).lookup d = if p d then l.lookup d else none := by
  induction l with
  | nil => simp
  | cons e l ih =>
    obtain ⟨k, v⟩ := e
    simp only [List.filter_cons]
    by_cases hk : d = k
    · subst hk
      cases hp : p d <;> simp [hp, ih]
    · cases hpk : p k
      · simp [lookup_cons_ds, hk, ih]
      · simp [lookup_cons_ds, hk, ih]

theorem flush_inv (m : Mem) (hI : Inv m) : Inv m.flush := by
  intro d hd
  simp only [Mem.flush] at hd ⊢
  rw [lookup_filter_key m.loc (fun k => m.bufs.contains k) d]
  have : m.bufs.contains d = true := by simpa using hd
  simp only [this, ↓reduceIte]
  exact hI d hd

theorem pop_inv (m : Mem) (hI : Inv m) (ds : Ds) : Inv (m.pop ds) := by
  intro d hd
  have hd' : d ∈ m.bufs ∧ d ≠ ds := by simpa [Mem.pop] using hd
  have h := lookup_filter_key m.loc (fun k => decide (k ≠ ds)) d
  have : (m.pop ds).loc.lookup d = m.loc.lookup d := by
    unfold Mem.pop
    rw [show (fun e : Ds × Val => decide (e.1 ≠ ds)) = (fun e => (fun k => decide (k ≠ ds)) e.1) from rfl, h]
    simp [hd'.2]
  rw [this]; exact hI d hd'.1

/-- **`execute_sequence` refines the memory-free description of a sequence** -/
theorem execSeq_spec (edges : List Edge) (pub : Ds → Bool) (tasks : List (String × Task × Result)) (m : Mem) (hI : Inv m) :
    (execSeq edges pub m tasks).2.runs = seqSpec edges pub m.find tasks ∧ Inv (execSeq edges pub m tasks).1 := by
  induction tasks generalizing m with
  | nil => exact ⟨rfl, flush_inv m hI⟩
  | cons x rest ih =>
    obtain ⟨tid, t, res⟩ := x
    obtain ⟨h1, hI1, hf1⟩ := runM_spec tid t edges m hI (fun o => pub ⟨tid, o⟩) res
    simp only [execSeq, seqSpec]
    rw [← h1]
    cases he : (runM tid t edges m (fun o => pub ⟨tid, o⟩) res).2.err with
    | some e => exact ⟨rfl, hI1⟩
    | none =>
      simp only
      obtain ⟨h2, hI2⟩ := ih (runM tid t edges m (fun o => pub ⟨tid, o⟩) res).1 hI1
      refine ⟨?_, hI2⟩
      have hfe : (runM tid t edges m (fun o => pub ⟨tid, o⟩) res).1.find =
          memAfter tid (run tid t edges m.find (fun o => pub ⟨tid, o⟩) res).handled m.find := funext hf1
      rw [h2, hfe, ← h1]

theorem bindOutputs_err (pub : String → Bool) (outs : List String) (ys : List Val) :
    (bindOutputs pub outs ys).2 ≠ some .corrupted := by
  induction outs generalizing ys with
  | nil => cases ys <;> simp [bindOutputs]
  | cons o os ih =>
    cases ys with
    | nil => simp [bindOutputs]
    | cons y ys =>
      simp only [bindOutputs]
      split
      · simp
      · exact ih ys

theorem store_err (pub : String → Bool) (outs : List String) (res : Result) :
    (store pub outs res).2 ≠ some .corrupted := by
  match outs, res with
  | _, .raises => simp [store]
  | [], .value _ => simp [store]
  | [], .gen _ => simp [store]
  | [], .genRaise _ => simp [store]
  | [], .lst _ _ => simp [store]
  | [o], .value v => simp only [store]; split <;> simp
  | [o], .gen _ => simp only [store]; split <;> simp
  | [o], .genRaise _ => simp only [store]; split <;> simp
  | [o], .lst self _ => simp only [store]; split <;> simp
  | o₁ :: o₂ :: os, .value _ => simp [store]
  | o₁ :: o₂ :: os, .gen ys =>
    rw [store_gen pub _ ys (by simp)]
    exact bindOutputs_err pub _ ys
  | o₁ :: o₂ :: os, .genRaise ys =>
    rw [store_genRaise pub _ ys (by simp)]
    have := bindOutputs_err pub (o₁ :: o₂ :: os) ys
    simp only
    cases hb : (bindOutputs pub (o₁ :: o₂ :: os) ys).2 with
    | none => simp [afterGenRaise]
    | some e => cases e <;> simp_all [afterGenRaise]
  | o₁ :: o₂ :: os, .lst self ys =>
    rw [store_lst pub _ self ys (by simp)]
    have := bindOutputs_err pub (o₁ :: o₂ :: os) ys
    simp only
    cases hb : (bindOutputs pub (o₁ :: o₂ :: os) ys).2 with
    | none => simp [afterZipLst]
    | some e => cases e <;> simp_all [afterZipLst]

theorem provideAll_err (mem : Ds → Option Val) (src : List (Param × Ds)) (e : Err)
    (h : provideAll mem src = .error e) : e = .missingInput := by
  induction src with
  | nil => simp [provideAll] at h
  | cons x rest ih =>
    obtain ⟨p, ds⟩ := x
    simp only [provideAll] at h
    cases hm : mem ds with
    | none => simp [hm] at h; exact h.symm
    | some v =>
      simp only [hm] at h
      cases hr : provideAll mem rest with
      | error e' => simp [hr] at h; subst h; exact ih hr
      | ok l => simp [hr] at h

theorem run_err (tid : String) (t : Task) (edges : List Edge) (mem : Ds → Option Val) (pub : String → Bool)
    (res : Result) : (run tid t edges mem pub res).err ≠ some .corrupted := by
  unfold run
  cases hp : prepare tid t edges mem with
  | ok recv => exact store_err pub _ res
  | error e =>
    simp only
    unfold prepare assemble at hp
    cases hps : paramSource tid edges with
    | error _ => simp [hps] at hp; subst hp; simp
    | ok src =>
      simp only [hps] at hp
      cases hpa : provideAll mem src with
      | error e' =>
        simp [hpa] at hp; subst hp
        have := provideAll_err mem src e' hpa
        subst this; simp
      | ok ups =>
        simp only [hpa] at hp
        split at hp
        · cases hp; simp
        · cases hp

theorem seqSpec_forall (edges : List Edge) (pub : Ds → Bool) (P : (Ds → Option Val) → Prop)
    (tasks : List (String × Task × Result))
    (hP : ∀ x ∈ tasks, ∀ hs mem, P mem → P (memAfter x.1 hs mem))
    (mem : Ds → Option Val) (h0 : P mem) :
    ∀ e ∈ seqSpec edges pub mem tasks, ∃ t res mem', (e.1, t, res) ∈ tasks ∧ P mem' ∧
      e.2 = run e.1 t edges mem' (fun o => pub ⟨e.1, o⟩) res := by
  induction tasks generalizing mem with
  | nil => intro e he; simp [seqSpec] at he
  | cons x rest ih =>
    obtain ⟨tid, t, res⟩ := x
    intro e he
    simp only [seqSpec] at he
    have hhead : ∃ t' res' mem', (tid, t', res') ∈ (tid, t, res) :: rest ∧ P mem' ∧
        run tid t edges mem (fun o => pub ⟨tid, o⟩) res = run tid t' edges mem' (fun o => pub ⟨tid, o⟩) res' :=
      ⟨t, res, mem, by simp, h0, rfl⟩
    cases herr : (run tid t edges mem (fun o => pub ⟨tid, o⟩) res).err with
    | some _ =>
      simp only [herr, List.mem_singleton] at he
      subst he
      exact hhead
    | none =>
      simp only [herr, List.mem_cons] at he
      rcases he with rfl | he
      · exact hhead
      · obtain ⟨t', res', mem', hm, hp, hr⟩ := ih (fun y hy => hP y (List.mem_cons_of_mem _ hy))
          _ (hP (tid, t, res) (by simp) _ mem h0) e he
        exact ⟨t', res', mem', List.mem_cons_of_mem _ hm, hp, hr⟩

end AuxSeq
open AuxSeq

/-! ## property theorems -/

/-- what can happen to a worker's memory between task sequences -/
inductive WOp where
  | seq (edges : List Edge) (pub : Ds → Bool) (tasks : List (String × Task × Result))   -- a `TaskSequence` is executed
  | fetched (ds : Ds)          -- `DatasetPublished` for a dataset the worker waits for: `memory.provide(ds)`
  | purge (ds : Ds)            -- `DatasetPurge`: `memory.pop(ds)`
  | external (ds : Ds) (v : Val)  -- another worker / the data server puts a dataset into the host's shared memory

def WOp.apply (m : Mem) : WOp → Mem
  | .seq edges pub tasks => (execSeq edges pub m tasks).1
  | .fetched ds => match m.provide ds with
    | .ok (m', _) => m'
    | .error _ => m
  | .purge ds => m.pop ds
  | .external ds v => { m with shm := (ds, v) :: m.shm }

/-- the worker's memory after a history of operations, starting from a fresh `Memory` -/
def history (ops : List WOp) : Mem := ops.foldl WOp.apply Mem.empty

namespace AuxSeq
theorem history_inv (ops : List WOp) : Inv (history ops) := by
  unfold history
  suffices h : ∀ m, Inv m → Inv (ops.foldl WOp.apply m) from h _ inv_empty
  induction ops with
  | nil => intro m h; exact h
  | cons op ops ih =>
    intro m hI
    apply ih
    cases op with
    | seq edges pub tasks => exact (execSeq_spec edges pub tasks m hI).2
    | fetched ds =>
      simp only [WOp.apply]
      rcases provide_spec m hI ds with ⟨_, hp⟩ | ⟨v, m', _, hp, hI', _⟩
      · simp [hp]; exact hI
      · simp [hp]; exact hI'
    | purge ds => exact pop_inv m hI ds
    | external ds v => exact hI
end AuxSeq

/-- **`execute_sequence` runs every task against what its predecessors in the sequence left behind**, for every history
of the worker's memory and every sequence: the runs that `execute_sequence` performs are those of `seqSpec`, in which the
i-th task sees `memAfter` of tasks 1..i-1 over "local value, else shared memory" — a description in which the publish set
does not occur except in each task's own `DatasetPublished` notices. -/
theorem c10_sequence_sees_local (ops : List WOp) (edges : List Edge) (pub : Ds → Bool)
    (tasks : List (String × Task × Result)) :
    (execSeq edges pub (history ops) tasks).2.runs = seqSpec edges pub (history ops).find tasks :=
  (execSeq_spec edges pub tasks _ (history_inv ops)).1

/-- **The "internal data corruption" branch of `Memory.provide` is dead**: over every history of sequences, fetches,
purges and external publications, no task of any sequence ends with that error. What carries the statement: the
stateful `Mem.provide` HAS the corrupted branch (a buffer held for a dataset whose local value is gone); the invariant
`bufs ⊆ keys(local)` (`history_inv`) is preserved by every operation of `WOp`, so the refinement to the memory-free
`run` goes through. NOT covered: operations outside `WOp` -- a buffer closed or a local value deleted by another party
(nothing in the worker's loop does that; the model has no such operation). -/
theorem c10_mem_never_corrupted (ops : List WOp) (edges : List Edge) (pub : Ds → Bool)
    (tasks : List (String × Task × Result)) :
    ∀ r ∈ (execSeq edges pub (history ops) tasks).2.runs, r.2.err ≠ some .corrupted := by
  rw [c10_sequence_sees_local]
  intro r hr
  obtain ⟨t, res, mem', _, _, he⟩ := seqSpec_forall edges pub (fun _ => True) tasks (fun _ _ _ _ _ => trivial) _ trivial r hr
  rw [he]; exact run_err _ _ _ _ _ _

/-- **A consumer in the same sequence sees the producer's values whether or not they were published.** A generator
task `p` with N ≥ 2 declared outputs yields N picklable values and is followed in its `TaskSequence` by tasks with other
ids: every one of them that is started runs against a memory in which the k-th declared output of `p` holds the k-th
yielded value — for EVERY publish set `pub` (in particular `pub = fun _ => false`: nothing leaves the worker). With
`c10_binding` this is the value the consumer's callable receives at the positions naming that output. -/
theorem c10_seq_unpublished_visible (ops : List WOp) (edges : List Edge) (pub : Ds → Bool)
    (p : String) (tp : Task) (ys : List Val) (later : List (String × Task × Result))
    (hN : 2 ≤ tp.outputSchema.length) (hnd : tp.outputSchema.Nodup) (hlen : ys.length = tp.outputSchema.length)
    (hp : AllPicklable ys) (hother : ∀ x ∈ later, x.1 ≠ p)
    (hrecv : (run p tp edges (history ops).find (fun o => pub ⟨p, o⟩) (.gen ys)).received.isSome = true) :
    ∀ e ∈ ((execSeq edges pub (history ops) ((p, tp, .gen ys) :: later)).2.runs).tail,
      ∃ t res mem', (e.1, t, res) ∈ later ∧ e.2 = run e.1 t edges mem' (fun o => pub ⟨e.1, o⟩) res ∧
        ∀ k (hk : k < tp.outputSchema.length), mem' ⟨p, tp.outputSchema[k]⟩ = some (ys[k]'(by omega)) := by
  rw [c10_sequence_sees_local]
  obtain ⟨herr, _, hmem⟩ := c10_yield_binding_partial tp.outputSchema ys hN hnd hlen hp p tp edges (history ops).find
    (fun o => pub ⟨p, o⟩) rfl hrecv
  simp only [seqSpec, herr, List.tail_cons]
  intro e he
  obtain ⟨t, res, mem', hm, hP, hr⟩ := seqSpec_forall edges pub
    (fun mem => ∀ k (hk : k < tp.outputSchema.length), mem ⟨p, tp.outputSchema[k]⟩ = some (ys[k]'(by omega)))
    later
    (by
      intro x hx hs mem hmem' k hk
      have hne := hother x hx
      simp only [memAfter]
      have : ¬ p = x.1 := fun h => hne h.symm
      simp only [this, ↓reduceIte]
      exact hmem' k hk)
    _ (fun k hk => hmem k hk (by omega)) e he
  exact ⟨t, res, mem', hm, hr, hP⟩

/-- non-vacuity: producer `p` (outputs b, a), nothing published, consumer `c` takes `p.a` at position 0 -/
example : ((execSeq [⟨⟨"p", "a"⟩, "c", some 0, none⟩] (fun _ => false) Mem.empty
      [("p", ⟨[], [], [], ["b", "a"]⟩, .gen [.tok "v0", .tok "v1"]),
       ("c", ⟨[(0, .none)], [], [], ["0"]⟩, .value (.tok "w"))]).2.runs.map (fun r => (r.1, r.2.received))) =
    [("p", some ([], [])), ("c", some ([.tok "v1"], []))] := by decide

/-- **Failure of a sequence**: `execute_sequence` sends no `TaskFailure` iff it started every task of the sequence and
none ended with an error; and a `TaskFailure(task, e)` names the last task started, which ended with `e`, every task
before it having succeeded. -/
theorem c10_seq_failure_reported (edges : List Edge) (pub : Ds → Bool) (tasks : List (String × Task × Result)) (m : Mem) :
    ((execSeq edges pub m tasks).2.failed = none →
      (execSeq edges pub m tasks).2.runs.map (·.1) = tasks.map (·.1) ∧
      ∀ r ∈ (execSeq edges pub m tasks).2.runs, r.2.err = none) ∧
    (∀ tid e, (execSeq edges pub m tasks).2.failed = some (tid, e) →
      ∃ r, (execSeq edges pub m tasks).2.runs.getLast? = some (tid, r) ∧ r.err = some e ∧
        ∀ r' ∈ (execSeq edges pub m tasks).2.runs.dropLast, r'.2.err = none) := by
  induction tasks generalizing m with
  | nil => simp [execSeq]
  | cons x rest ih =>
    obtain ⟨tid, t, res⟩ := x
    simp only [execSeq]
    cases he : (runM tid t edges m (fun o => pub ⟨tid, o⟩) res).2.err with
    | some e =>
      simp only
      refine ⟨(by intro h; cases h), ?_⟩
      intro tid' e' h
      simp only [Option.some.injEq, Prod.mk.injEq] at h
      obtain ⟨rfl, rfl⟩ := h
      exact ⟨_, rfl, he, by simp⟩
    | none =>
      simp only
      obtain ⟨ih1, ih2⟩ := ih (runM tid t edges m (fun o => pub ⟨tid, o⟩) res).1
      refine ⟨?_, ?_⟩
      · intro h
        obtain ⟨h1, h2⟩ := ih1 h
        refine ⟨by simp [h1], ?_⟩
        intro r hr
        simp only [List.mem_cons] at hr
        rcases hr with rfl | hr
        · exact he
        · exact h2 r hr
      · intro tid' e' h
        obtain ⟨r, hr1, hr2, hr3⟩ := ih2 tid' e' h
        refine ⟨r, ?_, hr2, ?_⟩
        · rw [List.getLast?_cons, hr1]; rfl
        · intro r' hr'
          have hne : (execSeq edges pub (runM tid t edges m (fun o => pub ⟨tid, o⟩) res).1 rest).2.runs ≠ [] := by
            intro h0; rw [h0] at hr1; simp at hr1
          rw [List.dropLast_cons_of_ne_nil hne] at hr'
          simp only [List.mem_cons] at hr'
          rcases hr' with rfl | hr'
          · exact he
          · exact hr3 r' hr'

/-- **What `flush()` leaves behind** (called after every successful sequence): a dataset is still found afterwards iff a
buffer fetched from shared memory backs it or it is in shared memory — i.e. the outputs of the sequence that were not
published are gone, the published ones are re-read from shared memory. -/
theorem c10_flush_keeps_published (m : Mem) (ds : Ds) :
    m.flush.find ds = if m.bufs.contains ds then m.find ds else m.shm.lookup ds := by
  simp only [Mem.flush, Mem.find]
  rw [lookup_filter_key m.loc (fun k => m.bufs.contains k) ds]
  cases m.bufs.contains ds <;> simp

example : ((execSeq [] (fun ds => ds.output == "a") Mem.empty
      [("p", ⟨[], [], [], ["b", "a"]⟩, .gen [.tok "v0", .tok "v1"])]).1.find ⟨"p", "a"⟩,
    (execSeq [] (fun ds => ds.output == "a") Mem.empty
      [("p", ⟨[], [], [], ["b", "a"]⟩, .gen [.tok "v0", .tok "v1"])]).1.find ⟨"p", "b"⟩) = (some (.tok "v1"), none) := by
  decide

end EkwVerif.Runner
